/-
  C07 / C06 — the two passes of `_tsc_parallel` process EVERY stripe exactly once, for every stripe count, odd ones
  included (an odd count is legal serially; the first pass then has one iteration more than the second).

  `phases_cover`: the stripes processed by the first loop followed by those of the second loop are a permutation of
  `0, 1, …, np-1`, and each job reads exactly its own slice `starts[s] : starts[s+1]`.  A loop bound of `np // 2`
  in the first pass (seeded change C06-e: the passes merged into one loop over stripe PAIRS) leaves the last stripe
  of an odd partition undeposited — its weight is lost, which is C06's conservation clause; `pairs_loop_drops_last`
  shows that on the model vocabulary: the stripes of a pair loop are `0 … 2⌊np/2⌋-1`, which misses `np-1` for odd `np`.
-/
import AbacusVerif.Props.C07

namespace AbacusVerif.TscPar
open AbacusVerif AbacusVerif.Conc

/-- **phases_cover.** -/
theorem phases_cover (starts : List Nat) (np : Nat) (hnp : 1 ≤ np) (hl : starts.length = np + 1) :
    ∃ p1 p2, phases starts = .ok (p1, p2) ∧
      ((p1 ++ p2).map (·.stripe)).Perm (List.range np) ∧
      (∀ j ∈ p1 ++ p2, starts[j.stripe]? = some j.lo ∧ starts[j.stripe + 1]? = some j.hi) := by
  obtain ⟨p1, p2, hp, hj, h1, h2⟩ := starts_index_inbounds starts np hnp hl
  refine ⟨p1, p2, hp, ?_, ?_⟩
  · rw [List.map_append, h1, h2]
    have h := even_odd_perm (fun s => [s]) np
    have e1 : ∀ (f : Nat → Nat) (l : List Nat), (l.map (fun i => [f i])).flatten = l.map f := by
      intro f l; induction l with
      | nil => rfl
      | cons a t ih => simp [ih]
    have e2 : (List.range np).flatMap (fun s => [s]) = List.range np := by
      have := e1 id (List.range np)
      simpa [List.flatMap] using this
    rw [e1 (fun i => 2 * i), e1 (fun i => 2 * i + 1), e2] at h
    exact h
  · intro j hjm
    obtain ⟨_, hlo, hhi, a, b⟩ := hj j hjm
    rw [hlo] at a; rw [hhi] at b; exact ⟨a, b⟩

/-- the stripes a loop over `np / 2` stripe PAIRS visits (both parities inside one iteration) -/
def pairStripes (np : Nat) : List Nat := (List.range (np / 2)).flatMap (fun i => [2 * i, 2 * i + 1])

/-- **pairs_loop_drops_last.**  For an odd stripe count the pair loop never visits the last stripe. -/
theorem pairs_loop_drops_last (np : Nat) (hodd : np % 2 = 1) : np - 1 ∉ pairStripes np := by
  unfold pairStripes
  simp only [List.mem_flatMap, List.mem_range, List.mem_cons, List.not_mem_nil, or_false, not_exists, not_and]
  intro i hi h
  omega

example : ((phases [0, 2, 2, 5, 7, 9]).toOption.map (fun p => (p.1 ++ p.2).map (·.stripe))) = some [0, 2, 4, 1, 3] := by
  decide
example : pairStripes 5 = [0, 1, 2, 3] := by decide

end AbacusVerif.TscPar
