/-
  C11 — the in-bounds corollaries of the kernels that are modelled with their own properties.

  Every one of these models routes each array access through the Python index rule
  (`pyIndex`/`idx`), so "the model run returns `.ok …`" says that no element access of the kernel
  is outside its array.  Collected here so that C11's obligations name them explicitly.
-/
import AbacusVerif.Props.C01
import AbacusVerif.Props.C06
import AbacusVerif.Props.C08
import AbacusVerif.Props.C07
import AbacusVerif.Props.C10
import AbacusVerif.Props.C15
import AbacusVerif.Props.C17

namespace AbacusVerif.Inbounds
open AbacusVerif

/-- TSC/CIC (C06): on an axis of ANY size `g ≥ 1`, for ANY non-negative rounded cell `ix` — whatever the
floating-point grid coordinate rounded to — the three subscripts `ix−1, ix, ix+1` resolve inside the axis. -/
theorem tsc_cic_axis_inbounds {g : ℕ} (hg : 1 ≤ g) {ix : ℤ} (hix : 0 ≤ ix) {δ : ℤ}
    (hδ : δ = -1 ∨ δ = 0 ∨ δ = 1) : ∃ k, Mass.cellOf g (ix + δ) = .ok k ∧ k < g :=
  ⟨_, (Mass.axis_indices_inbounds_any_ix hg hix hδ).1, (Mass.axis_indices_inbounds_any_ix hg hix hδ).2⟩

/-- TSC/CIC (C06): a whole deposit of in-domain particles on a well-formed configuration (1-cell-thick and
2-cell axes included) never faults. -/
theorem tsc_cic_scatter_inbounds {c : Mass.Cfg} (hc : Mass.GoodCfg c) (grid : List ℚ)
    {parts : List Mass.Particle} (hd : ∀ pt ∈ parts, Mass.InDomain c pt) :
    Mass.scatter c grid parts ≠ .error .oob := by
  obtain ⟨r, hr⟩ := Mass.scatter_no_fault hc grid hd
  rw [hr]; intro h; cases h

/-- `_tsc_parallel` (C07): for every stripe count `np ≥ 1` (odd ones too) both loops read only
`starts[0..np]`. -/
theorem tscpar_starts_inbounds (starts : List Nat) (np : Nat) (hnp : 1 ≤ np) (hl : starts.length = np + 1) :
    ∃ p1 p2, TscPar.phases starts = .ok (p1, p2) ∧ ∀ j ∈ p1 ++ p2, j.hiIdx ≤ np := by
  obtain ⟨p1, p2, h, hj, _⟩ := TscPar.starts_index_inbounds starts np hnp hl
  exact ⟨p1, p2, h, fun j hjm => (hj j hjm).1⟩

/-- HOD two-pass kernels (C10): for every thread count `T ≥ 1` and every monotone block sequence
(more threads than hosts and empty tables included) neither pass faults. -/
theorem twopass_inbounds (keep b : List Nat) (T H : Nat) (hT : 1 ≤ T) (hb : TwoPass.BlockSeq b T H)
    (hk : keep.length = H) : ∃ o, TwoPass.twoPass keep b T = .ok o := by
  obtain ⟨o, ho, _⟩ := TwoPass.twoPass_run keep b T H hT hb hk
  exact ⟨o, ho⟩

/-- `fast_concatenate` (C10): with two non-empty inputs and `T ≥ 2` threads every output index
`0 … N1+N2−1` is written exactly once and nothing else is touched. -/
theorem concat_inbounds {α} (blocks : Nat → Nat → List Nat) (a1 a2 : List α) (T : Nat)
    (h1 : 0 < a1.length) (h2 : 0 < a2.length) (hT : 2 ≤ T)
    (hb1 : TwoPass.BlockSeq (blocks a1.length (TwoPass.threadSplit a1.length a2.length T).1)
      (TwoPass.threadSplit a1.length a2.length T).1 a1.length)
    (hb2 : TwoPass.BlockSeq (blocks a2.length (T - (TwoPass.threadSplit a1.length a2.length T).1))
      (T - (TwoPass.threadSplit a1.length a2.length T).1) a2.length) :
    ∃ ws, TwoPass.fastConcatWith blocks a1 a2 T = .ok (.fresh (a1.length + a2.length) ws) ∧
      ws.map (·.1) = List.range (a1.length + a2.length) := by
  obtain ⟨_, _, _, ws, h, _, hidx, _⟩ := TwoPass.fastConcat_spec blocks a1 a2 T h1 h2 hT hb1 hb2
  exact ⟨ws, h, hidx⟩

/-- pack9 (C15): with outputs of at least as many rows as there are particle records (the tightest legal
size) the decoder writes rows `0 … npart−1` only — header records, trailing ones included, write nothing. -/
theorem pack9_inbounds (s : List Pack9.Rec) (box velz : Rat) (pl vl : Option Nat) (hok : Pack9.HeadersOk s)
    (hp : Pack9.Fits pl (Pack9.nonHeaders s).length) (hv : Pack9.Fits vl (Pack9.nonHeaders s).length) :
    ∃ o, Pack9.unpackKernel s box velz pl vl = .ok o ∧
      (∀ L, pl = some L → ∀ w ∈ o.posW, w.1 < L) ∧ (∀ L, vl = some L → ∀ w ∈ o.velW, w.1 < L) := by
  obtain ⟨o, h, _, hpw, hvw⟩ := Pack9.unpack_write_index s box velz pl vl hok hp hv
  exact ⟨o, h, fun L hL => (hpw L hL).2, fun L hL => (hvw L hL).2⟩

/-- `partition_parallel` (C17): the scatter writes each of the `N` output slots exactly once (a permutation
of `range N`), for every thread count and block sequence. -/
theorem partition_inbounds {α} (np T : Nat) (b : List Nat) (keyed : List (Nat × α))
    (hb : Partition.BlocksOK T keyed.length b) (hk : Partition.KeysOK np keyed) :
    ((Partition.allWrites (Partition.countsTFlat np (Partition.threadsOf b) (keyed.map (·.1))) T
      (Partition.threadsOf b) keyed).map (·.1)).Perm (List.range keyed.length) :=
  (Partition.scatter_indices_perm np T b keyed hb hk).1

/-- subsample zipper (C01): on a well-formed catalog (every kept, not-cleaned-away halo's range inside its
particle file, merge ranges inside the cleaning file; zero-particle halos and empty superslabs allowed) the
reader's index arithmetic and zipper never index outside a file or the subsample table, and no slice
assignment has mismatching lengths. -/
theorem zipper_inbounds {α} (o : Catalog.Opts) (slabs : List (Catalog.Slab α)) (h : Catalog.wfE o slabs) :
    Catalog.load o slabs ≠ .error .oob ∧ Catalog.load o slabs ≠ .error .badLength :=
  Catalog.zipper_inbounds o slabs h

/-- `bin_kmu` (C08): for every mesh size and every non-empty k-edge list — modes beyond the last edge
included — with mu edges reaching 1, the carried bin searches and the accumulations stay inside the edge,
count and mesh arrays, for every assignment of rows to threads. -/
theorem kmu_search_inbounds (n T : Nat) (assign : Nat → Nat) (ek em : List Rat)
    (hek : ek ≠ []) (hem : em.tail ≠ []) (h1 : 1 ≤ em.tail.getLast hem) (hT : ∀ i < n, assign i < T) :
    ∃ ts, Binning.allThreads (Binning.kmuRow n ek em (Binning.halfShape n)) n T assign = .ok ts :=
  let ⟨ts, h, _⟩ := Binning.kmu_search_inbounds n T assign ek em hek hem h1 hT
  ⟨ts, h⟩

/-- `bin_kppi` (C08): likewise, for every pi binning with at least one bin (kz beyond the last pi edge
included: the range guard precedes the search). -/
theorem kppi_search_inbounds (n T : Nat) (assign : Nat → Nat) (ek ep : List Rat)
    (hek : ek ≠ []) (hep : ep.tail ≠ []) (hT : ∀ i < n, assign i < T) :
    ∃ ts, Binning.allThreads (Binning.kppiRow n ek ep (Binning.halfShape n)) n T assign = .ok ts :=
  let ⟨ts, h, _⟩ := Binning.kppi_search_inbounds n T assign ek ep hek hep hT
  ⟨ts, h⟩

end AbacusVerif.Inbounds
