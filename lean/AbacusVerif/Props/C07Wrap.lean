/-
  C07 — `tsc_parallel(wrap=True)`: the periodic wrap `_wrap_inplace` comes FIRST, then the partition.

  `tsc_parallel_eq_serial` (Props/C07Link.lean) speaks about particles inside `[0, Box]` along the partition
  axis, because the stripe key of `partition_parallel` is only the owner of a particle's rows there.  With
  `wrap=True` (the default) the caller may pass particles up to one box outside; `tsc_parallel` wraps them in
  place before anything else.  This file composes C06's `wrap_inplace_spec` with the link theorem:

  * `wrapped_partOK`: a particle whose three coordinates lie within one box either side of `[0, Box)` satisfies,
    after `_wrap_inplace`, the hypotheses `tsc_parallel_eq_serial` puts on a particle (for any non-negative offset);
  * `tsc_parallel_wrap_eq_serial`: hence for every accepted configuration, every thread count / thread blocks and
    EVERY schedule of the two loops, the grid is the one C06's serial scatter of the wrapped particle list leaves
    (which, by C06's `deposit_is_kernel` + `imageSum_shift`, is the periodic deposit of the original particles);
  * `wrap_after_partition_wrong_owner`: why the order matters — a particle half a cell below 0 is keyed into the
    LAST stripe's neighbourhood only after wrapping; keyed before wrapping it is owned by stripe 0 (the negative
    key wraps around to the last stripe only at −1 … but the rows it writes after wrapping, 10 11 0, are those of
    stripes 3 and 0): the concrete witness below shows key-before-wrap ≠ key-after-wrap, which is the seeded change
    C07-d (wrap applied to the partitioned copy).
-/
import AbacusVerif.Props.C07Link

namespace AbacusVerif.TscLink
open AbacusVerif AbacusVerif.Conc

/-- all three coordinates within one box either side of `[0, Box)` -/
def WithinOneBox (box : ℚ) (pt : Mass.Particle) : Prop :=
  (-box ≤ pt.x ∧ pt.x < 2 * box) ∧ (-box ≤ pt.y ∧ pt.y < 2 * box) ∧ (-box ≤ pt.z ∧ pt.z < 2 * box)

theorem ax_pos_wrap (box : ℚ) (pt : Mass.Particle) (ax : Ax) :
    ax.pos (Mass.wrapParticle box pt) = Mass.wrap1 box (ax.pos pt) := by
  cases ax <;> rfl

private theorem gridCoord_nonneg {c : Mass.Cfg} (hk : c.kind = .tsc) (hbox : 0 < c.box) (hoff : 0 ≤ c.off)
    {x : ℚ} (hx : 0 ≤ x) (g : ℕ) : 0 ≤ Mass.gridCoord c x g := by
  unfold Mass.gridCoord
  rw [hk]
  have : (0 : ℚ) ≤ (g : ℚ) / c.box := div_nonneg (Nat.cast_nonneg g) hbox.le
  exact mul_nonneg (by linarith) this

/-- **wrapped_partOK.**  After `_wrap_inplace`, a particle within one box of the domain satisfies the
per-particle hypothesis of `tsc_parallel_eq_serial`, whatever the partition axis. -/
theorem wrapped_partOK (c : Mass.Cfg) (ax : Ax) (hk : c.kind = .tsc) (hc : Mass.GoodCfg c) (hbox : 0 < c.box)
    (hoff : 0 ≤ c.off) (pt : Mass.Particle) (h : WithinOneBox c.box pt) :
    PartOK c ax (Mass.wrapParticle c.box pt) := by
  obtain ⟨⟨hx1, hx2⟩, ⟨hy1, hy2⟩, ⟨hz1, hz2⟩⟩ := h
  have wx := Mass.wrap_inplace_spec hx1 hx2
  have wy := Mass.wrap_inplace_spec hy1 hy2
  have wz := Mass.wrap_inplace_spec hz1 hz2
  obtain ⟨_, hgx, hgy, hgz⟩ := hc
  refine ⟨?_, ?_, ?_, ?_, ?_⟩
  · rw [ax_pos_wrap]; cases ax <;> simp only [Ax.pos] <;> first | exact wx.1 | exact wy.1 | exact wz.1
  · rw [ax_pos_wrap]; cases ax <;> simp only [Ax.pos] <;> first | exact wx.2.1.le | exact wy.2.1.le | exact wz.2.1.le
  · have h0 := gridCoord_nonneg hk hbox hoff wx.1 c.gx
    have : (1 : ℚ) ≤ (c.gx : ℚ) := by exact_mod_cast hgx
    show -(c.gx : ℚ) + 1 ≤ Mass.gridCoord c (Mass.wrap1 c.box pt.x) c.gx
    linarith
  · have h0 := gridCoord_nonneg hk hbox hoff wy.1 c.gy
    have : (1 : ℚ) ≤ (c.gy : ℚ) := by exact_mod_cast hgy
    show -(c.gy : ℚ) + 1 ≤ Mass.gridCoord c (Mass.wrap1 c.box pt.y) c.gy
    linarith
  · intro _
    have h0 := gridCoord_nonneg hk hbox hoff wz.1 c.gz
    have : (1 : ℚ) ≤ (c.gz : ℚ) := by exact_mod_cast hgz
    show -(c.gz : ℚ) + 1 ≤ Mass.gridCoord c (Mass.wrap1 c.box pt.z) c.gz
    linarith

/-- **tsc_parallel_wrap_eq_serial.**  `tsc_parallel(..., wrap=True)`: `_wrap_inplace` first, then the pipeline of
`tsc_parallel_eq_serial` on the wrapped positions.  For particles up to one box outside `[0, Box)` on every axis,
every accepted stripe count, every thread count and thread blocks, an offset between 0 and one cell, nothing
faults and for EVERY schedule of the first loop followed by EVERY schedule of the second the grid equals, cell by
cell, C06's serial scatter of the wrapped particle list. -/
theorem tsc_parallel_wrap_eq_serial (c : Mass.Cfg) (ax : Ax) (hk : c.kind = .tsc) (hc : Mass.GoodCfg c)
    (hbox : 0 < c.box) (hoff : 0 ≤ c.off) (np T : Nat) (hnp : 1 ≤ np)
    (hsafe : np = 1 ∨ np = 2 ∨ (2 ∣ np ∧ 3 * np ≤ ax.g c))
    (ho1 : c.off * ((ax.g c : ℚ) / c.box) ≤ 1)
    (parts : List Mass.Particle) (hparts : ∀ pt ∈ parts, WithinOneBox c.box pt)
    (b : List Nat) (hT : 0 < T) (hb : Partition.BlocksOK T parts.length b)
    (init : List Mass.Particle) (hinit : init.length = parts.length) (grid : List ℚ) :
    ∃ keys o p1 p2 W1 W2 r,
      (Mass.wrapInplace c.box parts).mapM (fun pt => Partition.effKey np c.box (ax.pos pt)) = .ok keys ∧
      Partition.partition np T b (keys.zip (Mass.wrapInplace c.box parts)) init none = .ok o ∧
      TscPar.phases o.starts = .ok (p1, p2) ∧
      p1.mapM (fun j => Mass.allWrites c (Partition.slice j.lo j.hi o.psort)) = .ok W1 ∧
      p2.mapM (fun j => Mass.allWrites c (Partition.slice j.lo j.hi o.psort)) = .ok W2 ∧
      Mass.scatter c grid (Mass.wrapInplace c.box parts) = .ok r ∧
      ∀ (r0 : ℚ) (m : Mem ℚ), (∀ i (h : i < grid.length), m i = grid[i]) →
      ∀ (sched1 sched2 : List Nat),
        ((start r0 m (W1.map rmwProg)).run sched1).finished →
        ((start r0 ((start r0 m (W1.map rmwProg)).run sched1).mem (W2.map rmwProg)).run sched2).finished →
        ∀ i (h : i < r.length),
          ((start r0 ((start r0 m (W1.map rmwProg)).run sched1).mem (W2.map rmwProg)).run sched2).mem i = r[i] := by
  have hlen : (Mass.wrapInplace c.box parts).length = parts.length := by simp [Mass.wrapInplace]
  have ho0 : 0 ≤ c.off * ((ax.g c : ℚ) / c.box) :=
    mul_nonneg hoff (div_nonneg (Nat.cast_nonneg _) hbox.le)
  refine tsc_parallel_eq_serial c ax hk hc hbox np T hnp hsafe ho0 ho1 (Mass.wrapInplace c.box parts) ?_ b hT
    (by rw [hlen]; exact hb) init (by rw [hlen]; exact hinit) grid
  intro pt hpt
  simp only [Mass.wrapInplace, List.mem_map] at hpt
  obtain ⟨q, hq, rfl⟩ := hpt
  exact wrapped_partOK c ax hk hc hbox hoff q (hparts q hq)

/-- the hypotheses are satisfiable by particles genuinely outside the box -/
example : WithinOneBox 12 { x := -1/2, y := 47/2, z := 5, w := 1 } := by
  unfold WithinOneBox; norm_num

/-- **why the wrap must precede the partition** (the seeded change C07-d applied it to the partitioned copy): half a
cell below zero, 12 cells, 4 stripes.  Keyed before wrapping, the particle is put into stripe 0 (truncation toward
zero of −1/6); its wrapped position 23/2 belongs to stripe 3.  Stripes 0 and 2 run in the same `prange`, and so do
1 and 3 — the rows 10, 11, 0 it writes after wrapping are then written from stripe 0's job concurrently with
stripe 2's neighbourhood (row 9 … 11 for a particle at 10.4), which `rows_disjoint` no longer covers. -/
example : Partition.effKey 4 12 (-1/2) = .ok 0 ∧ Partition.effKey 4 12 (Mass.wrap1 12 (-1/2)) = .ok 3 := by
  decide +kernel

end AbacusVerif.TscLink
