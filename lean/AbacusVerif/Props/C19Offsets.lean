/-
  C19 — what the callers of `cumsum` rely on when they use its output as an OFFSET TABLE
  (`compaso_halo_catalog._compute_new_subsample_indices`: `npstart = cumsum(npout, initial=True, final=False)`;
  `hod/menv.py`: per-cell start offsets from per-cell counts).

  * `psum_succ` (Lemmas/C19) / `selected_step` — the defining recurrence, with no algebraic law of `+` (so also for wrap-around
    machine words): every written cell is the previous written cell plus the corresponding input element, i.e.
    `start[k+1] = start[k] + count[k]` — consecutive slices `[start[k], start[k] + count[k])` are contiguous.
  * over the naturals (counts are non-negative): `psum_mono` (the table is non-decreasing), `psum_ge_offset`,
    `psum_le_total`, `slice_within` (every slice lies inside `[offset, total)`) and `slices_disjoint`
    (the slice of an earlier row ends before the slice of a later row starts).
  * `offsets_spec` — the statements above read off the cells the routine WRITES (through `cumsum_spec`), for the
    flag settings `initial = True, final = False` (`offsets_spec`) and
    `initial = final = True` with an `N+1`-cell table, the package's own call pattern (`offsets_spec_full`).
-/
import AbacusVerif.Props.C19

namespace AbacusVerif.Cumsum
open AbacusVerif

section generic
variable {α : Type} [Add α]

/-- **selected_step.**  With both flags on (all `N+1` sums) cell `k+1` of the output is cell `k` plus `arr[k]`;
cell 0 is the offset. -/
theorem selected_step (off : α) (arr : List α) :
    selected off arr true true = (List.range (arr.length + 1)).map (psum off arr) ∧
    psum off arr 0 = off ∧
    ∀ k (hk : k < arr.length), psum off arr (k + 1) = psum off arr k + arr[k] := by
  refine ⟨?_, ?_, fun k hk => psum_succ off arr k hk⟩
  · simp [selected]
  · simp [psum]

end generic

/-! ### counts are naturals: the offset table is monotone and its slices tile `[offset, total)` -/

theorem psum_le_succ (off : Nat) (arr : List Nat) (k : Nat) : psum off arr k ≤ psum off arr (k + 1) := by
  by_cases hk : k < arr.length
  · rw [psum_succ off arr k hk]; omega
  · have h1 : arr.take (k + 1) = arr := List.take_of_length_le (by omega)
    have h2 : arr.take k = arr := List.take_of_length_le (by omega)
    unfold psum; rw [h1, h2]; exact Nat.le_refl _

/-- **psum_mono.**  The offset table is non-decreasing. -/
theorem psum_mono (off : Nat) (arr : List Nat) {k m : Nat} (h : k ≤ m) : psum off arr k ≤ psum off arr m := by
  induction m with
  | zero => have : k = 0 := by omega
            subst this; exact Nat.le_refl _
  | succ m ih =>
    by_cases hk : k = m + 1
    · subst hk; exact Nat.le_refl _
    · exact Nat.le_trans (ih (by omega)) (psum_le_succ off arr m)

theorem psum_ge_offset (off : Nat) (arr : List Nat) (k : Nat) : off ≤ psum off arr k := by
  have h := psum_mono off arr (Nat.zero_le k)
  simpa [psum] using h

theorem psum_le_total (off : Nat) (arr : List Nat) (k : Nat) : psum off arr k ≤ psum off arr arr.length := by
  by_cases hk : k ≤ arr.length
  · exact psum_mono off arr hk
  · have h1 : arr.take k = arr := List.take_of_length_le (by omega)
    unfold psum; rw [h1, List.take_length]; exact Nat.le_refl _

/-- **slice_within.**  Row `k`'s slice `[s_k, s_k + arr[k])` lies inside `[offset, total)`. -/
theorem slice_within (off : Nat) (arr : List Nat) (k : Nat) (hk : k < arr.length) :
    off ≤ psum off arr k ∧ psum off arr k + arr[k] ≤ psum off arr arr.length := by
  refine ⟨psum_ge_offset off arr k, ?_⟩
  rw [← psum_succ off arr k hk]
  exact psum_mono off arr (by omega)

/-- **slices_disjoint.**  For rows `i < j` the slice of row `i` ends at or before the start of row `j`'s slice. -/
theorem slices_disjoint (off : Nat) (arr : List Nat) (i j : Nat) (hij : i < j) (hi : i < arr.length) :
    psum off arr i + arr[i] ≤ psum off arr j := by
  rw [← psum_succ off arr i hi]
  exact psum_mono off arr (by omega)

/-- **offsets_spec.**  The reader's call `cumsum(counts, starts, initial=True, final=False, offset=off)` with
`|starts| = |counts|` does not fault, returns `off + Σ counts`, and the cells it writes form an offset table:
cell `k` holds `s_k`, the slices `[s_k, s_k + counts[k])` are contiguous (`s_k + counts[k] = s_{k+1}`), pairwise
disjoint in row order, and the last one ends at the returned total. -/
theorem offsets_spec (counts : List Nat) (off : Nat) :
    ∃ s, cumsum counts counts.length true false off = .ok s ∧
      s.writes = (List.range counts.length).map (fun k => (k, psum off counts k)) ∧
      s.total = psum off counts counts.length ∧
      (∀ k (hk : k < counts.length), psum off counts k + counts[k] = psum off counts (k + 1)) ∧
      (∀ i j (_ : i < j) (hi : i < counts.length), psum off counts i + counts[i] ≤ psum off counts j) ∧
      (∀ k (hk : k < counts.length), off ≤ psum off counts k ∧ psum off counts k + counts[k] ≤ s.total) := by
  have hlen : ((counts.length : Nat) : Int) = expectedLen counts.length true false := by
    simp [expectedLen, b2n]
  obtain ⟨s, hs, htot, hw, _, _⟩ := cumsum_spec counts counts.length true false off hlen
  refine ⟨s, hs, ?_, htot, fun k hk => (psum_succ off counts k hk).symm,
    fun i j hij hi => slices_disjoint off counts i j hij hi, fun k hk => ?_⟩
  · rw [hw, selected_eq counts counts.length true false off hlen]
    apply List.ext_getElem <;> simp [b2n]
  · rw [htot]; exact slice_within off counts k hk

/-- **offsets_spec_full.**  The call pattern of the package itself (`_compute_new_subsample_indices`, the per-file halo
offsets of `_load_subsamples`, `menv.py`): `cumsum(counts, starts, initial=True, final=True, offset=off)` with
`|starts| = |counts| + 1`.  No fault; cell `k` holds `s_k` for every `k ≤ N`; the last cell IS the returned total;
rows tile `[starts[0], starts[N])` contiguously and disjointly in row order. -/
theorem offsets_spec_full (counts : List Nat) (off : Nat) :
    ∃ s, cumsum counts (counts.length + 1) true true off = .ok s ∧
      s.writes = (List.range (counts.length + 1)).map (fun k => (k, psum off counts k)) ∧
      s.total = psum off counts counts.length ∧ psum off counts 0 = off ∧
      (∀ k (hk : k < counts.length), psum off counts k + counts[k] = psum off counts (k + 1)) ∧
      (∀ i j (_ : i < j) (hi : i < counts.length), psum off counts i + counts[i] ≤ psum off counts j) ∧
      (∀ k, k ≤ counts.length → off ≤ psum off counts k ∧ psum off counts k ≤ s.total) := by
  have hlen : ((counts.length + 1 : Nat) : Int) = expectedLen counts.length true true := by
    simp [expectedLen, b2n]
  obtain ⟨s, hs, htot, hw, _, _⟩ := cumsum_spec counts (counts.length + 1) true true off hlen
  refine ⟨s, hs, ?_, htot, by simp [psum], fun k hk => (psum_succ off counts k hk).symm,
    fun i j hij hi => slices_disjoint off counts i j hij hi, fun k hk => ?_⟩
  · rw [hw, selected_eq counts (counts.length + 1) true true off hlen]
    apply List.ext_getElem <;> simp [b2n]
  · rw [htot]; exact ⟨psum_ge_offset off counts k, psum_mono off counts hk⟩

example :
    ∃ s, cumsum [2, 0, 3] 4 true true (10 : Nat) = .ok s ∧
      applyWrites [0, 0, 0, 0] s.writes = [10, 12, 12, 15] ∧ s.total = 15 := by
  refine ⟨_, rfl, ?_, ?_⟩ <;> decide

/-- non-vacuity: counts `[2, 0, 3]` from offset 10 → starts `[10, 12, 12]`, total 15; the zero-count row has an
empty slice at 12 and the rows tile `[10, 15)`. -/
example :
    ∃ s, cumsum [2, 0, 3] 3 true false (10 : Nat) = .ok s ∧
      applyWrites [0, 0, 0] s.writes = [10, 12, 12] ∧ s.total = 15 := by
  refine ⟨_, rfl, ?_, ?_⟩ <;> decide

example : psum 10 [2, 0, 3] 1 + [2, 0, 3][1] ≤ psum 10 [2, 0, 3] 2 := by decide

end AbacusVerif.Cumsum
