/-
  C14 — Blosc block decompression is independent of how the stream is chunked.

  Property theorems about `AbacusVerif.Blsc.decompress` / `.compress` (Model/C14.lean), for every
  well-formed stream (any number of frames, any payload sizes below 2^32), **every** chunking of it
  (chunks of length 0 and 1 included, boundaries anywhere) and every codec.
-/
import AbacusVerif.Lemmas.C14

namespace AbacusVerif.Blsc
open AbacusVerif

/-- **feed_invariant.**  After any chunking `cs` of any prefix of a well-formed stream (`r` = the
unread rest), decompression has not failed, the frames handed to the codec are a prefix `out` of
the stream's payloads, and the state encodes exactly the rest of what was consumed: the bytes read
so far are the `out` frames followed by `st.pending` — a partial length prefix (`_partial_len`,
fewer than 4 bytes, `_size = 0`, no buffer) or a complete prefix `be32 _size` plus the `_pos` bytes
collected in `_buffer` (fewer than `_size`) — and what `st.pending ++ r` continues with is the
stream of the payloads still owed. -/
theorem feed_invariant (ps : List Bytes) (hwf : WF ps) (cs : List Bytes) (r : Bytes)
    (h : cs.flatten ++ r = stream ps) :
    ∃ out qs st, decompress cs = .ok (out, st) ∧ ps = out ++ qs ∧
      cs.flatten = stream out ++ st.pending ∧ st.Shaped ∧ st.pending ++ r = stream qs := by
  obtain ⟨st, out, qs, hd, hq, hr⟩ := decompress_spec hwf h
  have hwfq : WF qs := WF_append_right (hq ▸ hwf)
  obtain ⟨hp, hs⟩ := Rel_pending hwfq hr
  refine ⟨out, qs, st, hd, hq, ?_, hs, hp⟩
  apply List.append_cancel_right (bs := r)
  rw [h, hq, stream_append, List.append_assoc, hp]

-- non-vacuity: the stream of payloads [aa bb], [cc] cut inside the second prefix (1-byte chunks,
-- an empty chunk): one frame handed over, 2 prefix bytes pending
example : WF [[0xaa, 0xbb], [0xcc]] := by decide
example : decompress [[0, 0], [0], [], [2, 0xaa], [0xbb, 0, 0]] =
    .ok ([[0xaa, 0xbb]], ⟨0, [0, 0], none, 2⟩) := by decide
example : ([[0, 0], [0], [], [2, 0xaa], [0xbb, 0, 0]] : List Bytes).flatten ++ [0, 1, 0xcc] =
    stream [[0xaa, 0xbb], [0xcc]] := by decide

/-- **decompress_chunking_independent.**  For every well-formed stream and every chunking of it, the
byte strings handed to the codec are exactly the stream's payloads, in order, and the final state
is idle (`_size = 0`, `_partial_len = b''`, `_buffer is None`; `_pos` is dead in that state). -/
theorem decompress_chunking_independent (ps : List Bytes) (hwf : WF ps) (cs : List Bytes)
    (h : cs.flatten = stream ps) :
    ∃ st, decompress cs = .ok (ps, st) ∧ st.Idle := by
  obtain ⟨st, out, qs, hd, hq, hr⟩ := decompress_spec (r := []) hwf (by simpa using h)
  obtain ⟨hnil, hidle⟩ := Rel_end hr
  subst hnil
  exact ⟨st, by simpa [hq] using hd, hidle⟩

-- non-vacuity: three chunkings of the same two-frame stream, one with 1-byte and empty chunks
example : decompress [[0, 0, 0, 2, 0xaa, 0xbb, 0, 0, 0, 1, 0xcc]] =
    .ok ([[0xaa, 0xbb], [0xcc]], St.init) := by decide
example : decompress [[0], [0], [], [0], [2], [0xaa], [0xbb], [0], [0], [0], [1], [], [0xcc], []] =
    .ok ([[0xaa, 0xbb], [0xcc]], ⟨0, [], none, 1⟩) := by decide
example : decompress [[0, 0, 0], [2, 0xaa, 0xbb, 0, 0], [0, 1, 0xcc]] =
    .ok ([[0xaa, 0xbb], [0xcc]], St.init) := by decide

/-- the output buffer and the returned length are functions of the frames handed to the codec:
`bytesout` is the sum of the decoded lengths -/
theorem bytesOut_sum (dec : Bytes → Bytes) (frames : List Bytes) :
    bytesOut dec frames = (frames.map (fun f => (dec f).length)).sum := by
  induction frames with
  | nil => rfl
  | cons f fs ih =>
    have := bytesOut_append dec [f] fs
    simp only [List.singleton_append] at this
    rw [this, ih]
    simp [bytesOut, output]

/-- **decompress_same_for_all_chunkings.**  Two chunkings of the same well-formed stream give the
same frames (hence the same output bytes and the same reported length). -/
theorem decompress_same_for_all_chunkings (ps : List Bytes) (hwf : WF ps) (cs₁ cs₂ : List Bytes)
    (h₁ : cs₁.flatten = stream ps) (h₂ : cs₂.flatten = cs₁.flatten) :
    ∃ st₁ st₂, decompress cs₁ = .ok (ps, st₁) ∧ decompress cs₂ = .ok (ps, st₂) ∧
      st₁.Idle ∧ st₂.Idle := by
  obtain ⟨st₁, hd₁, hi₁⟩ := decompress_chunking_independent ps hwf cs₁ h₁
  obtain ⟨st₂, hd₂, hi₂⟩ := decompress_chunking_independent ps hwf cs₂ (h₂.trans h₁)
  exact ⟨st₁, st₂, hd₁, hd₂, hi₁, hi₂⟩

/-- **compress_decompress_id.**  For any data (a buffer of items), item size ≥ 1, compression block
size ≥ the item size, and any codec with `dec (enc x) = x` and `enc x ≠ []` whose frames for this
data fit a 4-byte length (`struct.pack('!I', …)` raises otherwise): `compress` succeeds, and
decompressing the concatenation of what it yields, cut into chunks in **any** way, reproduces the
data bytes and reports their length. -/
theorem compress_decompress_id (enc dec : Bytes → Bytes) (hdec : ∀ x, dec (enc x) = x)
    (hne : ∀ x, enc x ≠ []) (itemsize blockSize : Nat) (hi : 1 ≤ itemsize) (hb : itemsize ≤ blockSize)
    (items : List Bytes)
    (hfit : ∀ blk ∈ blocksOf (blockSize / itemsize) items, (enc blk.flatten).length < 2 ^ 32) :
    ∃ pieces, compress enc itemsize blockSize items = .ok pieces ∧
      ∀ cs : List Bytes, cs.flatten = pieces.flatten →
        ∃ frames st, decompress cs = .ok (frames, st) ∧ st.Idle ∧
          output dec frames = items.flatten ∧ bytesOut dec frames = items.flatten.length := by
  have hpos : 0 < blockSize / itemsize := Nat.div_pos hb hi
  have hne0 : blockSize / itemsize ≠ 0 := by omega
  have hfit' : ∀ raw ∈ (blocksOf (blockSize / itemsize) items).map List.flatten,
      (enc raw).length < 2 ^ 32 := by
    intro raw hraw
    obtain ⟨blk, hblk, rfl⟩ := List.mem_map.mp hraw
    exact hfit blk hblk
  refine ⟨_, by simp only [compress, hne0, if_false]; exact framesOf_ok enc _ hfit', ?_⟩
  intro cs hcs
  rw [flatten_frames] at hcs
  have hwf : WF (((blocksOf (blockSize / itemsize) items).map List.flatten).map enc) := by
    intro p hp
    obtain ⟨raw, hraw, rfl⟩ := List.mem_map.mp hp
    exact ⟨hne raw, hfit' raw hraw⟩
  obtain ⟨st, hd, hidle⟩ := decompress_chunking_independent _ hwf cs hcs
  have hout : output dec (((blocksOf (blockSize / itemsize) items).map List.flatten).map enc) =
      items.flatten := by
    simp only [output, List.flatMap_def, List.map_map, Function.comp_def, hdec]
    conv => rhs; rw [← blocksOf_flatten _ hpos items]
    rw [List.flatten_flatten]
  exact ⟨_, st, hd, hidle, hout, by rw [bytesOut, hout]⟩

-- non-vacuity: the toy codec of the driver, 5 items of 2 bytes, block size 5 (2 items per block)
example : compress toyEnc 2 5 [[1, 2], [3, 4], [5, 6], [7, 8], [9, 10]] =
    .ok [[0, 0, 0, 5, 31, 164, 167, 166, 161], [0, 0, 0, 5, 31, 160, 163, 162, 173],
         [0, 0, 0, 3, 17, 172, 175]] := by decide
example : ∀ x, toyDec (toyEnc x) = x := by
  intro x
  simp only [toyDec, toyEnc, List.drop_succ_cons, List.drop_zero, List.map_map]
  conv => rhs; rw [← List.map_id x]
  apply List.map_congr_left
  intro a _
  simp only [Function.comp_def, id]
  rw [UInt8.xor_assoc, UInt8.xor_self, UInt8.xor_zero]
example : ∀ x, toyEnc x ≠ [] := by intro x; simp [toyEnc]
example : ∀ blk ∈ blocksOf (5 / 2) ([[1, 2], [3, 4], [5, 6], [7, 8], [9, 10]] : List Bytes),
    (toyEnc blk.flatten).length < 2 ^ 32 := by decide

/-- a block size below the item size is rejected (`range()` step 0) before anything is yielded -/
theorem compress_zero_step (enc : Bytes → Bytes) (itemsize blockSize : Nat) (items : List Bytes)
    (h : blockSize < itemsize) : compress enc itemsize blockSize items = .error .zeroStep := by
  simp [compress, Nat.div_eq_of_lt h]

/-- **truncated_stream_detected.**  If the chunks only cover a proper prefix of a well-formed
stream (`r ≠ []` is missing), the frames handed to the codec are a proper prefix of the payloads,
so the reported length falls short of the full length by the decoded length of the missing
payloads — strictly, when they decode to something (what asdf reports as a wrong size). -/
theorem truncated_stream_detected (ps : List Bytes) (hwf : WF ps) (cs : List Bytes) (r : Bytes)
    (hr : r ≠ []) (h : cs.flatten ++ r = stream ps) :
    ∃ out qs st, decompress cs = .ok (out, st) ∧ ps = out ++ qs ∧ qs ≠ [] ∧
      ∀ dec : Bytes → Bytes, bytesOut dec out + bytesOut dec qs = bytesOut dec ps ∧
        ((∀ q ∈ qs, dec q ≠ []) → bytesOut dec out < bytesOut dec ps) := by
  obtain ⟨st, out, qs, hd, hq, hrel⟩ := decompress_spec hwf h
  have hqne : qs ≠ [] := Rel_owed hrel hr
  refine ⟨out, qs, st, hd, hq, hqne, ?_⟩
  intro dec
  have hsum : bytesOut dec out + bytesOut dec qs = bytesOut dec ps := by
    rw [hq, bytesOut_append]
  refine ⟨hsum, ?_⟩
  intro hdec
  have := bytesOut_pos dec hqne hdec
  omega

-- non-vacuity: the last byte of the stream is missing
example : decompress [[0, 0, 0, 2, 0xaa], [0xbb, 0, 0, 0, 1]] =
    .ok ([[0xaa, 0xbb]], ⟨1, [], some [], 0⟩) := by decide
example : ([[0, 0, 0, 2, 0xaa], [0xbb, 0, 0, 0, 1]] : List Bytes).flatten ++ [0xcc] =
    stream [[0xaa, 0xbb], [0xcc]] := by decide

end AbacusVerif.Blsc
