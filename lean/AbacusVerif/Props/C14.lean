/-
  C14 — Blosc block decompression is independent of how the stream is chunked.

  Property theorems about `AbacusVerif.Blsc.decompress` / `.compress` (Model/C14.lean), for every
  well-formed stream (any number of frames, any payload sizes below 2^32), **every** chunking of it
  (chunks of length 0 and 1 included, boundaries anywhere) and every codec.
-/
import AbacusVerif.Lemmas.C14

namespace AbacusVerif.Blsc
open AbacusVerif

/-- **feed_invariant.**  After any chunking `cs` of any prefix of a well-formed stream (`r` = the
unread rest), decompression has not failed, the frames handed to the codec are a prefix `out` of
the stream's payloads, and the state encodes exactly the rest of what was consumed: the bytes read
so far are the `out` frames followed by `st.pending` — a partial length prefix (`_partial_len`,
fewer than 4 bytes, `_size = 0`, no buffer) or a complete prefix `be32 _size` plus the `_pos` bytes
collected in `_buffer` (fewer than `_size`) — and what `st.pending ++ r` continues with is the
stream of the payloads still owed. -/
theorem feed_invariant (ps : List Bytes) (hwf : WF ps) (cs : List Bytes) (r : Bytes)
    (h : cs.flatten ++ r = stream ps) :
    ∃ out qs st, decompress cs = .ok (out, st) ∧ ps = out ++ qs ∧
      cs.flatten = stream out ++ st.pending ∧ st.Shaped ∧ st.pending ++ r = stream qs := by
  obtain ⟨st, out, qs, hd, hq, hr⟩ := decompress_spec (WF_len hwf) h
  have hwfq : WFlen qs := WFlen_append_right (hq ▸ WF_len hwf)
  obtain ⟨hp, hs⟩ := Rel_pending hwfq hr
  refine ⟨out, qs, st, hd, hq, ?_, hs, hp⟩
  apply List.append_cancel_right (bs := r)
  rw [h, hq, stream_append, List.append_assoc, hp]

-- non-vacuity: the stream of payloads [aa bb], [cc] cut inside the second prefix (1-byte chunks,
-- an empty chunk): one frame handed over, 2 prefix bytes pending
example : WF [[0xaa, 0xbb], [0xcc]] := by decide
example : decompress [[0, 0], [0], [], [2, 0xaa], [0xbb, 0, 0]] =
    .ok ([[0xaa, 0xbb]], ⟨0, [0, 0], none, 2⟩) := by decide
example : ([[0, 0], [0], [], [2, 0xaa], [0xbb, 0, 0]] : List Bytes).flatten ++ [0, 1, 0xcc] =
    stream [[0xaa, 0xbb], [0xcc]] := by decide

/-- **pos_dead.**  `_pos` is dead state while `_buffer is None`: two states that agree on `_size`,
`_partial_len` and `_buffer`, and on `_pos` whenever there is a buffer (`St.Eqv`), behave identically
on **every** sequence of chunks — the same frames are handed to the codec, the same error (if any)
is raised, and the final states are again equivalent. -/
theorem pos_dead (a b : St) (h : a.Eqv b) (cs : List Bytes) (acc : List Bytes) :
    match feedAll a acc cs, feedAll b acc cs with
    | .ok (o, s), .ok (o', s') => o = o' ∧ s.Eqv s'
    | .error e, .error e' => e = e'
    | _, _ => False :=
  feedAll_eqv cs a b acc h

/-- the instance named in the property: a left-over `_pos` after a buffered frame -/
theorem pos_dead_no_buffer (size : Nat) (pl : Bytes) (pos₁ pos₂ : Nat) (cs : List Bytes) :
    match feedAll ⟨size, pl, none, pos₁⟩ [] cs, feedAll ⟨size, pl, none, pos₂⟩ [] cs with
    | .ok (o, s), .ok (o', s') => o = o' ∧ s.Eqv s'
    | .error e, .error e' => e = e'
    | _, _ => False :=
  feedAll_eqv cs _ _ [] ⟨rfl, rfl, rfl, fun h => absurd rfl h⟩

-- non-vacuity: the same two chunks fed to idle states with different stale `_pos`
example : feedAll ⟨0, [0], none, 7⟩ [] [[0, 0], [1, 0xaa, 0]] = .ok ([[0xaa]], ⟨0, [0], none, 7⟩) := by decide
example : feedAll ⟨0, [0], none, 2⟩ [] [[0, 0], [1, 0xaa, 0]] = .ok ([[0xaa]], ⟨0, [0], none, 2⟩) := by decide

/-- chunking independence for payload lists that may contain **empty** payloads (`WFlen`): used for
the property theorem below and for the malformed-stream theorems -/
theorem decompress_frames_any (ps : List Bytes) (hwf : WFlen ps) (cs : List Bytes)
    (h : cs.flatten = stream ps) :
    ∃ st, decompress cs = .ok (ps, st) ∧ st.Eqv St.init := by
  obtain ⟨st, out, qs, hd, hq, hr⟩ := decompress_spec (r := []) hwf (by simpa using h)
  obtain ⟨hnil, hidle⟩ := Rel_end hr
  subst hnil
  exact ⟨st, by simpa [hq] using hd, (Idle_iff_Eqv_init st).mp hidle⟩

/-- **decompress_chunking_independent.**  For every well-formed stream and every chunking of it, the
byte strings handed to the codec are exactly the stream's payloads, in order, and the final state
equals the initial state up to the dead `_pos` (`St.Eqv`, see `pos_dead`: a decompressor left in
that state behaves on any further input exactly like a fresh one). -/
theorem decompress_chunking_independent (ps : List Bytes) (hwf : WF ps) (cs : List Bytes)
    (h : cs.flatten = stream ps) :
    ∃ st, decompress cs = .ok (ps, st) ∧ st.Eqv St.init :=
  decompress_frames_any ps (WF_len hwf) cs h

-- non-vacuity: three chunkings of the same two-frame stream, one with 1-byte and empty chunks
example : decompress [[0, 0, 0, 2, 0xaa, 0xbb, 0, 0, 0, 1, 0xcc]] =
    .ok ([[0xaa, 0xbb], [0xcc]], St.init) := by decide
example : decompress [[0], [0], [], [0], [2], [0xaa], [0xbb], [0], [0], [0], [1], [], [0xcc], []] =
    .ok ([[0xaa, 0xbb], [0xcc]], ⟨0, [], none, 1⟩) := by decide
example : decompress [[0, 0, 0], [2, 0xaa, 0xbb, 0, 0], [0, 1, 0xcc]] =
    .ok ([[0xaa, 0xbb], [0xcc]], St.init) := by decide

/-- the output buffer and the returned length are functions of the frames handed to the codec:
`bytesout` is the sum of the decoded lengths -/
theorem bytesOut_sum (dec : Bytes → Bytes) (frames : List Bytes) :
    bytesOut dec frames = (frames.map (fun f => (dec f).length)).sum := by
  induction frames with
  | nil => rfl
  | cons f fs ih =>
    have := bytesOut_append dec [f] fs
    simp only [List.singleton_append] at this
    rw [this, ih]
    simp [bytesOut, output]

/-- **decompress_same_for_all_chunkings.**  Two chunkings of the same well-formed stream give the
same frames (hence the same output bytes and the same reported length). -/
theorem decompress_same_for_all_chunkings (ps : List Bytes) (hwf : WF ps) (cs₁ cs₂ : List Bytes)
    (h₁ : cs₁.flatten = stream ps) (h₂ : cs₂.flatten = cs₁.flatten) :
    ∃ st₁ st₂, decompress cs₁ = .ok (ps, st₁) ∧ decompress cs₂ = .ok (ps, st₂) ∧
      st₁.Eqv St.init ∧ st₂.Eqv St.init := by
  obtain ⟨st₁, hd₁, hi₁⟩ := decompress_chunking_independent ps hwf cs₁ h₁
  obtain ⟨st₂, hd₂, hi₂⟩ := decompress_chunking_independent ps hwf cs₂ (h₂.trans h₁)
  exact ⟨st₁, st₂, hd₁, hd₂, hi₁, hi₂⟩

/-- **compress_decompress_id.**  For any data (a buffer of items), item size ≥ 1, compression block
size ≥ the item size, and any codec with `dec (enc x) = x` and `enc x ≠ []` whose frames for this
data fit a 4-byte length (`struct.pack('!I', …)` raises otherwise): `compress` succeeds, and
decompressing the concatenation of what it yields, cut into chunks in **any** way, reproduces the
data bytes and reports their length. -/
theorem compress_decompress_id (enc dec : Bytes → Bytes) (hdec : ∀ x, dec (enc x) = x)
    (hne : ∀ x, enc x ≠ []) (itemsize blockSize : Nat) (hi : 1 ≤ itemsize) (hb : itemsize ≤ blockSize)
    (items : List Bytes)
    (hfit : ∀ blk ∈ blocksOf (blockSize / itemsize) items, (enc blk.flatten).length < 2 ^ 32) :
    ∃ pieces, compress enc itemsize blockSize items = .ok pieces ∧
      ∀ cs : List Bytes, cs.flatten = pieces.flatten →
        ∃ frames st, decompress cs = .ok (frames, st) ∧ st.Eqv St.init ∧
          output dec frames = items.flatten ∧ bytesOut dec frames = items.flatten.length := by
  have hpos : 0 < blockSize / itemsize := Nat.div_pos hb hi
  have hne0 : blockSize / itemsize ≠ 0 := by omega
  have hfit' : ∀ raw ∈ (blocksOf (blockSize / itemsize) items).map List.flatten,
      (enc raw).length < 2 ^ 32 := by
    intro raw hraw
    obtain ⟨blk, hblk, rfl⟩ := List.mem_map.mp hraw
    exact hfit blk hblk
  refine ⟨_, by simp only [compress, hne0, if_false]; exact framesOf_ok enc _ hfit', ?_⟩
  intro cs hcs
  rw [flatten_frames] at hcs
  have hwf : WF (((blocksOf (blockSize / itemsize) items).map List.flatten).map enc) := by
    intro p hp
    obtain ⟨raw, hraw, rfl⟩ := List.mem_map.mp hp
    exact ⟨hne raw, hfit' raw hraw⟩
  obtain ⟨st, hd, hidle⟩ := decompress_chunking_independent _ hwf cs hcs
  have hout : output dec (((blocksOf (blockSize / itemsize) items).map List.flatten).map enc) =
      items.flatten := by
    simp only [output, List.flatMap_def, List.map_map, Function.comp_def, hdec]
    conv => rhs; rw [← blocksOf_flatten _ hpos items]
    rw [List.flatten_flatten]
  exact ⟨_, st, hd, hidle, hout, by rw [bytesOut, hout]⟩

-- non-vacuity: the toy codec of the driver, 5 items of 2 bytes, block size 5 (2 items per block)
example : compress toyEnc 2 5 [[1, 2], [3, 4], [5, 6], [7, 8], [9, 10]] =
    .ok [[0, 0, 0, 5, 31, 164, 167, 166, 161], [0, 0, 0, 5, 31, 160, 163, 162, 173],
         [0, 0, 0, 3, 17, 172, 175]] := by decide
example : ∀ x, toyDec (toyEnc x) = x := by
  intro x
  simp only [toyDec, toyEnc, List.drop_succ_cons, List.drop_zero, List.map_map]
  conv => rhs; rw [← List.map_id x]
  apply List.map_congr_left
  intro a _
  simp only [Function.comp_def, id]
  rw [UInt8.xor_assoc, UInt8.xor_self, UInt8.xor_zero]
example : ∀ x, toyEnc x ≠ [] := by intro x; simp [toyEnc]
example : ∀ blk ∈ blocksOf (5 / 2) ([[1, 2], [3, 4], [5, 6], [7, 8], [9, 10]] : List Bytes),
    (toyEnc blk.flatten).length < 2 ^ 32 := by decide

/-- a block size below the item size is rejected (`range()` step 0) before anything is yielded -/
theorem compress_zero_step (enc : Bytes → Bytes) (itemsize blockSize : Nat) (items : List Bytes)
    (h : blockSize < itemsize) : compress enc itemsize blockSize items = .error .zeroStep := by
  simp [compress, Nat.div_eq_of_lt h]

/-- **truncated_stream_detected.**  If the chunks only cover a proper prefix of a well-formed
stream (`r ≠ []` is missing), the frames handed to the codec are a proper prefix of the payloads,
so the reported length falls short of the full length by the decoded length of the missing
payloads — strictly, when they decode to something (what asdf reports as a wrong size). -/
theorem truncated_stream_detected (ps : List Bytes) (hwf : WF ps) (cs : List Bytes) (r : Bytes)
    (hr : r ≠ []) (h : cs.flatten ++ r = stream ps) :
    ∃ out qs st, decompress cs = .ok (out, st) ∧ ps = out ++ qs ∧ qs ≠ [] ∧
      ∀ dec : Bytes → Bytes, bytesOut dec out + bytesOut dec qs = bytesOut dec ps ∧
        ((∀ q ∈ qs, dec q ≠ []) → bytesOut dec out < bytesOut dec ps) := by
  obtain ⟨st, out, qs, hd, hq, hrel⟩ := decompress_spec (WF_len hwf) h
  have hqne : qs ≠ [] := Rel_owed hrel hr
  refine ⟨out, qs, st, hd, hq, hqne, ?_⟩
  intro dec
  have hsum : bytesOut dec out + bytesOut dec qs = bytesOut dec ps := by
    rw [hq, bytesOut_append]
  refine ⟨hsum, ?_⟩
  intro hdec
  have := bytesOut_pos dec hqne hdec
  omega

-- non-vacuity: the last byte of the stream is missing
example : decompress [[0, 0, 0, 2, 0xaa], [0xbb, 0, 0, 0, 1]] =
    .ok ([[0xaa, 0xbb]], ⟨1, [], some [], 0⟩) := by decide
example : ([[0, 0, 0, 2, 0xaa], [0xbb, 0, 0, 0, 1]] : List Bytes).flatten ++ [0xcc] =
    stream [[0xaa, 0xbb], [0xcc]] := by decide

/-! ### the linear-time machine of the driver -/

/-- **decompressF_eq.**  The machine the driver runs (buffer kept as reversed segments, linear in the
input) computes exactly `decompress`: same frames, same error, and its final state stands for the
same simple state. -/
theorem decompressF_eq (cs : List Bytes) :
    (match decompressF cs with
      | .ok (o, s) => .ok (o, s.abs)
      | .error e => .error e) = decompress cs :=
  feedAllF_abs cs StF.init []

example : decompressF [[0, 0, 0], [2, 0xaa], [], [0xbb, 0, 0, 0, 1]] =
    .ok ([[0xaa, 0xbb]], ⟨1, [], some [[]], 0⟩) := by decide

/-! ### malformed streams -/

/-- **zero_payload_handed_over.**  A frame whose length prefix is 0 does not confuse the framing:
for payload lists that may contain empty payloads, under every chunking, the codec is handed every
payload in order — the empty ones as empty byte strings, at once, even when the chunk ends right
after the prefix — and the next 4 bytes are read as the next prefix.  (Real blosc rejects an empty
frame; the framing itself is still chunking independent.) -/
theorem zero_payload_handed_over (ps : List Bytes) (hwf : WFlen ps) (cs : List Bytes)
    (h : cs.flatten = stream ps) :
    ∃ st, decompress cs = .ok (ps, st) ∧ st.Eqv St.init :=
  decompress_frames_any ps hwf cs h

/-- with a codec that decodes the empty frame to nothing, `be32 0` is simply skipped -/
theorem zero_payload_skipped (dec : Bytes → Bytes) (hdec : dec [] = []) (ps : List Bytes) :
    output dec ps = output dec (ps.filter (· ≠ [])) := by
  induction ps with
  | nil => rfl
  | cons p ps ih =>
    by_cases hp : p = []
    · subst hp
      simp only [output, List.flatMap_cons, hdec, List.nil_append] at ih ⊢
      simpa using ih
    · simp only [output, List.flatMap_cons] at ih ⊢
      simp [hp, ih]

example : WFlen [[], [0xaa], []] := by decide
example : stream [[], [0xaa], []] = [0, 0, 0, 0, 0, 0, 0, 1, 0xaa, 0, 0, 0, 0] := by decide
example : decompress [[0, 0, 0, 0], [0, 0, 0], [1, 0xaa, 0], [0, 0, 0]] =
    .ok ([[], [0xaa], []], St.init) := by decide

/-- **truncated_inside_frame.**  The chunks cover the complete frames `done` and then a proper,
non-empty part `t` of the next frame (`t ++ r = frame p`, both non-empty) — the stream is cut inside
a length prefix or inside a payload.  Then, under every chunking: no error is raised, the codec is
handed exactly the complete frames (so `bytesout` is the sum over the complete frames), and the final
state is **not** idle: it holds exactly `t` — as `_partial_len` when the cut is inside the prefix
(`t` shorter than 4 bytes), as `be32 _size` plus the buffer contents with `_size = len p` when the cut
is inside the payload. -/
theorem truncated_inside_frame (done : List Bytes) (p : Bytes) (hwf : WFlen (done ++ [p]))
    (t r : Bytes) (ht : t ≠ []) (hr : r ≠ []) (hsplit : t ++ r = frame p)
    (cs : List Bytes) (h : cs.flatten = stream done ++ t) :
    ∃ st, decompress cs = .ok (done, st) ∧ st.pending = t ∧ st.Shaped ∧ ¬ st.Idle ∧
      (t.length < 4 → st.size = 0 ∧ st.buffer = none ∧ st.partialLen = t) ∧
      (4 ≤ t.length → st.size = p.length ∧ st.buffer = some (t.drop 4) ∧ st.partialLen = []) := by
  have hfull : cs.flatten ++ r = stream (done ++ [p]) := by
    rw [h, stream_append, List.append_assoc, hsplit]
    simp [stream]
  obtain ⟨st, out, qs, hd, hq, hrel⟩ := decompress_spec hwf hfull
  have hwfq : WFlen qs := WFlen_append_right (hq ▸ hwf)
  obtain ⟨hp, hshape⟩ := Rel_pending hwfq hrel
  have hqne : qs ≠ [] := Rel_owed hrel hr
  have hcons : cs.flatten = stream out ++ st.pending := by
    apply List.append_cancel_right (bs := r)
    rw [hfull, hq, stream_append, List.append_assoc, hp]
  -- the frames handed over are exactly the complete ones
  have hout : out = done := by
    rcases List.append_eq_append_iff.mp hq with ⟨as, h1, h2⟩ | ⟨bs, h1, h2⟩
    · cases as with
      | nil => simpa using h1
      | cons a as' =>
        exfalso
        simp only [List.cons_append, List.cons.injEq] at h2
        have : as' ++ qs = [] := h2.2.symm
        exact hqne (List.append_eq_nil_iff.mp this).2
    · cases bs with
      | nil => simpa using h1.symm
      | cons x bs' =>
        exfalso
        rw [h2] at hrel
        have hshort := Rel_pending_short hrel
        have : st.pending = frame x ++ (stream bs' ++ t) := by
          apply List.append_cancel_left (as := stream out)
          rw [← hcons, h, h1, stream_append, stream_cons]
          simp [frame]
        rw [this] at hshort
        simp only [List.length_append] at hshort
        omega
  subst hout
  have hpend : st.pending = t := by
    apply List.append_cancel_left (as := stream out)
    rw [← hcons, h]
  refine ⟨st, hd, hpend, hshape, ?_, ?_, ?_⟩
  · intro hidle
    obtain ⟨_, h2, h3⟩ := hidle
    apply ht
    rw [← hpend]
    simp [St.pending, h3, h2]
  · intro hlt
    cases hb : st.buffer with
    | none =>
      simp only [St.Shaped, hb] at hshape
      simp only [St.pending, hb] at hpend
      exact ⟨hshape.1, rfl, hpend⟩
    | some b =>
      exfalso
      simp only [St.pending, hb] at hpend
      have := congrArg List.length hpend
      simp [be32_length] at this
      omega
  · intro hge
    cases hb : st.buffer with
    | none =>
      exfalso
      simp only [St.Shaped, hb] at hshape
      simp only [St.pending, hb] at hpend
      rw [hpend] at hshape
      omega
    | some b =>
      simp only [St.Shaped, hb] at hshape
      simp only [St.pending, hb] at hpend
      have hb4 : t.drop 4 = b := by rw [← hpend]; exact List.drop_left' (be32_length _)
      have hpre : be32 st.size = be32 p.length := by
        have e : be32 st.size ++ (b ++ r) = be32 p.length ++ p := by
          rw [← List.append_assoc, hpend, hsplit]; rfl
        exact (List.append_inj e (by simp [be32_length])).1
      have hsz : st.size = p.length := by
        have h1 := unpack_be32 st.size hshape.2.1
        have h2 := unpack_be32 p.length (hwf p (by simp))
        rw [hpre, h2] at h1
        exact (Except.ok.inj h1).symm
      exact ⟨hsz, by rw [hb4], hshape.2.2.1⟩

-- non-vacuity: cut after 2 prefix bytes; cut after 1 of 2 payload bytes
example : decompress [[0, 0, 0, 1], [0xcc, 0], [0]] = .ok ([[0xcc]], ⟨0, [0, 0], none, 1⟩) := by decide
example : decompress [[0, 0, 0, 1], [0xcc, 0], [0, 0, 2, 0xaa]] =
    .ok ([[0xcc]], ⟨2, [], some [0xaa], 1⟩) := by decide

/-- **trailing_garbage_ignored.**  1–3 stray bytes after the last frame are **not** detected: under
every chunking the frames handed to the codec (hence the output and the returned length) are those of
the stream without the garbage; the stray bytes stay behind in `_partial_len`. -/
theorem trailing_garbage_ignored (ps : List Bytes) (hwf : WFlen ps) (g : Bytes) (hg : g ≠ [])
    (hg4 : g.length < 4) (cs : List Bytes) (h : cs.flatten = stream ps ++ g) :
    ∃ st, decompress cs = .ok (ps, st) ∧ st.size = 0 ∧ st.buffer = none ∧ st.partialLen = g := by
  obtain ⟨n, hn, hbe⟩ := be32_surj (g ++ List.replicate (4 - g.length) 0) (by simp; omega)
  have hsplit : g ++ (List.replicate (4 - g.length) 0 ++ List.replicate n 0) =
      frame (List.replicate n (0 : UInt8)) := by
    simp only [frame, List.length_replicate, ← List.append_assoc, hbe]
  have hwf' : WFlen (ps ++ [List.replicate n (0 : UInt8)]) := by
    intro q hq
    rcases List.mem_append.mp hq with hq | hq
    · exact hwf q hq
    · simp only [List.mem_singleton] at hq
      subst hq
      simpa using hn
  obtain ⟨st, hd, _, _, _, hpre, _⟩ := truncated_inside_frame ps _ hwf' g _ hg
    (by simp; omega) hsplit cs h
  exact ⟨st, hd, hpre hg4⟩

example : decompress [[0, 0, 0, 1, 0xcc, 9], [9]] = .ok ([[0xcc]], ⟨0, [9, 9], none, 0⟩) := by decide

/-! ### compress: keyword arguments -/

/-- **compressK_shuffle_error.**  An unknown `shuffle` keyword raises `ValueError` before the codec
module is touched (no `set_nthreads`, no `set_blocksize`, no `blosc.compress`, nothing yielded). -/
theorem compressK_shuffle_error (enc : CodecArgs → Bytes → Bytes) (kw : Kwargs) (s : String)
    (itemsize : Nat) (items : List Bytes) (h : kw.shuffle = some (.other s)) :
    compressK enc kw itemsize items = .error .valueError := by
  simp [compressK, codecArgs, h, shuffleConst]

/-- **compressK_spec.**  With a valid `shuffle`, `compress(data, **kwargs)` is `compress` with block
size `compression_block_size` (default 2^22) and the codec called with: `typesize` = the explicit
keyword, or `data.itemsize` when absent/'auto'; `clevel` (default 1); `cname` (default 'zstd');
`shuffle` ↦ blosc constant (default SHUFFLE); the remaining keywords untouched.  The block
boundaries depend on `data.itemsize` only, never on `typesize`. -/
theorem compressK_spec (enc : CodecArgs → Bytes → Bytes) (kw : Kwargs) (itemsize : Nat)
    (items : List Bytes) (sh : Nat)
    (hsh : shuffleConst (kw.shuffle.getD .shuffle) = .ok sh) :
    let ca : CodecArgs := { typesize := kw.typesize.getD itemsize, clevel := kw.clevel.getD 1,
                            shuffle := sh, cname := kw.cname.getD "zstd", extra := kw.extra }
    let bs := kw.compressionBlockSize.getD (2 ^ 22)
    compressK enc kw itemsize items =
      match compress (enc ca) itemsize bs items with
      | .error e => .error e
      | .ok pieces => .ok { nthreads := kw.nthreads.getD 1,
                            bloscBlockSize := kw.bloscBlockSize.getD (512 * 1024), args := ca,
                            blocks := (blocksOf (bs / itemsize) items).map List.flatten,
                            pieces := pieces } := by
  simp only [compressK, codecArgs, hsh, compress]
  split
  · rfl
  · cases framesOf _ _ <;> rfl

-- non-vacuity: typesize 'auto' (absent) vs explicit, bitshuffle, an extra keyword passed through
example : (compressK (fun _ => toyEnc) {} 2 [[1, 0], [2, 0]]).map (·.args) =
    .ok ⟨2, 1, 1, "zstd", []⟩ := by decide
example : (compressK (fun _ => toyEnc)
      { typesize := some 7, shuffle := some .bitshuffle, compressionBlockSize := some 2,
        extra := [("foo", "1")] } 2 [[1, 0], [2, 0]]).map (fun t => (t.args, t.blocks)) =
    .ok (⟨7, 1, 2, "zstd", [("foo", "1")]⟩, [[1, 0], [2, 0]]) := by decide
example : compressK (fun _ => toyEnc) { shuffle := some (.other "x") } 2 [[1, 0]] =
    .error .valueError := by decide

end AbacusVerif.Blsc
