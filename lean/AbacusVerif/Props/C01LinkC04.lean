/-
  C01 ← C04: "each halo's slice holds that halo's own particles, DECODED FROM THE SAME RAW RECORDS" — with the
  decode no longer a parameter.

  C01's model (Model/C01.lean) is polymorphic in the particle type: `load o slabs` routes whatever the particle
  files hold to the slots of the subsample table, and `decode_commutes` says a per-record decoder commutes with
  that routing.  C04's model (Model/C04.lean, stated over Generated/BitConsts.lean) defines what the reader's
  kernels store for one raw record: `posRow box` / `velRow` for an rvint row (`_unpack_rvint`), and the slot
  functions of `pidSlots box ppd` — `pid`, `lagrPosRow box ppd`, `lagrIdxRow`, `tagged`, `density` — for an aux
  word (`_unpack_pids`).

  Here the particle type is the RAW RECORD `Rec = Row32 × BitVec 64` (the rvint row and the packedpid word of
  one particle; the rv file and the pid file of a subsample share their indexing), and C01's decode parameter is
  instantiated with `decodeSel hdr sel`: for each requested column of the selection `sel` (any of pos, vel, pid,
  lagr_pos, lagr_idx, tagged, density, and the passthrough columns rvint, packedpid) the matching C04 field
  function, with the header's `BoxSize` and the INTEGER `ppd` the header spells (`rhe hdr.ppd`, as C04's
  `unpackPids` takes it).  No hypothesis about the decode is left in any statement below.

  Adapters (proved faithful): `decodeSel` is the tuple of C04 slot functions (`decodeCol_is_c04_slot`: every
  decoded column function is literally the `Slot.f` of the C04 kernel slot of that output, and
  `column_is_c04_kernel_writes`: a whole decoded column is the write list C04's `kernel` produces on the routed
  words); `readerOpts` only sets C01's `rawCol` flag from the selection (`load_readerOpts`: irrelevant on
  well-formed input).
-/
import AbacusVerif.Props.C01
import AbacusVerif.Props.C04

namespace AbacusVerif.ReaderLink
open AbacusVerif AbacusVerif.Catalog AbacusVerif.Bitpacked

/-- a raw particle record: its rvint row and its packed aux word -/
abbrev Rec := Row32 × BitVec 64

/-- the columns the subsample table can hold -/
inductive Col where
  | pos | vel | pid | lagrPos | lagrIdx | tagged | density
  | rvint | packedpid
  deriving DecidableEq, Repr

/-- a stored value: a decoded value of the C04 model, or (passthrough) the raw word itself -/
inductive Out where
  | val (v : Val)
  | row32 (r : Row32)
  | word (w : BitVec 64)
  deriving DecidableEq

/-- the two header entries the decoders use -/
structure Header where
  box : Rat
  /-- `ppd` as the header spells it (a float, usually a hair off the integer) -/
  ppd : Rat

/-- the integer particles-per-dimension the header spells -/
def Header.ppdInt (h : Header) : Int := rhe h.ppd

/-- THE C04 DECODE of one raw record for one column -/
def decodeCol (h : Header) : Col → Rec → Out
  | .pos, r => .val (posRow h.box r.1)
  | .vel, r => .val (velRow r.1)
  | .pid, r => .val (.int (Bitpacked.pid r.2))
  | .lagrPos, r => .val (lagrPosRow h.box h.ppdInt r.2)
  | .lagrIdx, r => .val (lagrIdxRow r.2)
  | .tagged, r => .val (.int (Bitpacked.tagged r.2))
  | .density, r => .val (.int (Bitpacked.density r.2))
  | .rvint, r => .row32 r.1
  | .packedpid, r => .word r.2

/-- one row of the subsample table: the requested columns, by name -/
abbrev Cell := List (Col × Out)

/-- C01's decode parameter, instantiated: the requested columns of one record -/
def decodeSel (h : Header) (sel : List Col) (r : Rec) : Cell := sel.map (fun c => (c, decodeCol h c r))

def Col.isRaw : Col → Bool
  | .rvint => true
  | .packedpid => true
  | _ => false

/-- the reader's options for a column selection: C01's `rawCol` flag (a raw word column is among the outputs) is
determined by the selection -/
def readerOpts (o : Opts) (sel : List Col) : Opts := { o with rawCol := sel.any Col.isRaw }

/-- the unpacked load: C01's load over the particle files decoded record by record with the C04 functions -/
def loadCols (h : Header) (o : Opts) (sel : List Col) (slabs : List (Slab Rec)) : Except Fault (Result Cell) :=
  load (readerOpts o sel) (slabs.map (Slab.mapParts (decodeSel h sel)))

/-- the passthrough selection -/
def ptSel : List Col := [.rvint, .packedpid]

def lookupCol (c : Col) : Cell → Option Out
  | [] => none
  | (c', v) :: rest => if c = c' then some v else lookupCol c rest

/-! ### adapters -/

theorem lookup_decodeSel (h : Header) (sel : List Col) (c : Col) (hc : c ∈ sel) (r : Rec) :
    lookupCol c (decodeSel h sel r) = some (decodeCol h c r) := by
  unfold decodeSel
  induction sel with
  | nil => cases hc
  | cons c' rest ih =>
    simp only [List.map_cons, lookupCol]
    by_cases he : c = c'
    · subst he; simp
    · rw [if_neg he]
      exact ih (by
        rcases List.mem_cons.mp hc with h1 | h1
        · exact absurd h1 he
        · exact h1)

/-- the decoded column functions ARE the slot functions of the C04 kernels: `pos`/`vel` those of
`kernelRvint`, the five aux fields those of `pidSlots` (in its source order lagr_idx, lagr_pos, tagged,
density, pid) -/
theorem decodeCol_is_c04_slot (h : Header) (b : PidBufs) (r : Rec) :
    (pidSlots h.box h.ppdInt b).map (fun s => Out.val (s.f r.2)) =
      [decodeCol h .lagrIdx r, decodeCol h .lagrPos r, decodeCol h .tagged r, decodeCol h .density r,
       decodeCol h .pid r] ∧
    [Out.val (posRow h.box r.1), Out.val (velRow r.1)] = [decodeCol h .pos r, decodeCol h .vel r] :=
  ⟨rfl, rfl⟩

/-- a whole decoded column is what C04's kernel writes on the routed raw words: running `_unpack_rvint` /
`_unpack_pids` (C04 `kernel`) over the records routed to a block of `N` slots stores in row `i` exactly the
decode of record `i` -/
theorem column_is_c04_kernel_writes (h : Header) (recs : List Rec) (hp : h.ppdInt ≠ 0) :
    kernelRvint (recs.map (·.1)) h.box (some recs.length) (some recs.length) =
      .ok [(List.range recs.length).zip ((recs.map (·.1)).map (posRow h.box)),
           (List.range recs.length).zip ((recs.map (·.1)).map velRow)] ∧
    kernelPids (recs.map (·.2)) h.box h.ppdInt
        ⟨some recs.length, some recs.length, some recs.length, some recs.length, some recs.length⟩ =
      .ok [(List.range recs.length).zip ((recs.map (·.2)).map lagrIdxRow),
           (List.range recs.length).zip ((recs.map (·.2)).map (lagrPosRow h.box h.ppdInt)),
           (List.range recs.length).zip ((recs.map (·.2)).map (fun w => Val.int (Bitpacked.tagged w))),
           (List.range recs.length).zip ((recs.map (·.2)).map (fun w => Val.int (Bitpacked.density w))),
           (List.range recs.length).zip ((recs.map (·.2)).map (fun w => Val.int (Bitpacked.pid w)))] := by
  constructor
  · unfold kernelRvint
    rw [kernel_spec _ _ (by
      intro s hs r hr
      simp only [List.mem_cons, List.mem_nil_iff, or_false] at hs
      rcases hs with rfl | rfl <;> (cases hr; simp))]
    simp [slotWrites_some, fullWrites]
  · unfold kernelPids
    rw [if_neg hp, kernel_spec _ _ (by
      intro s hs r hr
      simp only [pidSlots, List.mem_cons, List.mem_nil_iff, or_false] at hs
      rcases hs with rfl | rfl | rfl | rfl | rfl <;> (cases hr; simp))]
    simp [pidSlots, slotWrites_some, fullWrites]

theorem wfE_readerOpts (o : Opts) (sel : List Col) {α : Type} (slabs : List (Slab α)) :
    wfE (readerOpts o sel) slabs ↔ wfE o slabs := Iff.rfl

theorem wfE_mapParts {α β : Type} (d : α → β) (o : Opts) (slabs : List (Slab α)) :
    wfE o (slabs.map (Slab.mapParts d)) ↔ wfE o slabs := by
  rw [← wf_iff, ← wf_iff, wf_mapParts]

/-- on well-formed input the `rawCol` flag (which only selects the kind of fault) does not matter -/
theorem load_readerOpts {α : Type} (o : Opts) (sel : List Col) (slabs : List (Slab α)) (h : wfE o slabs) :
    load (readerOpts o sel) slabs = load o slabs := by
  obtain ⟨_, k1, _, r1, _, e1⟩ := load_eq (readerOpts o sel) slabs ((wfE_readerOpts o sel slabs).mpr h)
  obtain ⟨_, k2, _, r2, _, e2⟩ := load_eq o slabs h
  have hm : masksFor (readerOpts o sel).masks slabs.length = masksFor o.masks slabs.length := rfl
  rename_i m1 hm1 _ m2 hm2 _
  rw [hm, hm2] at hm1
  cases hm1
  have : readAll o.cleaned slabs m1 = .ok k1 := r1
  rw [r2] at this
  cases this
  rw [e1, e2]
  rfl

theorem mapParts_mapParts {α β γ : Type} (f : α → β) (g : β → γ) (s : Slab α) :
    (s.mapParts f).mapParts g = s.mapParts (g ∘ f) := by
  simp [Slab.mapParts, List.map_map]

theorem mapSub_sub {α β : Type} (d : α → β) (r : Result α) : (r.mapSub d).sub = r.sub.map (Option.map d) := rfl

/-! ### the link theorems -/

/-- **subsample_values_are_c04_decode.**  For every catalog of raw records (any superslabs, gaps, zero-particle,
cleaned-away and merged halos), every option set (cleaned on/off, A / B / both, any masks), every column
selection `sel` and every header, under C01's explicit well-formedness `wfE` only: the unpacked load succeeds,
its rows and index columns are those of the raw load, and for every output row `r` (from superslab `s`, raw
columns `row`) and loaded subsample `X` with returned `(start, n)`: slot `start + k` of the table holds, for
every requested column `c`, the C04 decode `decodeCol hdr c` of the raw record that C01 routes there — record
`k` of `ownParts X …`: the halo's original particles from its own superslab's file (none if cleaned away),
then its merged particles from the cleaning file. -/
theorem subsample_values_are_c04_decode (hdr : Header) (o : Opts) (sel : List Col) (slabs : List (Slab Rec))
    (h : wfE o slabs) :
    ∃ mks kept res, masksFor o.masks slabs.length = .ok mks ∧ readAll o.cleaned slabs mks = .ok kept ∧
      loadCols hdr o sel slabs = .ok res ∧ res.rows = (owners slabs kept).map (·.2) ∧
      ∀ X ∈ loadList o, ∃ starts ns, idxOf X res.idx = some (starts, ns) ∧
        ∀ (r : Nat) (s : Slab Rec) (row : Row) (st n : Nat),
          (owners slabs kept)[r]? = some (s, row) → starts[r]? = some st → ns[r]? = some n →
          n = ownCnt X row ∧
          pySlice res.sub st (st + n) =
            (ownParts X (s.part X) (s.cleanPart X) row).map (fun rec => some (decodeSel hdr sel rec)) ∧
          ∀ (k : Nat) (rec : Rec), (ownParts X (s.part X) (s.cleanPart X) row)[k]? = some rec →
            ∃ cell, (pySlice res.sub st (st + n))[k]? = some (some cell) ∧
              ∀ c ∈ sel, lookupCol c cell = some (decodeCol hdr c rec) := by
  obtain ⟨mks, kept, res, h1, h2, hload, hrows, hsl⟩ := slices_correct o slabs h
  obtain ⟨res0, hl0, hdec⟩ := decode_commutes (decodeSel hdr sel) o slabs h
  rw [hload] at hl0
  cases hl0
  have hwf' : wfE o (slabs.map (Slab.mapParts (decodeSel hdr sel))) := (wfE_mapParts _ o slabs).mpr h
  refine ⟨mks, kept, res.mapSub (decodeSel hdr sel), h1, h2, ?_, hrows, ?_⟩
  · unfold loadCols
    rw [load_readerOpts o sel _ hwf', hdec]
  · intro X hX
    obtain ⟨starts, ns, hidx, _, _, hslice⟩ := hsl X hX
    refine ⟨starts, ns, hidx, ?_⟩
    intro r s row st n hown hst hn
    obtain ⟨hn', hs⟩ := hslice r s row st n hown hst hn
    have hsl' : pySlice (res.mapSub (decodeSel hdr sel)).sub st (st + n) =
        (ownParts X (s.part X) (s.cleanPart X) row).map (fun rec => some (decodeSel hdr sel rec)) := by
      rw [mapSub_sub, pySlice_map, hs, List.map_map]
      rfl
    refine ⟨hn', hsl', ?_⟩
    intro k rec hk
    refine ⟨decodeSel hdr sel rec, ?_, fun c hc => lookup_decodeSel hdr sel c hc rec⟩
    rw [hsl', List.getElem?_map, hk]
    rfl

/-- **passthrough_is_identity.**  In passthrough mode (columns `rvint`, `packedpid`) the value routed to a
slot is the raw record itself — its rvint row and its packed aux word, whatever the header says. -/
theorem passthrough_is_identity (hdr : Header) (o : Opts) (slabs : List (Slab Rec)) (h : wfE o slabs) :
    (∀ rec : Rec, decodeSel hdr ptSel rec = [(.rvint, .row32 rec.1), (.packedpid, .word rec.2)]) ∧
    ∃ mks kept res, masksFor o.masks slabs.length = .ok mks ∧ readAll o.cleaned slabs mks = .ok kept ∧
      loadCols hdr o ptSel slabs = .ok res ∧
      ∀ X ∈ loadList o, ∃ starts ns, idxOf X res.idx = some (starts, ns) ∧
        ∀ (r : Nat) (s : Slab Rec) (row : Row) (st n : Nat),
          (owners slabs kept)[r]? = some (s, row) → starts[r]? = some st → ns[r]? = some n →
          pySlice res.sub st (st + n) =
            (ownParts X (s.part X) (s.cleanPart X) row).map
              (fun rec => some [(Col.rvint, Out.row32 rec.1), (Col.packedpid, Out.word rec.2)]) := by
  refine ⟨fun rec => rfl, ?_⟩
  obtain ⟨mks, kept, res, h1, h2, hl, _, hsl⟩ := subsample_values_are_c04_decode hdr o ptSel slabs h
  refine ⟨mks, kept, res, h1, h2, hl, ?_⟩
  intro X hX
  obtain ⟨starts, ns, hidx, hs⟩ := hsl X hX
  refine ⟨starts, ns, hidx, ?_⟩
  intro r s row st n hown hst hn
  exact (hs r s row st n hown hst hn).2.1

/-- re-decoding a passthrough cell: the C04 decode of the record whose raw words the cell holds -/
def decodePT (hdr : Header) (sel : List Col) : Cell → Cell
  | [(.rvint, .row32 r), (.packedpid, .word w)] => decodeSel hdr sel (r, w)
  | _ => []

theorem decodePT_comp (hdr hdr' : Header) (sel : List Col) :
    decodePT hdr sel ∘ decodeSel hdr' ptSel = decodeSel hdr sel := by
  funext rec
  rfl

/-- **unpacked_equals_decode_of_passthrough.**  The unpacked load of a catalog equals the C04 decode applied
cell by cell to the PASSTHROUGH load of the same catalog, options and subsample selection: same rows, same
per-file counts, same index columns, and every table cell the decode of the passthrough cell at the same slot.
(This is what harness/props/c04.py `check_reader_case` observes on the real reader.) -/
theorem unpacked_equals_decode_of_passthrough (hdr : Header) (o : Opts) (sel : List Col)
    (slabs : List (Slab Rec)) (h : wfE o slabs) :
    ∃ rPT, loadCols hdr o ptSel slabs = .ok rPT ∧
      loadCols hdr o sel slabs = .ok (rPT.mapSub (decodePT hdr sel)) ∧
      (rPT.mapSub (decodePT hdr sel)).rows = rPT.rows ∧ (rPT.mapSub (decodePT hdr sel)).idx = rPT.idx ∧
      (rPT.mapSub (decodePT hdr sel)).sub = rPT.sub.map (Option.map (decodePT hdr sel)) := by
  have hwfPT : wfE o (slabs.map (Slab.mapParts (decodeSel hdr ptSel))) := (wfE_mapParts _ o slabs).mpr h
  have hwfS : wfE o (slabs.map (Slab.mapParts (decodeSel hdr sel))) := (wfE_mapParts _ o slabs).mpr h
  obtain ⟨rPT, hPT, hdec⟩ := decode_commutes (decodePT hdr sel) o _ hwfPT
  have hcomp : (slabs.map (Slab.mapParts (decodeSel hdr ptSel))).map (Slab.mapParts (decodePT hdr sel)) =
      slabs.map (Slab.mapParts (decodeSel hdr sel)) := by
    rw [List.map_map]
    apply List.map_congr_left
    intro s _
    simp only [Function.comp, mapParts_mapParts, decodePT_comp]
  rw [hcomp] at hdec
  refine ⟨rPT, ?_, ?_, rfl, rfl, rfl⟩
  · unfold loadCols
    rw [load_readerOpts o ptSel _ hwfPT, hPT]
  · unfold loadCols
    rw [load_readerOpts o sel _ hwfS, hdec]

/-! ### non-vacuity: a concrete catalog of raw words — one superslab, two halos; halo 0 has two original
particles (after an L0 gap) and one merged particle from the cleaning file, halo 1 one original particle;
subsample A, cleaned; BoxSize 10^6, header ppd a hair below 4 -/

def exHdr : Header := { box := 1000000, ppd := 3999999 / 1000000 }

/-- rvint words `p * 4096 + (v + 2048)`: position field `p`, velocity field `v` -/
def exRv (p v : Int) : Row32 := (encWord p (v + 2048), encWord (p + 1) (v + 2048), encWord (-p) (2048 - v))

def exRecs : List Rec :=
  [ (exRv 7 0, 0#64),                                        -- L0 particle before the first halo (not indexed)
    (exRv 1 3, BitVec.ofNat 64 (5 + 6 * 2 ^ 16 + 7 * 2 ^ 32 + 2 ^ 48 + 3 * 2 ^ 49)),
    (exRv 2 (-1), BitVec.ofNat 64 (1 + 2 * 2 ^ 16 + 3 * 2 ^ 32)),
    (exRv 9 9, BitVec.ofNat 64 (2 ^ 48)) ]

def exClean : List Rec := [ (exRv 100 5, BitVec.ofNat 64 (2 + 2 ^ 49 + 2 ^ 63)) ]

def exCat : List (Slab Rec) :=
  [ { halos := [⟨1, 2, 0, 0, 40⟩, ⟨3, 1, 0, 0, 30⟩], clean := [⟨0, 1, 0, 0, 41⟩, ⟨1, 0, 0, 0, 30⟩],
      partA := exRecs, partB := [], cleanA := exClean, cleanB := [] } ]

def exO : Opts := { cleaned := true, loadA := true, loadB := false, rawCol := false, masks := none }

example : wfE exO exCat := (wf_iff _ _).mp (by decide)
example : exHdr.ppdInt = 4 := by decide +kernel
-- the index columns: halo 0 gets 2 original + 1 merged particle, halo 1 one
example : (loadCols exHdr exO [.pid, .tagged, .density, .lagrIdx] exCat).toOption.map (·.idx) =
    some [(.A, [0, 3], [3, 1])] := by decide +kernel
-- the decoded integer columns, slot by slot: originals 1, 2 of the superslab file, then the merged record, then
-- original 3 for halo 1
example : (loadCols exHdr exO [.pid, .tagged, .density, .lagrIdx] exCat).toOption.map (·.sub) =
    some [ some [(.pid, .val (.int (5 + 6 * 2 ^ 16 + 7 * 2 ^ 32))), (.tagged, .val (.int 1)), (.density, .val (.int 9)),
                 (.lagrIdx, .val (.tri 5 6 7))],
           some [(.pid, .val (.int (1 + 2 * 2 ^ 16 + 3 * 2 ^ 32))), (.tagged, .val (.int 0)), (.density, .val (.int 0)),
                 (.lagrIdx, .val (.tri 1 2 3))],
           some [(.pid, .val (.int 2)), (.tagged, .val (.int 0)), (.density, .val (.int 1)),
                 (.lagrIdx, .val (.tri 2 0 0))],
           some [(.pid, .val (.int 0)), (.tagged, .val (.int 1)), (.density, .val (.int 0)),
                 (.lagrIdx, .val (.tri 0 0 0))] ] := by decide +kernel
-- positions / velocities of the first slot: (1, 2, -1) * Box/10^6 and (3, 3, -3) * 6000/2048
example : ((loadCols exHdr exO [.pos, .vel] exCat).toOption.map (·.sub)).map (·.head?) =
    some (some (some [(.pos, .val (.triRat 1 2 (-1))), (.vel, .val (.triRat (1125 / 128) (1125 / 128) (-1125 / 128)))])) := by
  decide +kernel
-- Lagrangian position of the first slot: (5, 6, 7) * Box/4 - Box/2
example : ((loadCols exHdr exO [.lagrPos] exCat).toOption.map (·.sub)).map (·.head?) =
    some (some (some [(.lagrPos, .val (.triRat 750000 1000000 1250000))])) := by decide +kernel
-- passthrough: the raw words themselves, same slots
example : (loadCols exHdr exO ptSel exCat).toOption.map (·.sub) =
    some ((([exRecs[1]!, exRecs[2]!] ++ exClean ++ [exRecs[3]!]).map
      (fun rec => some [(Col.rvint, Out.row32 rec.1), (Col.packedpid, Out.word rec.2)]))) := by decide +kernel

end AbacusVerif.ReaderLink
