/-
  C15 — pack9 streams decode one particle per record relative to its cell header.

  Property theorems about the model of `abacusnbody/data/pack9.py` (Model/C15.lean), for every record
  stream (any interleaving of headers and particles, any byte values), every output option and every
  box size / velocity scale.  Vocabulary (`nonHeaders`, `hdrAfter`, `HeadersOk`, `WritesSpec`, `Fits`,
  `OutSpec`) is defined in Lemmas/C15.lean.
-/
import AbacusVerif.Lemmas.C15
import AbacusVerif.Lemmas.Num
import Mathlib.Tactic.FieldSimp
import Mathlib.Tactic.Positivity

namespace AbacusVerif.Pack9
open AbacusVerif

/-! ### the 9-byte ↔ six 12-bit fields bijection -/

/-- every field produced from nine bytes fits in 12 bits -/
theorem fields_lt (c : Rec) : (fields c).wf12 := by
  obtain ⟨c0, c1, c2, c3, c4, c5, c6, c7, c8⟩ := c
  have b0 := c0.toNat_lt; have b1 := c1.toNat_lt; have b2 := c2.toNat_lt
  have b3 := c3.toNat_lt; have b4 := c4.toNat_lt; have b5 := c5.toNat_lt
  have b6 := c6.toNat_lt; have b7 := c7.toNat_lt; have b8 := c8.toNat_lt
  simp only [Six.wf12, fields, nibLo_eq, nibHi_eq]
  refine ⟨?_, ?_, ?_, ?_, ?_, ?_⟩ <;> omega

/-- **pack_expand.** encoding the fields of a record gives the record back: `fields` is injective on all
2^72 byte patterns (no nibble is dropped or duplicated) -/
theorem pack_expand (c : Rec) : pack (fields c) = c := by
  obtain ⟨c0, c1, c2, c3, c4, c5, c6, c7, c8⟩ := c
  have b0 := c0.toNat_lt; have b1 := c1.toNat_lt; have b2 := c2.toNat_lt
  have b3 := c3.toNat_lt; have b4 := c4.toNat_lt; have b5 := c5.toNat_lt
  have b6 := c6.toNat_lt; have b7 := c7.toNat_lt; have b8 := c8.toNat_lt
  simp only [pack, fields, nibLo_eq, nibHi_eq, Rec.mk.injEq]
  refine ⟨?_, ?_, ?_, ?_, ?_, ?_, ?_, ?_, ?_⟩ <;> apply ofNat_eq <;> omega

/-- **expand_pack.** every six 12-bit field values are recovered from their encoding: `fields` is onto, and the
encoder of the format is its inverse -/
theorem expand_pack (f : Six Nat) (h : f.wf12) : fields (pack f) = f := by
  obtain ⟨f0, f1, f2, f3, f4, f5⟩ := f
  obtain ⟨h0, h1, h2, h3, h4, h5⟩ := h
  simp only at h0 h1 h2 h3 h4 h5
  simp only [pack, fields, nibLo_eq, nibHi_eq, UInt8.toNat_ofNat', Six.mk.injEq]
  refine ⟨?_, ?_, ?_, ?_, ?_, ?_⟩ <;> omega

example : (fields ⟨0xFF, 0x03, 0x45, 0x12, 0x34, 0x56, 0x00, 0xF0, 0xFF⟩) = ⟨0xFF3, 0x045, 0x124, 0x356, 0x000, 0xFFF⟩ := by decide
example : (⟨0xFF3, 0x045, 0x124, 0x356, 0x000, 0xFFF⟩ : Six Nat).wf12 := by decide
example : pack ⟨0xFF3, 0x045, 0x124, 0x356, 0x000, 0xFFF⟩ = ⟨0xFF, 0x03, 0x45, 0x12, 0x34, 0x56, 0x00, 0xF0, 0xFF⟩ := by decide

/-- `_expand_to_short` returns the fields minus 2048, each inside the `int16` range `[-2048, 2047]`
(so the in-place `s[i] -= 2048` cannot overflow) -/
theorem expand_range (c : Rec) :
    let s := expandToShort c
    let f := fields c
    s.s0 = (f.s0 : Int) - 2048 ∧ s.s1 = (f.s1 : Int) - 2048 ∧ s.s2 = (f.s2 : Int) - 2048 ∧
    s.s3 = (f.s3 : Int) - 2048 ∧ s.s4 = (f.s4 : Int) - 2048 ∧ s.s5 = (f.s5 : Int) - 2048 ∧
    (-2048 ≤ s.s0 ∧ s.s0 ≤ 2047) ∧ (-2048 ≤ s.s1 ∧ s.s1 ≤ 2047) ∧ (-2048 ≤ s.s2 ∧ s.s2 ≤ 2047) ∧
    (-2048 ≤ s.s3 ∧ s.s3 ≤ 2047) ∧ (-2048 ≤ s.s4 ∧ s.s4 ≤ 2047) ∧ (-2048 ≤ s.s5 ∧ s.s5 ≤ 2047) := by
  obtain ⟨h0, h1, h2, h3, h4, h5⟩ := fields_lt c
  intro s f
  refine ⟨rfl, rfl, rfl, rfl, rfl, rfl, ?_, ?_, ?_, ?_, ?_, ?_⟩ <;> simp only [s, expandToShort] <;> omega

/-! ### the stream: one particle per non-header record, decoded with the latest header -/

/-- a small stream used by the non-vacuity examples: header (cpd 4, vscale 100, cell (1,2,3)), two particles,
two consecutive headers, one particle -/
def exH : Rec := pack ⟨0xFF0, 52, 148, 49, 50, 51⟩
def exH2 : Rec := pack ⟨0xFF7, 50, 60, 48, 49, 48⟩
def exP : Rec := pack ⟨2058, 2028, 2078, 2049, 2047, 2053⟩
def exStream : List Rec := [exH, exP, exP, exH2, exH, exP]

/-- **unpack_count.**  For every stream whose headers have a non-zero cells-per-dimension field and every
choice of outputs with room for the particles: the kernel does not fault, returns the number of non-header
records, and — for every stream position `i` holding a non-header record, with `k` the number of non-header
records before `i` — `k < npart`, the `k`-th non-header record is `s[i]`, and write number `k` of each requested
output goes to row `k` with `s[i]` decoded relative to the most recent header before position `i`
(NaN when there is none).  Header records produce no write. -/
theorem unpack_count (s : List Rec) (box velz : Rat) (pl vl : Option Nat) (hok : HeadersOk s)
    (hp : Fits pl (nonHeaders s).length) (hv : Fits vl (nonHeaders s).length) :
    ∃ o, unpackKernel s box velz pl vl = .ok o ∧
      o.npart = (nonHeaders s).length ∧
      (pl = none → o.posW = []) ∧ (vl = none → o.velW = []) ∧
      (pl ≠ none → o.posW.length = o.npart) ∧ (vl ≠ none → o.velW.length = o.npart) ∧
      ∀ i (hi : i < s.length), isHeader s[i] = false →
        let k := (nonHeaders (s.take i)).length
        k < o.npart ∧ (nonHeaders s)[k]? = some s[i] ∧
        (pl ≠ none → o.posW[k]? =
          some (k, decodePos (hdrAfter box velz none (s.take i)) (expandToShort s[i]))) ∧
        (vl ≠ none → o.velW[k]? =
          some (k, decodeVel (hdrAfter box velz none (s.take i)) (expandToShort s[i]))) := by
  obtain ⟨o, ho, hn, hpw, hvw⟩ := loop_spec box velz pl vl s none 0 hok (by simpa using hp) (by simpa using hv)
  simp only [Nat.zero_add] at hn
  refine ⟨o, ho, hn, ?_, ?_, ?_, ?_, ?_⟩
  · intro h; subst h; exact hpw
  · intro h; subst h; exact hvw
  · intro h
    cases pl with
    | none => exact absurd rfl h
    | some L =>
      have := congrArg List.length hpw.1
      simpa [hn] using this
  · intro h
    cases vl with
    | none => exact absurd rfl h
    | some L =>
      have := congrArg List.length hvw.1
      simpa [hn] using this
  · intro i hi hnh
    refine ⟨by rw [hn]; exact nonHeaders_take_lt s i hi hnh, nonHeaders_getElem_of_take s i hi hnh, ?_, ?_⟩
    · intro h
      cases pl with
      | none => exact absurd rfl h
      | some L => simpa using hpw.2 i hi hnh
    · intro h
      cases vl with
      | none => exact absurd rfl h
      | some L => simpa using hvw.2 i hi hnh

example : HeadersOk exStream := by decide
example : (nonHeaders exStream).length = 3 := by decide
example : Fits (some 6) (nonHeaders exStream).length := by intro L h; cases h; decide
example : isHeader exStream[5] = false ∧ (nonHeaders (exStream.take 5)).length = 2 := by decide

/-- **unpack_write_index.**  The rows written in a requested output are `0, 1, …, npart-1`, in this order, each
exactly once, and all of them exist in the output (`npart ≤ len(data)` for an allocated output). -/
theorem unpack_write_index (s : List Rec) (box velz : Rat) (pl vl : Option Nat) (hok : HeadersOk s)
    (hp : Fits pl (nonHeaders s).length) (hv : Fits vl (nonHeaders s).length) :
    ∃ o, unpackKernel s box velz pl vl = .ok o ∧ o.npart ≤ s.length ∧
      (∀ L, pl = some L → o.posW.map Prod.fst = List.range o.npart ∧ ∀ w ∈ o.posW, w.1 < L) ∧
      (∀ L, vl = some L → o.velW.map Prod.fst = List.range o.npart ∧ ∀ w ∈ o.velW, w.1 < L) := by
  obtain ⟨o, ho, hn, hpw, hvw⟩ := loop_spec box velz pl vl s none 0 hok (by simpa using hp) (by simpa using hv)
  simp only [Nat.zero_add] at hn
  have key : ∀ (ws : List (Nat × V3)) (L : Nat), o.npart ≤ L →
      ws.map Prod.fst = (List.range (nonHeaders s).length).map (0 + ·) →
      ws.map Prod.fst = List.range o.npart ∧ ∀ w ∈ ws, w.1 < L := by
    intro ws L hL h
    have h' : ws.map Prod.fst = List.range o.npart := by rw [h, hn]; simp
    refine ⟨h', ?_⟩
    intro w hw
    have : w.1 ∈ ws.map Prod.fst := List.mem_map_of_mem hw
    rw [h'] at this
    have := List.mem_range.mp this
    omega
  refine ⟨o, ho, by rw [hn]; exact nonHeaders_length_le s, ?_, ?_⟩
  · intro L hL; subst hL
    exact key _ L (by rw [hn]; exact hp L rfl) hpw.1
  · intro L hL; subst hL
    exact key _ L (by rw [hn]; exact hv L rfl) hvw.1

example : Fits (some exStream.length) (nonHeaders exStream).length := by intro L h; cases h; decide

/-- A supplied output with fewer rows than there are non-header records makes the kernel fault (an `IndexError`
under bounds checking, a stray write otherwise): the hypothesis `Fits` of the two theorems above is necessary. -/
theorem unpack_short_output_faults (s : List Rec) (box velz : Rat) (pl vl : Option Nat) (hok : HeadersOk s)
    (h : (∃ L, pl = some L ∧ L < (nonHeaders s).length) ∨ (∃ L, vl = some L ∧ L < (nonHeaders s).length)) :
    unpackKernel s box velz pl vl = .error .oob := by
  apply loop_short box velz pl vl s none 0 hok
  · intro L _; exact Nat.zero_le _
  · intro L _; exact Nat.zero_le _
  · simpa using h

example : (∃ L, (some 2) = some L ∧ L < (nonHeaders exStream).length) := ⟨2, rfl, by decide⟩
example : unpackKernel exStream 1000 (5/2) (some 2) none = .error .oob := by decide +kernel

/-- With an allocated output (`posout=None`) the returned array `_posout[:npart]` has exactly `npart` rows, every
one of them written (no uninitialised row), row `k` holding the value of write `k`; with `False` the tuple element
is `0`, with a supplied array it is `npart`. -/
theorem unpack_alloc_slice (s : List Rec) (box velz : Rat) (vo : OutOpt) (hok : HeadersOk s)
    (hv : Fits (vo.len s.length) (nonHeaders s).length) :
    ∃ r, unpackPack9 s box velz .alloc vo = .ok r ∧
      r.retPos = .arr (r.out.posW.map (fun w => some w.2)) ∧
      r.out.posW.length = (nonHeaders s).length ∧
      r.retVel = (match vo with
        | .alloc => .arr (r.out.velW.map (fun w => some w.2))
        | .skip => .count 0
        | .supplied _ => .count (nonHeaders s).length) := by
  have hp : Fits (OutOpt.alloc.len s.length) (nonHeaders s).length := by
    intro L hL; cases hL; exact nonHeaders_length_le s
  obtain ⟨o, ho, hle, hpi, hvi⟩ := unpack_write_index s box velz _ _ hok hp hv
  obtain ⟨o2, ho2, hn, -, -, hpl, hvl, -⟩ := unpack_count s box velz _ _ hok hp hv
  rw [ho] at ho2; cases ho2
  have slice : ∀ (ws : List (Nat × V3)), ws.map Prod.fst = List.range o.npart →
      (applyWrites (List.replicate s.length none) (ws.map (fun w => (w.1, some w.2)))).take o.npart =
        ws.map (fun w => some w.2) := by
    intro ws hws
    have hlen : ws.length = o.npart := by simpa using congrArg List.length hws
    have e := writes_as_range ws o.npart hws
    have e1 : ws.map (fun w => (w.1, some w.2)) =
        (List.range o.npart).map (fun k => (k, some ((ws.map Prod.snd).getD k (none, none, none)))) := by
      conv => lhs; rw [e]
      simp [List.map_map, Function.comp]
    have e2 : ws.map (fun w => some w.2) =
        (List.range o.npart).map (fun k => some ((ws.map Prod.snd).getD k (none, none, none))) := by
      conv => lhs; rw [e]
      simp [List.map_map, Function.comp]
    rw [e1, e2]
    exact applyWrites_prefix _ _ _ (by simpa using hle)
  refine ⟨_, by simp only [unpackPack9, ho, bind, Except.bind]; rfl, ?_, ?_, ?_⟩
  · simp only [mkRet]
    rw [slice _ (hpi s.length rfl).1]
  · rw [← hn]; exact hpl (by simp [OutOpt.len])
  · cases vo with
    | alloc =>
      simp only [mkRet]
      rw [slice _ (hvi s.length rfl).1]
    | skip => simp [mkRet]
    | supplied L => simp [mkRet, hn]

example : Fits (OutOpt.len exStream.length (.supplied 3)) (nonHeaders exStream).length := by
  intro L h; cases h; decide

/-- **unpack_opts_independent.**  Two successful calls on the same stream — with any two choices of
(positions, velocities) ∈ {allocate, False, supplied(any length)}² — return the same particle count, write the
same rows with the same values into every output they both produce, and return equal arrays when both allocate. -/
theorem unpack_opts_independent (s : List Rec) (box velz : Rat) (po vo po' vo' : OutOpt) (r r' : Result)
    (h : unpackPack9 s box velz po vo = .ok r) (h' : unpackPack9 s box velz po' vo' = .ok r') :
    r.out.npart = r'.out.npart ∧
    (po ≠ .skip → po' ≠ .skip → r.out.posW = r'.out.posW) ∧
    (vo ≠ .skip → vo' ≠ .skip → r.out.velW = r'.out.velW) ∧
    (po = .alloc → po' = .alloc → r.retPos = r'.retPos) ∧
    (vo = .alloc → vo' = .alloc → r.retVel = r'.retVel) := by
  simp only [unpackPack9, bind, Except.bind] at h h'
  cases hk : unpackKernel s box velz (po.len s.length) (vo.len s.length) with
  | error e => rw [hk] at h; cases h
  | ok o =>
  cases hk' : unpackKernel s box velz (po'.len s.length) (vo'.len s.length) with
  | error e => rw [hk'] at h'; cases h'
  | ok o' =>
  rw [hk] at h; rw [hk'] at h'
  cases h; cases h'
  obtain ⟨i1, i2, i3⟩ := loop_indep box velz _ _ _ _ s none 0 o o' hk hk'
  have some_of : ∀ (x : OutOpt), x ≠ .skip → (x.len s.length).isSome := by
    intro x hx; cases x <;> simp [OutOpt.len] at hx ⊢
  refine ⟨i1, fun a b => i2 (some_of _ a) (some_of _ b), fun a b => i3 (some_of _ a) (some_of _ b), ?_, ?_⟩
  · intro a b; subst a; subst b
    simp only [mkRet, i1, i2 (by simp [OutOpt.len]) (by simp [OutOpt.len])]
  · intro a b; subst a; subst b
    simp only [mkRet, i1, i3 (by simp [OutOpt.len]) (by simp [OutOpt.len])]

example : ∃ r r', unpackPack9 exStream 1000 (5/2) .alloc .skip = .ok r ∧
    unpackPack9 exStream 1000 (5/2) (.supplied 5) .alloc = .ok r' ∧ r.out.npart = 3 ∧ r'.out.posW.length = 3 := by
  refine ⟨_, _, rfl, rfl, ?_, ?_⟩ <;> decide +kernel


/-! ### encoding to the format and back: within half a quantum -/

/-- the format's header record for `cpd` cells per dimension, integer velocity scale `vs`, cell `(i, j, k)`;
`lo` is the free low nibble of the first field -/
def packHeader (lo cpd vs i j k : Nat) : Rec := pack ⟨0xFF0 + lo, cpd + 48, vs + 48, i + 48, j + 48, k + 48⟩

/-- the header state the format documents for such a header -/
def hdrOf (box velz : Rat) (cpd vs i j k : Nat) : Hdr :=
  { csize := box / cpd
    vscale := (vs : Rat) / 2000 / cpd * velz
    cellx := ((i : Rat) + 1 / 2) * (box / cpd) - box / 2
    celly := ((j : Rat) + 1 / 2) * (box / cpd) - box / 2
    cellz := ((k : Rat) + 1 / 2) * (box / cpd) - box / 2
    pscale := box / cpd / 2000 }

/-- a particle record from six signed offsets (in quanta) -/
def packParticle (q : Six Int) : Rec :=
  pack ⟨(q.s0 + 2048).toNat, (q.s1 + 2048).toNat, (q.s2 + 2048).toNat,
        (q.s3 + 2048).toNat, (q.s4 + 2048).toNat, (q.s5 + 2048).toNat⟩

/-- offsets that fit the format: 12 bits each, and the first field below `0xFF0` so that the record's first
byte is not the header marker -/
def Six.fits (q : Six Int) : Prop :=
  (-2048 ≤ q.s0 ∧ q.s0 < 2032) ∧ (-2048 ≤ q.s1 ∧ q.s1 ≤ 2047) ∧ (-2048 ≤ q.s2 ∧ q.s2 ≤ 2047) ∧
  (-2048 ≤ q.s3 ∧ q.s3 ≤ 2047) ∧ (-2048 ≤ q.s4 ∧ q.s4 ≤ 2047) ∧ (-2048 ≤ q.s5 ∧ q.s5 ≤ 2047)

instance (q : Six Int) : Decidable q.fits := by unfold Six.fits; infer_instance

theorem isHeader_iff (c : Rec) : isHeader c = true ↔ 0xFF0 ≤ (fields c).s0 := by
  obtain ⟨c0, c1, c2, c3, c4, c5, c6, c7, c8⟩ := c
  have b0 := c0.toNat_lt; have b1 := c1.toNat_lt
  simp only [isHeader, fields, nibLo_eq, beq_iff_eq]
  rw [← UInt8.toNat_inj]
  have : (0xFF : UInt8).toNat = 255 := rfl
  rw [this]
  omega

theorem expand_packParticle (q : Six Int) (h : q.fits) :
    expandToShort (packParticle q) = q ∧ isHeader (packParticle q) = false := by
  obtain ⟨q0, q1, q2, q3, q4, q5⟩ := q
  obtain ⟨⟨a0, b0⟩, ⟨a1, b1⟩, ⟨a2, b2⟩, ⟨a3, b3⟩, ⟨a4, b4⟩, ⟨a5, b5⟩⟩ := h
  simp only at a0 b0 a1 b1 a2 b2 a3 b3 a4 b4 a5 b5
  have hw : (⟨(q0 + 2048).toNat, (q1 + 2048).toNat, (q2 + 2048).toNat,
      (q3 + 2048).toNat, (q4 + 2048).toNat, (q5 + 2048).toNat⟩ : Six Nat).wf12 := by
    simp only [Six.wf12]; omega
  have hf := expand_pack _ hw
  constructor
  · simp only [expandToShort, packParticle, hf, Six.mk.injEq]
    omega
  · cases hh : isHeader (packParticle ⟨q0, q1, q2, q3, q4, q5⟩) with
    | false => rfl
    | true =>
      have := (isHeader_iff _).mp hh
      simp only [packParticle, hf] at this
      omega

/-- **header_decode.**  A header record of the format is recognised as a header and sets the documented state:
cell size `box/cpd`, velocity quantum `vs/2000/cpd·velz`, position quantum `box/cpd/2000`, and the cell centre
`(i+1/2)·box/cpd − box/2`. -/
theorem header_decode (box velz : Rat) (lo cpd vs i j k : Nat) (hlo : lo < 16) (hcpd : 0 < cpd)
    (h1 : cpd + 48 < 4096) (h2 : vs + 48 < 4096) (h3 : i + 48 < 4096) (h4 : j + 48 < 4096) (h5 : k + 48 < 4096) :
    isHeader (packHeader lo cpd vs i j k) = true ∧
    mkHdr box velz (expandToShort (packHeader lo cpd vs i j k)) = .ok (hdrOf box velz cpd vs i j k) := by
  have hw : (⟨0xFF0 + lo, cpd + 48, vs + 48, i + 48, j + 48, k + 48⟩ : Six Nat).wf12 := by
    simp only [Six.wf12]; omega
  have hf := expand_pack _ hw
  constructor
  · rw [isHeader_iff]; simp only [packHeader, hf]; omega
  · have hc : ((cpd : Int) + 48 - 2048 + 2000) = (cpd : Int) := by omega
    have hne : (cpd : Int) ≠ 0 := by omega
    have hq : (cpd : ℚ) ≠ 0 := by exact_mod_cast (Nat.pos_iff_ne_zero.mp hcpd)
    simp only [mkHdr, expandToShort, packHeader, hf, hdrOf, Nat.cast_add, Nat.cast_ofNat, hc, hne, if_false]
    congr 1
    simp only [Hdr.mk.injEq]
    push_cast
    refine ⟨?_, ?_, ?_, ?_, ?_, ?_⟩ <;> field_simp <;> ring

example : isHeader (packHeader 0 4 100 1 2 3) = true ∧ packHeader 0 4 100 1 2 3 = exH := by decide

/-- **pos_roundtrip.**  A coordinate `x` encoded relative to the cell centre with quantum `pscale > 0` as the
nearest integer number of quanta `q = round((x − centre)/pscale)` is decoded (`q·pscale + centre`) to within
half a quantum of `x` — for every rational `x`; `q` fits the format whenever `|x − centre| ≤ 1.015 cell sizes`. -/
theorem pos_roundtrip (x centre pscale : Rat) (hps : 0 < pscale) :
    |((rhe ((x - centre) / pscale) : Int) : Rat) * pscale + centre - x| ≤ pscale / 2 := by
  have h := rhe_close ((x - centre) / pscale)
  have e : ((rhe ((x - centre) / pscale) : Int) : Rat) * pscale + centre - x =
      (((rhe ((x - centre) / pscale) : Int) : Rat) - (x - centre) / pscale) * pscale := by
    field_simp; ring
  rw [e, abs_mul, abs_of_pos hps]
  calc _ ≤ (1 / 2) * pscale := by exact mul_le_mul_of_nonneg_right h (le_of_lt hps)
    _ = pscale / 2 := by ring

/-- **vel_roundtrip.**  A velocity `v` encoded as `q = round(v / vscale)` with `vscale > 0` is decoded
(`q·vscale`) to within half a velocity quantum. -/
theorem vel_roundtrip (v vscale : Rat) (hvs : 0 < vscale) :
    |((rhe (v / vscale) : Int) : Rat) * vscale - v| ≤ vscale / 2 := by
  have := pos_roundtrip v 0 vscale hvs
  simpa using this

example : rhe (((-12374 : Rat) / 100 - (-125)) / (1 / 8)) = 10 := by decide +kernel

/-- **stream_roundtrip.**  Through the whole decoder: the two-record stream "header, particle" built by the
format's encoder from `cpd, vs, (i,j,k)` and six offsets `q` that fit the format decodes to exactly one particle,
whose position is `q·pscale + cell centre` and velocity `q·vscale` for the documented header state — so with
`q` chosen as in `pos_roundtrip` / `vel_roundtrip` every coordinate is recovered to within half a quantum. -/
theorem stream_roundtrip (box velz : Rat) (lo cpd vs i j k : Nat) (q : Six Int) (hlo : lo < 16) (hcpd : 0 < cpd)
    (h1 : cpd + 48 < 4096) (h2 : vs + 48 < 4096) (h3 : i + 48 < 4096) (h4 : j + 48 < 4096) (h5 : k + 48 < 4096)
    (hq : q.fits) :
    ∃ r, unpackPack9 [packHeader lo cpd vs i j k, packParticle q] box velz .alloc .alloc = .ok r ∧
      r.out.npart = 1 ∧
      r.retPos = .arr [some (decodePos (some (hdrOf box velz cpd vs i j k)) q)] ∧
      r.retVel = .arr [some (decodeVel (some (hdrOf box velz cpd vs i j k)) q)] := by
  obtain ⟨hh1, hh2⟩ := header_decode box velz lo cpd vs i j k hlo hcpd h1 h2 h3 h4 h5
  obtain ⟨hp1, hp2⟩ := expand_packParticle q hq
  have hk : unpackKernel [packHeader lo cpd vs i j k, packParticle q] box velz (some 2) (some 2) =
      .ok { npart := 1, posW := [(0, decodePos (some (hdrOf box velz cpd vs i j k)) q)],
            velW := [(0, decodeVel (some (hdrOf box velz cpd vs i j k)) q)] } := by
    simp only [unpackKernel, loop, hh1, hh2, hp1, hp2, if_true, Bool.false_eq_true, if_false,
      bind, Except.bind, writeRow_some _ (show 0 < 2 by omega)]
    rfl
  refine ⟨{ retPos := .arr [some (decodePos (some (hdrOf box velz cpd vs i j k)) q)],
            retVel := .arr [some (decodeVel (some (hdrOf box velz cpd vs i j k)) q)],
            out := { npart := 1, posW := [(0, decodePos (some (hdrOf box velz cpd vs i j k)) q)],
                     velW := [(0, decodeVel (some (hdrOf box velz cpd vs i j k)) q)] } }, ?_, rfl, rfl, rfl⟩
  simp only [unpackPack9, OutOpt.len, List.length_cons, List.length_nil, Nat.zero_add, Nat.reduceAdd, hk,
    bind, Except.bind]
  simp [mkRet, applyWrites, List.replicate]

example : (⟨10, -20, 30, 1, -1, 5⟩ : Six Int).fits := by decide
example : packParticle ⟨10, -20, 30, 1, -1, 5⟩ = exP := by decide
example : decodePos (some (hdrOf 1000 (5/2) 4 100 1 2 3)) ⟨10, -20, 30, 1, -1, 5⟩ =
    (some (-495/4), some (245/2), some (1515/4)) := by decide +kernel

end AbacusVerif.Pack9
