/-
  C05 — halo statistics are unpacked into consistent physical units.

  Property theorems over the loader table regenerated from /repo (`Generated/Loaders.lean`), the
  evaluator / degree checker of `Model/C05.lean` and the specification table `Props/C05Kinds.lean`.
  `α` is any linearly ordered field (ℝ for the statements about `Real.sqrt`, ℚ in the driver).
-/
import AbacusVerif.Lemmas.C05
import AbacusVerif.Props.C05Kinds
import Mathlib.Analysis.Real.Sqrt
import Mathlib.Algebra.BigOperators.Group.List.Basic

namespace AbacusVerif.Units
set_option linter.unusedSectionVars false

variable {α : Type} [Field α] [LinearOrder α] [IsStrictOrderedRing α]

/-- **homog_sound.**  If the checker assigns degree `(a, b)` to an expression, then for all raw values, all
`BoxSize, VelZSpace_to_kms > 0` and every halo environment whose columns scale by their own degrees,
the converted value is `BoxSize^a · VelZSpace_to_kms^b` times the unconverted (`box = vel = 1`) value. -/
theorem homog_sound (P : Prim α) (hP : PrimOK P) (hd : String → Option (Int × Int))
    {box vel : α} (hb : 0 < box) (hv : 0 < vel) (r h1 hs : String → Nat → α) (e : Expr) (d : Int × Int)
    (h : homog hd e = some d)
    (hh : ∀ n ∈ haloRefs e, ∀ d', hd n = some d' → ∀ k, hs n k = box ^ d'.1 * vel ^ d'.2 * h1 n k)
    (k : Nat) :
    eval P box vel r hs k e = box ^ d.1 * vel ^ d.2 * eval P 1 1 r h1 k e :=
  homog_sound_aux P hP hd hb hv r h1 hs e hh d h k

/-- the real-number primitives: `Real.sqrt`, "is non-zero"; `%` and the Euler decoder stay arbitrary -/
noncomputable def realPrim (md : ℝ → ℝ → ℝ) (eu : Nat → Nat → ℝ → ℝ) : Prim ℝ :=
  { sqrt := Real.sqrt, mod := md, nz := fun x => @decide (x ≠ 0) (Classical.propDecidable _), euler := eu }

theorem realPrim_ok (md : ℝ → ℝ → ℝ) (eu : Nat → Nat → ℝ → ℝ) : PrimOK (realPrim md eu) where
  sqrt_scale := by
    intro c x hc
    show Real.sqrt (c * c * x) = c * Real.sqrt x
    rw [Real.sqrt_mul (mul_self_nonneg c), Real.sqrt_mul_self (le_of_lt hc)]
  nz_scale := by
    intro c x hc
    have : c * x ≠ 0 ↔ x ≠ 0 := by
      constructor
      · intro h hx; exact h (by rw [hx, mul_zero])
      · intro h; exact mul_ne_zero (ne_of_gt hc) h
    simp only [realPrim]
    exact decide_eq_decide.mpr this

/-- non-vacuity: the (post-fix) `sigmavMid_com` expression over ℝ with `Real.sqrt`, `BoxSize = 2`,
`VelZSpace_to_kms = 3`, halo columns scaling as velocities: the converted value is 3 × the unconverted. -/
example (md eu) (r h1 : String → Nat → ℝ) (k : Nat) :
    eval (realPrim md eu) 2 3 r (fun n j => 3 * h1 n j) k Loaders.ld_sigmavMid_com.expr
      = 3 * eval (realPrim md eu) 1 1 r h1 k Loaders.ld_sigmavMid_com.expr := by
  have := homog_sound (realPrim md eu) (realPrim_ok md eu) specDeg (box := 2) (vel := 3) (by norm_num) (by norm_num)
    r h1 (fun n j => 3 * h1 n j) Loaders.ld_sigmavMid_com.expr (0, 1) (by decide +kernel)
    (by
      intro n hn d' hd' j
      have hn' : n = "sigmavMaj_com" ∨ n = "sigmavMin_com" := by
        simpa [Loaders.ld_sigmavMid_com, haloRefs] using hn
      rcases hn' with rfl | rfl
      · have : d' = (0, 1) := by
          have h0 : specDeg "sigmavMaj_com" = some (0, 1) := by decide +kernel
          rw [h0] at hd'; exact (Option.some.inj hd').symm
        subst this; simp
      · have : d' = (0, 1) := by
          have h0 : specDeg "sigmavMin_com" = some (0, 1) := by decide +kernel
          rw [h0] at hd'; exact (Option.some.inj hd').symm
        subst this; simp) k
  simpa using this

/-! ### the generated table against the specification -/

/-- every column of the table has a kind and its expression the degree of that kind, the halo columns
it reads being assumed to have the degree of *their* kind -/
def unitsOK (tbl : List Loader) : Bool :=
  tbl.all (fun l =>
    match kind l.name with
    | some kd => homog specDeg l.expr == some kd.deg
    | none => false)

/-- every column declared in the dtype tables has exactly the loader of that name in the table -/
def covered (tbl : List Loader) (dts : List (String × Dt)) : Bool :=
  dts.all (fun p => (lookup tbl p.1).isSome)

/-- **units_table.**  Checked by the kernel on the table extracted from the current source: every declared
column has a loader; every loader's expression is homogeneous of degree (1,0) for the length-like
columns, (0,1) for the velocity-like ones, (0,0) for everything else. -/
theorem units_table :
    (∀ l ∈ Loaders.table, ∃ kd, kind l.name = some kd ∧ homog specDeg l.expr = some kd.deg) ∧
    covered Loaders.table (Dtypes.user_dt ++ Dtypes.clean_dt ++ Dtypes.clean_dt_progen ++ Dtypes.halo_lc_dt) = true := by
  have h : unitsOK Loaders.table = true := by decide +kernel
  refine ⟨?_, by decide +kernel⟩
  intro l hl
  have := List.all_eq_true.mp h l hl
  cases hk : kind l.name with
  | none => simp [hk] at this
  | some kd =>
    refine ⟨kd, rfl, ?_⟩
    simpa [hk] using this

/-- non-vacuity: the table is not empty and contains columns of all three kinds -/
example : Loaders.table.length = 105 ∧ kind "r50_com" = some .length ∧ kind "sigmavtan_L2com" = some .velocity ∧
    kind "N" = some .unchanged ∧ (lookup Loaders.table "r50_com").isSome = true := by decide +kernel

/-- loaded columns scale by the degree the table assigns, for any table that is consistent with a degree
assignment `hd` -/
theorem units_loaded_gen (P : Prim α) (hP : PrimOK P) (tbl : List Loader) (hd : String → Option (Int × Int))
    (htbl : ∀ l ∈ tbl, ∃ d, hd l.name = some d ∧ homog hd l.expr = some d)
    {box vel : α} (hb : 0 < box) (hv : 0 < vel) (r : String → Nat → α) (junk : α) :
    ∀ fuel n, resolves tbl fuel n = true → ∀ d, hd n = some d → ∀ k,
      denote P tbl box vel r junk fuel n k = sc box vel d * denote P tbl 1 1 r junk fuel n k := by
  intro fuel
  induction fuel with
  | zero => intro n h; simp [resolves] at h
  | succ fuel ih =>
    intro n hres d hdn k
    unfold resolves at hres
    cases hl : lookup tbl n with
    | none => simp [hl] at hres
    | some l =>
      simp only [hl] at hres
      obtain ⟨hmem, hname⟩ := lookup_some hl
      obtain ⟨d0, hd0, hh0⟩ := htbl l hmem
      rw [hname, hdn] at hd0
      have hdd : d = d0 := Option.some.inj hd0
      subst hdd
      simp only [denote, hl]
      apply homog_sound_aux P hP hd hb hv r _ _ l.expr _ d hh0 k
      intro m hm d' hd' j
      exact ih m (List.all_eq_true.mp hres m hm) d' hd' j

/-- every column of the generated table resolves its halo dependencies within 4 levels -/
theorem table_resolves : Loaders.table.all (fun l => resolves Loaders.table 4 l.name) = true := by
  decide +kernel

/-- **units_loaded.**  For every column of the generated table, every `BoxSize, VelZSpace_to_kms > 0` and all
raw values: the column as loaded with conversion on (dependencies loaded first, as `_read_halo_info`
does) is `BoxSize` (length-like), `VelZSpace_to_kms` (velocity-like) or 1 (everything else) times the
column as loaded with conversion off. -/
theorem units_loaded (P : Prim α) (hP : PrimOK P) {box vel : α} (hb : 0 < box) (hv : 0 < vel)
    (r : String → Nat → α) (junk : α) (l : Loader) (hl : l ∈ Loaders.table) (kd : Kind)
    (hk : kind l.name = some kd) (k : Nat) :
    denote P Loaders.table box vel r junk 4 l.name k =
      (match kd with | .length => box | .velocity => vel | .unchanged => 1) *
        denote P Loaders.table 1 1 r junk 4 l.name k := by
  have htbl : ∀ l ∈ Loaders.table, ∃ d, specDeg l.name = some d ∧ homog specDeg l.expr = some d := by
    intro l hl
    obtain ⟨kd, h1, h2⟩ := units_table.1 l hl
    exact ⟨kd.deg, by simp [specDeg, h1], h2⟩
  have hres := List.all_eq_true.mp table_resolves l hl
  have := units_loaded_gen P hP Loaders.table specDeg htbl hb hv r junk 4 l.name hres kd.deg
    (by simp [specDeg, hk]) k
  rw [this]
  cases kd <;> simp [sc, Kind.deg]

/-- non-vacuity: `r50_com` over ℝ with BoxSize 2000: converted = 2000 × unconverted -/
example (md eu) (r : String → Nat → ℝ) :
    denote (realPrim md eu) Loaders.table 2000 1500 r 0 4 "r50_com" 0 =
      2000 * denote (realPrim md eu) Loaders.table 1 1 r 0 4 "r50_com" 0 := by
  have hl : Loaders.ld_r50_com ∈ Loaders.table := by decide +kernel
  exact units_loaded (realPrim md eu) (realPrim_ok md eu) (by norm_num) (by norm_num) r 0 Loaders.ld_r50_com hl
    .length (by decide +kernel) 0

/-! ### ratio columns -/

/-- product normal form of an expression built from atoms with `*` and `/`: (numerator, denominator) -/
def mono : Expr → Option (List Expr × List Expr)
  | .mul a b =>
    match mono a, mono b with
    | some (n1, d1), some (n2, d2) => some (n1 ++ n2, d1 ++ d2)
    | _, _ => none
  | .div a b =>
    match mono a, mono b with
    | some (n1, d1), some (n2, d2) => some (n1 ++ d2, d1 ++ n2)
    | _, _ => none
  | .raw n => some ([.raw n], [])
  | .halo n => some ([.halo n], [])
  | .const a b => some ([.const a b], [])
  | .box => some ([.box], [])
  | .vel => some ([.vel], [])
  | _ => none

theorem mono_sound (P : Prim α) (box vel : α) (r h : String → Nat → α) (k : Nat) :
    ∀ e n d, mono e = some (n, d) →
      eval P box vel r h k e = (n.map (eval P box vel r h k)).prod / (d.map (eval P box vel r h k)).prod := by
  intro e
  induction e with
  | mul a b iha ihb =>
    intro n d hm
    cases ha : mono a with
    | none => simp [mono, ha] at hm
    | some pa =>
      cases hb : mono b with
      | none => simp [mono, ha, hb] at hm
      | some pb =>
        obtain ⟨n1, d1⟩ := pa
        obtain ⟨n2, d2⟩ := pb
        simp only [mono, ha, hb, Option.some.injEq, Prod.mk.injEq] at hm
        obtain ⟨rfl, rfl⟩ := hm
        simp only [eval, iha _ _ ha, ihb _ _ hb, List.map_append, List.prod_append]
        rw [div_mul_div_comm]
  | div a b iha ihb =>
    intro n d hm
    cases ha : mono a with
    | none => simp [mono, ha] at hm
    | some pa =>
      cases hb : mono b with
      | none => simp [mono, ha, hb] at hm
      | some pb =>
        obtain ⟨n1, d1⟩ := pa
        obtain ⟨n2, d2⟩ := pb
        simp only [mono, ha, hb, Option.some.injEq, Prod.mk.injEq] at hm
        obtain ⟨rfl, rfl⟩ := hm
        simp only [eval, iha _ _ ha, ihb _ _ hb, List.map_append, List.prod_append]
        rw [div_div_div_eq]
  | raw n => intro n d hm; simp only [mono, Option.some.injEq, Prod.mk.injEq] at hm; obtain ⟨rfl, rfl⟩ := hm; simp
  | halo n => intro n d hm; simp only [mono, Option.some.injEq, Prod.mk.injEq] at hm; obtain ⟨rfl, rfl⟩ := hm; simp
  | const a b => intro n d hm; simp only [mono, Option.some.injEq, Prod.mk.injEq] at hm; obtain ⟨rfl, rfl⟩ := hm; simp
  | box => intro n d hm; simp only [mono, Option.some.injEq, Prod.mk.injEq] at hm; obtain ⟨rfl, rfl⟩ := hm; simp
  | vel => intro n d hm; simp only [mono, Option.some.injEq, Prod.mk.injEq] at hm; obtain ⟨rfl, rfl⟩ := hm; simp
  | _ => intro n d hm; simp [mono] at hm

/-- the syntactic check: up to reordering of factors, `c = raw[i16] / 32000 × b` -/
def ratioOK (tbl : List Loader) (t : String × String × String) : Bool :=
  match lookup tbl t.1, lookup tbl t.2.2 with
  | some lc, some lb =>
    match mono lc.expr, mono lb.expr with
    | some (n, d), some (n', d') =>
      n.isPerm (.raw t.2.1 :: n') && d.isPerm (.const (int16Scale : Nat) 1 :: d')
    | _, _ => false
  | _, _ => false

/-- **ratio_columns.**  Every compressed ratio column (r10…r98, rvcirc_max, sigmar relative to r100 of the
same centre; sigmavMin/Maj/rad/tan relative to sigmav3d of the same centre) is, as an expression of the
current source, `int16 / 32000 ×` the expression of the column it is relative to — for all raw values,
all BoxSize / VelZSpace_to_kms, in both unit systems. -/
theorem ratio_columns (t : String × String × String) (ht : t ∈ ratioCols) :
    ∃ lc lb, lookup Loaders.table t.1 = some lc ∧ lookup Loaders.table t.2.2 = some lb ∧
      ∀ (P : Prim α) (box vel : α) (r h : String → Nat → α) (k : Nat),
        eval P box vel r h k lc.expr = r t.2.1 k / 32000 * eval P box vel r h k lb.expr := by
  have hall : ratioCols.all (ratioOK Loaders.table) = true := by decide +kernel
  have hok := List.all_eq_true.mp hall t ht
  unfold ratioOK at hok
  cases hlc : lookup Loaders.table t.1 with
  | none => simp [hlc] at hok
  | some lc =>
    cases hlb : lookup Loaders.table t.2.2 with
    | none => simp [hlc, hlb] at hok
    | some lb =>
      refine ⟨lc, lb, rfl, rfl, ?_⟩
      intro P box vel r h k
      simp only [hlc, hlb] at hok
      cases hmc : mono lc.expr with
      | none => simp [hmc] at hok
      | some pc =>
        cases hmb : mono lb.expr with
        | none => simp [hmc, hmb] at hok
        | some pb =>
          obtain ⟨n, d⟩ := pc
          obtain ⟨n', d'⟩ := pb
          simp only [hmc, hmb, Bool.and_eq_true, List.isPerm_iff] at hok
          obtain ⟨hn, hdn⟩ := hok
          rw [mono_sound P box vel r h k _ _ _ hmc, mono_sound P box vel r h k _ _ _ hmb]
          rw [(hn.map _).prod_eq, (hdn.map _).prod_eq]
          simp only [List.map_cons, List.prod_cons, eval, int16Scale]
          rw [div_mul_div_comm]
          norm_num

/-- the syntactic check for the compressed columns that are plain unit-box lengths: `c = raw[i16] / 32000 × BoxSize` -/
def scaledOK (tbl : List Loader) (t : String × String) : Bool :=
  match lookup tbl t.1 with
  | some lc =>
    match mono lc.expr with
    | some (n, d) => n.isPerm [.raw t.2, .box] && d.isPerm [.const (int16Scale : Nat) 1]
    | none => false
  | none => false

/-- **sigman_columns.**  `sigman_*` is `int16 / 32000 × BoxSize` (× 1 with conversion off). -/
theorem sigman_columns (t : String × String) (ht : t ∈ scaledLengthCols) :
    ∃ lc, lookup Loaders.table t.1 = some lc ∧
      ∀ (P : Prim α) (box vel : α) (r h : String → Nat → α) (k : Nat),
        eval P box vel r h k lc.expr = r t.2 k / 32000 * box := by
  have hall : scaledLengthCols.all (scaledOK Loaders.table) = true := by decide +kernel
  have hok := List.all_eq_true.mp hall t ht
  unfold scaledOK at hok
  cases hlc : lookup Loaders.table t.1 with
  | none => simp [hlc] at hok
  | some lc =>
    refine ⟨lc, rfl, ?_⟩
    intro P box vel r h k
    simp only [hlc] at hok
    cases hmc : mono lc.expr with
    | none => simp [hmc] at hok
    | some pc =>
      obtain ⟨n, d⟩ := pc
      simp only [hmc, Bool.and_eq_true, List.isPerm_iff] at hok
      obtain ⟨hn, hdn⟩ := hok
      rw [mono_sound P box vel r h k _ _ _ hmc, (hn.map _).prod_eq, (hdn.map _).prod_eq]
      simp only [List.map_cons, List.map_nil, List.prod_cons, List.prod_nil, eval, int16Scale]
      rw [mul_one, mul_one, mul_div_right_comm]
      norm_num

/-- non-vacuity: 30 ratio columns, e.g. `sigmavMaj_L2com` is relative to `sigmav3d_L2com` through the
`sigmavMax_to_sigmav3d_L2com_i16` raw column -/
example : ratioCols.length = 30 ∧
    ("sigmavMaj_L2com", "sigmavMax_to_sigmav3d_L2com_i16", "sigmav3d_L2com") ∈ ratioCols := by decide +kernel

/-! ### the dispersion identity -/

theorem denote_succ (P : Prim α) (tbl : List Loader) (box vel : α) (r : String → Nat → α) (junk : α)
    (fuel : Nat) (n : String) (k : Nat) (l : Loader) (hl : lookup tbl n = some l) :
    denote P tbl box vel r junk (fuel + 1) n k = eval P box vel r (denote P tbl box vel r junk fuel) k l.expr := by
  simp only [denote, hl]

/-- **dispersion_identity.**  For both centres, any BoxSize and VelZSpace_to_kms, all raw values: whenever
the radicand `sigmav3d² − sigmavMaj² − sigmavMin²` (loaded columns) is non-negative, the loaded columns
satisfy `sigmavMin² + sigmavMid² + sigmavMaj² = sigmav3d²` — all four in the same units. -/
theorem dispersion_identity (md : ℝ → ℝ → ℝ) (eu : Nat → Nat → ℝ → ℝ) (box vel : ℝ) (r : String → Nat → ℝ)
    (junk : ℝ) (k : Nat) (com : String) (hcom : com ∈ coms) :
    let L := fun n => denote (realPrim md eu) Loaders.table box vel r junk 4 n k
    0 ≤ L ("sigmav3d" ++ com) ^ 2 - L ("sigmavMaj" ++ com) ^ 2 - L ("sigmavMin" ++ com) ^ 2 →
      L ("sigmavMin" ++ com) ^ 2 + L ("sigmavMid" ++ com) ^ 2 + L ("sigmavMaj" ++ com) ^ 2
        = L ("sigmav3d" ++ com) ^ 2 := by
  have hc : com = "_com" ∨ com = "_L2com" := by simpa [coms] using hcom
  rcases hc with rfl | rfl
  · have e1 : "sigmav3d" ++ "_com" = "sigmav3d_com" := by decide
    have e2 : "sigmavMaj" ++ "_com" = "sigmavMaj_com" := by decide
    have e3 : "sigmavMin" ++ "_com" = "sigmavMin_com" := by decide
    have e4 : "sigmavMid" ++ "_com" = "sigmavMid_com" := by decide
    have l1 : lookup Loaders.table "sigmav3d_com" = some Loaders.ld_sigmav3d_com := by decide +kernel
    have l2 : lookup Loaders.table "sigmavMaj_com" = some Loaders.ld_sigmavMaj_com := by decide +kernel
    have l3 : lookup Loaders.table "sigmavMin_com" = some Loaders.ld_sigmavMin_com := by decide +kernel
    have l4 : lookup Loaders.table "sigmavMid_com" = some Loaders.ld_sigmavMid_com := by decide +kernel
    intro L
    simp only [L, e1, e2, e3, e4]
    rw [denote_succ _ _ _ _ _ _ _ _ _ _ l1, denote_succ _ _ _ _ _ _ _ _ _ _ l2,
      denote_succ _ _ _ _ _ _ _ _ _ _ l3, denote_succ _ _ _ _ _ _ _ _ _ _ l4]
    simp only [Loaders.ld_sigmav3d_com, Loaders.ld_sigmavMaj_com, Loaders.ld_sigmavMin_com,
      Loaders.ld_sigmavMid_com, eval, npow_eq]
    rw [denote_succ _ _ _ _ _ _ _ _ _ _ l2, denote_succ _ _ _ _ _ _ _ _ _ _ l3]
    simp only [Loaders.ld_sigmavMaj_com, Loaders.ld_sigmavMin_com, eval]
    intro h
    show _ + Real.sqrt _ ^ 2 + _ = _
    rw [Real.sq_sqrt (by nlinarith [h])]
    ring
  · have e1 : "sigmav3d" ++ "_L2com" = "sigmav3d_L2com" := by decide
    have e2 : "sigmavMaj" ++ "_L2com" = "sigmavMaj_L2com" := by decide
    have e3 : "sigmavMin" ++ "_L2com" = "sigmavMin_L2com" := by decide
    have e4 : "sigmavMid" ++ "_L2com" = "sigmavMid_L2com" := by decide
    have l1 : lookup Loaders.table "sigmav3d_L2com" = some Loaders.ld_sigmav3d_L2com := by decide +kernel
    have l2 : lookup Loaders.table "sigmavMaj_L2com" = some Loaders.ld_sigmavMaj_L2com := by decide +kernel
    have l3 : lookup Loaders.table "sigmavMin_L2com" = some Loaders.ld_sigmavMin_L2com := by decide +kernel
    have l4 : lookup Loaders.table "sigmavMid_L2com" = some Loaders.ld_sigmavMid_L2com := by decide +kernel
    intro L
    simp only [L, e1, e2, e3, e4]
    rw [denote_succ _ _ _ _ _ _ _ _ _ _ l1, denote_succ _ _ _ _ _ _ _ _ _ _ l2,
      denote_succ _ _ _ _ _ _ _ _ _ _ l3, denote_succ _ _ _ _ _ _ _ _ _ _ l4]
    simp only [Loaders.ld_sigmav3d_L2com, Loaders.ld_sigmavMaj_L2com, Loaders.ld_sigmavMin_L2com,
      Loaders.ld_sigmavMid_L2com, eval, npow_eq]
    rw [denote_succ _ _ _ _ _ _ _ _ _ _ l2, denote_succ _ _ _ _ _ _ _ _ _ _ l3]
    simp only [Loaders.ld_sigmavMaj_L2com, Loaders.ld_sigmavMin_L2com, eval]
    intro h
    show _ + Real.sqrt _ ^ 2 + _ = _
    rw [Real.sq_sqrt (by nlinarith [h])]
    ring

/-- non-vacuity: stored sigmav3d = 2, ratios 16000/32000 and 8000/32000, VelZSpace_to_kms = 3, BoxSize = 7:
the radicand is 36 − 9 − 9/4 ≥ 0, so the identity holds for the loaded columns. -/
example (md eu) :
    let r : String → Nat → ℝ := fun n _ =>
      if n = "sigmav3d_com" then 2 else if n = "sigmavMax_to_sigmav3d_com_i16" then 16000
      else if n = "sigmavMin_to_sigmav3d_com_i16" then 8000 else 0
    let L := fun n => denote (realPrim md eu) Loaders.table 7 3 r 0 4 n 0
    L "sigmavMin_com" ^ 2 + L "sigmavMid_com" ^ 2 + L "sigmavMaj_com" ^ 2 = L "sigmav3d_com" ^ 2 := by
  intro r L
  have key := dispersion_identity md eu 7 3 r 0 0 "_com" (by decide)
  have e1 : "sigmav3d" ++ "_com" = "sigmav3d_com" := by decide
  have e2 : "sigmavMaj" ++ "_com" = "sigmavMaj_com" := by decide
  have e3 : "sigmavMin" ++ "_com" = "sigmavMin_com" := by decide
  have e4 : "sigmavMid" ++ "_com" = "sigmavMid_com" := by decide
  simp only [e1, e2, e3, e4] at key
  apply key
  have l1 : lookup Loaders.table "sigmav3d_com" = some Loaders.ld_sigmav3d_com := by decide +kernel
  have l2 : lookup Loaders.table "sigmavMaj_com" = some Loaders.ld_sigmavMaj_com := by decide +kernel
  have l3 : lookup Loaders.table "sigmavMin_com" = some Loaders.ld_sigmavMin_com := by decide +kernel
  rw [denote_succ _ _ _ _ _ _ _ _ _ _ l1, denote_succ _ _ _ _ _ _ _ _ _ _ l2, denote_succ _ _ _ _ _ _ _ _ _ _ l3]
  simp only [Loaders.ld_sigmav3d_com, Loaders.ld_sigmavMaj_com, Loaders.ld_sigmavMin_com, eval, r]
  simp (decide := true) only [if_true, if_false]
  norm_num

end AbacusVerif.Units
