/-
  C09 — galaxies follow the HOD threshold rule and inherit their host.

  Property theorems about the model of `gen_cent` / `gen_sats` / `gen_gals` in `Model/C09.lean`
  (`keepCode`, `mkCent`, `mkSat`, `applyRsd`, `wrap`, `genCent`, `genSats`, `genGalCat`), for every
  table of hosts / particles, every tracer subset, all widths, random numbers and RSD settings.
  Vocabulary (`inSlice`, `inSliceB`, `prevEnabled`, `cumWidth`, `agreeUpTo`) is in `Lemmas/C09.lean`.
-/
import AbacusVerif.Lemmas.C09

namespace AbacusVerif.Hod
open AbacusVerif

/-! ## the threshold rule -/

set_option linter.unnecessarySeqFocus false in
/-- The markers are the cumulative widths of the *enabled* tracers in the order LRG, ELG, QSO. -/
theorem marker_eq_cumsum (en : Enabled) (w : Widths) (T : Tracer) :
    marker en w T = cumWidth en w T := by
  obtain ⟨a, b, c⟩ := en
  cases T <;> cases a <;> cases b <;> cases c <;>
    simp [marker, markerL, markerE, markerQ, cumWidth, Tri.get, Tracer.rank] <;> ring

example : marker ⟨true, false, true⟩ ⟨1/4, 1/2, 1/8⟩ .QSO = 3/8 := by decide +kernel

/-- **threshold_rule.**  A host with random number `r` gets keep code `T.code` (yields a `T`-galaxy)
iff `r` is in `T`'s slice: `T` enabled, `r ≤ m_T`, and `r` above the marker of every enabled tracer
before `T`; it gets code 0 iff it is in no slice.  No assumption on the widths. -/
theorem threshold_rule (en : Enabled) (w : Widths) (r : Rat) :
    (∀ T : Tracer, keepCode en w r = T.code ↔ inSlice en w T r) ∧
    (keepCode en w r = 0 ↔ ∀ T : Tracer, ¬ inSlice en w T r) := by
  refine ⟨fun T => keepCode_eq_code_iff en w T r, ?_⟩
  constructor
  · intro h T hT
    have := (keepCode_eq_code_iff en w T r).2 hT
    have hp := T.code_pos
    omega
  · intro h
    rcases keepCode_cases en w r with h0 | h1 | h2 | h3
    · exact h0
    · exact absurd ((keepCode_eq_code_iff en w .LRG r).1 h1) (h _)
    · exact absurd ((keepCode_eq_code_iff en w .ELG r).1 h2) (h _)
    · exact absurd ((keepCode_eq_code_iff en w .QSO r).1 h3) (h _)

-- r = 0 with only ELG enabled and an ELG width of 0: the first enabled slice is closed at 0
example : keepCode ⟨false, true, false⟩ ⟨7/10, 0, 0⟩ 0 = Tracer.ELG.code := by decide +kernel
example : inSlice ⟨true, true, true⟩ ⟨1/4, 1/4, 1/4⟩ .ELG (1/2) := by
  rw [← inSliceB_iff]; decide +kernel
example : ¬ inSlice ⟨true, true, true⟩ ⟨1/4, 1/4, 1/4⟩ .ELG (1/4) := by
  rw [← inSliceB_iff]; decide +kernel

set_option linter.unnecessarySeqFocus false in
/-- **threshold_rule (slice form).**  With non-negative widths of the enabled tracers the markers are
ordered `0 ≤ m_L ≤ m_E ≤ m_Q` and `T`'s slice is the interval `(m_prev, m_T]`, `m_prev` the marker of
the nearest enabled tracer before `T`; the first enabled tracer has no lower bound (closed at 0). -/
theorem threshold_rule_slices (en : Enabled) (w : Widths) (T : Tracer) (r : Rat)
    (hw : ∀ S, en.get S = true → 0 ≤ w.get S) :
    (0 ≤ markerL en w ∧ markerL en w ≤ markerE en w ∧ markerE en w ≤ markerQ en w) ∧
    (keepCode en w r = T.code ↔
      en.get T = true ∧ r ≤ marker en w T ∧
        match prevEnabled en T with
        | none => True
        | some S => marker en w S < r) := by
  refine ⟨marker_chain hw, ?_⟩
  rw [keepCode_eq_code_iff]
  obtain ⟨hL, hE, hQ⟩ := marker_chain hw
  unfold inSlice
  rw [forall_tracer]
  obtain ⟨a, b, c⟩ := en
  cases T <;> cases a <;> cases b <;> cases c <;>
    simp [prevEnabled, Tri.get, Tracer.rank, marker, markerL, markerE, markerQ] at hL hE hQ ⊢ <;>
    (try (intros; linarith))

example : keepCode ⟨true, false, true⟩ ⟨1/4, 9, 1/4⟩ (3/8) = Tracer.QSO.code ∧
    prevEnabled ⟨true, false, true⟩ .QSO = some .LRG := by decide +kernel

/-- **threshold_rule (catalogue).**  The `T`-centrals are exactly the hosts whose random number is in
`T`'s slice, in host order, each turned into a galaxy by `mkCent`; likewise the `T`-satellites over the
particle rows with the widths selected by the host's central code. -/
theorem threshold_rule_catalogue (cfg : Cfg) (aC aS : Tri Rat) (hosts : List Host)
    (pks : List (Part × Int)) (T : Tracer) :
    (genCent cfg aC hosts).gals T =
      (hosts.filter (fun h => inSliceB cfg.en h.w T h.r)).map (mkCent cfg (aC.get T)) ∧
    (genSats cfg aS pks).gals T =
      (pks.filter (fun pk => inSliceB cfg.en (satWidths pk.1 pk.2) T pk.1.r)).map
        (fun pk => mkSat cfg (aS.get T) pk.1) := by
  rw [genCent_gals, genSats_gals]
  constructor
  · congr 1
    apply List.filter_congr
    intro h _
    rw [Bool.eq_iff_iff, inSliceB_iff, ← keepCode_eq_code_iff]; simp
  · congr 1
    apply List.filter_congr
    intro pk _
    rw [Bool.eq_iff_iff, inSliceB_iff, ← keepCode_eq_code_iff]; simp

-- two hosts, LRG+ELG enabled, widths (1/4, 1/4): r = 1/4 is an LRG (edge included), r = 3/8 an ELG
example : ((genCent ⟨⟨true, true, false⟩, false, none, 1/2, 100⟩ ⟨0, 0, 0⟩
      [⟨7, 10, ⟨1, 2, 3⟩, ⟨10, 20, 30⟩, ⟨4, 8, 12⟩, 1/4, ⟨1/4, 1/4, 0⟩, 0⟩,
       ⟨9, 11, ⟨1, 2, 3⟩, ⟨10, 20, 30⟩, ⟨4, 8, 12⟩, 3/8, ⟨1/4, 1/4, 0⟩, 0⟩]).gals .ELG).map (·.id) = [9] ∧
    inSliceB ⟨true, true, false⟩ ⟨1/4, 1/4, 0⟩ .ELG (3/8) = true ∧
    inSliceB ⟨true, true, false⟩ ⟨1/4, 1/4, 0⟩ .ELG (1/4) = false := by
  refine ⟨?_, ?_, ?_⟩ <;> decide +kernel

/-! ## at most one galaxy per host -/

/-- **at_most_one.**  The slices of different tracers are disjoint (a host cannot yield galaxies of
two tracers), and in a catalogue the LRG, ELG and QSO centrals (satellites) together with the rejected
hosts (particles) account for every row exactly once. -/
theorem at_most_one (en : Enabled) (w : Widths) (r : Rat) :
    (∀ T₁ T₂ : Tracer, inSlice en w T₁ r → inSlice en w T₂ r → T₁ = T₂) ∧
    (∀ (cfg : Cfg) (aC : Tri Rat) (hosts : List Host),
      ((genCent cfg aC hosts).gals .LRG).length + ((genCent cfg aC hosts).gals .ELG).length +
        ((genCent cfg aC hosts).gals .QSO).length + ((genCent cfg aC hosts).keep.count 0) = hosts.length) ∧
    (∀ (cfg : Cfg) (aS : Tri Rat) (pks : List (Part × Int)),
      ((genSats cfg aS pks).gals .LRG).length + ((genSats cfg aS pks).gals .ELG).length +
        ((genSats cfg aS pks).gals .QSO).length + ((genSats cfg aS pks).keep.count 0) = pks.length) := by
  refine ⟨?_, ?_, ?_⟩
  · intro T₁ T₂ h₁ h₂
    have e₁ := (keepCode_eq_code_iff en w T₁ r).2 h₁
    have e₂ := (keepCode_eq_code_iff en w T₂ r).2 h₂
    exact Tracer.code_injective (e₁.symm.trans e₂)
  · intro cfg aC hosts
    simp only [genCent_gals, List.length_map]
    simp only [genCent, Tracer.code]
    have := partition_count hosts (fun h => keepCode cfg.en h.w h.r) (fun x _ => keepCode_cases _ _ _)
    exact this
  · intro cfg aS pks
    simp only [genSats_gals, List.length_map]
    simp only [genSats, Tracer.code]
    have := partition_count pks (fun pk => keepCode cfg.en (satWidths pk.1 pk.2) pk.1.r)
      (fun x _ => keepCode_cases _ _ _)
    exact this

example : inSlice ⟨true, true, false⟩ ⟨1/2, 1/2, 0⟩ .LRG (1/2) ∧
    ¬ inSlice ⟨true, true, false⟩ ⟨1/2, 1/2, 0⟩ .ELG (1/2) := by
  rw [← inSliceB_iff, ← inSliceB_iff]; decide +kernel

/-! ## nesting in the incompleteness -/

/-- **nested_in_ic.**  If every enabled width grows (`w ≤ w'`), a selected host stays selected, and it
can only move to an earlier (or the same) tracer of the chain.  No sign assumption. -/
theorem nested_in_ic (en : Enabled) (w w' : Widths) (r : Rat)
    (hle : ∀ S, en.get S = true → w.get S ≤ w'.get S) (hsel : keepCode en w r ≠ 0) :
    keepCode en w' r ≠ 0 ∧ keepCode en w' r ≤ keepCode en w r := by
  have hL := markerL_mono hle
  have hE := markerE_mono hle
  have hQ := markerQ_mono hle
  unfold keepCode at *
  by_cases a : en.lrg = true <;> by_cases b : en.elg = true <;> by_cases c : en.qso = true <;>
    simp only [a, b, c, Bool.true_and, Bool.false_and, decide_eq_true_eq, if_false, Bool.false_eq_true] at * <;>
    (try split_ifs at hsel ⊢) <;> (first | omega | (exfalso; linarith))

-- growing the LRG width from 1/4 to 1/2 moves the host with r = 3/8 from ELG (code 2) to LRG (code 1)
example : keepCode ⟨true, true, false⟩ ⟨1/4, 1/4, 0⟩ (3/8) = 2 ∧ keepCode ⟨true, true, false⟩ ⟨1/2, 1/4, 0⟩ (3/8) = 1 := by
  decide +kernel

/-- **nested_in_ic (scaling form).**  Widths are `ic_T · b_T` with base occupations `b_T ≥ 0`; raising
the incompleteness factors (`ic ≤ ic'`, tracer by tracer) never removes a selected host. -/
theorem nested_in_ic_scale (en : Enabled) (b ic ic' : Tri Rat) (r : Rat)
    (hb : ∀ S, en.get S = true → 0 ≤ b.get S) (hic : ∀ S, en.get S = true → ic.get S ≤ ic'.get S)
    (hsel : keepCode en ⟨ic.lrg * b.lrg, ic.elg * b.elg, ic.qso * b.qso⟩ r ≠ 0) :
    keepCode en ⟨ic'.lrg * b.lrg, ic'.elg * b.elg, ic'.qso * b.qso⟩ r ≠ 0 := by
  refine (nested_in_ic en _ _ r ?_ hsel).1
  intro S hS
  have h1 := hb S hS
  have h2 := hic S hS
  cases S <;> simp only [Tri.get] at * <;> exact mul_le_mul_of_nonneg_right h2 h1

example : keepCode ⟨true, true, false⟩ ⟨(1/2) * (1/2), (1/2) * (1/2), 0⟩ (3/8) = 2 ∧
    keepCode ⟨true, true, false⟩ ⟨1 * (1/2), 1 * (1/2), 0⟩ (3/8) = 1 := by decide +kernel

/-! ## later tracers are irrelevant, disabled tracers capture nothing -/

/-- **later_tracer_irrelevant.**  Whether a host yields a `T`-galaxy depends only on the enabled flags
and widths of the tracers up to `T`: enabling, disabling or re-parametrising a later tracer changes
nothing. -/
theorem later_tracer_irrelevant (T : Tracer) (en en' : Enabled) (w w' : Widths) (r : Rat)
    (h : agreeUpTo T en en' w w') :
    keepCode en w r = T.code ↔ keepCode en' w' r = T.code := by
  obtain ⟨a, b, c⟩ := en
  obtain ⟨a', b', c'⟩ := en'
  have hL := h .LRG
  have hE := h .ELG
  have hQ := h .QSO
  cases T <;> simp only [Tracer.rank, Tri.get, Nat.le_refl, Nat.zero_le, forall_const, Nat.reduceLeDiff,
      false_imp_iff, Nat.one_le_ofNat] at hL hE hQ
  · obtain ⟨rfl, hw⟩ := hL
    unfold keepCode markerL
    cases a <;> simp [Tracer.code, hw] <;> split_ifs <;> simp
  · obtain ⟨rfl, hw⟩ := hL
    obtain ⟨rfl, hw2⟩ := hE
    unfold keepCode markerE markerL
    cases a <;> cases b <;> simp [Tracer.code, hw, hw2] <;> split_ifs <;> simp
  · obtain ⟨rfl, hw⟩ := hL
    obtain ⟨rfl, hw2⟩ := hE
    obtain ⟨rfl, hw3⟩ := hQ
    have : w = w' := by
      obtain ⟨x, y, z⟩ := w
      obtain ⟨x', y', z'⟩ := w'
      simp only at hw hw2 hw3
      rw [hw, hw2, hw3]
    subst this
    rfl

example : agreeUpTo .ELG ⟨true, true, false⟩ ⟨true, true, true⟩ ⟨1/4, 1/4, 0⟩ ⟨1/4, 1/4, 5⟩ ∧
    keepCode ⟨true, true, false⟩ ⟨1/4, 1/4, 0⟩ (3/8) = Tracer.ELG.code ∧
    keepCode ⟨true, true, true⟩ ⟨1/4, 1/4, 5⟩ (3/8) = Tracer.ELG.code := by
  refine ⟨?_, by decide +kernel, by decide +kernel⟩
  intro S hS; cases S <;> simp_all [Tracer.rank, Tri.get]

/-- catalogue form: the `T`-centrals of two runs that differ only in tracers after `T` (flags and
per-host widths) are the same list of galaxies. -/
theorem later_tracer_irrelevant_catalogue (T : Tracer) (cfg : Cfg) (en' : Enabled) (aC : Tri Rat)
    (hosts : List Host) (f : Host → Widths)
    (h : ∀ x ∈ hosts, agreeUpTo T cfg.en en' x.w (f x)) :
    (genCent { cfg with en := en' } aC (hosts.map (fun x => { x with w := f x }))).gals T =
      (genCent cfg aC hosts).gals T := by
  rw [genCent_gals, genCent_gals, List.filter_map, List.map_map]
  have hf : hosts.filter ((fun x : Host => decide (keepCode en' x.w x.r = T.code)) ∘ fun x => { x with w := f x }) =
      hosts.filter (fun x => decide (keepCode cfg.en x.w x.r = T.code)) := by
    apply List.filter_congr
    intro x hx
    simp only [Function.comp]
    rw [Bool.eq_iff_iff]
    simp only [decide_eq_true_eq]
    exact (later_tracer_irrelevant T cfg.en en' x.w (f x) x.r (h x hx)).symm
  rw [hf]
  apply List.map_congr_left
  intro x _
  rfl

-- enabling QSO with a width of 5 on every host leaves the ELG centrals of a two-host table unchanged
example : ((genCent ⟨⟨true, true, true⟩, false, none, 1/2, 100⟩ ⟨0, 0, 0⟩
      [⟨7, 10, ⟨1, 2, 3⟩, ⟨10, 20, 30⟩, ⟨4, 8, 12⟩, 1/4, ⟨1/4, 1/4, 5⟩, 0⟩,
       ⟨9, 11, ⟨1, 2, 3⟩, ⟨10, 20, 30⟩, ⟨4, 8, 12⟩, 3/8, ⟨1/4, 1/4, 5⟩, 0⟩]).gals .ELG).map (·.id) = [9] := by
  decide +kernel

/-- **disabled_tracer_captures_nothing.**  A tracer that is not enabled never gets a host, whatever
the random number (including 0) and whatever width is associated with it; its catalogue is empty and
it is absent from the output of `gen_gals`. -/
theorem disabled_tracer_captures_nothing (cfg : Cfg) (T : Tracer) (hT : cfg.en.get T = false) :
    (∀ (w : Widths) (r : Rat), keepCode cfg.en w r ≠ T.code) ∧
    (∀ (aC : Tri Rat) (hosts : List Host), (genCent cfg aC hosts).gals T = []) ∧
    (∀ (aS : Tri Rat) (pks : List (Part × Int)), (genSats cfg aS pks).gals T = []) ∧
    (∀ (aC aS : Tri Rat) (hosts : List Host) (parts : List Part) (o : CatOut),
      genGalCat cfg aC aS hosts parts = .ok o → o.cat T = none) := by
  have key : ∀ (w : Widths) (r : Rat), keepCode cfg.en w r ≠ T.code := by
    intro w r hk
    have := ((keepCode_eq_code_iff cfg.en w T r).1 hk).1
    rw [hT] at this
    cases this
  refine ⟨key, ?_, ?_, ?_⟩
  · intro aC hosts
    rw [genCent_gals]
    simp [key]
  · intro aS pks
    rw [genSats_gals]
    simp [key]
  · intro aC aS hosts parts o ho
    unfold genGalCat at ho
    simp only [bind, Except.bind, pure, Except.pure] at ho
    split at ho
    · cases ho
    · cases ho
      simp [hT]

-- the input of the repaired defect: only ELG enabled, r = 0, LRG width irrelevant
example : keepCode ⟨false, true, false⟩ ⟨0, 1/2, 0⟩ 0 ≠ Tracer.LRG.code ∧
    keepCode ⟨false, true, false⟩ ⟨0, 1/2, 0⟩ 0 = Tracer.ELG.code := by decide +kernel

/-! ## galaxy content -/

/-- **inherits_host.**  A central carries its host's id and mass, the velocity `v_h + α_c · vdev`, and
(without RSD) the host's position; a satellite carries the host id and mass stored on its particle
row, the velocity `v_h + α_s · (v_p − v_h)` and (without RSD) the particle's position. -/
theorem inherits_host (cfg : Cfg) (a : Rat) (h : Host) (p : Part) :
    ((mkCent cfg a h).id = h.id ∧ (mkCent cfg a h).mass = h.mass ∧
      (mkCent cfg a h).vel = ⟨h.vel.x + a * h.vdev.x, h.vel.y + a * h.vdev.y, h.vel.z + a * h.vdev.z⟩ ∧
      (cfg.rsd = false → (mkCent cfg a h).pos = h.pos)) ∧
    ((mkSat cfg a p).id = p.hid ∧ (mkSat cfg a p).mass = p.hmass ∧
      (mkSat cfg a p).vel = ⟨p.hvel.x + a * (p.pvel.x - p.hvel.x), p.hvel.y + a * (p.pvel.y - p.hvel.y),
                             p.hvel.z + a * (p.pvel.z - p.hvel.z)⟩ ∧
      (cfg.rsd = false → (mkSat cfg a p).pos = p.ppos)) := by
  refine ⟨⟨rfl, rfl, rfl, ?_⟩, ⟨rfl, rfl, rfl, ?_⟩⟩
  · intro hr; simp [mkCent, applyRsd, hr]
  · intro hr; simp [mkSat, applyRsd, hr]

/-- catalogue form: every `T`-central (satellite) of the catalogue is `mkCent` (`mkSat`) of a host row
(particle row) of the input whose random number is in `T`'s slice, with `T`'s own velocity-bias
parameter. -/
theorem inherits_host_catalogue (cfg : Cfg) (aC aS : Tri Rat) (hosts : List Host)
    (pks : List (Part × Int)) (T : Tracer) :
    (∀ g ∈ (genCent cfg aC hosts).gals T, ∃ h ∈ hosts, inSlice cfg.en h.w T h.r ∧
        g = mkCent cfg (aC.get T) h) ∧
    (∀ g ∈ (genSats cfg aS pks).gals T, ∃ pk ∈ pks, inSlice cfg.en (satWidths pk.1 pk.2) T pk.1.r ∧
        g = mkSat cfg (aS.get T) pk.1) := by
  rw [genCent_gals, genSats_gals]
  constructor
  · intro g hg
    simp only [List.mem_map, List.mem_filter, decide_eq_true_eq] at hg
    obtain ⟨h, ⟨hm, hk⟩, rfl⟩ := hg
    exact ⟨h, hm, (keepCode_eq_code_iff _ _ _ _).1 hk, rfl⟩
  · intro g hg
    simp only [List.mem_map, List.mem_filter, decide_eq_true_eq] at hg
    obtain ⟨pk, ⟨hm, hk⟩, rfl⟩ := hg
    exact ⟨pk, hm, (keepCode_eq_code_iff _ _ _ _).1 hk, rfl⟩

example : ((genSats ⟨⟨false, true, false⟩, false, none, 1/2, 100⟩ ⟨0, 1/2, 0⟩
      [(⟨7, 10, ⟨5, 6, 7⟩, ⟨14, 1, 1⟩, ⟨10, 20, 30⟩, 1/4, 0, 1/8, 1/2, 1/8, 0, 0, 0⟩, 1)]).gals .ELG).map
        (fun g => (g.id, g.vel.x)) = [(7, 12)] := by
  decide +kernel

example : (mkCent ⟨⟨true, false, false⟩, false, none, 1/2, 100⟩ (1/4)
    ⟨7, 10, ⟨1, 2, 3⟩, ⟨10, 20, 30⟩, ⟨4, 8, 12⟩, 0, ⟨1, 0, 0⟩, 0⟩).vel.z = 33 := by decide +kernel

/-! ## redshift-space distortions -/

/-- **rsd_only_los (box).**  With RSD and no light-cone origin only `z` changes: `x`, `y` are copied,
`z' = z + v_z·inv_velz2kms + k·L` with `k ∈ {−1, 0, 1}`, and under the single-wrap precondition
(`−L/2 ≤ z < L/2` and `|v_z·inv| ≤ L`, or `|z| ≤ L/2` and `|v_z·inv| < L`) `z' ∈ [−L/2, L/2)`. -/
theorem rsd_only_los_box (cfg : Cfg) (invn : Rat) (pos vel : V3)
    (hr : cfg.rsd = true) (ho : cfg.origin = none) :
    (applyRsd cfg invn pos vel).x = pos.x ∧ (applyRsd cfg invn pos vel).y = pos.y ∧
    (∃ k : Int, (k = -1 ∨ k = 0 ∨ k = 1) ∧
        (applyRsd cfg invn pos vel).z = pos.z + vel.z * cfg.inv + k * cfg.lbox) ∧
    ((-(cfg.lbox / 2) ≤ pos.z ∧ pos.z < cfg.lbox / 2 ∧ |vel.z * cfg.inv| ≤ cfg.lbox) ∨
      (|pos.z| ≤ cfg.lbox / 2 ∧ |vel.z * cfg.inv| < cfg.lbox) →
      -(cfg.lbox / 2) ≤ (applyRsd cfg invn pos vel).z ∧ (applyRsd cfg invn pos vel).z < cfg.lbox / 2) := by
  have e : applyRsd cfg invn pos vel = ⟨pos.x, pos.y, wrap (pos.z + vel.z * cfg.inv) cfg.lbox⟩ := by
    simp [applyRsd, hr, ho]
  rw [e]
  refine ⟨rfl, rfl, ?_, ?_⟩
  · rcases wrap_cases (pos.z + vel.z * cfg.inv) cfg.lbox with h | h | h
    · exact ⟨0, by simp, by simp [h]⟩
    · exact ⟨-1, by simp, by simp only [h]; push_cast; ring⟩
    · exact ⟨1, by simp, by simp only [h]; push_cast; ring⟩
  · intro hpre
    apply wrap_range
    · rcases hpre with ⟨h1, _, h3⟩ | ⟨h1, h3⟩
      · have := (abs_le.mp h3).1; linarith
      · have := (abs_le.mp h1).1; have := (abs_lt.mp h3).1; linarith
    · rcases hpre with ⟨_, h2, h3⟩ | ⟨h1, h3⟩
      · have := (abs_le.mp h3).2; linarith
      · have := (abs_le.mp h1).2; have := (abs_lt.mp h3).2; linarith

-- z + v_z·inv exactly on the upper edge wraps to the lower edge
example : (applyRsd ⟨⟨true, true, true⟩, true, none, 1/2, 100⟩ 0 ⟨1, 2, 45⟩ ⟨0, 0, 10⟩).z = -50 := by
  decide +kernel
-- sharpness of the precondition: z = L/2 together with v_z·inv = L is not brought back into [−L/2, L/2)
example : (applyRsd ⟨⟨true, true, true⟩, true, none, 1, 100⟩ 0 ⟨1, 2, 50⟩ ⟨0, 0, 100⟩).z = 50 := by
  decide +kernel

/-- **rsd_only_los (light cone).**  With RSD and an origin `o`, writing `n = pos − o` and `n̂ = invn·n`
with `invn` an inverse norm of `n` (`invn²·|n|² = 1`): `n̂` is a unit vector, the galaxy is displaced by
`s·n̂` with `s = (v·n̂)·inv_velz2kms` — parallel to the line of sight (zero cross product with `n`),
signed length `s`. -/
theorem rsd_only_los_lightcone (cfg : Cfg) (invn : Rat) (pos vel o : V3)
    (hr : cfg.rsd = true) (ho : cfg.origin = some o)
    (hinv : invn * invn * ((pos.sub o).dot (pos.sub o)) = 1) :
    let nh := V3.smul invn (pos.sub o)
    let s := vel.dot nh * cfg.inv
    let d := (applyRsd cfg invn pos vel).sub pos
    nh.dot nh = 1 ∧ d = V3.smul s nh ∧ d.dot nh = s ∧
      d.y * (pos.z - o.z) - d.z * (pos.y - o.y) = 0 ∧
      d.z * (pos.x - o.x) - d.x * (pos.z - o.z) = 0 ∧
      d.x * (pos.y - o.y) - d.y * (pos.x - o.x) = 0 := by
  intro nh s d
  have e : applyRsd cfg invn pos vel =
      ⟨pos.x + cfg.inv * (vel.x * ((pos.x - o.x) * invn) + vel.y * ((pos.y - o.y) * invn) + vel.z * ((pos.z - o.z) * invn)) * ((pos.x - o.x) * invn),
       pos.y + cfg.inv * (vel.x * ((pos.x - o.x) * invn) + vel.y * ((pos.y - o.y) * invn) + vel.z * ((pos.z - o.z) * invn)) * ((pos.y - o.y) * invn),
       pos.z + cfg.inv * (vel.x * ((pos.x - o.x) * invn) + vel.y * ((pos.y - o.y) * invn) + vel.z * ((pos.z - o.z) * invn)) * ((pos.z - o.z) * invn)⟩ := by
    simp [applyRsd, hr, ho]
  have hunit : nh.dot nh = 1 := by
    simp only [nh, V3.dot, V3.smul, V3.sub] at hinv ⊢
    linarith [hinv]
  have hd : d = V3.smul s nh := by
    simp only [d, s, nh, e, V3.sub, V3.smul, V3.dot]
    congr 1 <;> ring
  refine ⟨hunit, hd, ?_, ?_, ?_, ?_⟩
  · rw [hd]
    have : (V3.smul s nh).dot nh = s * nh.dot nh := by simp only [V3.dot, V3.smul]; ring
    rw [this, hunit, mul_one]
  all_goals
    rw [hd]
    simp only [nh, V3.smul, V3.sub]
    ring

-- origin (0,0,0), galaxy at (3,4,0), |n| = 5, velocity (10,0,0): v_los = 6, displacement 6·inv along n̂
example : (applyRsd ⟨⟨true, true, true⟩, true, some ⟨0, 0, 0⟩, 1/2, 100⟩ (1/5) ⟨3, 4, 0⟩ ⟨10, 0, 0⟩).x = 3 + 3 * (3/5) ∧
    (applyRsd ⟨⟨true, true, true⟩, true, some ⟨0, 0, 0⟩, 1/2, 100⟩ (1/5) ⟨3, 4, 0⟩ ⟨10, 0, 0⟩).y = 4 + 3 * (4/5) ∧
    (1/5 : Rat) * (1/5) * ((V3.sub ⟨3, 4, 0⟩ ⟨0, 0, 0⟩).dot (V3.sub ⟨3, 4, 0⟩ ⟨0, 0, 0⟩)) = 1 := by
  refine ⟨?_, ?_, ?_⟩ <;> decide +kernel

/-- without RSD (whatever the origin) positions are copied unchanged -/
theorem rsd_off_identity (cfg : Cfg) (invn : Rat) (pos vel : V3) (hr : cfg.rsd = false) :
    applyRsd cfg invn pos vel = pos := by
  simp [applyRsd, hr]

example : (applyRsd ⟨⟨true, true, true⟩, false, some ⟨0, 0, 0⟩, 1/2, 100⟩ (1/5) ⟨3, 4, 0⟩ ⟨10, 0, 0⟩).x = 3 := by
  decide +kernel

/-! ## assembly -/

/-- **order_and_ncent.**  For every enabled tracer the catalogue is the centrals followed by the
satellites, `Ncent` is the number of centrals (= the number of hosts with `T`'s keep code), the first
`Ncent` rows are exactly the centrals and the rest exactly the satellites, and within each block the
galaxies come in the order of their host rows / particle rows (their ids form a sublist of the input
id column). -/
theorem order_and_ncent (cfg : Cfg) (aC aS : Tri Rat) (hosts : List Host) (parts : List Part)
    (o : CatOut) (T : Tracer) (hT : cfg.en.get T = true)
    (ho : genGalCat cfg aC aS hosts parts = .ok o) :
    ∃ (t : TracerOut) (kcs : List Int),
      o.cat T = some t ∧ gatherKeep (genCent cfg aC hosts).keep (parts.map (·.kc)) = .ok kcs ∧
      kcs.length = parts.length ∧
      t.gals = (genCent cfg aC hosts).gals T ++ (genSats cfg aS (parts.zip kcs)).gals T ∧
      t.ncent = ((genCent cfg aC hosts).gals T).length ∧
      t.ncent = (genCent cfg aC hosts).keep.count T.code ∧
      t.gals.take t.ncent = (genCent cfg aC hosts).gals T ∧
      t.gals.drop t.ncent = (genSats cfg aS (parts.zip kcs)).gals T ∧
      (((genCent cfg aC hosts).gals T).map (·.id)).Sublist (hosts.map (·.id)) ∧
      (((genSats cfg aS (parts.zip kcs)).gals T).map (·.id)).Sublist (parts.map (·.hid)) := by
  unfold genGalCat at ho
  simp only [bind, Except.bind, pure, Except.pure] at ho
  split at ho
  · cases ho
  · rename_i kcs hk
    cases ho
    have hlen : kcs.length = parts.length := by
      have := gatherKeep_length hk; simpa using this
    refine ⟨⟨((genCent cfg aC hosts).gals T).length,
        (genCent cfg aC hosts).gals T ++ (genSats cfg aS (parts.zip kcs)).gals T⟩, kcs,
      by simp [hT], hk, hlen, rfl, rfl, ?_, by simp, by simp, ?_, ?_⟩
    · show ((genCent cfg aC hosts).gals T).length = (genCent cfg aC hosts).keep.count T.code
      rw [genCent_gals, List.length_map]
      simp only [genCent]
      rw [List.count_eq_countP, List.countP_map, List.countP_eq_length_filter]
      congr 1
    · rw [genCent_gals, List.map_map]
      have : (hosts.filter (fun h => decide (keepCode cfg.en h.w h.r = T.code))).map
          ((fun g : Gal => g.id) ∘ mkCent cfg (aC.get T)) =
          (hosts.filter (fun h => decide (keepCode cfg.en h.w h.r = T.code))).map (·.id) := by
        apply List.map_congr_left; intro x _; rfl
      rw [this]
      exact List.Sublist.map _ List.filter_sublist
    · rw [genSats_gals, List.map_map]
      have e1 : ((parts.zip kcs).filter
          (fun pk => decide (keepCode cfg.en (satWidths pk.1 pk.2) pk.1.r = T.code))).map
          ((fun g : Gal => g.id) ∘ fun pk => mkSat cfg (aS.get T) pk.1) =
          (((parts.zip kcs).filter
            (fun pk => decide (keepCode cfg.en (satWidths pk.1 pk.2) pk.1.r = T.code))).map (·.1)).map (·.hid) := by
        rw [List.map_map]; apply List.map_congr_left; intro x _; rfl
      rw [e1]
      apply List.Sublist.map
      have e2 : parts = (parts.zip kcs).map (·.1) := by
        rw [List.map_fst_zip]; omega
      conv => rhs; rw [e2]
      exact List.Sublist.map _ List.filter_sublist

example : ∃ o, genGalCat ⟨⟨true, false, false⟩, false, none, 1/2, 100⟩ ⟨0, 0, 0⟩ ⟨1, 1, 1⟩
      [⟨7, 10, ⟨1, 2, 3⟩, ⟨10, 20, 30⟩, ⟨4, 8, 12⟩, 0, ⟨1, 0, 0⟩, 0⟩,
       ⟨9, 11, ⟨1, 2, 3⟩, ⟨10, 20, 30⟩, ⟨4, 8, 12⟩, 1, ⟨1/2, 0, 0⟩, 0⟩]
      [⟨7, 10, ⟨5, 6, 7⟩, ⟨1, 1, 1⟩, ⟨10, 20, 30⟩, 1/4, 1/2, 0, 0, 0, 0, 0, 0⟩] = .ok o ∧
    (o.cat .LRG).map (·.ncent) = some 1 ∧ (o.cat .LRG).map (fun t => t.gals.map (·.id)) = some [7, 7] := by
  refine ⟨_, rfl, ?_, ?_⟩ <;> decide +kernel

end AbacusVerif.Hod
