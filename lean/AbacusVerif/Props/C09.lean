/-
  C09 — galaxies follow the HOD threshold rule and inherit their host.

  Property theorems about the model of `gen_cent` / `gen_sats` / `gen_gals` in `Model/C09.lean`
  (`keepCode`, `mkCent`, `mkSat`, `applyRsd`, `wrap`, `genCent`, `genSats`, `genGalCat`), for every
  table of hosts / particles, every tracer subset, all widths, random numbers and RSD settings.
  Vocabulary (`inSlice`, `inSliceB`, `prevEnabled`, `cumWidth`, `agreeUpTo`) is in `Lemmas/C09.lean`.
-/
import AbacusVerif.Lemmas.C09

namespace AbacusVerif.Hod
open AbacusVerif

/-! ## the threshold rule -/

set_option linter.unnecessarySeqFocus false in
/-- The markers are the cumulative widths of the *enabled* tracers in the order LRG, ELG, QSO. -/
theorem marker_eq_cumsum (en : Enabled) (w : Widths) (T : Tracer) :
    marker en w T = cumWidth en w T := by
  obtain ⟨a, b, c⟩ := en
  cases T <;> cases a <;> cases b <;> cases c <;>
    simp [marker, markerL, markerE, markerQ, cumWidth, Tri.get, Tracer.rank] <;> ring

example : marker ⟨true, false, true⟩ ⟨1/4, 1/2, 1/8⟩ .QSO = 3/8 := by decide +kernel

/-- **threshold_rule.**  A host with random number `r` gets keep code `T.code` (yields a `T`-galaxy)
iff `r` is in `T`'s slice: `T` enabled, `r ≤ m_T`, and `r` above the marker of every enabled tracer
before `T`; it gets code 0 iff it is in no slice.  No assumption on the widths. -/
theorem threshold_rule (en : Enabled) (w : Widths) (r : Rat) :
    (∀ T : Tracer, keepCode en w r = T.code ↔ inSlice en w T r) ∧
    (keepCode en w r = 0 ↔ ∀ T : Tracer, ¬ inSlice en w T r) := by
  refine ⟨fun T => keepCode_eq_code_iff en w T r, ?_⟩
  constructor
  · intro h T hT
    have := (keepCode_eq_code_iff en w T r).2 hT
    have hp := T.code_pos
    omega
  · intro h
    rcases keepCode_cases en w r with h0 | h1 | h2 | h3
    · exact h0
    · exact absurd ((keepCode_eq_code_iff en w .LRG r).1 h1) (h _)
    · exact absurd ((keepCode_eq_code_iff en w .ELG r).1 h2) (h _)
    · exact absurd ((keepCode_eq_code_iff en w .QSO r).1 h3) (h _)

-- r = 0 with only ELG enabled and an ELG width of 0: the first enabled slice is closed at 0
example : keepCode ⟨false, true, false⟩ ⟨7/10, 0, 0⟩ 0 = Tracer.ELG.code := by decide +kernel
example : inSlice ⟨true, true, true⟩ ⟨1/4, 1/4, 1/4⟩ .ELG (1/2) := by
  rw [← inSliceB_iff]; decide +kernel
example : ¬ inSlice ⟨true, true, true⟩ ⟨1/4, 1/4, 1/4⟩ .ELG (1/4) := by
  rw [← inSliceB_iff]; decide +kernel

set_option linter.unnecessarySeqFocus false in
/-- **threshold_rule (slice form).**  With non-negative widths of the enabled tracers the markers are
ordered `0 ≤ m_L ≤ m_E ≤ m_Q` and `T`'s slice is the interval `(m_prev, m_T]`, `m_prev` the marker of
the nearest enabled tracer before `T`; the first enabled tracer has no lower bound (closed at 0). -/
theorem threshold_rule_slices (en : Enabled) (w : Widths) (T : Tracer) (r : Rat)
    (hw : ∀ S, en.get S = true → 0 ≤ w.get S) :
    (0 ≤ markerL en w ∧ markerL en w ≤ markerE en w ∧ markerE en w ≤ markerQ en w) ∧
    (keepCode en w r = T.code ↔
      en.get T = true ∧ r ≤ marker en w T ∧
        match prevEnabled en T with
        | none => True
        | some S => marker en w S < r) := by
  refine ⟨marker_chain hw, ?_⟩
  rw [keepCode_eq_code_iff]
  obtain ⟨hL, hE, hQ⟩ := marker_chain hw
  unfold inSlice
  rw [forall_tracer]
  obtain ⟨a, b, c⟩ := en
  cases T <;> cases a <;> cases b <;> cases c <;>
    simp [prevEnabled, Tri.get, Tracer.rank, marker, markerL, markerE, markerQ] at hL hE hQ ⊢ <;>
    (try (intros; linarith))

example : keepCode ⟨true, false, true⟩ ⟨1/4, 9, 1/4⟩ (3/8) = Tracer.QSO.code ∧
    prevEnabled ⟨true, false, true⟩ .QSO = some .LRG := by decide +kernel

/-- **threshold_rule (catalogue).**  The `T`-centrals are exactly the hosts whose random number is in
`T`'s slice, in host order, each turned into a galaxy by `mkCent`; likewise the `T`-satellites over the
particle rows with the widths selected by the host's central code. -/
theorem threshold_rule_catalogue (cfg : Cfg) (aC aS : Tri Rat) (hosts : List Host)
    (pks : List (Part × Int)) (T : Tracer) :
    (genCent cfg aC hosts).gals T =
      (hosts.filter (fun h => inSliceB cfg.en h.w T h.r)).map (mkCent cfg (aC.get T)) ∧
    (genSats cfg aS pks).gals T =
      (pks.filter (fun pk => inSliceB cfg.en (satWidths pk.1 pk.2) T pk.1.r)).map
        (fun pk => mkSat cfg (aS.get T) pk.1) := by
  rw [genCent_gals, genSats_gals]
  constructor
  · congr 1
    apply List.filter_congr
    intro h _
    rw [Bool.eq_iff_iff, inSliceB_iff, ← keepCode_eq_code_iff]; simp
  · congr 1
    apply List.filter_congr
    intro pk _
    rw [Bool.eq_iff_iff, inSliceB_iff, ← keepCode_eq_code_iff]; simp

-- two hosts, LRG+ELG enabled, widths (1/4, 1/4): r = 1/4 is an LRG (edge included), r = 3/8 an ELG
example : ((genCent ⟨⟨true, true, false⟩, false, none, 1/2, 100⟩ ⟨0, 0, 0⟩
      [⟨7, 10, ⟨1, 2, 3⟩, ⟨10, 20, 30⟩, ⟨4, 8, 12⟩, 1/4, ⟨1/4, 1/4, 0⟩, 0⟩,
       ⟨9, 11, ⟨1, 2, 3⟩, ⟨10, 20, 30⟩, ⟨4, 8, 12⟩, 3/8, ⟨1/4, 1/4, 0⟩, 0⟩]).gals .ELG).map (·.id) = [9] ∧
    inSliceB ⟨true, true, false⟩ ⟨1/4, 1/4, 0⟩ .ELG (3/8) = true ∧
    inSliceB ⟨true, true, false⟩ ⟨1/4, 1/4, 0⟩ .ELG (1/4) = false := by
  refine ⟨?_, ?_, ?_⟩ <;> decide +kernel

/-! ## at most one galaxy per host -/

/-- **at_most_one.**  The slices of different tracers are disjoint (a host cannot yield galaxies of
two tracers), and in a catalogue the LRG, ELG and QSO centrals (satellites) together with the rejected
hosts (particles) account for every row exactly once. -/
theorem at_most_one (en : Enabled) (w : Widths) (r : Rat) :
    (∀ T₁ T₂ : Tracer, inSlice en w T₁ r → inSlice en w T₂ r → T₁ = T₂) ∧
    (∀ (cfg : Cfg) (aC : Tri Rat) (hosts : List Host),
      ((genCent cfg aC hosts).gals .LRG).length + ((genCent cfg aC hosts).gals .ELG).length +
        ((genCent cfg aC hosts).gals .QSO).length + ((genCent cfg aC hosts).keep.count 0) = hosts.length) ∧
    (∀ (cfg : Cfg) (aS : Tri Rat) (pks : List (Part × Int)),
      ((genSats cfg aS pks).gals .LRG).length + ((genSats cfg aS pks).gals .ELG).length +
        ((genSats cfg aS pks).gals .QSO).length + ((genSats cfg aS pks).keep.count 0) = pks.length) := by
  refine ⟨?_, ?_, ?_⟩
  · intro T₁ T₂ h₁ h₂
    have e₁ := (keepCode_eq_code_iff en w T₁ r).2 h₁
    have e₂ := (keepCode_eq_code_iff en w T₂ r).2 h₂
    exact Tracer.code_injective (e₁.symm.trans e₂)
  · intro cfg aC hosts
    simp only [genCent_gals, List.length_map]
    simp only [genCent, Tracer.code]
    have := partition_count hosts (fun h => keepCode cfg.en h.w h.r) (fun x _ => keepCode_cases _ _ _)
    exact this
  · intro cfg aS pks
    simp only [genSats_gals, List.length_map]
    simp only [genSats, Tracer.code]
    have := partition_count pks (fun pk => keepCode cfg.en (satWidths pk.1 pk.2) pk.1.r)
      (fun x _ => keepCode_cases _ _ _)
    exact this

example : inSlice ⟨true, true, false⟩ ⟨1/2, 1/2, 0⟩ .LRG (1/2) ∧
    ¬ inSlice ⟨true, true, false⟩ ⟨1/2, 1/2, 0⟩ .ELG (1/2) := by
  rw [← inSliceB_iff, ← inSliceB_iff]; decide +kernel

/-! ## nesting in the incompleteness -/

/-- **nested_in_ic.**  If every enabled width grows (`w ≤ w'`), a selected host stays selected, and it
can only move to an earlier (or the same) tracer of the chain.  No sign assumption. -/
theorem nested_in_ic (en : Enabled) (w w' : Widths) (r : Rat)
    (hle : ∀ S, en.get S = true → w.get S ≤ w'.get S) (hsel : keepCode en w r ≠ 0) :
    keepCode en w' r ≠ 0 ∧ keepCode en w' r ≤ keepCode en w r := by
  have hL := markerL_mono hle
  have hE := markerE_mono hle
  have hQ := markerQ_mono hle
  unfold keepCode at *
  by_cases a : en.lrg = true <;> by_cases b : en.elg = true <;> by_cases c : en.qso = true <;>
    simp only [a, b, c, Bool.true_and, Bool.false_and, decide_eq_true_eq, if_false, Bool.false_eq_true] at * <;>
    (try split_ifs at hsel ⊢) <;> (first | omega | (exfalso; linarith))

-- growing the LRG width from 1/4 to 1/2 moves the host with r = 3/8 from ELG (code 2) to LRG (code 1)
example : keepCode ⟨true, true, false⟩ ⟨1/4, 1/4, 0⟩ (3/8) = 2 ∧ keepCode ⟨true, true, false⟩ ⟨1/2, 1/4, 0⟩ (3/8) = 1 := by
  decide +kernel

/-- **nested_in_ic (scaling form).**  Widths are `ic_T · b_T` with base occupations `b_T ≥ 0`; raising
the incompleteness factors (`ic ≤ ic'`, tracer by tracer) never removes a selected host. -/
theorem nested_in_ic_scale (en : Enabled) (b ic ic' : Tri Rat) (r : Rat)
    (hb : ∀ S, en.get S = true → 0 ≤ b.get S) (hic : ∀ S, en.get S = true → ic.get S ≤ ic'.get S)
    (hsel : keepCode en ⟨ic.lrg * b.lrg, ic.elg * b.elg, ic.qso * b.qso⟩ r ≠ 0) :
    keepCode en ⟨ic'.lrg * b.lrg, ic'.elg * b.elg, ic'.qso * b.qso⟩ r ≠ 0 := by
  refine (nested_in_ic en _ _ r ?_ hsel).1
  intro S hS
  have h1 := hb S hS
  have h2 := hic S hS
  cases S <;> simp only [Tri.get] at * <;> exact mul_le_mul_of_nonneg_right h2 h1

example : keepCode ⟨true, true, false⟩ ⟨(1/2) * (1/2), (1/2) * (1/2), 0⟩ (3/8) = 2 ∧
    keepCode ⟨true, true, false⟩ ⟨1 * (1/2), 1 * (1/2), 0⟩ (3/8) = 1 := by decide +kernel

/-- **nested_in_ic (catalogue).**  Raise the widths of the enabled tracers on every host (`h.w ≤ f h`, e.g. a
larger `ic`).  Then (i) the hosts that carry a central stay selected — the selected rows of the first run are
a sublist of the selected rows of the second, in the same order; (ii) fewer hosts are rejected and the three
central catalogues together do not shrink; (iii) the LRG centrals (first slice of the chain) of the first run
are, id by id and in order, among those of the second. -/
theorem nested_in_ic_catalogue (cfg : Cfg) (aC : Tri Rat) (hosts : List Host) (f : Host → Widths)
    (hle : ∀ x ∈ hosts, ∀ S, cfg.en.get S = true → x.w.get S ≤ (f x).get S) :
    (hosts.filter (fun h => decide (keepCode cfg.en h.w h.r ≠ 0))).Sublist
      (hosts.filter (fun h => decide (keepCode cfg.en (f h) h.r ≠ 0))) ∧
    (genCent cfg aC (hosts.map fun x => { x with w := f x })).keep.count 0 ≤ (genCent cfg aC hosts).keep.count 0 ∧
    ((genCent cfg aC hosts).gals .LRG).length + ((genCent cfg aC hosts).gals .ELG).length +
        ((genCent cfg aC hosts).gals .QSO).length ≤
      ((genCent cfg aC (hosts.map fun x => { x with w := f x })).gals .LRG).length +
        ((genCent cfg aC (hosts.map fun x => { x with w := f x })).gals .ELG).length +
        ((genCent cfg aC (hosts.map fun x => { x with w := f x })).gals .QSO).length ∧
    (((genCent cfg aC hosts).gals .LRG).map (·.id)).Sublist
      (((genCent cfg aC (hosts.map fun x => { x with w := f x })).gals .LRG).map (·.id)) := by
  have hnest : ∀ x ∈ hosts, keepCode cfg.en x.w x.r ≠ 0 →
      keepCode cfg.en (f x) x.r ≠ 0 ∧ keepCode cfg.en (f x) x.r ≤ keepCode cfg.en x.w x.r :=
    fun x hx hs => nested_in_ic cfg.en x.w (f x) x.r (hle x hx) hs
  have hcount : (genCent cfg aC (hosts.map fun x => { x with w := f x })).keep.count 0 ≤
      (genCent cfg aC hosts).keep.count 0 := by
    have e1 : (genCent cfg aC hosts).keep = hosts.map (fun h => keepCode cfg.en h.w h.r) := rfl
    have e2 : (genCent cfg aC (hosts.map fun x => { x with w := f x })).keep =
        hosts.map (fun h => keepCode cfg.en (f h) h.r) := by
      simp [genCent, List.map_map, Function.comp]
    rw [e1, e2, List.count_eq_countP, List.countP_map, List.countP_eq_length_filter,
      List.count_eq_countP, List.countP_map, List.countP_eq_length_filter]
    apply List.Sublist.length_le
    apply filter_sublist_filter_of_imp
    intro x hx h0
    simp only [Function.comp, beq_iff_eq] at h0 ⊢
    by_contra hne
    exact (hnest x hx hne).1 h0
  refine ⟨?_, hcount, ?_, ?_⟩
  · apply filter_sublist_filter_of_imp
    intro x hx hs
    simp only [decide_eq_true_eq] at hs ⊢
    exact (hnest x hx hs).1
  · have h1 := (at_most_one cfg.en ⟨0, 0, 0⟩ 0).2.1 cfg aC hosts
    have h2 := (at_most_one cfg.en ⟨0, 0, 0⟩ 0).2.1 cfg aC (hosts.map fun x => { x with w := f x })
    rw [List.length_map] at h2
    omega
  · rw [genCent_gals, genCent_gals, List.filter_map, List.map_map, List.map_map, List.map_map]
    have e1 : (hosts.filter (fun h => decide (keepCode cfg.en h.w h.r = Tracer.LRG.code))).map
        ((fun g : Gal => g.id) ∘ mkCent cfg (aC.get .LRG)) =
        (hosts.filter (fun h => decide (keepCode cfg.en h.w h.r = Tracer.LRG.code))).map (·.id) :=
      List.map_congr_left (fun _ _ => rfl)
    have e2 : (hosts.filter ((fun h : Host => decide (keepCode cfg.en h.w h.r = Tracer.LRG.code)) ∘
          fun x => { x with w := f x })).map
        (((fun g : Gal => g.id) ∘ mkCent cfg (aC.get .LRG)) ∘ fun x => { x with w := f x }) =
        (hosts.filter (fun h => decide (keepCode cfg.en (f h) h.r = Tracer.LRG.code))).map (·.id) :=
      List.map_congr_left (fun _ _ => rfl)
    rw [e1, e2]
    apply List.Sublist.map
    apply filter_sublist_filter_of_imp
    intro x hx hs
    have hs1 : keepCode cfg.en x.w x.r = 1 := of_decide_eq_true hs
    have := hnest x hx (by omega)
    have h1 : keepCode cfg.en (f x) x.r = 1 := by omega
    exact decide_eq_true h1

-- ic_LRG doubled (LRG width 1/4 -> 1/2): the host with r = 3/8 moves from ELG to LRG, nobody is lost
example : ((genCent ⟨⟨true, true, false⟩, false, none, 1/2, 100⟩ ⟨0, 0, 0⟩
      [⟨7, 10, ⟨1, 2, 3⟩, ⟨10, 20, 30⟩, ⟨4, 8, 12⟩, 3/8, ⟨1/4, 1/4, 0⟩, 0⟩]).keep = [2]) ∧
    ((genCent ⟨⟨true, true, false⟩, false, none, 1/2, 100⟩ ⟨0, 0, 0⟩
      [⟨7, 10, ⟨1, 2, 3⟩, ⟨10, 20, 30⟩, ⟨4, 8, 12⟩, 3/8, ⟨1/2, 1/4, 0⟩, 0⟩]).keep = [1]) := by
  constructor <;> decide +kernel

/-- The nesting does NOT extend to satellites end to end when ELG conformity is in use: raising the LRG
width turns the host's central from ELG (code 2, satellite ELG width `wE2`) into LRG (code 1, width `wE1`),
and a satellite selected with `wE2 = 1/2` is lost with `wE1 = 1/8`.  (For a fixed `keep_cent` the satellite
pass is nested by `nested_in_ic` row by row.) -/
theorem nested_in_ic_not_through_conformity :
    ∃ (cfg : Cfg) (aC aS : Tri Rat) (h h' : Host) (p : Part) (o o' : CatOut),
      (∀ S, h.w.get S ≤ h'.w.get S) ∧
      genGalCat cfg aC aS [h] [p] = .ok o ∧ genGalCat cfg aC aS [h'] [p] = .ok o' ∧
      o.keepSat = [2] ∧ o'.keepSat = [0] := by
  refine ⟨⟨⟨true, true, false⟩, false, none, 1/2, 100⟩, ⟨0, 0, 0⟩, ⟨1, 1, 1⟩,
    ⟨7, 10, ⟨1, 2, 3⟩, ⟨10, 20, 30⟩, ⟨4, 8, 12⟩, 3/8, ⟨1/4, 1/4, 0⟩, 0⟩,
    ⟨7, 10, ⟨1, 2, 3⟩, ⟨10, 20, 30⟩, ⟨4, 8, 12⟩, 3/8, ⟨1/2, 1/4, 0⟩, 0⟩,
    ⟨7, 10, ⟨5, 6, 7⟩, ⟨1, 1, 1⟩, ⟨10, 20, 30⟩, 1/2, 0, 1/4, 1/8, 1/2, 0, 0, 0⟩, _, _, ?_, rfl, rfl, ?_, ?_⟩
  · intro S; cases S <;> decide +kernel
  · decide +kernel
  · decide +kernel

/-! ## later tracers are irrelevant, disabled tracers capture nothing -/

/-- **later_tracer_irrelevant.**  Whether a host yields a `T`-galaxy depends only on the enabled flags
and widths of the tracers up to `T`: enabling, disabling or re-parametrising a later tracer changes
nothing. -/
theorem later_tracer_irrelevant (T : Tracer) (en en' : Enabled) (w w' : Widths) (r : Rat)
    (h : agreeUpTo T en en' w w') :
    keepCode en w r = T.code ↔ keepCode en' w' r = T.code := by
  obtain ⟨a, b, c⟩ := en
  obtain ⟨a', b', c'⟩ := en'
  have hL := h .LRG
  have hE := h .ELG
  have hQ := h .QSO
  cases T <;> simp only [Tracer.rank, Tri.get, Nat.le_refl, Nat.zero_le, forall_const, Nat.reduceLeDiff,
      false_imp_iff, Nat.one_le_ofNat] at hL hE hQ
  · obtain ⟨rfl, hw⟩ := hL
    unfold keepCode markerL
    cases a <;> simp [Tracer.code, hw] <;> split_ifs <;> simp
  · obtain ⟨rfl, hw⟩ := hL
    obtain ⟨rfl, hw2⟩ := hE
    unfold keepCode markerE markerL
    cases a <;> cases b <;> simp [Tracer.code, hw, hw2] <;> split_ifs <;> simp
  · obtain ⟨rfl, hw⟩ := hL
    obtain ⟨rfl, hw2⟩ := hE
    obtain ⟨rfl, hw3⟩ := hQ
    have : w = w' := by
      obtain ⟨x, y, z⟩ := w
      obtain ⟨x', y', z'⟩ := w'
      simp only at hw hw2 hw3
      rw [hw, hw2, hw3]
    subst this
    rfl

example : agreeUpTo .ELG ⟨true, true, false⟩ ⟨true, true, true⟩ ⟨1/4, 1/4, 0⟩ ⟨1/4, 1/4, 5⟩ ∧
    keepCode ⟨true, true, false⟩ ⟨1/4, 1/4, 0⟩ (3/8) = Tracer.ELG.code ∧
    keepCode ⟨true, true, true⟩ ⟨1/4, 1/4, 5⟩ (3/8) = Tracer.ELG.code := by
  refine ⟨?_, by decide +kernel, by decide +kernel⟩
  intro S hS; cases S <;> simp_all [Tracer.rank, Tri.get]

/-- catalogue form: the `T`-centrals of two runs that differ only in tracers after `T` (flags and
per-host widths) are the same list of galaxies. -/
theorem later_tracer_irrelevant_catalogue (T : Tracer) (cfg : Cfg) (en' : Enabled) (aC : Tri Rat)
    (hosts : List Host) (f : Host → Widths)
    (h : ∀ x ∈ hosts, agreeUpTo T cfg.en en' x.w (f x)) :
    (genCent { cfg with en := en' } aC (hosts.map (fun x => { x with w := f x }))).gals T =
      (genCent cfg aC hosts).gals T := by
  rw [genCent_gals, genCent_gals, List.filter_map, List.map_map]
  have hf : hosts.filter ((fun x : Host => decide (keepCode en' x.w x.r = T.code)) ∘ fun x => { x with w := f x }) =
      hosts.filter (fun x => decide (keepCode cfg.en x.w x.r = T.code)) := by
    apply List.filter_congr
    intro x hx
    simp only [Function.comp]
    rw [Bool.eq_iff_iff]
    simp only [decide_eq_true_eq]
    exact (later_tracer_irrelevant T cfg.en en' x.w (f x) x.r (h x hx)).symm
  rw [hf]
  apply List.map_congr_left
  intro x _
  rfl

-- enabling QSO with a width of 5 on every host leaves the ELG centrals of a two-host table unchanged
example : ((genCent ⟨⟨true, true, true⟩, false, none, 1/2, 100⟩ ⟨0, 0, 0⟩
      [⟨7, 10, ⟨1, 2, 3⟩, ⟨10, 20, 30⟩, ⟨4, 8, 12⟩, 1/4, ⟨1/4, 1/4, 5⟩, 0⟩,
       ⟨9, 11, ⟨1, 2, 3⟩, ⟨10, 20, 30⟩, ⟨4, 8, 12⟩, 3/8, ⟨1/4, 1/4, 5⟩, 0⟩]).gals .ELG).map (·.id) = [9] := by
  decide +kernel

/-- **later_tracer_irrelevant (end to end through `gen_gals`).**  Two complete runs on the same halo and
particle tables that differ only in tracers after `T` — their enable flags, the hosts' widths and the
particles' widths (for `T = LRG` also every ELG variant, for `T = ELG` the QSO width) — succeed together and
produce the same `T` catalogue: same `Ncent`, same centrals, same satellites.  The conformity switch reads the
central keep code of the particle's host, which may differ between the runs (0 vs 3), but only through the
tests `== 1` and `== 2`, whose outcome is fixed by the tracers up to ELG. -/
theorem later_tracer_irrelevant_genGalCat (T : Tracer) (cfg : Cfg) (en' : Enabled) (aC aS : Tri Rat)
    (hosts : List Host) (parts : List Part) (f : Host → Widths) (u : Part → Part)
    (hen : flagsAgree T cfg.en en')
    (hh : ∀ x ∈ hosts, ∀ S : Tracer, S.rank ≤ T.rank → x.w.get S = (f x).get S)
    (hp : ∀ p ∈ parts, partAgree T p (u p))
    (o : CatOut) (ho : genGalCat cfg aC aS hosts parts = .ok o) :
    ∃ o', genGalCat { cfg with en := en' } aC aS (hosts.map fun x => { x with w := f x }) (parts.map u) = .ok o' ∧
      o'.cat T = o.cat T := by
  have hag : ∀ x ∈ hosts, agreeUpTo T cfg.en en' x.w (f x) := fun x hx S hS => ⟨hen S hS, hh x hx S hS⟩
  -- the first run
  unfold genGalCat at ho
  simp only [bind, Except.bind, pure, Except.pure] at ho
  split at ho
  · cases ho
  · rename_i kcs hk
    cases ho
    -- keep arrays of the two runs, row by row over the same host table
    have hkeep : (genCent cfg aC hosts).keep = hosts.map (fun h => keepCode cfg.en h.w h.r) := rfl
    have hkeep' : (genCent { cfg with en := en' } aC (hosts.map fun x => { x with w := f x })).keep =
        hosts.map (fun h => keepCode en' (f h) h.r) := by
      simp [genCent, List.map_map, Function.comp]
    have hpinds : (parts.map u).map (·.kc) = parts.map (·.kc) := by
      rw [List.map_map]
      apply List.map_congr_left
      intro p hpm
      exact (hp p hpm).2.2.2.2.2.2.2.1
    rw [hkeep] at hk
    obtain ⟨kcs', hk', hrel⟩ := gatherKeep_map_rel hosts (fun h => keepCode cfg.en h.w h.r)
      (fun h => keepCode en' (f h) h.r) (confRel T) (by
        intro x hx h1
        have hL := later_tracer_irrelevant .LRG cfg.en en' x.w (f x) x.r
          (agreeUpTo_mono (by simp [Tracer.rank]) (hag x hx))
        have hE := later_tracer_irrelevant .ELG cfg.en en' x.w (f x) x.r
          (agreeUpTo_mono (by simpa [Tracer.rank] using h1) (hag x hx))
        simp only [Tracer.code] at hL hE
        constructor
        · constructor <;> intro h <;> [have := hL.1 (by exact_mod_cast h); have := hL.2 (by exact_mod_cast h)] <;>
            exact_mod_cast this
        · constructor <;> intro h <;> [have := hE.1 (by exact_mod_cast h); have := hE.2 (by exact_mod_cast h)] <;>
            exact_mod_cast this) (parts.map (·.kc)) kcs hk
    have hlen : kcs.length = parts.length := by
      have := gatherKeep_length hk; simpa using this
    -- the second run
    have hrun : genGalCat { cfg with en := en' } aC aS (hosts.map fun x => { x with w := f x }) (parts.map u) =
        .ok { keepCent := (genCent { cfg with en := en' } aC (hosts.map fun x => { x with w := f x })).keep
              keepSat := (genSats { cfg with en := en' } aS ((parts.map u).zip kcs')).keep
              cat := fun T => if en'.get T then
                  some { ncent := ((genCent { cfg with en := en' } aC (hosts.map fun x => { x with w := f x })).gals T).length
                         gals := (genCent { cfg with en := en' } aC (hosts.map fun x => { x with w := f x })).gals T ++
                                   (genSats { cfg with en := en' } aS ((parts.map u).zip kcs')).gals T }
                else none } := by
      unfold genGalCat
      simp only [bind, Except.bind, pure, Except.pure]
      rw [hpinds]
      have hk'' : gatherKeep (genCent { cfg with en := en' } aC (hosts.map fun x => { x with w := f x })).keep
          (parts.map (·.kc)) = .ok kcs' := by rw [hkeep']; exact hk'
      rw [hk'']
    refine ⟨_, hrun, ?_⟩
    · -- same T catalogue
      have hflag : en'.get T = cfg.en.get T := (hen T (Nat.le_refl _)).symm
      have hc := later_tracer_irrelevant_catalogue T cfg en' aC hosts f hag
      have hs : (genSats { cfg with en := en' } aS ((parts.map u).zip kcs')).gals T =
          (genSats cfg aS (parts.zip kcs)).gals T := by
        symm
        apply genSats_gals_congr
        apply forall₂_zip_map _ u (confRel T) parts kcs kcs' hlen hrel
        intro p hpm k k' hkk
        have hpa := hp p hpm
        refine ⟨?_, mkSat_agree cfg en' _ hpa⟩
        have hr : (u p).r = p.r := hpa.2.2.2.2.2.1
        show keepCode cfg.en (satWidths p k) p.r = T.code ↔ keepCode en' (satWidths (u p) k') (u p).r = T.code
        rw [hr]
        exact later_tracer_irrelevant T cfg.en en' _ _ p.r (satWidths_agree hen hpa hkk)
      simp only [hflag, hc, hs]

-- QSO switched on (width 5 everywhere) changes the host's central code from 0 to 3; the ELG satellite on
-- that host keeps its default width and stays selected; the ELG catalogue is unchanged
example : (∃ o, genGalCat ⟨⟨true, true, false⟩, false, none, 1/2, 100⟩ ⟨0, 0, 0⟩ ⟨1, 1, 1⟩
      [⟨7, 10, ⟨1, 2, 3⟩, ⟨10, 20, 30⟩, ⟨4, 8, 12⟩, 3/4, ⟨1/4, 1/4, 0⟩, 0⟩]
      [⟨7, 10, ⟨5, 6, 7⟩, ⟨1, 1, 1⟩, ⟨10, 20, 30⟩, 1/4, 0, 1/2, 0, 0, 0, 0, 0⟩] = .ok o ∧
      o.keepCent = [0] ∧ (o.cat .ELG).map (fun t => t.gals.map (·.id)) = some [7]) ∧
    (∃ o, genGalCat ⟨⟨true, true, true⟩, false, none, 1/2, 100⟩ ⟨0, 0, 0⟩ ⟨1, 1, 1⟩
      [⟨7, 10, ⟨1, 2, 3⟩, ⟨10, 20, 30⟩, ⟨4, 8, 12⟩, 3/4, ⟨1/4, 1/4, 5⟩, 0⟩]
      [⟨7, 10, ⟨5, 6, 7⟩, ⟨1, 1, 1⟩, ⟨10, 20, 30⟩, 1/4, 0, 1/2, 0, 0, 5, 0, 0⟩] = .ok o ∧
      o.keepCent = [3] ∧ (o.cat .ELG).map (fun t => t.gals.map (·.id)) = some [7]) := by
  constructor <;> refine ⟨_, rfl, ?_, ?_⟩ <;> decide +kernel

/-- **disabled_tracer_captures_nothing.**  A tracer that is not enabled never gets a host, whatever
the random number (including 0) and whatever width is associated with it; its catalogue is empty and
it is absent from the output of `gen_gals`. -/
theorem disabled_tracer_captures_nothing (cfg : Cfg) (T : Tracer) (hT : cfg.en.get T = false) :
    (∀ (w : Widths) (r : Rat), keepCode cfg.en w r ≠ T.code) ∧
    (∀ (aC : Tri Rat) (hosts : List Host), (genCent cfg aC hosts).gals T = []) ∧
    (∀ (aS : Tri Rat) (pks : List (Part × Int)), (genSats cfg aS pks).gals T = []) ∧
    (∀ (aC aS : Tri Rat) (hosts : List Host) (parts : List Part) (o : CatOut),
      genGalCat cfg aC aS hosts parts = .ok o → o.cat T = none) := by
  have key : ∀ (w : Widths) (r : Rat), keepCode cfg.en w r ≠ T.code := by
    intro w r hk
    have := ((keepCode_eq_code_iff cfg.en w T r).1 hk).1
    rw [hT] at this
    cases this
  refine ⟨key, ?_, ?_, ?_⟩
  · intro aC hosts
    rw [genCent_gals]
    simp [key]
  · intro aS pks
    rw [genSats_gals]
    simp [key]
  · intro aC aS hosts parts o ho
    unfold genGalCat at ho
    simp only [bind, Except.bind, pure, Except.pure] at ho
    split at ho
    · cases ho
    · cases ho
      simp [hT]

-- the input of the repaired defect: only ELG enabled, r = 0, LRG width irrelevant
example : keepCode ⟨false, true, false⟩ ⟨0, 1/2, 0⟩ 0 ≠ Tracer.LRG.code ∧
    keepCode ⟨false, true, false⟩ ⟨0, 1/2, 0⟩ 0 = Tracer.ELG.code := by decide +kernel

/-! ## galaxy content -/

/-- **inherits_host.**  A central carries its host's id and mass, the velocity `v_h + α_c · vdev`, and
(without RSD) the host's position; a satellite carries the host id and mass stored on its particle
row, the velocity `v_h + α_s · (v_p − v_h)` and (without RSD) the particle's position. -/
theorem inherits_host (cfg : Cfg) (a : Rat) (h : Host) (p : Part) :
    ((mkCent cfg a h).id = h.id ∧ (mkCent cfg a h).mass = h.mass ∧
      (mkCent cfg a h).vel = ⟨h.vel.x + a * h.vdev.x, h.vel.y + a * h.vdev.y, h.vel.z + a * h.vdev.z⟩ ∧
      (cfg.rsd = false → (mkCent cfg a h).pos = h.pos)) ∧
    ((mkSat cfg a p).id = p.hid ∧ (mkSat cfg a p).mass = p.hmass ∧
      (mkSat cfg a p).vel = ⟨p.hvel.x + a * (p.pvel.x - p.hvel.x), p.hvel.y + a * (p.pvel.y - p.hvel.y),
                             p.hvel.z + a * (p.pvel.z - p.hvel.z)⟩ ∧
      (cfg.rsd = false → (mkSat cfg a p).pos = p.ppos)) := by
  refine ⟨⟨rfl, rfl, rfl, ?_⟩, ⟨rfl, rfl, rfl, ?_⟩⟩
  · intro hr; simp [mkCent, applyRsd, hr]
  · intro hr; simp [mkSat, applyRsd, hr]

/-- catalogue form: every `T`-central (satellite) of the catalogue is `mkCent` (`mkSat`) of a host row
(particle row) of the input whose random number is in `T`'s slice, with `T`'s own velocity-bias
parameter. -/
theorem inherits_host_catalogue (cfg : Cfg) (aC aS : Tri Rat) (hosts : List Host)
    (pks : List (Part × Int)) (T : Tracer) :
    (∀ g ∈ (genCent cfg aC hosts).gals T, ∃ h ∈ hosts, inSlice cfg.en h.w T h.r ∧
        g = mkCent cfg (aC.get T) h) ∧
    (∀ g ∈ (genSats cfg aS pks).gals T, ∃ pk ∈ pks, inSlice cfg.en (satWidths pk.1 pk.2) T pk.1.r ∧
        g = mkSat cfg (aS.get T) pk.1) := by
  rw [genCent_gals, genSats_gals]
  constructor
  · intro g hg
    simp only [List.mem_map, List.mem_filter, decide_eq_true_eq] at hg
    obtain ⟨h, ⟨hm, hk⟩, rfl⟩ := hg
    exact ⟨h, hm, (keepCode_eq_code_iff _ _ _ _).1 hk, rfl⟩
  · intro g hg
    simp only [List.mem_map, List.mem_filter, decide_eq_true_eq] at hg
    obtain ⟨pk, ⟨hm, hk⟩, rfl⟩ := hg
    exact ⟨pk, hm, (keepCode_eq_code_iff _ _ _ _).1 hk, rfl⟩

example : ((genSats ⟨⟨false, true, false⟩, false, none, 1/2, 100⟩ ⟨0, 1/2, 0⟩
      [(⟨7, 10, ⟨5, 6, 7⟩, ⟨14, 1, 1⟩, ⟨10, 20, 30⟩, 1/4, 0, 1/8, 1/2, 1/8, 0, 0, 0⟩, 1)]).gals .ELG).map
        (fun g => (g.id, g.vel.x)) = [(7, 12)] := by
  decide +kernel

example : (mkCent ⟨⟨true, false, false⟩, false, none, 1/2, 100⟩ (1/4)
    ⟨7, 10, ⟨1, 2, 3⟩, ⟨10, 20, 30⟩, ⟨4, 8, 12⟩, 0, ⟨1, 0, 0⟩, 0⟩).vel.z = 33 := by decide +kernel

/-! ## redshift-space distortions -/

/-- **rsd_only_los (box).**  With RSD and no light-cone origin only `z` changes: `x`, `y` are copied,
`z' = z + v_z·inv_velz2kms + k·L` with `k ∈ {−1, 0, 1}`, and under the single-wrap precondition
(`−L/2 ≤ z < L/2` and `|v_z·inv| ≤ L`, or `|z| ≤ L/2` and `|v_z·inv| < L`) `z' ∈ [−L/2, L/2)`. -/
theorem rsd_only_los_box (cfg : Cfg) (invn : Rat) (pos vel : V3)
    (hr : cfg.rsd = true) (ho : cfg.origin = none) :
    (applyRsd cfg invn pos vel).x = pos.x ∧ (applyRsd cfg invn pos vel).y = pos.y ∧
    (∃ k : Int, (k = -1 ∨ k = 0 ∨ k = 1) ∧
        (applyRsd cfg invn pos vel).z = pos.z + vel.z * cfg.inv + k * cfg.lbox) ∧
    ((-(cfg.lbox / 2) ≤ pos.z ∧ pos.z < cfg.lbox / 2 ∧ |vel.z * cfg.inv| ≤ cfg.lbox) ∨
      (|pos.z| ≤ cfg.lbox / 2 ∧ |vel.z * cfg.inv| < cfg.lbox) →
      -(cfg.lbox / 2) ≤ (applyRsd cfg invn pos vel).z ∧ (applyRsd cfg invn pos vel).z < cfg.lbox / 2) := by
  have e : applyRsd cfg invn pos vel = ⟨pos.x, pos.y, wrap (pos.z + vel.z * cfg.inv) cfg.lbox⟩ := by
    simp [applyRsd, hr, ho]
  rw [e]
  refine ⟨rfl, rfl, ?_, ?_⟩
  · rcases wrap_cases (pos.z + vel.z * cfg.inv) cfg.lbox with h | h | h
    · exact ⟨0, by simp, by simp [h]⟩
    · exact ⟨-1, by simp, by simp only [h]; push_cast; ring⟩
    · exact ⟨1, by simp, by simp only [h]; push_cast; ring⟩
  · intro hpre
    apply wrap_range
    · rcases hpre with ⟨h1, _, h3⟩ | ⟨h1, h3⟩
      · have := (abs_le.mp h3).1; linarith
      · have := (abs_le.mp h1).1; have := (abs_lt.mp h3).1; linarith
    · rcases hpre with ⟨_, h2, h3⟩ | ⟨h1, h3⟩
      · have := (abs_le.mp h3).2; linarith
      · have := (abs_le.mp h1).2; have := (abs_lt.mp h3).2; linarith

-- z + v_z·inv exactly on the upper edge wraps to the lower edge
example : (applyRsd ⟨⟨true, true, true⟩, true, none, 1/2, 100⟩ 0 ⟨1, 2, 45⟩ ⟨0, 0, 10⟩).z = -50 := by
  decide +kernel
-- sharpness of the precondition: z = L/2 together with v_z·inv = L is not brought back into [−L/2, L/2)
example : (applyRsd ⟨⟨true, true, true⟩, true, none, 1, 100⟩ 0 ⟨1, 2, 50⟩ ⟨0, 0, 100⟩).z = 50 := by
  decide +kernel

/-- **rsd_only_los (light cone).**  With RSD and an origin `o`, writing `n = pos − o` and `n̂ = invn·n`
with `invn` an inverse norm of `n` (`invn²·|n|² = 1`): `n̂` is a unit vector, the galaxy is displaced by
`s·n̂` with `s = (v·n̂)·inv_velz2kms` — parallel to the line of sight (zero cross product with `n`),
signed length `s`. -/
theorem rsd_only_los_lightcone (cfg : Cfg) (invn : Rat) (pos vel o : V3)
    (hr : cfg.rsd = true) (ho : cfg.origin = some o)
    (hinv : invn * invn * ((pos.sub o).dot (pos.sub o)) = 1) :
    let nh := V3.smul invn (pos.sub o)
    let s := vel.dot nh * cfg.inv
    let d := (applyRsd cfg invn pos vel).sub pos
    nh.dot nh = 1 ∧ d = V3.smul s nh ∧ d.dot nh = s ∧
      d.y * (pos.z - o.z) - d.z * (pos.y - o.y) = 0 ∧
      d.z * (pos.x - o.x) - d.x * (pos.z - o.z) = 0 ∧
      d.x * (pos.y - o.y) - d.y * (pos.x - o.x) = 0 := by
  intro nh s d
  have e : applyRsd cfg invn pos vel =
      ⟨pos.x + cfg.inv * (vel.x * ((pos.x - o.x) * invn) + vel.y * ((pos.y - o.y) * invn) + vel.z * ((pos.z - o.z) * invn)) * ((pos.x - o.x) * invn),
       pos.y + cfg.inv * (vel.x * ((pos.x - o.x) * invn) + vel.y * ((pos.y - o.y) * invn) + vel.z * ((pos.z - o.z) * invn)) * ((pos.y - o.y) * invn),
       pos.z + cfg.inv * (vel.x * ((pos.x - o.x) * invn) + vel.y * ((pos.y - o.y) * invn) + vel.z * ((pos.z - o.z) * invn)) * ((pos.z - o.z) * invn)⟩ := by
    simp [applyRsd, hr, ho]
  have hunit : nh.dot nh = 1 := by
    simp only [nh, V3.dot, V3.smul, V3.sub] at hinv ⊢
    linarith [hinv]
  have hd : d = V3.smul s nh := by
    simp only [d, s, nh, e, V3.sub, V3.smul, V3.dot]
    congr 1 <;> ring
  refine ⟨hunit, hd, ?_, ?_, ?_, ?_⟩
  · rw [hd]
    have : (V3.smul s nh).dot nh = s * nh.dot nh := by simp only [V3.dot, V3.smul]; ring
    rw [this, hunit, mul_one]
  all_goals
    rw [hd]
    simp only [nh, V3.smul, V3.sub]
    ring

-- origin (0,0,0), galaxy at (3,4,0), |n| = 5, velocity (10,0,0): v_los = 6, displacement 6·inv along n̂
example : (applyRsd ⟨⟨true, true, true⟩, true, some ⟨0, 0, 0⟩, 1/2, 100⟩ (1/5) ⟨3, 4, 0⟩ ⟨10, 0, 0⟩).x = 3 + 3 * (3/5) ∧
    (applyRsd ⟨⟨true, true, true⟩, true, some ⟨0, 0, 0⟩, 1/2, 100⟩ (1/5) ⟨3, 4, 0⟩ ⟨10, 0, 0⟩).y = 4 + 3 * (4/5) ∧
    (1/5 : Rat) * (1/5) * ((V3.sub ⟨3, 4, 0⟩ ⟨0, 0, 0⟩).dot (V3.sub ⟨3, 4, 0⟩ ⟨0, 0, 0⟩)) = 1 := by
  refine ⟨?_, ?_, ?_⟩ <;> decide +kernel

/-- without RSD (whatever the origin) positions are copied unchanged -/
theorem rsd_off_identity (cfg : Cfg) (invn : Rat) (pos vel : V3) (hr : cfg.rsd = false) :
    applyRsd cfg invn pos vel = pos := by
  simp [applyRsd, hr]

example : (applyRsd ⟨⟨true, true, true⟩, false, some ⟨0, 0, 0⟩, 1/2, 100⟩ (1/5) ⟨3, 4, 0⟩ ⟨10, 0, 0⟩).x = 3 := by
  decide +kernel

/-! ## assembly -/

/-- **order_and_ncent.**  For every enabled tracer the catalogue is the centrals followed by the
satellites, `Ncent` is the number of centrals (= the number of hosts with `T`'s keep code), the first
`Ncent` rows are exactly the centrals and the rest exactly the satellites, and within each block the
galaxies come in the order of their host rows / particle rows (their ids form a sublist of the input
id column). -/
theorem order_and_ncent (cfg : Cfg) (aC aS : Tri Rat) (hosts : List Host) (parts : List Part)
    (o : CatOut) (T : Tracer) (hT : cfg.en.get T = true)
    (ho : genGalCat cfg aC aS hosts parts = .ok o) :
    ∃ (t : TracerOut) (kcs : List Int),
      o.cat T = some t ∧ gatherKeep (genCent cfg aC hosts).keep (parts.map (·.kc)) = .ok kcs ∧
      kcs.length = parts.length ∧
      t.gals = (genCent cfg aC hosts).gals T ++ (genSats cfg aS (parts.zip kcs)).gals T ∧
      t.ncent = ((genCent cfg aC hosts).gals T).length ∧
      t.ncent = (genCent cfg aC hosts).keep.count T.code ∧
      t.gals.take t.ncent = (genCent cfg aC hosts).gals T ∧
      t.gals.drop t.ncent = (genSats cfg aS (parts.zip kcs)).gals T ∧
      (((genCent cfg aC hosts).gals T).map (·.id)).Sublist (hosts.map (·.id)) ∧
      (((genSats cfg aS (parts.zip kcs)).gals T).map (·.id)).Sublist (parts.map (·.hid)) := by
  unfold genGalCat at ho
  simp only [bind, Except.bind, pure, Except.pure] at ho
  split at ho
  · cases ho
  · rename_i kcs hk
    cases ho
    have hlen : kcs.length = parts.length := by
      have := gatherKeep_length hk; simpa using this
    refine ⟨⟨((genCent cfg aC hosts).gals T).length,
        (genCent cfg aC hosts).gals T ++ (genSats cfg aS (parts.zip kcs)).gals T⟩, kcs,
      by simp [hT], hk, hlen, rfl, rfl, ?_, by simp, by simp, ?_, ?_⟩
    · show ((genCent cfg aC hosts).gals T).length = (genCent cfg aC hosts).keep.count T.code
      rw [genCent_gals, List.length_map]
      simp only [genCent]
      rw [List.count_eq_countP, List.countP_map, List.countP_eq_length_filter]
      congr 1
    · rw [genCent_gals, List.map_map]
      have : (hosts.filter (fun h => decide (keepCode cfg.en h.w h.r = T.code))).map
          ((fun g : Gal => g.id) ∘ mkCent cfg (aC.get T)) =
          (hosts.filter (fun h => decide (keepCode cfg.en h.w h.r = T.code))).map (·.id) := by
        apply List.map_congr_left; intro x _; rfl
      rw [this]
      exact List.Sublist.map _ List.filter_sublist
    · rw [genSats_gals, List.map_map]
      have e1 : ((parts.zip kcs).filter
          (fun pk => decide (keepCode cfg.en (satWidths pk.1 pk.2) pk.1.r = T.code))).map
          ((fun g : Gal => g.id) ∘ fun pk => mkSat cfg (aS.get T) pk.1) =
          (((parts.zip kcs).filter
            (fun pk => decide (keepCode cfg.en (satWidths pk.1 pk.2) pk.1.r = T.code))).map (·.1)).map (·.hid) := by
        rw [List.map_map]; apply List.map_congr_left; intro x _; rfl
      rw [e1]
      apply List.Sublist.map
      have e2 : parts = (parts.zip kcs).map (·.1) := by
        rw [List.map_fst_zip]; omega
      conv => rhs; rw [e2]
      exact List.Sublist.map _ List.filter_sublist

example : ∃ o, genGalCat ⟨⟨true, false, false⟩, false, none, 1/2, 100⟩ ⟨0, 0, 0⟩ ⟨1, 1, 1⟩
      [⟨7, 10, ⟨1, 2, 3⟩, ⟨10, 20, 30⟩, ⟨4, 8, 12⟩, 0, ⟨1, 0, 0⟩, 0⟩,
       ⟨9, 11, ⟨1, 2, 3⟩, ⟨10, 20, 30⟩, ⟨4, 8, 12⟩, 1, ⟨1/2, 0, 0⟩, 0⟩]
      [⟨7, 10, ⟨5, 6, 7⟩, ⟨1, 1, 1⟩, ⟨10, 20, 30⟩, 1/4, 1/2, 0, 0, 0, 0, 0, 0⟩] = .ok o ∧
    (o.cat .LRG).map (·.ncent) = some 1 ∧ (o.cat .LRG).map (fun t => t.gals.map (·.id)) = some [7, 7] := by
  refine ⟨_, rfl, ?_, ?_⟩ <;> decide +kernel

/-! ## NFW satellites (`nfw=True`)

The threshold rule does not apply to this path (Poisson counts from a global generator, see the header of
`Model/C09.lean`); inheritance of id / mass, the ordering and `Ncent` do, and the RSD of that branch is a
different formula. -/

/-- **nfw_inherits_host.**  Whatever counts, positions and velocities were drawn: every NFW satellite is
`mkNfw` of a host row and one of its draws and carries that host's id and mass (velocity = the drawn one); the
id and mass columns are the host columns repeated by the per-host counts, in host order; the number of
satellites is the sum of the counts. -/
theorem nfw_inherits_host (cfg : Cfg) (rows : List (Host × List Draw)) :
    (∀ g ∈ genSatsNfw cfg rows, ∃ hd ∈ rows, ∃ d ∈ hd.2,
        g = mkNfw cfg hd.1 d ∧ g.id = hd.1.id ∧ g.mass = hd.1.mass ∧ g.vel = d.vel) ∧
    (genSatsNfw cfg rows).map (·.id) = rows.flatMap (fun hd => List.replicate hd.2.length hd.1.id) ∧
    (genSatsNfw cfg rows).map (·.mass) = rows.flatMap (fun hd => List.replicate hd.2.length hd.1.mass) ∧
    (genSatsNfw cfg rows).length = (rows.map (·.2.length)).sum := by
  refine ⟨?_, ?_, ?_, ?_⟩
  · intro g hg
    simp only [genSatsNfw, List.mem_flatMap, List.mem_map] at hg
    obtain ⟨hd, hm, d, hdm, rfl⟩ := hg
    exact ⟨hd, hm, d, hdm, rfl, rfl, rfl, rfl⟩
  · have hrep : ∀ (h : Host) (l : List Draw),
        (l.map (mkNfw cfg h)).map (·.id) = List.replicate l.length h.id := by
      intro h l
      induction l with
      | nil => rfl
      | cons d ds ih => simp only [List.map_cons, List.length_cons, List.replicate_succ, ih]; rfl
    induction rows with
    | nil => rfl
    | cons hd tl ih =>
      simp only [genSatsNfw, List.flatMap_cons, List.map_append] at ih ⊢
      rw [ih, hrep]
  · have hrep : ∀ (h : Host) (l : List Draw),
        (l.map (mkNfw cfg h)).map (·.mass) = List.replicate l.length h.mass := by
      intro h l
      induction l with
      | nil => rfl
      | cons d ds ih => simp only [List.map_cons, List.length_cons, List.replicate_succ, ih]; rfl
    induction rows with
    | nil => rfl
    | cons hd tl ih =>
      simp only [genSatsNfw, List.flatMap_cons, List.map_append] at ih ⊢
      rw [ih, hrep]
  · induction rows with
    | nil => rfl
    | cons hd tl ih =>
      simp only [genSatsNfw, List.flatMap_cons, List.length_append, List.length_map, List.map_cons,
        List.sum_cons] at ih ⊢
      rw [ih]

example : (genSatsNfw ⟨⟨true, true, true⟩, false, none, 1/2, 100⟩
    [(⟨7, 10, ⟨1, 2, 3⟩, ⟨10, 20, 30⟩, ⟨4, 8, 12⟩, 0, ⟨1, 0, 0⟩, 0⟩, [⟨⟨1, 1, 1⟩, ⟨2, 2, 2⟩⟩, ⟨⟨3, 3, 3⟩, ⟨4, 4, 4⟩⟩]),
     (⟨8, 11, ⟨1, 2, 3⟩, ⟨10, 20, 30⟩, ⟨4, 8, 12⟩, 0, ⟨1, 0, 0⟩, 0⟩, []),
     (⟨9, 12, ⟨1, 2, 3⟩, ⟨10, 20, 30⟩, ⟨4, 8, 12⟩, 0, ⟨1, 0, 0⟩, 0⟩, [⟨⟨5, 5, 5⟩, ⟨6, 6, 6⟩⟩])]).map (·.id) = [7, 7, 9] := by
  decide +kernel

/-- **nfw_rsd.**  The RSD of the NFW branch: only `z` changes, `z' = z + v_z·inv − k·L` for an integer `k`,
and (for `L > 0`) `z' ∈ [−L/2, L/2)` for every input (any number of periods is removed). -/
theorem nfw_rsd (cfg : Cfg) (h : Host) (d : Draw) (hr : cfg.rsd = true) (hL : 0 < cfg.lbox) :
    (mkNfw cfg h d).pos.x = d.pos.x ∧ (mkNfw cfg h d).pos.y = d.pos.y ∧
    (∃ k : Int, (mkNfw cfg h d).pos.z = d.pos.z + d.vel.z * cfg.inv - k * cfg.lbox) ∧
    -(cfg.lbox / 2) ≤ (mkNfw cfg h d).pos.z ∧ (mkNfw cfg h d).pos.z < cfg.lbox / 2 := by
  have e : (mkNfw cfg h d).pos =
      ⟨d.pos.x, d.pos.y, pyMod (d.pos.z + d.vel.z * cfg.inv + cfg.lbox / 2) cfg.lbox - cfg.lbox / 2⟩ := by
    simp [mkNfw, hr]
  rw [e]
  generalize d.pos.z + d.vel.z * cfg.inv = x
  generalize cfg.lbox = L at hL
  have hfl : ((x + L / 2) / L).floor = ⌊(x + L / 2) / L⌋ := rfl
  have h1 := Int.floor_le ((x + L / 2) / L)
  have h2 := Int.lt_floor_add_one ((x + L / 2) / L)
  have hx : L * ((x + L / 2) / L) = x + L / 2 := by rw [mul_comm]; exact div_mul_cancel₀ _ (ne_of_gt hL)
  have h1' := mul_le_mul_of_nonneg_left h1 (le_of_lt hL)
  have h2' := mul_lt_mul_of_pos_left h2 hL
  rw [hx] at h1' h2'
  refine ⟨rfl, rfl, ⟨⌊(x + L / 2) / L⌋, ?_⟩, ?_, ?_⟩
  · simp only [pyMod, hfl]; ring
  · simp only [pyMod, hfl]; linarith
  · simp only [pyMod, hfl]; linarith

/-- **nfw_rsd_eq_wrap.**  Under the single-wrap precondition (`z + v_z·inv ∈ [−3L/2, 3L/2)`, which follows from
`−L/2 ≤ z < L/2` and `|v_z·inv| ≤ L`) the NFW branch and `wrap` (centrals, particle satellites) put a galaxy at
the same `z`: the two RSD formulas of the package agree wherever `wrap` is valid. -/
theorem nfw_rsd_eq_wrap (x L : Rat) (hL : 0 < L) (hlo : -(3 * L / 2) ≤ x) (hhi : x < 3 * L / 2) :
    pyMod (x + L / 2) L - L / 2 = wrap x L := by
  have hfl : ((x + L / 2) / L).floor = ⌊(x + L / 2) / L⌋ := rfl
  have h1 := Int.floor_le ((x + L / 2) / L)
  have h2 := Int.lt_floor_add_one ((x + L / 2) / L)
  have hx : L * ((x + L / 2) / L) = x + L / 2 := by rw [mul_comm]; exact div_mul_cancel₀ _ (ne_of_gt hL)
  have h1' := mul_le_mul_of_nonneg_left h1 (le_of_lt hL)
  have h2' := mul_lt_mul_of_pos_left h2 hL
  rw [hx] at h1' h2'
  obtain ⟨hw1, hw2⟩ := wrap_range hlo hhi
  set k := ⌊(x + L / 2) / L⌋ with hk
  -- both sides are x minus a multiple of L and lie in [-L/2, L/2): the multiples coincide
  rcases wrap_cases x L with hw | hw | hw
  · have hk0 : k = 0 := by
      have a : (k : ℚ) * L ≤ x + L / 2 := by linarith
      have b : x + L / 2 < ((k : ℚ) + 1) * L := by linarith
      rw [hw] at hw1 hw2
      have c1 : (k : ℚ) < 1 := by by_contra hc; push Not at hc; nlinarith
      have c2 : (-1 : ℚ) < k := by by_contra hc; push Not at hc; nlinarith
      have d1 : k < 1 := by exact_mod_cast c1
      have d2 : -1 < k := by exact_mod_cast c2
      omega
    simp only [pyMod, hfl, hk0, hw]; push_cast; ring
  · have hk1 : k = 1 := by
      have a : (k : ℚ) * L ≤ x + L / 2 := by linarith
      have b : x + L / 2 < ((k : ℚ) + 1) * L := by linarith
      rw [hw] at hw1 hw2
      have c1 : (k : ℚ) < 2 := by by_contra hc; push Not at hc; nlinarith
      have c2 : (0 : ℚ) < k := by by_contra hc; push Not at hc; nlinarith
      have d1 : k < 2 := by exact_mod_cast c1
      have d2 : 0 < k := by exact_mod_cast c2
      omega
    simp only [pyMod, hfl, hk1, hw]; push_cast; ring
  · have hk1 : k = -1 := by
      have a : (k : ℚ) * L ≤ x + L / 2 := by linarith
      have b : x + L / 2 < ((k : ℚ) + 1) * L := by linarith
      rw [hw] at hw1 hw2
      have c1 : (k : ℚ) < 0 := by by_contra hc; push Not at hc; nlinarith
      have c2 : (-2 : ℚ) < k := by by_contra hc; push Not at hc; nlinarith
      have d1 : k < 0 := by exact_mod_cast c1
      have d2 : -2 < k := by exact_mod_cast c2
      omega
    simp only [pyMod, hfl, hk1, hw]; push_cast; ring

-- a satellite at z = −10 in the box [−50, 50) with no line-of-sight velocity stays at −10 (it went to 90 before
-- the repair of the `% lbox` range); one at z = 45 with v_z·inv = 10 wraps to −45
example : (mkNfw ⟨⟨true, true, true⟩, true, none, 1/2, 100⟩
      ⟨7, 10, ⟨1, 2, 3⟩, ⟨10, 20, 30⟩, ⟨4, 8, 12⟩, 0, ⟨1, 0, 0⟩, 0⟩ ⟨⟨1, 2, -10⟩, ⟨5, 5, 0⟩⟩).pos.z = -10 ∧
    (mkNfw ⟨⟨true, true, true⟩, true, none, 1/2, 100⟩
      ⟨7, 10, ⟨1, 2, 3⟩, ⟨10, 20, 30⟩, ⟨4, 8, 12⟩, 0, ⟨1, 0, 0⟩, 0⟩ ⟨⟨1, 2, 45⟩, ⟨5, 5, 20⟩⟩).pos.z = -45 := by
  constructor <;> decide +kernel

/-- **nfw_order_and_ncent.**  With NFW satellites the catalogue of an enabled tracer is still the centrals of
`gen_cent` followed by the satellites, `Ncent` = number of centrals; a tracer that is not enabled is absent. -/
theorem nfw_order_and_ncent (cfg : Cfg) (aC : Tri Rat) (hosts : List Host) (draws : Tracer → List (List Draw))
    (T : Tracer) :
    (cfg.en.get T = false → genGalCatNfw cfg aC hosts draws T = none) ∧
    (cfg.en.get T = true → ∃ t, genGalCatNfw cfg aC hosts draws T = some t ∧
      t.ncent = ((genCent cfg aC hosts).gals T).length ∧
      t.gals.take t.ncent = (genCent cfg aC hosts).gals T ∧
      t.gals.drop t.ncent = genSatsNfw cfg (hosts.zip (draws T))) := by
  constructor
  · intro h; simp [genGalCatNfw, h]
  · intro h
    exact ⟨⟨((genCent cfg aC hosts).gals T).length,
        (genCent cfg aC hosts).gals T ++ genSatsNfw cfg (hosts.zip (draws T))⟩,
      by simp [genGalCatNfw, h], rfl, by simp, by simp⟩

example : (genGalCatNfw ⟨⟨true, false, false⟩, false, none, 1/2, 100⟩ ⟨0, 0, 0⟩
    [⟨7, 10, ⟨1, 2, 3⟩, ⟨10, 20, 30⟩, ⟨4, 8, 12⟩, 0, ⟨1, 0, 0⟩, 0⟩]
    (fun _ => [[⟨⟨1, 1, 1⟩, ⟨2, 2, 2⟩⟩, ⟨⟨3, 3, 3⟩, ⟨4, 4, 4⟩⟩]]) .LRG).map (fun t => (t.ncent, t.gals.map (·.id))) =
    some (1, [7, 7, 7]) := by decide +kernel

end AbacusVerif.Hod
