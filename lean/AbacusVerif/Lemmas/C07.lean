/-
  Lemmas for C07: what the stripe key says about a particle's position, how far apart the rounded
  coordinates of two particles of distinct equal-parity stripes are, and the rows a particle touches.
-/
import AbacusVerif.Model.C07
import AbacusVerif.Lemmas.Num

namespace AbacusVerif.TscPar
open AbacusVerif

theorem truncInt_nonneg {x : ℚ} (h : 0 ≤ x) : truncInt x = ⌊x⌋ := by
  unfold truncInt
  simp only [h, if_true]
  rfl

/-- what the stripe key says about the position, in products (no division) -/
theorem stripe_bounds (np g : Nat) (hnp : 0 < np) (hg : 0 < g) (p : ℚ) (hp0 : 0 ≤ p) :
    0 ≤ stripeOf np g p ∧ stripeOf np g p ≤ (np : Int) - 1 ∧
    ((stripeOf np g p : Int) : ℚ) * g ≤ p * np ∧
    (stripeOf np g p < (np : Int) - 1 → p * np < (((stripeOf np g p : Int) : ℚ) + 1) * g) := by
  have hgq : (0 : ℚ) < g := by exact_mod_cast hg
  have hnq : (0 : ℚ) < np := by exact_mod_cast hnp
  set q : ℚ := p * ((np : ℚ) / (g : ℚ)) with hq
  have hq0 : 0 ≤ q := by positivity
  have hqg : q * g = p * np := by rw [hq]; field_simp
  have hs : stripeOf np g p = min ⌊q⌋ ((np : Int) - 1) := by
    unfold stripeOf; rw [truncInt_nonneg hq0]
  have hfl0 : 0 ≤ ⌊q⌋ := Int.floor_nonneg.mpr hq0
  have hfl : ((⌊q⌋ : Int) : ℚ) ≤ q := Int.floor_le q
  have hfu : q < ((⌊q⌋ : Int) : ℚ) + 1 := Int.lt_floor_add_one q
  rw [hs]
  refine ⟨by omega, by omega, ?_, ?_⟩
  · have h1 : ((min ⌊q⌋ ((np : Int) - 1) : Int) : ℚ) ≤ ((⌊q⌋ : Int) : ℚ) := by
      exact_mod_cast min_le_left _ _
    have : ((min ⌊q⌋ ((np : Int) - 1) : Int) : ℚ) * g ≤ q * g :=
      mul_le_mul_of_nonneg_right (le_trans h1 hfl) hgq.le
    linarith
  · intro hlt
    have hm : min ⌊q⌋ ((np : Int) - 1) = ⌊q⌋ := by omega
    rw [hm]
    have : q * g < (((⌊q⌋ : Int) : ℚ) + 1) * g := mul_lt_mul_of_pos_right hfu hgq
    linarith

theorem rhe_seven_halves : rhe (7/2) = 4 := by decide +kernel

/-- the rounded coordinates of two particles of distinct equal-parity stripes are at least 3 and at most
`g - 3` apart -/
theorem rhe_gap (g np : Nat) (hnp2 : 2 ∣ np) (hw : 3 * np ≤ g) (off : ℚ) (ho0 : 0 ≤ off) (ho1 : off ≤ 1)
    (p p' : ℚ) (hp0 : 0 ≤ p) (hp0' : 0 ≤ p') (hpg' : p' ≤ g)
    (hlt : stripeOf np g p < stripeOf np g p')
    (hpar : stripeOf np g p % 2 = stripeOf np g p' % 2) :
    rhe (p + off) + 3 ≤ rhe (p' + off) ∧ rhe (p' + off) ≤ rhe (p + off) + (g : Int) - 3 := by
  by_cases hnp0 : np = 0
  · subst hnp0
    exfalso
    unfold stripeOf at hlt
    simp at hlt
  have hnp : 0 < np := Nat.pos_of_ne_zero hnp0
  have hg : 0 < g := by omega
  have hgq : (0 : ℚ) < g := by exact_mod_cast hg
  have hnq : (0 : ℚ) < np := by exact_mod_cast hnp
  have hwq : (3 : ℚ) * np ≤ g := by exact_mod_cast hw
  obtain ⟨hs0, _, hsl, hsu⟩ := stripe_bounds np g hnp hg p hp0
  obtain ⟨_, hs1', hsl', hsu'⟩ := stripe_bounds np g hnp hg p' hp0'
  set s := stripeOf np g p with hsdef
  set s' := stripeOf np g p' with hsdef'
  have hs2 : s + 2 ≤ s' := by omega
  have hsu := hsu (by omega)
  have hs2q : ((s : Int) : ℚ) + 2 ≤ ((s' : Int) : ℚ) := by exact_mod_cast hs2
  have hs0q : (0 : ℚ) ≤ ((s : Int) : ℚ) := by exact_mod_cast hs0
  -- lower bound: p' - p > 3
  have hlow : 3 < (p' + off) - (p + off) := by
    have h1 : (((s : Int) : ℚ) + 2) * g ≤ ((s' : Int) : ℚ) * g := mul_le_mul_of_nonneg_right hs2q hgq.le
    have h2 : (3 : ℚ) * np < (p' - p) * np := by nlinarith
    have h3 : (3 : ℚ) < p' - p := lt_of_mul_lt_mul_right h2 hnq.le
    linarith
  refine ⟨rhe_sep hlow, ?_⟩
  have hiu := rhe_upper (p' + off)
  have hil := rhe_lower (p + off)
  by_cases hlast : s' < (np : Int) - 1
  · -- the upper stripe is not the last one: p' - p < g - 3 strictly
    have hsu' := hsu' hlast
    have hs'q : ((s' : Int) : ℚ) + 1 ≤ (np : ℚ) - 1 := by
      have : s' + 1 ≤ (np : Int) - 1 := by omega
      exact_mod_cast this
    have h1 : (((s' : Int) : ℚ) + 1) * g ≤ ((np : ℚ) - 1) * g := mul_le_mul_of_nonneg_right hs'q hgq.le
    have h0 : (0 : ℚ) ≤ ((s : Int) : ℚ) * g := mul_nonneg hs0q hgq.le
    have h2 : (p' - p) * np < ((g : ℚ) - 3) * np := by nlinarith
    have h3 : p' - p < (g : ℚ) - 3 := lt_of_mul_lt_mul_right h2 hnq.le
    have : ((rhe (p' + off) : Int) : ℚ) < ((rhe (p + off) : Int) : ℚ) + (g : ℚ) - 2 := by linarith
    have : rhe (p' + off) < rhe (p + off) + (g : Int) - 2 := by exact_mod_cast this
    omega
  · -- the upper stripe is the last one (closed at g); then the lower stripe is odd, so p ≥ 3
    have hs' : s' = (np : Int) - 1 := by omega
    have hs1 : 1 ≤ s := by
      obtain ⟨k, hk⟩ := hnp2
      omega
    have hs1q : (1 : ℚ) ≤ ((s : Int) : ℚ) := by exact_mod_cast hs1
    have hp3 : 3 ≤ p := by
      have h1 : (1 : ℚ) * g ≤ ((s : Int) : ℚ) * g := mul_le_mul_of_nonneg_right hs1q hgq.le
      have h2 : (3 : ℚ) * np ≤ p * np := by linarith
      exact le_of_mul_le_mul_right h2 hnq
    rcases lt_trichotomy off (1/2) with hoff | hoff | hoff
    · have h1 : ((rhe (p' + off) : Int) : ℚ) < (g : ℚ) + 1 := by linarith
      have h1 : rhe (p' + off) < (g : Int) + 1 := by exact_mod_cast h1
      have h2 : (2 : ℚ) < ((rhe (p + off) : Int) : ℚ) := by linarith
      have h2 : 2 < rhe (p + off) := by exact_mod_cast h2
      omega
    · have h1 : ((rhe (p' + off) : Int) : ℚ) ≤ (g : ℚ) + 1 := by linarith
      have h1 : rhe (p' + off) ≤ (g : Int) + 1 := by exact_mod_cast h1
      have h2 : rhe (7/2) ≤ rhe (p + off) := rhe_mono (by linarith)
      rw [rhe_seven_halves] at h2
      omega
    · have h1 : ((rhe (p' + off) : Int) : ℚ) < (g : ℚ) + 2 := by linarith
      have h1 : rhe (p' + off) < (g : Int) + 2 := by exact_mod_cast h1
      have h2 : (3 : ℚ) < ((rhe (p + off) : Int) : ℚ) := by linarith
      have h2 : 3 < rhe (p + off) := by exact_mod_cast h2
      omega

/-- one wrapped index: `_rightwrap` then the Python index rule, for `j ≥ -1` -/
theorem wrap_spec (g : Nat) (hg : 0 < g) (j : Int) (hj : -1 ≤ j) :
    ∃ r, idx g (rightwrap g j) = .ok r ∧ r < g ∧ ∃ k : Int, (r : Int) = j + k * g := by
  have hgi : (0 : Int) < g := by exact_mod_cast hg
  by_cases h0 : 0 ≤ j
  · have hm0 : 0 ≤ j % (g : Int) := Int.emod_nonneg j (by omega)
    have hml : j % (g : Int) < g := Int.emod_lt_of_pos j hgi
    refine ⟨(j % (g : Int)).toNat, ?_, by omega, -(j / (g : Int)), ?_⟩
    · unfold rightwrap idx pyIndex
      simp only [h0, if_true, hm0]
      have : (j % (g : Int)).toNat < g := by omega
      simp [this]
    · have := Int.emod_def j g
      rw [Int.toNat_of_nonneg hm0, this]; ring
  · have hj1 : j = -1 := by omega
    subst hj1
    refine ⟨g - 1, ?_, by omega, 1, by omega⟩
    unfold rightwrap idx
    simp only [h0, if_false]
    rw [pyIndex_neg_one hg]

/-- the three rows of a particle at a non-negative coordinate -/
theorem rowsOf_spec (g : Nat) (hg : 0 < g) (u : ℚ) (hu : 0 ≤ u) :
    ∃ r, rowsOf g u = .ok r ∧ ∀ x ∈ r, x < g ∧ ∃ d k : Int, -1 ≤ d ∧ d ≤ 1 ∧ (x : Int) = rhe u + d + k * g := by
  have hi : 0 ≤ rhe u := by
    have := rhe_mono hu
    rwa [show rhe (0 : ℚ) = 0 from rhe_int 0] at this
  obtain ⟨r1, h1, hl1, k1, hk1⟩ := wrap_spec g hg (rhe u + -1) (by omega)
  obtain ⟨r2, h2, hl2, k2, hk2⟩ := wrap_spec g hg (rhe u + 0) (by omega)
  obtain ⟨r3, h3, hl3, k3, hk3⟩ := wrap_spec g hg (rhe u + 1) (by omega)
  refine ⟨[r1, r2, r3], ?_, ?_⟩
  · unfold rowsOf
    rw [add_zero] at h2
    simp [List.mapM_cons, h1, h2, h3, bind, Except.bind, pure, Except.pure]
  · intro x hx
    simp only [List.mem_cons, List.not_mem_nil, or_false] at hx
    rcases hx with rfl | rfl | rfl
    · exact ⟨hl1, -1, k1, by omega, by omega, hk1⟩
    · exact ⟨hl2, 0, k2, by omega, by omega, hk2⟩
    · exact ⟨hl3, 1, k3, by omega, by omega, hk3⟩

theorem rows_disjoint_lt (g np : Nat) (hnp : 2 ∣ np) (hw : 3 * np ≤ g) (off : ℚ) (ho0 : 0 ≤ off) (ho1 : off ≤ 1)
    (p p' : ℚ) (hp0 : 0 ≤ p) (hp0' : 0 ≤ p') (hpg' : p' ≤ g)
    (hs : stripeOf np g p < stripeOf np g p')
    (hpar : stripeOf np g p % 2 = stripeOf np g p' % 2) :
    ∃ r r', rowsOf g (p + off) = .ok r ∧ rowsOf g (p' + off) = .ok r' ∧ ∀ x ∈ r, x ∉ r' := by
  obtain ⟨hlo, hhi⟩ := rhe_gap g np hnp hw off ho0 ho1 p p' hp0 hp0' hpg' hs hpar
  have hg : 0 < g := by
    by_contra h
    have hg0 : g = 0 := by omega
    have : np = 0 := by omega
    subst this
    unfold stripeOf at hs
    simp at hs
  obtain ⟨r, hr, hrs⟩ := rowsOf_spec g hg (p + off) (by linarith)
  obtain ⟨r', hr', hrs'⟩ := rowsOf_spec g hg (p' + off) (by linarith)
  refine ⟨r, r', hr, hr', ?_⟩
  intro x hx hx'
  obtain ⟨_, d, k, hd1, hd2, hxk⟩ := hrs x hx
  obtain ⟨_, d', k', hd1', hd2', hxk'⟩ := hrs' x hx'
  -- (k - k') * g = (i' - i) + (d' - d) lies strictly between 0 and g
  have hgi : (0 : Int) < g := by exact_mod_cast hg
  have heq : (k - k') * (g : Int) = rhe (p' + off) - rhe (p + off) + (d' - d) := by
    have : rhe (p + off) + d + k * g = rhe (p' + off) + d' + k' * g := by rw [← hxk, ← hxk']
    linarith
  have h1 : 1 ≤ (k - k') * (g : Int) := by omega
  have h2 : (k - k') * (g : Int) ≤ g - 1 := by omega
  rcases le_or_gt (k - k') 0 with hk | hk
  · have : (k - k') * (g : Int) ≤ 0 := mul_nonpos_of_nonpos_of_nonneg hk hgi.le
    omega
  · have : (g : Int) ≤ (k - k') * (g : Int) := le_mul_of_one_le_left hgi.le (by omega)
    omega

/-- (core of `rows_disjoint`, Props/C07.lean)  Even number of stripes, each at least three cells wide, offset between 0 and one cell:
two particles of distinct stripes of equal parity (the stripes one loop of `_tsc_parallel` processes
concurrently) touch disjoint sets of rows, also across the periodic boundary and with the last stripe
closed at `g`. -/
theorem rows_disjoint_core (g np : Nat) (hnp : 2 ∣ np) (hw : 3 * np ≤ g) (off : ℚ) (ho0 : 0 ≤ off) (ho1 : off ≤ 1)
    (p p' : ℚ) (hp0 : 0 ≤ p) (hpg : p ≤ g) (hp0' : 0 ≤ p') (hpg' : p' ≤ g)
    (hs : stripeOf np g p ≠ stripeOf np g p')
    (hpar : stripeOf np g p % 2 = stripeOf np g p' % 2) :
    ∃ r r', rowsOf g (p + off) = .ok r ∧ rowsOf g (p' + off) = .ok r' ∧ ∀ x ∈ r, x ∉ r' := by
  rcases lt_or_gt_of_ne hs with h | h
  · exact rows_disjoint_lt g np hnp hw off ho0 ho1 p p' hp0 hp0' hpg' h hpar
  · obtain ⟨r', r, hr', hr, hd⟩ := rows_disjoint_lt g np hnp hw off ho0 ho1 p' p hp0' hp0 hpg h hpar.symm
    exact ⟨r, r', hr, hr', fun x hx hx' => hd x hx' hx⟩

end AbacusVerif.TscPar
