/-
  Lemmas about `rhe` (round half to even) over ℚ.
-/
import AbacusVerif.Model.Num
import Mathlib.Data.Rat.Floor
import Mathlib.Tactic.Linarith
import Mathlib.Tactic.Ring

namespace AbacusVerif

theorem rat_floor_eq (x : ℚ) : x.floor = ⌊x⌋ := rfl

theorem rhe_eq (x : ℚ) : rhe x =
    if x - ((⌊x⌋ : ℤ) : ℚ) < 1/2 then ⌊x⌋
    else if 1/2 < x - ((⌊x⌋ : ℤ) : ℚ) then ⌊x⌋ + 1
    else if ⌊x⌋ % 2 = 0 then ⌊x⌋ else ⌊x⌋ + 1 := rfl

theorem rhe_cases (x : ℚ) : rhe x = ⌊x⌋ ∨ rhe x = ⌊x⌋ + 1 := by
  rw [rhe_eq]
  split_ifs <;> simp

/-- the rounded value is within half a unit -/
theorem rhe_close (x : ℚ) : |((rhe x : ℤ) : ℚ) - x| ≤ 1/2 := by
  have h1 := Int.floor_le x
  have h2 := Int.lt_floor_add_one x
  rw [rhe_eq, abs_le]
  split_ifs with ha hb hc <;> push_cast <;> constructor <;> linarith

theorem rhe_lower (x : ℚ) : x - 1/2 ≤ ((rhe x : ℤ) : ℚ) := by
  have := (abs_le.mp (rhe_close x)).1; linarith

theorem rhe_upper (x : ℚ) : ((rhe x : ℤ) : ℚ) ≤ x + 1/2 := by
  have := (abs_le.mp (rhe_close x)).2; linarith

/-- rounding is monotone -/
theorem rhe_mono {x y : ℚ} (h : x ≤ y) : rhe x ≤ rhe y := by
  by_contra hlt
  push_neg at hlt
  -- rhe y + 1 ≤ rhe x, but rhe x ≤ x + 1/2 ≤ y + 1/2 and rhe y ≥ y - 1/2: so rhe x - rhe y ≤ 1, hence = 1 and both ties
  have hx := rhe_upper x
  have hy := rhe_lower y
  have h1 : ((rhe y : ℤ) : ℚ) + 1 ≤ ((rhe x : ℤ) : ℚ) := by exact_mod_cast hlt
  have hxy : x = y := by linarith
  subst hxy
  omega

/-- an integer rounds to itself -/
theorem rhe_int (n : ℤ) : rhe (n : ℚ) = n := by
  rw [rhe_eq]
  simp

/-- if `b - a > 3` then the rounded values are at least 3 apart (stripe separation, C07) -/
theorem rhe_sep {a b : ℚ} (h : 3 < b - a) : rhe a + 3 ≤ rhe b := by
  have ha := rhe_upper a
  have hb := rhe_lower b
  have : ((rhe a : ℤ) : ℚ) + 2 < ((rhe b : ℤ) : ℚ) := by linarith
  have : rhe a + 2 < rhe b := by exact_mod_cast this
  omega

end AbacusVerif
