/-
  Helper lemmas for the pipe_asdf framing model (Props/C20.lean holds the property theorems).
-/
import AbacusVerif.Model.C20

namespace AbacusVerif.Pipe
open AbacusVerif

/-! ### little-endian integers -/

theorem leBytes_length (k n : Nat) : (leBytes k n).length = k := by
  induction k generalizing n with
  | zero => rfl
  | succ k ih => simp [leBytes, ih]

theorem leVal_leBytes (k n : Nat) (h : n < 256 ^ k) : leVal (leBytes k n) = n := by
  induction k generalizing n with
  | zero => simp at h; subst h; rfl
  | succ k ih =>
    have h' : n / 256 < 256 ^ k := by
      rw [Nat.pow_succ] at h
      omega
    simp only [leBytes, leVal, ih (n / 256) h', UInt8.toNat_ofNat']
    omega

theorem le64_length (n : Nat) : (le64 n).length = 8 := leBytes_length 8 n
theorem le32_length (n : Nat) : (le32 n).length = 4 := leBytes_length 4 n

theorem leVal_le64 (n : Nat) (h : n < 2 ^ 64) : leVal (le64 n) = n :=
  leVal_leBytes 8 n (by simpa using h)

theorem leVal_le32 (n : Nat) (h : n < 2 ^ 32) : leVal (le32 n) = n :=
  leVal_leBytes 4 n (by simpa using h)

/-! ### the client reads back one record -/

theorem parse_step (n count width : Nat) (payload rest : Bytes) (hc : count < 2 ^ 64)
    (hw : width < 2 ^ 32) (hp : payload.length = count * width) :
    parse (n + 1) (le64 count ++ (le32 width ++ (payload ++ rest))) =
      match parse n rest with
      | none => none
      | some recs => some ((count, width, payload) :: recs) := by
  have h8 := le64_length count
  have h4 := le32_length width
  have e1 : (le64 count ++ (le32 width ++ (payload ++ rest))).take 8 = le64 count :=
    List.take_left' h8
  have e2 : (le64 count ++ (le32 width ++ (payload ++ rest))).drop 8 = le32 width ++ (payload ++ rest) :=
    List.drop_left' h8
  have e3 : (le32 width ++ (payload ++ rest)).take 4 = le32 width := List.take_left' h4
  have e4 : (le64 count ++ (le32 width ++ (payload ++ rest))).drop 12 = payload ++ rest := by
    rw [show 12 = 8 + 4 from rfl, ← List.drop_drop, e2, List.drop_left' h4]
  have hlen : ¬ (le64 count ++ (le32 width ++ (payload ++ rest))).length < 12 := by
    simp [h8, h4]; omega
  rw [parse]
  simp only [hlen, if_false, e1, e2, e3, e4, leVal_le64 count hc, leVal_le32 width hw]
  have hb : ¬ (payload ++ rest).length < payload.length := by simp
  simp only [← hp, hb, if_false, List.drop_left, List.take_left]
  cases parse n rest <;> rfl

/-! ### validation -/

theorem firstMissingFile_none {files : List (Option Tree)} {i : Nat} :
    firstMissingFile files i = none ↔ ∀ f ∈ files, f ≠ none := by
  induction files generalizing i with
  | nil => simp [firstMissingFile]
  | cons f rest ih =>
    cases f with
    | none => simp [firstMissingFile]
    | some t => simp [firstMissingFile, ih]

theorem firstMissingFile_some {files : List (Option Tree)} {i k : Nat}
    (h : firstMissingFile files i = some k) :
    i ≤ k ∧ files[k - i]? = some none ∧ ∀ j, j < k - i → ∃ t, files[j]? = some (some t) := by
  induction files generalizing i with
  | nil => simp [firstMissingFile] at h
  | cons f rest ih =>
    cases f with
    | none =>
      simp only [firstMissingFile, Option.some.injEq] at h
      subst h
      simp
    | some t =>
      simp only [firstMissingFile] at h
      obtain ⟨h1, h2, h3⟩ := ih h
      refine ⟨by omega, ?_, ?_⟩
      · rw [show k - i = (k - (i + 1)) + 1 by omega]
        simpa using h2
      · intro j hj
        cases j with
        | zero => exact ⟨t, rfl⟩
        | succ j =>
          obtain ⟨t', ht'⟩ := h3 j (by omega)
          exact ⟨t', by simpa using ht'⟩

theorem mem_openAll {files : List (Option Tree)} {t : Tree} :
    t ∈ openAll files ↔ some t ∈ files := by
  induction files with
  | nil => simp [openAll]
  | cons f rest ih =>
    cases f with
    | none => simp [openAll, ih]
    | some u => simp [openAll, ih]

theorem openAll_ne_nil {files : List (Option Tree)} (hne : files ≠ [])
    (hall : ∀ f ∈ files, f ≠ none) : openAll files ≠ [] := by
  cases files with
  | nil => contradiction
  | cons f rest =>
    cases f with
    | none => exact absurd rfl (hall none (by simp))
    | some t => simp [openAll]

theorem firstMissingField_none {t : Tree} {fields : List String} :
    firstMissingField t fields = none ↔ ∀ f ∈ fields, (t.lookup f).isSome := by
  induction fields with
  | nil => simp [firstMissingField]
  | cons f fs ih =>
    unfold firstMissingField
    cases hl : t.lookup f with
    | none =>
      simp only [Option.isNone_none, if_true]
      constructor
      · intro h; cases h
      · intro h
        have := h f (by simp)
        rw [hl] at this
        cases this
    | some c =>
      simp only [Option.isNone_some, Bool.false_eq_true, if_false]
      rw [ih]
      constructor
      · intro h g hg
        rcases List.mem_cons.mp hg with rfl | hg
        · rw [hl]; rfl
        · exact h g hg
      · intro h g hg
        exact h g (List.mem_cons_of_mem _ hg)

theorem firstMissingField_some {t : Tree} {fields : List String} {f : String}
    (h : firstMissingField t fields = some f) : f ∈ fields ∧ t.lookup f = none := by
  induction fields with
  | nil => simp [firstMissingField] at h
  | cons g gs ih =>
    by_cases hg : (t.lookup g).isNone
    · simp only [firstMissingField, hg, if_true, Option.some.injEq] at h
      subst h
      exact ⟨by simp, by simpa using hg⟩
    · simp only [firstMissingField, hg] at h
      obtain ⟨h1, h2⟩ := ih h
      exact ⟨by simp [h1], h2⟩

theorem validateFields_none {afs : List Tree} {i : Nat} {fields : List String} :
    validateFields afs i fields = none ↔ ∀ t ∈ afs, ∀ f ∈ fields, (t.lookup f).isSome := by
  induction afs generalizing i with
  | nil => simp [validateFields]
  | cons t rest ih =>
    unfold validateFields
    cases hm : firstMissingField t fields with
    | none =>
      simp only []
      rw [ih]
      constructor
      · intro h u hu
        rcases List.mem_cons.mp hu with rfl | hu
        · exact firstMissingField_none.mp hm
        · exact h u hu
      · intro h u hu
        exact h u (List.mem_cons_of_mem _ hu)
    | some f =>
      obtain ⟨h1, h2⟩ := firstMissingField_some hm
      simp only []
      constructor
      · intro h; cases h
      · intro h
        have := h t (by simp) f h1
        rw [h2] at this
        cases this

theorem validateFields_some {afs : List Tree} {i : Nat} {fields : List String} {e : Err}
    (h : validateFields afs i fields = some e) :
    ∃ k f t, e = .missingField k f ∧ i ≤ k ∧ f ∈ fields ∧ afs[k - i]? = some t ∧ t.lookup f = none := by
  induction afs generalizing i with
  | nil => simp [validateFields] at h
  | cons t rest ih =>
    cases hm : firstMissingField t fields with
    | some f =>
      simp only [validateFields, hm, Option.some.injEq] at h
      obtain ⟨h1, h2⟩ := firstMissingField_some hm
      exact ⟨i, f, t, h.symm, Nat.le_refl _, h1, by simp, h2⟩
    | none =>
      simp only [validateFields, hm] at h
      obtain ⟨k, f, u, he, hk, hf, hu, hl⟩ := ih h
      refine ⟨k, f, u, he, by omega, hf, ?_, hl⟩
      rw [show k - i = (k - (i + 1)) + 1 by omega]
      simpa using hu

/-! ### one field -/

/-- the field's column in every file that has it, in file order -/
def colsTotal (afs : List Tree) (f : String) : List Column := afs.filterMap (fun t => t.lookup f)

theorem columnsOf_eq {afs : List Tree} {f : String} (h : ∀ t ∈ afs, (t.lookup f).isSome) :
    columnsOf afs f = some (colsTotal afs f) := by
  induction afs with
  | nil => rfl
  | cons t rest ih =>
    have ht := h t (by simp)
    obtain ⟨c, hc⟩ := Option.isSome_iff_exists.mp ht
    have := ih (fun u hu => h u (by simp [hu]))
    simp [columnsOf, hc, this, colsTotal]

theorem colsTotal_ne_nil {afs : List Tree} {f : String} (hne : afs ≠ [])
    (h : ∀ t ∈ afs, (t.lookup f).isSome) : colsTotal afs f ≠ [] := by
  cases afs with
  | nil => contradiction
  | cons t rest =>
    obtain ⟨c, hc⟩ := Option.isSome_iff_exists.mp (h t (by simp))
    simp [colsTotal, hc]

theorem mem_colsTotal {afs : List Tree} {f : String} {c : Column} :
    c ∈ colsTotal afs f ↔ ∃ t ∈ afs, t.lookup f = some c := by
  simp [colsTotal]

theorem raw_total (cols : List Column) (w : Nat)
    (h : ∀ c ∈ cols, c.raw.length = c.count * w) :
    ((cols.map (·.raw)).flatten).length = (cols.map Column.count).sum * w := by
  induction cols with
  | nil => simp
  | cons c cs ih =>
    have h1 := h c (by simp)
    have h2 := ih (fun d hd => h d (by simp [hd]))
    simp only [List.map_cons, List.flatten_cons, List.length_append, List.sum_cons, h1, h2]
    rw [Nat.add_mul]

theorem fieldRecord_ok {afs : List Tree} {f : String} {w : Nat} (hne : afs ≠ [])
    (hpres : ∀ t ∈ afs, (t.lookup f).isSome)
    (hshape : ∀ c ∈ colsTotal afs f, c.shape ≠ [])
    (hw : ∀ c ∈ colsTotal afs f, c.itemsize = w) :
    fieldRecord afs f = .ok (le64 ((colsTotal afs f).map Column.count).sum ++
      (le32 w ++ ((colsTotal afs f).map (·.raw)).flatten)) := by
  have hcne := colsTotal_ne_nil hne hpres
  have hany : (colsTotal afs f).any (fun c => c.shape.isEmpty) = false := by
    rw [List.any_eq_false]
    intro c hc
    simp [hshape c hc]
  obtain ⟨last, hlast⟩ : ∃ last, (colsTotal afs f).getLast? = some last := by
    cases h : (colsTotal afs f).getLast? with
    | none => exact absurd (List.getLast?_eq_none_iff.mp h) hcne
    | some l => exact ⟨l, rfl⟩
  have hmem : last ∈ colsTotal afs f := List.mem_of_getLast? hlast
  simp [fieldRecord, columnsOf_eq hpres, hany, hlast, hw last hmem]

/-- the IO loop never raises a validation error -/
theorem emitFields_err {afs : List Tree} {fields : List String} {e : Err}
    (h : (emitFields afs fields).err = some e) :
    e = .keyError ∨ e = .indexError ∨ e = .unboundWidth := by
  induction fields with
  | nil => simp [emitFields] at h
  | cons f fs ih =>
    unfold emitFields at h
    cases hr : fieldRecord afs f with
    | ok rec =>
      rw [hr] at h
      exact ih h
    | error pe =>
      rw [hr] at h
      simp only [Option.some.injEq] at h
      subst h
      unfold fieldRecord at hr
      split at hr
      · cases hr; simp
      · split at hr
        · split at hr <;> cases hr <;> simp
        · split at hr
          · cases hr; simp
          · cases hr

/-! ### valid requests and what the client must see -/

/-- a valid request: at least one file, all files exist, every requested field is in every file,
every such column is at least 1-D and holds `count · itemsize` bytes, all files agree on the item
width `w f` of field `f`, and count and width fit the int64 / int32 headers -/
structure Valid (files : List (Option Tree)) (fields : List String) (w : String → Nat) : Prop where
  nonempty : files ≠ []
  allExist : ∀ f ∈ files, f ≠ none
  present : ∀ t ∈ openAll files, ∀ f ∈ fields, (t.lookup f).isSome
  shaped : ∀ f ∈ fields, ∀ c ∈ colsTotal (openAll files) f,
    c.shape ≠ [] ∧ c.raw.length = c.count * c.itemsize
  width : ∀ f ∈ fields, ∀ c ∈ colsTotal (openAll files) f, c.itemsize = w f
  widthFits : ∀ f ∈ fields, w f < 2 ^ 31
  countFits : ∀ f ∈ fields, ((colsTotal (openAll files) f).map Column.count).sum < 2 ^ 63

/-- the record the client must read for field `f`: total element count over the files, item
width, and the per-file raw bytes concatenated in file order -/
def record (afs : List Tree) (w : String → Nat) (f : String) : Nat × Nat × Bytes :=
  (((colsTotal afs f).map Column.count).sum, w f, ((colsTotal afs f).map (·.raw)).flatten)

theorem record_length {files : List (Option Tree)} {fields : List String} {w : String → Nat}
    (hv : Valid files fields w) {f : String} (hf : f ∈ fields) :
    (record (openAll files) w f).2.2.length =
      (record (openAll files) w f).1 * (record (openAll files) w f).2.1 := by
  simp only [record]
  apply raw_total
  intro c hc
  rw [(hv.shaped f hf c hc).2, hv.width f hf c hc]

theorem emitFields_parse {files : List (Option Tree)} {w : String → Nat} :
    ∀ (fields : List String), Valid files fields w →
    ∃ bytes, emitFields (openAll files) fields = ⟨bytes, none, true⟩ ∧
      parse fields.length bytes = some (fields.map (record (openAll files) w)) := by
  intro fields
  induction fields with
  | nil => intro _; exact ⟨[], rfl, rfl⟩
  | cons f fs ih =>
    intro hv
    have hv' : Valid files fs w :=
      { nonempty := hv.nonempty, allExist := hv.allExist
        present := fun t ht g hg => hv.present t ht g (List.mem_cons_of_mem _ hg)
        shaped := fun g hg => hv.shaped g (List.mem_cons_of_mem _ hg)
        width := fun g hg => hv.width g (List.mem_cons_of_mem _ hg)
        widthFits := fun g hg => hv.widthFits g (List.mem_cons_of_mem _ hg)
        countFits := fun g hg => hv.countFits g (List.mem_cons_of_mem _ hg) }
    obtain ⟨bytes, he, hp⟩ := ih hv'
    have hf : f ∈ f :: fs := by simp
    have hrec := fieldRecord_ok (w := w f) (openAll_ne_nil hv.nonempty hv.allExist)
      (fun t ht => hv.present t ht f hf) (fun c hc => (hv.shaped f hf c hc).1) (hv.width f hf)
    refine ⟨_, by simp only [emitFields, hrec, he]; rfl, ?_⟩
    have hlen := record_length hv hf
    simp only [record] at hlen
    simp only [List.length_cons, List.append_assoc, List.map_cons]
    rw [parse_step _ _ _ _ _ (by have := hv.countFits f hf; omega)
      (by have := hv.widthFits f hf; omega) hlen, hp]
    simp [record]

end AbacusVerif.Pipe
