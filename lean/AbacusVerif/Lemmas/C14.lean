/-
  Helper lemmas for the blosc framing model (Props/C14.lean holds the property theorems).

  The heart is `loop_spec`: the relation `Rel st r qs` ("state `st`, with `r` still to be read,
  is owed exactly the payloads `qs`") is preserved by every iteration of `while len(block)`, and
  the payloads handed to the codec are peeled off the front of `qs`.
-/
import AbacusVerif.Model.C14

namespace AbacusVerif.Blsc
open AbacusVerif

/-! ### length prefix -/

theorem be32_length (n : Nat) : (be32 n).length = 4 := rfl

theorem unpack_be32 (n : Nat) (h : n < 2 ^ 32) : unpackBE32 (be32 n) = .ok n := by
  unfold be32 unpackBE32
  simp only [UInt8.toNat_ofNat']
  congr 1
  omega

theorem stream_nil : stream [] = [] := rfl

theorem stream_cons (p : Bytes) (qs : List Bytes) :
    stream (p :: qs) = be32 p.length ++ (p ++ stream qs) := by
  simp [stream, frame]

theorem stream_append (a b : List Bytes) : stream (a ++ b) = stream a ++ stream b := by
  simp [stream]

theorem stream_length_cons (p : Bytes) (qs : List Bytes) :
    (stream (p :: qs)).length = 4 + p.length + (stream qs).length := by
  rw [stream_cons]; simp [be32_length]; omega

theorem WF_cons {p : Bytes} {qs : List Bytes} (h : WF (p :: qs)) :
    p ≠ [] ∧ p.length < 2 ^ 32 ∧ WF qs := by
  refine ⟨(h p (by simp)).1, (h p (by simp)).2, ?_⟩
  intro q hq
  exact h q (by simp [hq])

theorem WF_append_right {a b : List Bytes} (h : WF (a ++ b)) : WF b := by
  intro q hq
  exact h q (by simp [hq])

/-- a stream shorter than 4 bytes carries no frame at all -/
theorem stream_short {qs : List Bytes} (h : (stream qs).length < 4) : qs = [] := by
  cases qs with
  | nil => rfl
  | cons p qs => rw [stream_length_cons] at h; omega

/-- splitting `pl ++ block ++ r` at the end of a 4-byte prefix of which `pl` is already held -/
theorem prefix_split {pl block r rest : Bytes} {n : Nat}
    (h : pl ++ (block ++ r) = be32 n ++ rest) (hpl : pl.length ≤ 4)
    (h4 : 4 ≤ pl.length + block.length) :
    pl ++ block.take (4 - pl.length) = be32 n ∧ block.drop (4 - pl.length) ++ r = rest := by
  have e : (pl ++ block.take (4 - pl.length)) ++ (block.drop (4 - pl.length) ++ r) = be32 n ++ rest := by
    rw [← h]
    simp only [List.append_assoc]
    congr 1
    rw [← List.append_assoc, List.take_append_drop]
  apply List.append_inj e
  simp [be32_length, List.length_take]
  omega

/-! ### the relation between a state, the unread input and the payloads still owed -/

inductive Rel : St → Bytes → List Bytes → Prop
  | idle (pl r : Bytes) (qs : List Bytes) (pos : Nat) :
      pl.length < 4 → pl ++ r = stream qs → Rel ⟨0, pl, none, pos⟩ r qs
  | buffering (p b r : Bytes) (qs : List Bytes) :
      b.length < p.length → b ++ r = p ++ stream qs →
      Rel ⟨p.length, [], some b, b.length⟩ r (p :: qs)

theorem Rel_init (ps : List Bytes) : Rel St.init (stream ps) ps :=
  Rel.idle [] (stream ps) ps 0 (by simp) (by simp)

/-! ### the branches of one iteration -/

theorem loop_nil (fuel : Nat) (st : St) : loop fuel st [] = .ok (st, []) := by
  cases fuel <;> rfl

theorem loop_succ {fuel : Nat} {st : St} {block : Bytes} (h : block ≠ []) :
    loop (fuel + 1) st block =
      match readPrefix st block with
      | .error e => .error e
      | .ok (.brk st') => .ok (st', [])
      | .ok (.go st' block') =>
        match loop fuel (body st' block').1 (body st' block').2.1 with
        | .error e => .error e
        | .ok (st'', out) => .ok (st'', (body st' block').2.2 ++ out) := by
  cases block with
  | nil => contradiction
  | cons b bs => rfl

theorem readPrefix_partial {pl block : Bytes} {pos : Nat} (h : pl.length + block.length < 4) :
    readPrefix ⟨0, pl, none, pos⟩ block = .ok (.brk ⟨0, pl ++ block, none, pos⟩) := by
  simp [readPrefix, h]

theorem readPrefix_full {pl block : Bytes} {pos n : Nat} (hpl : pl.length < 4)
    (h4 : 4 ≤ pl.length + block.length) (hn : n < 2 ^ 32)
    (hs : pl ++ block.take (4 - pl.length) = be32 n) :
    readPrefix ⟨0, pl, none, pos⟩ block = .ok (.go ⟨n, [], none, pos⟩ (block.drop (4 - pl.length))) := by
  have h4' : ¬ pl.length + block.length < 4 := by omega
  by_cases hnil : pl = []
  · subst hnil
    simp only [List.length_nil, Nat.sub_zero, List.nil_append, Nat.zero_add] at hs h4 h4'
    simp [readPrefix, hs, unpack_be32 n hn, h4']
  · have hrem : 4 - pl.length ≠ 0 := by omega
    simp [readPrefix, h4', hnil, hrem, hs, unpack_be32 n hn]

theorem readPrefix_known {st : St} {block : Bytes} (h : st.size ≠ 0) :
    readPrefix st block = .ok (.go st block) := by
  simp [readPrefix, h]

theorem body_short {n pos : Nat} {block : Bytes} (h : block.length < n) :
    body ⟨n, [], none, pos⟩ block = (⟨n, [], some block, block.length⟩, [], []) := by
  have hmin : min n block.length = block.length := by omega
  have hne : block.length ≠ n := by omega
  simp [body, h, hmin, hne]

theorem body_direct {n pos : Nat} {block : Bytes} (h : n ≤ block.length) :
    body ⟨n, [], none, pos⟩ block = (⟨0, [], none, pos⟩, block.drop n, [block.take n]) := by
  have h' : ¬ block.length < n := by omega
  simp [body, h']

theorem body_fill_done {n : Nat} {b block : Bytes} (hb : b.length < n)
    (h : n - b.length ≤ block.length) :
    body ⟨n, [], some b, b.length⟩ block =
      (⟨0, [], none, n⟩, block.drop (n - b.length), [b ++ block.take (n - b.length)]) := by
  have hmin : min (n - b.length) block.length = n - b.length := by omega
  have hpos : b.length + (n - b.length) = n := by omega
  simp [body, hmin, hpos]

theorem body_fill_more {n : Nat} {b block : Bytes} (h : b.length + block.length < n) :
    body ⟨n, [], some b, b.length⟩ block =
      (⟨n, [], some (b ++ block), b.length + block.length⟩, [], []) := by
  have hmin : min (n - b.length) block.length = block.length := by omega
  have hne : b.length + block.length ≠ n := by omega
  simp [body, hmin, hne]

/-! ### the loop invariant -/

theorem loop_spec : ∀ (fuel : Nat) (st : St) (block r : Bytes) (qs : List Bytes),
    WF qs → Rel st (block ++ r) qs → block.length ≤ fuel →
    ∃ st' out qs', loop fuel st block = .ok (st', out) ∧ qs = out ++ qs' ∧ Rel st' r qs' := by
  intro fuel
  induction fuel with
  | zero =>
    intro st block r qs _ hrel hlen
    have : block = [] := List.eq_nil_of_length_eq_zero (by omega)
    subst this
    exact ⟨st, [], qs, loop_nil 0 st, by simp, by simpa using hrel⟩
  | succ fuel ih =>
    intro st block r qs hwf hrel hlen
    by_cases hbne : block = []
    · subst hbne
      exact ⟨st, [], qs, loop_nil _ st, by simp, by simpa using hrel⟩
    have hbpos : 0 < block.length := List.length_pos_iff.mpr hbne
    rw [loop_succ hbne]
    cases hrel with
    | idle pl _ _ pos hpl hstream =>
      by_cases hshort : pl.length + block.length < 4
      · -- partial prefix: the chunk ends inside the length prefix
        rw [readPrefix_partial hshort]
        refine ⟨_, [], qs, rfl, by simp, ?_⟩
        exact Rel.idle (pl ++ block) r qs pos (by simp; omega) (by simpa using hstream)
      · -- the prefix is completed in this chunk
        have h4 : 4 ≤ pl.length + block.length := by omega
        have hqs : qs ≠ [] := by
          intro h
          subst h
          have := congrArg List.length hstream
          rw [stream_nil] at this
          simp only [List.length_append, List.length_nil] at this
          omega
        obtain ⟨p, qs', rfl⟩ := List.exists_cons_of_ne_nil hqs
        obtain ⟨hpne, hp32, hwf'⟩ := WF_cons hwf
        rw [stream_cons] at hstream
        obtain ⟨hs1, hs2⟩ := prefix_split hstream (by omega) h4
        rw [readPrefix_full hpl h4 hp32 hs1]
        simp only []
        -- the payload part
        have hdl : (block.drop (4 - pl.length)).length < block.length := by
          rw [List.length_drop]; omega
        by_cases hlt : (block.drop (4 - pl.length)).length < p.length
        · -- buffer path: the chunk ends inside the payload
          rw [body_short hlt]
          simp only [loop_nil]
          refine ⟨_, [], p :: qs', rfl, by simp, ?_⟩
          exact Rel.buffering p _ r qs' hlt hs2
        · -- direct path: the whole payload is in this chunk
          have hge : p.length ≤ (block.drop (4 - pl.length)).length := by omega
          rw [body_direct hge]
          simp only []
          have e : block.drop (4 - pl.length) =
              (block.drop (4 - pl.length)).take p.length ++ (block.drop (4 - pl.length)).drop p.length :=
            (List.take_append_drop _ _).symm
          have hs3 : (block.drop (4 - pl.length)).take p.length ++
              ((block.drop (4 - pl.length)).drop p.length ++ r) = p ++ stream qs' := by
            rw [← List.append_assoc, List.take_append_drop]; exact hs2
          obtain ⟨ht, hd⟩ := List.append_inj hs3 (by
            simp only [List.length_take, List.length_drop] at hge ⊢; omega)
          obtain ⟨st', out, qs'', hl, hq, hr⟩ :=
            ih ⟨0, [], none, pos⟩ ((block.drop (4 - pl.length)).drop p.length) r qs' hwf'
              (Rel.idle [] _ qs' pos (by simp) (by simpa using hd))
              (by simp only [List.length_drop] at hdl hge ⊢; omega)
          rw [hl]
          refine ⟨st', _ :: out, qs'', rfl, ?_, hr⟩
          rw [ht, hq]; simp
    | buffering p b _ qs' hb hstream =>
      obtain ⟨hpne, hp32, hwf'⟩ := WF_cons hwf
      rw [readPrefix_known (by simp; omega)]
      simp only []
      by_cases hdone : p.length - b.length ≤ block.length
      · -- the buffer is completed by this chunk
        rw [body_fill_done hb hdone]
        simp only []
        have hs3 : (b ++ block.take (p.length - b.length)) ++
            (block.drop (p.length - b.length) ++ r) = p ++ stream qs' := by
          rw [← hstream]
          simp only [List.append_assoc]
          congr 1
          rw [← List.append_assoc, List.take_append_drop]
        obtain ⟨ht, hd⟩ := List.append_inj hs3 (by simp [List.length_take]; omega)
        obtain ⟨st', out, qs'', hl, hq, hr⟩ :=
          ih ⟨0, [], none, p.length⟩ (block.drop (p.length - b.length)) r qs' hwf'
            (Rel.idle [] _ qs' _ (by simp) (by simpa using hd))
            (by simp only [List.length_drop]; omega)
        rw [hl]
        refine ⟨st', _ :: out, qs'', rfl, ?_, hr⟩
        rw [ht, hq]; simp
      · -- still filling
        have hmore : b.length + block.length < p.length := by omega
        rw [body_fill_more hmore]
        simp only [loop_nil]
        refine ⟨_, [], p :: qs', rfl, by simp, ?_⟩
        have := Rel.buffering p (b ++ block) r qs' (by simp; omega) (by simpa using hstream)
        simpa using this

/-! ### chunks -/

theorem feed_spec {st : St} {chunk r : Bytes} {qs : List Bytes} (hwf : WF qs)
    (h : Rel st (chunk ++ r) qs) :
    ∃ st' out qs', feed st chunk = .ok (st', out) ∧ qs = out ++ qs' ∧ Rel st' r qs' :=
  loop_spec chunk.length st chunk r qs hwf h (Nat.le_refl _)

theorem feedAll_spec : ∀ (cs : List Bytes) (st : St) (acc : List Bytes) (r : Bytes) (qs : List Bytes),
    WF qs → Rel st (cs.flatten ++ r) qs →
    ∃ st' out qs', feedAll st acc cs = .ok (acc ++ out, st') ∧ qs = out ++ qs' ∧ Rel st' r qs' := by
  intro cs
  induction cs with
  | nil =>
    intro st acc r qs _ h
    exact ⟨st, [], qs, by simp [feedAll], by simp, by simpa using h⟩
  | cons c cs ih =>
    intro st acc r qs hwf h
    have h' : Rel st (c ++ (cs.flatten ++ r)) qs := by simpa using h
    obtain ⟨st1, out1, qs1, hf, hq, hr⟩ := feed_spec hwf h'
    have hwf1 : WF qs1 := WF_append_right (hq ▸ hwf)
    obtain ⟨st2, out2, qs2, hf2, hq2, hr2⟩ := ih st1 (acc ++ out1) r qs1 hwf1 hr
    refine ⟨st2, out1 ++ out2, qs2, ?_, ?_, hr2⟩
    · simp [feedAll, hf, hf2]
    · rw [hq, hq2]; simp

theorem decompress_spec {cs : List Bytes} {r : Bytes} {ps : List Bytes} (hwf : WF ps)
    (h : cs.flatten ++ r = stream ps) :
    ∃ st out qs, decompress cs = .ok (out, st) ∧ ps = out ++ qs ∧ Rel st r qs := by
  obtain ⟨st, out, qs, hf, hq, hr⟩ := feedAll_spec cs St.init [] r ps hwf (h ▸ Rel_init ps)
  exact ⟨st, out, qs, by simpa [decompress] using hf, hq, hr⟩

/-- nothing left to read: nothing is owed and the state is idle -/
theorem Rel_end {st : St} {qs : List Bytes} (h : Rel st [] qs) : qs = [] ∧ st.Idle := by
  cases h with
  | idle pl _ _ pos hpl hs =>
    have hq : qs = [] := stream_short (by rw [← hs]; simpa using hpl)
    subst hq
    have : pl = [] := by simpa [stream_nil] using hs
    subst this
    exact ⟨rfl, rfl, rfl, rfl⟩
  | buffering p b _ qs' hb hs =>
    have := congrArg List.length hs
    simp at this
    omega

/-- the bytes the state holds are exactly the consumed part of the frame in progress -/
theorem Rel_pending {st : St} {r : Bytes} {qs : List Bytes} (hwf : WF qs) (h : Rel st r qs) :
    st.pending ++ r = stream qs ∧ st.Shaped := by
  cases h with
  | idle pl _ _ pos hpl hs => exact ⟨hs, rfl, hpl⟩
  | buffering p b _ qs' hb hs =>
    obtain ⟨_, hp32, _⟩ := WF_cons hwf
    refine ⟨?_, ?_⟩
    · simp only [St.pending, stream_cons, List.append_assoc]
      rw [hs]
    · exact ⟨by simp; omega, hp32, rfl, rfl, hb⟩

theorem Rel_owed {st : St} {r : Bytes} {qs : List Bytes} (h : Rel st r qs) (hr : r ≠ []) : qs ≠ [] := by
  cases h with
  | idle pl _ _ pos hpl hs =>
    intro hq
    subst hq
    rw [stream_nil] at hs
    simp at hs
    exact hr hs.2
  | buffering p b _ qs' hb hs => simp

/-! ### output -/

theorem output_append (dec : Bytes → Bytes) (a b : List Bytes) :
    output dec (a ++ b) = output dec a ++ output dec b := by
  simp [output]

theorem bytesOut_append (dec : Bytes → Bytes) (a b : List Bytes) :
    bytesOut dec (a ++ b) = bytesOut dec a + bytesOut dec b := by
  simp [bytesOut, output_append]

theorem bytesOut_pos (dec : Bytes → Bytes) {qs : List Bytes} (hne : qs ≠ [])
    (h : ∀ q ∈ qs, dec q ≠ []) : 0 < bytesOut dec qs := by
  obtain ⟨q, qs', rfl⟩ := List.exists_cons_of_ne_nil hne
  have := List.length_pos_iff.mpr (h q (by simp))
  simp [bytesOut, output]
  omega

/-! ### compress -/

theorem blocksOf_flatten {α} (nelem : Nat) (hpos : 0 < nelem) (items : List α) :
    (blocksOf nelem items).flatten = items := by
  have key : ∀ k, ((List.range k).map (fun j => (items.drop (j * nelem)).take nelem)).flatten =
      items.take (k * nelem) := by
    intro k
    induction k with
    | zero => simp
    | succ k ih =>
      rw [List.range_succ, List.map_append, List.flatten_append, ih, Nat.succ_mul, List.take_add]
      simp
  unfold blocksOf pyRange
  rw [List.map_map]
  have := key ((items.length + nelem - 1) / nelem)
  simp only [Function.comp_def] at this ⊢
  rw [this]
  apply List.take_of_length_le
  have h1 := Nat.div_add_mod (items.length + nelem - 1) nelem
  have h2 := Nat.mod_lt (items.length + nelem - 1) hpos
  rw [Nat.mul_comm] at h1
  omega

theorem blocksOf_nonempty {α} (nelem : Nat) (hpos : 0 < nelem) (items : List α) :
    ∀ blk ∈ blocksOf nelem items, blk ≠ [] := by
  intro blk hblk
  unfold blocksOf pyRange at hblk
  simp only [List.map_map, List.mem_map, List.mem_range, Function.comp_def] at hblk
  obtain ⟨j, hj, rfl⟩ := hblk
  have h1 := Nat.div_add_mod (items.length + nelem - 1) nelem
  have h2 := Nat.mod_lt (items.length + nelem - 1) hpos
  have h3 : nelem * (j + 1) ≤ nelem * ((items.length + nelem - 1) / nelem) := Nat.mul_le_mul_left _ hj
  rw [Nat.mul_add, Nat.mul_one, Nat.mul_comm] at h3
  intro hnil
  have := congrArg List.length hnil
  simp [List.length_take, List.length_drop] at this
  omega

theorem framesOf_ok (enc : Bytes → Bytes) : ∀ (raws : List Bytes),
    (∀ raw ∈ raws, (enc raw).length < 2 ^ 32) →
    framesOf enc raws = .ok (raws.map (fun raw => frame (enc raw))) := by
  intro raws
  induction raws with
  | nil => intro _; rfl
  | cons raw rest ih =>
    intro h
    have h1 : (enc raw).length < 2 ^ 32 := h raw (by simp)
    have h2 := ih (fun x hx => h x (by simp [hx]))
    simp [framesOf, frameOf, packBE32, h1, h2, frame]

theorem flatten_frames (f : Bytes → Bytes) (raws : List Bytes) :
    (raws.map (fun raw => frame (f raw))).flatten = stream (raws.map f) := by
  simp [stream, List.flatMap_def, List.map_map, Function.comp_def]

end AbacusVerif.Blsc
