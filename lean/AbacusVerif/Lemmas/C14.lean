/-
  Helper lemmas for the blosc framing model (Props/C14.lean holds the property theorems).

  The heart is `loop_spec`: the relation `Rel st r qs` ("state `st`, with `r` still to be read,
  is owed exactly the payloads `qs`") is preserved by every iteration of `while len(block)`, and
  the payloads handed to the codec are peeled off the front of `qs`.
-/
import AbacusVerif.Model.C14

namespace AbacusVerif.Blsc
open AbacusVerif

/-! ### length prefix -/

theorem be32_length (n : Nat) : (be32 n).length = 4 := rfl

theorem unpack_be32 (n : Nat) (h : n < 2 ^ 32) : unpackBE32 (be32 n) = .ok n := by
  unfold be32 unpackBE32
  simp only [UInt8.toNat_ofNat']
  congr 1
  omega

theorem stream_nil : stream [] = [] := rfl

theorem stream_cons (p : Bytes) (qs : List Bytes) :
    stream (p :: qs) = be32 p.length ++ (p ++ stream qs) := by
  simp [stream, frame]

theorem stream_append (a b : List Bytes) : stream (a ++ b) = stream a ++ stream b := by
  simp [stream]

theorem stream_length_cons (p : Bytes) (qs : List Bytes) :
    (stream (p :: qs)).length = 4 + p.length + (stream qs).length := by
  rw [stream_cons]; simp [be32_length]; omega

theorem WF_len {ps : List Bytes} (h : WF ps) : WFlen ps := fun p hp => (h p hp).2

theorem WF_cons {p : Bytes} {qs : List Bytes} (h : WF (p :: qs)) :
    p ≠ [] ∧ p.length < 2 ^ 32 ∧ WF qs := by
  refine ⟨(h p (by simp)).1, (h p (by simp)).2, ?_⟩
  intro q hq
  exact h q (by simp [hq])

theorem WFlen_cons {p : Bytes} {qs : List Bytes} (h : WFlen (p :: qs)) :
    p.length < 2 ^ 32 ∧ WFlen qs :=
  ⟨h p (by simp), fun q hq => h q (by simp [hq])⟩

theorem WFlen_append_right {a b : List Bytes} (h : WFlen (a ++ b)) : WFlen b :=
  fun q hq => h q (by simp [hq])

theorem WFlen_append_left {a b : List Bytes} (h : WFlen (a ++ b)) : WFlen a :=
  fun q hq => h q (by simp [hq])

/-- a stream shorter than 4 bytes carries no frame at all -/
theorem stream_short {qs : List Bytes} (h : (stream qs).length < 4) : qs = [] := by
  cases qs with
  | nil => rfl
  | cons p qs => rw [stream_length_cons] at h; omega

/-- splitting `pl ++ block ++ r` at the end of a 4-byte prefix of which `pl` is already held -/
theorem prefix_split {pl block r rest : Bytes} {n : Nat}
    (h : pl ++ (block ++ r) = be32 n ++ rest) (hpl : pl.length ≤ 4)
    (h4 : 4 ≤ pl.length + block.length) :
    pl ++ block.take (4 - pl.length) = be32 n ∧ block.drop (4 - pl.length) ++ r = rest := by
  have e : (pl ++ block.take (4 - pl.length)) ++ (block.drop (4 - pl.length) ++ r) = be32 n ++ rest := by
    rw [← h]
    simp only [List.append_assoc]
    congr 1
    rw [← List.append_assoc, List.take_append_drop]
  apply List.append_inj e
  simp [be32_length, List.length_take]
  omega

/-! ### the relation between a state, the unread input and the payloads still owed -/

inductive Rel : St → Bytes → List Bytes → Prop
  | idle (pl r : Bytes) (qs : List Bytes) (pos : Nat) :
      pl.length < 4 → pl ++ r = stream qs → Rel ⟨0, pl, none, pos⟩ r qs
  | buffering (p b r : Bytes) (qs : List Bytes) :
      b.length < p.length → b ++ r = p ++ stream qs →
      Rel ⟨p.length, [], some b, b.length⟩ r (p :: qs)

theorem Rel_init (ps : List Bytes) : Rel St.init (stream ps) ps :=
  Rel.idle [] (stream ps) ps 0 (by simp) (by simp)

/-! ### the branches of one iteration -/

theorem loop_nil (fuel : Nat) (st : St) : loop fuel st [] = .ok (st, []) := by
  cases fuel <;> rfl

theorem loop_succ {fuel : Nat} {st : St} {block : Bytes} (h : block ≠ []) :
    loop (fuel + 1) st block =
      match readPrefix st block with
      | .error e => .error e
      | .ok (.brk st') => .ok (st', [])
      | .ok (.go st' block') =>
        match loop fuel (body st' block').1 (body st' block').2.1 with
        | .error e => .error e
        | .ok (st'', out) => .ok (st'', (body st' block').2.2 ++ out) := by
  cases block with
  | nil => contradiction
  | cons b bs => rfl

theorem readPrefix_partial {pl block : Bytes} {pos : Nat} (h : pl.length + block.length < 4) :
    readPrefix ⟨0, pl, none, pos⟩ block = .ok (.brk ⟨0, pl ++ block, none, pos⟩) := by
  simp [readPrefix, h]

theorem readPrefix_full {pl block : Bytes} {pos n : Nat} (hpl : pl.length < 4)
    (h4 : 4 ≤ pl.length + block.length) (hn : n < 2 ^ 32)
    (hs : pl ++ block.take (4 - pl.length) = be32 n) :
    readPrefix ⟨0, pl, none, pos⟩ block = .ok (.go ⟨n, [], none, pos⟩ (block.drop (4 - pl.length))) := by
  have h4' : ¬ pl.length + block.length < 4 := by omega
  by_cases hnil : pl = []
  · subst hnil
    simp only [List.length_nil, Nat.sub_zero, List.nil_append, Nat.zero_add] at hs h4 h4'
    simp [readPrefix, hs, unpack_be32 n hn, h4']
  · have hrem : 4 - pl.length ≠ 0 := by omega
    simp [readPrefix, h4', hnil, hrem, hs, unpack_be32 n hn]

theorem readPrefix_known {st : St} {block : Bytes} (h : st.size ≠ 0) :
    readPrefix st block = .ok (.go st block) := by
  simp [readPrefix, h]

theorem body_short {n pos : Nat} {block : Bytes} (h : block.length < n) :
    body ⟨n, [], none, pos⟩ block = (⟨n, [], some block, block.length⟩, [], []) := by
  have hmin : min n block.length = block.length := by omega
  have hne : block.length ≠ n := by omega
  simp [body, h, hmin, hne]

theorem body_direct {n pos : Nat} {block : Bytes} (h : n ≤ block.length) :
    body ⟨n, [], none, pos⟩ block = (⟨0, [], none, pos⟩, block.drop n, [block.take n]) := by
  have h' : ¬ block.length < n := by omega
  simp [body, h']

theorem body_fill_done {n : Nat} {b block : Bytes} (hb : b.length < n)
    (h : n - b.length ≤ block.length) :
    body ⟨n, [], some b, b.length⟩ block =
      (⟨0, [], none, n⟩, block.drop (n - b.length), [b ++ block.take (n - b.length)]) := by
  have hmin : min (n - b.length) block.length = n - b.length := by omega
  have hpos : b.length + (n - b.length) = n := by omega
  simp [body, hmin, hpos]

theorem body_fill_more {n : Nat} {b block : Bytes} (h : b.length + block.length < n) :
    body ⟨n, [], some b, b.length⟩ block =
      (⟨n, [], some (b ++ block), b.length + block.length⟩, [], []) := by
  have hmin : min (n - b.length) block.length = block.length := by omega
  have hne : b.length + block.length ≠ n := by omega
  simp [body, hmin, hne]

/-! ### the loop invariant -/

theorem loop_spec : ∀ (fuel : Nat) (st : St) (block r : Bytes) (qs : List Bytes),
    WFlen qs → Rel st (block ++ r) qs → block.length ≤ fuel →
    ∃ st' out qs', loop fuel st block = .ok (st', out) ∧ qs = out ++ qs' ∧ Rel st' r qs' := by
  intro fuel
  induction fuel with
  | zero =>
    intro st block r qs _ hrel hlen
    have : block = [] := List.eq_nil_of_length_eq_zero (by omega)
    subst this
    exact ⟨st, [], qs, loop_nil 0 st, by simp, by simpa using hrel⟩
  | succ fuel ih =>
    intro st block r qs hwf hrel hlen
    by_cases hbne : block = []
    · subst hbne
      exact ⟨st, [], qs, loop_nil _ st, by simp, by simpa using hrel⟩
    have hbpos : 0 < block.length := List.length_pos_iff.mpr hbne
    rw [loop_succ hbne]
    cases hrel with
    | idle pl _ _ pos hpl hstream =>
      by_cases hshort : pl.length + block.length < 4
      · -- partial prefix: the chunk ends inside the length prefix
        rw [readPrefix_partial hshort]
        refine ⟨_, [], qs, rfl, by simp, ?_⟩
        exact Rel.idle (pl ++ block) r qs pos (by simp; omega) (by simpa using hstream)
      · -- the prefix is completed in this chunk
        have h4 : 4 ≤ pl.length + block.length := by omega
        have hqs : qs ≠ [] := by
          intro h
          subst h
          have := congrArg List.length hstream
          rw [stream_nil] at this
          simp only [List.length_append, List.length_nil] at this
          omega
        obtain ⟨p, qs', rfl⟩ := List.exists_cons_of_ne_nil hqs
        obtain ⟨hp32, hwf'⟩ := WFlen_cons hwf
        rw [stream_cons] at hstream
        obtain ⟨hs1, hs2⟩ := prefix_split hstream (by omega) h4
        rw [readPrefix_full hpl h4 hp32 hs1]
        simp only []
        -- the payload part
        have hdl : (block.drop (4 - pl.length)).length < block.length := by
          rw [List.length_drop]; omega
        by_cases hlt : (block.drop (4 - pl.length)).length < p.length
        · -- buffer path: the chunk ends inside the payload
          rw [body_short hlt]
          simp only [loop_nil]
          refine ⟨_, [], p :: qs', rfl, by simp, ?_⟩
          exact Rel.buffering p _ r qs' hlt hs2
        · -- direct path: the whole payload is in this chunk
          have hge : p.length ≤ (block.drop (4 - pl.length)).length := by omega
          rw [body_direct hge]
          simp only []
          have e : block.drop (4 - pl.length) =
              (block.drop (4 - pl.length)).take p.length ++ (block.drop (4 - pl.length)).drop p.length :=
            (List.take_append_drop _ _).symm
          have hs3 : (block.drop (4 - pl.length)).take p.length ++
              ((block.drop (4 - pl.length)).drop p.length ++ r) = p ++ stream qs' := by
            rw [← List.append_assoc, List.take_append_drop]; exact hs2
          obtain ⟨ht, hd⟩ := List.append_inj hs3 (by
            simp only [List.length_take, List.length_drop] at hge ⊢; omega)
          obtain ⟨st', out, qs'', hl, hq, hr⟩ :=
            ih ⟨0, [], none, pos⟩ ((block.drop (4 - pl.length)).drop p.length) r qs' hwf'
              (Rel.idle [] _ qs' pos (by simp) (by simpa using hd))
              (by simp only [List.length_drop] at hdl hge ⊢; omega)
          rw [hl]
          refine ⟨st', _ :: out, qs'', rfl, ?_, hr⟩
          rw [ht, hq]; simp
    | buffering p b _ qs' hb hstream =>
      obtain ⟨hp32, hwf'⟩ := WFlen_cons hwf
      rw [readPrefix_known (by show p.length ≠ 0; omega)]
      simp only []
      by_cases hdone : p.length - b.length ≤ block.length
      · -- the buffer is completed by this chunk
        rw [body_fill_done hb hdone]
        simp only []
        have hs3 : (b ++ block.take (p.length - b.length)) ++
            (block.drop (p.length - b.length) ++ r) = p ++ stream qs' := by
          rw [← hstream]
          simp only [List.append_assoc]
          congr 1
          rw [← List.append_assoc, List.take_append_drop]
        obtain ⟨ht, hd⟩ := List.append_inj hs3 (by simp [List.length_take]; omega)
        obtain ⟨st', out, qs'', hl, hq, hr⟩ :=
          ih ⟨0, [], none, p.length⟩ (block.drop (p.length - b.length)) r qs' hwf'
            (Rel.idle [] _ qs' _ (by simp) (by simpa using hd))
            (by simp only [List.length_drop]; omega)
        rw [hl]
        refine ⟨st', _ :: out, qs'', rfl, ?_, hr⟩
        rw [ht, hq]; simp
      · -- still filling
        have hmore : b.length + block.length < p.length := by omega
        rw [body_fill_more hmore]
        simp only [loop_nil]
        refine ⟨_, [], p :: qs', rfl, by simp, ?_⟩
        have := Rel.buffering p (b ++ block) r qs' (by simp; omega) (by simpa using hstream)
        simpa using this

/-! ### chunks -/

theorem feed_spec {st : St} {chunk r : Bytes} {qs : List Bytes} (hwf : WFlen qs)
    (h : Rel st (chunk ++ r) qs) :
    ∃ st' out qs', feed st chunk = .ok (st', out) ∧ qs = out ++ qs' ∧ Rel st' r qs' :=
  loop_spec chunk.length st chunk r qs hwf h (Nat.le_refl _)

theorem feedAll_spec : ∀ (cs : List Bytes) (st : St) (acc : List Bytes) (r : Bytes) (qs : List Bytes),
    WFlen qs → Rel st (cs.flatten ++ r) qs →
    ∃ st' out qs', feedAll st acc cs = .ok (acc ++ out, st') ∧ qs = out ++ qs' ∧ Rel st' r qs' := by
  intro cs
  induction cs with
  | nil =>
    intro st acc r qs _ h
    exact ⟨st, [], qs, by simp [feedAll], by simp, by simpa using h⟩
  | cons c cs ih =>
    intro st acc r qs hwf h
    have h' : Rel st (c ++ (cs.flatten ++ r)) qs := by simpa using h
    obtain ⟨st1, out1, qs1, hf, hq, hr⟩ := feed_spec hwf h'
    have hwf1 : WFlen qs1 := WFlen_append_right (hq ▸ hwf)
    obtain ⟨st2, out2, qs2, hf2, hq2, hr2⟩ := ih st1 (acc ++ out1) r qs1 hwf1 hr
    refine ⟨st2, out1 ++ out2, qs2, ?_, ?_, hr2⟩
    · simp [feedAll, hf, hf2]
    · rw [hq, hq2]; simp

theorem decompress_spec {cs : List Bytes} {r : Bytes} {ps : List Bytes} (hwf : WFlen ps)
    (h : cs.flatten ++ r = stream ps) :
    ∃ st out qs, decompress cs = .ok (out, st) ∧ ps = out ++ qs ∧ Rel st r qs := by
  obtain ⟨st, out, qs, hf, hq, hr⟩ := feedAll_spec cs St.init [] r ps hwf (h ▸ Rel_init ps)
  exact ⟨st, out, qs, by simpa [decompress] using hf, hq, hr⟩

/-- nothing left to read: nothing is owed and the state is idle -/
theorem Rel_end {st : St} {qs : List Bytes} (h : Rel st [] qs) : qs = [] ∧ st.Idle := by
  cases h with
  | idle pl _ _ pos hpl hs =>
    have hq : qs = [] := stream_short (by rw [← hs]; simpa using hpl)
    subst hq
    have : pl = [] := by simpa [stream_nil] using hs
    subst this
    exact ⟨rfl, rfl, rfl, rfl⟩
  | buffering p b _ qs' hb hs =>
    have := congrArg List.length hs
    simp at this
    omega

/-- the bytes the state holds are exactly the consumed part of the frame in progress -/
theorem Rel_pending {st : St} {r : Bytes} {qs : List Bytes} (hwf : WFlen qs) (h : Rel st r qs) :
    st.pending ++ r = stream qs ∧ st.Shaped := by
  cases h with
  | idle pl _ _ pos hpl hs => exact ⟨hs, rfl, hpl⟩
  | buffering p b _ qs' hb hs =>
    obtain ⟨hp32, _⟩ := WFlen_cons hwf
    refine ⟨?_, ?_⟩
    · simp only [St.pending, stream_cons, List.append_assoc]
      rw [hs]
    · exact ⟨by show p.length ≠ 0; omega, hp32, rfl, rfl, hb⟩

theorem Rel_owed {st : St} {r : Bytes} {qs : List Bytes} (h : Rel st r qs) (hr : r ≠ []) : qs ≠ [] := by
  cases h with
  | idle pl _ _ pos hpl hs =>
    intro hq
    subst hq
    rw [stream_nil] at hs
    simp at hs
    exact hr hs.2
  | buffering p b _ qs' hb hs => simp

/-! ### `_pos` is dead while there is no buffer; the buffer is invisible to the prefix part -/

/-- put a buffer and a position back into the outcome of the prefix part -/
def Pre.withBP (buf : Option Bytes) (pos : Nat) : Pre → Pre
  | .brk s => .brk { s with buffer := buf, pos := pos }
  | .go s b => .go { s with buffer := buf, pos := pos } b

/-- the prefix part neither reads nor writes `_buffer` and `_pos` -/
theorem readPrefix_frame (sz : Nat) (pl : Bytes) (buf : Option Bytes) (pos : Nat) (blk : Bytes) :
    readPrefix ⟨sz, pl, buf, pos⟩ blk =
      match readPrefix ⟨sz, pl, none, 0⟩ blk with
      | .error e => .error e
      | .ok p => .ok (p.withBP buf pos) := by
  unfold readPrefix
  simp only []
  split
  · rfl
  · split
    · rfl
    · split
      · split <;> rfl
      · split <;> rfl

theorem St.Eqv.refl (a : St) : a.Eqv a := ⟨rfl, rfl, rfl, fun _ => rfl⟩

theorem St.Eqv.symm {a b : St} (h : a.Eqv b) : b.Eqv a :=
  ⟨h.1.symm, h.2.1.symm, h.2.2.1.symm, fun hb => (h.2.2.2 (by rw [h.2.2.1]; exact hb)).symm⟩

theorem St.Eqv.trans {a b c : St} (h₁ : a.Eqv b) (h₂ : b.Eqv c) : a.Eqv c :=
  ⟨h₁.1.trans h₂.1, h₁.2.1.trans h₂.2.1, h₁.2.2.1.trans h₂.2.2.1,
    fun ha => (h₁.2.2.2 ha).trans (h₂.2.2.2 (by rw [← h₁.2.2.1]; exact ha))⟩

theorem Idle_iff_Eqv_init (st : St) : st.Idle ↔ st.Eqv St.init := by
  constructor
  · intro ⟨h1, h2, h3⟩
    exact ⟨h1, h2, h3, fun h => absurd h3 h⟩
  · intro ⟨h1, h2, h3, _⟩
    exact ⟨h1, h2, h3⟩

/-- results that agree up to a dead `_pos` -/
def ResEqv : Except Err (St × List Bytes) → Except Err (St × List Bytes) → Prop
  | .ok (s, o), .ok (s', o') => s.Eqv s' ∧ o = o'
  | .error e, .error e' => e = e'
  | _, _ => False

theorem body_eqv (sz : Nat) (pl : Bytes) (buf : Option Bytes) (pa pb : Nat) (blk : Bytes)
    (h : buf ≠ none → pa = pb) :
    (body ⟨sz, pl, buf, pa⟩ blk).1.Eqv (body ⟨sz, pl, buf, pb⟩ blk).1 ∧
      (body ⟨sz, pl, buf, pa⟩ blk).2 = (body ⟨sz, pl, buf, pb⟩ blk).2 := by
  cases buf with
  | some b =>
    have := h (by simp)
    subst this
    exact ⟨St.Eqv.refl _, rfl⟩
  | none =>
    unfold body
    simp only [Option.isSome_none, Bool.false_eq_true, or_false]
    split
    · split
      · exact ⟨St.Eqv.refl _, rfl⟩
      · exact ⟨St.Eqv.refl _, rfl⟩
    · exact ⟨⟨rfl, rfl, rfl, fun hne => absurd rfl hne⟩, rfl⟩

theorem loop_eqv : ∀ (fuel : Nat) (a b : St) (blk : Bytes), a.Eqv b →
    ResEqv (loop fuel a blk) (loop fuel b blk) := by
  intro fuel
  induction fuel with
  | zero =>
    intro a b blk h
    cases blk with
    | nil => simp only [loop]; exact ⟨h, rfl⟩
    | cons c cs => simp only [loop]; rfl
  | succ fuel ih =>
    intro a b blk h
    cases blk with
    | nil => simp only [loop]; exact ⟨h, rfl⟩
    | cons c cs =>
      obtain ⟨sz, pl, buf, pa⟩ := a
      obtain ⟨sz', pl', buf', pb⟩ := b
      obtain ⟨h1, h2, h3, h4⟩ := h
      simp only at h1 h2 h3 h4
      subst h1 h2 h3
      rw [loop_succ (by simp), loop_succ (by simp), readPrefix_frame sz pl buf pa,
        readPrefix_frame sz pl buf pb]
      cases readPrefix ⟨sz, pl, none, 0⟩ (c :: cs) with
      | error e => rfl
      | ok p =>
        cases p with
        | brk s => exact ⟨⟨rfl, rfl, rfl, h4⟩, rfl⟩
        | go s blk' =>
          simp only [Pre.withBP]
          obtain ⟨hs, hr⟩ := body_eqv s.size s.partialLen buf pa pb blk' h4
          have := ih _ _ (body ⟨s.size, s.partialLen, buf, pa⟩ blk').2.1 hs
          rw [show (body ⟨s.size, s.partialLen, buf, pb⟩ blk').2.1 =
            (body ⟨s.size, s.partialLen, buf, pa⟩ blk').2.1 by rw [hr]] 
          rw [show (body ⟨s.size, s.partialLen, buf, pb⟩ blk').2.2 =
            (body ⟨s.size, s.partialLen, buf, pa⟩ blk').2.2 by rw [hr]]
          revert this
          cases loop fuel (body ⟨s.size, s.partialLen, buf, pa⟩ blk').1
              (body ⟨s.size, s.partialLen, buf, pa⟩ blk').2.1 <;>
            cases loop fuel (body ⟨s.size, s.partialLen, buf, pb⟩ blk').1
              (body ⟨s.size, s.partialLen, buf, pa⟩ blk').2.1 <;>
            simp only [ResEqv] <;> intro hh <;>
            first
              | exact hh
              | exact hh.elim
              | exact ⟨hh.1, by rw [hh.2]⟩

theorem feedAll_eqv : ∀ (cs : List Bytes) (a b : St) (acc : List Bytes), a.Eqv b →
    match feedAll a acc cs, feedAll b acc cs with
    | .ok (o, s), .ok (o', s') => o = o' ∧ s.Eqv s'
    | .error e, .error e' => e = e'
    | _, _ => False := by
  intro cs
  induction cs with
  | nil => intro a b acc h; exact ⟨rfl, h⟩
  | cons c cs ih =>
    intro a b acc h
    have := loop_eqv c.length a b c h
    simp only [feedAll, feed]
    revert this
    cases loop c.length a c <;> cases loop c.length b c <;> simp only [ResEqv] <;> intro hh
    · exact hh
    · cases hh
    · cases hh
    · obtain ⟨he, ho⟩ := hh
      rw [ho]
      exact ih _ _ _ he

/-! ### the linear-time machine computes the same thing -/

def PreF.abs : PreF → Pre
  | .brk s => .brk s.abs
  | .go s b => .go s.abs b

def absRes : Except Err (StF × List Bytes) → Except Err (St × List Bytes)
  | .ok (s, o) => .ok (s.abs, o)
  | .error e => .error e

theorem readPrefixF_abs (st : StF) (blk : Bytes) :
    (match readPrefixF st blk with
      | .error e => .error e
      | .ok p => .ok p.abs) = readPrefix st.abs blk := by
  obtain ⟨sz, pl, segs, pos⟩ := st
  simp only [StF.abs]
  rw [readPrefix_frame sz pl _ pos blk]
  unfold readPrefixF
  simp only []
  cases readPrefix ⟨sz, pl, none, 0⟩ blk with
  | error e => rfl
  | ok p => cases p <;> rfl

theorem bodyF_abs (st : StF) (blk : Bytes) :
    ((bodyF st blk).1.abs, (bodyF st blk).2) = body st.abs blk := by
  obtain ⟨sz, pl, segs, pos⟩ := st
  cases segs with
  | none =>
    simp only [bodyF, body, StF.abs, Option.map_none, Option.isSome_none, Bool.false_eq_true, or_false]
    split
    · split <;> simp <;> omega
    · rfl
  | some l =>
    simp only [bodyF, body, StF.abs, Option.map_some, Option.isSome_some, or_true, if_true]
    split <;> simp [*]

theorem loopF_abs : ∀ (fuel : Nat) (st : StF) (blk : Bytes),
    absRes (loopF fuel st blk) = loop fuel st.abs blk := by
  intro fuel
  induction fuel with
  | zero => intro st blk; cases blk <;> rfl
  | succ fuel ih =>
    intro st blk
    cases blk with
    | nil => rfl
    | cons c cs =>
      rw [loop_succ (by simp), ← readPrefixF_abs]
      simp only [loopF]
      cases readPrefixF st (c :: cs) with
      | error e => rfl
      | ok p =>
        cases p with
        | brk s => rfl
        | go s blk' =>
          simp only [PreF.abs]
          have hb := bodyF_abs s blk'
          have h1 : (body s.abs blk').1 = (bodyF s blk').1.abs := by rw [← hb]
          have h2 : (body s.abs blk').2 = (bodyF s blk').2 := by rw [← hb]
          rw [h1, h2, ← ih]
          cases loopF fuel (bodyF s blk').1 (bodyF s blk').2.1 with
          | error e => rfl
          | ok r => rfl

theorem feedAllF_abs : ∀ (cs : List Bytes) (st : StF) (acc : List Bytes),
    (match feedAllF st acc cs with
      | .ok (o, s) => .ok (o, s.abs)
      | .error e => .error e) = feedAll st.abs acc cs := by
  intro cs
  induction cs with
  | nil => intro st acc; rfl
  | cons c cs ih =>
    intro st acc
    have := loopF_abs c.length st c
    simp only [feedAllF, feedAll, feedF, feed]
    rw [← this]
    cases loopF c.length st c with
    | error e => rfl
    | ok r =>
      obtain ⟨s, o⟩ := r
      simp only [absRes]
      exact ih s (acc ++ o)

/-! ### malformed input -/

/-- the state never holds a whole frame: what is pending is a proper prefix of the next frame -/
theorem Rel_pending_short {st : St} {r : Bytes} {x : Bytes} {qs : List Bytes}
    (h : Rel st r (x :: qs)) : st.pending.length < (frame x).length := by
  cases h with
  | idle pl _ _ pos hpl hs =>
    simp only [St.pending, frame, List.length_append, be32_length]
    omega
  | buffering p b _ _ hb hs =>
    simp only [St.pending, frame, List.length_append, be32_length]
    omega

/-- every 4-byte string is the prefix of some length below 2^32 -/
theorem be32_surj (l : Bytes) (h : l.length = 4) : ∃ n, n < 2 ^ 32 ∧ be32 n = l := by
  match l, h with
  | [a, b, c, d], _ =>
    have ha := a.toNat_lt
    have hb := b.toNat_lt
    have hc := c.toNat_lt
    have hd := d.toNat_lt
    refine ⟨a.toNat * 2 ^ 24 + b.toNat * 2 ^ 16 + c.toNat * 2 ^ 8 + d.toNat, by omega, ?_⟩
    simp only [be32, List.cons.injEq, and_true]
    refine ⟨?_, ?_, ?_, ?_⟩ <;> apply UInt8.toNat_inj.mp <;> rw [UInt8.toNat_ofNat'] <;> omega

/-! ### output -/

theorem output_append (dec : Bytes → Bytes) (a b : List Bytes) :
    output dec (a ++ b) = output dec a ++ output dec b := by
  simp [output]

theorem bytesOut_append (dec : Bytes → Bytes) (a b : List Bytes) :
    bytesOut dec (a ++ b) = bytesOut dec a + bytesOut dec b := by
  simp [bytesOut, output_append]

theorem bytesOut_pos (dec : Bytes → Bytes) {qs : List Bytes} (hne : qs ≠ [])
    (h : ∀ q ∈ qs, dec q ≠ []) : 0 < bytesOut dec qs := by
  obtain ⟨q, qs', rfl⟩ := List.exists_cons_of_ne_nil hne
  have := List.length_pos_iff.mpr (h q (by simp))
  simp [bytesOut, output]
  omega

/-! ### compress -/

theorem blocksOf_flatten {α} (nelem : Nat) (hpos : 0 < nelem) (items : List α) :
    (blocksOf nelem items).flatten = items := by
  have key : ∀ k, ((List.range k).map (fun j => (items.drop (j * nelem)).take nelem)).flatten =
      items.take (k * nelem) := by
    intro k
    induction k with
    | zero => simp
    | succ k ih =>
      rw [List.range_succ, List.map_append, List.flatten_append, ih, Nat.succ_mul, List.take_add]
      simp
  unfold blocksOf pyRange
  rw [List.map_map]
  have := key ((items.length + nelem - 1) / nelem)
  simp only [Function.comp_def] at this ⊢
  rw [this]
  apply List.take_of_length_le
  have h1 := Nat.div_add_mod (items.length + nelem - 1) nelem
  have h2 := Nat.mod_lt (items.length + nelem - 1) hpos
  rw [Nat.mul_comm] at h1
  omega

theorem blocksOf_nonempty {α} (nelem : Nat) (hpos : 0 < nelem) (items : List α) :
    ∀ blk ∈ blocksOf nelem items, blk ≠ [] := by
  intro blk hblk
  unfold blocksOf pyRange at hblk
  simp only [List.map_map, List.mem_map, List.mem_range, Function.comp_def] at hblk
  obtain ⟨j, hj, rfl⟩ := hblk
  have h1 := Nat.div_add_mod (items.length + nelem - 1) nelem
  have h2 := Nat.mod_lt (items.length + nelem - 1) hpos
  have h3 : nelem * (j + 1) ≤ nelem * ((items.length + nelem - 1) / nelem) := Nat.mul_le_mul_left _ hj
  rw [Nat.mul_add, Nat.mul_one, Nat.mul_comm] at h3
  intro hnil
  have := congrArg List.length hnil
  simp [List.length_take, List.length_drop] at this
  omega

theorem framesOf_ok (enc : Bytes → Bytes) : ∀ (raws : List Bytes),
    (∀ raw ∈ raws, (enc raw).length < 2 ^ 32) →
    framesOf enc raws = .ok (raws.map (fun raw => frame (enc raw))) := by
  intro raws
  induction raws with
  | nil => intro _; rfl
  | cons raw rest ih =>
    intro h
    have h1 : (enc raw).length < 2 ^ 32 := h raw (by simp)
    have h2 := ih (fun x hx => h x (by simp [hx]))
    simp [framesOf, frameOf, packBE32, h1, h2, frame]

theorem flatten_frames (f : Bytes → Bytes) (raws : List Bytes) :
    (raws.map (fun raw => frame (f raw))).flatten = stream (raws.map f) := by
  simp [stream, List.flatMap_def, List.map_map, Function.comp_def]

end AbacusVerif.Blsc
