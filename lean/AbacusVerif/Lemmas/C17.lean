/-
  Lemmas for C17 (`partition_parallel`): the per-thread scatters tile the single-thread reference
  scatter `W`, whose slots are the stable-partition positions.
-/
import AbacusVerif.Model.C17
import Mathlib.Data.List.Nodup
import Mathlib.Data.List.Perm.Subperm
import Mathlib.Data.Rat.Floor
import Mathlib.Tactic.Linarith

namespace AbacusVerif.Partition
open AbacusVerif

variable {α : Type}

/-! ### slices and tilings -/

theorem slice_append (a b c : Nat) (l : List α) (hab : a ≤ b) (hbc : b ≤ c) :
    slice a b l ++ slice b c l = slice a c l := by
  unfold slice
  have h1 : l.drop b = (l.drop a).drop (b - a) := by
    rw [List.drop_drop]; congr 1; omega
  have h2 : c - a = (b - a) + (c - b) := by omega
  rw [h1, h2, List.take_add]

theorem slice_self (a : Nat) (l : List α) : slice a a l = [] := by simp [slice]

theorem slice_zero (n : Nat) (l : List α) : slice 0 n l = l.take n := by simp [slice]

theorem slice_map {β} (f : α → β) (a b : Nat) (l : List α) : slice a b (l.map f) = (slice a b l).map f := by
  simp [slice, List.map_take, List.map_drop]

theorem threadsOf_cons_cons (x y : Nat) (r : List Nat) :
    threadsOf (x :: y :: r) = (x, y) :: threadsOf (y :: r) := rfl

theorem threadsOf_single (x : Nat) : threadsOf [x] = [] := rfl

theorem threadsOf_length (b : List Nat) : (threadsOf b).length = b.length - 1 := by
  simp [threadsOf]

theorem threadsOf_append (b1 : List Nat) (x : Nat) (b2 : List Nat) :
    threadsOf (b1 ++ x :: b2) = threadsOf (b1 ++ [x]) ++ threadsOf (x :: b2) := by
  induction b1 with
  | nil => simp [threadsOf_single]
  | cons y b1 ih =>
    cases b1 with
    | nil => simp [threadsOf_cons_cons, threadsOf_single]
    | cons z b1 =>
      simp only [List.cons_append, threadsOf_cons_cons] at ih ⊢
      rw [ih]

/-- a non-decreasing boundary list tiles the interval between its first and last element -/
theorem tiling (l : List α) : ∀ (rest : List Nat) (lo0 hiL : Nat),
    (lo0 :: rest).getLast? = some hiL → (lo0 :: rest).Pairwise (· ≤ ·) →
    (threadsOf (lo0 :: rest)).flatMap (fun th => slice th.1 th.2 l) = slice lo0 hiL l ∧ lo0 ≤ hiL := by
  intro rest
  induction rest with
  | nil =>
    intro lo0 hiL h _
    simp at h
    subst h
    simp [threadsOf_single, slice_self]
  | cons x r ih =>
    intro lo0 hiL h hp
    rw [List.getLast?_cons_cons] at h
    have hp' := hp
    rw [List.pairwise_cons] at hp'
    obtain ⟨e, hle⟩ := ih x hiL h hp'.2
    have h1 : lo0 ≤ x := hp'.1 x (by simp)
    rw [threadsOf_cons_cons, List.flatMap_cons, e]
    exact ⟨slice_append _ _ _ _ h1 hle, le_trans h1 hle⟩

/-! ### the scatter of one thread -/

/-- the cursors after a thread has processed `items` -/
def advance : (Nat → Nat) → List (Nat × α) → (Nat → Nat)
  | cur, [] => cur
  | cur, (k, _) :: rest => advance (bump cur k) rest

theorem advance_apply : ∀ (items : List (Nat × α)) (cur : Nat → Nat) (s : Nat),
    advance cur items s = cur s + (items.map (·.1)).count s := by
  intro items
  induction items with
  | nil => intro cur s; simp [advance]
  | cons ka rest ih =>
    intro cur s
    obtain ⟨k, a⟩ := ka
    simp only [advance, ih, List.map_cons, List.count_cons, bump]
    by_cases h : s = k
    · subst h; simp; omega
    · have h' : ¬ k = s := fun e => h e.symm
      simp [h, h']

theorem scatterThread_length : ∀ (items : List (Nat × α)) (cur : Nat → Nat),
    (scatterThread cur items).length = items.length := by
  intro items
  induction items with
  | nil => intro cur; rfl
  | cons ka rest ih => intro cur; obtain ⟨k, a⟩ := ka; simp [scatterThread, ih]

theorem scatterThread_snd : ∀ (items : List (Nat × α)) (cur : Nat → Nat),
    (scatterThread cur items).map (·.2) = items.map (·.2) := by
  intro items
  induction items with
  | nil => intro cur; rfl
  | cons ka rest ih => intro cur; obtain ⟨k, a⟩ := ka; simp [scatterThread, ih]

theorem scatterThread_take : ∀ (items : List (Nat × α)) (cur : Nat → Nat) (n : Nat),
    (scatterThread cur items).take n = scatterThread cur (items.take n) := by
  intro items
  induction items with
  | nil => intro cur n; simp [scatterThread]
  | cons ka rest ih =>
    intro cur n
    obtain ⟨k, a⟩ := ka
    cases n with
    | zero => simp [scatterThread]
    | succ n => simp [scatterThread, ih]

theorem scatterThread_drop : ∀ (items : List (Nat × α)) (cur : Nat → Nat) (n : Nat),
    (scatterThread cur items).drop n = scatterThread (advance cur (items.take n)) (items.drop n) := by
  intro items
  induction items with
  | nil => intro cur n; simp [scatterThread]
  | cons ka rest ih =>
    intro cur n
    obtain ⟨k, a⟩ := ka
    cases n with
    | zero => simp [scatterThread, advance]
    | succ n => simp [scatterThread, advance, ih]

theorem scatterThread_slice (items : List (Nat × α)) (cur : Nat → Nat) (lo hi : Nat) :
    slice lo hi (scatterThread cur items) =
      scatterThread (advance cur (items.take lo)) (slice lo hi items) := by
  unfold slice
  rw [scatterThread_drop, scatterThread_take]

theorem scatterThread_congr : ∀ (items : List (Nat × α)) (cur cur' : Nat → Nat),
    (∀ ka ∈ items, cur ka.1 = cur' ka.1) → scatterThread cur items = scatterThread cur' items := by
  intro items
  induction items with
  | nil => intro cur cur' _; rfl
  | cons ka rest ih =>
    intro cur cur' h
    obtain ⟨k, a⟩ := ka
    simp only [scatterThread]
    rw [h (k, a) (by simp), ih (bump cur k) (bump cur' k)]
    intro kb hkb
    simp only [bump]
    rw [h kb (by simp [hkb])]

/-- every write of a thread is "the item after a prefix `l1`, at the cursor advanced by the number of
equal keys in `l1`" -/
theorem mem_scatterThread : ∀ (items : List (Nat × α)) (cur : Nat → Nat) (p : Nat) (a : α),
    (p, a) ∈ scatterThread cur items →
    ∃ l1 k l2, items = l1 ++ (k, a) :: l2 ∧ p = cur k + (l1.map (·.1)).count k := by
  intro items
  induction items with
  | nil => intro cur p a h; simp [scatterThread] at h
  | cons ka rest ih =>
    intro cur p a h
    obtain ⟨k0, a0⟩ := ka
    simp only [scatterThread, List.mem_cons, Prod.mk.injEq] at h
    rcases h with ⟨hp, ha⟩ | h
    · exact ⟨[], k0, rest, by simp [ha], by simp [hp]⟩
    · obtain ⟨l1, k, l2, e, hp⟩ := ih _ _ _ h
      refine ⟨(k0, a0) :: l1, k, l2, by simp [e], ?_⟩
      rw [hp]
      simp only [bump, List.map_cons, List.count_cons]
      by_cases hk : k = k0
      · subst hk; simp; omega
      · have hk' : ¬ k0 = k := fun e => hk e.symm
        simp [hk, hk']

/-- the slots depend on the keys only -/
def slots : (Nat → Nat) → List Nat → List Nat
  | _, [] => []
  | cur, k :: rest => cur k :: slots (bump cur k) rest

theorem scatterThread_fst : ∀ (items : List (Nat × α)) (cur : Nat → Nat),
    (scatterThread cur items).map (·.1) = slots cur (items.map (·.1)) := by
  intro items
  induction items with
  | nil => intro cur; rfl
  | cons ka rest ih => intro cur; obtain ⟨k, a⟩ := ka; simp [scatterThread, slots, ih]

/-! ### the stable partition, by index -/

/-- members of stripe `s`, in input order -/
def members (keyed : List (Nat × α)) (s : Nat) : List α := (keyed.filter (fun ka => ka.1 = s)).map (·.2)

/-- every key indexes a stripe -/
def KeysOK (np : Nat) (keyed : List (Nat × α)) : Prop := ∀ ka ∈ keyed, ka.1 < np

instance (np : Nat) (keyed : List (Nat × α)) : Decidable (KeysOK np keyed) := by
  unfold KeysOK; infer_instance

theorem stable_eq (np : Nat) (keyed : List (Nat × α)) :
    stable np keyed = (List.range np).flatMap (members keyed) := rfl

/-- `starts[k]`: the number of keys below `k` -/
def cur0 (keys : List Nat) : Nat → Nat := fun k => keys.countP (· < k)

theorem countP_lt_succ (keys : List Nat) (s : Nat) :
    keys.countP (· < s + 1) = keys.countP (· < s) + keys.count s := by
  induction keys with
  | nil => simp
  | cons k r ih =>
    simp only [List.countP_cons, List.count_cons, ih]
    by_cases h1 : k < s
    · have : k < s + 1 := by omega
      have : ¬ k = s := by omega
      simp [*]; omega
    · by_cases h2 : k = s
      · subst h2; simp; omega
      · have : ¬ k < s + 1 := by omega
        simp [*]

theorem members_length (keyed : List (Nat × α)) (s : Nat) :
    (members keyed s).length = (keyed.map (·.1)).count s := by
  unfold members
  induction keyed with
  | nil => simp
  | cons ka r ih =>
    obtain ⟨k, a⟩ := ka
    simp only [List.length_map] at ih
    by_cases h : k = s
    · simp [h, ih]
    · simp [h, ih]

theorem members_append (l1 l2 : List (Nat × α)) (s : Nat) :
    members (l1 ++ l2) s = members l1 s ++ members l2 s := by
  simp [members]

theorem members_cons_self (k : Nat) (a : α) (l : List (Nat × α)) :
    members ((k, a) :: l) k = a :: members l k := by
  simp [members]

theorem stable_prefix_length (keyed : List (Nat × α)) (k : Nat) :
    ((List.range k).flatMap (members keyed)).length = cur0 (keyed.map (·.1)) k := by
  induction k with
  | zero => simp [cur0]
  | succ k ih =>
    rw [List.range_succ, List.flatMap_append, List.length_append, ih]
    simp only [List.flatMap_cons, List.flatMap_nil, List.append_nil, cur0, countP_lt_succ,
      members_length]

theorem stable_length (np : Nat) (keyed : List (Nat × α)) (hk : KeysOK np keyed) :
    (stable np keyed).length = keyed.length := by
  rw [stable_eq, stable_prefix_length, cur0]
  rw [List.countP_eq_length.mpr]
  · simp
  · intro k hk'
    simp only [List.mem_map] at hk'
    obtain ⟨ka, hka, e⟩ := hk'
    have := hk ka hka
    simp; omega

theorem stable_split (np k : Nat) (keyed : List (Nat × α)) (h : k < np) :
    ∃ B, stable np keyed = (List.range k).flatMap (members keyed) ++ (members keyed k ++ B) := by
  obtain ⟨m, rfl⟩ : ∃ m, np = (k + 1) + m := ⟨np - (k + 1), by omega⟩
  refine ⟨((List.range m).map (fun x => k + 1 + x)).flatMap (members keyed), ?_⟩
  rw [stable_eq, List.range_add, List.flatMap_append, List.range_succ, List.flatMap_append]
  simp

/-- the reference scatter: one thread over the whole input, cursors starting at `starts` -/
def W (keyed : List (Nat × α)) : List (Nat × α) := scatterThread (cur0 (keyed.map (·.1))) keyed

/-- (D) every write puts the row where the stable partition has it -/
theorem W_spec (np : Nat) (keyed : List (Nat × α)) (hk : KeysOK np keyed) (p : Nat) (a : α)
    (h : (p, a) ∈ W keyed) : (stable np keyed)[p]? = some a := by
  obtain ⟨l1, k, l2, e, hp⟩ := mem_scatterThread _ _ _ _ h
  have hkn : k < np := hk (k, a) (by rw [e]; simp)
  obtain ⟨B, hB⟩ := stable_split np k keyed hkn
  have hm : members keyed k = members l1 k ++ a :: members l2 k := by
    rw [e, members_append, members_cons_self]
  rw [hB, hm]
  have hlen : p = ((List.range k).flatMap (members keyed) ++ members l1 k).length := by
    rw [List.length_append, stable_prefix_length, members_length, hp]
  have : (List.range k).flatMap (members keyed) ++ ((members l1 k ++ a :: members l2 k) ++ B) =
      ((List.range k).flatMap (members keyed) ++ members l1 k) ++ a :: (members l2 k ++ B) := by
    simp
  rw [this, hlen]
  simp

/-! ### the pointers -/

/-- thread blocks as the real code builds them: `T + 1` boundaries, from 0 to `n`, non-decreasing -/
def BlocksOK (T n : Nat) (b : List Nat) : Prop :=
  b.length = T + 1 ∧ b.head? = some 0 ∧ b.getLast? = some n ∧ b.Pairwise (· ≤ ·)

instance (T n b) : Decidable (BlocksOK T n b) := by unfold BlocksOK; infer_instance

theorem tiling' (l : List α) (b : List Nat) (lo0 hiL : Nat) (hh : b.head? = some lo0)
    (hl : b.getLast? = some hiL) (hp : b.Pairwise (· ≤ ·)) :
    (threadsOf b).flatMap (fun th => slice th.1 th.2 l) = slice lo0 hiL l := by
  cases b with
  | nil => simp at hh
  | cons x r =>
    simp at hh
    subst hh
    exact (tiling l r x hiL hl hp).1

theorem range_flatMap_split {β} (F : Nat → List β) (np k : Nat) (h : k < np) :
    ∃ B, (List.range np).flatMap F = (List.range k).flatMap F ++ (F k ++ B) := by
  obtain ⟨m, rfl⟩ : ∃ m, np = (k + 1) + m := ⟨np - (k + 1), by omega⟩
  refine ⟨((List.range m).map (fun x => k + 1 + x)).flatMap F, ?_⟩
  rw [List.range_add, List.flatMap_append, List.range_succ, List.flatMap_append]
  simp

theorem sum_cnt (keys : List Nat) (threads : List (Nat × Nat)) (s : Nat) :
    (threads.map (fun th => cnt keys th s)).sum =
      (threads.flatMap (fun th => slice th.1 th.2 keys)).count s := by
  rw [List.count_flatMap]
  rfl

theorem flat_prefix (keys : List Nat) (threads : List (Nat × Nat)) (T : Nat)
    (hT : threads.length = T)
    (htile : threads.flatMap (fun th => slice th.1 th.2 keys) = keys) (s : Nat) :
    ((List.range s).flatMap (fun s => threads.map (fun th => cnt keys th s))).sum = cur0 keys s ∧
    ((List.range s).flatMap (fun s => threads.map (fun th => cnt keys th s))).length = s * T := by
  induction s with
  | zero => simp [cur0]
  | succ s ih =>
    rw [List.range_succ, List.flatMap_append, List.sum_append, List.length_append, ih.1, ih.2]
    simp only [List.flatMap_cons, List.flatMap_nil, List.append_nil, sum_cnt, htile, List.length_map,
      hT, cur0, countP_lt_succ]
    exact ⟨trivial, by rw [Nat.succ_mul]⟩

theorem ptr_eq (np : Nat) (keys : List Nat) (threads : List (Nat × Nat)) (T : Nat)
    (hT : threads.length = T)
    (htile : threads.flatMap (fun th => slice th.1 th.2 keys) = keys) (s t : Nat)
    (hs : s < np) (ht : t ≤ T) :
    ptr (countsTFlat np threads keys) T t s =
      cur0 keys s + ((threads.take t).flatMap (fun th => slice th.1 th.2 keys)).count s := by
  obtain ⟨B, hB⟩ := range_flatMap_split (fun s => threads.map (fun th => cnt keys th s)) np s hs
  obtain ⟨h1, h2⟩ := flat_prefix keys threads T hT htile s
  unfold ptr countsTFlat
  rw [hB, List.take_append, List.take_of_length_le (by rw [h2]; omega), h2, List.sum_append, h1,
    List.take_append, List.sum_append]
  have e1 : s * T + t - s * T = t := by omega
  have e2 : t - (threads.map (fun th => cnt keys th s)).length = 0 := by
    rw [List.length_map, hT]; omega
  rw [e1, e2, ← List.map_take, sum_cnt]
  simp

/-! ### all the writes are the reference scatter -/

theorem blocks_le {T n : Nat} {b : List Nat} (hb : BlocksOK T n b) : ∀ x ∈ b, x ≤ n := by
  obtain ⟨_, _, hl, hp⟩ := hb
  intro x hx
  obtain ⟨pre, rfl⟩ : ∃ pre, b = pre ++ [n] := by
    have := List.getLast?_eq_some_iff.mp hl
    exact this
  rw [List.mem_append] at hx
  rcases hx with hx | hx
  · exact (List.pairwise_append.mp hp).2.2 x hx n (by simp)
  · simp at hx; omega

theorem full_tiling {T : Nat} {b : List Nat} (l : List α) (hb : BlocksOK T l.length b) :
    (threadsOf b).flatMap (fun th => slice th.1 th.2 l) = l := by
  rw [tiling' l b 0 l.length hb.2.1 hb.2.2.1 hb.2.2.2, slice_zero, List.take_length]

theorem threads_length {T n : Nat} {b : List Nat} (hb : BlocksOK T n b) : (threadsOf b).length = T := by
  rw [threadsOf_length, hb.1]; rfl

theorem ptr_thread (np T : Nat) (b : List Nat) (keys : List Nat) (hb : BlocksOK T keys.length b)
    (b1 : List Nat) (x y : Nat) (r : List Nat) (e : b = b1 ++ x :: y :: r) (s : Nat) (hs : s < np) :
    ptr (countsTFlat np (threadsOf b) keys) T b1.length s = cur0 keys s + (keys.take x).count s := by
  have hlen : b1.length ≤ T := by
    have := hb.1; rw [e] at this; simp at this; omega
  rw [ptr_eq np keys (threadsOf b) T (threads_length hb) (full_tiling keys hb) s b1.length hs hlen]
  congr 2
  have h1 : (threadsOf b).take b1.length = threadsOf (b1 ++ [x]) := by
    rw [e, threadsOf_append]
    apply List.take_left'
    rw [threadsOf_length]; simp
  rw [h1]
  have hh : (b1 ++ [x]).head? = some 0 := by
    have := hb.2.1
    rw [e] at this
    cases b1 with
    | nil => simpa using this
    | cons z b1 => simpa using this
  have hp : (b1 ++ [x]).Pairwise (· ≤ ·) := by
    have := hb.2.2.2
    rw [e] at this
    have e2 : b1 ++ x :: y :: r = (b1 ++ [x]) ++ y :: r := by simp
    rw [e2] at this
    exact (List.pairwise_append.mp this).1
  rw [tiling' keys (b1 ++ [x]) 0 x hh (by simp) hp, slice_zero]

theorem thread_eq (np T : Nat) (b : List Nat) (keyed : List (Nat × α))
    (hb : BlocksOK T keyed.length b) (hk : KeysOK np keyed)
    (b1 : List Nat) (x y : Nat) (r : List Nat) (e : b = b1 ++ x :: y :: r) :
    scatterThread (ptr (countsTFlat np (threadsOf b) (keyed.map (·.1))) T b1.length) (slice x y keyed) =
      slice x y (W keyed) := by
  unfold W
  rw [scatterThread_slice]
  apply scatterThread_congr
  intro ka hka
  have hmem : ka ∈ keyed := List.mem_of_mem_drop (List.mem_of_mem_take hka)
  have hb' : BlocksOK T (keyed.map (·.1)).length b := by simpa using hb
  rw [ptr_thread np T b (keyed.map (·.1)) hb' b1 x y r e ka.1 (hk ka hmem), advance_apply,
    List.map_take]

theorem threads_suffix (np T : Nat) (b : List Nat) (keyed : List (Nat × α))
    (hb : BlocksOK T keyed.length b) (hk : KeysOK np keyed) :
    ∀ (r b1 : List Nat) (x : Nat), b = b1 ++ x :: r →
    ((threadsOf (x :: r)).zipIdx b1.length).flatMap (fun tht =>
        scatterThread (ptr (countsTFlat np (threadsOf b) (keyed.map (·.1))) T tht.2)
          (slice tht.1.1 tht.1.2 keyed)) =
      (threadsOf (x :: r)).flatMap (fun th => slice th.1 th.2 (W keyed)) := by
  intro r
  induction r with
  | nil => intro b1 x _; simp [threadsOf_single]
  | cons y r ih =>
    intro b1 x e
    rw [threadsOf_cons_cons, List.zipIdx_cons, List.flatMap_cons, List.flatMap_cons]
    have e' : b = (b1 ++ [x]) ++ y :: r := by simp [e]
    have := ih (b1 ++ [x]) y e'
    rw [List.length_append, List.length_singleton] at this
    rw [this]
    congr 1
    exact thread_eq np T b keyed hb hk b1 x y r e

theorem W_length (keyed : List (Nat × α)) : (W keyed).length = keyed.length := scatterThread_length _ _

/-- (C) the writes of all threads, in thread order, are the reference scatter -/
theorem allWrites_eq (np T : Nat) (b : List Nat) (keyed : List (Nat × α))
    (hb : BlocksOK T keyed.length b) (hk : KeysOK np keyed) :
    allWrites (countsTFlat np (threadsOf b) (keyed.map (·.1))) T (threadsOf b) keyed = W keyed := by
  unfold allWrites
  obtain ⟨x, r, e⟩ : ∃ x r, b = x :: r := by
    cases b with
    | nil => have := hb.1; simp at this
    | cons x r => exact ⟨x, r, rfl⟩
  have := threads_suffix np T b keyed hb hk r [] x (by simp [e])
  rw [← e] at this
  rw [List.length_nil] at this
  rw [this]
  have hb' : BlocksOK T (W keyed).length b := by rw [W_length]; exact hb
  exact full_tiling (W keyed) hb'

/-! ### applying a write list -/

theorem applyWritesChk_spec {β} : ∀ (ws : List (Nat × β)) (a : List β), (∀ w ∈ ws, w.1 < a.length) →
    ∃ r, applyWritesChk a ws = .ok r ∧ r.length = a.length ∧
      (∀ p, (∀ w ∈ ws, w.1 ≠ p) → r[p]? = a[p]?) ∧
      ((ws.map (·.1)).Nodup → ∀ w ∈ ws, r[w.1]? = some w.2) := by
  intro ws
  induction ws with
  | nil => intro a _; exact ⟨a, rfl, rfl, fun _ _ => rfl, fun _ w hw => by simp at hw⟩
  | cons iv ws ih =>
    intro a h
    obtain ⟨i, v⟩ := iv
    have hi : i < a.length := h (i, v) (by simp)
    obtain ⟨r, hr, hlen, hun, hnd⟩ := ih (a.set i v) (by
      intro w hw; rw [List.length_set]; exact h w (by simp [hw]))
    refine ⟨r, by simp [applyWritesChk, hi, hr], by rw [hlen, List.length_set], ?_, ?_⟩
    · intro p hp
      rw [hun p (fun w hw => hp w (by simp [hw]))]
      exact List.getElem?_set_ne (hp (i, v) (by simp))
    · intro hnodup w hw
      rw [List.map_cons, List.nodup_cons] at hnodup
      rw [List.mem_cons] at hw
      rcases hw with rfl | hw
      · rw [hun i (fun w hw e => hnodup.1 (List.mem_map.mpr ⟨w, hw, e⟩))]
        exact List.getElem?_set_self hi
      · exact hnd hnodup.2 w hw

/-- a write list whose slots are a permutation of `range n` and whose every write `(p, v)` agrees with
`tgt[p]` produces `tgt`, whatever the order of the writes -/
theorem applyWritesChk_eq {β} (init tgt : List β) (ws : List (Nat × β)) (n : Nat)
    (hi : init.length = n) (ht : tgt.length = n) (hperm : (ws.map (·.1)).Perm (List.range n))
    (hspec : ∀ w ∈ ws, tgt[w.1]? = some w.2) : applyWritesChk init ws = .ok tgt := by
  have hin : ∀ w ∈ ws, w.1 < init.length := by
    intro w hw
    have : w.1 ∈ List.range n := hperm.subset (List.mem_map_of_mem hw)
    rw [hi]; simpa using this
  obtain ⟨r, hr, hlen, _, hnd⟩ := applyWritesChk_spec ws init hin
  have hnodup : (ws.map (·.1)).Nodup := hperm.nodup_iff.mpr List.nodup_range
  rw [hr]
  congr 1
  apply List.ext_getElem?
  intro p
  by_cases hp : p < n
  · have : p ∈ ws.map (·.1) := hperm.symm.subset (by simpa using hp)
    obtain ⟨w, hw, rfl⟩ := List.mem_map.mp this
    rw [hnd hnodup w hw, hspec w hw]
  · rw [List.getElem?_eq_none (by omega), List.getElem?_eq_none (by omega)]

/-! ### the slots are a permutation -/

theorem W_fst_indep {β} (keyed : List (Nat × α)) (keyed' : List (Nat × β))
    (h : keyed.map (·.1) = keyed'.map (·.1)) : (W keyed).map (·.1) = (W keyed').map (·.1) := by
  unfold W
  rw [scatterThread_fst, scatterThread_fst, h]

theorem W_snd (keyed : List (Nat × α)) : (W keyed).map (·.2) = keyed.map (·.2) := scatterThread_snd _ _

theorem W_slot_lt (np : Nat) (keyed : List (Nat × α)) (hk : KeysOK np keyed) :
    ∀ w ∈ W keyed, w.1 < keyed.length := by
  intro w hw
  have := W_spec np keyed hk w.1 w.2 hw
  rw [← stable_length np keyed hk]
  by_contra hcon
  rw [List.getElem?_eq_none (by omega)] at this
  cases this

theorem W_nodup_of_rows (np : Nat) (keyed : List (Nat × α)) (hk : KeysOK np keyed)
    (hrows : (keyed.map (·.2)).Nodup) : ((W keyed).map (·.1)).Nodup := by
  have hW : (W keyed).Nodup := by
    have : ((W keyed).map (·.2)).Nodup := by rw [W_snd]; exact hrows
    exact List.Nodup.of_map _ this
  apply List.Nodup.map_on _ hW
  intro w1 h1 w2 h2 e
  have s1 := W_spec np keyed hk w1.1 w1.2 h1
  have s2 := W_spec np keyed hk w2.1 w2.2 h2
  rw [e, s2] at s1
  cases w1; cases w2
  simp only [Option.some.injEq] at s1
  simp only at e
  rw [e, s1]

/-- (E) the slots written are a permutation of `range N` -/
theorem W_slots_perm (np : Nat) (keyed : List (Nat × α)) (hk : KeysOK np keyed) :
    ((W keyed).map (·.1)).Perm (List.range keyed.length) := by
  -- tag every row with its input index, so that rows are distinct
  let keyed' : List (Nat × Nat) := (keyed.map (·.1)).zip (List.range keyed.length)
  have hk1 : keyed'.map (·.1) = keyed.map (·.1) := by
    simp [keyed', List.map_fst_zip]
  have hk2 : keyed'.map (·.2) = List.range keyed.length := by
    simp [keyed', List.map_snd_zip]
  have hlen : keyed'.length = keyed.length := by simp [keyed']
  have hk' : KeysOK np keyed' := by
    intro ka hka
    have : ka.1 ∈ keyed.map (·.1) := by rw [← hk1]; exact List.mem_map_of_mem hka
    obtain ⟨kb, hkb, e⟩ := List.mem_map.mp this
    rw [← e]; exact hk kb hkb
  rw [W_fst_indep keyed keyed' hk1.symm]
  have hnd : ((W keyed').map (·.1)).Nodup :=
    W_nodup_of_rows np keyed' hk' (by rw [hk2]; exact List.nodup_range)
  have hsub : (W keyed').map (·.1) ⊆ List.range keyed.length := by
    intro p hp
    obtain ⟨w, hw, rfl⟩ := List.mem_map.mp hp
    have := W_slot_lt np keyed' hk' w hw
    rw [hlen] at this
    simpa using this
  apply (List.subperm_of_subset hnd hsub).perm_of_length_le
  simp [W_length, hlen]

/-! ### starts -/

theorem startsSpec_succ (np : Nat) (keys : List Nat) :
    startsSpec np keys = (List.range np).map (cur0 keys) ++ [cur0 keys np] := by
  simp [startsSpec, List.range_succ, cur0]

theorem cur0_top (np : Nat) (keys : List Nat) (hk : ∀ k ∈ keys, k < np) : cur0 keys np = keys.length := by
  unfold cur0
  rw [List.countP_eq_length.mpr]
  intro k hk'
  simpa using hk k hk'

theorem keysOK_keys {np : Nat} {keyed : List (Nat × α)} (hk : KeysOK np keyed) :
    ∀ k ∈ keyed.map (·.1), k < np := by
  intro k hk'
  obtain ⟨ka, hka, e⟩ := List.mem_map.mp hk'
  rw [← e]; exact hk ka hka

/-- (G) `starts` is the table of "number of keys below `s`" -/
theorem starts_eq (np T : Nat) (b : List Nat) (keys : List Nat) (hb : BlocksOK T keys.length b)
    (hk : ∀ k ∈ keys, k < np) :
    starts (countsTFlat np (threadsOf b) keys) np T keys.length = startsSpec np keys := by
  rw [startsSpec_succ, cur0_top np keys hk]
  unfold starts
  congr 1
  apply List.map_congr_left
  intro s hs
  rw [ptr_eq np keys (threadsOf b) T (threads_length hb) (full_tiling keys hb) s 0
    (by simpa using hs) (Nat.zero_le _)]
  simp

theorem cur0_mono (keys : List Nat) {s s' : Nat} (h : s ≤ s') : cur0 keys s ≤ cur0 keys s' := by
  unfold cur0
  apply List.countP_mono_left
  intro x _ hx
  simp only [decide_eq_true_eq] at hx ⊢
  omega

theorem startsSpec_props (np : Nat) (keys : List Nat) (hk : ∀ k ∈ keys, k < np) :
    (startsSpec np keys).length = np + 1 ∧ (startsSpec np keys).head? = some 0 ∧
    (startsSpec np keys).getLast? = some keys.length ∧ (startsSpec np keys).Pairwise (· ≤ ·) := by
  refine ⟨by simp [startsSpec], ?_, ?_, ?_⟩
  · simp [startsSpec, List.head?_range]
  · rw [startsSpec_succ, cur0_top np keys hk]; simp
  · unfold startsSpec
    rw [List.pairwise_map]
    apply List.Pairwise.imp _ List.pairwise_lt_range
    intro s s' h
    exact cur0_mono keys (Nat.le_of_lt h)

/-! ### the routine -/

theorem partition_eq (np T : Nat) (b : List Nat) (keyed : List (Nat × α)) (init : List α)
    (sort : Option (α → α → Bool))
    (hnp : 0 < np) (hT : 0 < T) (hb : BlocksOK T keyed.length b) (hk : KeysOK np keyed)
    (hi : init.length = keyed.length) :
    partition np T b keyed init sort = .ok
      ⟨(match sort with
        | none => stable np keyed
        | some le => sortSlices le (threadsOf (startsSpec np (keyed.map (·.1)))) (stable np keyed)),
       startsSpec np (keyed.map (·.1)), W keyed⟩ := by
  have hb' : BlocksOK T (keyed.map (·.1)).length b := by simpa using hb
  have hst := starts_eq np T b (keyed.map (·.1)) hb' (keysOK_keys hk)
  rw [List.length_map] at hst
  have haw : applyWritesChk init (W keyed) = .ok (stable np keyed) :=
    applyWritesChk_eq init (stable np keyed) (W keyed) keyed.length hi (stable_length np keyed hk)
      (W_slots_perm np keyed hk) (fun w hw => W_spec np keyed hk w.1 w.2 hw)
  unfold partition
  have h1 : ¬ (b.length ≠ T + 1 ∨ init.length ≠ keyed.length) := by
    rw [hb.1, hi]; simp
  have h2 : ¬ (np = 0 ∨ T = 0) := by omega
  rw [if_neg h1, if_neg h2]
  simp only [allWrites_eq np T b keyed hb hk, hst, haw]
  cases sort <;> rfl

/-! ### per-stripe sort -/

theorem threadsOf_cons_of_head (x y : Nat) (l : List Nat) (h : l.head? = some y) :
    threadsOf (x :: l) = (x, y) :: threadsOf l := by
  cases l with
  | nil => simp at h
  | cons z tl => simp at h; subst h; rfl

theorem sortSlices_nil (le : α → α → Bool) : ∀ (l : List (Nat × Nat)), sortSlices le l [] = [] := by
  intro l
  induction l with
  | nil => rfl
  | cons th rest ih => obtain ⟨lo, hi⟩ := th; simp [sortSlices, slice, ih]

theorem sortSlices_step (le : α → α → Bool) (rest : List (Nat × Nat)) (pre c tl : List α) :
    sortSlices le ((pre.length, pre.length + c.length) :: rest) (pre ++ (c ++ tl)) =
      sortSlices le rest ((pre ++ c.mergeSort le) ++ tl) := by
  have hmax : max pre.length (pre.length + c.length) = pre.length + c.length := by omega
  simp only [sortSlices, hmax]
  have h1 : (pre ++ (c ++ tl)).take pre.length = pre := List.take_left' rfl
  have h2 : slice pre.length (pre.length + c.length) (pre ++ (c ++ tl)) = c := by
    unfold slice
    rw [List.drop_left' rfl, Nat.add_sub_cancel_left, List.take_left' rfl]
  have h3 : (pre ++ (c ++ tl)).drop (pre.length + c.length) = tl := by
    rw [← List.append_assoc]
    exact List.drop_left' (by simp)
  rw [h1, h2, h3]

/-- (H) sorting the stripes one after the other, along a table of offsets `c` -/
theorem sortSlices_stripes (le : α → α → Bool) (F : Nat → List α) (c : Nat → Nat)
    (hc : ∀ s, c (s + 1) = c s + (F s).length) :
    ∀ (m s : Nat) (pre : List α), pre.length = c s →
      sortSlices le (threadsOf ((List.range' s (m + 1)).map c)) (pre ++ (List.range' s m).flatMap F) =
        pre ++ (List.range' s m).flatMap (fun s => (F s).mergeSort le) := by
  intro m
  induction m with
  | zero => intro s pre _; simp [threadsOf_single, sortSlices]
  | succ m ih =>
    intro s pre hpre
    have e1 : List.range' s (m + 1 + 1) = s :: List.range' (s + 1) (m + 1) := List.range'_succ ..
    have e2 : List.range' s (m + 1) = s :: List.range' (s + 1) m := List.range'_succ ..
    have hh : ((List.range' (s + 1) (m + 1)).map c).head? = some (c (s + 1)) := by
      simp [List.range'_succ]
    rw [e1, e2, List.map_cons, threadsOf_cons_of_head _ _ _ hh, List.flatMap_cons, List.flatMap_cons,
      hc s, ← hpre, sortSlices_step]
    rw [ih (s + 1) (pre ++ (F s).mergeSort le) (by simp [hc s, hpre])]
    simp

theorem cur0_succ (keyed : List (Nat × α)) (s : Nat) :
    cur0 (keyed.map (·.1)) (s + 1) = cur0 (keyed.map (·.1)) s + (members keyed s).length := by
  simp only [cur0, countP_lt_succ, members_length]

theorem sortSlices_stable (le : α → α → Bool) (np : Nat) (keyed : List (Nat × α)) :
    sortSlices le (threadsOf (startsSpec np (keyed.map (·.1)))) (stable np keyed) =
      (List.range np).flatMap (fun s => (members keyed s).mergeSort le) := by
  have := sortSlices_stripes le (members keyed) (cur0 (keyed.map (·.1))) (cur0_succ keyed) np 0 []
    (by simp [cur0])
  simp only [List.nil_append, ← List.range_eq_range'] at this
  exact this

theorem flatMap_prefix_length_congr {β} (F G : Nat → List β) (h : ∀ s, (G s).length = (F s).length)
    (k : Nat) : ((List.range k).flatMap G).length = ((List.range k).flatMap F).length := by
  simp [List.length_flatMap, h]

theorem sorted_stripe_slice (le : α → α → Bool) (np : Nat) (keyed : List (Nat × α)) (s : Nat)
    (hs : s < np) :
    slice (cur0 (keyed.map (·.1)) s) (cur0 (keyed.map (·.1)) (s + 1))
      ((List.range np).flatMap (fun s => (members keyed s).mergeSort le)) =
      (members keyed s).mergeSort le := by
  obtain ⟨B, hB⟩ := range_flatMap_split (fun s => (members keyed s).mergeSort le) np s hs
  have hl : ((List.range s).flatMap (fun s => (members keyed s).mergeSort le)).length =
      cur0 (keyed.map (·.1)) s := by
    rw [flatMap_prefix_length_congr (members keyed) _ (fun s => List.length_mergeSort _),
      stable_prefix_length]
  rw [hB, cur0_succ, ← hl]
  unfold slice
  rw [List.drop_left' rfl, Nat.add_sub_cancel_left, ← List.length_mergeSort (le := le),
    List.take_left' rfl]

/-! ### weights move with positions -/

theorem members_zip {π ω : Type} (s : Nat) : ∀ (keys : List Nat) (ps : List π) (ws : List ω),
    ps.length = keys.length → ws.length = keys.length →
    members (keys.zip (ps.zip ws)) s = (members (keys.zip ps) s).zip (members (keys.zip ws) s) ∧
    (members (keys.zip ps) s).length = (members (keys.zip ws) s).length := by
  intro keys
  induction keys with
  | nil => intro ps ws _ _; simp [members]
  | cons k r ih =>
    intro ps ws h1 h2
    cases ps with
    | nil => simp at h1
    | cons p ps =>
      cases ws with
      | nil => simp at h2
      | cons w ws =>
        simp only [List.length_cons, Nat.add_right_cancel_iff] at h1 h2
        obtain ⟨i1, i2⟩ := ih ps ws h1 h2
        unfold members at i1 i2 ⊢
        by_cases h : k = s
        · simp [h, i1]
          simpa using i2
        · simp [h, i1]
          simpa using i2

theorem flatMap_zip {β γ} (L : List Nat) (G : Nat → List β) (H : Nat → List γ)
    (h : ∀ s, (G s).length = (H s).length) :
    L.flatMap (fun s => (G s).zip (H s)) = (L.flatMap G).zip (L.flatMap H) := by
  induction L with
  | nil => simp
  | cons s L ih => simp only [List.flatMap_cons, ih, List.zip_append (h s)]

/-! ### keys -/

theorem keyInt_nonneg (np : Nat) (box x : ℚ) (hnp : 0 < np) (hbox : 0 < box) (hx0 : 0 ≤ x) :
    keyInt np box x = ((min (x * np / box).floor.toNat (np - 1) : Nat) : Int) := by
  unfold keyInt truncInt
  have hq : 0 ≤ x * ((np : ℚ) / box) := by positivity
  rw [if_pos hq, ← mul_div_assoc]
  have hq' : 0 ≤ x * (np : ℚ) / box := by positivity
  have hf : 0 ≤ (x * (np : ℚ) / box).floor := Int.floor_nonneg.mpr hq'
  omega

end AbacusVerif.Partition
