/-
  C13 — the exact-arithmetic model of the power-spectrum estimator over ℂ on the index set (ZMod n)³,
  and the helper lemmas behind `Props/C13.lean`.

  Pipeline of `abacusnbody/analysis/power_spectrum.py:calc_power`, abstractly:

    particles --deposit D (TSC/CIC, C06)--> grid --`normalize_field`: Φ·c − 1--> δ
      --`rfftn`: dft3--> δ_k  [--`shift_field_fft`: (δ_k + δ'_k · phase k) · norm--]
      --`/= W`--> F_k --`get_raw_power`: |F_k|² or Re(conj F_k · G_k)--> `bin_kmu` (weighted means per bin)

  * the deposit is a parameter `D : List Part → Grid n` with the two properties C06 proves of the
    TSC/CIC model (`IsDeposit`: additive over particle lists, roll-equivariant under whole-cell shifts);
  * the DFT is *defined* as the finite sum `Σ_x Φ x · exp(−2πi (k·x)/n)`;
  * `phase` and the compensation `W` are arbitrary per-mode functions in the theorems (so the theorems
    cover the coded ones: `codedPhase` below mirrors `shift_field_fft` with its `i < n1d // 2` folding,
    `Model/C13.lean: foldShift`);
  * binning is a weighted mean over a classification of the stored modes that does not see the grid.
-/
import AbacusVerif.Model.C13
import Mathlib.Analysis.Fourier.ZMod
import Mathlib.Algebra.BigOperators.Group.List.Basic
import Mathlib.Tactic.Ring
import Mathlib.Tactic.FieldSimp
import Mathlib.Analysis.SpecialFunctions.Trigonometric.Basic
import Mathlib.Tactic.Linarith
import Mathlib.Tactic.Positivity

namespace AbacusVerif.Power
open scoped BigOperators
open Complex

/-- grid index: a cell `(x, y, z)` or a mode `(kx, ky, kz)`, each component modulo `n` -/
abbrev Idx (n : ℕ) := ZMod n × ZMod n × ZMod n

/-- a (complex) grid on the `n³` cells -/
abbrev Grid (n : ℕ) := Idx n → ℂ

variable {n : ℕ}

/-- `k · x` modulo `n` -/
def dot (k x : Idx n) : ZMod n := k.1 * x.1 + k.2.1 * x.2.1 + k.2.2 * x.2.2

theorem dot_add (k x y : Idx n) : dot k (x + y) = dot k x + dot k y := by
  simp only [dot, Prod.fst_add, Prod.snd_add]; ring

theorem dot_zero (k : Idx n) : dot k (0 : Idx n) = 0 := by
  simp [dot]

/-- `np.roll` by `s` cells along the three axes: `(roll s Φ)[x] = Φ[x − s]` -/
def roll (s : Idx n) (Φ : Grid n) : Grid n := fun x => Φ (x - s)

/-- the DFT kernel `exp(−2πi j / n)` for `j` modulo `n` (through the representative `j.val ∈ [0, n)`) -/
noncomputable def kern (n : ℕ) (j : ZMod n) : ℂ :=
  Complex.exp (-(2 * (Real.pi : ℂ) * Complex.I * (j.val : ℂ) / (n : ℂ)))

/-- the 3-D DFT as the defining finite sum `Σ_x Φ x · exp(−2πi (k·x)/n)` (`scipy.fft.rfftn`/`fftn` convention) -/
noncomputable def dft3 [NeZero n] (Φ : Grid n) (k : Idx n) : ℂ :=
  ∑ x : Idx n, Φ x * kern n (dot k x)

section kern
variable [NeZero n]

theorem kern_eq_stdAddChar (j : ZMod n) : kern n j = ZMod.stdAddChar (-j) := by
  rw [AddChar.map_neg_eq_inv, ZMod.stdAddChar_apply, ZMod.toCircle_apply, kern, Complex.exp_neg]

theorem kern_add (a b : ZMod n) : kern n (a + b) = kern n a * kern n b := by
  simp only [kern_eq_stdAddChar, neg_add, AddChar.map_add_eq_mul]

theorem kern_zero : kern n (0 : ZMod n) = 1 := by
  simp [kern_eq_stdAddChar]

theorem kern_normSq (j : ZMod n) : Complex.normSq (kern n j) = 1 := by
  rw [kern_eq_stdAddChar, ZMod.stdAddChar_apply, Circle.normSq_coe]

theorem kern_conj_mul (j : ZMod n) : (starRingEnd ℂ) (kern n j) * kern n j = 1 := by
  rw [mul_comm, Complex.mul_conj, kern_normSq, Complex.ofReal_one]

/-- periodicity: for an integer `j`, the kernel at `j mod n` is `exp(−2πi j/n)` -/
theorem kern_intCast (j : ℤ) :
    kern n (j : ZMod n) = Complex.exp (-(2 * (Real.pi : ℂ) * Complex.I * (j : ℂ) / (n : ℂ))) := by
  rw [kern_eq_stdAddChar, AddChar.map_neg_eq_inv, ZMod.stdAddChar_coe, Complex.exp_neg]

theorem kern_eq_one_iff (j : ZMod n) : kern n j = 1 ↔ j = 0 := by
  rw [kern_eq_stdAddChar]
  constructor
  · intro h
    have h0 : ZMod.stdAddChar (-j) = ZMod.stdAddChar (0 : ZMod n) := by
      rw [h, AddChar.map_zero_eq_one]
    have := ZMod.injective_stdAddChar h0
    simpa using this
  · intro h; simp [h]

end kern

/-! ### the deposit as a parameter -/

/-- What the symmetry theorems need of mass assignment: it is additive over the particle list and
commutes with whole-cell periodic translations.  These are C06's theorems `additive` and
`roll_equivariant` about the TSC/CIC model (`perm_invariant` follows, `deposit_perm`). -/
structure IsDeposit {Part : Type} (shift : Idx n → Part → Part) (D : List Part → Grid n) : Prop where
  additive : ∀ P Q, D (P ++ Q) = D P + D Q
  roll_equivariant : ∀ s P, D (P.map (shift s)) = roll s (D P)

theorem IsDeposit.nil {Part : Type} {shift : Idx n → Part → Part} {D : List Part → Grid n}
    (h : IsDeposit shift D) : D [] = 0 := by
  have := h.additive [] []
  simp only [List.append_nil] at this
  exact left_eq_add.mp this

theorem IsDeposit.cons {Part : Type} {shift : Idx n → Part → Part} {D : List Part → Grid n}
    (h : IsDeposit shift D) (p : Part) (P : List Part) : D (p :: P) = D [p] + D P := by
  simpa using h.additive [p] P

theorem deposit_perm {Part : Type} {shift : Idx n → Part → Part} {D : List Part → Grid n}
    (h : IsDeposit shift D) {P Q : List Part} (hp : P.Perm Q) : D P = D Q := by
  induction hp with
  | nil => rfl
  | @cons x l₁ l₂ _ ih => rw [h.cons x l₁, h.cons x l₂, ih]
  | swap x y l => rw [h.cons y (x :: l), h.cons x l, h.cons x (y :: l), h.cons y l]; abel
  | trans _ _ ih1 ih2 => exact ih1.trans ih2

/-! ### the pipeline -/

/-- `normalize_field(field, tot_weight = len(pos))`: `field · (field.size / len(pos)) − 1`.
For an empty particle list the real code raises `ZeroDivisionError`; nothing is claimed about the value
this definition takes there (`x / 0 = 0` in Lean) — `calcPower` below returns `none` in that case. -/
noncomputable def delta {Part : Type} (D : List Part → Grid n) (P : List Part) : Grid n :=
  fun x => D P x * (((n : ℂ) ^ 3) / (P.length : ℂ)) - 1

/-- `get_field_fft`: not interlaced `rfftn(δ) · (1/size)`; interlaced
`(rfftn(δ) + rfftn(δ') · phase) · (0.5/size)` where `δ'` is the field of the same particles deposited
with a half-cell offset; then the division by the real window `W` (`W = 1` when not compensated). -/
noncomputable def fourierField [NeZero n] {Part : Type} (D D' : List Part → Grid n) (interlaced : Bool)
    (phase : Idx n → ℂ) (W : Idx n → ℝ) (P : List Part) : Idx n → ℂ :=
  fun k =>
    (if interlaced then (dft3 (delta D P) k + dft3 (delta D' P) k * phase k) * ((1 / 2) / (n : ℂ) ^ 3)
     else dft3 (delta D P) k * (1 / (n : ℂ) ^ 3)) / (W k : ℂ)

/-- `get_raw_power(field_fft)`: `|F_k|²` -/
def autoPower (F : Idx n → ℂ) : Idx n → ℝ := fun k => Complex.normSq (F k)

/-- `get_raw_power(field_fft, field2_fft)`: `Re(conj(F_k) · G_k)` -/
noncomputable def crossPower (F G : Idx n → ℂ) : Idx n → ℝ :=
  fun k => ((starRingEnd ℂ) (F k) * G k).re

/-- the phase `shift_field_fft` multiplies the shifted field with: `exp(i · (d/2) · (kx + ky + kz))`,
`d = L/n`, `k = (2π/L) · m`, with the code's signed frequencies `m` (`foldShift` for the first two axes —
`i < n1d // 2` — and the unfolded row index along the halved last axis) -/
noncomputable def codedPhase (n : ℕ) (k : Idx n) : ℂ :=
  Complex.exp (Complex.I * (((Real.pi / n : ℝ) *
    ((foldShift n k.1.val + foldShift n k.2.1.val + (k.2.2.val : ℤ) : ℤ) : ℝ) : ℝ) : ℂ))

/-! ### binning -/

/-- `bin_kmu` seen from the grid: which modes are stored (`modes`, the `rfftn` half-plane), which
`(k, mu)` bin (`cls`) and which `k` bin (`clsK`) each falls into (`none`: out of range), with which
multiplicity (`mult`: 1 on self-conjugate planes, 2 otherwise), its `|k|` (`kmag`) and its Legendre
weights `(2ℓ+1) P_ℓ(mu)` (`poleW`).  None of the fields takes the grid or the particles. -/
structure Binning (n : ℕ) (β γ ι : Type) where
  modes : Finset (Idx n)
  cls : Idx n → Option β
  clsK : Idx n → Option γ
  mult : Idx n → ℕ
  kmag : Idx n → ℝ
  poleW : ι → Idx n → ℝ

namespace Binning
variable {β γ ι : Type} [DecidableEq β] [DecidableEq γ] (B : Binning n β γ ι)

/-- `counts[bk, bmu]` -/
def counts (b : β) : ℕ := ∑ k ∈ B.modes.filter (fun k => B.cls k = some b), B.mult k
/-- `counts_poles[bk]` -/
def countsK (g : γ) : ℕ := ∑ k ∈ B.modes.filter (fun k => B.clsK k = some g), B.mult k
/-- the weighted sum of a per-mode quantity over a `(k, mu)` bin -/
def wsum (f : Idx n → ℝ) (b : β) : ℝ :=
  ∑ k ∈ B.modes.filter (fun k => B.cls k = some b), (B.mult k : ℝ) * f k
/-- the weighted sum of a per-mode quantity over a `k` bin -/
def wsumK (f : Idx n → ℝ) (g : γ) : ℝ :=
  ∑ k ∈ B.modes.filter (fun k => B.clsK k = some g), (B.mult k : ℝ) * f k

/-- what thread `t` accumulates when rows (first index) are handed out by `assign` -/
def partialSum {T : Type} [DecidableEq T] (assign : ZMod n → T) (f : Idx n → ℝ) (t : T) (b : β) : ℝ :=
  ∑ k ∈ B.modes.filter (fun k => assign k.1 = t ∧ B.cls k = some b), (B.mult k : ℝ) * f k

def partialCount {T : Type} [DecidableEq T] (assign : ZMod n → T) (t : T) (b : β) : ℕ :=
  ∑ k ∈ B.modes.filter (fun k => assign k.1 = t ∧ B.cls k = some b), B.mult k

end Binning

/-- the columns of `calc_power`'s table -/
structure Table (β γ ι : Type) where
  N_mode : β → ℕ
  N_mode_poles : γ → ℕ
  k_avg : β → ℝ
  power : β → ℝ
  poles : ι → γ → ℝ

/-- `calc_pk_from_deltak`: bin a per-mode raw power `p` -/
noncomputable def binTable {β γ ι : Type} [DecidableEq β] [DecidableEq γ] (B : Binning n β γ ι)
    (p : Idx n → ℝ) : Table β γ ι where
  N_mode := B.counts
  N_mode_poles := B.countsK
  k_avg := fun b => B.wsum B.kmag b / (B.counts b : ℝ)
  power := fun b => B.wsum p b / (B.counts b : ℝ)
  poles := fun l g => B.wsumK (fun k => B.poleW l k * p k) g / (B.countsK g : ℝ)


/-! ### the coded compensation window -/

/-- `np.sinc` -/
noncomputable def sincR (x : ℝ) : ℝ := if x = 0 then 1 else Real.sin (Real.pi * x) / (Real.pi * x)

/-- one axis of `get_W_compensated` (independent of `Lbox`: `0.5 k/kN = m/n` with `m = fftfreq(n)·n`) -/
noncomputable def codedW1 (n : ℕ) (paste : Paste) (interlaced : Bool) (i : ZMod n) : ℝ :=
  let m : ℝ := ((fftfreqInt n i.val : ℤ) : ℝ)
  if interlaced then
    sincR (m / n) ^ (match paste with | .tsc => 3 | .cic => 2)
  else
    let s := Real.sin (Real.pi * m / n) ^ 2
    match paste with
    | .tsc => Real.sqrt (1 - s + 2 / 15 * s ^ 2)
    | .cic => Real.sqrt (1 - 2 / 3 * s)

noncomputable def codedW (n : ℕ) (paste : Paste) (interlaced : Bool) (k : Idx n) : ℝ :=
  codedW1 n paste interlaced k.1 * codedW1 n paste interlaced k.2.1 * codedW1 n paste interlaced k.2.2

theorem fftfreqInt_bounds {n i : ℕ} (hi : i < n) :
    -(n : ℤ) ≤ 2 * fftfreqInt n i ∧ 2 * fftfreqInt n i ≤ n := by
  unfold fftfreqInt
  split_ifs with h <;> omega

theorem sincR_pos {x : ℝ} (h1 : -(1/2) ≤ x) (h2 : x ≤ 1/2) : 0 < sincR x := by
  unfold sincR
  split_ifs with h0
  · exact one_pos
  · rcases lt_or_gt_of_ne h0 with hneg | hpos
    · have hs : Real.sin (Real.pi * x) < 0 := by
        have : Real.sin (Real.pi * x) = - Real.sin (Real.pi * (-x)) := by rw [mul_neg, Real.sin_neg, neg_neg]
        rw [this]
        have : 0 < Real.sin (Real.pi * (-x)) := by
          apply Real.sin_pos_of_pos_of_lt_pi
          · have := Real.pi_pos; nlinarith
          · have := Real.pi_pos; nlinarith
        linarith
      have hd : Real.pi * x < 0 := by have := Real.pi_pos; nlinarith
      exact div_pos_of_neg_of_neg hs hd
    · have hs : 0 < Real.sin (Real.pi * x) := by
        apply Real.sin_pos_of_pos_of_lt_pi
        · have := Real.pi_pos; nlinarith
        · have := Real.pi_pos; nlinarith
      have hd : 0 < Real.pi * x := by have := Real.pi_pos; nlinarith
      exact div_pos hs hd

theorem codedW1_pos {n : ℕ} [NeZero n] (paste : Paste) (interlaced : Bool) (i : ZMod n) :
    0 < codedW1 n paste interlaced i := by
  have hn : (0 : ℝ) < n := by exact_mod_cast Nat.pos_of_ne_zero (NeZero.ne n)
  have hb := fftfreqInt_bounds (ZMod.val_lt i)
  have hb1 : -(n : ℝ) ≤ 2 * ((fftfreqInt n i.val : ℤ) : ℝ) := by exact_mod_cast hb.1
  have hb2 : 2 * ((fftfreqInt n i.val : ℤ) : ℝ) ≤ n := by exact_mod_cast hb.2
  unfold codedW1
  cases interlaced
  · simp only [Bool.false_eq_true, if_false]
    have hs0 : 0 ≤ Real.sin (Real.pi * ((fftfreqInt n i.val : ℤ) : ℝ) / n) ^ 2 := sq_nonneg _
    have hs1 : Real.sin (Real.pi * ((fftfreqInt n i.val : ℤ) : ℝ) / n) ^ 2 ≤ 1 := Real.sin_sq_le_one _
    cases paste
    · apply Real.sqrt_pos.2; nlinarith
    · apply Real.sqrt_pos.2; nlinarith
  · simp only [if_true]
    apply pow_pos
    apply sincR_pos
    · rw [le_div_iff₀ hn]; linarith
    · rw [div_le_iff₀ hn]; linarith


/-! ### `calc_power`, end to end -/

/-- `calc_power` raises `ZeroDivisionError` (in `normalize_field`: `field.size / tot_weight` with
`tot_weight = len(pos) = 0`) when a particle set is empty -/
def rejects {Part : Type} (P : List Part) (P2 : Option (List Part)) : Bool :=
  P.isEmpty || (match P2 with | none => false | some Q => Q.isEmpty)

/-- the table of an accepted call: window (if `compensated`), Fourier field(s) with the coded interlacing
phase, raw auto or cross power, binning -/
noncomputable def calcTable [NeZero n] {Part β γ ι : Type} [DecidableEq β] [DecidableEq γ]
    (D D' : List Part → Grid n) (paste : Paste) (compensated interlaced : Bool) (B : Binning n β γ ι)
    (P : List Part) (P2 : Option (List Part)) : Table β γ ι :=
  let W : Idx n → ℝ := if compensated then codedW n paste interlaced else fun _ => 1
  let F := fourierField D D' interlaced (codedPhase n) W P
  match P2 with
  | none => binTable B (autoPower F)
  | some Q => binTable B (crossPower F (fourierField D D' interlaced (codedPhase n) W Q))

/-- `calc_power(pos, …, pos2)`: `none` where the real code raises, else the table -/
noncomputable def calcPower [NeZero n] {Part β γ ι : Type} [DecidableEq β] [DecidableEq γ]
    (D D' : List Part → Grid n) (paste : Paste) (compensated interlaced : Bool) (B : Binning n β γ ι)
    (P : List Part) (P2 : Option (List Part)) : Option (Table β γ ι) :=
  if rejects P P2 then none else some (calcTable D D' paste compensated interlaced B P P2)

theorem rejects_map {Part : Type} (f : Part → Part) (P : List Part) :
    rejects (P.map f) none = rejects P none := by
  simp [rejects]

theorem rejects_map₂ {Part : Type} (f : Part → Part) (P Q : List Part) :
    rejects (P.map f) (some (Q.map f)) = rejects P (some Q) := by
  simp [rejects]

theorem isEmpty_perm {Part : Type} {P Q : List Part} (h : P.Perm Q) : P.isEmpty = Q.isEmpty := by
  cases P <;> cases Q <;> simp_all

/-! ### helper lemmas -/

theorem roll_delta {Part : Type} {shift : Idx n → Part → Part} {D : List Part → Grid n}
    (h : IsDeposit shift D) (s : Idx n) (P : List Part) :
    delta D (P.map (shift s)) = roll s (delta D P) := by
  funext x
  simp only [delta, roll, List.length_map, h.roll_equivariant s P]

theorem normSq_unit_mul {e z : ℂ} (he : Complex.normSq e = 1) : Complex.normSq (e * z) = Complex.normSq z := by
  rw [Complex.normSq_mul, he, one_mul]

/-! ### a concrete deposit for the non-vacuity examples: nearest grid point -/

/-- nearest-grid-point assignment of particles `(cell, weight)` -/
def ngp (P : List (Idx n × ℂ)) : Grid n := fun x => (P.map (fun p => if p.1 = x then p.2 else 0)).sum

/-- whole-cell translation of such a particle -/
def ngpShift (s : Idx n) (p : Idx n × ℂ) : Idx n × ℂ := (p.1 + s, p.2)

theorem ngp_isDeposit : IsDeposit (n := n) ngpShift ngp where
  additive P Q := by
    funext x
    simp [ngp, List.map_append, List.sum_append]
  roll_equivariant s P := by
    funext x
    simp only [ngp, roll, List.map_map]
    congr 1
    apply List.map_congr_left
    intro p _
    simp only [Function.comp, ngpShift]
    by_cases h : p.1 = x - s
    · have : p.1 + s = x := by rw [h]; abel
      simp [h]
    · have : ¬ p.1 + s = x := fun h2 => h (by rw [← h2]; abel)
      simp [h, this]

end AbacusVerif.Power
