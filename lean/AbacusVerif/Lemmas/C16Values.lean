/-
  Helper lemmas for the value part of the read_asdf model (Model/C16Values.lean): closed forms of the columns that
  `assembleV` and `directAll` build from the C04 / C15 model decoders.
-/
import AbacusVerif.Model.C16Values
import AbacusVerif.Lemmas.C16
import AbacusVerif.Props.C04
import AbacusVerif.Props.C15

namespace AbacusVerif.ReadAsdf
open AbacusVerif

theorem triples_flatten (rows : List Bitpacked.Row32) : Bitpacked.triples (flatten rows) = some rows := by
  induction rows with
  | nil => rfl
  | cons r rest ih =>
    obtain ⟨a, b, c⟩ := r
    have e : flatten ((a, b, c) :: rest) = a :: b :: c :: flatten rest := rfl
    rw [e]
    simp only [Bitpacked.triples, ih]
    rfl

/-- writing row `k` with `xs[k]` for every `k` into a fresh column gives `xs` -/
theorem applyWrites_full (xs : List Cell) :
    applyWrites (emptyCol xs.length) ((List.range xs.length).zip xs) = xs := by
  have e : (List.range xs.length).zip xs = (List.range xs.length).map (fun k => (k, xs.getD k .uninit)) := by
    apply List.ext_getElem
    · simp
    · intro i h1 h2
      simp at h1
      simp [h1]
  rw [e, Cumsum.applyWrites_range _ _ _ (by simp [emptyCol])]
  apply List.ext_getElem
  · simp
  · intro i h1 h2
    simp at h1
    simp [h1]

/-- the column a C04 kernel leaves behind when it writes `f x` for every input `x` -/
theorem bp_full {ι : Type} (f : ι → Bitpacked.Val) (xs : List ι) :
    applyWrites (emptyCol xs.length) (bpWrites (Bitpacked.fullWrites f xs)) = xs.map (fun x => Cell.bp (f x)) := by
  have e : bpWrites (Bitpacked.fullWrites f xs) =
      (List.range (xs.map (fun x => Cell.bp (f x))).length).zip (xs.map (fun x => Cell.bp (f x))) := by
    simp only [bpWrites, Bitpacked.fullWrites, List.length_map]
    apply List.ext_getElem
    · simp
    · intro i h1 h2
      simp
  have hl : xs.length = (xs.map (fun x => Cell.bp (f x))).length := by simp
  rw [e]
  conv => lhs; rw [hl]
  exact applyWrites_full _


/-! ### rvint -/

/-- the column of values `f r` -/
def bpCol {ι : Type} (f : ι → Bitpacked.Val) (xs : List ι) : List Cell := xs.map (fun x => Cell.bp (f x))

/-- the request `read_asdf` makes for one rvint output -/
def rvReq (want : Bool) (n : Nat) : Bitpacked.OutReq := if want then .supplied (3 * n) else .skip

theorem rvReq_ok (want : Bool) (n : Nat) :
    Bitpacked.shapeOk (rvReq want n) = true ∧ Bitpacked.fits n (rvReq want n) = true := by
  cases want <;> simp [rvReq, Bitpacked.shapeOk, Bitpacked.fits]

theorem unpackRvint_read (rows : List Bitpacked.Row32) (box : Rat) (wp wv : Bool) :
    Bitpacked.unpackRvint (flatten rows) box (rvReq wp rows.length) (rvReq wv rows.length) =
      .ok (Bitpacked.expectedRet (rvReq wp rows.length) (Bitpacked.posRow box) rows,
           Bitpacked.expectedRet (rvReq wv rows.length) Bitpacked.velRow rows) := by
  rw [Bitpacked.unpackRvint_spec, triples_flatten]
  simp [(rvReq_ok wp rows.length).1, (rvReq_ok wp rows.length).2, (rvReq_ok wv rows.length).1,
    (rvReq_ok wv rows.length).2]

theorem unpackRvint_direct (rows : List Bitpacked.Row32) (box : Rat) :
    Bitpacked.unpackRvint (flatten rows) box .allocate .allocate =
      .ok (.arr rows.length (Bitpacked.fullWrites (Bitpacked.posRow box) rows),
           .arr rows.length (Bitpacked.fullWrites Bitpacked.velRow rows)) := by
  rw [Bitpacked.unpackRvint_spec, triples_flatten]
  simp [Bitpacked.shapeOk, Bitpacked.fits, Bitpacked.expectedRet]

/-- number of rows `read_asdf` keeps of an rvint / pack9 table holding `n` particles -/
def rvNread (load : List Col) (n : Nat) : Nat :=
  max (if Col.pos ∈ load then n else 0) (if Col.vel ∈ load then n else 0)

theorem assembleV_rvint (rows : List Bitpacked.Row32) (load : List Col) (h : HdrVals) (cast : Rat → Rat) :
    assembleV (.known .rvint) (.rvint rows) load h cast =
      .ok (truncate (rvNread load rows.length)
        (optCol load .pos (bpCol (Bitpacked.posRow h.box) rows) ++
         optCol load .vel (bpCol Bitpacked.velRow rows) ++
         optCol load .aux (rows.map .raw32))) := by
  have key := unpackRvint_read rows h.box (decide (Col.pos ∈ load)) (decide (Col.vel ∈ load))
  simp only [assembleV, Raw.len]
  by_cases hp : Col.pos ∈ load <;> by_cases hv : Col.vel ∈ load <;>
    simp only [hp, hv, rvReq, decide_true, decide_false, if_true, if_false, Bool.false_eq_true] at key ⊢ <;>
    rw [key] <;>
    simp [Bitpacked.expectedRet, bpCount, bpRetWrites, rvNread, hp, hv, optCol, bp_full, bpCol, Raw.cells]

theorem directAll_rvint (rows : List Bitpacked.Row32) (h : HdrVals) (cast : Rat → Rat) :
    directAll (.known .rvint) (.rvint rows) h cast =
      .ok [(.pos, bpCol (Bitpacked.posRow h.box) rows), (.vel, bpCol Bitpacked.velRow rows)] := by
  simp only [directAll, unpackRvint_direct, bpRetCells, bp_full, bpCol]

theorem mem_optCol (load : List Col) (c c' : Col) (cells v : List Cell) :
    (c, v) ∈ optCol load c' cells ↔ (c' ∈ load ∧ c = c' ∧ v = cells) := by
  unfold optCol
  by_cases h : c' ∈ load <;> simp [h]

theorem mem_truncate (n : Nat) (cols : List Column) (c : Col) (v : List Cell) :
    (c, v) ∈ truncate n cols ↔ ∃ v', (c, v') ∈ cols ∧ v = v'.take n := by
  unfold truncate
  simp only [List.mem_map, Prod.mk.injEq]
  constructor
  · rintro ⟨⟨c', v'⟩, hm, rfl, rfl⟩; exact ⟨v', hm, rfl⟩
  · rintro ⟨v', hm, rfl⟩; exact ⟨(c, v'), hm, rfl, rfl⟩


/-! ### packed PIDs -/

/-- the switches `read_asdf` passes to `unpack_pids` -/
def selOf (load : List Col) : Bitpacked.PidSel :=
  ⟨decide (Col.pid ∈ load), decide (Col.lagr_pos ∈ load), decide (Col.tagged ∈ load),
   decide (Col.density ∈ load), decide (Col.lagr_idx ∈ load)⟩

theorem unpackPids_read (packed : List (BitVec 64)) (b q : Rat) (sel : Bitpacked.PidSel) :
    Bitpacked.unpackPids packed (some b) (some q) sel =
      match Bitpacked.ppdOf (some q) with
      | none => .error .rejected
      | some P => if P = 0 then .error .rejected else .ok (Bitpacked.expectedPids packed b P sel) := by
  rw [Bitpacked.unpackPids_spec]
  simp only [Option.isNone_some, Bool.or_self, Bool.and_false, Bool.false_eq_true, if_false, Bitpacked.boxOf]
  cases Bitpacked.ppdOf (some q) <;> rfl

/-- a dictionary entry of `unpack_pids` as table column -/
def toColumn (e : String × Nat × Bitpacked.Writes) : Column :=
  (colOfName e.1, applyWrites (emptyCol e.2.1) (bpWrites e.2.2))

/-- the PID-derived columns in dictionary order -/
def pidCols (packed : List (BitVec 64)) (b : Rat) (P : Int) (load : List Col) : List Column :=
  optCol load .pid (bpCol (fun w => .int (Bitpacked.pid w)) packed) ++
  optCol load .lagr_pos (bpCol (Bitpacked.lagrPosRow b P) packed) ++
  optCol load .lagr_idx (bpCol Bitpacked.lagrIdxRow packed) ++
  optCol load .tagged (bpCol (fun w => .int (Bitpacked.tagged w)) packed) ++
  optCol load .density (bpCol (fun w => .int (Bitpacked.density w)) packed)

theorem map_if_single {α β : Type} (p : Prop) [Decidable p] (x : α) (g : α → β) :
    (if p then [x] else []).map g = if p then [g x] else [] := by
  split <;> rfl

theorem colOfName_names : colOfName "pid" = .pid ∧ colOfName "lagr_pos" = .lagr_pos ∧
    colOfName "lagr_idx" = .lagr_idx ∧ colOfName "tagged" = .tagged ∧ colOfName "density" = .density := by
  decide

theorem expectedPids_cols (packed : List (BitVec 64)) (b : Rat) (P : Int) (load : List Col) :
    (Bitpacked.expectedPids packed b P (selOf load)).map toColumn = pidCols packed b P load := by
  obtain ⟨n1, n2, n3, n4, n5⟩ := colOfName_names
  simp only [Bitpacked.expectedPids, selOf, List.map_append, map_if_single, toColumn, bp_full, n1, n2, n3, n4, n5,
    pidCols, optCol, bpCol, decide_eq_true_eq]

theorem assembleV_pids (cn : ColName) (hcn : cn.hasPid = true) (packed : List (BitVec 64)) (load : List Col)
    (h : HdrVals) (cast : Rat → Rat) :
    assembleV cn (.pids packed) load h cast =
      match Bitpacked.ppdOf (some ((rhe h.ppd : Int) : Rat)) with
      | none => .error (.decode .rejected)
      | some P =>
        if P = 0 then .error (.decode .rejected)
        else .ok (truncate packed.length
          (optCol load .pos (emptyCol packed.length) ++ optCol load .vel (emptyCol packed.length) ++
           optCol load .aux (packed.map .raw64) ++ pidCols packed h.box P load)) := by
  have e : assembleV cn (.pids packed) load h cast =
      match Bitpacked.unpackPids packed (some h.box) (some ((rhe h.ppd : Int) : Rat)) (selOf load) with
      | .error e => .error (.decode e)
      | .ok d => .ok (truncate packed.length
          (optCol load .pos (emptyCol packed.length) ++ optCol load .vel (emptyCol packed.length) ++
           optCol load .aux (packed.map .raw64) ++ d.map toColumn)) := by
    cases cn with
    | known k => cases k <;> simp [ColName.hasPid] at hcn <;> rfl
    | other b => cases b <;> simp [ColName.hasPid] at hcn; rfl
  rw [e, unpackPids_read]
  cases Bitpacked.ppdOf (some ((rhe h.ppd : Int) : Rat)) with
  | none => rfl
  | some P =>
    by_cases hP : P = 0
    · simp [hP]
    · simp only [hP, if_false, expectedPids_cols]

theorem directAll_pids (cn : ColName) (hcn : cn.hasPid = true) (packed : List (BitVec 64))
    (h : HdrVals) (cast : Rat → Rat) :
    directAll cn (.pids packed) h cast =
      match Bitpacked.ppdOf (some ((rhe h.ppd : Int) : Rat)) with
      | none => .error (.decode .rejected)
      | some P =>
        if P = 0 then .error (.decode .rejected)
        else .ok (pidCols packed h.box P [.pid, .lagr_pos, .lagr_idx, .tagged, .density] ++
                  [(.aux, packed.map .raw64)]) := by
  have e : directAll cn (.pids packed) h cast =
      match Bitpacked.unpackPids packed (some h.box) (some ((rhe h.ppd : Int) : Rat))
          (selOf [.pid, .lagr_pos, .lagr_idx, .tagged, .density]) with
      | .error e => .error (.decode e)
      | .ok d => .ok (d.map toColumn ++ [(.aux, packed.map .raw64)]) := by
    have hs : selOf [.pid, .lagr_pos, .lagr_idx, .tagged, .density] = ⟨true, true, true, true, true⟩ := by decide
    rw [hs]
    cases cn with
    | known k => cases k <;> simp [ColName.hasPid] at hcn <;> rfl
    | other b => cases b <;> simp [ColName.hasPid] at hcn; rfl
  rw [e, unpackPids_read]
  cases Bitpacked.ppdOf (some ((rhe h.ppd : Int) : Rat)) with
  | none => rfl
  | some P =>
    by_cases hP : P = 0
    · simp [hP]
    · simp only [hP, if_false, expectedPids_cols]


/-! ### pack9 -/

/-- the request `read_asdf` makes for one pack9 output -/
def p9Req (want : Bool) (n : Nat) : Pack9.OutOpt := if want then .supplied n else .skip

/-- a successful `unpack_pack9` call, whatever its output options, means the all-outputs call succeeds too -/
theorem unpackPack9_alloc_ok (recs : List Pack9.Rec) (b v : Rat) (po vo : Pack9.OutOpt) (r : Pack9.Result)
    (h : Pack9.unpackPack9 recs b v po vo = .ok r) :
    ∃ r', Pack9.unpackPack9 recs b v .alloc .alloc = .ok r' := by
  simp only [Pack9.unpackPack9, bind, Except.bind] at h
  cases hk : Pack9.unpackKernel recs b v (po.len recs.length) (vo.len recs.length) with
  | error e => rw [hk] at h; cases h
  | ok o =>
    have hok := Pack9.loop_ok_headers b v _ _ recs none 0 o hk
    have hfit : Pack9.Fits (some recs.length) (0 + (Pack9.nonHeaders recs).length) := by
      intro L hL; cases hL; simpa using Pack9.nonHeaders_length_le recs
    obtain ⟨o', ho', -⟩ := Pack9.loop_spec b v (some recs.length) (some recs.length) recs none 0 hok hfit hfit
    refine ⟨{ retPos := Pack9.mkRet recs.length o'.npart o'.posW .alloc,
              retVel := Pack9.mkRet recs.length o'.npart o'.velW .alloc, out := o' }, ?_⟩
    simp only [Pack9.unpackPack9, Pack9.unpackKernel, Pack9.OutOpt.len, ho', bind, Except.bind]

/-- the cells of the array `unpack_pack9` allocates and returns -/
theorem p9RetCells_alloc (nmax npart : Nat) (ws : List (Nat × Pack9.V3)) :
    p9RetCells (Pack9.mkRet nmax npart ws .alloc) = (applyWrites (emptyCol nmax) (p9Writes ws)).take npart := by
  simp only [Pack9.mkRet, p9RetCells, List.map_take, Pack9.applyWrites_map, List.map_replicate, List.map_map,
    optV3Cell, emptyCol, p9Writes]
  rfl

theorem assembleV_pack9 (recs : List Pack9.Rec) (load : List Col) (h : HdrVals) (cast : Rat → Rat) :
    assembleV (.known .pack9) (.pack9 recs) load h cast =
      match Pack9.unpackPack9 recs (cast h.box) (cast h.velz) (p9Req (decide (Col.pos ∈ load)) recs.length)
          (p9Req (decide (Col.vel ∈ load)) recs.length) with
      | .error e => .error (.decode e)
      | .ok r => .ok (truncate (rvNread load r.out.npart)
          (optCol load .pos (applyWrites (emptyCol recs.length) (p9Writes r.out.posW)) ++
           optCol load .vel (applyWrites (emptyCol recs.length) (p9Writes r.out.velW)) ++
           optCol load .aux (recs.map .raw9))) := by
  simp only [assembleV, Raw.len, Raw.cells]
  by_cases hp : Col.pos ∈ load <;> by_cases hv : Col.vel ∈ load <;>
    simp only [hp, hv, p9Req, decide_true, decide_false, if_true, if_false, Bool.false_eq_true] <;>
    (cases hr : Pack9.unpackPack9 recs (cast h.box) (cast h.velz) _ _ with
     | error e => rfl
     | ok r =>
       simp only [Pack9.unpackPack9, bind, Except.bind] at hr
       cases hk : Pack9.unpackKernel recs (cast h.box) (cast h.velz) _ _ with
       | error e => rw [hk] at hr; cases hr
       | ok o =>
         rw [hk] at hr
         cases hr
         simp [Pack9.mkRet, p9Count, rvNread, hp, hv])

theorem directAll_pack9 (recs : List Pack9.Rec) (h : HdrVals) (cast : Rat → Rat) :
    directAll (.known .pack9) (.pack9 recs) h cast =
      match Pack9.unpackPack9 recs (cast h.box) (cast h.velz) .alloc .alloc with
      | .error e => .error (.decode e)
      | .ok r => .ok [(.pos, (applyWrites (emptyCol recs.length) (p9Writes r.out.posW)).take r.out.npart),
                      (.vel, (applyWrites (emptyCol recs.length) (p9Writes r.out.velW)).take r.out.npart)] := by
  simp only [directAll]
  cases hr : Pack9.unpackPack9 recs (cast h.box) (cast h.velz) .alloc .alloc with
  | error e => rfl
  | ok r =>
    simp only [Pack9.unpackPack9, bind, Except.bind] at hr
    cases hk : Pack9.unpackKernel recs (cast h.box) (cast h.velz) _ _ with
    | error e => rw [hk] at hr; cases hr
    | ok o =>
      rw [hk] at hr
      cases hr
      simp only [p9RetCells_alloc]


/-! ### every loadable column of the table is a column of the direct decoding -/

theorem bpCol_length {ι : Type} (f : ι → Bitpacked.Val) (xs : List ι) : (bpCol f xs).length = xs.length := by
  simp [bpCol]

theorem rvNread_pos (load : List Col) (n : Nat) (h : Col.pos ∈ load) : rvNread load n = n := by
  simp only [rvNread, h, if_true]; split <;> omega

theorem rvNread_vel (load : List Col) (n : Nat) (h : Col.vel ∈ load) : rvNread load n = n := by
  simp only [rvNread, h, if_true]; split <;> omega

theorem direct_rvint (rows : List Bitpacked.Row32) (load : List Col) (h : HdrVals) (cast : Rat → Rat)
    (cols : List Column) (hok : assembleV (.known .rvint) (.rvint rows) load h cast = .ok cols)
    (c : Col) (v : List Cell) (hm : (c, v) ∈ cols) (hc : c = .pos ∨ c = .vel) :
    (c, v) ∈ [(Col.pos, bpCol (Bitpacked.posRow h.box) rows), (Col.vel, bpCol Bitpacked.velRow rows)] := by
  rw [assembleV_rvint] at hok
  cases hok
  obtain ⟨v', hm', rfl⟩ := (mem_truncate _ _ _ _).mp hm
  simp only [List.mem_append, mem_optCol] at hm'
  rcases hm' with (⟨hl, rfl, rfl⟩ | ⟨hl, rfl, rfl⟩) | ⟨hl, rfl, rfl⟩
  · rw [rvNread_pos _ _ hl, List.take_of_length_le (by simp [bpCol])]; simp
  · rw [rvNread_vel _ _ hl, List.take_of_length_le (by simp [bpCol])]; simp
  · rcases hc with hc | hc <;> cases hc

def allPidCols : List Col := [.pid, .lagr_pos, .lagr_idx, .tagged, .density]

theorem pidCols_mono (packed : List (BitVec 64)) (b : Rat) (P : Int) (load : List Col) (c : Col) (v : List Cell)
    (hm : (c, v) ∈ pidCols packed b P load) :
    (c, v) ∈ pidCols packed b P allPidCols ∧ v.length = packed.length := by
  simp only [pidCols, List.mem_append, mem_optCol] at hm ⊢
  rcases hm with (((⟨_, rfl, rfl⟩ | ⟨_, rfl, rfl⟩) | ⟨_, rfl, rfl⟩) | ⟨_, rfl, rfl⟩) | ⟨_, rfl, rfl⟩ <;>
    simp [allPidCols, bpCol]

theorem direct_pids (cn : ColName) (hcn : cn.hasPid = true) (packed : List (BitVec 64)) (load : List Col)
    (h : HdrVals) (cast : Rat → Rat) (cols : List Column)
    (hok : assembleV cn (.pids packed) load h cast = .ok cols) :
    ∃ P, directAll cn (.pids packed) h cast =
        .ok (pidCols packed h.box P allPidCols ++ [(.aux, packed.map .raw64)]) ∧
      ∀ c v, (c, v) ∈ cols → c ≠ .pos → c ≠ .vel →
        (c, v) ∈ pidCols packed h.box P allPidCols ++ [(.aux, packed.map .raw64)] := by
  rw [assembleV_pids cn hcn] at hok
  rw [directAll_pids cn hcn]
  cases hq : Bitpacked.ppdOf (some ((rhe h.ppd : Int) : Rat)) with
  | none => rw [hq] at hok; cases hok
  | some P =>
    rw [hq] at hok
    by_cases hP : P = 0
    · simp [hP] at hok
    · simp only [hP, if_false] at hok ⊢
      cases hok
      refine ⟨P, rfl, ?_⟩
      intro c v hm hnp hnv
      obtain ⟨v', hm', rfl⟩ := (mem_truncate _ _ _ _).mp hm
      simp only [List.mem_append, mem_optCol] at hm'
      rcases hm' with ((⟨_, rfl, _⟩ | ⟨_, rfl, _⟩) | ⟨_, rfl, rfl⟩) | hm'
      · exact absurd rfl hnp
      · exact absurd rfl hnv
      · rw [List.take_of_length_le (by simp)]; simp
      · obtain ⟨hin, hlen⟩ := pidCols_mono packed h.box P load c v' hm'
        rw [List.take_of_length_le (by omega)]
        exact List.mem_append_left _ hin

theorem direct_pack9 (recs : List Pack9.Rec) (load : List Col) (h : HdrVals) (cast : Rat → Rat)
    (cols : List Column) (hok : assembleV (.known .pack9) (.pack9 recs) load h cast = .ok cols) :
    ∃ all, directAll (.known .pack9) (.pack9 recs) h cast = .ok all ∧
      (all.map Prod.fst = [Col.pos, Col.vel]) ∧
      ∀ c v, (c, v) ∈ cols → (c = .pos ∨ c = .vel) → (c, v) ∈ all := by
  rw [assembleV_pack9] at hok
  rw [directAll_pack9]
  cases hr : Pack9.unpackPack9 recs (cast h.box) (cast h.velz) (p9Req (decide (Col.pos ∈ load)) recs.length)
      (p9Req (decide (Col.vel ∈ load)) recs.length) with
  | error e => rw [hr] at hok; cases hok
  | ok r =>
    rw [hr] at hok
    cases hok
    obtain ⟨r', hr'⟩ := unpackPack9_alloc_ok _ _ _ _ _ r hr
    obtain ⟨hn, hpw, hvw, -, -⟩ := Pack9.unpack_opts_independent _ _ _ _ _ _ _ r r' hr hr'
    rw [hr']
    refine ⟨_, rfl, rfl, ?_⟩
    intro c v hm hc
    obtain ⟨v', hm', rfl⟩ := (mem_truncate _ _ _ _).mp hm
    simp only [List.mem_append, mem_optCol] at hm'
    rcases hm' with (⟨hl, rfl, rfl⟩ | ⟨hl, rfl, rfl⟩) | ⟨hl, rfl, rfl⟩
    · rw [rvNread_pos _ _ hl, hn, hpw (by simp [p9Req, hl]) (by simp)]; simp
    · rw [rvNread_vel _ _ hl, hn, hvw (by simp [p9Req, hl]) (by simp)]; simp
    · rcases hc with hc | hc <;> cases hc

/-! ### the value model refines the shape model -/

theorem optCol_names (load : List Col) (c : Col) (v : List Cell) :
    (optCol load c v).map Prod.fst = if c ∈ load then [c] else [] := by
  unfold optCol; split <;> rfl

theorem truncate_names (n : Nat) (cols : List Column) : (truncate n cols).map Prod.fst = cols.map Prod.fst := by
  simp [truncate, List.map_map, Function.comp]

/-- names and common length of a list of columns -/
def Shape (cols : List Column) (names : List Col) (rows : Nat) : Prop :=
  cols.map Prod.fst = names ∧ ∀ c v, (c, v) ∈ cols → v.length = rows

theorem base_names (load : List Col) :
    (if Col.aux ∈ load then
        (if Col.vel ∈ load then (if Col.pos ∈ load then ([] : List Col) ++ [Col.pos] else []) ++ [Col.vel]
         else if Col.pos ∈ load then [] ++ [Col.pos] else []) ++ [Col.aux]
      else if Col.vel ∈ load then (if Col.pos ∈ load then [] ++ [Col.pos] else []) ++ [Col.vel]
        else if Col.pos ∈ load then [] ++ [Col.pos] else []) =
    (if Col.pos ∈ load then [Col.pos] else []) ++ (if Col.vel ∈ load then [Col.vel] else []) ++
      (if Col.aux ∈ load then [Col.aux] else []) := by
  by_cases hp : Col.pos ∈ load <;> by_cases hv : Col.vel ∈ load <;> by_cases ha : Col.aux ∈ load <;> simp [hp, hv, ha]

theorem filter_cons_app {α : Type} (p : α → Bool) (a : α) (l : List α) :
    (a :: l).filter p = (if p a = true then [a] else []) ++ l.filter p := by
  rw [List.filter_cons]; split <;> rfl

theorem pid_names (load : List Col) :
    pidOrder.filter (· ∈ load) =
      (if Col.pid ∈ load then [Col.pid] else []) ++ (if Col.lagr_pos ∈ load then [Col.lagr_pos] else []) ++
      (if Col.lagr_idx ∈ load then [Col.lagr_idx] else []) ++ (if Col.tagged ∈ load then [Col.tagged] else []) ++
      (if Col.density ∈ load then [Col.density] else []) := by
  simp only [pidOrder, filter_cons_app, List.filter_nil, decide_eq_true_eq, List.append_nil, List.append_assoc]


theorem shape_final (n N : Nat) (cols : List Column) (names : List Col) (hn : cols.map Prod.fst = names)
    (hl : ∀ c v, (c, v) ∈ cols → v.length = N) (hle : n ≤ N) :
    Shape (truncate n cols) names (if names.isEmpty then 0 else n) := by
  refine ⟨by rw [truncate_names, hn], ?_⟩
  intro c v hm
  obtain ⟨v', hm', rfl⟩ := (mem_truncate _ _ _ _).mp hm
  have hne : names.isEmpty = false := by
    rw [← hn]
    cases cols with
    | nil => cases hm'
    | cons _ _ => rfl
  rw [hne, List.length_take, hl c v' hm']
  simp only [Bool.false_eq_true, if_false]
  omega

def baseNames (load : List Col) : List Col :=
  (if Col.pos ∈ load then [Col.pos] else []) ++ (if Col.vel ∈ load then [Col.vel] else []) ++
    (if Col.aux ∈ load then [Col.aux] else [])

theorem rvNread_le (load : List Col) (n : Nat) : rvNread load n ≤ n := by
  unfold rvNread; split <;> split <;> omega

theorem assemble_rv (load : List Col) (nmax npart : Nat) :
    assemble (.known .rvint) load nmax npart =
      .ok ⟨baseNames load, if (baseNames load).isEmpty then 0 else rvNread load nmax⟩ ∧
    assemble (.known .pack9) load nmax npart =
      .ok ⟨baseNames load, if (baseNames load).isEmpty then 0 else rvNread load npart⟩ := by
  simp only [assemble, base_names, baseNames, rvNread]
  exact ⟨rfl, rfl⟩

theorem mem_base (load : List Col) (A B C : List Cell) (N : Nat) (hA : A.length = N) (hB : B.length = N)
    (hC : C.length = N) (c : Col) (v : List Cell)
    (hm : (c, v) ∈ optCol load .pos A ++ optCol load .vel B ++ optCol load .aux C) : v.length = N := by
  simp only [List.mem_append, mem_optCol] at hm
  rcases hm with (⟨_, _, rfl⟩ | ⟨_, _, rfl⟩) | ⟨_, _, rfl⟩ <;> assumption

theorem base_cols_names (load : List Col) (A B C : List Cell) :
    (optCol load .pos A ++ optCol load .vel B ++ optCol load .aux C).map Prod.fst = baseNames load := by
  simp only [List.map_append, optCol_names, baseNames]

theorem shape_rvint (rows : List Bitpacked.Row32) (load : List Col) (h : HdrVals) (cast : Rat → Rat) (npart : Nat)
    (cols : List Column) (hok : assembleV (.known .rvint) (.rvint rows) load h cast = .ok cols) :
    ∃ t, assemble (.known .rvint) load rows.length npart = .ok t ∧ Shape cols t.cols t.rows := by
  rw [assembleV_rvint] at hok
  cases hok
  refine ⟨_, (assemble_rv load rows.length npart).1, ?_⟩
  exact shape_final _ rows.length _ _ (base_cols_names _ _ _ _)
    (mem_base load _ _ _ rows.length (by simp [bpCol]) (by simp [bpCol]) (by simp)) (rvNread_le _ _)

theorem shape_pack9 (recs : List Pack9.Rec) (load : List Col) (h : HdrVals) (cast : Rat → Rat)
    (cols : List Column) (hok : assembleV (.known .pack9) (.pack9 recs) load h cast = .ok cols) :
    ∃ t, assemble (.known .pack9) load recs.length (Pack9.nonHeaders recs).length = .ok t ∧
      Shape cols t.cols t.rows := by
  rw [assembleV_pack9] at hok
  cases hr : Pack9.unpackPack9 recs (cast h.box) (cast h.velz) (p9Req (decide (Col.pos ∈ load)) recs.length)
      (p9Req (decide (Col.vel ∈ load)) recs.length) with
  | error e => rw [hr] at hok; cases hok
  | ok r =>
    rw [hr] at hok
    cases hok
    -- the count returned is the number of non-header records (C15 `unpack_count` / `loop_spec`)
    have hn : r.out.npart = (Pack9.nonHeaders recs).length := by
      simp only [Pack9.unpackPack9, bind, Except.bind] at hr
      cases hk : Pack9.unpackKernel recs (cast h.box) (cast h.velz) _ _ with
      | error e => rw [hk] at hr; cases hr
      | ok o =>
        rw [hk] at hr
        cases hr
        have hok' := Pack9.loop_ok_headers _ _ _ _ recs none 0 o hk
        have hfit : Pack9.Fits (some recs.length) (Pack9.nonHeaders recs).length := by
          intro L hL; cases hL; exact Pack9.nonHeaders_length_le recs
        obtain ⟨o2, ho2, hn2, -⟩ := Pack9.unpack_count recs (cast h.box) (cast h.velz) (some recs.length)
          (some recs.length) hok' hfit hfit
        obtain ⟨i1, -, -⟩ := Pack9.loop_indep _ _ _ _ _ _ recs none 0 o o2 hk ho2
        simp only
        omega
    refine ⟨_, (assemble_rv load recs.length _).2, ?_⟩
    rw [hn]
    exact shape_final _ recs.length _ _ (base_cols_names _ _ _ _)
      (mem_base load _ _ _ recs.length (by simp [Cumsum.applyWrites_length, emptyCol])
        (by simp [Cumsum.applyWrites_length, emptyCol]) (by simp))
      (Nat.le_trans (rvNread_le _ _) (Pack9.nonHeaders_length_le recs))


def pidNames (load : List Col) : List Col :=
  (if Col.pid ∈ load then [Col.pid] else []) ++ (if Col.lagr_pos ∈ load then [Col.lagr_pos] else []) ++
  (if Col.lagr_idx ∈ load then [Col.lagr_idx] else []) ++ (if Col.tagged ∈ load then [Col.tagged] else []) ++
  (if Col.density ∈ load then [Col.density] else [])

theorem assemble_pid (cn : ColName) (hcn : cn.hasPid = true) (load : List Col) (nmax npart : Nat) :
    assemble cn load nmax npart =
      .ok ⟨baseNames load ++ pidNames load, if (baseNames load ++ pidNames load).isEmpty then 0 else nmax⟩ := by
  cases cn with
  | known k =>
    cases k <;> simp [ColName.hasPid] at hcn <;>
      (simp only [assemble, ColName.hasPid, if_true, base_names, pid_names, baseNames, pidNames]; rfl)
  | other b =>
    cases b <;> simp [ColName.hasPid] at hcn
    simp only [assemble, ColName.hasPid, if_true, base_names, pid_names, baseNames, pidNames]; rfl

theorem shape_pids (cn : ColName) (hcn : cn.hasPid = true) (packed : List (BitVec 64)) (load : List Col)
    (h : HdrVals) (cast : Rat → Rat) (npart : Nat) (cols : List Column)
    (hok : assembleV cn (.pids packed) load h cast = .ok cols) :
    ∃ t, assemble cn load packed.length npart = .ok t ∧ Shape cols t.cols t.rows := by
  rw [assembleV_pids cn hcn] at hok
  cases hq : Bitpacked.ppdOf (some ((rhe h.ppd : Int) : Rat)) with
  | none => rw [hq] at hok; cases hok
  | some P =>
    rw [hq] at hok
    by_cases hP : P = 0
    · simp [hP] at hok
    · simp only [hP, if_false] at hok
      cases hok
      refine ⟨_, assemble_pid cn hcn load packed.length npart, ?_⟩
      refine shape_final _ packed.length _ _ ?_ ?_ (Nat.le_refl _)
      · rw [List.map_append, base_cols_names]
        simp only [pidCols, List.map_append, optCol_names, pidNames]
      · intro c v hm
        rcases List.mem_append.mp hm with hm | hm
        · exact mem_base load _ _ _ packed.length (by simp [emptyCol]) (by simp [emptyCol]) (by simp) c v hm
        · exact (pidCols_mono packed h.box P load c v hm).2


end AbacusVerif.ReadAsdf
