/-
  Helper lemmas for the full `no_request_dependent_failure` (Props/C02.lean): what the list surgery of
  `_setup_fields` produces, that `allocate` succeeds on it, and the column bookkeeping of `finish`.
-/
import AbacusVerif.Lemmas.C02
import AbacusVerif.Model.C02Valid

namespace AbacusVerif.Fields
open AbacusVerif AbacusVerif.Units

/-! ### `_setup_fields` as a composition of its steps -/

def stepN (cleaned : Bool) (f : List String) : List String :=
  if cleaned then appendIfMissing (if "N" ∈ f then f.erase "N" else f) "N_total" else f

def splitStep (fc : List String × List String) (item : String) : List String × List String :=
  if item ∈ fc.1 then (fc.1.erase item, fc.2 ++ [item]) else fc

def stepSplit (S : Spec) (cleaned : Bool) (f : List String) : List String × List String :=
  if cleaned then (names S.clean_dt_progen).foldl splitStep (f, []) else (f, [])

def pruneStep (S : Spec) (f : List String) (item : String) : List String :=
  if lcBad S item then f.erase item else f

def stepPrune (S : Spec) (haloLc : Bool) (f : List String) : List String :=
  if haloLc then f.foldl (pruneStep S) f else f

def abStep (cleaned : Bool) (fc : List String × List String) (ab : String) : List String × List String :=
  (appendIfMissing (appendIfMissing fc.1 ("npstart" ++ ab)) ("npout" ++ ab),
   if cleaned then appendIfMissing (appendIfMissing fc.2 ("npstart" ++ ab ++ "_merge")) ("npout" ++ ab ++ "_merge")
   else fc.2)

theorem setupFields_eq (S : Spec) (req : Req) (cleaned : Bool) (loadAB : List String) (haloLc : Bool) :
    setupFields S req cleaned loadAB haloLc =
      loadAB.foldl (abStep cleaned)
        (stepPrune S haloLc (stepSplit S cleaned (stepN cleaned (fields0 S req cleaned haloLc))).1,
         (stepSplit S cleaned (stepN cleaned (fields0 S req cleaned haloLc))).2) := by
  cases req <;> cases cleaned <;> cases haloLc <;> rfl

/-! ### counting through the steps -/

theorem mem_appendIfMissing {l : List String} {x y : String} :
    y ∈ appendIfMissing l x ↔ y ∈ l ∨ y = x := by
  unfold appendIfMissing
  split
  · rename_i h
    constructor
    · exact Or.inl
    · rintro (h1 | rfl)
      · exact h1
      · exact h
  · simp

theorem count_appendIfMissing_of_ne {l : List String} {x y : String} (h : y ≠ x) :
    (appendIfMissing l x).count y = l.count y := by
  unfold appendIfMissing
  split
  · rfl
  · simp [List.count_append, Ne.symm h]

theorem count_appendIfMissing_self {l : List String} {x : String} :
    (appendIfMissing l x).count x ≤ max (l.count x) 1 := by
  unfold appendIfMissing
  split
  · exact Nat.le_max_left _ _
  · rename_i h
    have : l.count x = 0 := List.count_eq_zero.mpr h
    simp [List.count_append, this]

theorem count_erase_le {l : List String} {x y : String} : (l.erase x).count y ≤ l.count y := by
  rw [List.count_erase]; exact Nat.sub_le _ _

/-- the split of the cleaning columns: counts only go down, a listed name loses one occurrence, the second
component collects exactly listed names that were present -/
theorem split_spec : ∀ (L : List String) (fc : List String × List String),
    (∀ y, (L.foldl splitStep fc).1.count y ≤ fc.1.count y) ∧
    (∀ x ∈ L, (L.foldl splitStep fc).1.count x ≤ fc.1.count x - 1) ∧
    (∀ y ∈ (L.foldl splitStep fc).2, y ∈ fc.2 ∨ y ∈ L) ∧
    (∀ x ∈ L, x ∈ fc.1 ∨ x ∈ fc.2 → x ∈ (L.foldl splitStep fc).2) ∧
    (∀ y ∈ fc.2, y ∈ (L.foldl splitStep fc).2)
  | [], fc => ⟨fun _ => Nat.le_refl _, by simp, fun y hy => Or.inl hy, by simp, fun _ h => h⟩
  | a :: L, fc => by
    obtain ⟨i1, i2, i3, i4, i5⟩ := split_spec L (splitStep fc a)
    have hc : ∀ y, (splitStep fc a).1.count y ≤ fc.1.count y := by
      intro y; unfold splitStep; split
      · exact count_erase_le
      · exact Nat.le_refl _
    have h2sub : ∀ y ∈ fc.2, y ∈ (splitStep fc a).2 := by
      intro y hy; unfold splitStep; split
      · exact List.mem_append_left _ hy
      · exact hy
    simp only [List.foldl_cons]
    refine ⟨fun y => Nat.le_trans (i1 y) (hc y), ?_, ?_, ?_, fun y hy => i5 y (h2sub y hy)⟩
    · intro x hx
      rcases List.mem_cons.mp hx with rfl | hx
      · refine Nat.le_trans (i1 x) ?_
        unfold splitStep; split
        · simp [List.count_erase_self]
        · rename_i h
          have : fc.1.count x = 0 := List.count_eq_zero.mpr h
          simp [this]
      · exact Nat.le_trans (i2 x hx) (Nat.sub_le_sub_right (hc x) 1)
    · intro y hy
      rcases i3 y hy with h | h
      · revert h; unfold splitStep; split
        · intro h
          rcases List.mem_append.mp h with h | h
          · exact Or.inl h
          · exact Or.inr (by simp at h; simp [h])
        · exact fun h => Or.inl h
      · exact Or.inr (List.mem_cons_of_mem _ h)
    · intro x hx hin
      rcases List.mem_cons.mp hx with rfl | hx
      · apply i5
        rcases hin with h | h
        · unfold splitStep; simp [h]
        · exact h2sub x h
      · by_cases hxa : x = a
        · subst hxa
          apply i5
          rcases hin with h | h
          · unfold splitStep; simp [h]
          · exact h2sub x h
        · apply i4 x hx
          rcases hin with h | h
          · left; unfold splitStep; split
            · exact (List.mem_erase_of_ne hxa).mpr h
            · exact h
          · exact Or.inr (h2sub x h)

/-- the light-cone pruning: counts only go down, a column that is not recorded loses as many occurrences
as the iterated copy holds, recorded columns stay -/
theorem prune_spec (S : Spec) : ∀ (l f : List String),
    (∀ y, (l.foldl (pruneStep S) f).count y ≤ f.count y) ∧
    (∀ x, lcBad S x = true → (l.foldl (pruneStep S) f).count x ≤ f.count x - l.count x) ∧
    (∀ y, lcBad S y = false → y ∈ f → y ∈ l.foldl (pruneStep S) f)
  | [], f => ⟨fun _ => Nat.le_refl _, fun _ _ => by simp, fun _ _ h => h⟩
  | a :: l, f => by
    obtain ⟨i1, i2, i3⟩ := prune_spec S l (pruneStep S f a)
    have hc : ∀ y, (pruneStep S f a).count y ≤ f.count y := by
      intro y; unfold pruneStep; split
      · exact count_erase_le
      · exact Nat.le_refl _
    simp only [List.foldl_cons]
    refine ⟨fun y => Nat.le_trans (i1 y) (hc y), ?_, ?_⟩
    · intro x hx
      refine Nat.le_trans (i2 x hx) ?_
      by_cases hxa : a = x
      · subst hxa
        simp only [pruneStep, hx, if_true, List.count_erase_self, List.count_cons_self]
        omega
      · have : (a == x) = false := by simpa using hxa
        simp only [List.count_cons, this]
        have := hc x
        simp only [Bool.false_eq_true, if_false, Nat.add_zero]
        omega
    · intro y hy hyf
      apply i3 y hy
      unfold pruneStep; split
      · rename_i ha
        have : y ≠ a := by rintro rfl; rw [hy] at ha; cases ha
        exact (List.mem_erase_of_ne this).mpr hyf
      · exact hyf

/-- the subsample index columns: exactly the index names are added -/
theorem ab_spec (cleaned : Bool) : ∀ (abs : List String) (fc : List String × List String),
    (∀ y, y ∈ (abs.foldl (abStep cleaned) fc).1 ↔
      y ∈ fc.1 ∨ ∃ ab ∈ abs, y = "npstart" ++ ab ∨ y = "npout" ++ ab) ∧
    (∀ y, y ∈ (abs.foldl (abStep cleaned) fc).2 ↔
      y ∈ fc.2 ∨ (cleaned = true ∧ ∃ ab ∈ abs, y = "npstart" ++ ab ++ "_merge" ∨ y = "npout" ++ ab ++ "_merge"))
  | [], fc => by simp
  | a :: abs, fc => by
    obtain ⟨i1, i2⟩ := ab_spec cleaned abs (abStep cleaned fc a)
    simp only [List.foldl_cons]
    constructor
    · intro y
      rw [i1 y]
      simp only [abStep, mem_appendIfMissing, List.mem_cons, exists_eq_or_imp]
      constructor
      · rintro ((( h | h) | h) | h)
        · exact Or.inl h
        · exact Or.inr (Or.inl (Or.inl h))
        · exact Or.inr (Or.inl (Or.inr h))
        · exact Or.inr (Or.inr h)
      · rintro (h | (h | h) | h)
        · exact Or.inl (Or.inl (Or.inl h))
        · exact Or.inl (Or.inl (Or.inr h))
        · exact Or.inl (Or.inr h)
        · exact Or.inr h
    · intro y
      rw [i2 y]
      cases cleaned
      · simp [abStep]
      · simp only [abStep, if_true, mem_appendIfMissing, List.mem_cons, exists_eq_or_imp, true_and]
        constructor
        · rintro ((( h | h) | h) | h)
          · exact Or.inl h
          · exact Or.inr (Or.inl (Or.inl h))
          · exact Or.inr (Or.inl (Or.inr h))
          · exact Or.inr (Or.inr h)
        · rintro (h | (h | h) | h)
          · exact Or.inl (Or.inl (Or.inl h))
          · exact Or.inl (Or.inl (Or.inr h))
          · exact Or.inl (Or.inr h)
          · exact Or.inr h

/-! ### allocation -/

theorem names_insertCol {cols : List (String × Dt)} {n : String} {d : Dt} {x : String} :
    x ∈ names (insertCol cols n d) ↔ x ∈ names cols ∨ x = n := by
  unfold insertCol names
  split
  · rename_i h
    obtain ⟨p, hp, hpn⟩ := List.any_eq_true.mp h
    have hpn' : p.1 = n := by simpa using hpn
    simp only [List.map_map, List.mem_map, Function.comp]
    constructor
    · rintro ⟨q, hq, rfl⟩
      by_cases hqn : q.1 = n
      · right; simp [hqn]
      · left; exact ⟨q, hq, by simp [hqn]⟩
    · rintro (⟨q, hq, rfl⟩ | rfl)
      · exact ⟨q, hq, by by_cases hqn : q.1 = n <;> simp [hqn]⟩
      · exact ⟨p, hp, by simp [hpn']⟩
  · simp [List.map_append]

/-- the generic allocation loop: succeeds when every name has a dtype; the columns are the old ones and the
listed names -/
theorem insertLoop_ok (g : String → Option Dt) : ∀ (l : List String) (init : List (String × Dt)),
    (∀ c ∈ l, (g c).isSome = true) →
    ∃ r, l.foldlM (fun cols c => allocStep (g c) cols c) init = .ok r ∧ ∀ x, x ∈ names r ↔ x ∈ names init ∨ x ∈ l
  | [], init, _ => ⟨init, rfl, by simp⟩
  | c :: l, init, h => by
    have hc := h c List.mem_cons_self
    cases hg : g c with
    | none => simp [hg] at hc
    | some d =>
      obtain ⟨r, hr, hn⟩ := insertLoop_ok g l (insertCol init c d) (fun x hx => h x (List.mem_cons_of_mem _ hx))
      refine ⟨r, ?_, ?_⟩
      · simp only [List.foldlM_cons, allocStep, hg, bind, Except.bind]
        exact hr
      · intro x
        rw [hn x, names_insertCol]
        simp only [List.mem_cons]
        constructor
        · rintro ((h1 | h1) | h1)
          · exact Or.inl h1
          · exact Or.inr (Or.inl h1)
          · exact Or.inr (Or.inr h1)
        · rintro (h1 | h1 | h1)
          · exact Or.inl (Or.inl h1)
          · exact Or.inl (Or.inr h1)
          · exact Or.inr h1

theorem dtLookup_isSome {t : List (String × Dt)} {n : String} (h : n ∈ names t) : (dtLookup t n).isSome = true := by
  unfold dtLookup
  cases hf : t.find? (fun p => p.1 == n) with
  | some p => simp
  | none =>
    obtain ⟨p, hp, he⟩ := List.mem_map.mp h
    have := List.find?_eq_none.mp hf p hp
    simp [he] at this

/-- `allocate` succeeds when every field is declared in the table it is looked up in, and the table then has
exactly the fields and cleaned fields as columns -/
theorem allocate_some (S : Spec) (F C : List String)
    (hF : ∀ y ∈ F, y ∈ names S.halo_lc_dt ∨ y ∈ names S.user_dt)
    (hC : ∀ y ∈ C, y ∈ names S.clean_dt_progen) :
    ∃ cols, allocate S F C = .ok cols ∧ ∀ x, x ∈ names cols ↔ x ∈ F ∨ x ∈ C := by
  obtain ⟨r1, h1, n1⟩ := insertLoop_ok
    (fun c => if c ∈ names S.halo_lc_dt then dtLookup S.halo_lc_dt c else dtLookup S.user_dt c) F []
    (by
      intro c hc
      by_cases hl : c ∈ names S.halo_lc_dt
      · simp only [hl, if_true]; exact dtLookup_isSome hl
      · simp only [hl, if_false]
        rcases hF c hc with h | h
        · exact absurd h hl
        · exact dtLookup_isSome h)
  obtain ⟨r2, h2, n2⟩ := insertLoop_ok (fun c => dtLookup S.clean_dt_progen c) C r1
    (fun c hc => dtLookup_isSome (hC c hc))
  refine ⟨r2, ?_, ?_⟩
  · unfold allocate
    rw [h1]
    exact h2
  · intro x
    rw [n2 x, n1 x]
    simp [names]

theorem names_reshape (nprev : Nat) (cf : List String) (cols : List (String × Dt)) :
    (reshapeMainprog nprev cf cols).map (·.1) = cols.map (·.1) := by
  unfold reshapeMainprog
  rw [List.map_map]
  apply List.map_congr_left
  intro p _
  simp only [Function.comp]
  split <;> rfl

/-! ### the bookkeeping of `finish` -/

variable {V : Type}

def cnames (h : Halos V) : List String := h.cols.map (·.1)

theorem has_iff' {h : Halos V} {x : String} : h.has x = true ↔ x ∈ cnames h := by
  unfold Halos.has cnames
  rw [List.any_eq_true, List.mem_map]
  constructor
  · rintro ⟨p, hp, he⟩; exact ⟨p, hp, by simpa using he⟩
  · rintro ⟨p, hp, he⟩; exact ⟨p, hp, by simpa using he⟩

theorem removeCol_ok {h : Halos V} {n : String} (hn : n ∈ cnames h) :
    ∃ h', removeCol h n = .ok h' ∧ (∀ x, x ∈ cnames h' ↔ x ∈ cnames h ∧ x ≠ n) ∧ h'.val = h.val := by
  refine ⟨{ h with cols := h.cols.filter (fun p => p.1 != n) }, ?_, ?_, rfl⟩
  · unfold removeCol; simp [has_iff'.mpr hn]
  · intro x
    simp only [cnames, List.mem_map, List.mem_filter]
    constructor
    · rintro ⟨p, ⟨hp, hpn⟩, rfl⟩
      exact ⟨⟨p, hp, rfl⟩, by simpa using hpn⟩
    · rintro ⟨⟨p, hp, rfl⟩, hne⟩
      exact ⟨p, ⟨hp, by simpa using hne⟩, rfl⟩

theorem read_ok {h : Halos V} {n : String} (hn : n ∈ cnames h) : ∃ v, h.read n = .ok v := by
  exact ⟨h.val n, by unfold Halos.read; simp [has_iff'.mpr hn]⟩

/-- re-indexing one subsample: succeeds when its index (and merge) columns are there; afterwards the merge
columns are gone and the index columns are (again) present -/
theorem reindexOne_ok (O : ValOps V) (cleaned : Bool) (h : Halos V) (ab : String) (hab : ab = "A" ∨ ab = "B")
    (h1 : ("npstart" ++ ab) ∈ cnames h) (h2 : ("npout" ++ ab) ∈ cnames h)
    (h3 : cleaned = true → ("npstart" ++ ab ++ "_merge") ∈ cnames h ∧ ("npout" ++ ab ++ "_merge") ∈ cnames h) :
    ∃ h', reindexOne O cleaned h ab = .ok h' ∧
      (∀ x, x ≠ "npstart" ++ ab → x ≠ "npout" ++ ab → h'.val x = h.val x) ∧
      ∀ x, x ∈ cnames h' ↔
        (x ∈ cnames h ∧ ¬ (cleaned = true ∧ (x = "npstart" ++ ab ++ "_merge" ∨ x = "npout" ++ ab ++ "_merge"))) ∨
        x = "npstart" ++ ab ∨ x = "npout" ++ ab := by
  obtain ⟨v1, hv1⟩ := read_ok h2
  obtain ⟨ha, hra, hna, hva⟩ := removeCol_ok h1
  have ne1 : ("npout" ++ ab) ≠ ("npstart" ++ ab) := by rcases hab with rfl | rfl <;> decide
  have h2a : ("npout" ++ ab) ∈ cnames ha := (hna _).mpr ⟨h2, ne1⟩
  obtain ⟨hb, hrb, hnb, hvb⟩ := removeCol_ok h2a
  cases cleaned with
  | false =>
    have key : ∃ h', reindexOne O false h ab = .ok h' ∧
        cnames h' = cnames hb ++ ["npstart" ++ ab, "npout" ++ ab] ∧
        (∀ x, x ≠ "npstart" ++ ab → x ≠ "npout" ++ ab → h'.val x = hb.val x) := by
      unfold reindexOne
      simp only [bind, Except.bind, hv1, hra, hrb, Bool.false_eq_true, if_false]
      exact ⟨_, rfl, by simp [cnames], by intro x n1 n2; simp [n1, n2]⟩
    obtain ⟨h', hk, hkn, hkv⟩ := key
    refine ⟨h', hk, fun x n1 n2 => by rw [hkv x n1 n2, hvb, hva], ?_⟩
    intro x
    rw [hkn]
    · simp only [cnames, List.mem_append, List.mem_cons,
        List.not_mem_nil, or_false, Bool.false_eq_true, false_and, not_false_eq_true, and_true]
      have := hnb x
      simp only [cnames] at this
      rw [this]
      have := hna x
      simp only [cnames] at this
      rw [this]
      constructor
      · rintro (⟨⟨hx, _⟩, _⟩ | h | h)
        · exact Or.inl hx
        · exact Or.inr (Or.inl h)
        · exact Or.inr (Or.inr h)
      · rintro (hx | h | h)
        · by_cases e1 : x = "npstart" ++ ab
          · exact Or.inr (Or.inl e1)
          · by_cases e2 : x = "npout" ++ ab
            · exact Or.inr (Or.inr e2)
            · exact Or.inl ⟨⟨hx, e1⟩, e2⟩
        · exact Or.inr (Or.inl h)
        · exact Or.inr (Or.inr h)
  | true =>
    obtain ⟨m1, m2⟩ := h3 rfl
    obtain ⟨v2, hv2⟩ := read_ok m2
    have ne2 : ("npstart" ++ ab ++ "_merge") ≠ ("npstart" ++ ab) := by rcases hab with rfl | rfl <;> decide
    have ne3 : ("npstart" ++ ab ++ "_merge") ≠ ("npout" ++ ab) := by rcases hab with rfl | rfl <;> decide
    have ne4 : ("npout" ++ ab ++ "_merge") ≠ ("npstart" ++ ab) := by rcases hab with rfl | rfl <;> decide
    have ne5 : ("npout" ++ ab ++ "_merge") ≠ ("npout" ++ ab) := by rcases hab with rfl | rfl <;> decide
    have ne6 : ("npout" ++ ab ++ "_merge") ≠ ("npstart" ++ ab ++ "_merge") := by rcases hab with rfl | rfl <;> decide
    have m1b : ("npstart" ++ ab ++ "_merge") ∈ cnames hb := (hnb _).mpr ⟨(hna _).mpr ⟨m1, ne2⟩, ne3⟩
    obtain ⟨hc, hrc, hnc, hvc⟩ := removeCol_ok m1b
    have m2c : ("npout" ++ ab ++ "_merge") ∈ cnames hc :=
      (hnc _).mpr ⟨(hnb _).mpr ⟨(hna _).mpr ⟨m2, ne4⟩, ne5⟩, ne6⟩
    obtain ⟨hd, hrd, hnd, hvd⟩ := removeCol_ok m2c
    have key : ∃ h', reindexOne O true h ab = .ok h' ∧
        cnames h' = cnames hd ++ ["npstart" ++ ab, "npout" ++ ab] ∧
        (∀ x, x ≠ "npstart" ++ ab → x ≠ "npout" ++ ab → h'.val x = hd.val x) := by
      unfold reindexOne
      simp only [bind, Except.bind, hv1, hv2, hra, hrb, hrc, hrd, if_true]
      exact ⟨_, rfl, by simp [cnames], by intro x n1 n2; simp [n1, n2]⟩
    obtain ⟨h', hk, hkn, hkv⟩ := key
    refine ⟨h', hk, fun x n1 n2 => by rw [hkv x n1 n2, hvd, hvc, hvb, hva], ?_⟩
    intro x
    rw [hkn]
    · simp only [cnames, List.mem_append, List.mem_cons,
        List.not_mem_nil, or_false, true_and]
      have e4 := hnd x
      have e3 := hnc x
      have e2 := hnb x
      have e1 := hna x
      simp only [cnames] at e1 e2 e3 e4
      rw [e4, e3, e2, e1]
      constructor
      · rintro (⟨⟨⟨⟨hx, _⟩, _⟩, a3⟩, a4⟩ | h | h)
        · exact Or.inl ⟨hx, by rintro (h | h); exact a3 h; exact a4 h⟩
        · exact Or.inr (Or.inl h)
        · exact Or.inr (Or.inr h)
      · rintro (⟨hx, hno⟩ | h | h)
        · by_cases e1 : x = "npstart" ++ ab
          · exact Or.inr (Or.inl e1)
          · by_cases e2 : x = "npout" ++ ab
            · exact Or.inr (Or.inr e2)
            · exact Or.inl ⟨⟨⟨⟨hx, e1⟩, e2⟩, fun h => hno (Or.inl h)⟩, fun h => hno (Or.inr h)⟩
        · exact Or.inr (Or.inl h)
        · exact Or.inr (Or.inr h)

/-- `finish` succeeds when the index / merge columns of every loaded subsample are in the table and, for
cleaned catalogs, `N_total` is there and `N` is not -/
theorem finish_ok (O : ValOps V) (cleaned : Bool) (loadAB : List String) (haloLc : Bool) (h : Halos V)
    (hAB : haloLc = false → loadAB ∈ loadABs)
    (hidx : ∀ ab ∈ loadAB, ("npstart" ++ ab) ∈ cnames h ∧ ("npout" ++ ab) ∈ cnames h ∧
      (cleaned = true → ("npstart" ++ ab ++ "_merge") ∈ cnames h ∧ ("npout" ++ ab ++ "_merge") ∈ cnames h))
    (hN : cleaned = true → "N_total" ∈ cnames h ∧ ¬ "N" ∈ cnames h) :
    ∃ h', finish O cleaned loadAB haloLc h = .ok h' := by
  -- phase 1: the re-indexing
  have phase1 : ∃ h1, reindexAll O cleaned loadAB haloLc h = .ok h1 ∧
      (cleaned = true → "N_total" ∈ cnames h1 ∧ ¬ "N" ∈ cnames h1) := by
    unfold reindexAll
    by_cases hc : (haloLc || loadAB.isEmpty) = true
    · exact ⟨h, by simp [hc], hN⟩
    · simp only [hc, if_false]
      have hlc : haloLc = false := by
        cases haloLc <;> simp_all
      have hne : loadAB ≠ [] := by
        intro he; subst he; simp at hc
      -- one step keeps what the next one and the rename need
      have step : ∀ (g : Halos V) (ab : String), (ab = "A" ∨ ab = "B") →
          ("npstart" ++ ab) ∈ cnames g → ("npout" ++ ab) ∈ cnames g →
          (cleaned = true → ("npstart" ++ ab ++ "_merge") ∈ cnames g ∧ ("npout" ++ ab ++ "_merge") ∈ cnames g) →
          ∃ g', reindexOne O cleaned g ab = .ok g' ∧
            (∀ x, x ∈ cnames g → x ≠ "npstart" ++ ab ++ "_merge" → x ≠ "npout" ++ ab ++ "_merge" → x ∈ cnames g') ∧
            (∀ x, ¬ x ∈ cnames g → x ≠ "npstart" ++ ab → x ≠ "npout" ++ ab → ¬ x ∈ cnames g') := by
        intro g ab hab a1 a2 a3
        obtain ⟨g', hg, _, hn⟩ := reindexOne_ok O cleaned g ab hab a1 a2 a3
        refine ⟨g', hg, ?_, ?_⟩
        · intro x hx n1 n2
          exact (hn x).mpr (Or.inl ⟨hx, fun hh => by rcases hh.2 with e | e; exact n1 e; exact n2 e⟩)
        · intro x hx n1 n2 hx'
          rcases (hn x).mp hx' with ⟨h0, _⟩ | e | e
          · exact hx h0
          · exact n1 e
          · exact n2 e
      have fold : ∃ h1, loadAB.foldlM (reindexOne O cleaned) h = .ok h1 ∧
          (cleaned = true → "N_total" ∈ cnames h1 ∧ ¬ "N" ∈ cnames h1) := by
        have hmem := hAB hlc
        simp only [loadABs, List.mem_cons, List.not_mem_nil, or_false] at hmem
        rcases hmem with rfl | rfl | rfl | rfl
        · exact absurd rfl hne
        · obtain ⟨i1, i2, i3⟩ := hidx "A" (by simp)
          obtain ⟨g1, hg1, k1, k2⟩ := step h "A" (Or.inl rfl) i1 i2 i3
          refine ⟨g1, by simp [List.foldlM, hg1, bind, Except.bind, pure, Except.pure], ?_⟩
          intro hcl
          obtain ⟨n1, n2⟩ := hN hcl
          exact ⟨k1 _ n1 (by decide) (by decide), k2 _ n2 (by decide) (by decide)⟩
        · obtain ⟨i1, i2, i3⟩ := hidx "B" (by simp)
          obtain ⟨g1, hg1, k1, k2⟩ := step h "B" (Or.inr rfl) i1 i2 i3
          refine ⟨g1, by simp [List.foldlM, hg1, bind, Except.bind, pure, Except.pure], ?_⟩
          intro hcl
          obtain ⟨n1, n2⟩ := hN hcl
          exact ⟨k1 _ n1 (by decide) (by decide), k2 _ n2 (by decide) (by decide)⟩
        · obtain ⟨i1, i2, i3⟩ := hidx "A" (by simp)
          obtain ⟨j1, j2, j3⟩ := hidx "B" (by simp)
          obtain ⟨g1, hg1, k1, k2⟩ := step h "A" (Or.inl rfl) i1 i2 i3
          obtain ⟨g2, hg2, l1, l2⟩ := step g1 "B" (Or.inr rfl) (k1 _ j1 (by decide) (by decide))
            (k1 _ j2 (by decide) (by decide))
            (fun hcl => ⟨k1 _ (j3 hcl).1 (by decide) (by decide), k1 _ (j3 hcl).2 (by decide) (by decide)⟩)
          refine ⟨g2, by simp [List.foldlM, hg1, hg2, bind, Except.bind, pure, Except.pure], ?_⟩
          intro hcl
          obtain ⟨n1, n2⟩ := hN hcl
          exact ⟨l1 _ (k1 _ n1 (by decide) (by decide)) (by decide) (by decide),
                 l2 _ (k2 _ n2 (by decide) (by decide)) (by decide) (by decide)⟩
      obtain ⟨h1, hf, hn1⟩ := fold
      refine ⟨h1, ?_, hn1⟩
      cases cleaned with
      | false => simp only [Bool.false_eq_true, if_false]; exact hf
      | true =>
        obtain ⟨v, hv⟩ := read_ok (hN rfl).1
        simp only [if_true, hv]; exact hf
  obtain ⟨h1, hp1, hN1⟩ := phase1
  unfold finish
  rw [hp1]
  unfold renameN
  cases cleaned with
  | false => exact ⟨_, rfl⟩
  | true =>
    obtain ⟨n1, n2⟩ := hN1 rfl
    have e1 : h1.has "N_total" = true := has_iff'.mpr n1
    have e2 : h1.has "N" = false := by
      cases hh : h1.has "N" with
      | false => rfl
      | true => exact absurd (has_iff'.mp hh) n2
    simp only [if_true, e1, e2, Bool.not_true, Bool.or_false, Bool.false_eq_true, if_false]
    exact ⟨_, rfl⟩

end AbacusVerif.Fields
