/-
  Interleaving-level lemmas for C10: the threads of the fill pass, of the count pass and of
  `fast_concatenate` as programs of atomic loads/stores on one shared memory (Lemmas/Conc.lean), and what
  every complete schedule of them leaves in memory.
-/
import AbacusVerif.Lemmas.C10
import AbacusVerif.Lemmas.Conc

namespace AbacusVerif.TwoPass
open AbacusVerif AbacusVerif.Conc

variable {V : Type}

/-! ### generic: what a finished schedule leaves in a cell -/

/-- after any complete schedule of threads with disjoint footprints, a cell in thread `t`'s footprint holds
what thread `t` running alone from the initial memory leaves there -/
theorem interleave_cell (r0 : V) (m : Mem V) (progs : List (List (Step V)))
    (hd : DisjointFootprints progs) (sched : List Nat)
    (hfin : ((start r0 m progs).run sched).finished)
    (t : Nat) (p : List (Step V)) (hp : progs[t]? = some p) (x : Nat) (hx : x ∈ footprint p) :
    ((start r0 m progs).run sched).mem x = (solo m r0 p).1 x := by
  obtain ⟨k, h⟩ := inv_run hd sched (inv_start r0 m progs)
  exact (inv_finished_mem h hfin x).1 t p hp hx

/-- … and a cell in nobody's footprint keeps its initial content -/
theorem interleave_untouched (r0 : V) (m : Mem V) (progs : List (List (Step V)))
    (hd : DisjointFootprints progs) (sched : List Nat)
    (hfin : ((start r0 m progs).run sched).finished)
    (x : Nat) (hx : ∀ p ∈ progs, x ∉ footprint p) :
    ((start r0 m progs).run sched).mem x = m x := by
  obtain ⟨k, h⟩ := inv_run hd sched (inv_start r0 m progs)
  exact (inv_finished_mem h hfin x).2 hx

theorem solo_append (m : Mem V) (r : V) (p q : List (Step V)) :
    solo m r (p ++ q) = solo (solo m r p).1 (solo m r p).2 q := by
  simp [solo, List.foldl_append]

/-- a program leaves the cells outside its footprint alone -/
theorem solo_not_footprint (m : Mem V) (r : V) (p : List (Step V)) (x : Nat) (hx : x ∉ footprint p) :
    (solo m r p).1 x = m x := by
  induction p generalizing m r with
  | nil => rfl
  | cons st rest ih =>
    have e : solo m r (st :: rest) = solo (soloStep (m, r) st).1 (soloStep (m, r) st).2 rest := rfl
    simp only [footprint, List.map_cons, List.mem_cons, not_or] at hx
    rw [e, ih _ _ (by simpa [footprint] using hx.2)]
    cases st with
    | load c => rfl
    | store c f =>
      simp only [soloStep, Mem.set]
      exact if_neg hx.1

/-! ### generic: store-only threads -/

/-- a thread that performs the stores of a write list, in order -/
def storeProg (ws : List (Nat × V)) : List (Step V) := ws.map (fun w => Step.store w.1 (fun _ => w.2))

/-- the write list applied to a memory -/
def memApply (m : Mem V) (ws : List (Nat × V)) : Mem V := ws.foldl (fun m w => m.set w.1 w.2) m

theorem footprint_storeProg (ws : List (Nat × V)) : footprint (storeProg ws) = ws.map (·.1) := by
  simp [footprint, storeProg, Step.cell, Function.comp_def]

theorem solo_storeProg (m : Mem V) (r : V) (ws : List (Nat × V)) :
    (solo m r (storeProg ws)).1 = memApply m ws := by
  induction ws generalizing m with
  | nil => rfl
  | cons w ws ih => exact ih _

theorem solo_storeProg_reg (m : Mem V) (r : V) (ws : List (Nat × V)) :
    (solo m r (storeProg ws)).2 = r := by
  induction ws generalizing m with
  | nil => rfl
  | cons w ws ih => exact ih _

theorem seq_store (r0 : V) (m : Mem V) (wss : List (List (Nat × V))) :
    ((start r0 m (wss.map storeProg)).run (seqSchedule (wss.map storeProg))).mem =
      memApply m wss.flatten := by
  have h := (seq_run r0 (wss.map storeProg) 0 [] m rfl).1
  have e : (start r0 m (wss.map storeProg)).run (seqSchedule (wss.map storeProg)) =
      (Config.mk m ([] ++ (wss.map storeProg).map (fun p => ⟨r0, p⟩))).run
        (((wss.map storeProg).zipIdx 0).flatMap (fun pt => List.replicate pt.1.length pt.2)) := rfl
  rw [e, h, seqMem, memApply, List.foldl_flatten, List.foldl_map]
  congr 1
  funext m' ws
  exact solo_storeProg m' r0 ws

theorem disjoint_of_nodup_flatten (wss : List (List (Nat × V)))
    (h : (wss.flatten.map (·.1)).Nodup) : DisjointFootprints (wss.map storeProg) := by
  rw [DisjointFootprints, List.pairwise_map]
  induction wss with
  | nil => exact List.Pairwise.nil
  | cons ws rest ih =>
    rw [List.flatten_cons, List.map_append, List.nodup_append] at h
    obtain ⟨_, h2, h3⟩ := h
    refine List.Pairwise.cons ?_ (ih h2)
    intro q hq c hc hc'
    rw [footprint_storeProg] at hc hc'
    have : c ∈ rest.flatten.map (·.1) := by
      obtain ⟨w, hw, rfl⟩ := List.mem_map.mp hc'
      exact List.mem_map.mpr ⟨w, List.mem_flatten.mpr ⟨q, hq, hw⟩, rfl⟩
    exact h3 c hc c this rfl

/-- **store_interleave.** Threads that only store, to pairwise distinct cells over all threads: every
complete schedule leaves exactly the memory obtained by applying all writes in thread order. -/
theorem store_interleave (r0 : V) (m : Mem V) (wss : List (List (Nat × V)))
    (hnd : (wss.flatten.map (·.1)).Nodup) (sched : List Nat)
    (hfin : ((start r0 m (wss.map storeProg)).run sched).finished) :
    ((start r0 m (wss.map storeProg)).run sched).mem = memApply m wss.flatten := by
  rw [← seq_store r0 m wss]
  exact disjoint_footprints_interleave r0 m _ (disjoint_of_nodup_flatten wss hnd) sched hfin

theorem memApply_not_mem (m : Mem V) (ws : List (Nat × V)) (x : Nat) (hx : x ∉ ws.map (·.1)) :
    memApply m ws x = m x := by
  induction ws generalizing m with
  | nil => rfl
  | cons w ws ih =>
    simp only [List.map_cons, List.mem_cons, not_or] at hx
    have e : memApply m (w :: ws) = memApply (m.set w.1 w.2) ws := rfl
    rw [e, ih _ hx.2]
    simp only [Mem.set]
    exact if_neg hx.1

theorem memApply_of_mem (m : Mem V) (ws : List (Nat × V)) (hnd : (ws.map (·.1)).Nodup)
    (w : Nat × V) (hw : w ∈ ws) : memApply m ws w.1 = w.2 := by
  induction ws generalizing m with
  | nil => cases hw
  | cons w0 ws ih =>
    have e : memApply m (w0 :: ws) = memApply (m.set w0.1 w0.2) ws := rfl
    rw [List.map_cons, List.nodup_cons] at hnd
    rcases List.mem_cons.mp hw with rfl | hw
    · rw [e, memApply_not_mem _ _ _ hnd.1]
      simp [Mem.set]
    · rw [e, ih _ hnd.2 hw]

/-! ### the fill pass and fast_concatenate as store-only threads -/

/-- address of cell `j` of the arrays of tracer `c ∈ {1,2,3}` in the common address space -/
def gaddr (c j : Nat) : Nat := 4 * j + c

/-- the stores of one fill thread: `lrg_*[j1] = row i` etc. -/
def fillWrites (f : Cur × List W) : List (Nat × Option Nat) :=
  f.2.map (fun w => (gaddr w.1 w.2.1, some w.2.2))

def fillProgs (o : Out) : List (List (Step (Option Nat))) := o.fills.map (fun f => storeProg (fillWrites f))

/-- read an array of tracer `c` back from the memory -/
def readArr (m : Mem (Option Nat)) (c n : Nat) : List (Option Nat) := (List.range n).map (fun j => m (gaddr c j))

theorem fillWrites_flatten (o : Out) :
    (o.fills.map fillWrites).flatten = o.writes.map (fun w => (gaddr w.1 w.2.1, some w.2.2)) := by
  unfold Out.writes fillWrites
  induction o.fills with
  | nil => rfl
  | cons f fs ih => simp [ih]

theorem mem_place (s : Nat) (rows : List Nat) (j : Nat) (hj : j < rows.length) :
    (s + j, some rows[j]) ∈ place s rows := by
  induction rows generalizing s j with
  | nil => simp at hj
  | cons r rs ih =>
    cases j with
    | zero => simp [place]
    | succ j =>
      simp only [place, List.getElem_cons_succ, List.mem_cons]
      right
      have := ih (s + 1) j (by simpa using hj)
      rwa [show s + 1 + j = s + (j + 1) by omega] at this

theorem optW_flatten_map {α} (wss : List (List (Nat × α))) : (wss.map optW).flatten = optW wss.flatten := by
  induction wss with
  | nil => rfl
  | cons w ws ih => simp [ih, optW]

/-! ### the count pass as load/store threads -/

def keepAddr (i : Nat) : Nat := 2 * i
def noutAddr (t c : Nat) : Nat := 2 * (4 * t + c) + 1

instance : DecidablePred Cls := fun c => by unfold Cls; infer_instance

/-- one row of the count pass: `Nout[tid, κ-1, 0] += 1` (a load and a store) when the row is kept, then
`keep[i] = κ` -/
def countRowProg (κ t i : Nat) : List (Step Nat) :=
  (if Cls κ then [Step.load (noutAddr t κ), Step.store (noutAddr t κ) (fun r => r + 1)] else []) ++
    [Step.store (keepAddr i) (fun _ => κ)]

/-- thread `t` of the count pass on the rows `l` -/
def countProg (keep : List Nat) (t : Nat) (l : List Nat) : List (Step Nat) :=
  l.flatMap (fun i => match keep[i]? with | some κ => countRowProg κ t i | none => [])

/-- the blocks `(b_t, b_{t+1})` -/
def blocksOf : Nat → List Nat → List (Nat × Nat)
  | _, [] => []
  | s, hi :: r => (s, hi) :: blocksOf hi r

def countProgsFrom (keep : List Nat) : Nat → Nat → List Nat → List (List (Step Nat))
  | _, _, [] => []
  | t, s, hi :: r => countProg keep t (pyRange s hi) :: countProgsFrom keep (t + 1) hi r

theorem countProgsFrom_getElem? (keep : List Nat) (t0 s : Nat) (b' : List Nat) (t : Nat) :
    (countProgsFrom keep t0 s b')[t]? =
      ((blocksOf s b')[t]?).map (fun (blk : Nat × Nat) => countProg keep (t0 + t) (pyRange blk.1 blk.2)) := by
  induction b' generalizing t0 s t with
  | nil => simp [countProgsFrom, blocksOf]
  | cons hi r ih =>
    cases t with
    | zero => simp [countProgsFrom, blocksOf]
    | succ t =>
      simp only [countProgsFrom, blocksOf, List.getElem?_cons_succ]
      rw [ih]
      congr 2
      funext blk
      congr 1
      omega

theorem countProgsFrom_length (keep : List Nat) (t0 s : Nat) (b' : List Nat) :
    (countProgsFrom keep t0 s b').length = b'.length := by
  induction b' generalizing t0 s with
  | nil => rfl
  | cons hi r ih => simp [countProgsFrom, ih]

theorem countsOf_eq_map (keep : List Nat) (s : Nat) (b' : List Nat) :
    countsOf keep s b' = (blocksOf s b').map (fun blk => cntB keep blk.1 blk.2) := by
  induction b' generalizing s with
  | nil => rfl
  | cons hi r ih => simp [countsOf, blocksOf, ih]

theorem blocksOf_facts (s : Nat) (b' : List Nat) (hp : (s :: b').Pairwise (· ≤ ·)) :
    (blocksOf s b').Pairwise (fun p q => p.2 ≤ q.1) ∧
    ∀ p ∈ blocksOf s b', s ≤ p.1 ∧ p.1 ≤ p.2 ∧ p.2 ≤ lastB s b' := by
  induction b' generalizing s with
  | nil => exact ⟨List.Pairwise.nil, by simp [blocksOf]⟩
  | cons hi r ih =>
    have hp' : (hi :: r).Pairwise (· ≤ ·) := (List.pairwise_cons.mp hp).2
    have hshi : s ≤ hi := List.rel_of_pairwise_cons hp (by simp)
    have hhl : hi ≤ lastB hi r := le_lastB hi r hp'
    obtain ⟨i1, i2⟩ := ih hi hp'
    simp only [blocksOf, lastB_cons]
    refine ⟨List.Pairwise.cons ?_ i1, ?_⟩
    · intro q hq
      exact (i2 q hq).1
    · intro p hp
      rcases List.mem_cons.mp hp with rfl | hp
      · exact ⟨Nat.le_refl _, hshi, hhl⟩
      · have := i2 p hp
        exact ⟨by omega, this.2.1, this.2.2⟩

theorem blocksOf_cover (s : Nat) (b' : List Nat) (i : Nat) (h1 : s ≤ i) (h2 : i < lastB s b') :
    ∃ (t : Nat) (blk : Nat × Nat), (blocksOf s b')[t]? = some blk ∧ blk.1 ≤ i ∧ i < blk.2 := by
  induction b' generalizing s with
  | nil => simp [lastB_nil] at h2; omega
  | cons hi r ih =>
    rw [lastB_cons] at h2
    by_cases h : i < hi
    · exact ⟨0, (s, hi), by simp [blocksOf], h1, h⟩
    · obtain ⟨t, blk, e1, e2, e3⟩ := ih hi (by omega) h2
      exact ⟨t + 1, blk, by simpa [blocksOf] using e1, e2, e3⟩

theorem mem_set_same {V} (m : Mem V) (c : Nat) (v : V) : (m.set c v) c = v := by simp [Mem.set]

theorem mem_set_ne {V} (m : Mem V) (c : Nat) (v : V) (x : Nat) (h : x ≠ c) : (m.set c v) x = m x := by
  simp [Mem.set, h]

theorem solo_countRow (m : Mem Nat) (r κ t i : Nat) :
    (solo m r (countRowProg κ t i)).1 =
      (if Cls κ then m.set (noutAddr t κ) (m (noutAddr t κ) + 1) else m).set (keepAddr i) κ := by
  unfold countRowProg
  by_cases h : Cls κ <;> simp [h, solo, soloStep]

theorem footprint_countProg (keep : List Nat) (t : Nat) (l : List Nat) (x : Nat)
    (hx : x ∈ footprint (countProg keep t l)) :
    (∃ i ∈ l, x = keepAddr i) ∨ (∃ c, Cls c ∧ x = noutAddr t c) := by
  unfold footprint countProg at hx
  rw [List.mem_map] at hx
  obtain ⟨st, hst, rfl⟩ := hx
  rw [List.mem_flatMap] at hst
  obtain ⟨i, hi, hst⟩ := hst
  cases hk : keep[i]? with
  | none => simp [hk] at hst
  | some κ =>
    simp only [hk, countRowProg, List.mem_append, List.mem_singleton] at hst
    rcases hst with hst | rfl
    · by_cases hc : Cls κ
      · simp only [hc, if_true, List.mem_cons, List.not_mem_nil, or_false] at hst
        rcases hst with rfl | rfl <;> exact Or.inr ⟨κ, hc, rfl⟩
      · simp [hc] at hst
    · exact Or.inl ⟨i, hi, rfl⟩

theorem keepAddr_ne_noutAddr (i t c : Nat) : keepAddr i ≠ noutAddr t c := by
  unfold keepAddr noutAddr; omega

theorem countProg_cons (keep : List Nat) (t i : Nat) (l : List Nat) (κ : Nat) (hk : keep[i]? = some κ) :
    countProg keep t (i :: l) = countRowProg κ t i ++ countProg keep t l := by
  simp [countProg, hk]

/-- thread `t` alone: its counter of class `c` grows by the number of class-`c` rows of its block -/
theorem solo_count_nout (keep : List Nat) (t c : Nat) (hc : Cls c) (l : List Nat) (m : Mem Nat) (r : Nat)
    (hl : ∀ i ∈ l, i < keep.length) :
    (solo m r (countProg keep t l)).1 (noutAddr t c) = m (noutAddr t c) + (sel keep c l).length := by
  induction l generalizing m r with
  | nil => simp [countProg, solo, sel]
  | cons i l ih =>
    have hi := hl i (by simp)
    rw [countProg_cons keep t i l keep[i] (List.getElem?_eq_getElem hi), solo_append,
      ih _ _ (fun j hj => hl j (by simp [hj])), solo_countRow, sel_cons keep c i l hi]
    rw [mem_set_ne _ _ _ _ (keepAddr_ne_noutAddr i t c).symm]
    by_cases hk : Cls keep[i]
    · simp only [hk, if_true]
      by_cases he : keep[i] = c
      · subst he
        rw [mem_set_same]
        simp; omega
      · have hne : noutAddr t c ≠ noutAddr t keep[i] := by
          unfold noutAddr; omega
        rw [mem_set_ne _ _ _ _ hne]
        simp [he]
    · have he : keep[i] ≠ c := fun e => hk (e ▸ hc)
      simp [hk, he]

/-- thread `t` alone: every row of its block gets its keep code -/
theorem solo_count_keep (keep : List Nat) (t : Nat) (l : List Nat) (m : Mem Nat) (r : Nat)
    (hl : ∀ i ∈ l, i < keep.length) (i : Nat) (hi : i ∈ l) (hik : i < keep.length) :
    (solo m r (countProg keep t l)).1 (keepAddr i) = keep[i] := by
  induction l generalizing m r with
  | nil => cases hi
  | cons i0 l ih =>
    have hi0 := hl i0 (by simp)
    rw [countProg_cons keep t i0 l keep[i0] (List.getElem?_eq_getElem hi0), solo_append]
    by_cases hil : i ∈ l
    · exact ih _ _ (fun j hj => hl j (by simp [hj])) hil
    · have e : i = i0 := by
        rcases List.mem_cons.mp hi with h | h
        · exact h
        · exact absurd h hil
      subst e
      rw [solo_not_footprint, solo_countRow]
      · simp [Mem.set]
      · intro hx
        rcases footprint_countProg keep t l _ hx with ⟨j, hj, e⟩ | ⟨c, _, e⟩
        · have : i = j := by unfold keepAddr at e; omega
          exact hil (this ▸ hj)
        · exact keepAddr_ne_noutAddr _ _ _ e

theorem countProgs_get (keep : List Nat) (t0 s : Nat) (b' : List Nat) (t : Nat) (p : List (Step Nat))
    (h : (countProgsFrom keep t0 s b')[t]? = some p) :
    ∃ blk : Nat × Nat, (blocksOf s b')[t]? = some blk ∧ p = countProg keep (t0 + t) (pyRange blk.1 blk.2) := by
  rw [countProgsFrom_getElem?] at h
  cases hb : (blocksOf s b')[t]? with
  | none => simp [hb] at h
  | some blk =>
    simp only [hb, Option.map_some, Option.some.injEq] at h
    exact ⟨blk, rfl, h.symm⟩

theorem countProgs_disjoint (keep : List Nat) (t0 s : Nat) (b' : List Nat)
    (hp : (s :: b').Pairwise (· ≤ ·)) : DisjointFootprints (countProgsFrom keep t0 s b') := by
  obtain ⟨hsorted, _⟩ := blocksOf_facts s b' hp
  rw [DisjointFootprints, List.pairwise_iff_getElem]
  intro i j hi hj hij x hx hx'
  obtain ⟨bi, ei, e1⟩ := countProgs_get keep t0 s b' i _ (List.getElem?_eq_getElem hi)
  obtain ⟨bj, ej, e2⟩ := countProgs_get keep t0 s b' j _ (List.getElem?_eq_getElem hj)
  rw [e1] at hx
  rw [e2] at hx'
  obtain ⟨hi', rfl⟩ := List.getElem?_eq_some_iff.mp ei
  obtain ⟨hj', rfl⟩ := List.getElem?_eq_some_iff.mp ej
  have hord := List.pairwise_iff_getElem.mp hsorted i j hi' hj' hij
  rcases footprint_countProg keep _ _ x hx with ⟨a, ha, rfl⟩ | ⟨c, hc, rfl⟩
  · rcases footprint_countProg keep _ _ _ hx' with ⟨a', ha', e⟩ | ⟨c', _, e⟩
    · have h1 := pyRange_mem ha
      have h2 := pyRange_mem ha'
      unfold keepAddr at e
      omega
    · exact keepAddr_ne_noutAddr _ _ _ e
  · rcases footprint_countProg keep _ _ _ hx' with ⟨a', _, e⟩ | ⟨c', hc', e⟩
    · exact keepAddr_ne_noutAddr _ _ _ e.symm
    · unfold noutAddr at e
      unfold Cls at hc hc'
      omega

end AbacusVerif.TwoPass
