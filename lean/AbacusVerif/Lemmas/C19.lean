/-
  Helper lemmas for the cumsum model (Props/C19.lean holds the property theorems).
-/
import AbacusVerif.Model.C19

namespace AbacusVerif.Cumsum
open AbacusVerif

variable {α : Type} [Add α]
set_option linter.unusedSectionVars false

theorem psum_succ (off : α) (arr : List α) (k : Nat) (h : k < arr.length) :
    psum off arr (k + 1) = psum off arr k + arr[k] := by
  unfold psum
  rw [List.take_succ_eq_append_getElem h, List.foldl_append]
  rfl

theorem writeOut_ok (outLen : Nat) (k : Nat) (h : k < outLen) (s : St α) :
    writeOut outLen (k : Int) s =
      .ok { s with writes := s.writes ++ [(k, s.total)], trace := s.trace ++ [.writeOut k] } := by
  unfold writeOut
  rw [pyIndex_nonneg h]

theorem writeOut_last (outLen : Nat) (h : 0 < outLen) (s : St α) :
    writeOut outLen (-1) s =
      .ok { s with writes := s.writes ++ [(outLen - 1, s.total)],
                   trace := s.trace ++ [.writeOut (outLen - 1)] } := by
  unfold writeOut
  rw [pyIndex_neg_one h]

theorem addArr_ok (arr : List α) (k : Nat) (h : k < arr.length) (s : St α) :
    addArr arr (k : Int) s =
      .ok { s with total := s.total + arr[k], trace := s.trace ++ [.readArr k] } := by
  unfold addArr
  rw [pyIndex_nonneg h]
  simp [List.getElem?_eq_getElem h]

theorem addArr_last (arr : List α) (h : 0 < arr.length) (s : St α) :
    addArr arr (-1) s =
      .ok { s with total := s.total + arr[arr.length - 1], trace := s.trace ++ [.readArr (arr.length - 1)] } := by
  unfold addArr
  rw [pyIndex_neg_one h]
  have : arr.length - 1 < arr.length := by omega
  simp [List.getElem?_eq_getElem this]

/-- the state after `m` iterations of the loop started in a state whose total is `psum off arr 0`-like:
stated for a start state with total `psum off arr 0 = off`. -/
def afterLoop (off : α) (arr : List α) (ini : Nat) (s : St α) (m : Nat) : St α :=
  { total := psum off arr m,
    writes := s.writes ++ (List.range m).map (fun i => (i + ini, psum off arr (i + 1))),
    trace := s.trace ++ (List.range m).flatMap (fun i => [.readArr i, .writeOut (i + ini)]) }

theorem loop_spec (off : α) (arr : List α) (outLen ini : Nat) (s : St α)
    (hs : s.total = off) (m : Nat) (hm : m ≤ arr.length) (ho : m + ini ≤ outLen) :
    loop arr outLen ini s m = .ok (afterLoop off arr ini s m) := by
  induction m with
  | zero =>
    cases s
    simp_all [loop, afterLoop, psum]
    rfl
  | succ m ih =>
    have ih' := ih (by omega) (by omega)
    unfold loop at ih' ⊢
    rw [List.range_succ, List.foldlM_append, ih']
    simp only [List.foldlM_cons, List.foldlM_nil, bind, Except.bind]
    unfold body
    rw [addArr_ok arr m (by omega)]
    simp only [bind, Except.bind]
    rw [writeOut_ok outLen (m + ini) (by omega)]
    simp only [afterLoop, pure, Except.pure]
    congr 1
    simp only [List.range_succ, List.map_append, List.flatMap_append, List.map_cons, List.map_nil,
      List.flatMap_cons, List.flatMap_nil, List.append_assoc, List.append_nil, List.cons_append,
      List.nil_append]
    rw [psum_succ off arr m (by omega)]

theorem applyWrites_append {β} (a : List β) (w1 w2 : List (Nat × β)) :
    applyWrites a (w1 ++ w2) = applyWrites (applyWrites a w1) w2 := by
  simp [applyWrites, List.foldl_append]

theorem applyWrites_length {β} (a : List β) (ws : List (Nat × β)) :
    (applyWrites a ws).length = a.length := by
  induction ws generalizing a with
  | nil => rfl
  | cons w ws ih => simp [applyWrites] at ih ⊢; rw [ih]; simp

/-- writing `g k` to every cell `k < n` of an array of length `n`, in increasing order, yields `map g (range n)`. -/
theorem applyWrites_range {β} (g : Nat → β) (n : Nat) (a : List β) (ha : a.length = n) :
    applyWrites a ((List.range n).map (fun k => (k, g k))) = (List.range n).map g := by
  apply List.ext_getElem
  · simp [applyWrites_length, ha]
  · intro i h1 h2
    simp only [List.length_map, List.length_range] at h2
    simp only [List.getElem_map, List.getElem_range]
    -- generalise: after writing cells `< m`, cell i holds g i if i < m
    have key : ∀ m, m ≤ n → ∀ (hh : i < (applyWrites a ((List.range m).map (fun k => (k, g k)))).length),
        i < m → (applyWrites a ((List.range m).map (fun k => (k, g k))))[i] = g i := by
      intro m
      induction m with
      | zero => intro _ _ hi; omega
      | succ m ih =>
        intro hm hh hi
        have e : applyWrites a ((List.range (m+1)).map (fun k => (k, g k))) =
            (applyWrites a ((List.range m).map (fun k => (k, g k)))).set m (g m) := by
          rw [List.range_succ, List.map_append, applyWrites_append]
          simp [applyWrites]
        simp only [e]
        by_cases him : i = m
        · subst him; simp
        · rw [List.getElem_set_ne (by omega)]
          exact ih (by omega) _ (by omega)
    exact key n (Nat.le_refl n) _ h2

end AbacusVerif.Cumsum
