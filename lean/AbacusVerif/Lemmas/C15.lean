/-
  Helper lemmas and specification vocabulary for the pack9 model (Props/C15.lean holds the property theorems).
  Core Lean only in this file; the rational-arithmetic lemmas are in Props/C15.lean (Mathlib via Lemmas/Num).
-/
import AbacusVerif.Model.C15
import AbacusVerif.Lemmas.C19

namespace AbacusVerif.Pack9
open AbacusVerif

/-! ### the nibble shuffle as arithmetic -/

theorem nibLo_eq (hi lo : UInt8) : nibLo hi lo = hi.toNat * 16 + lo.toNat % 16 := by
  unfold nibLo
  have h1 : lo.toNat &&& 0x0F = lo.toNat % 16 := Nat.and_two_pow_sub_one_eq_mod lo.toNat 4
  have h2 : lo.toNat % 16 < 2 ^ 4 := by omega
  rw [h1, Nat.or_comm, ← Nat.shiftLeft_add_eq_or_of_lt h2, Nat.shiftLeft_eq]

theorem and_f0_shift : ∀ h, h < 256 → (h &&& 0xF0) <<< 4 = (h / 16) <<< 8 := by decide +kernel

theorem nibHi_eq (hi lo : UInt8) : nibHi hi lo = (hi.toNat / 16) * 256 + lo.toNat := by
  unfold nibHi
  have h2 : lo.toNat < 2 ^ 8 := lo.toNat_lt
  rw [and_f0_shift _ hi.toNat_lt, ← Nat.shiftLeft_add_eq_or_of_lt h2, Nat.shiftLeft_eq]

theorem ofNat_eq (x : UInt8) (n : Nat) (h : n = x.toNat) : UInt8.ofNat n = x := by
  subst h; exact UInt8.ofNat_toNat


/-! ### specification vocabulary for streams -/

/-- the particle (non-header) records of a stream, in stream order -/
def nonHeaders (s : List Rec) : List Rec := s.filter (fun c => !isHeader c)

/-- the header state in force after the records `p` when it was `h0` before them: that of the most recent
header record of `p`, or `h0` if `p` has none -/
def hdrAfter (box velz : Rat) (h0 : Option Hdr) (p : List Rec) : Option Hdr :=
  match p.reverse.find? isHeader with
  | none => h0
  | some c => (mkHdr box velz (expandToShort c)).toOption

/-- no header record has a zero cells-per-dimension field -/
def HeadersOk (s : List Rec) : Prop := ∀ c ∈ s, isHeader c = true → (expandToShort c).s1 + 2000 ≠ 0

instance (s : List Rec) : Decidable (HeadersOk s) := by unfold HeadersOk; infer_instance

/-- `ws` is exactly one write per non-header record of `s`, to rows `w0, w0+1, …` in stream order, the record
at stream position `i` being decoded by `dec` with the header state in force before position `i` -/
def WritesSpec (dec : Option Hdr → Six Int → V3) (box velz : Rat) (h0 : Option Hdr) (w0 : Nat)
    (s : List Rec) (ws : List (Nat × V3)) : Prop :=
  ws.map Prod.fst = (List.range (nonHeaders s).length).map (w0 + ·) ∧
  ∀ i (hi : i < s.length), isHeader s[i] = false →
    ws[(nonHeaders (s.take i)).length]? =
      some (w0 + (nonHeaders (s.take i)).length,
            dec (hdrAfter box velz h0 (s.take i)) (expandToShort s[i]))

theorem mkHdr_ok (box velz : Rat) (sh : Six Int) (h : sh.s1 + 2000 ≠ 0) :
    ∃ hd, mkHdr box velz sh = .ok hd := by
  unfold mkHdr
  simp [h]

theorem hdrAfter_nil (box velz : Rat) (h0 : Option Hdr) : hdrAfter box velz h0 [] = h0 := by
  simp [hdrAfter]

theorem hdrAfter_cons_header (box velz : Rat) (h0 : Option Hdr) (c : Rec) (p : List Rec) (hd : Hdr)
    (hc : isHeader c = true) (hh : mkHdr box velz (expandToShort c) = .ok hd) :
    hdrAfter box velz h0 (c :: p) = hdrAfter box velz (some hd) p := by
  unfold hdrAfter
  rw [List.reverse_cons, List.find?_append]
  cases hf : p.reverse.find? isHeader with
  | none => simp [List.find?, hc, hh, Except.toOption]
  | some d => simp

theorem hdrAfter_cons_particle (box velz : Rat) (h0 : Option Hdr) (c : Rec) (p : List Rec)
    (hc : isHeader c = false) :
    hdrAfter box velz h0 (c :: p) = hdrAfter box velz h0 p := by
  unfold hdrAfter
  rw [List.reverse_cons, List.find?_append]
  cases hf : p.reverse.find? isHeader with
  | none => simp [List.find?, hc]
  | some d => simp

theorem nonHeaders_cons_header (c : Rec) (s : List Rec) (hc : isHeader c = true) :
    nonHeaders (c :: s) = nonHeaders s := by
  simp [nonHeaders, hc]

theorem nonHeaders_cons_particle (c : Rec) (s : List Rec) (hc : isHeader c = false) :
    nonHeaders (c :: s) = c :: nonHeaders s := by
  simp [nonHeaders, hc]

theorem nonHeaders_length_le (s : List Rec) : (nonHeaders s).length ≤ s.length := by
  unfold nonHeaders; exact List.length_filter_le _ _

theorem ws_nil (dec) (box velz : Rat) (h0 : Option Hdr) (w0 : Nat) :
    WritesSpec dec box velz h0 w0 [] [] := by
  constructor
  · simp [nonHeaders]
  · intro i hi; simp at hi

theorem ws_header (dec) (box velz : Rat) (h0 : Option Hdr) (w0 : Nat) (c : Rec) (rest : List Rec)
    (ws : List (Nat × V3)) (hd : Hdr) (hc : isHeader c = true)
    (hh : mkHdr box velz (expandToShort c) = .ok hd)
    (H : WritesSpec dec box velz (some hd) w0 rest ws) :
    WritesSpec dec box velz h0 w0 (c :: rest) ws := by
  obtain ⟨H1, H2⟩ := H
  constructor
  · rw [nonHeaders_cons_header c rest hc]; exact H1
  · intro i hi hnh
    cases i with
    | zero => simp [hc] at hnh
    | succ j =>
      simp only [List.getElem_cons_succ, List.take_succ_cons] at hnh ⊢
      rw [nonHeaders_cons_header _ _ hc, hdrAfter_cons_header box velz h0 c _ hd hc hh]
      exact H2 j (by simpa using hi) hnh

theorem ws_particle (dec) (box velz : Rat) (h0 : Option Hdr) (w0 : Nat) (c : Rec) (rest : List Rec)
    (ws : List (Nat × V3)) (hc : isHeader c = false)
    (H : WritesSpec dec box velz h0 (w0 + 1) rest ws) :
    WritesSpec dec box velz h0 w0 (c :: rest) ((w0, dec h0 (expandToShort c)) :: ws) := by
  obtain ⟨H1, H2⟩ := H
  constructor
  · rw [nonHeaders_cons_particle c rest hc]
    simp only [List.map_cons, List.length_cons, List.range_succ_eq_map, H1, List.map_map]
    simp only [Nat.add_zero, List.cons.injEq, true_and]
    apply List.map_congr_left
    intro k _
    simp only [Function.comp]
    omega
  · intro i hi hnh
    cases i with
    | zero => simp [nonHeaders, hdrAfter_nil]
    | succ j =>
      simp only [List.getElem_cons_succ, List.take_succ_cons] at hnh ⊢
      rw [nonHeaders_cons_particle _ _ hc, hdrAfter_cons_particle box velz h0 c _ hc]
      simp only [List.length_cons, List.getElem?_cons_succ]
      rw [H2 j (by simpa using hi) hnh]
      congr 2
      omega


theorem writeRow_none (w : Nat) (v : V3) : writeRow none w v = .ok [] := rfl

theorem writeRow_some {L w : Nat} (v : V3) (h : w < L) : writeRow (some L) w v = .ok [(w, v)] := by
  simp [writeRow, idx, pyIndex_nonneg h, bind, Except.bind]

theorem writeRow_some_oob {L w : Nat} (v : V3) (h : L ≤ w) : writeRow (some L) w v = .error .oob := by
  have : pyIndex L (w : Int) = none := by
    unfold pyIndex
    have h1 : (0 : Int) ≤ (w : Int) := by omega
    simp [h1]
    exact h
  simp [writeRow, idx, this, bind, Except.bind]

/-- what an output of `len` rows must receive -/
def OutSpec (dec : Option Hdr → Six Int → V3) (box velz : Rat) (h0 : Option Hdr) (w0 : Nat)
    (s : List Rec) (len : Option Nat) (ws : List (Nat × V3)) : Prop :=
  match len with
  | none => ws = []
  | some _ => WritesSpec dec box velz h0 w0 s ws

/-- an output (if present) has room for rows `w0 … w0 + n - 1` -/
def Fits (len : Option Nat) (n : Nat) : Prop := ∀ L, len = some L → n ≤ L

theorem loop_spec (box velz : Rat) (pl vl : Option Nat) (s : List Rec) :
    ∀ (h0 : Option Hdr) (w0 : Nat), HeadersOk s →
      Fits pl (w0 + (nonHeaders s).length) → Fits vl (w0 + (nonHeaders s).length) →
      ∃ o, loop box velz pl vl s h0 w0 = .ok o ∧
        o.npart = w0 + (nonHeaders s).length ∧
        OutSpec decodePos box velz h0 w0 s pl o.posW ∧
        OutSpec decodeVel box velz h0 w0 s vl o.velW := by
  induction s with
  | nil =>
    intro h0 w0 _ _ _
    refine ⟨_, rfl, by simp [nonHeaders], ?_, ?_⟩
    · cases pl <;> simp [OutSpec, ws_nil]
    · cases vl <;> simp [OutSpec, ws_nil]
  | cons c rest ih =>
    intro h0 w0 hok hp hv
    have hok' : HeadersOk rest := fun d hd => hok d (List.mem_cons_of_mem _ hd)
    cases hc : isHeader c with
    | true =>
      obtain ⟨hd, hh⟩ := mkHdr_ok box velz (expandToShort c) (hok c (List.mem_cons_self) hc)
      rw [nonHeaders_cons_header c rest hc] at hp hv
      obtain ⟨o, ho, hn, hpw, hvw⟩ := ih (some hd) w0 hok' hp hv
      refine ⟨o, ?_, ?_, ?_, ?_⟩
      · simp only [loop, hc, if_true, hh, bind, Except.bind]; exact ho
      · rw [nonHeaders_cons_header c rest hc]; exact hn
      · cases pl with
        | none => exact hpw
        | some L => exact ws_header _ box velz h0 w0 c rest _ hd hc hh hpw
      · cases vl with
        | none => exact hvw
        | some L => exact ws_header _ box velz h0 w0 c rest _ hd hc hh hvw
    | false =>
      rw [nonHeaders_cons_particle c rest hc] at hp hv
      simp only [List.length_cons] at hp hv
      obtain ⟨o, ho, hn, hpw, hvw⟩ := ih h0 (w0 + 1) hok'
        (fun L hL => by have := hp L hL; omega) (fun L hL => by have := hv L hL; omega)
      have hpr : ∃ pw, writeRow pl w0 (decodePos h0 (expandToShort c)) = .ok pw ∧
          OutSpec decodePos box velz h0 w0 (c :: rest) pl (pw ++ o.posW) := by
        cases pl with
        | none => exact ⟨[], rfl, by simpa [OutSpec] using hpw⟩
        | some L =>
          refine ⟨_, writeRow_some _ (by have := hp L rfl; omega), ?_⟩
          exact ws_particle _ box velz h0 w0 c rest _ hc hpw
      have hvr : ∃ vw, writeRow vl w0 (decodeVel h0 (expandToShort c)) = .ok vw ∧
          OutSpec decodeVel box velz h0 w0 (c :: rest) vl (vw ++ o.velW) := by
        cases vl with
        | none => exact ⟨[], rfl, by simpa [OutSpec] using hvw⟩
        | some L =>
          refine ⟨_, writeRow_some _ (by have := hv L rfl; omega), ?_⟩
          exact ws_particle _ box velz h0 w0 c rest _ hc hvw
      obtain ⟨pw, hpw1, hpw2⟩ := hpr
      obtain ⟨vw, hvw1, hvw2⟩ := hvr
      refine ⟨{ npart := o.npart, posW := pw ++ o.posW, velW := vw ++ o.velW }, ?_, ?_, hpw2, hvw2⟩
      · simp only [loop, hc, Bool.false_eq_true, if_false, hpw1, hvw1, ho, bind, Except.bind]
      · rw [nonHeaders_cons_particle c rest hc]; simp only [List.length_cons]; omega


/-- an output too short for the particle count makes the kernel fault (IndexError under bounds checking) -/
theorem loop_short (box velz : Rat) (pl vl : Option Nat) (s : List Rec) :
    ∀ (h0 : Option Hdr) (w0 : Nat), HeadersOk s →
      Fits pl w0 → Fits vl w0 →
      ((∃ L, pl = some L ∧ L < w0 + (nonHeaders s).length) ∨
       (∃ L, vl = some L ∧ L < w0 + (nonHeaders s).length)) →
      loop box velz pl vl s h0 w0 = .error .oob := by
  induction s with
  | nil =>
    intro h0 w0 _ hp hv hs
    rcases hs with ⟨L, hL, hlt⟩ | ⟨L, hL, hlt⟩
    · have := hp L hL; simp [nonHeaders] at hlt; omega
    · have := hv L hL; simp [nonHeaders] at hlt; omega
  | cons c rest ih =>
    intro h0 w0 hok hp hv hs
    have hok' : HeadersOk rest := fun d hd => hok d (List.mem_cons_of_mem _ hd)
    cases hc : isHeader c with
    | true =>
      obtain ⟨hd, hh⟩ := mkHdr_ok box velz (expandToShort c) (hok c (List.mem_cons_self) hc)
      rw [nonHeaders_cons_header c rest hc] at hs
      simp only [loop, hc, if_true, hh, bind, Except.bind]
      exact ih (some hd) w0 hok' hp hv hs
    | false =>
      rw [nonHeaders_cons_particle c rest hc] at hs
      simp only [List.length_cons] at hs
      simp only [loop, hc, Bool.false_eq_true, if_false, bind, Except.bind]
      -- position write
      by_cases hpf : ∃ L, pl = some L ∧ L ≤ w0
      · obtain ⟨L, hL, hle⟩ := hpf
        subst hL
        rw [writeRow_some_oob _ hle]
      · have hp' : Fits pl (w0 + 1) := by
          intro L hL
          have := hp L hL
          rcases Nat.lt_or_ge w0 L with hlt | hge
          · omega
          · exact absurd ⟨L, hL, hge⟩ hpf
        have hpw : ∃ pw, writeRow pl w0 (decodePos h0 (expandToShort c)) = .ok pw := by
          cases pl with
          | none => exact ⟨[], rfl⟩
          | some L => exact ⟨_, writeRow_some _ (by have := hp' L rfl; omega)⟩
        obtain ⟨pw, hpw⟩ := hpw
        rw [hpw]
        simp only
        by_cases hvf : ∃ L, vl = some L ∧ L ≤ w0
        · obtain ⟨L, hL, hle⟩ := hvf
          subst hL
          rw [writeRow_some_oob _ hle]
        · have hv' : Fits vl (w0 + 1) := by
            intro L hL
            have := hv L hL
            rcases Nat.lt_or_ge w0 L with hlt | hge
            · omega
            · exact absurd ⟨L, hL, hge⟩ hvf
          have hvw : ∃ vw, writeRow vl w0 (decodeVel h0 (expandToShort c)) = .ok vw := by
            cases vl with
            | none => exact ⟨[], rfl⟩
            | some L => exact ⟨_, writeRow_some _ (by have := hv' L rfl; omega)⟩
          obtain ⟨vw, hvw⟩ := hvw
          rw [hvw]
          simp only
          rw [ih h0 (w0 + 1) hok' hp' hv' (by
            rcases hs with ⟨L, hL, hlt⟩ | ⟨L, hL, hlt⟩
            · exact Or.inl ⟨L, hL, by omega⟩
            · exact Or.inr ⟨L, hL, by omega⟩)]

/-- the particle at stream position `i` is the `k`-th non-header record, `k` = number of non-header
records before it -/
theorem nonHeaders_getElem_of_take (s : List Rec) : ∀ (i : Nat) (hi : i < s.length),
    isHeader s[i] = false → (nonHeaders s)[(nonHeaders (s.take i)).length]? = some s[i] := by
  induction s with
  | nil => intro i hi; simp at hi
  | cons c rest ih =>
    intro i hi h
    cases i with
    | zero =>
      simp only [List.getElem_cons_zero] at h
      simp [nonHeaders, h]
    | succ j =>
      simp only [List.getElem_cons_succ, List.take_succ_cons] at h ⊢
      cases hc : isHeader c with
      | true =>
        rw [nonHeaders_cons_header _ _ hc, nonHeaders_cons_header _ _ hc]
        exact ih j (by simpa using hi) h
      | false =>
        rw [nonHeaders_cons_particle _ _ hc, nonHeaders_cons_particle _ _ hc]
        simp only [List.length_cons, List.getElem?_cons_succ]
        exact ih j (by simpa using hi) h

theorem nonHeaders_take_lt (s : List Rec) (i : Nat) (hi : i < s.length) (h : isHeader s[i] = false) :
    (nonHeaders (s.take i)).length < (nonHeaders s).length := by
  have := nonHeaders_getElem_of_take s i hi h
  apply Decidable.byContradiction
  intro hcon
  rw [List.getElem?_eq_none (by omega)] at this
  cases this

/-- consecutive writes `0 ↦ g 0, …, n-1 ↦ g (n-1)` into a longer array: its first `n` cells are exactly `g` -/
theorem applyWrites_prefix {β} (g : Nat → β) (n : Nat) (a : List β) (ha : n ≤ a.length) :
    (applyWrites a ((List.range n).map (fun k => (k, g k)))).take n = (List.range n).map g := by
  induction n with
  | zero => simp
  | succ n ih =>
    have e : applyWrites a ((List.range (n+1)).map (fun k => (k, g k))) =
        (applyWrites a ((List.range n).map (fun k => (k, g k)))).set n (g n) := by
      rw [List.range_succ, List.map_append, Cumsum.applyWrites_append]
      simp [applyWrites]
    have hl : (applyWrites a ((List.range n).map (fun k => (k, g k)))).length = a.length :=
      Cumsum.applyWrites_length _ _
    rw [e]
    apply List.ext_getElem
    · simp [hl]; omega
    · intro i h1 h2
      simp only [List.length_map, List.length_range] at h2
      simp only [List.getElem_take, List.getElem_map, List.getElem_range]
      by_cases hin : i = n
      · subst hin; simp
      · rw [List.getElem_set_ne (by omega)]
        have hi : i < n := by omega
        have := congrArg (fun l => l[i]?) (ih (by omega))
        simp only [List.getElem?_take, hi, if_true, List.getElem?_map, List.getElem?_range hi,
          Option.map_some] at this
        rw [List.getElem?_eq_getElem (by omega)] at this
        exact Option.some.inj this

/-- a write list whose rows are `0, 1, …, n-1` in order is `k ↦ (k, value k)` -/
theorem writes_as_range (ws : List (Nat × V3)) (n : Nat) (h : ws.map Prod.fst = List.range n) :
    ws = (List.range n).map (fun k => (k, (ws.map Prod.snd).getD k (none, none, none))) := by
  have hlen : ws.length = n := by simpa using congrArg List.length h
  apply List.ext_getElem
  · simp [hlen]
  · intro i h1 h2
    have hf : (ws.map Prod.fst)[i]'(by simpa using h1) = i := by simp [h]
    simp only [List.getElem_map] at hf
    simp only [List.getElem_map, List.getElem_range, List.getD_eq_getElem?_getD, List.getElem?_map,
      List.getElem?_eq_getElem h1, Option.map_some, Option.getD_some]
    exact Prod.ext hf rfl


theorem writeRow_ok_inv {L w : Nat} {v : V3} {pw : List (Nat × V3)}
    (h : writeRow (some L) w v = .ok pw) : pw = [(w, v)] := by
  rcases Nat.lt_or_ge w L with hlt | hge
  · rw [writeRow_some v hlt] at h; cases h; rfl
  · rw [writeRow_some_oob v hge] at h; cases h

theorem writeRow_none_inv {w : Nat} {v : V3} {pw : List (Nat × V3)}
    (h : writeRow none w v = .ok pw) : pw = [] := by
  cases h; rfl

/-- two successful runs of the loop on the same stream from the same state agree on the count and on
every output they both produce, whatever the other output option and the output lengths are -/
theorem loop_indep (box velz : Rat) (pl vl pl' vl' : Option Nat) (s : List Rec) :
    ∀ (h0 : Option Hdr) (w0 : Nat) (o o' : Out),
      loop box velz pl vl s h0 w0 = .ok o → loop box velz pl' vl' s h0 w0 = .ok o' →
      o.npart = o'.npart ∧ (pl.isSome → pl'.isSome → o.posW = o'.posW) ∧
        (vl.isSome → vl'.isSome → o.velW = o'.velW) := by
  induction s with
  | nil =>
    intro h0 w0 o o' h h'
    simp only [loop] at h h'
    cases h; cases h'
    simp
  | cons c rest ih =>
    intro h0 w0 o o' h h'
    cases hc : isHeader c with
    | true =>
      simp only [loop, hc, if_true, bind, Except.bind] at h h'
      cases hh : mkHdr box velz (expandToShort c) with
      | error e => rw [hh] at h; cases h
      | ok hd =>
        rw [hh] at h h'
        exact ih (some hd) w0 o o' h h'
    | false =>
      simp only [loop, hc, Bool.false_eq_true, if_false, bind, Except.bind] at h h'
      cases hp : writeRow pl w0 (decodePos h0 (expandToShort c)) with
      | error e => rw [hp] at h; cases h
      | ok pw =>
      cases hv : writeRow vl w0 (decodeVel h0 (expandToShort c)) with
      | error e => rw [hp, hv] at h; cases h
      | ok vw =>
      cases hl : loop box velz pl vl rest h0 (w0 + 1) with
      | error e => rw [hp, hv, hl] at h; cases h
      | ok o1 =>
      cases hp' : writeRow pl' w0 (decodePos h0 (expandToShort c)) with
      | error e => rw [hp'] at h'; cases h'
      | ok pw' =>
      cases hv' : writeRow vl' w0 (decodeVel h0 (expandToShort c)) with
      | error e => rw [hp', hv'] at h'; cases h'
      | ok vw' =>
      cases hl' : loop box velz pl' vl' rest h0 (w0 + 1) with
      | error e => rw [hp', hv', hl'] at h'; cases h'
      | ok o1' =>
      rw [hp, hv, hl] at h
      rw [hp', hv', hl'] at h'
      cases h; cases h'
      obtain ⟨i1, i2, i3⟩ := ih h0 (w0 + 1) o1 o1' hl hl'
      refine ⟨i1, ?_, ?_⟩
      · intro a b
        cases pl with
        | none => simp at a
        | some L =>
          cases pl' with
          | none => simp at b
          | some L' =>
            simp only
            rw [writeRow_ok_inv hp, writeRow_ok_inv hp', i2 a b]
      · intro a b
        cases vl with
        | none => simp at a
        | some L =>
          cases vl' with
          | none => simp at b
          | some L' =>
            simp only
            rw [writeRow_ok_inv hv, writeRow_ok_inv hv', i3 a b]


/-- a run of the loop that returns has met no header with a zero cells-per-dimension field -/
theorem loop_ok_headers (box velz : Rat) (pl vl : Option Nat) (s : List Rec) :
    ∀ (h0 : Option Hdr) (w0 : Nat) (o : Out), loop box velz pl vl s h0 w0 = .ok o → HeadersOk s := by
  induction s with
  | nil => intro _ _ _ _ c hc; cases hc
  | cons c rest ih =>
    intro h0 w0 o h
    cases hc : isHeader c with
    | true =>
      simp only [loop, hc, if_true, bind, Except.bind] at h
      cases hh : mkHdr box velz (expandToShort c) with
      | error e => rw [hh] at h; cases h
      | ok hd =>
        rw [hh] at h
        have hrest := ih (some hd) w0 o h
        intro d hd' hdh
        rcases List.mem_cons.mp hd' with rfl | hm
        · intro hz
          simp [mkHdr, hz] at hh
        · exact hrest d hm hdh
    | false =>
      simp only [loop, hc, Bool.false_eq_true, if_false, bind, Except.bind] at h
      cases hp : writeRow pl w0 (decodePos h0 (expandToShort c)) with
      | error e => rw [hp] at h; cases h
      | ok pw =>
      cases hv : writeRow vl w0 (decodeVel h0 (expandToShort c)) with
      | error e => rw [hp, hv] at h; cases h
      | ok vw =>
      cases hl : loop box velz pl vl rest h0 (w0 + 1) with
      | error e => rw [hp, hv, hl] at h; cases h
      | ok o1 =>
        have hrest := ih h0 (w0 + 1) o1 hl
        intro d hd' hdh
        rcases List.mem_cons.mp hd' with rfl | hm
        · rw [hc] at hdh; cases hdh
        · exact hrest d hm hdh

/-- `applyWrites` commutes with mapping the cell contents -/
theorem applyWrites_map {α β : Type} (g : α → β) (ws : List (Nat × α)) : ∀ (a : List α),
    (applyWrites a ws).map g = applyWrites (a.map g) (ws.map (fun w => (w.1, g w.2))) := by
  induction ws with
  | nil => intro a; rfl
  | cons w rest ih =>
    intro a
    simp only [applyWrites, List.foldl_cons, List.map_cons] at ih ⊢
    rw [ih (a.set w.1 w.2), List.map_set]

end AbacusVerif.Pack9
