/-
  Helper lemmas for C12 (HOD staging): `mapE`/`gather` on in-range indices, `argsort` through the sorted
  (id, index) pairs, `sortedB` as `Pairwise (· ≤ ·)`, and the record-wise view of named parallel arrays.
  Core Lean only (List.Perm, List.Pairwise, List.findIdx are in core).
-/
import AbacusVerif.Model.C12

namespace AbacusVerif.Staging
open AbacusVerif

/-! ### the record-wise view -/

/-- one halo as a record: its id and its value for every named attribute -/
structure HaloRec (Val : Type) where
  id : Nat
  attr : String → Val

/-- the named parallel arrays holding a list of records -/
def toCols {Val : Type} (names : List String) (recs : List (HaloRec Val)) : HaloCols Val :=
  { hid := recs.map (·.id), cols := names.map (fun n => (n, recs.map (·.attr n))) }

/-- the rows picked by an index list (indices out of range pick nothing; the lemmas use it only in range) -/
def pick {α : Type} (l : List α) (ind : List Nat) : List α := ind.filterMap (fun i => l[i]?)

/-! ### mapE, getAt, gather -/

theorem mapE_map_ok {ι α β : Type} (f : α → Except Fault β) (a : ι → α) (b : ι → β) (l : List ι)
    (h : ∀ x ∈ l, f (a x) = .ok (b x)) : mapE f (l.map a) = .ok (l.map b) := by
  induction l with
  | nil => rfl
  | cons x xs ih =>
    have hx := h x (by simp)
    have ih' := ih (fun y hy => h y (by simp [hy]))
    simp [mapE, hx, ih']

theorem mapE_ok {α β : Type} (f : α → Except Fault β) (b : α → β) (l : List α)
    (h : ∀ x ∈ l, f x = .ok (b x)) : mapE f l = .ok (l.map b) := by
  have := mapE_map_ok f id b l (by simpa using h)
  simpa using this

theorem getAt_ok {α : Type} (arr : List α) (i : Nat) (hi : i < arr.length) : getAt arr i = .ok arr[i] := by
  unfold getAt
  rw [pyIndex_nonneg hi]
  simp [List.getElem?_eq_getElem hi]

theorem pick_cons {α : Type} (l : List α) (i : Nat) (is : List Nat) (hi : i < l.length) :
    pick l (i :: is) = l[i] :: pick l is := by
  simp [pick, List.getElem?_eq_getElem hi]

/-- fancy indexing by in-range indices returns exactly the picked rows, in the order of the indices -/
theorem gather_ok {α : Type} (arr : List α) (ind : List Nat) (h : ∀ i ∈ ind, i < arr.length) :
    gather arr ind = .ok (pick arr ind) := by
  unfold gather
  induction ind with
  | nil => rfl
  | cons i is ih =>
    have hi := h i (by simp)
    have ih' := ih (fun x hx => h x (by simp [hx]))
    rw [pick_cons arr i is hi]
    simp [mapE, getAt_ok arr i hi, ih']

theorem pick_map {α β : Type} (f : α → β) (l : List α) (ind : List Nat) :
    pick (l.map f) ind = (pick l ind).map f := by
  induction ind with
  | nil => rfl
  | cons i is ih =>
    simp only [pick, List.filterMap_cons, List.getElem?_map] at ih ⊢
    cases h : l[i]? <;> simp [ih]

theorem pick_range {α : Type} (l : List α) : pick l (List.range l.length) = l := by
  induction l with
  | nil => rfl
  | cons a as ih =>
    simp only [pick] at ih ⊢
    rw [List.length_cons, List.range_succ_eq_map, List.filterMap_cons]
    simp [List.filterMap_map, Function.comp_def, ih]

theorem pick_perm {α : Type} (l : List α) (ind : List Nat) (h : ind.Perm (List.range l.length)) :
    (pick l ind).Perm l := by
  have := h.filterMap (fun i => l[i]?)
  rw [show List.filterMap (fun i => l[i]?) (List.range l.length) = l from pick_range l] at this
  exact this

/-! ### argsort -/

theorem insertPair_perm (p : Nat × Nat) (l : List (Nat × Nat)) : (insertPair p l).Perm (p :: l) := by
  induction l with
  | nil => exact List.Perm.refl _
  | cons q qs ih =>
    unfold insertPair
    split
    · exact List.Perm.refl _
    · exact ((List.Perm.cons q ih).trans (List.Perm.swap p q qs))

theorem insertPair_pairwise (p : Nat × Nat) (l : List (Nat × Nat))
    (h : l.Pairwise (fun a b => a.1 ≤ b.1)) : (insertPair p l).Pairwise (fun a b => a.1 ≤ b.1) := by
  induction l with
  | nil => simp [insertPair]
  | cons q qs ih =>
    have hq := List.pairwise_cons.mp h
    unfold insertPair
    split
    · rename_i hle
      refine List.pairwise_cons.mpr ⟨?_, h⟩
      intro x hx
      rcases List.mem_cons.mp hx with rfl | hx'
      · exact hle
      · exact Nat.le_trans hle (hq.1 x hx')
    · rename_i hnle
      refine List.pairwise_cons.mpr ⟨?_, ih hq.2⟩
      intro x hx
      have hx' := (insertPair_perm p qs).mem_iff.mp hx
      rcases List.mem_cons.mp hx' with rfl | hx''
      · omega
      · exact hq.1 x hx''

theorem sortPairs_perm (l : List (Nat × Nat)) : (sortPairs l).Perm l := by
  induction l with
  | nil => exact List.Perm.refl _
  | cons p ps ih =>
    show (insertPair p (sortPairs ps)).Perm (p :: ps)
    exact (insertPair_perm p _).trans (List.Perm.cons p ih)

theorem sortPairs_pairwise (l : List (Nat × Nat)) : (sortPairs l).Pairwise (fun a b => a.1 ≤ b.1) := by
  induction l with
  | nil => simp [sortPairs]
  | cons p ps ih =>
    show (insertPair p (sortPairs ps)).Pairwise _
    exact insertPair_pairwise p _ ih

/-- the (id, index) pairs ordered by id -/
def sortedPairs (hid : List Nat) : List (Nat × Nat) := sortPairs hid.zipIdx

theorem argsort_eq (hid : List Nat) : argsort hid = (sortedPairs hid).map (·.2) := rfl

theorem sortedPairs_perm (hid : List Nat) : (sortedPairs hid).Perm hid.zipIdx :=
  sortPairs_perm _

theorem argsort_perm_range (hid : List Nat) : (argsort hid).Perm (List.range hid.length) := by
  have h := (sortedPairs_perm hid).map Prod.snd
  rw [List.zipIdx_map_snd] at h
  rw [List.range_eq_range']
  exact h

theorem argsort_lt (hid : List Nat) : ∀ i ∈ argsort hid, i < hid.length := by
  intro i hi
  have := (argsort_perm_range hid).mem_iff.mp hi
  simpa using this

theorem sortedPairs_spec (hid : List Nat) : ∀ p ∈ sortedPairs hid, hid[p.2]? = some p.1 := by
  intro p hp
  have hp' := (sortedPairs_perm hid).mem_iff.mp hp
  obtain ⟨x, i⟩ := p
  have := List.mem_zipIdx hp'
  obtain ⟨_, h2, h3⟩ := this
  simp only [Nat.zero_add, Nat.sub_zero] at h2 h3
  simp [List.getElem?_eq_getElem h2, h3]

theorem pick_pairs (hid : List Nat) (ps : List (Nat × Nat)) (h : ∀ p ∈ ps, hid[p.2]? = some p.1) :
    pick hid (ps.map (·.2)) = ps.map (·.1) := by
  induction ps with
  | nil => rfl
  | cons p ps ih =>
    have hp := h p (by simp)
    have ih' := ih (fun q hq => h q (by simp [hq]))
    simp only [pick] at ih' ⊢
    simp [hp, ih']

theorem sortedPairs_pairwise (hid : List Nat) : ((sortedPairs hid).map (·.1)).Pairwise (· ≤ ·) :=
  List.Pairwise.map (·.1) (by intro a b hab; exact hab) (sortPairs_pairwise hid.zipIdx)

/-- the ids gathered by `argsort` are non-decreasing -/
theorem pick_argsort_pairwise (hid : List Nat) : (pick hid (argsort hid)).Pairwise (· ≤ ·) := by
  rw [argsort_eq, pick_pairs hid _ (sortedPairs_spec hid)]
  exact sortedPairs_pairwise hid

/-! ### `np.all(hid[:-1] <= hid[1:])` -/

theorem sortedB_cons2 (a b : Nat) (t : List Nat) :
    sortedB (a :: b :: t) = (decide (a ≤ b) && sortedB (b :: t)) := by
  simp [sortedB, List.dropLast]

theorem sortedB_iff (l : List Nat) : sortedB l = true ↔ l.Pairwise (· ≤ ·) := by
  induction l with
  | nil => simp [sortedB]
  | cons a t ih =>
    cases t with
    | nil => simp [sortedB]
    | cons b t' =>
      rw [sortedB_cons2, Bool.and_eq_true, ih, List.pairwise_cons (a := a)]
      constructor
      · rintro ⟨hab, hp⟩
        refine ⟨?_, hp⟩
        intro x hx
        have hab : a ≤ b := by simpa using hab
        rcases List.mem_cons.mp hx with rfl | hx'
        · exact hab
        · exact Nat.le_trans hab ((List.pairwise_cons.mp hp).1 x hx')
      · rintro ⟨h1, hp⟩
        exact ⟨by simpa using h1 b (by simp), hp⟩

/-! ### named columns of records -/

theorem lookup_names {β : Type} (names : List String) (f : String → β) (n : String) (hn : n ∈ names) :
    (names.map (fun m => (m, f m))).lookup n = some (f n) := by
  induction names with
  | nil => cases hn
  | cons m ms ih =>
    simp only [List.map_cons, List.lookup_cons]
    by_cases h : n = m
    · subst h; simp
    · have : (n == m) = false := by simpa using h
      rw [this]
      exact ih (by rcases List.mem_cons.mp hn with h' | h'; exact absurd h' h; exact h')

theorem getCol_toCols {Val : Type} (names : List String) (recs : List (HaloRec Val)) (n : String) (hn : n ∈ names) :
    getCol (toCols names recs).cols n (toCols names recs).hid.length = .ok (recs.map (·.attr n)) := by
  unfold getCol
  simp only [toCols]
  rw [lookup_names names (fun m => recs.map (·.attr m)) n hn]
  simp

/-! ### the fill loop -/

theorem getAt_of_getElem? {α : Type} (arr : List α) (i : Nat) (v : α) (h : arr[i]? = some v) :
    getAt arr i = .ok v := by
  have hi : i < arr.length := by
    rcases Nat.lt_or_ge i arr.length with h' | h'
    · exact h'
    · rw [List.getElem?_eq_none h'] at h; cases h
  rw [getAt_ok arr i hi]
  rw [List.getElem?_eq_getElem hi] at h
  cases h; rfl

theorem idx_ok (len i : Nat) (h : i < len) : idx len (i : Int) = .ok i := by
  unfold idx; rw [pyIndex_nonneg h]

/-- the writes of one slice assignment in closed form: cell `ticker + j` gets `vals[j]` -/
def placed {α : Type} (ticker : Nat) (vals : List α) : List (Nat × α) :=
  (vals.zipIdx ticker).map (fun p => (p.2, p.1))

theorem sliceWrites_ok {α : Type} (len ticker : Nat) (vals : List α) (h : ticker + vals.length ≤ len) :
    sliceWrites len ticker vals.length vals = .ok (placed ticker vals) := by
  unfold sliceWrites
  have h1 : min ticker len = ticker := by omega
  have h2 : min (ticker + vals.length) len = ticker + vals.length := by omega
  simp only [h1, h2]
  have h3 : vals.length = ticker + vals.length - ticker := by omega
  rw [if_pos h3]
  apply mapE_ok
  intro p hp
  obtain ⟨x, i⟩ := p
  have hm := List.mem_zipIdx hp
  rw [idx_ok len i (by omega)]

theorem fillLoop_ok {α : Type} (total : Nat) (counts : List Nat) (parts : List (List α)) :
    ∀ (k ticker : Nat) (ws : List (Nat × α)),
      counts.drop k = parts.map List.length → ticker + (parts.map List.length).sum ≤ total →
      fillLoop total counts id parts k ticker ws = .ok (ws ++ placed ticker parts.flatten) := by
  induction parts with
  | nil => intro k ticker ws _ _; simp [fillLoop, placed]
  | cons vals rest ih =>
    intro k ticker ws hc ht
    have hk : counts[k]? = some vals.length := by
      have := congrArg (fun l => l[0]?) hc
      simpa [List.getElem?_drop] using this
    have hc' : counts.drop (k + 1) = rest.map List.length := by
      have := congrArg (fun l => l.drop 1) hc
      simpa [List.drop_drop, Nat.add_comm] using this
    simp only [List.map_cons, List.sum_cons] at ht
    unfold fillLoop
    rw [getAt_of_getElem? counts k _ hk]
    simp only
    rw [sliceWrites_ok total ticker vals (by omega)]
    simp only [id]
    rw [getAt_of_getElem? counts k _ hk]
    simp only
    rw [ih (k + 1) (ticker + vals.length) _ hc' (by omega)]
    simp [placed, List.zipIdx_append, List.append_assoc]

theorem fillArr_ok {α : Type} (parts : List (List α)) :
    fillArr (parts.map List.length).sum (parts.map List.length) parts = .ok (placed 0 parts.flatten) := by
  unfold fillArr
  rw [fillLoop_ok _ _ parts 0 0 [] (by simp) (by omega)]
  simp

theorem placed_fst {α : Type} (t : Nat) (l : List α) : (placed t l).map (·.1) = List.range' t l.length := by
  simp only [placed, List.map_map]
  exact List.zipIdx_map_snd t l

theorem placed_snd {α : Type} (t : Nat) (l : List α) : (placed t l).map (·.2) = l := by
  simp only [placed, List.map_map]
  exact List.zipIdx_map_fst t l

theorem set_append_cons {β : Type} (xs : List β) (y z : β) (ys : List β) :
    (xs ++ y :: ys).set xs.length z = xs ++ z :: ys := by
  induction xs with
  | nil => rfl
  | cons x xs ih => simp [ih]

theorem applyWrites_placed {α : Type} (l : List α) : ∀ (done : List α),
    applyWrites (done.map some ++ List.replicate l.length none)
      ((placed done.length l).map (fun w => (w.1, some w.2))) = (done ++ l).map some := by
  induction l with
  | nil => intro done; simp [placed, applyWrites]
  | cons v vs ih =>
    intro done
    have h := ih (done ++ [v])
    simp only [List.length_append, List.length_cons, List.length_nil, Nat.zero_add, List.map_append,
      List.map_cons, List.map_nil, List.append_assoc, List.cons_append, List.nil_append] at h
    simp only [placed, List.zipIdx_cons, List.map_cons, applyWrites, List.foldl_cons, List.length_cons,
      List.replicate_succ]
    have hs : (List.map some done ++ none :: List.replicate vs.length none).set done.length (some v)
        = List.map some done ++ some v :: List.replicate vs.length none := by
      simp
    rw [hs]
    simpa [placed, applyWrites] using h

theorem readBack_some {α : Type} (l : List α) : readBack (l.map some) = .ok l := by
  unfold readBack
  have := mapE_map_ok (cellValue (α := α)) some id l (by intro x _; rfl)
  simpa using this

/-- one array after the fill loop is the concatenation of the slabs' values -/
theorem fillColumn_ok {α : Type} (parts : List (List α)) :
    fillColumn (parts.map List.length) parts = .ok parts.flatten := by
  unfold fillColumn fillColumnWith
  have hfa := fillArr_ok parts
  unfold fillArr at hfa
  simp only [hfa]
  have hl : (parts.map List.length).sum = parts.flatten.length := by rw [List.length_flatten]
  rw [hl]
  have := applyWrites_placed parts.flatten []
  simp only [List.map_nil, List.nil_append, List.length_nil] at this
  unfold allocate
  rw [this, readBack_some]

theorem slabCol_toCols {Val : Type} (names : List String) (slabs : List (List (HaloRec Val))) (n : String)
    (hn : n ∈ names) :
    slabCol (slabs.map (toCols names)) n = .ok (n, (slabs.flatten).map (·.attr n)) := by
  unfold slabCol
  rw [mapE_map_ok (fun (s : HaloCols Val) => getCol s.cols n s.hid.length) (toCols names)
    (fun recs => recs.map (·.attr n)) slabs (by intro recs _; exact getCol_toCols names recs n hn)]
  have hc : (slabs.map (toCols names)).map (·.hid.length) = (slabs.map (fun recs => recs.map (·.attr n))).map List.length := by
    simp [toCols, List.map_map, Function.comp_def]
  simp only [hc, fillColumn_ok]
  simp [List.map_flatten]

/-- filling the arrays slab after slab = the arrays of the concatenated records -/
theorem concatCols_toCols {Val : Type} (names : List String) (slabs : List (List (HaloRec Val))) :
    concatCols names (slabs.map (toCols names)) = .ok (toCols names slabs.flatten) := by
  unfold concatCols
  have hc : (slabs.map (toCols names)).map (·.hid.length) = ((slabs.map (toCols names)).map (·.hid)).map List.length := by
    simp [List.map_map, Function.comp_def]
  simp only [hc, fillColumn_ok]
  rw [mapE_ok (slabCol (slabs.map (toCols names))) (fun n => (n, (slabs.flatten).map (·.attr n))) names
    (fun n hn => slabCol_toCols names slabs n hn)]
  simp [toCols, List.map_flatten, List.map_map, Function.comp_def]

/-- permuting every column of `names` by in-range indices `σ` = the arrays of the picked records -/
theorem permuteCols_toCols {Val : Type} (permuted names : List String) (σ : List Nat) (recs : List (HaloRec Val))
    (hσ : ∀ i ∈ σ, i < recs.length) (hall : ∀ n ∈ names, n ∈ permuted) :
    permuteCols permuted σ (toCols names recs).cols = .ok (toCols names (pick recs σ)).cols := by
  unfold permuteCols
  simp only [toCols]
  apply mapE_map_ok
  intro n hn
  unfold permuteCol
  simp only [hall n hn, if_true]
  rw [gather_ok _ _ (by simpa using hσ), pick_map]

/-! ### stability of the sort index (ids with duplicates) -/

/-- order by id, ties by position in the file -/
def lexLt (a b : Nat × Nat) : Prop := a.1 < b.1 ∨ (a.1 = b.1 ∧ a.2 < b.2)

theorem insertPair_lex (p : Nat × Nat) (l : List (Nat × Nat)) (h : l.Pairwise lexLt)
    (hp : ∀ x ∈ l, p.2 < x.2) : (insertPair p l).Pairwise lexLt := by
  induction l with
  | nil => simp [insertPair]
  | cons q qs ih =>
    have hq := List.pairwise_cons.mp h
    unfold insertPair
    split
    · rename_i hle
      refine List.pairwise_cons.mpr ⟨?_, h⟩
      intro x hx
      have hpx := hp x hx
      rcases List.mem_cons.mp hx with hxq | hx'
      · subst hxq; unfold lexLt; omega
      · have := hq.1 x hx'; unfold lexLt at this ⊢; omega
    · rename_i hnle
      refine List.pairwise_cons.mpr ⟨?_, ih hq.2 (fun x hx => hp x (List.mem_cons_of_mem _ hx))⟩
      intro x hx
      have hx' := (insertPair_perm p qs).mem_iff.mp hx
      rcases List.mem_cons.mp hx' with hxp | hx''
      · subst hxp; unfold lexLt; omega
      · exact hq.1 x hx''

theorem sortPairs_lex (l : List (Nat × Nat)) (h : l.Pairwise (fun a b => a.2 < b.2)) :
    (sortPairs l).Pairwise lexLt := by
  induction l with
  | nil => simp [sortPairs]
  | cons p ps ih =>
    have hp := List.pairwise_cons.mp h
    show (insertPair p (sortPairs ps)).Pairwise lexLt
    exact insertPair_lex p _ (ih hp.2) (fun x hx => hp.1 x ((sortPairs_perm ps).mem_iff.mp hx))

theorem zipIdx_snd_lt {α : Type} (l : List α) : ∀ k, (l.zipIdx k).Pairwise (fun a b => a.2 < b.2) := by
  induction l with
  | nil => intro k; simp
  | cons a as ih =>
    intro k
    rw [List.zipIdx_cons]
    refine List.pairwise_cons.mpr ⟨?_, ih (k + 1)⟩
    intro x hx
    obtain ⟨v, i⟩ := x
    have := List.mem_zipIdx hx
    show k < i
    omega

theorem sortedPairs_lex (hid : List Nat) : (sortedPairs hid).Pairwise lexLt :=
  sortPairs_lex _ (zipIdx_snd_lt hid 0)

/-! ### source expressions evaluate row by row -/

open AbacusVerif.Generated.StagingCols in
/-- a source expression evaluated on one record of the dataset -/
def evalRec {Val : Type} (ops : Ops Val) (r : HaloRec Val) : Src → Val
  | .field f => r.attr f
  | .asInt a => evalRec ops r a
  | .div a b => ops.div (evalRec ops r a) (evalRec ops r b)
  | .mulParam a p => ops.mulParam p (evalRec ops r a)
  | .fieldOrZeros f => r.attr f
  | .invProd a b => ops.invProd (evalRec ops r a) (evalRec ops r b)

open AbacusVerif.Generated.StagingCols in
/-- the dataset fields an expression reads -/
def srcFields : Src → List String
  | .field f => [f]
  | .asInt a => srcFields a
  | .div a b => srcFields a ++ srcFields b
  | .mulParam a _ => srcFields a
  | .fieldOrZeros f => [f]
  | .invProd a b => srcFields a ++ srcFields b

theorem zipWith_map_map {α β γ δ : Type} (f : β → γ → δ) (g : α → β) (h : α → γ) (l : List α) :
    List.zipWith f (l.map g) (l.map h) = l.map (fun x => f (g x) (h x)) := by
  induction l with
  | nil => rfl
  | cons a as ih => simp [ih]

open AbacusVerif.Generated.StagingCols in
theorem evalSrc_toCols {Val : Type} (ops : Ops Val) (fields : List String) (recs : List (HaloRec Val)) (src : Src)
    (hf : ∀ f ∈ srcFields src, f ∈ fields) :
    evalSrc ops (toCols fields recs) src = .ok (recs.map (fun r => evalRec ops r src)) := by
  induction src with
  | field f =>
    have := getCol_toCols fields recs f (hf f (by simp [srcFields]))
    simpa [evalSrc, evalRec] using this
  | asInt a ih =>
    simp only [evalSrc, evalRec]
    exact ih (by simpa [srcFields] using hf)
  | div a b iha ihb =>
    have ha := iha (fun f h => hf f (by simp [srcFields, h]))
    have hb := ihb (fun f h => hf f (by simp [srcFields, h]))
    simp only [evalSrc, evalRec, ha, hb, zipWith_map_map]
  | mulParam a p ih =>
    have ha := ih (by simpa [srcFields] using hf)
    simp only [evalSrc, evalRec, ha, List.map_map, Function.comp_def]
  | fieldOrZeros f =>
    simp only [evalSrc, evalRec, toCols]
    rw [lookup_names fields (fun m => recs.map (·.attr m)) f (hf f (by simp [srcFields]))]
    simp
  | invProd a b iha ihb =>
    have ha := iha (fun f h => hf f (by simp [srcFields, h]))
    have hb := ihb (fun f h => hf f (by simp [srcFields, h]))
    simp only [evalSrc, evalRec, ha, hb, zipWith_map_map]

end AbacusVerif.Staging
