/-
  Helper lemmas for C12 (HOD staging): `mapE`/`gather` on in-range indices, `argsort` through the sorted
  (id, index) pairs, `sortedB` as `Pairwise (· ≤ ·)`, and the record-wise view of named parallel arrays.
  Core Lean only (List.Perm, List.Pairwise, List.findIdx are in core).
-/
import AbacusVerif.Model.C12

namespace AbacusVerif.Staging
open AbacusVerif

/-! ### the record-wise view -/

/-- one halo as a record: its id and its value for every named attribute -/
structure HaloRec (Val : Type) where
  id : Nat
  attr : String → Val

/-- the named parallel arrays holding a list of records -/
def toCols {Val : Type} (names : List String) (recs : List (HaloRec Val)) : HaloCols Val :=
  { hid := recs.map (·.id), cols := names.map (fun n => (n, recs.map (·.attr n))) }

/-- the rows picked by an index list (indices out of range pick nothing; the lemmas use it only in range) -/
def pick {α : Type} (l : List α) (ind : List Nat) : List α := ind.filterMap (fun i => l[i]?)

/-! ### mapE, getAt, gather -/

theorem mapE_map_ok {ι α β : Type} (f : α → Except Fault β) (a : ι → α) (b : ι → β) (l : List ι)
    (h : ∀ x ∈ l, f (a x) = .ok (b x)) : mapE f (l.map a) = .ok (l.map b) := by
  induction l with
  | nil => rfl
  | cons x xs ih =>
    have hx := h x (by simp)
    have ih' := ih (fun y hy => h y (by simp [hy]))
    simp [mapE, hx, ih']

theorem mapE_ok {α β : Type} (f : α → Except Fault β) (b : α → β) (l : List α)
    (h : ∀ x ∈ l, f x = .ok (b x)) : mapE f l = .ok (l.map b) := by
  have := mapE_map_ok f id b l (by simpa using h)
  simpa using this

theorem getAt_ok {α : Type} (arr : List α) (i : Nat) (hi : i < arr.length) : getAt arr i = .ok arr[i] := by
  unfold getAt
  rw [pyIndex_nonneg hi]
  simp [List.getElem?_eq_getElem hi]

theorem pick_cons {α : Type} (l : List α) (i : Nat) (is : List Nat) (hi : i < l.length) :
    pick l (i :: is) = l[i] :: pick l is := by
  simp [pick, List.getElem?_eq_getElem hi]

/-- fancy indexing by in-range indices returns exactly the picked rows, in the order of the indices -/
theorem gather_ok {α : Type} (arr : List α) (ind : List Nat) (h : ∀ i ∈ ind, i < arr.length) :
    gather arr ind = .ok (pick arr ind) := by
  unfold gather
  induction ind with
  | nil => rfl
  | cons i is ih =>
    have hi := h i (by simp)
    have ih' := ih (fun x hx => h x (by simp [hx]))
    rw [pick_cons arr i is hi]
    simp [mapE, getAt_ok arr i hi, ih']

theorem pick_map {α β : Type} (f : α → β) (l : List α) (ind : List Nat) :
    pick (l.map f) ind = (pick l ind).map f := by
  induction ind with
  | nil => rfl
  | cons i is ih =>
    simp only [pick, List.filterMap_cons, List.getElem?_map] at ih ⊢
    cases h : l[i]? <;> simp [ih]

theorem pick_range {α : Type} (l : List α) : pick l (List.range l.length) = l := by
  induction l with
  | nil => rfl
  | cons a as ih =>
    simp only [pick] at ih ⊢
    rw [List.length_cons, List.range_succ_eq_map, List.filterMap_cons]
    simp [List.filterMap_map, Function.comp_def, ih]

theorem pick_perm {α : Type} (l : List α) (ind : List Nat) (h : ind.Perm (List.range l.length)) :
    (pick l ind).Perm l := by
  have := h.filterMap (fun i => l[i]?)
  rw [show List.filterMap (fun i => l[i]?) (List.range l.length) = l from pick_range l] at this
  exact this

/-! ### argsort -/

theorem insertPair_perm (p : Nat × Nat) (l : List (Nat × Nat)) : (insertPair p l).Perm (p :: l) := by
  induction l with
  | nil => exact List.Perm.refl _
  | cons q qs ih =>
    unfold insertPair
    split
    · exact List.Perm.refl _
    · exact ((List.Perm.cons q ih).trans (List.Perm.swap p q qs))

theorem insertPair_pairwise (p : Nat × Nat) (l : List (Nat × Nat))
    (h : l.Pairwise (fun a b => a.1 ≤ b.1)) : (insertPair p l).Pairwise (fun a b => a.1 ≤ b.1) := by
  induction l with
  | nil => simp [insertPair]
  | cons q qs ih =>
    have hq := List.pairwise_cons.mp h
    unfold insertPair
    split
    · rename_i hle
      refine List.pairwise_cons.mpr ⟨?_, h⟩
      intro x hx
      rcases List.mem_cons.mp hx with rfl | hx'
      · exact hle
      · exact Nat.le_trans hle (hq.1 x hx')
    · rename_i hnle
      refine List.pairwise_cons.mpr ⟨?_, ih hq.2⟩
      intro x hx
      have hx' := (insertPair_perm p qs).mem_iff.mp hx
      rcases List.mem_cons.mp hx' with rfl | hx''
      · omega
      · exact hq.1 x hx''

theorem sortPairs_perm (l : List (Nat × Nat)) : (sortPairs l).Perm l := by
  induction l with
  | nil => exact List.Perm.refl _
  | cons p ps ih =>
    show (insertPair p (sortPairs ps)).Perm (p :: ps)
    exact (insertPair_perm p _).trans (List.Perm.cons p ih)

theorem sortPairs_pairwise (l : List (Nat × Nat)) : (sortPairs l).Pairwise (fun a b => a.1 ≤ b.1) := by
  induction l with
  | nil => simp [sortPairs]
  | cons p ps ih =>
    show (insertPair p (sortPairs ps)).Pairwise _
    exact insertPair_pairwise p _ ih

/-- the (id, index) pairs ordered by id -/
def sortedPairs (hid : List Nat) : List (Nat × Nat) := sortPairs hid.zipIdx

theorem argsort_eq (hid : List Nat) : argsort hid = (sortedPairs hid).map (·.2) := rfl

theorem sortedPairs_perm (hid : List Nat) : (sortedPairs hid).Perm hid.zipIdx :=
  sortPairs_perm _

theorem argsort_perm_range (hid : List Nat) : (argsort hid).Perm (List.range hid.length) := by
  have h := (sortedPairs_perm hid).map Prod.snd
  rw [List.zipIdx_map_snd] at h
  rw [List.range_eq_range']
  exact h

theorem argsort_lt (hid : List Nat) : ∀ i ∈ argsort hid, i < hid.length := by
  intro i hi
  have := (argsort_perm_range hid).mem_iff.mp hi
  simpa using this

theorem sortedPairs_spec (hid : List Nat) : ∀ p ∈ sortedPairs hid, hid[p.2]? = some p.1 := by
  intro p hp
  have hp' := (sortedPairs_perm hid).mem_iff.mp hp
  obtain ⟨x, i⟩ := p
  have := List.mem_zipIdx hp'
  obtain ⟨_, h2, h3⟩ := this
  simp only [Nat.zero_add, Nat.sub_zero] at h2 h3
  simp [List.getElem?_eq_getElem h2, h3]

theorem pick_pairs (hid : List Nat) (ps : List (Nat × Nat)) (h : ∀ p ∈ ps, hid[p.2]? = some p.1) :
    pick hid (ps.map (·.2)) = ps.map (·.1) := by
  induction ps with
  | nil => rfl
  | cons p ps ih =>
    have hp := h p (by simp)
    have ih' := ih (fun q hq => h q (by simp [hq]))
    simp only [pick] at ih' ⊢
    simp [hp, ih']

theorem sortedPairs_pairwise (hid : List Nat) : ((sortedPairs hid).map (·.1)).Pairwise (· ≤ ·) :=
  List.Pairwise.map (·.1) (by intro a b hab; exact hab) (sortPairs_pairwise hid.zipIdx)

/-- the ids gathered by `argsort` are non-decreasing -/
theorem pick_argsort_pairwise (hid : List Nat) : (pick hid (argsort hid)).Pairwise (· ≤ ·) := by
  rw [argsort_eq, pick_pairs hid _ (sortedPairs_spec hid)]
  exact sortedPairs_pairwise hid

/-! ### `np.all(hid[:-1] <= hid[1:])` -/

theorem sortedB_cons2 (a b : Nat) (t : List Nat) :
    sortedB (a :: b :: t) = (decide (a ≤ b) && sortedB (b :: t)) := by
  simp [sortedB, List.dropLast]

theorem sortedB_iff (l : List Nat) : sortedB l = true ↔ l.Pairwise (· ≤ ·) := by
  induction l with
  | nil => simp [sortedB]
  | cons a t ih =>
    cases t with
    | nil => simp [sortedB]
    | cons b t' =>
      rw [sortedB_cons2, Bool.and_eq_true, ih, List.pairwise_cons (a := a)]
      constructor
      · rintro ⟨hab, hp⟩
        refine ⟨?_, hp⟩
        intro x hx
        have hab : a ≤ b := by simpa using hab
        rcases List.mem_cons.mp hx with rfl | hx'
        · exact hab
        · exact Nat.le_trans hab ((List.pairwise_cons.mp hp).1 x hx')
      · rintro ⟨h1, hp⟩
        exact ⟨by simpa using h1 b (by simp), hp⟩

/-! ### named columns of records -/

theorem lookup_names {β : Type} (names : List String) (f : String → β) (n : String) (hn : n ∈ names) :
    (names.map (fun m => (m, f m))).lookup n = some (f n) := by
  induction names with
  | nil => cases hn
  | cons m ms ih =>
    simp only [List.map_cons, List.lookup_cons]
    by_cases h : n = m
    · subst h; simp
    · have : (n == m) = false := by simpa using h
      rw [this]
      exact ih (by rcases List.mem_cons.mp hn with h' | h'; exact absurd h' h; exact h')

theorem getCol_toCols {Val : Type} (names : List String) (recs : List (HaloRec Val)) (n : String) (hn : n ∈ names) :
    getCol (toCols names recs).cols n (toCols names recs).hid.length = .ok (recs.map (·.attr n)) := by
  unfold getCol
  simp only [toCols]
  rw [lookup_names names (fun m => recs.map (·.attr m)) n hn]
  simp

theorem slabCol_toCols {Val : Type} (names : List String) (slabs : List (List (HaloRec Val))) (n : String)
    (hn : n ∈ names) :
    slabCol (slabs.map (toCols names)) n = .ok (n, (slabs.flatten).map (·.attr n)) := by
  unfold slabCol
  rw [mapE_map_ok (fun (s : HaloCols Val) => getCol s.cols n s.hid.length) (toCols names)
    (fun recs => recs.map (·.attr n)) slabs (by intro recs _; exact getCol_toCols names recs n hn)]
  simp [List.map_flatten]

/-- filling the arrays slab after slab = the arrays of the concatenated records -/
theorem concatCols_toCols {Val : Type} (names : List String) (slabs : List (List (HaloRec Val))) :
    concatCols names (slabs.map (toCols names)) = .ok (toCols names slabs.flatten) := by
  unfold concatCols
  rw [mapE_ok (slabCol (slabs.map (toCols names))) (fun n => (n, (slabs.flatten).map (·.attr n))) names
    (fun n hn => slabCol_toCols names slabs n hn)]
  simp [toCols, List.map_flatten, List.map_map, Function.comp_def]

/-- permuting every column of `names` by in-range indices `σ` = the arrays of the picked records -/
theorem permuteCols_toCols {Val : Type} (permuted names : List String) (σ : List Nat) (recs : List (HaloRec Val))
    (hσ : ∀ i ∈ σ, i < recs.length) (hall : ∀ n ∈ names, n ∈ permuted) :
    permuteCols permuted σ (toCols names recs).cols = .ok (toCols names (pick recs σ)).cols := by
  unfold permuteCols
  simp only [toCols]
  apply mapE_map_ok
  intro n hn
  unfold permuteCol
  simp only [hall n hn, if_true]
  rw [gather_ok _ _ (by simpa using hσ), pick_map]

end AbacusVerif.Staging
