/-
  Helper lemmas for C02: `dedup` (dict.fromkeys), the level structure of the dependency worklist,
  `SortedFrom` (every dependency precedes its dependents) and the loop invariant of `loadAll`.
-/
import AbacusVerif.Model.C02

namespace AbacusVerif.Fields
open AbacusVerif AbacusVerif.Units

/-! ### dedup -/

theorem mem_dedup {x : String} : ∀ {l : List String}, x ∈ dedup l ↔ x ∈ l
  | [] => by simp [dedup]
  | y :: ys => by
    have ih := @mem_dedup x ys
    by_cases h : x = y
    · subst h; simp [dedup]
    · simp [dedup, List.mem_filter, ih, h]

theorem dedup_append (A B : List String) :
    dedup (A ++ B) = dedup A ++ (dedup B).filter (fun y => !(decide (y ∈ A))) := by
  induction A with
  | nil =>
    simp only [dedup, List.nil_append, List.not_mem_nil, decide_false, Bool.not_false]
    exact (List.filter_eq_self.mpr (fun _ _ => rfl)).symm
  | cons a A ih =>
    simp only [List.cons_append, dedup, ih, List.filter_append, List.filter_filter]
    congr 2
    apply List.filter_congr
    intro y _
    by_cases h : y = a
    · subst h; simp
    · simp [h]

/-! ### dependency order -/

/-- the captured halo dependencies of a field (`[]` for an unknown field) -/
def depsOfField (S : Spec) (f : String) : List String :=
  match findLoader S f with
  | some ld => ld.haloDeps
  | none => []

/-- processing `l` left to right with `seen` already processed, every field finds all its
dependencies among what was processed before it -/
def SortedFrom (S : Spec) : List String → List String → Prop
  | _, [] => True
  | seen, f :: fs => (∀ d ∈ depsOfField S f, d ∈ seen) ∧ SortedFrom S (f :: seen) fs

theorem SortedFrom.mono {S : Spec} : ∀ {l seen seen' : List String},
    (∀ x ∈ seen, x ∈ seen') → SortedFrom S seen l → SortedFrom S seen' l
  | [], _, _, _, _ => trivial
  | f :: fs, seen, seen', hsub, h => by
    refine ⟨fun d hd => hsub d (h.1 d hd), ?_⟩
    apply SortedFrom.mono (seen := f :: seen) _ h.2
    intro x hx
    rcases List.mem_cons.mp hx with rfl | hx
    · exact List.mem_cons_self
    · exact List.mem_cons_of_mem _ (hsub x hx)

theorem SortedFrom.append {S : Spec} : ∀ {A B seen : List String},
    SortedFrom S seen A → SortedFrom S (A.reverse ++ seen) B → SortedFrom S seen (A ++ B)
  | [], _, _, _, hB => by simpa using hB
  | a :: A, B, seen, hA, hB => by
    refine ⟨hA.1, ?_⟩
    apply SortedFrom.append hA.2
    simpa [List.reverse_cons, List.append_assoc] using hB

theorem SortedFrom.of_all {S : Spec} : ∀ {l seen : List String},
    (∀ f ∈ l, ∀ d ∈ depsOfField S f, d ∈ seen) → SortedFrom S seen l
  | [], _, _ => trivial
  | f :: fs, seen, h => by
    refine ⟨h f List.mem_cons_self, ?_⟩
    apply SortedFrom.of_all
    intro g hg d hd
    exact List.mem_cons_of_mem _ (h g (List.mem_cons_of_mem _ hg) d hd)

theorem nextLevel_mem {S : Spec} : ∀ {l next : List String}, nextLevel S l = .ok next →
    ∀ f ∈ l, ∀ d ∈ depsOfField S f, d ∈ next
  | [], _, _, f, hf => by simp at hf
  | g :: gs, next, h, f, hf => by
    unfold nextLevel at h
    cases hg : findLoader S g with
    | none => simp [hg] at h
    | some ld =>
      simp only [hg] at h
      cases hr : nextLevel S gs with
      | error e => simp [hr] at h
      | ok r =>
        simp only [hr] at h
        cases h
        intro d hd
        rcases List.mem_cons.mp hf with rfl | hf
        · simp only [depsOfField, hg] at hd
          exact List.mem_append_left _ hd
        · exact List.mem_append_right _ (nextLevel_mem hr f hf d hd)

/-- the order computed from the levels of the worklist is sorted and contains every level -/
theorem levels_sorted {S : Spec} : ∀ (fuel : Nat) (l : List String) (lv : List (List String)),
    levels S fuel l = .ok lv →
      SortedFrom S [] (dedup lv.flatten.reverse) ∧ (∀ x ∈ l, x ∈ lv.flatten)
  | 0, l, lv, h => by
    unfold levels at h
    split at h
    · cases h
      rename_i he
      have : l = [] := by simpa using he
      subst this
      exact ⟨trivial, by simp⟩
    · cases h
  | fuel + 1, l, lv, h => by
    unfold levels at h
    split at h
    · cases h
      rename_i he
      have : l = [] := by simpa using he
      subst this
      exact ⟨trivial, by simp⟩
    · cases hn : nextLevel S l with
      | error e => simp [hn] at h
      | ok next =>
        simp only [hn] at h
        cases hr : levels S fuel next with
        | error e => simp [hr] at h
        | ok rest =>
          simp only [hr] at h
          cases h
          obtain ⟨ihs, ihm⟩ := levels_sorted fuel next rest hr
          refine ⟨?_, fun x hx => by simp [hx]⟩
          simp only [List.flatten_cons, List.reverse_append, dedup_append]
          apply SortedFrom.append ihs
          apply SortedFrom.of_all
          intro f hf d hd
          have hfl : f ∈ l := by
            have := (List.mem_filter.mp hf).1
            simpa [mem_dedup] using this
          have hdn : d ∈ next := nextLevel_mem hn f hfl d hd
          have : d ∈ rest.flatten := ihm d hdn
          simp [mem_dedup, this]

/-! ### small facts about tables and loops -/

theorem dtLookup_mem {t : List (String × Dt)} {n : String} {d : Dt} (h : dtLookup t n = some d) :
    (n, d) ∈ t := by
  unfold dtLookup at h
  cases hf : t.find? (fun p => p.1 == n) with
  | none => simp [hf] at h
  | some p =>
    simp only [hf, Option.map_some, Option.some.injEq] at h
    have h1 := List.mem_of_find?_eq_some hf
    have h2 := List.find?_some hf
    have : p.1 = n := by simpa using h2
    subst h; subst this; exact h1

theorem dtLookup_none {t : List (String × Dt)} {n : String} (h : ¬ n ∈ names t) : dtLookup t n = none := by
  unfold dtLookup
  cases hf : t.find? (fun p => p.1 == n) with
  | none => rfl
  | some p =>
    exfalso
    have h1 := List.mem_of_find?_eq_some hf
    have h2 : p.1 = n := by simpa using List.find?_some hf
    exact h (by subst h2; exact List.mem_map_of_mem h1)

theorem dtLookup_names {t : List (String × Dt)} {n : String} {d : Dt} (h : dtLookup t n = some d) : n ∈ names t := by
  have := dtLookup_mem h
  exact List.mem_map.mpr ⟨(n, d), this, rfl⟩

theorem findLoader_mem {S : Spec} {n : String} {ld : Loader} (h : findLoader S n = some ld) :
    ld ∈ S.loaders ∧ ld.name = n := by
  unfold findLoader at h
  exact ⟨List.mem_of_find?_eq_some h, by simpa using List.find?_some h⟩

theorem insertCol_mem {cols : List (String × Dt)} {n : String} {d : Dt} {p : String × Dt}
    (h : p ∈ insertCol cols n d) : p ∈ cols ∨ p = (n, d) := by
  unfold insertCol at h
  split at h
  · obtain ⟨q, hq, hqp⟩ := List.mem_map.mp h
    split at hqp
    · exact Or.inr hqp.symm
    · exact Or.inl (hqp ▸ hq)
  · rcases List.mem_append.mp h with h | h
    · exact Or.inl h
    · exact Or.inr (by simpa using h)

theorem foldlM_inv {α β : Type} (f : β → α → Except Fault β) (P : β → Prop)
    (hstep : ∀ b a b', P b → f b a = .ok b' → P b') :
    ∀ (l : List α) (b b' : β), P b → l.foldlM f b = .ok b' → P b'
  | [], b, b', hb, h => by simp [List.foldlM, pure, Except.pure] at h; exact h ▸ hb
  | a :: l, b, b', hb, h => by
    simp only [List.foldlM, bind, Except.bind] at h
    cases hf : f b a with
    | error e => simp [hf] at h
    | ok b1 =>
      simp only [hf] at h
      exact foldlM_inv f P hstep l b1 b' (hstep b a b1 hb hf) h

theorem dtLookup_some_of_mem {t : List (String × Dt)} {n : String} (h : n ∈ names t) : ∃ d, dtLookup t n = some d := by
  cases hd : dtLookup t n with
  | some d => exact ⟨d, rfl⟩
  | none =>
    exfalso
    unfold dtLookup at hd
    cases hf : t.find? (fun p => p.1 == n) with
    | some p => simp [hf] at hd
    | none =>
      obtain ⟨p, hp, he⟩ := List.mem_map.mp h
      have := List.find?_eq_none.mp hf p hp
      simp [he] at this


end AbacusVerif.Fields
