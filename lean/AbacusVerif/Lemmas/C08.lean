/-
  Helper lemmas for the mode-binning model (Props/C08.lean holds the property theorems).
-/
import AbacusVerif.Model.C08
import Mathlib.Data.Rat.Floor
import Mathlib.Algebra.BigOperators.Group.Finset.Basic
import Mathlib.Algebra.BigOperators.Ring.Finset
import Mathlib.Tactic.Ring
import Mathlib.Tactic.Linarith

namespace AbacusVerif.Binning
open AbacusVerif

/-! ### sums: lists and `Finset.range` -/

theorem natSum_eq (l : List Nat) : natSum l = l.sum := rfl
theorem ratSum_eq (l : List Rat) : ratSum l = l.sum := rfl

theorem list_sum_range {M : Type} [AddCommMonoid M] (f : Nat → M) (n : Nat) :
    ((List.range n).map f).sum = ∑ i ∈ Finset.range n, f i := by
  induction n with
  | zero => simp
  | succ n ih =>
    rw [List.range_succ, List.map_append, List.sum_append, ih, Finset.sum_range_succ]
    simp

/-! ### frequencies -/

theorem fftfreq_length (n : Nat) : (fftfreq n).length = n := by
  simp [fftfreq]; omega

theorem fold_eq_fftfreq (n : Nat) : (List.range n).map (fold n) = fftfreq n := by
  apply List.ext_getElem
  · simp [fftfreq]; omega
  · intro i h1 h2
    simp only [List.length_map, List.length_range] at h1
    simp only [fftfreq, List.getElem_map, List.getElem_range, List.getElem_append, fold,
      List.length_map, List.length_range]
    by_cases h : i < (n + 1) / 2
    · simp [h]
    · simp only [h, ↓reduceIte, ↓reduceDIte]
      have : (i - (n + 1) / 2 : Nat) = i - (n + 1) / 2 := rfl
      omega

/-- `Σ_{t<m} G (m - t) = Σ_{t<m} G (t + 1)` -/
theorem sum_reflect {M : Type} [AddCommMonoid M] (G : Nat → M) (m : Nat) :
    ∑ t ∈ Finset.range m, G (m - t) = ∑ t ∈ Finset.range m, G (t + 1) := by
  induction m with
  | zero => simp
  | succ m ih =>
    rw [Finset.sum_range_succ', Finset.sum_range_succ (fun t => G (t + 1)), ← ih]
    simp

theorem hw_zero (n : Nat) : hw n 0 = 1 := by simp [hw]

/-- **Hermitian re-indexing.**  The half mesh `kz = 0 … n/2`, with weight 1 on the self-conjugate
planes and 2 elsewhere, carries exactly the `n` frequencies of the full axis. -/
theorem hermitian_sum {R : Type} [CommSemiring R] (n : Nat) (hn : 1 ≤ n) (G : Nat → R) :
    ((List.range (n / 2 + 1)).map (fun k => ((hw n k : Nat) : R) * G k)).sum =
      ((fftfreq n).map (fun c => G c.natAbs)).sum := by
  have hR : ((fftfreq n).map (fun c => G c.natAbs)).sum =
      (∑ t ∈ Finset.range ((n + 1) / 2), G t) + ∑ t ∈ Finset.range (n / 2), G (t + 1) := by
    unfold fftfreq
    rw [List.map_append, List.sum_append, List.map_map, List.map_map, list_sum_range, list_sum_range,
      ← sum_reflect]
    congr 1
    apply Finset.sum_congr rfl
    intro t ht
    rw [Finset.mem_range] at ht
    simp only [Function.comp]
    congr 1
    omega
  rw [hR, list_sum_range, Finset.sum_range_succ', hw_zero]
  rcases Nat.even_or_odd' n with ⟨m, hm | hm⟩
  · -- even n = 2m, m ≥ 1
    obtain ⟨m', rfl⟩ : ∃ m', m = m' + 1 := ⟨m - 1, by omega⟩
    subst hm
    have h1 : (2 * (m' + 1)) / 2 = m' + 1 := by omega
    have h2 : (2 * (m' + 1) + 1) / 2 = m' + 1 := by omega
    rw [h1, h2, Finset.sum_range_succ, Finset.sum_range_succ (fun t => G (t + 1)),
      Finset.sum_range_succ' (fun t => G t)]
    have hw2 : ∀ k ∈ Finset.range m', ((hw (2 * (m' + 1)) (k + 1) : Nat) : R) * G (k + 1) = 2 * G (k + 1) := by
      intro k hk
      rw [Finset.mem_range] at hk
      have : hw (2 * (m' + 1)) (k + 1) = 2 := by
        unfold hw; rw [if_neg]; omega
      rw [this]; norm_num
    have hw1 : hw (2 * (m' + 1)) (m' + 1) = 1 := by unfold hw; rw [if_pos]; right; ring
    rw [Finset.sum_congr rfl hw2, hw1, ← Finset.mul_sum]
    push_cast
    ring
  · -- odd n = 2m + 1
    subst hm
    have h1 : (2 * m + 1) / 2 = m := by omega
    have h2 : (2 * m + 1 + 1) / 2 = m + 1 := by omega
    rw [h1, h2, Finset.sum_range_succ' (fun t => G t)]
    have hw2 : ∀ k ∈ Finset.range m, ((hw (2 * m + 1) (k + 1) : Nat) : R) * G (k + 1) = 2 * G (k + 1) := by
      intro k _
      have : hw (2 * m + 1) (k + 1) = 2 := by
        unfold hw; rw [if_neg]; omega
      rw [this]; norm_num
    rw [Finset.sum_congr rfl hw2, ← Finset.mul_sum]
    push_cast
    ring

/-! ### the bin convention `lead` and the incremental search -/

theorem lead_le_length (x : Rat) (l : List Rat) : lead x l ≤ l.length := by
  induction l with
  | nil => simp [lead]
  | cons v t ih => unfold lead; split <;> simp <;> omega

/-- every edge before the bin is strictly below `x` -/
theorem lead_before (x : Rat) (l : List Rat) (t : Nat) (ht : t < lead x l) (h : t < l.length) :
    l[t] < x := by
  induction l generalizing t with
  | nil => simp at h
  | cons v tl ih =>
    unfold lead at ht
    split at ht
    · omega
    · rename_i hv
      cases t with
      | zero => simpa using lt_of_not_ge hv
      | succ t => simpa using ih t (by omega) (by simpa using h)

/-- the bin's upper edge is at or above `x` -/
theorem lead_at (x : Rat) (l : List Rat) (h : lead x l < l.length) : x ≤ l[lead x l] := by
  induction l with
  | nil => simp at h
  | cons v tl ih =>
    unfold lead at h ⊢
    split
    · simpa
    · rename_i hv
      simp only [hv, ↓reduceIte, List.length_cons, Nat.add_lt_add_iff_right] at h
      simpa using ih h

theorem lead_le_of_le (x : Rat) (l : List Rat) (t : Nat) (h : t < l.length) (hx : x ≤ l[t]) :
    lead x l ≤ t := by
  by_contra hc
  have := lead_before x l t (by omega) h
  exact absurd hx (not_le.mpr this)

theorem lead_lt_length (x : Rat) (l : List Rat) (v : Rat) (hv : v ∈ l) (hx : x ≤ v) :
    lead x l < l.length := by
  obtain ⟨t, ht, rfl⟩ := List.getElem_of_mem hv
  have := lead_le_of_le x l t ht hx
  omega

theorem lead_mono {x y : Rat} (h : x ≤ y) (l : List Rat) : lead x l ≤ lead y l := by
  induction l with
  | nil => simp [lead]
  | cons v t ih =>
    unfold lead
    by_cases hy : y ≤ v
    · have hx : x ≤ v := le_trans h hy
      simp [hx, hy]
    · by_cases hx : x ≤ v <;> simp [hx, hy]
      exact ih

/-- `e[i]` for a non-negative in-range index -/
theorem getE_nat (e : List Rat) (i : Nat) (h : i < e.length) : getE e (i : Int) = .ok e[i] := by
  unfold getE
  rw [pyIndex_nonneg h]
  simp [List.getElem?_eq_getElem h]

/-- the read inside `search` is the Python-indexed read `e[b+1]`: it resolves iff `b + 1 < len e` -/
theorem getE_succ (e : List Rat) (b : Nat) :
    getE e ((b + 1 : Nat) : Int) = if h : b + 1 < e.length then .ok e[b + 1] else .error .oob := by
  split
  · rename_i h; exact getE_nat e (b + 1) h
  · rename_i h
    unfold getE pyIndex
    have : (0 : Int) ≤ ((b + 1 : Nat) : Int) := by omega
    simp only [this, ↓reduceIte, Int.toNat_natCast, h]

theorem getE_zero (a : Rat) (t : List Rat) : getE (a :: t) 0 = .ok a := by
  have := getE_nat (a :: t) 0 (by simp)
  simpa using this

theorem getE_last (e : List Rat) (h : e ≠ []) : getE e (-1) = .ok (e.getLast h) := by
  unfold getE
  have hpos : 0 < e.length := List.length_pos_iff.mpr h
  rw [pyIndex_neg_one hpos]
  have h1 : e.length - 1 < e.length := by omega
  simp [List.getElem?_eq_getElem h1, List.getLast_eq_getElem]

/-- from any start at or below the bin, the search stops exactly at the bin -/
theorem search_eq_lead (a : Rat) (t : List Rat) (x : Rat) (b : Nat)
    (hb : b ≤ lead x t) (hl : lead x t < t.length) : search (a :: t) x b = .ok (lead x t) := by
  induction hd : lead x t - b generalizing b with
  | zero =>
    have hbe : b = lead x t := by omega
    subst hbe
    rw [search]
    have h1 : lead x t + 1 < (a :: t).length := by simpa using hl
    have h2 := lead_at x t hl
    simp only [h1, ↓reduceDIte, List.getElem_cons_succ]
    rw [if_neg (not_lt.mpr h2)]
  | succ d ih =>
    have hlt : b < lead x t := by omega
    rw [search]
    have h1 : b + 1 < (a :: t).length := by simp; omega
    have h2 := lead_before x t b hlt (by omega)
    simp only [h1, ↓reduceDIte, List.getElem_cons_succ]
    rw [if_pos h2]
    exact ih (b + 1) (by omega) (by omega)

/-- whatever the inputs, a successful search returns an index whose upper edge exists -/
theorem search_inbounds (e : List Rat) (x : Rat) (b r : Nat) (h : search e x b = .ok r) :
    r + 1 < e.length ∧ b ≤ r := by
  induction hd : e.length - b generalizing b with
  | zero =>
    rw [search] at h
    have : ¬ b + 1 < e.length := by omega
    simp [this] at h
  | succ d ih =>
    rw [search] at h
    by_cases h1 : b + 1 < e.length
    · simp only [h1, ↓reduceDIte] at h
      by_cases h2 : e[b + 1] < x
      · rw [if_pos h2] at h
        have := ih (b + 1) h (by omega)
        omega
      · rw [if_neg h2] at h
        cases h
        exact ⟨h1, le_refl _⟩
    · simp [h1] at h

/-! ### `mu²` -/

theorem mu2_nonneg (p k : Nat) : 0 ≤ mu2 p k := by
  unfold mu2
  split
  · positivity
  · exact le_refl _

theorem mu2_le_one (p k : Nat) : mu2 p k ≤ 1 := by
  unfold mu2
  split
  · rename_i h
    have hq : (0 : Rat) < ((p + k * k : Nat) : Rat) := by exact_mod_cast h
    rw [div_le_one hq]
    exact_mod_cast Nat.le_add_left _ _
  · norm_num

theorem mu2_mono (p : Nat) {k k' : Nat} (h : k ≤ k') : mu2 p k ≤ mu2 p k' := by
  by_cases h0 : 0 < p + k * k
  · have hkk : k * k ≤ k' * k' := Nat.mul_le_mul h h
    have h0' : 0 < p + k' * k' := by omega
    unfold mu2
    rw [if_pos h0, if_pos h0']
    have hq : (0 : Rat) < ((p + k * k : Nat) : Rat) := by exact_mod_cast h0
    have hq' : (0 : Rat) < ((p + k' * k' : Nat) : Rat) := by exact_mod_cast h0'
    rw [div_le_div_iff₀ hq hq']
    have : (k * k) * (p + k' * k') ≤ (k' * k') * (p + k * k) := by
      have := Nat.mul_le_mul_right p hkk
      nlinarith
    exact_mod_cast this
  · have : mu2 p k = 0 := by unfold mu2; rw [if_neg h0]
    rw [this]
    exact mu2_nonneg p k'

end AbacusVerif.Binning
