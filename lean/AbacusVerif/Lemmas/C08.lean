/-
  Helper lemmas for the mode-binning model (Props/C08.lean holds the property theorems).
-/
import AbacusVerif.Model.C08
import Mathlib.Data.Rat.Floor
import Mathlib.Algebra.BigOperators.Group.Finset.Basic
import Mathlib.Algebra.BigOperators.Ring.Finset
import Mathlib.Algebra.BigOperators.Group.Finset.Sigma
import Mathlib.Tactic.Ring
import Mathlib.Tactic.Linarith

namespace AbacusVerif.Binning
open AbacusVerif

/-! ### sums: lists and `Finset.range` -/

theorem natSum_eq (l : List Nat) : natSum l = l.sum := rfl
theorem ratSum_eq (l : List Rat) : ratSum l = l.sum := rfl

theorem list_sum_range {M : Type} [AddCommMonoid M] (f : Nat → M) (n : Nat) :
    ((List.range n).map f).sum = ∑ i ∈ Finset.range n, f i := by
  induction n with
  | zero => simp
  | succ n ih =>
    rw [List.range_succ, List.map_append, List.sum_append, ih, Finset.sum_range_succ]
    simp

/-! ### frequencies -/

theorem fftfreq_length (n : Nat) : (fftfreq n).length = n := by
  simp [fftfreq]; omega

theorem fold_eq_fftfreq (n : Nat) : (List.range n).map (fold n) = fftfreq n := by
  apply List.ext_getElem
  · simp [fftfreq]; omega
  · intro i h1 h2
    simp only [List.length_map, List.length_range] at h1
    simp only [fftfreq, List.getElem_map, List.getElem_range, List.getElem_append, fold,
      List.length_map, List.length_range]
    by_cases h : i < (n + 1) / 2
    · simp [h]
    · simp only [h, ↓reduceIte, ↓reduceDIte]
      have : (i - (n + 1) / 2 : Nat) = i - (n + 1) / 2 := rfl
      omega

/-- `Σ_{t<m} G (m - t) = Σ_{t<m} G (t + 1)` -/
theorem sum_reflect {M : Type} [AddCommMonoid M] (G : Nat → M) (m : Nat) :
    ∑ t ∈ Finset.range m, G (m - t) = ∑ t ∈ Finset.range m, G (t + 1) := by
  induction m with
  | zero => simp
  | succ m ih =>
    rw [Finset.sum_range_succ', Finset.sum_range_succ (fun t => G (t + 1)), ← ih]
    simp

theorem hw_zero (n : Nat) : hw n 0 = 1 := by simp [hw]

/-- **Hermitian re-indexing.**  The half mesh `kz = 0 … n/2`, with weight 1 on the self-conjugate
planes and 2 elsewhere, carries exactly the `n` frequencies of the full axis. -/
theorem hermitian_sum {R : Type} [CommSemiring R] (n : Nat) (hn : 1 ≤ n) (G : Nat → R) :
    ((List.range (n / 2 + 1)).map (fun k => ((hw n k : Nat) : R) * G k)).sum =
      ((fftfreq n).map (fun c => G c.natAbs)).sum := by
  have hR : ((fftfreq n).map (fun c => G c.natAbs)).sum =
      (∑ t ∈ Finset.range ((n + 1) / 2), G t) + ∑ t ∈ Finset.range (n / 2), G (t + 1) := by
    unfold fftfreq
    rw [List.map_append, List.sum_append, List.map_map, List.map_map, list_sum_range, list_sum_range,
      ← sum_reflect]
    congr 1
    apply Finset.sum_congr rfl
    intro t ht
    rw [Finset.mem_range] at ht
    simp only [Function.comp]
    congr 1
    omega
  rw [hR, list_sum_range, Finset.sum_range_succ', hw_zero]
  rcases Nat.even_or_odd' n with ⟨m, hm | hm⟩
  · -- even n = 2m, m ≥ 1
    obtain ⟨m', rfl⟩ : ∃ m', m = m' + 1 := ⟨m - 1, by omega⟩
    subst hm
    have h1 : (2 * (m' + 1)) / 2 = m' + 1 := by omega
    have h2 : (2 * (m' + 1) + 1) / 2 = m' + 1 := by omega
    rw [h1, h2, Finset.sum_range_succ, Finset.sum_range_succ (fun t => G (t + 1)),
      Finset.sum_range_succ' (fun t => G t)]
    have hw2 : ∀ k ∈ Finset.range m', ((hw (2 * (m' + 1)) (k + 1) : Nat) : R) * G (k + 1) = 2 * G (k + 1) := by
      intro k hk
      rw [Finset.mem_range] at hk
      have : hw (2 * (m' + 1)) (k + 1) = 2 := by
        unfold hw; rw [if_neg]; omega
      rw [this]; norm_num
    have hw1 : hw (2 * (m' + 1)) (m' + 1) = 1 := by unfold hw; rw [if_pos]; right; ring
    rw [Finset.sum_congr rfl hw2, hw1, ← Finset.mul_sum]
    push_cast
    ring
  · -- odd n = 2m + 1
    subst hm
    have h1 : (2 * m + 1) / 2 = m := by omega
    have h2 : (2 * m + 1 + 1) / 2 = m + 1 := by omega
    rw [h1, h2, Finset.sum_range_succ' (fun t => G t)]
    have hw2 : ∀ k ∈ Finset.range m, ((hw (2 * m + 1) (k + 1) : Nat) : R) * G (k + 1) = 2 * G (k + 1) := by
      intro k _
      have : hw (2 * m + 1) (k + 1) = 2 := by
        unfold hw; rw [if_neg]; omega
      rw [this]; norm_num
    rw [Finset.sum_congr rfl hw2, ← Finset.mul_sum]
    push_cast
    ring

/-! ### the bin convention `lead` and the incremental search -/

theorem lead_le_length (x : Rat) (l : List Rat) : lead x l ≤ l.length := by
  induction l with
  | nil => simp [lead]
  | cons v t ih => unfold lead; split <;> simp; omega

/-- every edge before the bin is strictly below `x` -/
theorem lead_before (x : Rat) (l : List Rat) (t : Nat) (ht : t < lead x l) (h : t < l.length) :
    l[t] < x := by
  induction l generalizing t with
  | nil => simp at h
  | cons v tl ih =>
    unfold lead at ht
    split at ht
    · omega
    · rename_i hv
      cases t with
      | zero => simpa using lt_of_not_ge hv
      | succ t => simpa using ih t (by omega) (by simpa using h)

/-- the bin's upper edge is at or above `x` -/
theorem lead_at (x : Rat) (l : List Rat) (h : lead x l < l.length) : x ≤ l[lead x l] := by
  induction l with
  | nil => simp at h
  | cons v tl ih =>
    unfold lead at h ⊢
    split
    · simpa
    · rename_i hv
      simp only [hv, ↓reduceIte, List.length_cons, Nat.add_lt_add_iff_right] at h
      simpa using ih h

theorem lead_le_of_le (x : Rat) (l : List Rat) (t : Nat) (h : t < l.length) (hx : x ≤ l[t]) :
    lead x l ≤ t := by
  by_contra hc
  have := lead_before x l t (by omega) h
  exact absurd hx (not_le.mpr this)

theorem lead_lt_length (x : Rat) (l : List Rat) (v : Rat) (hv : v ∈ l) (hx : x ≤ v) :
    lead x l < l.length := by
  obtain ⟨t, ht, rfl⟩ := List.getElem_of_mem hv
  have := lead_le_of_le x l t ht hx
  omega

theorem lead_mono {x y : Rat} (h : x ≤ y) (l : List Rat) : lead x l ≤ lead y l := by
  induction l with
  | nil => simp [lead]
  | cons v t ih =>
    unfold lead
    by_cases hy : y ≤ v
    · have hx : x ≤ v := le_trans h hy
      simp [hx, hy]
    · by_cases hx : x ≤ v <;> simp [hx, hy]
      exact ih

/-- `e[i]` for a non-negative in-range index -/
theorem getE_nat (e : List Rat) (i : Nat) (h : i < e.length) : getE e (i : Int) = .ok e[i] := by
  unfold getE
  rw [pyIndex_nonneg h]
  simp [List.getElem?_eq_getElem h]

/-- the read inside `search` is the Python-indexed read `e[b+1]`: it resolves iff `b + 1 < len e` -/
theorem getE_succ (e : List Rat) (b : Nat) :
    getE e ((b + 1 : Nat) : Int) = if h : b + 1 < e.length then .ok e[b + 1] else .error .oob := by
  split
  · rename_i h; exact getE_nat e (b + 1) h
  · rename_i h
    unfold getE pyIndex
    have : (0 : Int) ≤ ((b + 1 : Nat) : Int) := by omega
    simp only [this, ↓reduceIte, Int.toNat_natCast, h]

theorem getE_zero (a : Rat) (t : List Rat) : getE (a :: t) 0 = .ok a := by
  have := getE_nat (a :: t) 0 (by simp)
  simpa using this

theorem getE_last (e : List Rat) (h : e ≠ []) : getE e (-1) = .ok (e.getLast h) := by
  unfold getE
  have hpos : 0 < e.length := List.length_pos_iff.mpr h
  rw [pyIndex_neg_one hpos]
  have h1 : e.length - 1 < e.length := by omega
  simp [List.getElem?_eq_getElem h1, List.getLast_eq_getElem]

/-- `search` is the `while` loop: one read of `e[b+1]` (fault if outside), then stop or advance -/
theorem search_unfold (e : List Rat) (x : Rat) (b : Nat) :
    search e x b =
      if h : b + 1 < e.length then
        if e[b + 1] < x then search e x (b + 1) else .ok b
      else .error .oob := by
  unfold search
  cases hf : e.length - b with
  | zero =>
    have : ¬ b + 1 < e.length := by omega
    simp [searchAux, this]
  | succ f =>
    have : e.length - (b + 1) = f := by omega
    rw [searchAux, this]

/-- from any start at or below the bin, the search stops exactly at the bin -/
theorem search_eq_lead (a : Rat) (t : List Rat) (x : Rat) (b : Nat)
    (hb : b ≤ lead x t) (hl : lead x t < t.length) : search (a :: t) x b = .ok (lead x t) := by
  induction hd : lead x t - b generalizing b with
  | zero =>
    have hbe : b = lead x t := by omega
    subst hbe
    rw [search_unfold]
    have h1 : lead x t + 1 < (a :: t).length := by simpa using hl
    have h2 := lead_at x t hl
    simp only [h1, ↓reduceDIte, List.getElem_cons_succ]
    rw [if_neg (not_lt.mpr h2)]
  | succ d ih =>
    have hlt : b < lead x t := by omega
    rw [search_unfold]
    have h1 : b + 1 < (a :: t).length := by simp; omega
    have h2 := lead_before x t b hlt (by omega)
    simp only [h1, ↓reduceDIte, List.getElem_cons_succ]
    rw [if_pos h2]
    exact ih (b + 1) (by omega) (by omega)

/-- whatever the inputs, a successful search returns an index whose upper edge exists -/
theorem search_inbounds (e : List Rat) (x : Rat) (b r : Nat) (h : search e x b = .ok r) :
    r + 1 < e.length ∧ b ≤ r := by
  induction hd : e.length - b generalizing b with
  | zero =>
    rw [search_unfold] at h
    have : ¬ b + 1 < e.length := by omega
    simp [this] at h
  | succ d ih =>
    rw [search_unfold] at h
    by_cases h1 : b + 1 < e.length
    · simp only [h1, ↓reduceDIte] at h
      by_cases h2 : e[b + 1] < x
      · rw [if_pos h2] at h
        have := ih (b + 1) h (by omega)
        omega
      · rw [if_neg h2] at h
        cases h
        exact ⟨h1, le_refl _⟩
    · simp [h1] at h

/-! ### `mu²` -/

theorem mu2_nonneg (p k : Nat) : 0 ≤ mu2 p k := by
  unfold mu2
  split
  · positivity
  · exact le_refl _

theorem mu2_le_one (p k : Nat) : mu2 p k ≤ 1 := by
  unfold mu2
  split
  · rename_i h
    have hq : (0 : Rat) < ((p + k * k : Nat) : Rat) := by exact_mod_cast h
    rw [div_le_one hq]
    exact_mod_cast Nat.le_add_left _ _
  · norm_num

theorem mu2_mono (p : Nat) {k k' : Nat} (h : k ≤ k') : mu2 p k ≤ mu2 p k' := by
  by_cases h0 : 0 < p + k * k
  · have hkk : k * k ≤ k' * k' := Nat.mul_le_mul h h
    have h0' : 0 < p + k' * k' := by omega
    unfold mu2
    rw [if_pos h0, if_pos h0']
    have hq : (0 : Rat) < ((p + k * k : Nat) : Rat) := by exact_mod_cast h0
    have hq' : (0 : Rat) < ((p + k' * k' : Nat) : Rat) := by exact_mod_cast h0'
    rw [div_le_div_iff₀ hq hq']
    have : (k * k) * (p + k' * k') ≤ (k' * k') * (p + k * k) := by
      have := Nat.mul_le_mul_right p hkk
      nlinarith
    exact_mod_cast this
  · have : mu2 p k = 0 := by unfold mu2; rw [if_neg h0]
    rw [this]
    exact mu2_nonneg p k'

/-! ### the `kz` loop of `bin_kmu` against the convention -/

theorem classify_cons (a : Rat) (t : List Rat) (x : Rat) :
    classify (a :: t) x =
      if a ≤ x ∧ x < (a :: t).getLast (List.cons_ne_nil a t) then some (lead x t) else none := by
  unfold classify
  rw [List.getLast?_eq_some_getLast (List.cons_ne_nil a t)]
  simp

theorem touch_ok (sh : Shape) (nb nm i j k b m : Nat) (hb : b < nb) (hm : m < nm)
    (hi : i < sh.s0) (hj : j < sh.s1) (hk : k < sh.s2) : touch sh nb nm i j k b m = .ok () := by
  simp [touch, idx, pyIndex_nonneg hb, pyIndex_nonneg hm, pyIndex_nonneg hi, pyIndex_nonneg hj,
    pyIndex_nonneg hk, bind, Except.bind]

/-- what the specification says about the half-mesh cell `(i, j, k)`, `p = i2 + j2` -/
def kzSpec (n : Nat) (ek em : List Rat) (i j p k : Nat) : Option Contrib :=
  match classify ek ((p + k * k : Nat) : Rat) with
  | some b => some ⟨i, j, k, p + k * k, b, lead (mu2 p k) em.tail, hw n k⟩
  | none => none

theorem getLast_mem_tail (a : Rat) (t : List Rat) (x : Rat) (h0 : a ≤ x)
    (h1 : x < (a :: t).getLast (List.cons_ne_nil a t)) :
    (a :: t).getLast (List.cons_ne_nil a t) ∈ t := by
  cases t with
  | nil => simp at h1; exact absurd h0 (not_le.mpr h1)
  | cons b t' =>
    rw [List.getLast_cons (List.cons_ne_nil b t')]
    exact List.getLast_mem _

theorem qcast_mono (p : Nat) {k k' : Nat} (h : k ≤ k') :
    ((p + k * k : Nat) : Rat) ≤ ((p + k' * k' : Nat) : Rat) := by
  have : p + k * k ≤ p + k' * k' := Nat.add_le_add_left (Nat.mul_le_mul h h) p
  exact_mod_cast this

/-- **two-pointer invariant along `kz`.**  Started at or below the bins of the current cell, the
loop with its carried `(bk, bmu)`, its `continue` and its `break` never faults and accumulates
exactly the cells the convention puts in range, each in the bin the convention names. -/
theorem kzLoop_spec (n : Nat) (a : Rat) (t : List Rat) (a' : Rat) (t' : List Rat) (sh : Shape)
    (i j p : Nat) (hmu : ∀ x : Rat, x ≤ 1 → lead x t' < t'.length) (hi : i < sh.s0) (hj : j < sh.s1) :
    ∀ fuel k bk bmu, k + fuel ≤ sh.s2 → bk ≤ lead ((p + k * k : Nat) : Rat) t →
      bmu ≤ lead (mu2 p k) t' →
      kzLoop n (a :: t) (a' :: t') sh i j p fuel k bk bmu =
        .ok ((List.range' k fuel).filterMap (kzSpec n (a :: t) (a' :: t') i j p)) := by
  intro fuel
  induction fuel with
  | zero => intro k bk bmu _ _ _; simp [kzLoop]
  | succ fuel ih =>
    intro k bk bmu hk hbk hbmu
    have hbk' : ∀ b, b ≤ lead ((p + k * k : Nat) : Rat) t → b ≤ lead ((p + (k + 1) * (k + 1) : Nat) : Rat) t :=
      fun b hb => le_trans hb (lead_mono (qcast_mono p (Nat.le_succ k)) t)
    have hbmu' : ∀ b, b ≤ lead (mu2 p k) t' → b ≤ lead (mu2 p (k + 1)) t' :=
      fun b hb => le_trans hb (lead_mono (mu2_mono p (Nat.le_succ k)) t')
    rw [List.range'_succ, List.filterMap_cons]
    simp only [kzLoop]
    rw [getE_zero]
    simp only []
    by_cases h0 : ((p + k * k : Nat) : Rat) < a
    · -- continue
      rw [if_pos h0]
      have hnone : kzSpec n (a :: t) (a' :: t') i j p k = none := by
        unfold kzSpec
        rw [classify_cons, if_neg]
        intro hc; exact absurd h0 (not_lt.mpr hc.1)
      rw [hnone]
      exact ih (k + 1) bk bmu (by omega) (hbk' bk hbk) (hbmu' bmu hbmu)
    · rw [if_neg h0, getE_last (a :: t) (List.cons_ne_nil a t)]
      simp only []
      by_cases h1 : (a :: t).getLast (List.cons_ne_nil a t) ≤ ((p + k * k : Nat) : Rat)
      · -- break: every later cell is beyond the last edge too
        rw [if_pos h1]
        have hall : ∀ k' ∈ k :: List.range' (k + 1) fuel, kzSpec n (a :: t) (a' :: t') i j p k' = none := by
          intro k' hk'
          have hge : k ≤ k' := by
            rcases List.mem_cons.mp hk' with h | h
            · omega
            · have := (List.mem_range'_1.mp h).1; omega
          unfold kzSpec
          rw [classify_cons, if_neg]
          intro hc
          exact absurd (lt_of_le_of_lt (le_trans h1 (qcast_mono p hge)) hc.2) (lt_irrefl _)
        have : (k :: List.range' (k + 1) fuel).filterMap (kzSpec n (a :: t) (a' :: t') i j p) = [] :=
          List.filterMap_eq_nil_iff.mpr hall
        rw [List.filterMap_cons] at this
        rw [this]
      · -- in range
        rw [if_neg h1]
        have h0' : a ≤ ((p + k * k : Nat) : Rat) := not_lt.mp h0
        have h1' : ((p + k * k : Nat) : Rat) < (a :: t).getLast (List.cons_ne_nil a t) := not_le.mp h1
        have hmem := getLast_mem_tail a t _ h0' h1'
        have hlk : lead ((p + k * k : Nat) : Rat) t < t.length := lead_lt_length _ t _ hmem (le_of_lt h1')
        have hlm : lead (mu2 p k) t' < t'.length := hmu _ (mu2_le_one p k)
        rw [search_eq_lead a t _ bk hbk hlk]
        simp only []
        rw [search_eq_lead a' t' _ bmu hbmu hlm]
        simp only []
        rw [touch_ok sh _ _ i j k _ _ (by simpa using hlk) (by simpa using hlm) hi hj (by omega)]
        simp only []
        rw [ih (k + 1) _ _ (by omega) (hbk' _ (le_refl _)) (hbmu' _ (le_refl _))]
        simp only []
        have hsome : kzSpec n (a :: t) (a' :: t') i j p k =
            some ⟨i, j, k, p + k * k, lead ((p + k * k : Nat) : Rat) t, lead (mu2 p k) t', hw n k⟩ := by
          unfold kzSpec
          rw [classify_cons, if_pos ⟨h0', h1'⟩]
          simp
        rw [hsome]

/-! ### `mapM` in `Except` -/

theorem mapM_ok {α β : Type} (f : α → Except Fault β) (g : α → β) (l : List α)
    (h : ∀ x ∈ l, f x = .ok (g x)) : l.mapM f = .ok (l.map g) := by
  induction l with
  | nil => rfl
  | cons x xs ih =>
    rw [List.mapM_cons, h x (List.mem_cons_self ..), ih (fun y hy => h y (List.mem_cons_of_mem _ hy))]
    rfl

/-- value of a successful row (`[]` for a faulting one) -/
def okOr (r : Except Fault (List Contrib)) : List Contrib :=
  match r with
  | .ok v => v
  | .error _ => []

theorem mapM_ok_inv {α : Type} (f : α → Except Fault (List Contrib)) (l : List α) (r : List (List Contrib))
    (h : l.mapM f = .ok r) : (∀ x ∈ l, f x = .ok (okOr (f x))) ∧ r = l.map (fun x => okOr (f x)) := by
  induction l generalizing r with
  | nil =>
    have : r = [] := by cases h; rfl
    simp [this]
  | cons x xs ih =>
    rw [List.mapM_cons] at h
    cases hx : f x with
    | error e => rw [hx] at h; cases h
    | ok v =>
      rw [hx] at h
      cases hxs : xs.mapM f with
      | error e => rw [hxs] at h; cases h
      | ok vs =>
        rw [hxs] at h
        have hr : r = v :: vs := by cases h; rfl
        obtain ⟨h1, h2⟩ := ih vs hxs
        constructor
        · intro y hy
          rcases List.mem_cons.mp hy with rfl | hy
          · rw [hx]; rfl
          · exact h1 y hy
        · rw [hr, h2]; simp [hx, okOr]

/-! ### accumulators are additive over the contribution list -/

/-- generic accumulator: `Σ h c` over the contributions of bin `(b, m)` -/
def acc {M : Type} [AddCommMonoid M] (h : Contrib → M) (cs : List Contrib) (b m : Nat) : M :=
  ((cs.filter (inBin b m)).map h).sum

theorem cnt_eq_acc (cs : List Contrib) (b m : Nat) : cnt cs b m = acc (fun c => c.w) cs b m := rfl
theorem wsum_eq_acc (F : Nat → Nat → Nat → Rat) (cs : List Contrib) (b m : Nat) :
    wsum F cs b m = acc (fun c => (c.w : Rat) * F c.i c.j c.k) cs b m := rfl

section
variable {M : Type} [AddCommMonoid M] (h : Contrib → M)

theorem acc_append (l1 l2 : List Contrib) (b m : Nat) :
    acc h (l1 ++ l2) b m = acc h l1 b m + acc h l2 b m := by
  simp [acc, List.filter_append]

theorem acc_flatten (ls : List (List Contrib)) (b m : Nat) :
    acc h ls.flatten b m = (ls.map (fun l => acc h l b m)).sum := by
  induction ls with
  | nil => simp [acc]
  | cons l ls ih => simp [List.flatten_cons, acc_append, ih]

/-- contribution of one optional cell -/
def cell (o : Option Contrib) (b m : Nat) : M :=
  match o with
  | some c => if inBin b m c then h c else 0
  | none => 0

theorem acc_filterMap {α : Type} (f : α → Option Contrib) (l : List α) (b m : Nat) :
    acc h (l.filterMap f) b m = (l.map (fun x => cell h (f x) b m)).sum := by
  induction l with
  | nil => simp [acc]
  | cons x xs ih =>
    rw [List.filterMap_cons]
    cases hx : f x with
    | none =>
      rw [List.map_cons, List.sum_cons, hx, ih]
      simp [cell]
    | some c =>
      have : c :: xs.filterMap f = [c] ++ xs.filterMap f := rfl
      simp only [this, acc_append, ih, List.map_cons, List.sum_cons, hx]
      congr 1
      by_cases hb : inBin b m c <;> simp [acc, cell, hb]

theorem sum_filter_map (p : Nat → Bool) (g : Nat → M) (l : List Nat) :
    ((l.filter p).map g).sum = (l.map (fun i => if p i then g i else 0)).sum := by
  induction l with
  | nil => simp
  | cons x xs ih =>
    by_cases hp : p x <;> simp [hp, ih]

/-- **sum over any assignment of rows to threads = sequential sum** -/
theorem sum_by_thread (g : Nat → M) (n T : Nat) (assign : Nat → Nat) (hT : ∀ i < n, assign i < T) :
    ((List.range T).map (fun t => (((List.range n).filter (fun i => assign i == t)).map g).sum)).sum =
      ((List.range n).map g).sum := by
  simp only [sum_filter_map, list_sum_range]
  rw [Finset.sum_comm]
  apply Finset.sum_congr rfl
  intro i hi
  rw [Finset.mem_range] at hi
  simp only [beq_iff_eq]
  rw [Finset.sum_ite_eq]
  simp [hT i hi]

end

/-! ### threads -/

theorem threadContribs_spec (row : Nat → Except Fault (List Contrib)) (g : Nat → List Contrib) (n : Nat)
    (assign : Nat → Nat) (t : Nat) (hrow : ∀ i < n, row i = .ok (g i)) :
    threadContribs row n assign t =
      .ok ((((List.range n).filter (fun i => assign i == t)).map g).flatten) := by
  unfold threadContribs
  rw [mapM_ok row g _ (fun i hi => hrow i (List.mem_range.mp (List.mem_filter.mp hi).1))]
  rfl

theorem allThreads_spec (row : Nat → Except Fault (List Contrib)) (g : Nat → List Contrib) (n T : Nat)
    (assign : Nat → Nat) (hrow : ∀ i < n, row i = .ok (g i)) (hT : ∀ i < n, assign i < T) :
    allThreads row n T assign =
      .ok ((List.range T).map (fun t => (((List.range n).filter (fun i => assign i == t)).map g).flatten)) := by
  unfold allThreads
  have hall : (List.range n).all (fun i => decide (assign i < T)) = true := by
    rw [List.all_eq_true]
    intro i hi
    simpa using hT i (List.mem_range.mp hi)
  rw [if_pos hall]
  exact mapM_ok _ _ _ (fun t _ => threadContribs_spec row g n assign t hrow)

theorem accT_threads {M : Type} [AddCommMonoid M] (h : Contrib → M) (g : Nat → List Contrib) (n T : Nat)
    (assign : Nat → Nat) (hT : ∀ i < n, assign i < T) (b m : Nat) :
    (((List.range T).map (fun t => (((List.range n).filter (fun i => assign i == t)).map g).flatten)).map
        (fun cs => acc h cs b m)).sum =
      acc h ((List.range n).map g).flatten b m := by
  rw [List.map_map, acc_flatten, List.map_map]
  simp only [Function.comp_def]
  have := sum_by_thread (fun i => acc h (g i) b m) n T assign hT
  rw [← this]
  congr 1
  apply List.map_congr_left
  intro t _
  simp only [acc_flatten, List.map_map, Function.comp_def]

/-! ### rows of `bin_kmu` -/

def colSpec (n : Nat) (ek em : List Rat) (i j : Nat) : List Contrib :=
  (List.range (n / 2 + 1)).filterMap (kzSpec n ek em i j (sq (fold n i) + sq (fold n j)))

def rowSpec (n : Nat) (ek em : List Rat) (i : Nat) : List Contrib :=
  ((List.range n).map (colSpec n ek em i)).flatten

/-- mu edges with at least one bin whose last edge is at least 1 contain every `mu² ≤ 1` -/
theorem mu_ok (t' : List Rat) (ht : t' ≠ []) (h1 : 1 ≤ t'.getLast ht) :
    ∀ x : Rat, x ≤ 1 → lead x t' < t'.length :=
  fun x hx => lead_lt_length x t' _ (List.getLast_mem ht) (le_trans hx h1)

theorem kmuCol_spec (n : Nat) (a : Rat) (t : List Rat) (a' : Rat) (t' : List Rat)
    (hmu : ∀ x : Rat, x ≤ 1 → lead x t' < t'.length) (i j : Nat) (hi : i < n) (hj : j < n) :
    kmuCol n (a :: t) (a' :: t') ⟨n, n, n / 2 + 1⟩ i j = .ok (colSpec n (a :: t) (a' :: t') i j) := by
  unfold kmuCol colSpec
  rw [kzLoop_spec n a t a' t' ⟨n, n, n / 2 + 1⟩ i j _ hmu hi hj (n / 2 + 1) 0 0 0 (by simp)
    (Nat.zero_le _) (Nat.zero_le _), List.range_eq_range']

theorem kmuRow_spec (n : Nat) (a : Rat) (t : List Rat) (a' : Rat) (t' : List Rat)
    (hmu : ∀ x : Rat, x ≤ 1 → lead x t' < t'.length) (i : Nat) (hi : i < n) :
    kmuRow n (a :: t) (a' :: t') ⟨n, n, n / 2 + 1⟩ i = .ok (rowSpec n (a :: t) (a' :: t') i) := by
  unfold kmuRow rowSpec
  rw [mapM_ok _ (colSpec n (a :: t) (a' :: t') i) _
    (fun j hj => kmuCol_spec n a t a' t' hmu i j hi (List.mem_range.mp hj))]
  rfl

theorem sq_natCast (k : Nat) : sq (k : Int) = k * k := by simp [sq]

theorem clsKmu_natAbs (ek em : List Rat) (a b c : Int) :
    clsKmu ek em a b c = clsKmu ek em a b (c.natAbs : Int) := by
  unfold clsKmu sq
  simp only [Int.natAbs_natCast]

/-- a half-mesh cell contributes to `(b, m)` exactly when the full-mesh convention classifies the
mode `(fold i, fold j, k)` there -/
theorem cell_kzSpec {M : Type} [AddCommMonoid M] (h : Contrib → M) (n : Nat) (ek em : List Rat)
    (i j k b m : Nat) :
    cell h (kzSpec n ek em i j (sq (fold n i) + sq (fold n j)) k) b m =
      if clsKmu ek em (fold n i) (fold n j) (k : Int) = some (b, m) then
        h ⟨i, j, k, sq (fold n i) + sq (fold n j) + k * k, b, m, hw n k⟩ else 0 := by
  unfold kzSpec clsKmu
  rw [sq_natCast]
  simp only [Int.natAbs_natCast]
  obtain hcl | ⟨bk, hcl⟩ : classify ek ((sq (fold n i) + sq (fold n j) + k * k : Nat) : Rat) = none ∨
      ∃ bk, classify ek ((sq (fold n i) + sq (fold n j) + k * k : Nat) : Rat) = some bk := by
    cases classify ek ((sq (fold n i) + sq (fold n j) + k * k : Nat) : Rat) <;> simp
  · simp only [hcl, cell]
    simp
  · simp only [hcl, cell, inBin, Option.some.injEq, Prod.mk.injEq, Bool.and_eq_true, beq_iff_eq]
    by_cases hc : bk = b ∧ lead (mu2 (sq (fold n i) + sq (fold n j)) k) em.tail = m
    · obtain ⟨rfl, rfl⟩ := hc
      simp
    · rw [if_neg hc, if_neg hc]

/-- the sequential mode count of the loops equals the full-mesh count -/
theorem seq_counts (n : Nat) (hn : 1 ≤ n) (ek em : List Rat) (b m : Nat) :
    ((List.range n).map (fun i => cnt (rowSpec n ek em i) b m)).sum = fullCount n (clsKmu ek em) b m := by
  unfold fullCount fullSumNat
  have inner : ∀ a b' : Int,
      natSum ((fftfreq n).map fun c => if clsKmu ek em a b' c = some (b, m) then 1 else 0) =
        ((List.range (n / 2 + 1)).map (fun k =>
          hw n k * (if clsKmu ek em a b' (k : Int) = some (b, m) then 1 else 0))).sum := by
    intro a b'
    have := hermitian_sum (R := Nat) n hn (fun k => if clsKmu ek em a b' (k : Int) = some (b, m) then 1 else 0)
    simp only [Nat.cast_id] at this
    rw [this, natSum_eq]
    simp only [← clsKmu_natAbs]
  simp only [inner, natSum_eq]
  rw [← fold_eq_fftfreq]
  simp only [List.map_map, Function.comp_def]
  congr 1
  apply List.map_congr_left
  intro i _
  rw [cnt_eq_acc, rowSpec, acc_flatten, List.map_map]
  congr 1
  apply List.map_congr_left
  intro j _
  simp only [Function.comp_def, colSpec, acc_filterMap, cell_kzSpec]
  congr 1
  apply List.map_congr_left
  intro k _
  by_cases hc : clsKmu ek em (fold n i) (fold n j) (k : Int) = some (b, m) <;> simp [hc]

/-! ### `bin_kppi` -/

/-- what the convention says about the half-mesh cell `(i, j, k)` of a column in `k_perp` bin `b` -/
def piSpec (n : Nat) (ep : List Rat) (i j p b k : Nat) : Option Contrib :=
  match ep.getLast? with
  | some pl =>
    if ((k * k : Nat) : Rat) < pl then some ⟨i, j, k, p, b, lead ((k * k : Nat) : Rat) ep.tail, hw n k⟩
    else none
  | none => none

theorem kcast_mono {k k' : Nat} (h : k ≤ k') : ((k * k : Nat) : Rat) ≤ ((k' * k' : Nat) : Rat) := by
  have : k * k ≤ k' * k' := Nat.mul_le_mul h h
  exact_mod_cast this

theorem piSpec_cons (n : Nat) (a' : Rat) (t' : List Rat) (i j p b k : Nat) :
    piSpec n (a' :: t') i j p b k =
      if ((k * k : Nat) : Rat) < (a' :: t').getLast (List.cons_ne_nil a' t') then
        some ⟨i, j, k, p, b, lead ((k * k : Nat) : Rat) t', hw n k⟩ else none := by
  unfold piSpec
  rw [List.getLast?_eq_some_getLast (List.cons_ne_nil a' t')]
  simp

/-- the inner loop of `bin_kppi` (range guard first, then the carried search) -/
theorem piLoop_spec (n : Nat) (a' : Rat) (t' : List Rat) (ht' : t' ≠ []) (sh : Shape) (nb : Nat)
    (i j p b : Nat) (hi : i < sh.s0) (hj : j < sh.s1) (hb : b < nb) :
    ∀ fuel k bpi, k + fuel ≤ sh.s2 → bpi ≤ lead ((k * k : Nat) : Rat) t' →
      piLoop n (a' :: t') sh nb i j p b fuel k bpi =
        .ok ((List.range' k fuel).filterMap (piSpec n (a' :: t') i j p b)) := by
  intro fuel
  induction fuel with
  | zero => intro k bpi _ _; simp [piLoop]
  | succ fuel ih =>
    intro k bpi hk hbpi
    rw [List.range'_succ, List.filterMap_cons]
    simp only [piLoop]
    rw [getE_last (a' :: t') (List.cons_ne_nil a' t')]
    simp only []
    by_cases h1 : (a' :: t').getLast (List.cons_ne_nil a' t') ≤ ((k * k : Nat) : Rat)
    · rw [if_pos h1]
      have hall : ∀ k' ∈ k :: List.range' (k + 1) fuel, piSpec n (a' :: t') i j p b k' = none := by
        intro k' hk'
        have hge : k ≤ k' := by
          rcases List.mem_cons.mp hk' with h | h
          · omega
          · have := (List.mem_range'_1.mp h).1; omega
        rw [piSpec_cons, if_neg]
        exact not_lt.mpr (le_trans h1 (kcast_mono hge))
      have : (k :: List.range' (k + 1) fuel).filterMap (piSpec n (a' :: t') i j p b) = [] :=
        List.filterMap_eq_nil_iff.mpr hall
      rw [List.filterMap_cons] at this
      rw [this]
    · rw [if_neg h1]
      have h1' := not_le.mp h1
      have hmem : (a' :: t').getLast (List.cons_ne_nil a' t') ∈ t' := by
        rw [List.getLast_cons ht']
        exact List.getLast_mem _
      have hl : lead ((k * k : Nat) : Rat) t' < t'.length := lead_lt_length _ t' _ hmem (le_of_lt h1')
      rw [search_eq_lead a' t' _ bpi hbpi hl]
      simp only []
      rw [touch_ok sh _ _ i j k _ _ hb (by simpa using hl) hi hj (by omega)]
      simp only []
      rw [ih (k + 1) _ (by omega) (lead_mono (kcast_mono (Nat.le_succ k)) t')]
      simp only []
      rw [piSpec_cons, if_pos h1']

def colSpecPi (n : Nat) (ek ep : List Rat) (i j : Nat) : List Contrib :=
  match classify ek ((sq (fold n i) + sq (fold n j) : Nat) : Rat) with
  | some b => (List.range (n / 2 + 1)).filterMap (piSpec n ep i j (sq (fold n i) + sq (fold n j)) b)
  | none => []

def rowSpecPi (n : Nat) (ek ep : List Rat) (i : Nat) : List Contrib :=
  ((List.range n).map (colSpecPi n ek ep i)).flatten

theorem kppiCol_spec (n : Nat) (a : Rat) (t : List Rat) (a' : Rat) (t' : List Rat) (ht' : t' ≠ [])
    (i j : Nat) (hi : i < n) (hj : j < n) :
    kppiCol n (a :: t) (a' :: t') ⟨n, n, n / 2 + 1⟩ i j = .ok (colSpecPi n (a :: t) (a' :: t') i j) := by
  unfold kppiCol colSpecPi
  simp only []
  rw [getE_zero, classify_cons]
  simp only []
  by_cases h0 : ((sq (fold n i) + sq (fold n j) : Nat) : Rat) < a
  · rw [if_pos h0, if_neg]
    intro hc; exact absurd h0 (not_lt.mpr hc.1)
  · rw [if_neg h0, getE_last (a :: t) (List.cons_ne_nil a t)]
    simp only []
    by_cases h1 : (a :: t).getLast (List.cons_ne_nil a t) ≤ ((sq (fold n i) + sq (fold n j) : Nat) : Rat)
    · rw [if_pos h1, if_neg]
      intro hc; exact absurd hc.2 (not_lt.mpr h1)
    · have h0' := not_lt.mp h0
      have h1' := not_le.mp h1
      rw [if_neg h1, if_pos ⟨h0', h1'⟩]
      have hmem := getLast_mem_tail a t _ h0' h1'
      have hlk := lead_lt_length _ t _ hmem (le_of_lt h1')
      rw [search_eq_lead a t _ 0 (Nat.zero_le _) hlk]
      simp only []
      rw [piLoop_spec n a' t' ht' ⟨n, n, n / 2 + 1⟩ _ i j _ _ hi hj (by simpa using hlk) (n / 2 + 1) 0 0
        (by simp) (Nat.zero_le _), List.range_eq_range']

theorem kppiRow_spec (n : Nat) (a : Rat) (t : List Rat) (a' : Rat) (t' : List Rat) (ht' : t' ≠ [])
    (i : Nat) (hi : i < n) :
    kppiRow n (a :: t) (a' :: t') ⟨n, n, n / 2 + 1⟩ i = .ok (rowSpecPi n (a :: t) (a' :: t') i) := by
  unfold kppiRow rowSpecPi
  rw [mapM_ok _ (colSpecPi n (a :: t) (a' :: t') i) _
    (fun j hj => kppiCol_spec n a t a' t' ht' i j hi (List.mem_range.mp hj))]
  rfl

theorem clsKppi_natAbs (ek ep : List Rat) (a b c : Int) :
    clsKppi ek ep a b c = clsKppi ek ep a b (c.natAbs : Int) := by
  unfold clsKppi sq
  simp only [Int.natAbs_natCast]

theorem acc_colSpecPi {M : Type} [AddCommMonoid M] (h : Contrib → M) (n : Nat) (ek ep : List Rat)
    (i j b m : Nat) :
    acc h (colSpecPi n ek ep i j) b m =
      ((List.range (n / 2 + 1)).map (fun (k : Nat) =>
        if clsKppi ek ep (fold n i) (fold n j) (k : Int) = some (b, m) then
          h ⟨i, j, k, sq (fold n i) + sq (fold n j), b, m, hw n k⟩ else 0)).sum := by
  unfold colSpecPi clsKppi
  obtain hcl | ⟨bk, hcl⟩ : classify ek ((sq (fold n i) + sq (fold n j) : Nat) : Rat) = none ∨
      ∃ bk, classify ek ((sq (fold n i) + sq (fold n j) : Nat) : Rat) = some bk := by
    cases classify ek ((sq (fold n i) + sq (fold n j) : Nat) : Rat) <;> simp
  · simp only [hcl]
    simp [acc]
  · simp only [hcl, acc_filterMap]
    congr 1
    apply List.map_congr_left
    intro k _
    unfold piSpec
    rw [sq_natCast]
    obtain hl | ⟨pl, hl⟩ : ep.getLast? = none ∨ ∃ pl, ep.getLast? = some pl := by
      cases ep.getLast? <;> simp
    · simp only [hl, cell]
      simp
    · simp only [hl]
      by_cases hk : ((k * k : Nat) : Rat) < pl
      · simp only [hk, ↓reduceIte, cell, inBin, Option.some.injEq, Prod.mk.injEq, Bool.and_eq_true, beq_iff_eq]
        by_cases hc : bk = b ∧ lead ((k * k : Nat) : Rat) ep.tail = m
        · obtain ⟨rfl, rfl⟩ := hc
          simp
        · rw [if_neg hc, if_neg hc]
      · simp only [hk, ↓reduceIte, cell]
        simp

theorem seq_counts_pi (n : Nat) (hn : 1 ≤ n) (ek ep : List Rat) (b m : Nat) :
    ((List.range n).map (fun i => cnt (rowSpecPi n ek ep i) b m)).sum = fullCount n (clsKppi ek ep) b m := by
  unfold fullCount fullSumNat
  have inner : ∀ a b' : Int,
      natSum ((fftfreq n).map fun c => if clsKppi ek ep a b' c = some (b, m) then 1 else 0) =
        ((List.range (n / 2 + 1)).map (fun k =>
          hw n k * (if clsKppi ek ep a b' (k : Int) = some (b, m) then 1 else 0))).sum := by
    intro a b'
    have := hermitian_sum (R := Nat) n hn (fun k => if clsKppi ek ep a b' (k : Int) = some (b, m) then 1 else 0)
    simp only [Nat.cast_id] at this
    rw [this, natSum_eq]
    simp only [← clsKppi_natAbs]
  simp only [inner, natSum_eq]
  rw [← fold_eq_fftfreq]
  simp only [List.map_map, Function.comp_def]
  congr 1
  apply List.map_congr_left
  intro i _
  rw [cnt_eq_acc, rowSpecPi, acc_flatten, List.map_map]
  congr 1
  apply List.map_congr_left
  intro j _
  simp only [Function.comp_def, acc_colSpecPi]
  congr 1
  apply List.map_congr_left
  intro k _
  by_cases hc : clsKppi ek ep (fold n i) (fold n j) (k : Int) = some (b, m) <;> simp [hc]

/-! ### bounds and weights of the accumulated cells -/

theorem mem_filterMap_range {f : Nat → Option Contrib} {N : Nat} {c : Contrib}
    (h : c ∈ (List.range N).filterMap f) : ∃ k, k < N ∧ f k = some c := by
  obtain ⟨k, hk, hf⟩ := List.mem_filterMap.mp h
  exact ⟨k, List.mem_range.mp hk, hf⟩

theorem classify_bound (a : Rat) (t : List Rat) (x : Rat) (b : Nat) (h : classify (a :: t) x = some b) :
    b + 1 < (a :: t).length := by
  rw [classify_cons] at h
  split at h
  · rename_i hc
    cases h
    have hmem := getLast_mem_tail a t x hc.1 hc.2
    have := lead_lt_length x t _ hmem (le_of_lt hc.2)
    simpa using this
  · cases h

theorem rowSpec_bounds (n : Nat) (a : Rat) (t : List Rat) (a' : Rat) (t' : List Rat)
    (hmu : ∀ x : Rat, x ≤ 1 → lead x t' < t'.length) (i : Nat) (hi : i < n) (c : Contrib)
    (hc : c ∈ rowSpec n (a :: t) (a' :: t') i) :
    c.b + 1 < (a :: t).length ∧ c.m + 1 < (a' :: t').length ∧ c.i < n ∧ c.j < n ∧ c.k < n / 2 + 1 ∧
      c.w = hw n c.k := by
  unfold rowSpec at hc
  obtain ⟨l, hl, hcl⟩ := List.mem_flatten.mp hc
  obtain ⟨j, hj, rfl⟩ := List.mem_map.mp hl
  obtain ⟨k, hk, hf⟩ := mem_filterMap_range hcl
  unfold kzSpec at hf
  split at hf
  · rename_i b hb
    cases hf
    refine ⟨classify_bound a t _ b hb, ?_, hi, List.mem_range.mp hj, hk, rfl⟩
    have := hmu _ (mu2_le_one (sq (fold n i) + sq (fold n j)) k)
    simpa using this
  · cases hf

theorem rowSpecPi_bounds (n : Nat) (a : Rat) (t : List Rat) (a' : Rat) (t' : List Rat) (ht' : t' ≠ [])
    (i : Nat) (hi : i < n) (c : Contrib) (hc : c ∈ rowSpecPi n (a :: t) (a' :: t') i) :
    c.b + 1 < (a :: t).length ∧ c.m + 1 < (a' :: t').length ∧ c.i < n ∧ c.j < n ∧ c.k < n / 2 + 1 ∧
      c.w = hw n c.k := by
  unfold rowSpecPi at hc
  obtain ⟨l, hl, hcl⟩ := List.mem_flatten.mp hc
  obtain ⟨j, hj, rfl⟩ := List.mem_map.mp hl
  unfold colSpecPi at hcl
  split at hcl
  · rename_i b hb
    obtain ⟨k, hk, hf⟩ := mem_filterMap_range hcl
    rw [piSpec_cons] at hf
    split at hf
    · rename_i hlt
      cases hf
      refine ⟨classify_bound a t _ b hb, ?_, hi, List.mem_range.mp hj, hk, rfl⟩
      have hmem : (a' :: t').getLast (List.cons_ne_nil a' t') ∈ t' := by
        rw [List.getLast_cons ht']; exact List.getLast_mem _
      have := lead_lt_length _ t' _ hmem (le_of_lt hlt)
      simpa using this
    · cases hf
  · simp at hcl

theorem mem_le_sum (l : List Nat) (x : Nat) (h : x ∈ l) : x ≤ l.sum := by
  induction l with
  | nil => simp at h
  | cons y ys ih =>
    rw [List.sum_cons]
    rcases List.mem_cons.mp h with rfl | h
    · omega
    · have := ih h; omega

theorem hw_pos (n k : Nat) : 1 ≤ hw n k := by unfold hw; split <;> omega

/-- an empty bin has an empty weighted sum (weights are at least 1) -/
theorem wsum_zero_of_cnt_zero (F : Nat → Nat → Nat → Rat) (cs : List Contrib) (hw1 : ∀ c ∈ cs, 1 ≤ c.w)
    (b m : Nat) (h : cnt cs b m = 0) : wsum F cs b m = 0 := by
  have hnil : cs.filter (inBin b m) = [] := by
    by_contra hne
    obtain ⟨c, hc⟩ := List.exists_mem_of_ne_nil _ hne
    have hcw := hw1 c (List.mem_filter.mp hc).1
    have : c.w ≤ cnt cs b m := by
      unfold cnt
      rw [natSum_eq]
      exact mem_le_sum _ _ (List.mem_map.mpr ⟨c, hc, rfl⟩)
    omega
  unfold wsum
  rw [hnil]
  rfl

/-! ### conjugation symmetry: from the half mesh to the full mesh -/

theorem negIdx_lt (n i : Nat) (hn : 1 ≤ n) : negIdx n i < n := Nat.mod_lt _ (by omega)

theorem negIdx_pos (n i : Nat) (h0 : 0 < i) (hi : i < n) : negIdx n i = n - i := by
  unfold negIdx; exact Nat.mod_eq_of_lt (by omega)

theorem negIdx_zero (n : Nat) : negIdx n 0 = 0 := by simp [negIdx]

theorem negIdx_invol (n i : Nat) (hi : i < n) : negIdx n (negIdx n i) = i := by
  rcases Nat.eq_zero_or_pos i with rfl | h0
  · simp [negIdx_zero]
  · rw [negIdx_pos n i h0 hi, negIdx_pos n (n - i) (by omega) (by omega)]; omega

theorem natAbs_fold_sub (n i : Nat) (h0 : 0 < i) (hi : i < n) :
    (fold n (n - i)).natAbs = (fold n i).natAbs := by
  have key : fold n (n - i) = - fold n i ∨ fold n (n - i) = fold n i := by
    unfold fold
    split <;> split <;> omega
  rcases key with h | h
  · rw [h, Int.natAbs_neg]
  · rw [h]

theorem natAbs_fold_negIdx (n i : Nat) (hi : i < n) : (fold n (negIdx n i)).natAbs = (fold n i).natAbs := by
  rcases Nat.eq_zero_or_pos i with rfl | h0
  · rw [negIdx_zero]
  · rw [negIdx_pos n i h0 hi]; exact natAbs_fold_sub n i h0 hi

theorem natAbs_fold_half (n k : Nat) (hk : k < n / 2 + 1) (_hn : 1 ≤ n) : (fold n k).natAbs = k := by
  unfold fold
  split
  · simp
  · have : ((k : Int) - (n : Int)) = -((k : Nat) : Int) := by omega
    rw [this, Int.natAbs_neg, Int.natAbs_natCast]

theorem clsKmu_congr (ek em : List Rat) {a a' b b' c c' : Int} (ha : a.natAbs = a'.natAbs)
    (hb : b.natAbs = b'.natAbs) (hc : c.natAbs = c'.natAbs) : clsKmu ek em a b c = clsKmu ek em a' b' c' := by
  unfold clsKmu sq
  rw [ha, hb, hc]

theorem sum_negIdx {M : Type} [AddCommMonoid M] (n : Nat) (hn : 1 ≤ n) (f : Nat → M) :
    ∑ i ∈ Finset.range n, f (negIdx n i) = ∑ i ∈ Finset.range n, f i := by
  apply Finset.sum_nbij' (negIdx n) (negIdx n)
  · intro a _; exact Finset.mem_range.mpr (negIdx_lt n a hn)
  · intro a _; exact Finset.mem_range.mpr (negIdx_lt n a hn)
  · intro a ha; exact negIdx_invol n a (Finset.mem_range.mp ha)
  · intro a ha; exact negIdx_invol n a (Finset.mem_range.mp ha)
  · intro a _; rfl

/-- Hermitian re-indexing on mesh indices: a plane sum `S` with `S (n - k) = S k` summed over the full
axis is the weighted sum over the half axis -/
theorem hermitian_index {R : Type} [CommSemiring R] (n : Nat) (hn : 1 ≤ n) (S : Nat → R)
    (hS : ∀ k, 0 < k → k < n → S (n - k) = S k) :
    ∑ l ∈ Finset.range n, S l = ∑ k ∈ Finset.range (n / 2 + 1), ((hw n k : Nat) : R) * S k := by
  rw [← list_sum_range (fun k => ((hw n k : Nat) : R) * S k), hermitian_sum n hn S, ← fold_eq_fftfreq,
    List.map_map, list_sum_range]
  apply Finset.sum_congr rfl
  intro i hi
  rw [Finset.mem_range] at hi
  simp only [Function.comp]
  unfold fold
  split
  · simp
  · rename_i h
    have : ((i : Int) - (n : Int)) = -((n - i : Nat) : Int) := by omega
    rw [this, Int.natAbs_neg, Int.natAbs_natCast]
    exact (hS i (by omega) hi).symm

theorem sum_rotate (g : Nat → Nat → Nat → Rat) (N M K : Nat) :
    ∑ i ∈ Finset.range N, ∑ j ∈ Finset.range M, ∑ l ∈ Finset.range K, g i j l =
      ∑ l ∈ Finset.range K, ∑ i ∈ Finset.range N, ∑ j ∈ Finset.range M, g i j l := by
  calc ∑ i ∈ Finset.range N, ∑ j ∈ Finset.range M, ∑ l ∈ Finset.range K, g i j l
      = ∑ i ∈ Finset.range N, ∑ l ∈ Finset.range K, ∑ j ∈ Finset.range M, g i j l :=
        Finset.sum_congr rfl (fun i _ => Finset.sum_comm)
    _ = ∑ l ∈ Finset.range K, ∑ i ∈ Finset.range N, ∑ j ∈ Finset.range M, g i j l := Finset.sum_comm

/-- **weighted sums: half mesh with Hermitian weights = full mesh**, for a conjugation-symmetric
per-mode quantity `Ff` given on the full mesh by mesh indices -/
theorem seq_wsum (n : Nat) (hn : 1 ≤ n) (ek em : List Rat) (Ff : Nat → Nat → Nat → Rat)
    (hsym : ∀ i j l, i < n → j < n → l < n → Ff (negIdx n i) (negIdx n j) (negIdx n l) = Ff i j l)
    (b m : Nat) :
    ((List.range n).map (fun i => wsum Ff (rowSpec n ek em i) b m)).sum =
      fullSumRat n (fun i j l =>
        if clsKmu ek em (fold n i) (fold n j) (fold n l) = some (b, m) then Ff i j l else 0) := by
  -- left side: triple sum over the half mesh
  have hL : ∀ i, wsum Ff (rowSpec n ek em i) b m =
      ∑ j ∈ Finset.range n, ∑ k ∈ Finset.range (n / 2 + 1),
        (if clsKmu ek em (fold n i) (fold n j) (k : Int) = some (b, m) then ((hw n k : Nat) : Rat) * Ff i j k else 0) := by
    intro i
    rw [wsum_eq_acc, rowSpec, acc_flatten, List.map_map, list_sum_range]
    apply Finset.sum_congr rfl
    intro j _
    simp only [Function.comp_def, colSpec, acc_filterMap, cell_kzSpec, list_sum_range]
  simp only [hL, fullSumRat, ratSum_eq, list_sum_range]
  -- plane sums
  set S : Nat → Rat := fun l => ∑ i ∈ Finset.range n, ∑ j ∈ Finset.range n,
    (if clsKmu ek em (fold n i) (fold n j) (fold n l) = some (b, m) then Ff i j l else 0) with hSdef
  have hS : ∀ k, 0 < k → k < n → S (n - k) = S k := by
    intro k h0 hk
    simp only [hSdef]
    rw [← sum_negIdx n hn (fun i => ∑ j ∈ Finset.range n,
      (if clsKmu ek em (fold n i) (fold n j) (fold n k) = some (b, m) then Ff i j k else 0))]
    apply Finset.sum_congr rfl
    intro i hi
    rw [← sum_negIdx n hn (fun j =>
      (if clsKmu ek em (fold n (negIdx n i)) (fold n j) (fold n k) = some (b, m) then Ff (negIdx n i) j k else 0))]
    apply Finset.sum_congr rfl
    intro j hj
    rw [Finset.mem_range] at hi hj
    have hF : Ff (negIdx n i) (negIdx n j) k = Ff i j (n - k) := by
      have := hsym i j (n - k) hi hj (by omega)
      rwa [negIdx_pos n (n - k) (by omega) (by omega), show n - (n - k) = k by omega] at this
    rw [hF, clsKmu_congr ek em (natAbs_fold_negIdx n i hi).symm (natAbs_fold_negIdx n j hj).symm
      (natAbs_fold_sub n k h0 hk)]
  have hR : (∑ i ∈ Finset.range n, ∑ j ∈ Finset.range n, ∑ l ∈ Finset.range n,
      (if clsKmu ek em (fold n i) (fold n j) (fold n l) = some (b, m) then Ff i j l else 0)) =
      ∑ l ∈ Finset.range n, S l := by
    simp only [hSdef]
    exact sum_rotate _ n n n
  rw [hR, hermitian_index n hn S hS, sum_rotate]
  simp only [hSdef, Finset.mul_sum]
  apply Finset.sum_congr rfl
  intro k hk
  apply Finset.sum_congr rfl
  intro i _
  apply Finset.sum_congr rfl
  intro j _
  rw [Finset.mem_range] at hk
  have hcls : clsKmu ek em (fold n i) (fold n j) (fold n k) = clsKmu ek em (fold n i) (fold n j) (k : Int) :=
    clsKmu_congr ek em rfl rfl (by rw [natAbs_fold_half n k hk hn, Int.natAbs_natCast])
  rw [hcls]
  split <;> simp

theorem clsKppi_congr (ek ep : List Rat) {a a' b b' c c' : Int} (ha : a.natAbs = a'.natAbs)
    (hb : b.natAbs = b'.natAbs) (hc : c.natAbs = c'.natAbs) : clsKppi ek ep a b c = clsKppi ek ep a' b' c' := by
  unfold clsKppi sq
  rw [ha, hb, hc]

/-- the same for `bin_kppi` -/
theorem seq_wsum_pi (n : Nat) (hn : 1 ≤ n) (ek ep : List Rat) (Ff : Nat → Nat → Nat → Rat)
    (hsym : ∀ i j l, i < n → j < n → l < n → Ff (negIdx n i) (negIdx n j) (negIdx n l) = Ff i j l)
    (b m : Nat) :
    ((List.range n).map (fun i => wsum Ff (rowSpecPi n ek ep i) b m)).sum =
      fullSumRat n (fun i j l =>
        if clsKppi ek ep (fold n i) (fold n j) (fold n l) = some (b, m) then Ff i j l else 0) := by
  -- left side: triple sum over the half mesh
  have hL : ∀ i, wsum Ff (rowSpecPi n ek ep i) b m =
      ∑ j ∈ Finset.range n, ∑ k ∈ Finset.range (n / 2 + 1),
        (if clsKppi ek ep (fold n i) (fold n j) (k : Int) = some (b, m) then ((hw n k : Nat) : Rat) * Ff i j k else 0) := by
    intro i
    rw [wsum_eq_acc, rowSpecPi, acc_flatten, List.map_map, list_sum_range]
    apply Finset.sum_congr rfl
    intro j _
    simp only [Function.comp_def, acc_colSpecPi, list_sum_range]
  simp only [hL, fullSumRat, ratSum_eq, list_sum_range]
  -- plane sums
  set S : Nat → Rat := fun l => ∑ i ∈ Finset.range n, ∑ j ∈ Finset.range n,
    (if clsKppi ek ep (fold n i) (fold n j) (fold n l) = some (b, m) then Ff i j l else 0) with hSdef
  have hS : ∀ k, 0 < k → k < n → S (n - k) = S k := by
    intro k h0 hk
    simp only [hSdef]
    rw [← sum_negIdx n hn (fun i => ∑ j ∈ Finset.range n,
      (if clsKppi ek ep (fold n i) (fold n j) (fold n k) = some (b, m) then Ff i j k else 0))]
    apply Finset.sum_congr rfl
    intro i hi
    rw [← sum_negIdx n hn (fun j =>
      (if clsKppi ek ep (fold n (negIdx n i)) (fold n j) (fold n k) = some (b, m) then Ff (negIdx n i) j k else 0))]
    apply Finset.sum_congr rfl
    intro j hj
    rw [Finset.mem_range] at hi hj
    have hF : Ff (negIdx n i) (negIdx n j) k = Ff i j (n - k) := by
      have := hsym i j (n - k) hi hj (by omega)
      rwa [negIdx_pos n (n - k) (by omega) (by omega), show n - (n - k) = k by omega] at this
    rw [hF, clsKppi_congr ek ep (natAbs_fold_negIdx n i hi).symm (natAbs_fold_negIdx n j hj).symm
      (natAbs_fold_sub n k h0 hk)]
  have hR : (∑ i ∈ Finset.range n, ∑ j ∈ Finset.range n, ∑ l ∈ Finset.range n,
      (if clsKppi ek ep (fold n i) (fold n j) (fold n l) = some (b, m) then Ff i j l else 0)) =
      ∑ l ∈ Finset.range n, S l := by
    simp only [hSdef]
    exact sum_rotate _ n n n
  rw [hR, hermitian_index n hn S hS, sum_rotate]
  simp only [hSdef, Finset.mul_sum]
  apply Finset.sum_congr rfl
  intro k hk
  apply Finset.sum_congr rfl
  intro i _
  apply Finset.sum_congr rfl
  intro j _
  rw [Finset.mem_range] at hk
  have hcls : clsKppi ek ep (fold n i) (fold n j) (fold n k) = clsKppi ek ep (fold n i) (fold n j) (k : Int) :=
    clsKppi_congr ek ep rfl rfl (by rw [natAbs_fold_half n k hk hn, Int.natAbs_natCast])
  rw [hcls]
  split <;> simp

/-- two per-cell quantities that agree on the cells the loop produces have the same accumulated sums -/
theorem acc_rowSpec_congr {M : Type} [AddCommMonoid M] (h h' : Contrib → M) (n : Nat) (ek em : List Rat) (i : Nat)
    (hh : ∀ j k b m, k < n / 2 + 1 → h ⟨i, j, k, sq (fold n i) + sq (fold n j) + k * k, b, m, hw n k⟩ =
      h' ⟨i, j, k, sq (fold n i) + sq (fold n j) + k * k, b, m, hw n k⟩) (b m : Nat) :
    acc h (rowSpec n ek em i) b m = acc h' (rowSpec n ek em i) b m := by
  simp only [rowSpec, acc_flatten, List.map_map, Function.comp_def, colSpec, acc_filterMap, cell_kzSpec]
  congr 1
  apply List.map_congr_left
  intro j _
  congr 1
  apply List.map_congr_left
  intro k hk
  rw [hh j k b m (List.mem_range.mp hk)]

/-! ### accumulation by `k` bin alone (multipoles) -/

/-- `Σ h c` over the contributions whose `k` bin is `b` (any mu bin) -/
def accb {M : Type} [AddCommMonoid M] (h : Contrib → M) (cs : List Contrib) (b : Nat) : M :=
  ((cs.filter (fun c => c.b == b)).map h).sum

theorem acc_cons {M : Type} [AddCommMonoid M] (h : Contrib → M) (c : Contrib) (cs : List Contrib) (b m : Nat) :
    acc h (c :: cs) b m = (if inBin b m c then h c else 0) + acc h cs b m := by
  unfold acc
  by_cases hc : inBin b m c = true <;> simp [hc]

theorem accb_eq_sum_acc {M : Type} [AddCommMonoid M] (h : Contrib → M) (cs : List Contrib) (b nm : Nat)
    (hm : ∀ c ∈ cs, c.m < nm) : accb h cs b = ∑ m ∈ Finset.range nm, acc h cs b m := by
  induction cs with
  | nil => simp [accb, acc]
  | cons c cs ih =>
    have ih' := ih (fun c' hc' => hm c' (List.mem_cons_of_mem _ hc'))
    simp only [acc_cons, Finset.sum_add_distrib, ← ih']
    have hcm : c.m ∈ Finset.range nm := Finset.mem_range.mpr (hm c (List.mem_cons_self ..))
    by_cases hb : (c.b == b) = true
    · have : ∀ m, (if inBin b m c = true then h c else 0) = if c.m = m then h c else 0 := by
        intro m; simp [inBin, hb]
      simp only [this, Finset.sum_ite_eq, hcm, if_true]
      simp [accb, hb]
    · have : ∀ m, (if inBin b m c = true then h c else 0) = 0 := by
        intro m; simp [inBin, hb]
      simp only [this, Finset.sum_const_zero, zero_add]
      simp [accb, hb]

/-! ### the threads of `bin_kmu`, empty bins, multipole sums -/

/-- the sequential contribution list of `bin_kmu` and its counts -/
theorem kmu_threads_counts (n T : Nat) (hn : 1 ≤ n) (assign : Nat → Nat) (ek em : List Rat)
    (hek : ek ≠ []) (hem : em.tail ≠ []) (h1 : 1 ≤ em.tail.getLast hem) (hT : ∀ i < n, assign i < T) :
    ∃ ts, allThreads (kmuRow n ek em (halfShape n)) n T assign = .ok ts ∧
      (∀ cs ∈ ts, ∀ c ∈ cs, 1 ≤ c.w) ∧
      ∀ b m, cntT ts b m = fullCount n (clsKmu ek em) b m := by
  obtain ⟨a, t, rfl⟩ := List.exists_cons_of_ne_nil hek
  obtain ⟨a', t', rfl⟩ : ∃ a' t', em = a' :: t' := by
    cases em with
    | nil => simp at hem
    | cons a' t' => exact ⟨a', t', rfl⟩
  have hmu := mu_ok t' hem h1
  refine ⟨_, allThreads_spec _ (rowSpec n (a :: t) (a' :: t')) n T assign
    (fun i hi => kmuRow_spec n a t a' t' hmu i hi) hT, ?_, ?_⟩
  · intro cs hcs c hc
    obtain ⟨tt, _, rfl⟩ := List.mem_map.mp hcs
    obtain ⟨l, hl, hcl⟩ := List.mem_flatten.mp hc
    obtain ⟨i, hi, rfl⟩ := List.mem_map.mp hl
    have hi' := List.mem_range.mp (List.mem_filter.mp hi).1
    obtain ⟨_, _, _, _, _, h6⟩ := rowSpec_bounds n a t a' t' hmu i hi' c hcl
    rw [h6]; exact hw_pos n c.k
  · intro b m
    have := accT_threads (fun c => c.w) (rowSpec n (a :: t) (a' :: t')) n T assign hT b m
    unfold cntT
    rw [natSum_eq]
    simp only [cnt_eq_acc]
    rw [this, acc_flatten, List.map_map]
    exact seq_counts n hn (a :: t) (a' :: t') b m

theorem cntT_zero (ts : List (List Contrib)) (b m : Nat) (h : cntT ts b m = 0) : ∀ cs ∈ ts, cnt cs b m = 0 := by
  intro cs hcs
  have := mem_le_sum (ts.map (fun cs => cnt cs b m)) (cnt cs b m) (List.mem_map.mpr ⟨cs, hcs, rfl⟩)
  unfold cntT at h
  rw [natSum_eq] at h
  omega

theorem wsumT_zero (F : Nat → Nat → Nat → Rat) (ts : List (List Contrib))
    (hw1 : ∀ cs ∈ ts, ∀ c ∈ cs, 1 ≤ c.w) (b m : Nat) (h : cntT ts b m = 0) : wsumT F ts b m = 0 := by
  unfold wsumT
  rw [ratSum_eq]
  apply List.sum_eq_zero
  intro x hx
  obtain ⟨cs, hcs, rfl⟩ := List.mem_map.mp hx
  exact wsum_zero_of_cnt_zero F cs (hw1 cs hcs) b m (cntT_zero ts b m h cs hcs)

/-- `Σ F` of a bin is its mode count times its reported mean -/
theorem wsumT_eq_count_mul_mean (F : Nat → Nat → Nat → Rat) (ts : List (List Contrib))
    (hw1 : ∀ cs ∈ ts, ∀ c ∈ cs, 1 ≤ c.w) (b m : Nat) :
    wsumT F ts b m = (cntT ts b m : Rat) * divIf (wsumT F ts b m) (cntT ts b m) := by
  unfold divIf
  by_cases h : cntT ts b m = 0
  · rw [if_pos h, wsumT_zero F ts hw1 b m h]; simp
  · rw [if_neg h]
    have : (cntT ts b m : Rat) ≠ 0 := by exact_mod_cast h
    field_simp

/-- For an order whose coded `P_n` is the polynomial `P` (it never rejects), the accumulated multipole
sum of `k` bin `b` in one thread is `Σ w · F · (2l+1) · P(mu²)` over exactly that thread's accumulated
cells of that `k` bin (re-indexed to the full mesh in `kmu_pole_means`). -/
theorem poleSum_spec (F : Nat → Nat → Nat → Rat) (pole b : Nat) (P : Rat → Rat)
    (hP : ∀ x, Pn x pole = .ok (P x)) (cs : List Contrib) :
    poleSum F pole b cs = .ok (((cs.filter (fun c => c.b == b)).map (fun c =>
      (c.w : Rat) * (F c.i c.j c.k * (((2 * pole + 1 : Nat) : Rat) * P (mu2 (c.q - c.k * c.k) c.k))))).sum) := by
  induction cs with
  | nil => rfl
  | cons c cs ih =>
    unfold poleSum
    by_cases hb : (c.b == b) = true
    · rw [if_pos hb, hP, ih]
      simp [hb]
    · rw [if_neg hb, ih]
      simp [hb]

/-! ### any mesh shape that contains the half mesh (`fourier=False` passes a full `(n, n, n)` mesh) -/

/-- the loops only touch `weights[i, j, k]` with `i, j < n`, `k < n // 2 + 1` -/
def ShapeOk (n : Nat) (sh : Shape) : Prop := n ≤ sh.s0 ∧ n ≤ sh.s1 ∧ n / 2 + 1 ≤ sh.s2

theorem shapeOk_half (n : Nat) : ShapeOk n (halfShape n) := ⟨le_refl _, le_refl _, le_refl _⟩

theorem shapeOk_full (n : Nat) (hn : 1 ≤ n) : ShapeOk n (fullShape n) :=
  ⟨le_refl _, le_refl _, by show n / 2 + 1 ≤ n; omega⟩

theorem kmuRow_spec_sh (n : Nat) (a : Rat) (t : List Rat) (a' : Rat) (t' : List Rat)
    (hmu : ∀ x : Rat, x ≤ 1 → lead x t' < t'.length) (sh : Shape) (hsh : ShapeOk n sh) (i : Nat) (hi : i < n) :
    kmuRow n (a :: t) (a' :: t') sh i = .ok (rowSpec n (a :: t) (a' :: t') i) := by
  unfold kmuRow rowSpec
  rw [mapM_ok _ (colSpec n (a :: t) (a' :: t') i) _ (fun j hj => ?_)]
  · rfl
  · unfold kmuCol colSpec
    have hj' := List.mem_range.mp hj
    rw [kzLoop_spec n a t a' t' sh i j _ hmu (by have := hsh.1; omega) (by have := hsh.2.1; omega)
      (n / 2 + 1) 0 0 0 (by have := hsh.2.2; omega) (Nat.zero_le _) (Nat.zero_le _), List.range_eq_range']

theorem kppiRow_spec_sh (n : Nat) (a : Rat) (t : List Rat) (a' : Rat) (t' : List Rat) (ht' : t' ≠ [])
    (sh : Shape) (hsh : ShapeOk n sh) (i : Nat) (hi : i < n) :
    kppiRow n (a :: t) (a' :: t') sh i = .ok (rowSpecPi n (a :: t) (a' :: t') i) := by
  unfold kppiRow rowSpecPi
  rw [mapM_ok _ (colSpecPi n (a :: t) (a' :: t') i) _ (fun j hj => ?_)]
  · rfl
  · have hj' := List.mem_range.mp hj
    unfold kppiCol colSpecPi
    simp only []
    rw [getE_zero, classify_cons]
    simp only []
    by_cases h0 : ((sq (fold n i) + sq (fold n j) : Nat) : Rat) < a
    · rw [if_pos h0, if_neg]
      intro hc; exact absurd h0 (not_lt.mpr hc.1)
    · rw [if_neg h0, getE_last (a :: t) (List.cons_ne_nil a t)]
      simp only []
      by_cases h1 : (a :: t).getLast (List.cons_ne_nil a t) ≤ ((sq (fold n i) + sq (fold n j) : Nat) : Rat)
      · rw [if_pos h1, if_neg]
        intro hc; exact absurd hc.2 (not_lt.mpr h1)
      · have h0' := not_lt.mp h0
        have h1' := not_le.mp h1
        rw [if_neg h1, if_pos ⟨h0', h1'⟩]
        have hmem := getLast_mem_tail a t _ h0' h1'
        have hlk := lead_lt_length _ t _ hmem (le_of_lt h1')
        rw [search_eq_lead a t _ 0 (Nat.zero_le _) hlk]
        simp only []
        rw [piLoop_spec n a' t' ht' sh _ i j _ _ (by have := hsh.1; omega) (by have := hsh.2.1; omega)
          (by simpa using hlk) (n / 2 + 1) 0 0 (by have := hsh.2.2; omega) (Nat.zero_le _), List.range_eq_range']

/-! ### `P_n` as coded is the evaluation of its coefficient list -/

/-- `Σ c_k · y^(e k)` over paired lists of loop indices and coefficients -/
def evalTerms (y : Rat) (e : Nat → Nat) : List Nat → List Int → Rat
  | k :: ks, c :: cs => (c : Rat) * y ^ (e k) + evalTerms y e ks cs
  | _, _ => 0

theorem loop_eq_evalTerms (loop : List Nat → Rat → Except Fault Rat) (y : Rat) (n : Nat) (e : Nat → Nat)
    (hnil : ∀ s, loop [] s = .ok s)
    (hcons : ∀ k ks s, loop (k :: ks) s =
      match pnFactor n k with
      | .error f => .error f
      | .ok fac => loop ks (if k % 2 = 0 then s + (fac : Rat) * y ^ (e k) else s - (fac : Rat) * y ^ (e k)))
    (ks : List Nat) (s : Rat) :
    loop ks s = match ks.mapM (pnCoeff n) with
      | .ok cs => .ok (s + evalTerms y e ks cs)
      | .error f => .error f := by
  induction ks generalizing s with
  | nil => rw [hnil]; simp [evalTerms]; rfl
  | cons k ks ih =>
    rw [hcons, List.mapM_cons]
    cases hf : pnFactor n k with
    | error f =>
      have hck : pnCoeff n k = .error f := by unfold pnCoeff; rw [hf]
      rw [hck]; rfl
    | ok fac =>
      have hck : pnCoeff n k = .ok (if k % 2 = 0 then (fac : Int) else -(fac : Int)) := by
        unfold pnCoeff; rw [hf]
      rw [hck]
      simp only []
      rw [ih]
      cases hm : ks.mapM (pnCoeff n) with
      | error f => rfl
      | ok cs =>
        simp only [bind, Except.bind, pure, Except.pure, evalTerms]
        congr 1
        by_cases hk : k % 2 = 0
        · simp only [hk, ↓reduceIte]; push_cast; ring
        · simp only [hk, ↓reduceIte]; push_cast; ring

theorem Pn_eq_eval (x : Rat) (n : Nat) (hn : n % 2 = 0) (cs : List Int) (hcs : pnCoeffs n = .ok cs) :
    Pn x n = .ok (evalTerms x (fun k => n / 2 - k) (List.range (n / 2 + 1)) cs * (1 / 2 : Rat) ^ n) := by
  unfold Pn
  rw [if_neg (by omega)]
  rw [loop_eq_evalTerms (PnLoop x n) x n (fun k => n / 2 - k) (fun s => rfl) (fun k ks s => by simp only [PnLoop]; cases pnFactor n k <;> rfl)]
  unfold pnCoeffs at hcs
  rw [hcs]
  simp

theorem PnMu_eq_eval (mu : Rat) (n : Nat) (cs : List Int) (hcs : pnCoeffs n = .ok cs) :
    PnMu mu n = .ok (evalTerms mu (fun k => n - 2 * k) (List.range (n / 2 + 1)) cs * (1 / 2 : Rat) ^ n) := by
  unfold PnMu
  rw [loop_eq_evalTerms (PnMuLoop mu n) mu n (fun k => n - 2 * k) (fun s => rfl) (fun k ks s => by simp only [PnMuLoop]; cases pnFactor n k <;> rfl)]
  unfold pnCoeffs at hcs
  rw [hcs]
  simp

theorem evalTerms_sq (mu : Rat) (n : Nat) (hn : n % 2 = 0) (ks : List Nat) (cs : List Int)
    (hk : ∀ k ∈ ks, k ≤ n / 2) :
    evalTerms (mu * mu) (fun k => n / 2 - k) ks cs = evalTerms mu (fun k => n - 2 * k) ks cs := by
  induction ks generalizing cs with
  | nil => simp [evalTerms]
  | cons k ks ih =>
    cases cs with
    | nil => simp [evalTerms]
    | cons c cs =>
      simp only [evalTerms]
      rw [ih cs (fun k' hk' => hk k' (List.mem_cons_of_mem _ hk'))]
      have hkk := hk k (List.mem_cons_self ..)
      have : n - 2 * k = 2 * (n / 2 - k) := by omega
      rw [this, pow_mul, pow_two]

theorem toOption_some {α : Type} (e : Except Fault α) (v : α) (h : e.toOption = some v) : e = .ok v := by
  cases e with
  | error f => simp [Except.toOption] at h
  | ok w => simp [Except.toOption] at h; rw [h]

/-- the first term of the coded sum already needs `factorial(2n)`: every order above 10 raises -/
theorem pnFactor_zero_rejected (n : Nat) (hn : 11 ≤ n) : pnFactor n 0 = .error .rejected := by
  unfold pnFactor nChooseK
  by_cases h20 : 20 < n
  · have : factorial (n : Int) = .error .rejected := by
      unfold factorial; rw [if_pos]; left; omega
    simp [this, bind, Except.bind]
  · have h1 : ∃ v, factorial (n : Int) = .ok v := by
      unfold factorial
      rw [if_neg (by omega)]
      have hlt : n < factTable.length := by simp [factTable]; omega
      rw [pyIndex_nonneg hlt]
      exact ⟨factTable[n], by simp [List.getElem?_eq_getElem hlt]⟩
    have h0 : factorial (0 : Int) = .ok 1 := by decide
    have h2 : factorial (2 * (n : Int)) = .error .rejected := by
      unfold factorial; rw [if_pos]; left; omega
    obtain ⟨v, hv⟩ := h1
    simp [hv, h0, h2, bind, Except.bind]

/-! ### closed forms of the coded `P_n` for every supported order (generated table, each entry re-checked by `decide +kernel`) -/

theorem pnCoeffs_0 : pnCoeffs 0 = .ok [1] :=
  toOption_some _ _ (by decide +kernel)

theorem legendre_0 : legendre 0 = [(1 : Rat)] := by decide +kernel

theorem PnMu_closed_0 (mu : Rat) : PnMu mu 0 = .ok (peval (legendre 0) mu) := by
  rw [PnMu_eq_eval mu 0 _ pnCoeffs_0, legendre_0]
  simp [evalTerms, peval, List.range, List.range.loop]
  try ring

theorem evens_legendre_0 : evens (legendre 0) = [(1 : Rat)] := by decide +kernel

theorem Pn_closed_0 (x : Rat) : Pn x 0 = .ok (peval (evens (legendre 0)) x) := by
  rw [Pn_eq_eval x 0 rfl _ pnCoeffs_0, evens_legendre_0]
  simp [evalTerms, peval, List.range, List.range.loop]
  try ring

theorem pnCoeffs_1 : pnCoeffs 1 = .ok [2] :=
  toOption_some _ _ (by decide +kernel)

theorem legendre_1 : legendre 1 = [(0 : Rat), (1 : Rat)] := by decide +kernel

theorem PnMu_closed_1 (mu : Rat) : PnMu mu 1 = .ok (peval (legendre 1) mu) := by
  rw [PnMu_eq_eval mu 1 _ pnCoeffs_1, legendre_1]
  simp [evalTerms, peval, List.range, List.range.loop]
  try ring

theorem pnCoeffs_2 : pnCoeffs 2 = .ok [6, -2] :=
  toOption_some _ _ (by decide +kernel)

theorem legendre_2 : legendre 2 = [(-1 / 2 : Rat), (0 : Rat), (3 / 2 : Rat)] := by decide +kernel

theorem PnMu_closed_2 (mu : Rat) : PnMu mu 2 = .ok (peval (legendre 2) mu) := by
  rw [PnMu_eq_eval mu 2 _ pnCoeffs_2, legendre_2]
  simp [evalTerms, peval, List.range, List.range.loop]
  try ring

theorem evens_legendre_2 : evens (legendre 2) = [(-1 / 2 : Rat), (3 / 2 : Rat)] := by decide +kernel

theorem Pn_closed_2 (x : Rat) : Pn x 2 = .ok (peval (evens (legendre 2)) x) := by
  rw [Pn_eq_eval x 2 rfl _ pnCoeffs_2, evens_legendre_2]
  simp [evalTerms, peval, List.range, List.range.loop]
  try ring

theorem pnCoeffs_3 : pnCoeffs 3 = .ok [20, -12] :=
  toOption_some _ _ (by decide +kernel)

theorem legendre_3 : legendre 3 = [(0 : Rat), (-3 / 2 : Rat), (0 : Rat), (5 / 2 : Rat)] := by decide +kernel

theorem PnMu_closed_3 (mu : Rat) : PnMu mu 3 = .ok (peval (legendre 3) mu) := by
  rw [PnMu_eq_eval mu 3 _ pnCoeffs_3, legendre_3]
  simp [evalTerms, peval, List.range, List.range.loop]
  try ring

theorem pnCoeffs_4 : pnCoeffs 4 = .ok [70, -60, 6] :=
  toOption_some _ _ (by decide +kernel)

theorem legendre_4 : legendre 4 = [(3 / 8 : Rat), (0 : Rat), (-15 / 4 : Rat), (0 : Rat), (35 / 8 : Rat)] := by decide +kernel

theorem PnMu_closed_4 (mu : Rat) : PnMu mu 4 = .ok (peval (legendre 4) mu) := by
  rw [PnMu_eq_eval mu 4 _ pnCoeffs_4, legendre_4]
  simp [evalTerms, peval, List.range, List.range.loop]
  try ring

theorem evens_legendre_4 : evens (legendre 4) = [(3 / 8 : Rat), (-15 / 4 : Rat), (35 / 8 : Rat)] := by decide +kernel

theorem Pn_closed_4 (x : Rat) : Pn x 4 = .ok (peval (evens (legendre 4)) x) := by
  rw [Pn_eq_eval x 4 rfl _ pnCoeffs_4, evens_legendre_4]
  simp [evalTerms, peval, List.range, List.range.loop]
  try ring

theorem pnCoeffs_5 : pnCoeffs 5 = .ok [252, -280, 60] :=
  toOption_some _ _ (by decide +kernel)

theorem legendre_5 : legendre 5 = [(0 : Rat), (15 / 8 : Rat), (0 : Rat), (-35 / 4 : Rat), (0 : Rat), (63 / 8 : Rat)] := by decide +kernel

theorem PnMu_closed_5 (mu : Rat) : PnMu mu 5 = .ok (peval (legendre 5) mu) := by
  rw [PnMu_eq_eval mu 5 _ pnCoeffs_5, legendre_5]
  simp [evalTerms, peval, List.range, List.range.loop]
  try ring

theorem pnCoeffs_6 : pnCoeffs 6 = .ok [924, -1260, 420, -20] :=
  toOption_some _ _ (by decide +kernel)

theorem legendre_6 : legendre 6 = [(-5 / 16 : Rat), (0 : Rat), (105 / 16 : Rat), (0 : Rat), (-315 / 16 : Rat), (0 : Rat), (231 / 16 : Rat)] := by decide +kernel

theorem PnMu_closed_6 (mu : Rat) : PnMu mu 6 = .ok (peval (legendre 6) mu) := by
  rw [PnMu_eq_eval mu 6 _ pnCoeffs_6, legendre_6]
  simp [evalTerms, peval, List.range, List.range.loop]
  try ring

theorem evens_legendre_6 : evens (legendre 6) = [(-5 / 16 : Rat), (105 / 16 : Rat), (-315 / 16 : Rat), (231 / 16 : Rat)] := by decide +kernel

theorem Pn_closed_6 (x : Rat) : Pn x 6 = .ok (peval (evens (legendre 6)) x) := by
  rw [Pn_eq_eval x 6 rfl _ pnCoeffs_6, evens_legendre_6]
  simp [evalTerms, peval, List.range, List.range.loop]
  try ring

theorem pnCoeffs_7 : pnCoeffs 7 = .ok [3432, -5544, 2520, -280] :=
  toOption_some _ _ (by decide +kernel)

theorem legendre_7 : legendre 7 = [(0 : Rat), (-35 / 16 : Rat), (0 : Rat), (315 / 16 : Rat), (0 : Rat), (-693 / 16 : Rat), (0 : Rat), (429 / 16 : Rat)] := by decide +kernel

theorem PnMu_closed_7 (mu : Rat) : PnMu mu 7 = .ok (peval (legendre 7) mu) := by
  rw [PnMu_eq_eval mu 7 _ pnCoeffs_7, legendre_7]
  simp [evalTerms, peval, List.range, List.range.loop]
  try ring

theorem pnCoeffs_8 : pnCoeffs 8 = .ok [12870, -24024, 13860, -2520, 70] :=
  toOption_some _ _ (by decide +kernel)

theorem legendre_8 : legendre 8 = [(35 / 128 : Rat), (0 : Rat), (-315 / 32 : Rat), (0 : Rat), (3465 / 64 : Rat), (0 : Rat), (-3003 / 32 : Rat), (0 : Rat), (6435 / 128 : Rat)] := by decide +kernel

theorem PnMu_closed_8 (mu : Rat) : PnMu mu 8 = .ok (peval (legendre 8) mu) := by
  rw [PnMu_eq_eval mu 8 _ pnCoeffs_8, legendre_8]
  simp [evalTerms, peval, List.range, List.range.loop]
  try ring

theorem evens_legendre_8 : evens (legendre 8) = [(35 / 128 : Rat), (-315 / 32 : Rat), (3465 / 64 : Rat), (-3003 / 32 : Rat), (6435 / 128 : Rat)] := by decide +kernel

theorem Pn_closed_8 (x : Rat) : Pn x 8 = .ok (peval (evens (legendre 8)) x) := by
  rw [Pn_eq_eval x 8 rfl _ pnCoeffs_8, evens_legendre_8]
  simp [evalTerms, peval, List.range, List.range.loop]
  try ring

theorem pnCoeffs_9 : pnCoeffs 9 = .ok [48620, -102960, 72072, -18480, 1260] :=
  toOption_some _ _ (by decide +kernel)

theorem legendre_9 : legendre 9 = [(0 : Rat), (315 / 128 : Rat), (0 : Rat), (-1155 / 32 : Rat), (0 : Rat), (9009 / 64 : Rat), (0 : Rat), (-6435 / 32 : Rat), (0 : Rat), (12155 / 128 : Rat)] := by decide +kernel

theorem PnMu_closed_9 (mu : Rat) : PnMu mu 9 = .ok (peval (legendre 9) mu) := by
  rw [PnMu_eq_eval mu 9 _ pnCoeffs_9, legendre_9]
  simp [evalTerms, peval, List.range, List.range.loop]
  try ring

theorem pnCoeffs_10 : pnCoeffs 10 = .ok [184756, -437580, 360360, -120120, 13860, -252] :=
  toOption_some _ _ (by decide +kernel)

theorem legendre_10 : legendre 10 = [(-63 / 256 : Rat), (0 : Rat), (3465 / 256 : Rat), (0 : Rat), (-15015 / 128 : Rat), (0 : Rat), (45045 / 128 : Rat), (0 : Rat), (-109395 / 256 : Rat), (0 : Rat), (46189 / 256 : Rat)] := by decide +kernel

theorem PnMu_closed_10 (mu : Rat) : PnMu mu 10 = .ok (peval (legendre 10) mu) := by
  rw [PnMu_eq_eval mu 10 _ pnCoeffs_10, legendre_10]
  simp [evalTerms, peval, List.range, List.range.loop]
  try ring

theorem evens_legendre_10 : evens (legendre 10) = [(-63 / 256 : Rat), (3465 / 256 : Rat), (-15015 / 128 : Rat), (45045 / 128 : Rat), (-109395 / 256 : Rat), (46189 / 256 : Rat)] := by decide +kernel

theorem Pn_closed_10 (x : Rat) : Pn x 10 = .ok (peval (evens (legendre 10)) x) := by
  rw [Pn_eq_eval x 10 rfl _ pnCoeffs_10, evens_legendre_10]
  simp [evalTerms, peval, List.range, List.range.loop]
  try ring

/-! ### `np.linspace` / `get_k_mu_edges` -/

theorem linspace_length (a b : Rat) (num : Nat) : (linspace a b num).length = num := by
  unfold linspace
  split <;> simp

theorem linspace_pairwise (a b : Rat) (h : a < b) (num : Nat) : (linspace a b num).Pairwise (· < ·) := by
  unfold linspace
  split
  · exact List.Pairwise.nil
  · exact List.pairwise_singleton _ _
  · rename_i m
    have hm : (0 : Rat) < ((m + 1 : Nat) : Rat) := by exact_mod_cast Nat.succ_pos m
    have hstep : 0 < (b - a) / ((m + 1 : Nat) : Rat) := div_pos (by linarith) hm
    rw [List.pairwise_append]
    refine ⟨?_, List.pairwise_singleton _ _, ?_⟩
    · rw [List.pairwise_map]
      apply List.Pairwise.imp _ List.pairwise_lt_range
      intro i j hij
      have : (i : Rat) < (j : Rat) := by exact_mod_cast hij
      nlinarith
    · intro x hx y hy
      rw [List.mem_singleton] at hy
      rw [hy]
      obtain ⟨i, hi, rfl⟩ := List.mem_map.mp hx
      have hi' : (i : Rat) < ((m + 1 : Nat) : Rat) := by exact_mod_cast List.mem_range.mp hi
      have : (i : Rat) * ((b - a) / ((m + 1 : Nat) : Rat)) < (b - a) := by
        rw [mul_div_assoc', div_lt_iff₀ hm]
        nlinarith
      linarith

theorem linspace_ge (a b : Rat) (h : a ≤ b) (num : Nat) : ∀ x ∈ linspace a b num, a ≤ x := by
  unfold linspace
  split
  · simp
  · simp
  · rename_i m
    intro x hx
    rcases List.mem_append.mp hx with hx | hx
    · obtain ⟨i, _, rfl⟩ := List.mem_map.mp hx
      have hm : (0 : Rat) < ((m + 1 : Nat) : Rat) := by exact_mod_cast Nat.succ_pos m
      have : 0 ≤ (i : Rat) * ((b - a) / ((m + 1 : Nat) : Rat)) :=
        mul_nonneg (by exact_mod_cast Nat.zero_le i) (div_nonneg (by linarith) (le_of_lt hm))
      linarith
    · rw [List.mem_singleton] at hx; rw [hx]; exact h

theorem linspace_head (a b : Rat) (num : Nat) (h : 1 ≤ num) : (linspace a b num).head? = some a := by
  unfold linspace
  split
  · omega
  · rfl
  · simp [List.range_succ_eq_map]

theorem linspace_getLast (a b : Rat) (num : Nat) (h : 2 ≤ num) : (linspace a b num).getLast? = some b := by
  unfold linspace
  split
  · omega
  · omega
  · simp

theorem sqEdges_pairwise (dk : Rat) (hdk : 0 < dk) (e : List Rat) (h0 : ∀ x ∈ e, 0 ≤ x)
    (h : e.Pairwise (· < ·)) : (sqEdges dk e).Pairwise (· < ·) := by
  unfold sqEdges
  rw [List.pairwise_map]
  induction e with
  | nil => exact List.Pairwise.nil
  | cons x xs ih =>
    rw [List.pairwise_cons] at h ⊢
    refine ⟨?_, ih (fun y hy => h0 y (List.mem_cons_of_mem _ hy)) h.2⟩
    intro y hy
    have hx := h0 x (List.mem_cons_self ..)
    have hxy := h.1 y hy
    have h1 : 0 ≤ x / dk := div_nonneg hx (le_of_lt hdk)
    have h2 : x / dk < y / dk := div_lt_div_of_pos_right hxy hdk
    nlinarith

/-! ### the fold of the sibling loops -/

theorem foldOld_eq_fold (n i : Nat) (h : ¬ (n % 2 = 1 ∧ i = n / 2)) : foldOld n i = fold n i := by
  unfold foldOld fold
  split <;> split <;> omega

/-- for an odd mesh the sibling loops send the largest positive frequency `(n-1)/2` to `-(n+1)/2` -/
theorem foldOld_odd_middle (n : Nat) (h : n % 2 = 1) :
    fold n (n / 2) = ((n / 2 : Nat) : Int) ∧ foldOld n (n / 2) = -((n / 2 : Nat) : Int) - 1 := by
  unfold foldOld fold
  constructor
  · rw [if_pos (by omega)]
  · rw [if_neg (by omega)]; omega

end AbacusVerif.Binning
