/-
  Helper lemmas for the two-pass model (Props/C10.lean holds the property theorems).
-/
import AbacusVerif.Model.C10
import AbacusVerif.Lemmas.Num

namespace AbacusVerif.TwoPass
open AbacusVerif

/-! ### accesses -/

theorem idx_ok {n i : Nat} (h : i < n) : idx n (i : Int) = .ok i := by
  unfold idx; rw [pyIndex_nonneg h]

theorem readAt_nat {α} (a : List α) (i : Nat) :
    readAt a (i : Int) = match a[i]? with | some x => .ok x | none => .error .oob := by
  unfold readAt
  by_cases h : i < a.length
  · rw [idx_ok h]
    rfl
  · have hp : pyIndex a.length (i : Int) = none := by
      unfold pyIndex
      have : (0 : Int) ≤ (i : Int) := by omega
      simp [this, h]
    simp only [idx, hp]
    rw [List.getElem?_eq_none (by omega)]

theorem readAt_ok {α} (a : List α) (i : Nat) (h : i < a.length) : readAt a (i : Int) = .ok a[i] := by
  rw [readAt_nat, List.getElem?_eq_getElem h]

theorem readAt_cons_succ {α} (x : α) (a : List α) (i : Nat) :
    readAt (x :: a) ((i : Int) + 1) = readAt a (i : Int) := by
  have : (i : Int) + 1 = ((i + 1 : Nat) : Int) := by omega
  rw [this, readAt_nat, readAt_nat]
  simp

theorem readAt_cons_zero {α} (x : α) (a : List α) : readAt (x :: a) ((0 : Nat) : Int) = .ok x := by
  rw [readAt_nat]; simp

theorem readAt_neg_one {α} (a : List α) (h : a ≠ []) : readAt a (-1) = .ok (a.getLast h) := by
  have hpos : 0 < a.length := List.length_pos_iff.mpr h
  unfold readAt idx
  rw [pyIndex_neg_one hpos]
  have hl : a.length - 1 < a.length := by omega
  simp only [List.getElem?_eq_getElem hl]
  rw [List.getLast_eq_getElem]

/-! ### mapE / foldE -/

theorem mapE_ok {α β} (f : α → Except Fault β) (g : α → β) (l : List α)
    (h : ∀ x ∈ l, f x = .ok (g x)) : mapE f l = .ok (l.map g) := by
  induction l with
  | nil => rfl
  | cons a l ih =>
    have ha := h a (by simp)
    have := ih (fun x hx => h x (by simp [hx]))
    simp [mapE, ha, this]

theorem mapE_congr {α β} (f f' : α → Except Fault β) (l : List α)
    (h : ∀ x ∈ l, f x = f' x) : mapE f l = mapE f' l := by
  induction l with
  | nil => rfl
  | cons a l ih =>
    have ha := h a (by simp)
    have := ih (fun x hx => h x (by simp [hx]))
    simp [mapE, ha, this]

theorem mapE_map {α β γ} (f : β → Except Fault γ) (g : α → β) (l : List α) :
    mapE f (l.map g) = mapE (fun x => f (g x)) l := by
  induction l with
  | nil => rfl
  | cons a l ih => simp [mapE, ih]

theorem mapE_append {α β} (f : α → Except Fault β) (l1 l2 : List α) (r1 r2 : List β)
    (h1 : mapE f l1 = .ok r1) (h2 : mapE f l2 = .ok r2) : mapE f (l1 ++ l2) = .ok (r1 ++ r2) := by
  induction l1 generalizing r1 with
  | nil => simp [mapE] at h1; subst h1; simpa using h2
  | cons a l ih =>
    simp only [mapE, List.cons_append] at h1 ⊢
    cases hfa : f a with
    | error e => simp [hfa] at h1
    | ok y =>
      simp only [hfa] at h1 ⊢
      cases hr : mapE f l with
      | error e => simp [hr] at h1
      | ok ys =>
        simp only [hr] at h1
        rw [ih ys hr]
        cases h1
        rfl

/-- `range (n+1)` as a head and a shifted tail: the recursion over thread ids -/
theorem mapE_range_succ {β} (f : Nat → Except Fault β) (n : Nat) :
    mapE f (List.range (n + 1)) =
      match f 0 with
      | .error e => .error e
      | .ok y =>
        match mapE (fun t => f (t + 1)) (List.range n) with
        | .error e => .error e
        | .ok ys => .ok (y :: ys) := by
  rw [List.range_succ_eq_map, mapE, mapE_map]
  rfl

/-! ### write lists -/

theorem applyWrites_nil {β} (a : List β) : applyWrites a [] = a := rfl

theorem applyWrites_cons {β} (a : List β) (w : Nat × β) (ws : List (Nat × β)) :
    applyWrites a (w :: ws) = applyWrites (a.set w.1 w.2) ws := rfl

theorem applyWrites_append {β} (a : List β) (w1 w2 : List (Nat × β)) :
    applyWrites a (w1 ++ w2) = applyWrites (applyWrites a w1) w2 := by
  simp [applyWrites, List.foldl_append]

theorem applyWrites_length {β} (a : List β) (ws : List (Nat × β)) :
    (applyWrites a ws).length = a.length := by
  induction ws generalizing a with
  | nil => rfl
  | cons w ws ih => rw [applyWrites_cons, ih]; simp

/-- writes to cells other than `i` leave cell `i` alone -/
theorem applyWrites_getElem?_of_not_mem {β} (a : List β) (ws : List (Nat × β)) (i : Nat)
    (h : i ∉ ws.map (·.1)) : (applyWrites a ws)[i]? = a[i]? := by
  induction ws generalizing a with
  | nil => rfl
  | cons w ws ih =>
    simp only [List.map_cons, List.mem_cons, not_or] at h
    rw [applyWrites_cons, ih _ h.2, List.getElem?_set_ne (Ne.symm h.1)]

/-- the cells written by `place s rows`: `s, s+1, …`, the k-th one holds the k-th row -/
def place : Nat → List Nat → List (Nat × Option Nat)
  | _, [] => []
  | s, r :: rs => (s, some r) :: place (s + 1) rs

theorem place_append (s : Nat) (a b : List Nat) :
    place s (a ++ b) = place s a ++ place (s + a.length) b := by
  induction a generalizing s with
  | nil => simp [place]
  | cons r rs ih => simp [place, ih, Nat.add_assoc, Nat.add_comm 1]

theorem place_fst (s : Nat) (rows : List Nat) : (place s rows).map (·.1) = List.range' s rows.length := by
  induction rows generalizing s with
  | nil => rfl
  | cons r rs ih => simp [place, ih, List.range'_succ]

theorem applyWrites_place (s : Nat) (rows : List Nat) (a : List (Option Nat)) (h : s + rows.length ≤ a.length) :
    applyWrites a (place s rows) = a.take s ++ rows.map some ++ a.drop (s + rows.length) := by
  induction rows generalizing s a with
  | nil => simp [place, applyWrites_nil]
  | cons r rs ih =>
    simp only [List.length_cons] at h
    rw [place, applyWrites_cons, ih (s + 1) _ (by simp; omega)]
    simp only [List.length_cons, List.map_cons]
    have h1 : (a.set s (some r)).take (s + 1) = a.take s ++ [some r] := by
      rw [List.take_set, List.take_succ_eq_append_getElem (show s < a.length by omega),
        List.set_append_right _ _ (by simp)]
      simp [List.length_take, Nat.min_eq_left (show s ≤ a.length by omega)]
    have h2 : (a.set s (some r)).drop (s + 1 + rs.length) = a.drop (s + (rs.length + 1)) := by
      rw [List.drop_set_of_lt (by omega)]
      congr 1; omega
    rw [h1, h2]
    simp

theorem applyWrites_place_full (rows : List Nat) :
    applyWrites (List.replicate rows.length none) (place 0 rows) = rows.map some := by
  rw [applyWrites_place 0 rows _ (by simp)]
  simp

/-! ### counters -/

def Cls (c : Nat) : Prop := c = 1 ∨ c = 2 ∨ c = 3

/-- the pure effect of one kept row on the counters -/
def Cur.bump (s : Cur) (k : Nat) : Cur :=
  if k = 1 then { s with j1 := s.j1 + 1 }
  else if k = 2 then { s with j2 := s.j2 + 1 }
  else if k = 3 then { s with j3 := s.j3 + 1 }
  else s

theorem Cur.bump_get (s : Cur) (k c : Nat) (hc : Cls c) :
    (s.bump k).get c = s.get c + if k = c then 1 else 0 := by
  rcases hc with rfl | rfl | rfl <;> unfold Cur.bump <;> by_cases h1 : k = 1 <;> by_cases h2 : k = 2 <;>
    by_cases h3 : k = 3 <;> simp_all [Cur.get]

theorem Cur.bump_not_cls (s : Cur) (k : Nat) (h : ¬ Cls k) : s.bump k = s := by
  unfold Cls at h
  unfold Cur.bump
  simp only [not_or] at h
  simp [h.1, h.2.1, h.2.2]

theorem Cur.ext_get (a b : Cur) (h : ∀ c, Cls c → a.get c = b.get c) : a = b := by
  have h1 := h 1 (Or.inl rfl)
  have h2 := h 2 (Or.inr (Or.inl rfl))
  have h3 := h 3 (Or.inr (Or.inr rfl))
  cases a; cases b
  simp_all [Cur.get]

theorem Cur.add_get (a b : Cur) (c : Nat) (hc : Cls c) : (a.add b).get c = a.get c + b.get c := by
  rcases hc with rfl | rfl | rfl <;> rfl

/-- rows of `l` whose keep code is `c` -/
def sel (keep : List Nat) (c : Nat) (l : List Nat) : List Nat :=
  l.filter (fun i => keep[i]? = some c)

theorem sel_append (keep : List Nat) (c : Nat) (l1 l2 : List Nat) :
    sel keep c (l1 ++ l2) = sel keep c l1 ++ sel keep c l2 := by
  simp [sel]

theorem sel_cons (keep : List Nat) (c i : Nat) (l : List Nat) (hi : i < keep.length) :
    sel keep c (i :: l) = if keep[i] = c then i :: sel keep c l else sel keep c l := by
  simp only [sel, List.filter_cons, List.getElem?_eq_getElem hi]
  by_cases h : keep[i] = c <;> simp [h]

theorem pyRange_split (lo mid hi : Nat) (h1 : lo ≤ mid) (h2 : mid ≤ hi) :
    pyRange lo hi = pyRange lo mid ++ pyRange mid hi := by
  unfold pyRange
  have : hi - lo = (mid - lo) + (hi - mid) := by omega
  rw [this, ← List.range'_append_1]
  congr 2
  omega

theorem pyRange_mem {lo hi i : Nat} (h : i ∈ pyRange lo hi) : lo ≤ i ∧ i < hi := by
  unfold pyRange at h
  rw [List.mem_range'_1] at h
  omega

/-! ### one thread of the count pass -/

theorem countStep_ok (keep : List Nat) (c : Cur) (i : Nat) (hi : i < keep.length) :
    countStep keep c i = .ok (c.bump keep[i]) := by
  unfold countStep Cur.bump
  rw [readAt_ok keep i hi]
  simp only
  split_ifs <;> rfl

theorem count_fold (keep : List Nat) (l : List Nat) (cur : Cur) (hl : ∀ i ∈ l, i < keep.length) :
    ∃ cur', foldE (countStep keep) cur l = .ok cur' ∧
      ∀ c, Cls c → cur'.get c = cur.get c + (sel keep c l).length := by
  induction l generalizing cur with
  | nil => exact ⟨cur, rfl, by simp [sel]⟩
  | cons i l ih =>
    have hi := hl i (by simp)
    obtain ⟨cur', h1, h2⟩ := ih (cur.bump keep[i]) (fun j hj => hl j (by simp [hj]))
    refine ⟨cur', ?_, ?_⟩
    · simp only [foldE, countStep_ok keep cur i hi]
      exact h1
    · intro c hc
      rw [h2 c hc, Cur.bump_get _ _ _ hc, sel_cons keep c i l hi]
      by_cases h : keep[i] = c <;> simp [h] <;> omega

/-- the counts of one block -/
def cntB (keep : List Nat) (lo hi : Nat) : Cur :=
  ⟨(sel keep 1 (pyRange lo hi)).length, (sel keep 2 (pyRange lo hi)).length, (sel keep 3 (pyRange lo hi)).length⟩

theorem cntB_get (keep : List Nat) (lo hi c : Nat) (hc : Cls c) :
    (cntB keep lo hi).get c = (sel keep c (pyRange lo hi)).length := by
  rcases hc with rfl | rfl | rfl <;> rfl

theorem countThread_ok (keep : List Nat) (lo hi : Nat) (h : hi ≤ keep.length) :
    countThread keep lo hi = .ok (cntB keep lo hi) := by
  obtain ⟨cur', h1, h2⟩ := count_fold keep (pyRange lo hi) Cur.zero
    (fun i hi' => by have := pyRange_mem hi'; omega)
  unfold countThread
  rw [h1]
  congr 1
  apply Cur.ext_get
  intro c hc
  rw [h2 c hc, cntB_get _ _ _ _ hc]
  rcases hc with rfl | rfl | rfl <;> simp [Cur.zero, Cur.get]

/-! ### one thread of the fill pass -/

theorem fillStep_cls (keep : List Nat) (N : Cur) (st : Cur × List W) (i : Nat) (hi : i < keep.length)
    (hc : Cls keep[i]) (hN : st.1.get keep[i] < N.get keep[i]) :
    fillStep keep N st i = .ok (st.1.bump keep[i], st.2 ++ [(keep[i], st.1.get keep[i], i)]) := by
  unfold fillStep
  rw [readAt_ok keep i hi]
  simp only
  rcases hc with h | h | h <;> rw [h] at hN ⊢ <;> simp only [Cur.get] at hN <;>
    simp [Cur.bump, Cur.get, idx_ok hN]

theorem fillStep_other (keep : List Nat) (N : Cur) (st : Cur × List W) (i : Nat) (hi : i < keep.length)
    (hc : ¬ Cls keep[i]) : fillStep keep N st i = .ok st := by
  unfold fillStep
  rw [readAt_ok keep i hi]
  unfold Cls at hc
  simp only [not_or] at hc
  simp [hc.1, hc.2.1, hc.2.2]

theorem proj_nil (c : Nat) : proj c [] = [] := rfl

theorem proj_cons (c : Nat) (w : W) (ws : List W) :
    proj c (w :: ws) = if w.1 = c then (w.2.1, some w.2.2) :: proj c ws else proj c ws := by
  unfold proj
  by_cases h : w.1 = c <;> simp [h]

theorem proj_append (c : Nat) (w1 w2 : List W) : proj c (w1 ++ w2) = proj c w1 ++ proj c w2 := by
  simp [proj, List.filterMap_append]

theorem fill_fold (keep : List Nat) (N : Cur) (l : List Nat) (cur : Cur) (acc : List W)
    (hl : ∀ i ∈ l, i < keep.length)
    (hN : ∀ c, Cls c → cur.get c + (sel keep c l).length ≤ N.get c) :
    ∃ cur' ws, foldE (fillStep keep N) (cur, acc) l = .ok (cur', acc ++ ws) ∧
      (∀ c, Cls c → cur'.get c = cur.get c + (sel keep c l).length) ∧
      (∀ c, Cls c → proj c ws = place (cur.get c) (sel keep c l)) ∧
      (∀ w ∈ ws, Cls w.1) := by
  induction l generalizing cur acc with
  | nil => exact ⟨cur, [], by simp [foldE], by simp [sel], by simp [sel, proj_nil, place], by simp⟩
  | cons i l ih =>
    have hi := hl i (by simp)
    by_cases hk : Cls keep[i]
    · have hlt : cur.get keep[i] < N.get keep[i] := by
        have := hN _ hk
        rw [sel_cons keep _ i l hi] at this
        simp at this
        omega
      have hN' : ∀ c, Cls c → (cur.bump keep[i]).get c + (sel keep c l).length ≤ N.get c := by
        intro c hc
        have := hN c hc
        rw [sel_cons keep c i l hi] at this
        rw [Cur.bump_get _ _ _ hc]
        by_cases h : keep[i] = c <;> simp [h] at this ⊢ <;> omega
      obtain ⟨cur', ws, h1, h2, h3, h4⟩ := ih (cur.bump keep[i]) (acc ++ [(keep[i], cur.get keep[i], i)])
        (fun j hj => hl j (by simp [hj])) hN'
      refine ⟨cur', (keep[i], cur.get keep[i], i) :: ws, ?_, ?_, ?_, ?_⟩
      · simp only [foldE, fillStep_cls keep N (cur, acc) i hi hk hlt]
        rw [h1]; simp
      · intro c hc
        rw [h2 c hc, Cur.bump_get _ _ _ hc, sel_cons keep c i l hi]
        by_cases h : keep[i] = c <;> simp [h] <;> omega
      · intro c hc
        rw [proj_cons, h3 c hc, Cur.bump_get _ _ _ hc, sel_cons keep c i l hi]
        by_cases h : keep[i] = c
        · subst h; simp [place]
        · simp [h]
      · intro w hw
        simp only [List.mem_cons] at hw
        rcases hw with rfl | hw
        · exact hk
        · exact h4 w hw
    · have hN' : ∀ c, Cls c → cur.get c + (sel keep c l).length ≤ N.get c := by
        intro c hc
        have := hN c hc
        rw [sel_cons keep c i l hi] at this
        by_cases h : keep[i] = c
        · subst h; exact absurd hc hk
        · simpa [h] using this
      obtain ⟨cur', ws, h1, h2, h3, h4⟩ := ih cur acc (fun j hj => hl j (by simp [hj])) hN'
      refine ⟨cur', ws, ?_, ?_, ?_, h4⟩
      · simp only [foldE, fillStep_other keep N (cur, acc) i hi hk]
        exact h1
      · intro c hc
        rw [h2 c hc, sel_cons keep c i l hi]
        have : keep[i] ≠ c := by intro h; subst h; exact hk hc
        simp [this]
      · intro c hc
        rw [h3 c hc, sel_cons keep c i l hi]
        have : keep[i] ≠ c := by intro h; subst h; exact hk hc
        simp [this]

/-! ### the thread loops, by recursion over the boundary list -/

/-- the last boundary of `s :: b'` -/
def lastB (s : Nat) (b' : List Nat) : Nat := (s :: b').getLast (List.cons_ne_nil s b')

theorem lastB_nil (s : Nat) : lastB s [] = s := rfl

theorem lastB_cons (s hi : Nat) (r : List Nat) : lastB s (hi :: r) = lastB hi r := by
  unfold lastB; rw [List.getLast_cons_cons]

theorem le_lastB (s : Nat) (b' : List Nat) (hp : (s :: b').Pairwise (· ≤ ·)) : s ≤ lastB s b' := by
  have hm : lastB s b' ∈ s :: b' := List.getLast_mem _
  rcases List.mem_cons.mp hm with h | h
  · omega
  · exact List.rel_of_pairwise_cons hp h

/-- `Nout` as a pure function of the boundaries -/
def countsOf (keep : List Nat) : Nat → List Nat → List Cur
  | _, [] => []
  | s, hi :: r => cntB keep s hi :: countsOf keep hi r

theorem natCast_succ_int (t : Nat) : ((t + 1 : Nat) : Int) = (t : Int) + 1 := by omega

theorem readAt_cons_succ2 {α} (x : α) (a : List α) (i : Nat) :
    readAt (x :: a) ((i : Int) + 1 + 1) = readAt a ((i : Int) + 1) := by
  rw [← natCast_succ_int, readAt_cons_succ, natCast_succ_int]

theorem countBody_succ (keep : List Nat) (s : Nat) (b : List Nat) (t : Nat) :
    countBody keep (s :: b) (t + 1) = countBody keep b t := by
  unfold countBody
  rw [natCast_succ_int, readAt_cons_succ, readAt_cons_succ2]

theorem countPass_cons (keep : List Nat) (s hi : Nat) (r : List Nat) (T : Nat) :
    countPass keep (s :: hi :: r) (T + 1) =
      match countThread keep s hi with
      | .error e => .error e
      | .ok c =>
        match countPass keep (hi :: r) T with
        | .error e => .error e
        | .ok cs => .ok (c :: cs) := by
  unfold countPass
  rw [mapE_range_succ]
  have h0 : countBody keep (s :: hi :: r) 0 = countThread keep s hi := by
    unfold countBody
    have h0 : readAt (s :: hi :: r) ((0 : Nat) : Int) = .ok s := readAt_cons_zero _ _
    have h1 : readAt (s :: hi :: r) (((0 : Nat) : Int) + 1) = .ok hi := by
      rw [readAt_cons_succ]; exact readAt_cons_zero _ _
    rw [h0, h1]
  rw [h0, mapE_congr _ (countBody keep (hi :: r)) _ (fun t _ => countBody_succ keep s (hi :: r) t)]
  cases countThread keep s hi with
  | error e => rfl
  | ok y => cases mapE (countBody keep (hi :: r)) (List.range T) <;> rfl

theorem count_ok (keep : List Nat) (b' : List Nat) (s : Nat)
    (hle : ∀ x ∈ s :: b', x ≤ keep.length) :
    countPass keep (s :: b') b'.length = .ok (countsOf keep s b') := by
  induction b' generalizing s with
  | nil => rfl
  | cons hi r ih =>
    rw [List.length_cons, countPass_cons, countThread_ok keep s hi (hle hi (by simp)),
      ih hi (fun x hx => hle x (by simp [hx]))]
    rfl

theorem fillBody_succ (keep : List Nat) (N : Cur) (s : Nat) (b : List Nat) (g : Cur) (gs : List Cur) (t : Nat) :
    fillBody keep (s :: b) (g :: gs) N (t + 1) = fillBody keep b gs N t := by
  unfold fillBody
  rw [natCast_succ_int, readAt_cons_succ, readAt_cons_succ, readAt_cons_succ2]

theorem fillPass_cons (keep : List Nat) (N : Cur) (s hi : Nat) (r : List Nat) (g : Cur) (gs : List Cur)
    (T : Nat) :
    fillPass keep (s :: hi :: r) (T + 1) (g :: gs) N =
      match fillThread keep N g s hi with
      | .error e => .error e
      | .ok f =>
        match fillPass keep (hi :: r) T gs N with
        | .error e => .error e
        | .ok fs => .ok (f :: fs) := by
  unfold fillPass
  rw [mapE_range_succ]
  have h0 : fillBody keep (s :: hi :: r) (g :: gs) N 0 = fillThread keep N g s hi := by
    unfold fillBody
    have h0 : readAt (s :: hi :: r) ((0 : Nat) : Int) = .ok s := readAt_cons_zero _ _
    have h1 : readAt (s :: hi :: r) (((0 : Nat) : Int) + 1) = .ok hi := by
      rw [readAt_cons_succ]; exact readAt_cons_zero _ _
    have h2 : readAt (g :: gs) ((0 : Nat) : Int) = .ok g := readAt_cons_zero _ _
    rw [h0, h1, h2]
  rw [h0, mapE_congr _ (fillBody keep (hi :: r) gs N) _ (fun t _ => fillBody_succ keep N s (hi :: r) g gs t)]
  cases fillThread keep N g s hi with
  | error e => rfl
  | ok y => cases mapE (fillBody keep (hi :: r) gs N) (List.range T) <;> rfl

theorem prefixSums_ne_nil (acc : Cur) (cs : List Cur) : prefixSums acc cs ≠ [] := by
  cases cs <;> simp [prefixSums]

theorem sel_split (keep : List Nat) (c lo mid hi : Nat) (h1 : lo ≤ mid) (h2 : mid ≤ hi) :
    sel keep c (pyRange lo hi) = sel keep c (pyRange lo mid) ++ sel keep c (pyRange mid hi) := by
  rw [pyRange_split lo mid hi h1 h2, sel_append]

theorem pyRange_self (s : Nat) : pyRange s s = [] := by simp [pyRange]

/-- the last row of `gstart`: the totals -/
theorem prefixSums_last (keep : List Nat) (b' : List Nat) (s : Nat) (acc : Cur)
    (hp : (s :: b').Pairwise (· ≤ ·)) (c : Nat) (hc : Cls c) :
    ((prefixSums acc (countsOf keep s b')).getLast (prefixSums_ne_nil _ _)).get c =
      acc.get c + (sel keep c (pyRange s (lastB s b'))).length := by
  induction b' generalizing s acc with
  | nil => simp [countsOf, prefixSums, lastB_nil, pyRange_self, sel]
  | cons hi r ih =>
    have hp' : (hi :: r).Pairwise (· ≤ ·) := (List.pairwise_cons.mp hp).2
    have hshi : s ≤ hi := List.rel_of_pairwise_cons hp (by simp)
    have hhl : hi ≤ lastB hi r := le_lastB hi r hp'
    simp only [countsOf, prefixSums, lastB_cons]
    rw [List.getLast_cons (prefixSums_ne_nil _ _), ih hi _ hp', Cur.add_get _ _ _ hc, cntB_get _ _ _ _ hc,
      sel_split keep c s hi (lastB hi r) hshi hhl, List.length_append]
    omega

theorem fill_ok (keep : List Nat) (N : Cur) (b' : List Nat) (s : Nat) (acc : Cur)
    (hp : (s :: b').Pairwise (· ≤ ·)) (hle : ∀ x ∈ s :: b', x ≤ keep.length)
    (hN : ∀ c, Cls c → acc.get c + (sel keep c (pyRange s (lastB s b'))).length ≤ N.get c) :
    ∃ fills, fillPass keep (s :: b') b'.length (prefixSums acc (countsOf keep s b')) N = .ok fills ∧
      (∀ c, Cls c → proj c (fills.flatMap (·.2)) = place (acc.get c) (sel keep c (pyRange s (lastB s b')))) ∧
      fills.map (·.1) = (prefixSums acc (countsOf keep s b')).tail ∧
      (∀ f ∈ fills, ∀ w ∈ f.2, Cls w.1) := by
  induction b' generalizing s acc with
  | nil =>
    refine ⟨[], rfl, ?_, rfl, by simp⟩
    intro c _
    simp [lastB_nil, pyRange_self, sel, place, proj_nil]
  | cons hi r ih =>
    have hp' : (hi :: r).Pairwise (· ≤ ·) := (List.pairwise_cons.mp hp).2
    have hshi : s ≤ hi := List.rel_of_pairwise_cons hp (by simp)
    have hhl : hi ≤ lastB hi r := le_lastB hi r hp'
    have hhi : hi ≤ keep.length := hle hi (by simp)
    rw [lastB_cons] at hN
    -- this thread
    obtain ⟨cur', ws, h1, h2, h3, h4⟩ := fill_fold keep N (pyRange s hi) acc []
      (fun i hi' => by have := pyRange_mem hi'; omega)
      (fun c hc => by
        have := hN c hc
        rw [sel_split keep c s hi (lastB hi r) hshi hhl, List.length_append] at this
        omega)
    have hcur : cur' = acc.add (cntB keep s hi) := by
      apply Cur.ext_get
      intro c hc
      rw [h2 c hc, Cur.add_get _ _ _ hc, cntB_get _ _ _ _ hc]
    subst hcur
    -- the remaining threads
    obtain ⟨fs, g1, g2, g3, g4⟩ := ih hi (acc.add (cntB keep s hi)) hp' (fun x hx => hle x (by simp [hx]))
      (fun c hc => by
        have := hN c hc
        rw [sel_split keep c s hi (lastB hi r) hshi hhl, List.length_append] at this
        rw [Cur.add_get _ _ _ hc, cntB_get _ _ _ _ hc]
        omega)
    refine ⟨(acc.add (cntB keep s hi), ws) :: fs, ?_, ?_, ?_, ?_⟩
    · simp only [countsOf, prefixSums, List.length_cons]
      rw [fillPass_cons]
      unfold fillThread
      rw [h1, g1]
      simp
    · intro c hc
      simp only [List.flatMap_cons, lastB_cons]
      rw [proj_append, h3 c hc, g2 c hc, Cur.add_get _ _ _ hc, cntB_get _ _ _ _ hc,
        sel_split keep c s hi (lastB hi r) hshi hhl, place_append]
    · simp only [countsOf, prefixSums, List.map_cons, List.tail_cons]
      rw [g3]
      cases hcs : countsOf keep hi r <;> simp [prefixSums]
    · intro f hf w hw
      simp only [List.mem_cons] at hf
      rcases hf with rfl | hf
      · exact h4 w hw
      · exact g4 f hf w hw

/-! ### order independence of writes to distinct cells -/

/-- **applyWrites_perm.** If the cells of a write list are pairwise distinct, every permutation of the list
(every order in which the threads' writes may reach memory) produces the same array. -/
theorem applyWrites_perm {β} {ws ws' : List (Nat × β)} (hperm : ws.Perm ws')
    (hnd : (ws.map (·.1)).Nodup) (a : List β) : applyWrites a ws = applyWrites a ws' := by
  induction hperm generalizing a with
  | nil => rfl
  | cons x _ ih =>
    rw [applyWrites_cons, applyWrites_cons]
    exact ih (List.nodup_cons.mp (by simpa using hnd)).2 _
  | swap x y l =>
    simp only [applyWrites_cons]
    have hne : x.1 ≠ y.1 := by
      simp only [List.map_cons, List.nodup_cons, List.mem_cons, not_or] at hnd
      exact fun h => hnd.1.1 h.symm
    rw [List.set_comm _ _ (Ne.symm hne)]
  | trans h1 _ ih1 ih2 =>
    rw [ih1 hnd, ih2 ((h1.map _).nodup_iff.mp hnd)]

/-! ### block sequences -/

theorem pairwise_le_getLast (l : List Nat) (h : l ≠ []) (hp : l.Pairwise (· ≤ ·)) :
    ∀ x ∈ l, x ≤ l.getLast h := by
  induction l with
  | nil => exact absurd rfl h
  | cons a l ih =>
    intro x hx
    by_cases hl : l = []
    · subst hl; simp at hx; simp [hx]
    · rw [List.getLast_cons hl]
      rcases List.mem_cons.mp hx with rfl | hx
      · exact List.rel_of_pairwise_cons hp (List.getLast_mem hl)
      · exact ih hl (List.pairwise_cons.mp hp).2 x hx

theorem BlockSeq.decomp {b : List Nat} {T H : Nat} (hb : BlockSeq b T H) :
    ∃ b', b = 0 :: b' ∧ b'.length = T ∧ lastB 0 b' = H ∧ (0 :: b').Pairwise (· ≤ ·) ∧
      ∀ x ∈ 0 :: b', x ≤ H := by
  obtain ⟨hlen, hhead, hlast, hp⟩ := hb
  cases b with
  | nil => simp at hlen
  | cons x b' =>
    simp only [List.head?_cons, Option.some.injEq] at hhead
    subst hhead
    have hl : lastB 0 b' = H := by
      unfold lastB
      rw [List.getLast?_eq_some_getLast (List.cons_ne_nil 0 b')] at hlast
      exact Option.some.inj hlast
    refine ⟨b', rfl, by simpa using hlen, hl, hp, ?_⟩
    intro x hx
    rw [← hl]
    exact pairwise_le_getLast (0 :: b') (List.cons_ne_nil _ _) hp x hx

theorem rowsOf_eq_sel (keep : List Nat) (c : Nat) : rowsOf keep c = sel keep c (pyRange 0 keep.length) := by
  simp [rowsOf, sel, pyRange, List.range_eq_range']

theorem prefixSums_length (acc : Cur) (cs : List Cur) : (prefixSums acc cs).length = cs.length + 1 := by
  induction cs generalizing acc with
  | nil => rfl
  | cons x xs ih => simp [prefixSums, ih]

theorem countsOf_length (keep : List Nat) (s : Nat) (b' : List Nat) : (countsOf keep s b').length = b'.length := by
  induction b' generalizing s with
  | nil => rfl
  | cons hi r ih => simp [countsOf, ih]

/-! ### fast_concatenate -/

/-- a write list with its values wrapped in `some` (cells of a fresh `np.empty` are `none`) -/
def optW {α} (ws : List (Nat × α)) : List (Nat × Option α) := ws.map (fun w => (w.1, some w.2))

theorem optW_append {α} (a b : List (Nat × α)) : optW (a ++ b) = optW a ++ optW b := by simp [optW]

theorem optW_flatten_cons {α} (w : List (Nat × α)) (ws : List (List (Nat × α))) :
    optW (w :: ws).flatten = optW w ++ optW ws.flatten := by simp [optW]

theorem readAt_toNat {α} (a : List α) (z : Int) (h0 : 0 ≤ z) (h1 : z.toNat < a.length) :
    readAt a z = .ok a[z.toNat] := by
  obtain ⟨n, rfl⟩ := Int.eq_ofNat_of_zero_le h0
  simp only [Int.toNat_natCast] at h1 ⊢
  exact readAt_ok a n h1

theorem copyLoop_ok {α} (a : List α) (len : Nat) (shift : Int) (off : Nat) (l : List Nat)
    (h : ∀ i ∈ l, 0 ≤ (i : Int) + shift ∧ ((i : Int) + shift).toNat < a.length ∧ i + off < len) :
    ∃ ws, copyLoop a len shift off l = .ok ws ∧
      optW ws = l.map (fun (i : Nat) => (i + off, a[((i : Int) + shift).toNat]?)) := by
  induction l with
  | nil => exact ⟨[], rfl, rfl⟩
  | cons i l ih =>
    obtain ⟨ws, h1, h2⟩ := ih (fun j hj => h j (by simp [hj]))
    obtain ⟨a0, a1, a2⟩ := h i (by simp)
    refine ⟨(i + off, a[((i : Int) + shift).toNat]) :: ws, ?_, ?_⟩
    · unfold copyLoop at h1 ⊢
      simp only [mapE, readAt_toNat a _ a0 a1, idx_ok a2, h1]
    · simp only [optW, List.map_cons] at h2 ⊢
      rw [h2, List.getElem?_eq_getElem a1]

theorem blockCopy_succ {α} (a : List α) (len : Nat) (shift : Int) (s : Nat) (h : List Nat) (t : Nat) :
    blockCopy a len shift (s :: h) ((t + 1 : Nat) : Int) = blockCopy a len shift h (t : Int) := by
  unfold blockCopy
  rw [natCast_succ_int, readAt_cons_succ, readAt_cons_succ2]

/-- all threads of one half: the blocks of `s :: h'` tile `[s, last)` and every cell is copied once, in order -/
theorem blockCopy_all {α} (a : List α) (len : Nat) (shift : Int) (h' : List Nat) (s : Nat)
    (hp : (s :: h').Pairwise (· ≤ ·))
    (hr : ∀ i, s ≤ i → i < lastB s h' →
      0 ≤ (i : Int) + shift ∧ ((i : Int) + shift).toNat < a.length ∧ i < len) :
    ∃ wss, mapE (fun (t : Nat) => blockCopy a len shift (s :: h') (t : Int)) (List.range h'.length) = .ok wss ∧
      wss.length = h'.length ∧
      optW wss.flatten = (pyRange s (lastB s h')).map (fun (i : Nat) => (i, a[((i : Int) + shift).toNat]?)) := by
  induction h' generalizing s with
  | nil => exact ⟨[], rfl, rfl, by simp [lastB_nil, pyRange_self, optW]⟩
  | cons hi r ih =>
    have hp' : (hi :: r).Pairwise (· ≤ ·) := (List.pairwise_cons.mp hp).2
    have hshi : s ≤ hi := List.rel_of_pairwise_cons hp (by simp)
    have hhl : hi ≤ lastB hi r := le_lastB hi r hp'
    rw [lastB_cons] at hr ⊢
    obtain ⟨ws, w1, w2⟩ := copyLoop_ok a len shift 0 (pyRange s hi) (fun i hi' => by
      have := pyRange_mem hi'
      have := hr i (by omega) (by omega)
      simpa using this)
    obtain ⟨wss, g1, g2, g3⟩ := ih hi hp' (fun i h1 h2 => hr i (by omega) h2)
    refine ⟨ws :: wss, ?_, by simp [g2], ?_⟩
    · rw [List.length_cons, mapE_range_succ]
      have h0 : blockCopy a len shift (s :: hi :: r) ((0 : Nat) : Int) = .ok ws := by
        unfold blockCopy
        have e0 : readAt (s :: hi :: r) ((0 : Nat) : Int) = .ok s := readAt_cons_zero _ _
        have e1 : readAt (s :: hi :: r) (((0 : Nat) : Int) + 1) = .ok hi := by
          rw [readAt_cons_succ]; exact readAt_cons_zero _ _
        rw [e0, e1]; exact w1
      rw [h0, mapE_congr _ (fun (t : Nat) => blockCopy a len shift (hi :: r) (t : Int)) _
        (fun t _ => blockCopy_succ a len shift s (hi :: r) t), g1]
    · rw [optW_flatten_cons, w2, g3, pyRange_split s hi (lastB hi r) hshi hhl, List.map_append]
      simp

/-- writing `g k` to every cell `k < n` of an array of length `n`, in increasing order, yields `map g (range n)` -/
theorem applyWrites_range {β} (g : Nat → β) (n : Nat) (a : List β) (ha : a.length = n) :
    applyWrites a ((List.range n).map (fun k => (k, g k))) = (List.range n).map g := by
  apply List.ext_getElem
  · simp [applyWrites_length, ha]
  · intro i h1 h2
    simp only [List.length_map, List.length_range] at h2
    simp only [List.getElem_map, List.getElem_range]
    have key : ∀ m, m ≤ n → ∀ (hh : i < (applyWrites a ((List.range m).map (fun k => (k, g k)))).length),
        i < m → (applyWrites a ((List.range m).map (fun k => (k, g k))))[i] = g i := by
      intro m
      induction m with
      | zero => intro _ _ hi; omega
      | succ m ih =>
        intro hm hh hi
        have e : applyWrites a ((List.range (m+1)).map (fun k => (k, g k))) =
            (applyWrites a ((List.range m).map (fun k => (k, g k)))).set m (g m) := by
          rw [List.range_succ, List.map_append, applyWrites_append]
          simp [applyWrites]
        simp only [e]
        by_cases him : i = m
        · subst him; simp
        · rw [List.getElem_set_ne (by omega)]
          exact ih (by omega) _ (by omega)
    exact key n (Nat.le_refl n) _ h2

theorem range_getElem?_eq_map_some {α} (l : List α) :
    (List.range l.length).map (fun i => l[i]?) = l.map some := by
  apply List.ext_getElem
  · simp
  · intro i h1 h2
    simp at h1
    simp [List.getElem?_eq_getElem h1]

theorem threadSplit_bounds (N1 N2 T : Nat) (h1 : 0 < N1) (h2 : 0 < N2) (hT : 2 ≤ T) :
    1 ≤ (threadSplit N1 N2 T).1 ∧ (threadSplit N1 N2 T).1 ≤ T - 1 ∧
      (threadSplit N1 N2 T).2 = ((T - (threadSplit N1 N2 T).1 : Nat) : Int) ∧
      1 ≤ T - (threadSplit N1 N2 T).1 := by
  have hlt : T * N1 / (N1 + N2) < T := by
    apply Nat.div_lt_of_lt_mul
    rw [Nat.mul_comm (N1 + N2) T]
    apply Nat.mul_lt_mul_of_pos_left <;> omega
  unfold threadSplit
  simp only
  have : max 1 (T * N1 / (N1 + N2)) ≤ T - 1 := by
    apply Nat.max_le.mpr; constructor <;> omega
  have h1' : 1 ≤ max 1 (T * N1 / (N1 + N2)) := Nat.le_max_left _ _
  refine ⟨h1', this, by omega, by omega⟩

/-! ### searchsorted -/

theorem bsearch_ok (a : List Int) (v : Int) (fuel lo hi : Nat) (hh : hi ≤ a.length) :
    ∃ r, bsearch a v fuel lo hi = .ok r ∧ (lo ≤ hi → lo ≤ r ∧ r ≤ hi) ∧ (hi < lo → r = lo) := by
  induction fuel generalizing lo hi with
  | zero => exact ⟨lo, rfl, fun h => ⟨Nat.le_refl _, h⟩, fun _ => rfl⟩
  | succ fuel ih =>
    unfold bsearch
    by_cases hlt : lo < hi
    · simp only [hlt, if_true]
      have hm : (lo + hi) / 2 < a.length := by omega
      rw [readAt_ok a _ hm]
      simp only
      by_cases hx : a[(lo + hi) / 2] < v
      · simp only [hx, if_true]
        obtain ⟨r, h1, h2, _⟩ := ih ((lo + hi) / 2 + 1) hi hh
        refine ⟨r, h1, fun _ => ?_, fun h => by omega⟩
        have := h2 (by omega)
        omega
      · simp only [hx, if_false]
        obtain ⟨r, h1, h2, _⟩ := ih lo ((lo + hi) / 2) (by omega)
        refine ⟨r, h1, fun _ => ?_, fun h => by omega⟩
        have := h2 (by omega)
        omega
    · simp only [hlt, if_false]
      exact ⟨lo, rfl, fun h => ⟨Nat.le_refl _, h⟩, fun _ => rfl⟩

theorem searchsorted_ok (a : List Int) (v : Int) : ∃ r, searchsorted a v = .ok r ∧ r ≤ a.length := by
  obtain ⟨r, h1, h2, _⟩ := bsearch_ok a v (a.length + 1) 0 a.length (Nat.le_refl _)
  exact ⟨r, h1, (h2 (Nat.zero_le _)).2⟩

/-- the value of the (never faulting) search, as a pure function — only used inside proofs -/
def ssVal (a : List Int) (v : Int) : Nat :=
  match searchsorted a v with
  | .ok r => r
  | .error _ => 0

theorem searchsorted_eq (a : List Int) (v : Int) : searchsorted a v = .ok (ssVal a v) := by
  obtain ⟨r, h, _⟩ := searchsorted_ok a v
  simp [ssVal, h]

theorem ssVal_le (a : List Int) (v : Int) : ssVal a v ≤ a.length := by
  obtain ⟨r, h, hr⟩ := searchsorted_ok a v
  simp [ssVal, h, hr]

theorem searchsortedPar_ok (a b : List Int) :
    searchsortedPar a b = .ok ((List.range b.length).zip (b.map (ssVal a))) := by
  unfold searchsortedPar
  rw [mapE_ok _ (fun i => (i, ssVal a (b.getD i 0)))]
  · congr 1
    apply List.ext_getElem
    · simp
    · intro i h1 h2
      simp at h1
      simp [List.getD_eq_getElem?_getD, List.getElem?_eq_getElem h1]
  · intro i hi
    have hi' : i < b.length := List.mem_range.mp hi
    rw [readAt_ok b i hi']
    simp only [searchsorted_eq, idx_ok hi']
    simp [List.getD_eq_getElem?_getD, List.getElem?_eq_getElem hi']

/-! ### the concrete boundaries -/

theorem rintLinspace_blockSeq (H T : Nat) (hT : 1 ≤ T) : BlockSeq (rintLinspace H T) T H := by
  have hTq : ((T : Nat) : ℚ) ≠ 0 := by
    have : (0 : ℚ) < ((T : Nat) : ℚ) := by exact_mod_cast hT
    exact ne_of_gt this
  refine ⟨by simp [rintLinspace], ?_, ?_, ?_⟩
  · unfold rintLinspace
    rw [List.range_succ_eq_map]
    simp only [List.map_cons, List.head?_cons, Option.some.injEq]
    have : ((0 * H : Nat) : ℚ) / ((T : Nat) : ℚ) = ((0 : ℤ) : ℚ) := by simp
    rw [this, rhe_int]
    rfl
  · unfold rintLinspace
    rw [List.getLast?_map, List.getLast?_range]
    simp only [Nat.add_eq_zero_iff, Nat.succ_ne_zero, and_false, if_false, Nat.add_sub_cancel, Option.map_some,
      Option.some.injEq]
    have : ((T * H : Nat) : ℚ) / ((T : Nat) : ℚ) = (((H : Nat) : ℤ) : ℚ) := by
      push_cast
      field_simp
    rw [this, rhe_int]
    simp
  · unfold rintLinspace
    rw [List.pairwise_map]
    apply List.Pairwise.imp _ List.pairwise_lt_range
    intro i j hij
    apply Int.toNat_le_toNat
    apply rhe_mono
    apply div_le_div_of_nonneg_right _ (by positivity)
    exact_mod_cast Nat.mul_le_mul_right H (Nat.le_of_lt hij)

/-! ### cells of the concatenation -/

theorem lastB_map_add (s n : Nat) (h' : List Nat) : lastB (s + n) (h'.map (· + n)) = lastB s h' + n := by
  induction h' generalizing s with
  | nil => rfl
  | cons x r ih => simp only [List.map_cons, lastB_cons]; exact ih x

/-- the cells and values of the concatenation, in cell order -/
theorem concat_cells {α} (a1 a2 : List α) :
    (pyRange 0 a1.length).map (fun (i : Nat) => (i, a1[((i : Int) + 0).toNat]?)) ++
      (pyRange a1.length (a1.length + a2.length)).map
        (fun (i : Nat) => (i, a2[((i : Int) + -(a1.length : Int)).toNat]?)) =
    (List.range (a1.length + a2.length)).map (fun i => (i, (a1 ++ a2)[i]?)) := by
  have hr : List.range (a1.length + a2.length) =
      pyRange 0 a1.length ++ pyRange a1.length (a1.length + a2.length) := by
    rw [← pyRange_split 0 a1.length (a1.length + a2.length) (by omega) (by omega)]
    simp [pyRange, List.range_eq_range']
  rw [hr, List.map_append]
  congr 1
  · apply List.map_congr_left
    intro i hi
    have := pyRange_mem hi
    rw [List.getElem?_append_left this.2]
    simp
  · apply List.map_congr_left
    intro i hi
    have := pyRange_mem hi
    rw [List.getElem?_append_right this.1]
    congr 2
    omega

theorem result_of_cells {α} (a1 a2 : List α) (ws : List (Nat × α))
    (h : optW ws = (List.range (a1.length + a2.length)).map (fun i => (i, (a1 ++ a2)[i]?))) :
    ws.map (·.1) = List.range (a1.length + a2.length) ∧
    (FC.fresh (a1.length + a2.length) ws).result a1 a2 = (a1 ++ a2).map some := by
  constructor
  · have : (optW ws).map (·.1) = ws.map (·.1) := by simp [optW]
    rw [← this, h, List.map_map]
    simp [Function.comp_def]
  · show applyWrites (List.replicate (a1.length + a2.length) none) (optW ws) = _
    rw [h, applyWrites_range _ _ _ (by simp), ← List.length_append, range_getElem?_eq_map_some]

/-! ### the rows visited by the threads -/

/-- the rows visited by the threads of a pass, thread 0 first: `range(b_0, b_1) ++ range(b_1, b_2) ++ …` -/
def blockRows : Nat → List Nat → List Nat
  | _, [] => []
  | s, hi :: r => pyRange s hi ++ blockRows hi r

theorem blockRows_eq (s : Nat) (b' : List Nat) (hp : (s :: b').Pairwise (· ≤ ·)) :
    blockRows s b' = pyRange s (lastB s b') := by
  induction b' generalizing s with
  | nil => simp [blockRows, lastB_nil, pyRange_self]
  | cons hi r ih =>
    have hp' : (hi :: r).Pairwise (· ≤ ·) := (List.pairwise_cons.mp hp).2
    have hshi : s ≤ hi := List.rel_of_pairwise_cons hp (by simp)
    rw [blockRows, ih hi hp', lastB_cons, ← pyRange_split s hi _ hshi (le_lastB hi r hp')]

/-! ### the binary search on a sorted table -/

/-- with the loop invariant "everything left of `lo` is `< v`, everything from `hi` on is `≥ v`" and enough
fuel, the search ends at the split point -/
theorem bsearch_sorted (a : List Int) (v : Int) (hs : a.Pairwise (· ≤ ·)) (fuel lo hi : Nat)
    (hh : hi ≤ a.length) (hlh : lo ≤ hi) (hf : hi - lo < fuel)
    (hL : ∀ i x, a[i]? = some x → i < lo → x < v)
    (hR : ∀ i x, a[i]? = some x → hi ≤ i → v ≤ x) :
    ∃ r, bsearch a v fuel lo hi = .ok r ∧ r ≤ a.length ∧
      (∀ i x, a[i]? = some x → i < r → x < v) ∧ (∀ i x, a[i]? = some x → r ≤ i → v ≤ x) := by
  induction fuel generalizing lo hi with
  | zero => omega
  | succ fuel ih =>
    unfold bsearch
    by_cases hlt : lo < hi
    · simp only [hlt, if_true]
      have hm : (lo + hi) / 2 < a.length := by omega
      rw [readAt_ok a _ hm]
      simp only
      have hsorted := List.pairwise_iff_getElem.mp hs
      by_cases hx : a[(lo + hi) / 2] < v
      · simp only [hx, if_true]
        apply ih ((lo + hi) / 2 + 1) hi hh (by omega) (by omega) _ hR
        intro i x hix hi'
        obtain ⟨hil, rfl⟩ := List.getElem?_eq_some_iff.mp hix
        by_cases he : i = (lo + hi) / 2
        · subst he; exact hx
        · have := hsorted i ((lo + hi) / 2) hil hm (by omega)
          omega
      · simp only [hx, if_false]
        apply ih lo ((lo + hi) / 2) (by omega) (by omega) (by omega) hL
        intro i x hix hi'
        obtain ⟨hil, rfl⟩ := List.getElem?_eq_some_iff.mp hix
        by_cases he : i = (lo + hi) / 2
        · subst he; omega
        · have := hsorted ((lo + hi) / 2) i hm hil (by omega)
          omega
    · simp only [hlt, if_false]
      have : lo = hi := by omega
      subst this
      exact ⟨lo, rfl, hh, hL, hR⟩

/-- a split point of a list is the number of entries `< v` -/
theorem countP_of_split (a : List Int) (v : Int) (r : Nat) (hr : r ≤ a.length)
    (hL : ∀ i x, a[i]? = some x → i < r → x < v) (hR : ∀ i x, a[i]? = some x → r ≤ i → v ≤ x) :
    a.countP (fun x => decide (x < v)) = r := by
  conv => lhs; rw [← List.take_append_drop r a]
  rw [List.countP_append]
  have h1 : (a.take r).countP (fun x => decide (x < v)) = (a.take r).length := by
    rw [List.countP_eq_length]
    intro x hx
    obtain ⟨i, hi⟩ := List.mem_iff_getElem?.mp hx
    rw [List.getElem?_take] at hi
    split at hi
    · simpa using hL i x hi (by assumption)
    · cases hi
  have h2 : (a.drop r).countP (fun x => decide (x < v)) = 0 := by
    rw [List.countP_eq_zero]
    intro x hx
    obtain ⟨i, hi⟩ := List.mem_iff_getElem?.mp hx
    rw [List.getElem?_drop] at hi
    have := hR (r + i) x hi (by omega)
    simp; omega
  rw [h1, h2, List.length_take]
  omega

theorem searchsorted_sorted (a : List Int) (v : Int) (hs : a.Pairwise (· ≤ ·)) :
    searchsorted a v = .ok (a.countP (fun x => decide (x < v))) ∧
    (v ∈ a → a[a.countP (fun x => decide (x < v))]? = some v) := by
  obtain ⟨r, h1, hr, hL, hR⟩ := bsearch_sorted a v hs (a.length + 1) 0 a.length (Nat.le_refl _)
    (Nat.zero_le _) (by omega) (fun i x _ hi => by omega)
    (fun i x hix hi => by
      have := (List.getElem?_eq_some_iff.mp hix).1
      omega)
  have hc := countP_of_split a v r hr hL hR
  rw [hc]
  refine ⟨h1, ?_⟩
  intro hv
  obtain ⟨i, hi⟩ := List.mem_iff_getElem?.mp hv
  have hil := (List.getElem?_eq_some_iff.mp hi).1
  have hri : r ≤ i := by
    by_contra hlt
    have := hL i v hi (by omega)
    omega
  have hrl : r < a.length := by omega
  have hge := hR r a[r] (List.getElem?_eq_getElem hrl) (Nat.le_refl _)
  have hle : a[r] ≤ v := by
    by_cases he : r = i
    · subst he
      have := (List.getElem?_eq_some_iff.mp hi).2
      omega
    · have := List.pairwise_iff_getElem.mp hs r i hrl hil (by omega)
      have h2 := (List.getElem?_eq_some_iff.mp hi).2
      omega
  rw [List.getElem?_eq_getElem hrl]
  congr 1
  omega

theorem ssVal_sorted (a : List Int) (v : Int) (hs : a.Pairwise (· ≤ ·)) :
    ssVal a v = a.countP (fun x => decide (x < v)) := by
  simp [ssVal, (searchsorted_sorted a v hs).1]

/-! ### distinctness over all tracers -/

/-- the cell of a write: (tracer, index) -/
def cellOf (w : W) : Nat × Nat := (w.1, w.2.1)

theorem proj_fst_eq (c : Nat) (ws : List W) :
    (proj c ws).map (·.1) = ((ws.map cellOf).filter (fun p => p.1 = c)).map (·.2) := by
  induction ws with
  | nil => rfl
  | cons w ws ih =>
    rw [proj_cons]
    by_cases h : w.1 = c <;> simp [h, ih, cellOf]

/-- a list of tagged cells whose every fibre is duplicate free is duplicate free -/
theorem nodup_of_fibres (L : List (Nat × Nat))
    (h : ∀ c, ((L.filter (fun p => p.1 = c)).map (·.2)).Nodup) : L.Nodup := by
  induction L with
  | nil => exact List.nodup_nil
  | cons p L ih =>
    rw [List.nodup_cons]
    constructor
    · intro hp
      have := h p.1
      simp only [List.filter_cons, decide_true, if_true, List.map_cons, List.nodup_cons] at this
      apply this.1
      exact List.mem_map.mpr ⟨p, List.mem_filter.mpr ⟨hp, by simp⟩, rfl⟩
    · apply ih
      intro c
      have := h c
      by_cases hc : p.1 = c
      · simp only [List.filter_cons, hc, decide_true, if_true, List.map_cons, List.nodup_cons] at this
        exact this.2
      · simpa [List.filter_cons, hc] using this

end AbacusVerif.TwoPass
