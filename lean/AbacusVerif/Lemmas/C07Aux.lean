/-
  Helper lemmas for the C07 property theorems: `mapM` in `Except` and the jobs of the two loops of
  `_tsc_parallel`, rows of an interior particle, disjoint cells of equal-parity stripes, and the
  order-independence of exact read-modify-write updates.
-/
import AbacusVerif.Lemmas.C07
import AbacusVerif.Lemmas.Conc
import Mathlib.Data.List.Perm.Basic
import Mathlib.Tactic.FieldSimp
import Mathlib.Tactic.NormNum
import Mathlib.Tactic.Ring

namespace AbacusVerif.TscPar
open AbacusVerif AbacusVerif.Conc

/-! ### helpers: `mapM` in `Except`, the jobs of the two loops -/

theorem mapM_except_ok {ε α β : Type} (f : α → Except ε β) (g : α → β) (l : List α)
    (h : ∀ x ∈ l, f x = .ok (g x)) : l.mapM f = .ok (l.map g) := by
  induction l with
  | nil => rfl
  | cons a l ih =>
    rw [List.mapM_cons, h a (by simp), ih (fun x hx => h x (by simp [hx]))]
    rfl

theorem readStarts_ok (starts : List Nat) (i : Nat) (h : i < starts.length) :
    readStarts starts i = .ok starts[i] := by
  unfold readStarts
  rw [pyIndex_nonneg h]
  simp [h]

theorem job_ok (starts : List Nat) (a : Nat) (h : a + 1 < starts.length) :
    job starts a = .ok ⟨a, a, a + 1, starts[a], starts[a+1]⟩ := by
  unfold job
  rw [readStarts_ok starts a (by omega), readStarts_ok starts (a+1) h]
  rfl

theorem job_ok' (starts : List Nat) (a : Nat) (h : a + 1 < starts.length) :
    ∃ lo hi, job starts a = .ok ⟨a, a, a + 1, lo, hi⟩ ∧ starts[a]? = some lo ∧ starts[a+1]? = some hi :=
  ⟨_, _, job_ok starts a h, by simp, by simp [h]⟩

/-- a `mapM` of jobs over in-range stripes succeeds, job by job -/
theorem mapM_job (starts : List Nat) (l : List Nat) (h : ∀ a ∈ l, a + 1 < starts.length) :
    ∃ js, l.mapM (job starts) = .ok js ∧ js.map (·.stripe) = l ∧
      ∀ j ∈ js, j.stripe ∈ l ∧ j.loIdx = j.stripe ∧ j.hiIdx = j.stripe + 1 ∧
        starts[j.loIdx]? = some j.lo ∧ starts[j.hiIdx]? = some j.hi := by
  induction l with
  | nil => exact ⟨[], rfl, rfl, by simp⟩
  | cons a l ih =>
    obtain ⟨js, h1, h2, h3⟩ := ih (fun x hx => h x (by simp [hx]))
    obtain ⟨lo, hi, e, e1, e2⟩ := job_ok' starts a (h a (by simp))
    refine ⟨⟨a, a, a + 1, lo, hi⟩ :: js, ?_, by simp [h2], ?_⟩
    · rw [List.mapM_cons, e, h1]; rfl
    · intro j hj
      rcases List.mem_cons.1 hj with rfl | hj
      · exact ⟨by simp, rfl, rfl, e1, e2⟩
      · obtain ⟨q1, q2⟩ := h3 j hj
        exact ⟨by simp [q1], q2⟩

theorem mapM_map {ε α β γ : Type} (f : β → Except ε γ) (g : α → β) (l : List α) :
    (l.map g).mapM f = l.mapM (fun x => f (g x)) := by
  induction l with
  | nil => rfl
  | cons a l ih => rw [List.map_cons, List.mapM_cons, List.mapM_cons, ih]


/-- both loops succeed and process stripe `s` as the slice `starts[s] : starts[s+1]` (the statement of
`starts_index_inbounds`, placed here because `two_stripes_safe` uses it too) -/
theorem phases_spec (starts : List Nat) (np : Nat) (hnp : 1 ≤ np) (hl : starts.length = np + 1) :
    ∃ p1 p2, phases starts = .ok (p1, p2) ∧
      (∀ j ∈ p1 ++ p2, j.hiIdx ≤ np ∧ j.loIdx = j.stripe ∧ j.hiIdx = j.stripe + 1 ∧
        starts[j.loIdx]? = some j.lo ∧ starts[j.hiIdx]? = some j.hi) ∧
      p1.map (·.stripe) = (List.range ((np + 1) / 2)).map (fun i => 2 * i) ∧
      p2.map (·.stripe) = (List.range (np / 2)).map (fun i => 2 * i + 1) := by
  have hnp' : starts.length - 1 = np := by omega
  obtain ⟨p1, e1, s1, q1⟩ := mapM_job starts ((List.range ((np + 1) / 2)).map (fun i => 2 * i))
    (by intro a ha; simp only [List.mem_map, List.mem_range] at ha; obtain ⟨i, hi, rfl⟩ := ha; omega)
  obtain ⟨p2, e2, s2, q2⟩ := mapM_job starts ((List.range (np / 2)).map (fun i => 2 * i + 1))
    (by intro a ha; simp only [List.mem_map, List.mem_range] at ha; obtain ⟨i, hi, rfl⟩ := ha; omega)
  rw [mapM_map] at e1 e2
  have ph1 : phase1 starts = .ok p1 := by
    unfold phase1; rw [hnp']; exact e1
  have ph2 : phase2 starts = .ok p2 := by
    unfold phase2
    simp only [hnp']
    split
    · exact e2
    · have : np / 2 = 0 := by omega
      rw [this] at e2
      exact e2
  refine ⟨p1, p2, ?_, ?_, s1, s2⟩
  · unfold phases; rw [ph1, ph2]; rfl
  · intro j hj
    rcases List.mem_append.1 hj with hj | hj
    · obtain ⟨m1, m2, m3, m4⟩ := q1 j hj
      refine ⟨?_, m2, m3, m4⟩
      simp only [List.mem_map, List.mem_range] at m1
      obtain ⟨i, hi, hi'⟩ := m1
      omega
    · obtain ⟨m1, m2, m3, m4⟩ := q2 j hj
      refine ⟨?_, m2, m3, m4⟩
      simp only [List.mem_map, List.mem_range] at m1
      obtain ⟨i, hi, hi'⟩ := m1
      omega


/-! ### helpers: rows of an interior particle -/

theorem rowsOf_interior (g : Nat) (u : ℚ) (k : Nat) (hk : rhe u = (k : Int)) (h1 : 1 ≤ k) (h2 : k + 1 < g) :
    rowsOf g u = .ok [k - 1, k, k + 1] := by
  have e : ∀ j : Nat, j < g → idx g (rightwrap g (j : Int)) = .ok j := by
    intro j hj
    have : rightwrap g (j : Int) = (j : Int) := by
      unfold rightwrap
      rw [if_pos (by omega)]
      exact Int.emod_eq_of_lt (by omega) (by omega)
    rw [this, idx, pyIndex_nonneg hj]
  unfold rowsOf
  rw [hk]
  have a1 : ((k : Int) + (-1 : Int)) = ((k - 1 : Nat) : Int) := by omega
  have a2 : ((k : Int) + (0 : Int)) = ((k : Nat) : Int) := by omega
  have a3 : ((k : Int) + (1 : Int)) = ((k + 1 : Nat) : Int) := by omega
  simp only [List.mapM_cons, List.mapM_nil, a1, a2, a3]
  rw [e (k - 1) (by omega), e k (by omega), e (k + 1) h2]
  rfl


/-! ### helpers: disjoint cells of equal-parity stripes -/

/-- the cells written by the particles of two different stripes of equal parity are disjoint -/
theorem stripe_cells_disjoint {P : Type} (g np : Nat) (off : ℚ)
    (hnp : 2 ∣ np) (hw : 3 * np ≤ g) (ho0 : 0 ≤ off) (ho1 : off ≤ 1)
    (coord : P → ℚ) (dep : P → List (Nat × ℚ)) (rowOfCell : Nat → Nat) (S : Nat → List P)
    (hS : ∀ s, ∀ x ∈ S s, 0 ≤ coord x ∧ coord x ≤ g ∧ stripeOf np g (coord x) = s)
    (hdep : ∀ s, ∀ x ∈ S s, ∃ r, rowsOf g (coord x + off) = .ok r ∧ ∀ cv ∈ dep x, rowOfCell cv.1 ∈ r)
    (a b : Nat) (hab : a ≠ b) (hpar : a % 2 = b % 2) :
    ∀ c ∈ ((S a).flatMap dep).map (·.1), c ∉ ((S b).flatMap dep).map (·.1) := by
  intro c hc hc'
  simp only [List.mem_map, List.mem_flatMap] at hc hc'
  obtain ⟨cv, ⟨x, hx, hcv⟩, rfl⟩ := hc
  obtain ⟨cv', ⟨x', hx', hcv'⟩, hcc⟩ := hc'
  obtain ⟨x0, xg, xs⟩ := hS a x hx
  obtain ⟨x0', xg', xs'⟩ := hS b x' hx'
  obtain ⟨r, r', e, e', hd⟩ := rows_disjoint_core g np hnp hw off ho0 ho1 (coord x) (coord x') x0 xg x0' xg'
    (by rw [xs, xs']; omega) (by rw [xs, xs']; omega)
  obtain ⟨r1, f, hr⟩ := hdep a x hx
  obtain ⟨r1', f', hr'⟩ := hdep b x' hx'
  rw [e] at f
  rw [e'] at f'
  injection f with f
  injection f' with f'
  subst f
  subst f'
  have := hr' cv' hcv'
  rw [hcc] at this
  exact hd _ (hr cv hcv) this

theorem pairwise_range_map {α : Type} (R : α → α → Prop) (f : Nat → α) (n : Nat)
    (h : ∀ i j, i < j → j < n → R (f i) (f j)) : ((List.range n).map f).Pairwise R := by
  rw [List.pairwise_map]
  refine List.Pairwise.imp_of_mem ?_ List.pairwise_lt_range
  intro i j _ hj hij
  exact h i j hij (List.mem_range.1 hj)


/-! ### helpers: atomic updates over ℚ commute; even-then-odd is a permutation of 0, 1, 2, … -/

theorem applyAdds_cons (m : Mem ℚ) (cv : Nat × ℚ) (l : List (Nat × ℚ)) :
    applyAdds m (cv :: l) = applyAdds (m.set cv.1 (m cv.1 + cv.2)) l := rfl

/-- in exact arithmetic the atomic updates commute -/
theorem applyAdds_perm {l l' : List (Nat × ℚ)} (h : l.Perm l') : ∀ m : Mem ℚ, applyAdds m l = applyAdds m l' := by
  induction h with
  | nil => intro m; rfl
  | cons a _ ih => intro m; rw [applyAdds_cons, applyAdds_cons, ih]
  | swap a b l =>
    intro m
    rw [applyAdds_cons, applyAdds_cons, applyAdds_cons, applyAdds_cons]
    congr 1
    funext c
    simp only [Mem.set]
    by_cases hab : a.1 = b.1
    · rw [hab]
      by_cases hc : c = b.1
      · simp only [hc, if_true]; ring
      · simp only [hc, if_false]
    · have hba : ¬ b.1 = a.1 := fun e => hab e.symm
      by_cases hc : c = a.1
      · subst hc
        simp only [hab, hba, if_true, if_false]
      · by_cases hc' : c = b.1
        · subst hc'
          simp only [hab, hba, if_true, if_false]
        · simp only [hc, hc', if_false]
  | trans _ _ ih1 ih2 => intro m; rw [ih1, ih2]

theorem even_odd_perm {α : Type} (F : Nat → List α) (n : Nat) :
    (((List.range ((n + 1) / 2)).map (fun i => F (2 * i))).flatten ++
      ((List.range (n / 2)).map (fun i => F (2 * i + 1))).flatten).Perm ((List.range n).flatMap F) := by
  induction n with
  | zero => simp
  | succ n ih =>
    rw [List.range_succ, List.flatMap_append]
    simp only [List.flatMap_cons, List.flatMap_nil, List.append_nil]
    rcases Nat.even_or_odd' n with ⟨k, hk | hk⟩
    · have e1 : (n + 1 + 1) / 2 = (n + 1) / 2 + 1 := by omega
      have e2 : (n + 1) / 2 = n / 2 := by omega
      have e3 : 2 * ((n + 1) / 2) = n := by omega
      rw [e1, List.range_succ, List.map_append, List.flatten_append]
      simp only [List.map_cons, List.map_nil, List.flatten_cons, List.flatten_nil, List.append_nil, e3]
      rw [e2] at ih ⊢
      rw [List.append_assoc]
      refine (List.Perm.append_left _ List.perm_append_comm).trans ?_
      rw [← List.append_assoc]
      exact ih.append_right _
    · have e1 : (n + 1 + 1) / 2 = (n + 1) / 2 := by omega
      have e2 : (n + 1) / 2 = n / 2 + 1 := by omega
      have e3 : 2 * (n / 2) + 1 = n := by omega
      rw [e1]
      conv => lhs; rhs; rw [e2, List.range_succ, List.map_append, List.flatten_append]
      simp only [List.map_cons, List.map_nil, List.flatten_cons, List.flatten_nil, List.append_nil, e3]
      rw [← List.append_assoc]
      exact ih.append_right _



end AbacusVerif.TscPar
