/-
  C06: the documented kernels, periodic image sums, and the lemma that the three coded weights of an axis are
  the kernel evaluated at the three nearest cells (independently of how a half-cell tie was rounded).
-/
import AbacusVerif.Lemmas.C06
import Mathlib.Algebra.BigOperators.Ring.Finset
import Mathlib.Order.Interval.Finset.Defs
import Mathlib.Data.Int.Interval
import Mathlib.Algebra.Order.Ring.Abs

namespace AbacusVerif.Mass
open AbacusVerif

/-! ### specification vocabulary -/

/-- the documented TSC kernel: `3/4 - u²` on `|u| ≤ 1/2`, `(3/2 - |u|)²/2` on `1/2 ≤ |u| ≤ 3/2`, else `0` -/
def Wtsc (u : ℚ) : ℚ := if |u| ≤ 1/2 then 3/4 - u ^ 2 else if |u| ≤ 3/2 then (3/2 - |u|) ^ 2 / 2 else 0

/-- the documented CIC kernel `max(0, 1 - |u|)` -/
def Wcic (u : ℚ) : ℚ := max 0 (1 - |u|)

/-- sum of a kernel over the periodic images `c + k g` (`k ∈ K`) of cell `c`, seen from grid coordinate `p` -/
def imageSum (W : ℚ → ℚ) (g : ℕ) (p : ℚ) (c : ℕ) (K : Finset ℤ) : ℚ :=
  ∑ k ∈ K, W ((c : ℚ) + (k : ℚ) * (g : ℚ) - p)

/-- `K` contains every image of `c` closer to `p` than the kernel's support radius `s` -/
def Covers (s : ℚ) (g : ℕ) (p : ℚ) (c : ℕ) (K : Finset ℤ) : Prop :=
  ∀ k : ℤ, |(c : ℚ) + (k : ℚ) * (g : ℚ) - p| < s → k ∈ K

/-- the resolved axis inside the domain: cells `(ix+δ) mod g` -/
def modAxis (g : ℕ) (a : Axis) : RAxis :=
  { cm := ((a.ix - 1) % (g : ℤ)).toNat, c0 := (a.ix % (g : ℤ)).toNat,
    cp := ((a.ix + 1) % (g : ℤ)).toNat, wm := a.wm, w0 := a.w0, wp := a.wp }

theorem rhe_ge_of_domain {g : ℕ} {p : ℚ} (hp : -(g : ℚ) + 1 ≤ p) : -(g : ℤ) + 1 ≤ rhe p := by
  have h : ((-(g : ℤ) + 1 : ℤ) : ℚ) ≤ p := by push_cast; linarith
  have := rhe_mono h
  rwa [rhe_int] at this

theorem resolve_in_domain {g : ℕ} (hg : 1 ≤ g) (k : Kind) {p : ℚ} (hp : -(g : ℚ) + 1 ≤ p) :
    resolve g (axisOf k p) = .ok (modAxis g (axisOf k p)) :=
  resolve_of_ge hg _ (by rw [axisOf_ix]; exact rhe_ge_of_domain hp)

/-! ### the coded weights are the kernel at the three nearest cells -/

theorem Wtsc_left {d : ℚ} (h1 : -1/2 ≤ d) (h2 : d ≤ 1/2) : Wtsc (d - 1) = 1/2 * (1/2 + d) ^ 2 := by
  unfold Wtsc
  have ha : |d - 1| = 1 - d := by rw [abs_of_nonpos (by linarith)]; ring
  rw [ha]
  split_ifs with a b
  · have : d = 1/2 := by linarith
    subst this; norm_num
  · ring
  · exfalso; linarith

theorem Wtsc_mid {d : ℚ} (h1 : -1/2 ≤ d) (h2 : d ≤ 1/2) : Wtsc d = 3/4 - d ^ 2 := by
  unfold Wtsc
  rw [if_pos (abs_le.mpr ⟨by linarith, h2⟩)]

theorem Wtsc_right {d : ℚ} (h1 : -1/2 ≤ d) (h2 : d ≤ 1/2) : Wtsc (d + 1) = 1/2 * (1/2 - d) ^ 2 := by
  unfold Wtsc
  have ha : |d + 1| = 1 + d := by rw [abs_of_nonneg (by linarith)]; ring
  rw [ha]
  split_ifs with a b
  · have : d = -1/2 := by linarith
    subst this; norm_num
  · ring
  · exfalso; linarith

theorem Wtsc_far {u : ℚ} (h : 3/2 ≤ |u|) : Wtsc u = 0 := by
  unfold Wtsc
  split_ifs with a b
  · exfalso; linarith
  · have : |u| = 3/2 := le_antisymm b h
    rw [this]; norm_num
  · rfl

theorem Wcic_far {u : ℚ} (h : 1 ≤ |u|) : Wcic u = 0 := by
  unfold Wcic
  exact max_eq_left (by linarith)

theorem tsc_fields (p : ℚ) :
    (tscAxis p).wm = 1/2 * (1/2 + ((rhe p : ℤ) - p)) ^ 2 ∧ (tscAxis p).w0 = 3/4 - ((rhe p : ℤ) - p) ^ 2 ∧
      (tscAxis p).wp = 1/2 * (1/2 - ((rhe p : ℤ) - p)) ^ 2 := ⟨rfl, rfl, rfl⟩

theorem cic_fields (p : ℚ) :
    (cicAxis p).wm = (if ((rhe p : ℤ) : ℚ) - p > 0 then ((rhe p : ℤ) : ℚ) - p else 0) ∧
      (cicAxis p).w0 = 1 - |((rhe p : ℤ) : ℚ) - p| ∧
      (cicAxis p).wp = (if ((rhe p : ℤ) : ℚ) - p > 0 then 0 else -(((rhe p : ℤ) : ℚ) - p)) := by
  unfold cicAxis
  dsimp only
  rw [rabs_eq_abs]
  split_ifs <;> exact ⟨rfl, rfl, rfl⟩

/-- the integer `j` is two or more cells away from `ix`, and `ix` within half a cell of `p` -/
theorem far_of_ne {ix j : ℤ} {p : ℚ} (h1 : -1/2 ≤ (ix : ℚ) - p) (h2 : (ix : ℚ) - p ≤ 1/2)
    (e1 : ¬ j = ix - 1) (e2 : ¬ j = ix) (e3 : ¬ j = ix + 1) : 3/2 ≤ |(j : ℚ) - p| := by
  rcases (by omega : j ≤ ix - 2 ∨ ix + 2 ≤ j) with h | h
  · have : (j : ℚ) ≤ (ix : ℚ) - 2 := by exact_mod_cast h
    calc (3/2 : ℚ) ≤ -((j : ℚ) - p) := by linarith
      _ ≤ |(j : ℚ) - p| := neg_le_abs _
  · have : (ix : ℚ) + 2 ≤ (j : ℚ) := by exact_mod_cast h
    calc (3/2 : ℚ) ≤ (j : ℚ) - p := by linarith
      _ ≤ |(j : ℚ) - p| := le_abs_self _

/-- TSC: the kernel at **any** integer cell `j` is the coded weight of the slot that addresses `j`, or zero -/
theorem tsc_unwrapped (p : ℚ) (j : ℤ) :
    Wtsc ((j : ℚ) - p) =
      if j = (tscAxis p).ix - 1 then (tscAxis p).wm else if j = (tscAxis p).ix then (tscAxis p).w0
      else if j = (tscAxis p).ix + 1 then (tscAxis p).wp else 0 := by
  have h' := abs_le.mp (rhe_close p)
  have h : -1/2 ≤ ((rhe p : ℤ) : ℚ) - p ∧ ((rhe p : ℤ) : ℚ) - p ≤ 1/2 := ⟨by linarith [h'.1], h'.2⟩
  obtain ⟨f1, f2, f3⟩ := tsc_fields p
  rw [tscAxis_ix, f1, f2, f3]
  split_ifs with e1 e2 e3
  · have : (j : ℚ) - p = (((rhe p : ℤ) : ℚ) - p) - 1 := by rw [e1]; push_cast; ring
    rw [this, Wtsc_left h.1 h.2]
  · rw [e2, Wtsc_mid h.1 h.2]
  · have : (j : ℚ) - p = (((rhe p : ℤ) : ℚ) - p) + 1 := by rw [e3]; push_cast; ring
    rw [this, Wtsc_right h.1 h.2]
  · exact Wtsc_far (far_of_ne h.1 h.2 e1 e2 e3)

theorem cic_unwrapped (p : ℚ) (j : ℤ) :
    Wcic ((j : ℚ) - p) =
      if j = (cicAxis p).ix - 1 then (cicAxis p).wm else if j = (cicAxis p).ix then (cicAxis p).w0
      else if j = (cicAxis p).ix + 1 then (cicAxis p).wp else 0 := by
  have h' := abs_le.mp (rhe_close p)
  have h : -1/2 ≤ ((rhe p : ℤ) : ℚ) - p ∧ ((rhe p : ℤ) : ℚ) - p ≤ 1/2 := ⟨by linarith [h'.1], h'.2⟩
  obtain ⟨f1, f2, f3⟩ := cic_fields p
  rw [cicAxis_ix, f1, f2, f3]
  split_ifs with e1 d1 e2 e3 d3
  · have : (j : ℚ) - p = (((rhe p : ℤ) : ℚ) - p) - 1 := by rw [e1]; push_cast; ring
    rw [this]; unfold Wcic
    rw [abs_of_nonpos (by linarith), max_eq_right (by linarith)]; ring
  · have : (j : ℚ) - p = (((rhe p : ℤ) : ℚ) - p) - 1 := by rw [e1]; push_cast; ring
    rw [this]; unfold Wcic
    rw [abs_of_nonpos (by linarith), max_eq_left (by linarith)]
  · rw [e2]; unfold Wcic
    have : |((rhe p : ℤ) : ℚ) - p| ≤ 1/2 := rhe_close p
    rw [max_eq_right (by linarith)]
  · have : (j : ℚ) - p = (((rhe p : ℤ) : ℚ) - p) + 1 := by rw [e3]; push_cast; ring
    rw [this]; unfold Wcic
    rw [abs_of_nonneg (by linarith), max_eq_left (by linarith)]
  · have : (j : ℚ) - p = (((rhe p : ℤ) : ℚ) - p) + 1 := by rw [e3]; push_cast; ring
    rw [this]; unfold Wcic
    rw [abs_of_nonneg (by linarith), max_eq_right (by linarith)]; ring
  · exact Wcic_far (by linarith [far_of_ne h.1 h.2 e1 e2 e3])

/-! ### periodic images -/

/-- among the images `c + k g` of cell `c` exactly one (`k = t / g`) can equal the integer `t`, and only when
`t mod g = c` -/
theorem sum_image_eq {g : ℕ} (hg : 1 ≤ g) {c : ℕ} (hc : c < g) (t : ℤ) (w : ℚ) (K : Finset ℤ)
    (hw : (t % (g : ℤ)).toNat = c → t / (g : ℤ) ∉ K → w = 0) :
    (∑ k ∈ K, if (c : ℤ) + k * (g : ℤ) = t then w else 0) = if (t % (g : ℤ)).toNat = c then w else 0 := by
  have hg' : (0 : ℤ) < (g : ℤ) := by exact_mod_cast hg
  have hm0 := Int.emod_nonneg t (ne_of_gt hg')
  by_cases h : (t % (g : ℤ)).toNat = c
  · rw [if_pos h]
    have hmod : t % (g : ℤ) = (c : ℤ) := by omega
    have hiff : ∀ k : ℤ, ((c : ℤ) + k * (g : ℤ) = t) ↔ (k = t / (g : ℤ)) := by
      intro k
      have hdm := Int.emod_add_mul_ediv t (g : ℤ)
      constructor
      · intro hk
        have : (g : ℤ) * k = (g : ℤ) * (t / (g : ℤ)) := by rw [hmod] at hdm; linarith
        exact Int.eq_of_mul_eq_mul_left (ne_of_gt hg') this
      · rintro rfl
        rw [hmod] at hdm; linarith
    simp only [hiff]
    rw [Finset.sum_ite_eq']
    by_cases hk : t / (g : ℤ) ∈ K
    · rw [if_pos hk]
    · rw [if_neg hk, hw h hk]
  · rw [if_neg h]
    apply Finset.sum_eq_zero
    intro k _
    rw [if_neg]
    intro hk
    apply h
    have : t % (g : ℤ) = (c : ℤ) := by
      rw [← hk, Int.add_mul_emod_self_right]
      exact Int.emod_eq_of_lt (by omega) (by exact_mod_cast hc)
    omega

/-- **the wrapped deposit of an axis is the periodic image sum of the kernel**, for any kernel `W` whose values
at the integer cells are the three coded weights (and zero elsewhere) and that vanishes beyond radius `s` -/
theorem weightAt_imageSum {g : ℕ} (hg : 1 ≤ g) (W : ℚ → ℚ) (s : ℚ) (a : Axis) (p : ℚ)
    (hun : ∀ j : ℤ, W ((j : ℚ) - p) =
      if j = a.ix - 1 then a.wm else if j = a.ix then a.w0 else if j = a.ix + 1 then a.wp else 0)
    (hsupp : ∀ u, s ≤ |u| → W u = 0) {c : ℕ} (hc : c < g) (K : Finset ℤ) (hK : Covers s g p c K) :
    (modAxis g a).weightAt c = imageSum W g p c K := by
  have hg' : (0 : ℤ) < (g : ℤ) := by exact_mod_cast hg
  -- a weight whose image is not in `K` is zero
  have key : ∀ (t : ℤ) (w : ℚ), W ((t : ℚ) - p) = w →
      ((t % (g : ℤ)).toNat = c → t / (g : ℤ) ∉ K → w = 0) := by
    intro t w hWt hmod hk
    have hm0 := Int.emod_nonneg t (ne_of_gt hg')
    have hdm := Int.emod_add_mul_ediv t (g : ℤ)
    have ht : (t : ℚ) = (c : ℚ) + ((t / (g : ℤ) : ℤ) : ℚ) * (g : ℚ) := by
      have : t = (c : ℤ) + (t / (g : ℤ)) * (g : ℤ) := by
        have : t % (g : ℤ) = (c : ℤ) := by omega
        rw [this] at hdm; linarith
      exact_mod_cast this
    have hfar : s ≤ |(c : ℚ) + ((t / (g : ℤ) : ℤ) : ℚ) * (g : ℚ) - p| := by
      by_contra hlt
      exact hk (hK _ (not_le.mp hlt))
    rw [← hWt, ht]
    exact hsupp _ hfar
  have hm := hun (a.ix - 1)
  rw [if_pos rfl] at hm
  have h0 := hun a.ix
  rw [if_neg (by omega), if_pos rfl] at h0
  have hp' := hun (a.ix + 1)
  rw [if_neg (by omega), if_neg (by omega), if_pos rfl] at hp'
  unfold imageSum
  have hterm : ∀ k : ℤ, W ((c : ℚ) + (k : ℚ) * (g : ℚ) - p) =
      (if (c : ℤ) + k * (g : ℤ) = a.ix - 1 then a.wm else 0) +
      (if (c : ℤ) + k * (g : ℤ) = a.ix then a.w0 else 0) +
      (if (c : ℤ) + k * (g : ℤ) = a.ix + 1 then a.wp else 0) := by
    intro k
    have : (c : ℚ) + (k : ℚ) * (g : ℚ) - p = (((c : ℤ) + k * (g : ℤ) : ℤ) : ℚ) - p := by push_cast; ring
    rw [this, hun]
    split_ifs with e1 e2 e3 e4 e5 <;> first | (exfalso; omega) | simp
  simp only [hterm, Finset.sum_add_distrib]
  rw [sum_image_eq hg hc _ _ K (key _ _ (by exact_mod_cast hm)),
    sum_image_eq hg hc _ _ K (key _ _ h0),
    sum_image_eq hg hc _ _ K (key _ _ (by exact_mod_cast hp'))]
  rfl

theorem tsc_weightAt_eq {g : ℕ} (hg : 1 ≤ g) {p : ℚ} (_hp : -(g : ℚ) + 1 ≤ p) {c : ℕ} (hc : c < g)
    (K : Finset ℤ) (hK : Covers (3/2) g p c K) :
    (modAxis g (axisOf .tsc p)).weightAt c = imageSum Wtsc g p c K :=
  weightAt_imageSum hg Wtsc (3/2) (tscAxis p) p (tsc_unwrapped p) (fun _ h => Wtsc_far h) hc K hK

theorem cic_weightAt_eq {g : ℕ} (hg : 1 ≤ g) {p : ℚ} (_hp : -(g : ℚ) + 1 ≤ p) {c : ℕ} (hc : c < g)
    (K : Finset ℤ) (hK : Covers 1 g p c K) :
    (modAxis g (axisOf .cic p)).weightAt c = imageSum Wcic g p c K :=
  weightAt_imageSum hg Wcic 1 (cicAxis p) p (cic_unwrapped p) (fun _ h => Wcic_far h) hc K hK

/-- a finite covering set of images always exists -/
theorem covers_Icc (s : ℚ) {g : ℕ} (hg : 1 ≤ g) (p : ℚ) (c : ℕ) : ∃ K : Finset ℤ, Covers s g p c K := by
  refine ⟨Finset.Icc (-⌈|p| + c + s⌉) ⌈|p| + c + s⌉, ?_⟩
  intro k hk
  have hg1 : (1 : ℚ) ≤ (g : ℚ) := by exact_mod_cast hg
  have hB := Int.le_ceil (|p| + c + s)
  have hk1 := abs_lt.mp hk
  have hp1 := abs_le.mp (le_refl |p|)
  have hc0 : (0 : ℚ) ≤ (c : ℚ) := Nat.cast_nonneg c
  rw [Finset.mem_Icc]
  constructor
  · by_contra hlt
    rw [not_le] at hlt
    have h1 : (k : ℚ) < -(⌈|p| + c + s⌉ : ℚ) := by exact_mod_cast hlt
    have hkneg : (k : ℚ) < 0 := by linarith [abs_nonneg p]
    have : (k : ℚ) * (g : ℚ) ≤ (k : ℚ) := by nlinarith
    linarith
  · by_contra hlt
    rw [not_le] at hlt
    have h1 : (⌈|p| + c + s⌉ : ℚ) < (k : ℚ) := by exact_mod_cast hlt
    have hkpos : 0 < (k : ℚ) := by linarith [abs_nonneg p]
    have : (k : ℚ) ≤ (k : ℚ) * (g : ℚ) := by nlinarith
    linarith

theorem contrib_nonneg {ws : List (ℕ × ℚ)} (h : ∀ w ∈ ws, 0 ≤ w.2) (c : ℕ) : 0 ≤ contrib ws c := by
  unfold contrib
  apply List.sum_nonneg
  intro x hx
  simp only [List.mem_map] at hx
  obtain ⟨w, hw, rfl⟩ := hx
  split_ifs
  · exact h w hw
  · exact le_refl 0

theorem accumulate_getElem (g : List ℚ) (ws : List (ℕ × ℚ)) (i : ℕ) (h : i < g.length) :
    (accumulate g ws)[i]'(by rw [accumulate_length]; exact h) = g[i] + contrib ws i := by
  rw [List.getElem_eq_iff, accumulate_getElem?, List.getElem?_eq_getElem h]
  rfl

end AbacusVerif.Mass
