/-
  A small generic interleaving model of shared-memory threads (DESIGN.md §3, "Arrays and writes", item 2).

  Shared memory is a map from cell numbers to values.  A thread is a list of atomic steps, each a load
  of one cell into the thread's private register or a store to one cell of a function of the register;
  `x[c] += v` is the two steps `load c; store c (· + v)`.  A schedule is a list of thread numbers: at
  each entry that thread performs its next step.  Every interleaving of the threads is a schedule, and
  the model is sequentially consistent at the granularity of one load or one store.
-/
import Mathlib.Tactic.Linarith

namespace AbacusVerif.Conc

variable {V : Type}

abbrev Mem (V : Type) := Nat → V

def Mem.set (m : Mem V) (c : Nat) (v : V) : Mem V := fun c' => if c' = c then v else m c'

inductive Step (V : Type) where
  | load (c : Nat)
  | store (c : Nat) (f : V → V)

def Step.cell : Step V → Nat
  | .load c => c
  | .store c _ => c

/-- a thread: private register and remaining program -/
structure Thread (V : Type) where
  reg : V
  prog : List (Step V)

/-- one atomic step of a thread on the shared memory -/
def stepThread (m : Mem V) (th : Thread V) : Mem V × Thread V :=
  match th.prog with
  | [] => (m, th)
  | .load c :: rest => (m, ⟨m c, rest⟩)
  | .store c f :: rest => (m.set c (f th.reg), ⟨th.reg, rest⟩)

structure Config (V : Type) where
  mem : Mem V
  threads : List (Thread V)

/-- thread `t` performs its next atomic step (a no-op if `t` is not a thread or has finished) -/
def Config.step (cfg : Config V) (t : Nat) : Config V :=
  match cfg.threads[t]? with
  | none => cfg
  | some th => ⟨(stepThread cfg.mem th).1, cfg.threads.set t (stepThread cfg.mem th).2⟩

def Config.run (cfg : Config V) (sched : List Nat) : Config V := sched.foldl Config.step cfg

/-- every thread has executed its whole program -/
def Config.finished (cfg : Config V) : Prop := ∀ th ∈ cfg.threads, th.prog = []

def start (r0 : V) (m : Mem V) (progs : List (List (Step V))) : Config V :=
  ⟨m, progs.map (fun p => ⟨r0, p⟩)⟩

/-- the sequential schedule: thread 0 to completion, then thread 1, … -/
def seqSchedule (progs : List (List (Step V))) : List Nat :=
  progs.zipIdx.flatMap (fun pt => List.replicate pt.1.length pt.2)

/-- the cells a program loads or stores -/
def footprint (p : List (Step V)) : List Nat := p.map Step.cell

def DisjointFootprints (progs : List (List (Step V))) : Prop :=
  progs.Pairwise (fun p q => ∀ c ∈ footprint p, c ∉ footprint q)

/-! ### helper development: solo runs -/

/-- one step of a thread running alone, on the pair (memory, register) -/
def soloStep (s : Mem V × V) : Step V → Mem V × V
  | .load c => (s.1, s.1 c)
  | .store c f => (s.1.set c (f s.2), s.2)

/-- a program run alone from memory `m` and register `r` -/
def solo (m : Mem V) (r : V) (p : List (Step V)) : Mem V × V := p.foldl soloStep (m, r)

theorem stepThread_cons (m : Mem V) (r : V) (st : Step V) (rest : List (Step V)) :
    stepThread m ⟨r, st :: rest⟩ =
      ((soloStep (m, r) st).1, ⟨(soloStep (m, r) st).2, rest⟩) := by
  cases st <;> rfl

theorem run_append (cfg : Config V) (a b : List Nat) : cfg.run (a ++ b) = (cfg.run a).run b := by
  simp [Config.run, List.foldl_append]

theorem run_cons (cfg : Config V) (t : Nat) (s : List Nat) :
    cfg.run (t :: s) = (cfg.step t).run s := rfl

/-- running thread number `pre.length` for as many steps as its program is long executes it solo -/
theorem run_replicate (mem : Mem V) (pre post : List (Thread V)) (r : V) (p : List (Step V)) :
    (Config.mk mem (pre ++ ⟨r, p⟩ :: post)).run (List.replicate p.length pre.length) =
      ⟨(solo mem r p).1, pre ++ ⟨(solo mem r p).2, []⟩ :: post⟩ := by
  induction p generalizing mem r with
  | nil => rfl
  | cons st rest ih =>
    rw [List.length_cons, List.replicate_succ, run_cons]
    have h1 : (Config.mk mem (pre ++ ⟨r, st :: rest⟩ :: post)).step pre.length =
        ⟨(soloStep (mem, r) st).1, pre ++ ⟨(soloStep (mem, r) st).2, rest⟩ :: post⟩ := by
      simp [Config.step, stepThread_cons]
    rw [h1, ih]
    rfl

/-- memory after running the programs one after the other, each from register `r0` -/
def seqMem (r0 : V) (m : Mem V) (progs : List (List (Step V))) : Mem V :=
  progs.foldl (fun m p => (solo m r0 p).1) m

theorem seq_run (r0 : V) (progs : List (List (Step V))) :
    ∀ (off : Nat) (pre : List (Thread V)) (mem : Mem V), pre.length = off →
      ((Config.mk mem (pre ++ progs.map (fun p => ⟨r0, p⟩))).run
          ((progs.zipIdx off).flatMap (fun pt => List.replicate pt.1.length pt.2))).mem =
        seqMem r0 mem progs ∧
      ∃ ths, ((Config.mk mem (pre ++ progs.map (fun p => ⟨r0, p⟩))).run
          ((progs.zipIdx off).flatMap (fun pt => List.replicate pt.1.length pt.2))).threads =
            pre ++ ths ∧ ∀ th ∈ ths, th.prog = [] := by
  induction progs with
  | nil =>
    intro off pre mem _
    exact ⟨rfl, [], rfl, by simp⟩
  | cons p ps ih =>
    intro off pre mem hoff
    subst hoff
    rw [List.zipIdx_cons, List.flatMap_cons, run_append, List.map_cons]
    simp only []
    rw [run_replicate]
    have e : pre ++ (⟨(solo mem r0 p).2, []⟩ : Thread V) :: ps.map (fun p => ⟨r0, p⟩) =
        (pre ++ [⟨(solo mem r0 p).2, []⟩]) ++ ps.map (fun p => ⟨r0, p⟩) := by simp
    rw [e]
    obtain ⟨h1, ths, h2, h3⟩ := ih (pre.length + 1) (pre ++ [⟨(solo mem r0 p).2, []⟩])
      (solo mem r0 p).1 (by simp)
    refine ⟨by rw [h1]; rfl, ⟨(solo mem r0 p).2, []⟩ :: ths, by rw [h2]; simp, ?_⟩
    intro th hth
    rcases List.mem_cons.1 hth with h | h
    · rw [h]
    · exact h3 th h

/-! ### helper development: the simulation invariant -/

theorem drop_cons_facts {α : Type} {p : List α} {k : Nat} {a : α} {rest : List α}
    (h : p.drop k = a :: rest) :
    p.take (k + 1) = p.take k ++ [a] ∧ p.drop (k + 1) = rest ∧ a ∈ p := by
  induction p generalizing k with
  | nil => simp at h
  | cons x xs ih =>
    cases k with
    | zero =>
      simp only [List.drop_zero, List.cons.injEq] at h
      obtain ⟨rfl, rfl⟩ := h
      simp
    | succ k =>
      simp only [List.drop_succ_cons] at h
      obtain ⟨h1, h2, h3⟩ := ih h
      refine ⟨?_, ?_, ?_⟩
      · rw [List.take_succ_cons, h1]; rfl
      · simpa using h2
      · exact List.mem_cons_of_mem _ h3

theorem disj_get {progs : List (List (Step V))} (hd : DisjointFootprints progs) {t t' : Nat}
    {p q : List (Step V)} (ht : progs[t]? = some p) (ht' : progs[t']? = some q) (hne : t ≠ t') :
    ∀ c ∈ footprint p, c ∉ footprint q := by
  obtain ⟨h1, rfl⟩ := List.getElem?_eq_some_iff.1 ht
  obtain ⟨h2, rfl⟩ := List.getElem?_eq_some_iff.1 ht'
  have hp := List.pairwise_iff_getElem.1 hd
  rcases Nat.lt_or_gt_of_ne hne with h | h
  · exact hp t t' h1 h2 h
  · intro c hc hc'
    exact hp t' t h2 h1 h c hc' hc

/-- the simulation invariant: thread `t` has performed the first `k t` steps of its program, and
its register and the cells of its footprint hold what a solo run of those steps would give -/
structure Inv (r0 : V) (m : Mem V) (progs : List (List (Step V))) (k : Nat → Nat)
    (cfg : Config V) : Prop where
  len : cfg.threads.length = progs.length
  thr : ∀ (t : Nat) (p : List (Step V)), progs[t]? = some p →
    cfg.threads[t]? = some (Thread.mk (solo m r0 (p.take (k t))).2 (p.drop (k t)))
  own : ∀ (t : Nat) (p : List (Step V)), progs[t]? = some p → ∀ c ∈ footprint p,
    cfg.mem c = (solo m r0 (p.take (k t))).1 c
  other : ∀ c, (∀ p ∈ progs, c ∉ footprint p) → cfg.mem c = m c

theorem inv_start (r0 : V) (m : Mem V) (progs : List (List (Step V))) :
    Inv r0 m progs (fun _ => 0) (start r0 m progs) where
  len := by simp [start]
  thr := by
    intro t p h
    simp [start, h, solo]
  own := by
    intro t p h c hc
    simp [start, solo]
  other := by
    intro c _
    rfl

theorem inv_step {r0 : V} {m : Mem V} {progs : List (List (Step V))}
    (hd : DisjointFootprints progs) {k : Nat → Nat} {cfg : Config V}
    (h : Inv r0 m progs k cfg) (t : Nat) : ∃ k', Inv r0 m progs k' (cfg.step t) := by
  cases hp : progs[t]? with
  | none =>
    have : cfg.threads[t]? = none := by
      rw [List.getElem?_eq_none_iff] at hp ⊢
      rw [h.len]; exact hp
    refine ⟨k, ?_⟩
    simpa [Config.step, this] using h
  | some p =>
    have hth := h.thr t p hp
    have htl : t < cfg.threads.length := by
      rw [h.len]; exact (List.getElem?_eq_some_iff.1 hp).1
    cases hdrop : p.drop (k t) with
    | nil =>
      refine ⟨k, ?_⟩
      have e : cfg.step t = cfg := by
        cases cfg with
        | mk mem ths =>
          simp only [Config.step, hth, hdrop, stepThread]
          congr 1
          apply List.ext_getElem?
          intro i
          rw [List.getElem?_set]
          by_cases hi : t = i
          · subst hi
            have htl' : t < ths.length := htl
            have hth' : ths[t]? = _ := hth
            rw [if_pos rfl, if_pos htl', hth', hdrop]
          · rw [if_neg hi]
      rw [e]; exact h
    | cons st rest =>
      obtain ⟨htake, hdrop', hmem⟩ := drop_cons_facts hdrop
      have hcell : st.cell ∈ footprint p := List.mem_map_of_mem hmem
      have hsolo : solo m r0 (p.take (k t + 1)) = soloStep (solo m r0 (p.take (k t))) st := by
        rw [htake, solo, List.foldl_append]; rfl
      have hown := h.own t p hp
      refine ⟨fun x => if x = t then k t + 1 else k x, ?_⟩
      have estep : cfg.step t =
          ⟨(soloStep (cfg.mem, (solo m r0 (p.take (k t))).2) st).1,
            cfg.threads.set t ⟨(soloStep (cfg.mem, (solo m r0 (p.take (k t))).2) st).2, rest⟩⟩ := by
        simp only [Config.step, hth, hdrop, stepThread_cons]
      rw [estep]
      constructor
      · simp [h.len]
      · intro t' p' hp'
        simp only [List.getElem?_set]
        by_cases ht : t = t'
        · subst ht
          have : p' = p := by rw [hp] at hp'; exact (Option.some.inj hp').symm
          subst this
          simp only [if_true, htl, hsolo, hdrop']
          congr 2
          cases st with
          | load c => exact hown c hcell
          | store c f => rfl
        · have ht' : ¬ t' = t := fun e => ht e.symm
          simp only [ht, ht', if_false]
          exact h.thr t' p' hp'
      · intro t' p' hp' c' hc'
        by_cases ht : t' = t
        · subst ht
          have : p' = p := by rw [hp] at hp'; exact (Option.some.inj hp').symm
          subst this
          simp only [if_true, hsolo]
          cases st with
          | load c => exact hown c' hc'
          | store c f =>
            simp only [soloStep, Mem.set]
            split
            · rfl
            · exact hown c' hc'
        · simp only [ht, if_false]
          have hne : c' ≠ st.cell := by
            intro e
            exact disj_get hd hp hp' (fun e => ht e.symm) st.cell hcell (e ▸ hc')
          rw [← h.own t' p' hp' c' hc']
          cases st with
          | load c => rfl
          | store c f => simp only [soloStep, Mem.set]; exact if_neg hne
      · intro c' hc'
        have hne : c' ≠ st.cell := by
          intro e
          exact hc' p (List.mem_of_getElem? hp) (e ▸ hcell)
        rw [← h.other c' hc']
        cases st with
        | load c => rfl
        | store c f => simp only [soloStep, Mem.set]; exact if_neg hne

theorem inv_run {r0 : V} {m : Mem V} {progs : List (List (Step V))}
    (hd : DisjointFootprints progs) (sched : List Nat) :
    ∀ {k : Nat → Nat} {cfg : Config V}, Inv r0 m progs k cfg →
      ∃ k', Inv r0 m progs k' (cfg.run sched) := by
  induction sched with
  | nil => intro k cfg h; exact ⟨k, h⟩
  | cons t s ih =>
    intro k cfg h
    obtain ⟨k', h'⟩ := inv_step hd h t
    exact ih h'

/-- the memory of a finished configuration satisfying the invariant is determined cellwise -/
theorem inv_finished_mem {r0 : V} {m : Mem V} {progs : List (List (Step V))}
    {k : Nat → Nat} {cfg : Config V} (h : Inv r0 m progs k cfg) (hf : cfg.finished) (c : Nat) :
    (∀ (t : Nat) (p : List (Step V)), progs[t]? = some p → c ∈ footprint p →
      cfg.mem c = (solo m r0 p).1 c) ∧
    ((∀ p ∈ progs, c ∉ footprint p) → cfg.mem c = m c) := by
  refine ⟨?_, h.other c⟩
  intro t p hp hc
  have h1 := h.thr t p hp
  have h2 := hf _ (List.mem_of_getElem? h1)
  simp only [List.drop_eq_nil_iff] at h2
  have := h.own t p hp c hc
  rwa [List.take_of_length_le h2] at this

/-- the sequential schedule runs every thread to completion -/
theorem seqSchedule_finished (r0 : V) (m : Mem V) (progs : List (List (Step V))) :
    ((start r0 m progs).run (seqSchedule progs)).finished := by
  obtain ⟨_, ths, h2, h3⟩ := seq_run r0 progs 0 [] m rfl
  intro th hth
  have e : (start r0 m progs).run (seqSchedule progs) =
      (Config.mk m ([] ++ progs.map (fun p => ⟨r0, p⟩))).run
        ((progs.zipIdx 0).flatMap (fun pt => List.replicate pt.1.length pt.2)) := rfl
  rw [e, h2] at hth
  exact h3 th hth

/-- **disjoint_footprints_interleave.** If the threads' footprints are pairwise disjoint, every schedule
that runs all threads to completion leaves the same memory as running them one after the other. -/
theorem disjoint_footprints_interleave (r0 : V) (m : Mem V) (progs : List (List (Step V)))
    (hd : DisjointFootprints progs) (sched : List Nat)
    (hfin : ((start r0 m progs).run sched).finished) :
    ((start r0 m progs).run sched).mem = ((start r0 m progs).run (seqSchedule progs)).mem := by
  obtain ⟨k₁, h₁⟩ := inv_run hd sched (inv_start r0 m progs)
  obtain ⟨k₂, h₂⟩ := inv_run hd (seqSchedule progs) (inv_start r0 m progs)
  have hfin₂ := seqSchedule_finished r0 m progs
  funext c
  obtain ⟨a₁, b₁⟩ := inv_finished_mem h₁ hfin c
  obtain ⟨a₂, b₂⟩ := inv_finished_mem h₂ hfin₂ c
  by_cases hc : ∃ (t : Nat) (p : List (Step V)), progs[t]? = some p ∧ c ∈ footprint p
  · obtain ⟨t, p, hp, hcp⟩ := hc
    rw [a₁ t p hp hcp, a₂ t p hp hcp]
  · have hno : ∀ p ∈ progs, c ∉ footprint p := by
      intro p hp hcp
      obtain ⟨t, ht⟩ := List.mem_iff_getElem?.1 hp
      exact hc ⟨t, p, ht, hcp⟩
    rw [b₁ hno, b₂ hno]

/-! ### read-modify-write threads -/

/-- `x[c] += v` as two atomic steps -/
def rmw [Add V] (cv : Nat × V) : List (Step V) := [.load cv.1, .store cv.1 (fun r => r + cv.2)]

/-- a thread performing `x[c] += v` for each `(c, v)` of a list, in order -/
def rmwProg [Add V] (adds : List (Nat × V)) : List (Step V) := adds.flatMap rmw

/-- the same updates performed atomically, in order -/
def applyAdds [Add V] (m : Mem V) (adds : List (Nat × V)) : Mem V :=
  adds.foldl (fun m cv => m.set cv.1 (m cv.1 + cv.2)) m

theorem mem_footprint_rmwProg [Add V] (adds : List (Nat × V)) (c : Nat) :
    c ∈ footprint (rmwProg adds) ↔ c ∈ adds.map (·.1) := by
  induction adds with
  | nil => simp [footprint, rmwProg]
  | cons cv adds ih =>
    simp only [footprint, rmwProg] at ih
    simp [footprint, rmwProg, rmw, Step.cell, ih]

/-- a read-modify-write program run alone performs its updates in order -/
theorem solo_rmwProg [Add V] (m : Mem V) (r : V) (adds : List (Nat × V)) :
    (solo m r (rmwProg adds)).1 = applyAdds m adds := by
  induction adds generalizing m r with
  | nil => rfl
  | cons cv adds ih =>
    have e : rmwProg (cv :: adds) =
        .load cv.1 :: .store cv.1 (fun r => r + cv.2) :: rmwProg adds := rfl
    rw [e]
    exact ih _ _

/-- running read-modify-write threads one after the other performs all updates in order -/
theorem seq_rmw [Add V] (r0 : V) (m : Mem V) (addss : List (List (Nat × V))) :
    ((start r0 m (addss.map rmwProg)).run (seqSchedule (addss.map rmwProg))).mem =
      applyAdds m addss.flatten := by
  have h := (seq_run r0 (addss.map rmwProg) 0 [] m rfl).1
  have e : (start r0 m (addss.map rmwProg)).run (seqSchedule (addss.map rmwProg)) =
      (Config.mk m ([] ++ (addss.map rmwProg).map (fun p => ⟨r0, p⟩))).run
        (((addss.map rmwProg).zipIdx 0).flatMap (fun pt => List.replicate pt.1.length pt.2)) := rfl
  rw [e, h, seqMem, applyAdds, List.foldl_flatten, List.foldl_map]
  congr 1
  funext m' adds
  exact solo_rmwProg m' r0 adds

/-- read-modify-write threads on pairwise disjoint sets of cells: every complete schedule yields the
sequential result -/
theorem rmw_interleave [Add V] (r0 : V) (m : Mem V) (addss : List (List (Nat × V)))
    (hd : addss.Pairwise (fun a b => ∀ c ∈ a.map (·.1), c ∉ b.map (·.1))) (sched : List Nat)
    (hfin : ((start r0 m (addss.map rmwProg)).run sched).finished) :
    ((start r0 m (addss.map rmwProg)).run sched).mem = applyAdds m addss.flatten := by
  rw [← seq_rmw r0 m addss]
  apply disjoint_footprints_interleave r0 m _ _ sched hfin
  rw [DisjointFootprints, List.pairwise_map]
  refine hd.imp ?_
  intro a b hab c hc hc'
  rw [mem_footprint_rmwProg] at hc hc'
  exact hab c hc hc'

/-- **lost_update_witness.** Two threads doing `x[c] += v₁` and `x[c] += v₂` on the same cell: the
schedule load₀ load₁ store₀ store₁ completes both threads and loses the first update, so the
disjointness hypothesis above cannot be dropped. -/
theorem lost_update_witness (r0 : ℚ) (m : Mem ℚ) (c : Nat) (v₁ v₂ : ℚ) (hv : v₁ ≠ 0) :
    ∃ sched, ((start r0 m [rmwProg [(c, v₁)], rmwProg [(c, v₂)]]).run sched).finished ∧
      ((start r0 m [rmwProg [(c, v₁)], rmwProg [(c, v₂)]]).run sched).mem c ≠
        (applyAdds m [(c, v₁), (c, v₂)]) c := by
  refine ⟨[0, 1, 0, 1], ?_, ?_⟩
  · simp [Config.run, Config.step, stepThread, start, rmwProg, rmw, Config.finished]
  · simp [Config.run, Config.step, stepThread, start, rmwProg, rmw, Mem.set, applyAdds]
    exact hv

end AbacusVerif.Conc
