/-
  Helper lemmas for the passthrough theorems of C02 (Props/C02.lean).
-/
import AbacusVerif.Lemmas.C02Setup
import AbacusVerif.Model.C02Pass

namespace AbacusVerif.Fields
open AbacusVerif AbacusVerif.Units

variable {V : Type}

theorem removeCol_eq {h h' : Halos V} {n : String} (hr : removeCol h n = .ok h') :
    h'.val = h.val ∧ ∀ x ∈ cnames h', x ∈ cnames h := by
  unfold removeCol at hr
  split at hr
  · cases hr
    refine ⟨rfl, ?_⟩
    intro x hx
    simp only [cnames, List.mem_map, List.mem_filter] at hx ⊢
    obtain ⟨p, ⟨hp, _⟩, rfl⟩ := hx
    exact ⟨p, hp, rfl⟩
  · cases hr

/-- whenever re-indexing one subsample succeeds, every other column keeps its values and no other column appears -/
theorem reindexOne_val {O : ValOps V} {cleaned : Bool} {g g' : Halos V} {ab : String}
    (h : reindexOne O cleaned g ab = .ok g') :
    (∀ x, x ≠ "npstart" ++ ab → x ≠ "npout" ++ ab → g'.val x = g.val x) ∧
    (∀ x ∈ cnames g', x ∈ cnames g ∨ x = "npstart" ++ ab ∨ x = "npout" ++ ab) := by
  unfold reindexOne at h
  have fin : ∀ (gz : Halos V), gz.val = g.val → (∀ x ∈ cnames gz, x ∈ cnames g) →
      g' = { cols := gz.cols ++ [("npstart" ++ ab, ⟨.u, 64, []⟩), ("npout" ++ ab, ⟨.u, 32, []⟩)],
             val := fun m => if m == "npstart" ++ ab then O.app ("new:" ++ ("npstart" ++ ab)) []
                             else if m == "npout" ++ ab then O.app ("new:" ++ ("npout" ++ ab)) [] else gz.val m } →
      (∀ x, x ≠ "npstart" ++ ab → x ≠ "npout" ++ ab → g'.val x = g.val x) ∧
      (∀ x ∈ cnames g', x ∈ cnames g ∨ x = "npstart" ++ ab ∨ x = "npout" ++ ab) := by
    intro gz hv hm he
    subst he
    refine ⟨?_, ?_⟩
    · intro x n1 n2; simp [n1, n2, hv]
    · intro x hx
      simp only [cnames, List.map_append, List.mem_append, List.map_cons, List.map_nil, List.mem_cons,
        List.not_mem_nil, or_false] at hx
      rcases hx with hx | hx | hx
      · exact Or.inl (hm x hx)
      · exact Or.inr (Or.inl hx)
      · exact Or.inr (Or.inr hx)
  cases cleaned with
  | false =>
    simp only [bind, Except.bind, Bool.false_eq_true, if_false] at h
    cases h1 : g.read ("npout" ++ ab) with
    | error e => simp [h1] at h
    | ok v1 =>
      cases h2 : removeCol g ("npstart" ++ ab) with
      | error e => simp [h1, h2] at h
      | ok ga =>
        cases h3 : removeCol ga ("npout" ++ ab) with
        | error e => simp [h1, h2, h3] at h
        | ok gb =>
          simp only [h1, h2, h3, Except.ok.injEq] at h
          obtain ⟨va, ma⟩ := removeCol_eq h2
          obtain ⟨vb, mb⟩ := removeCol_eq h3
          exact fin gb (vb.trans va) (fun x hx => ma x (mb x hx)) h.symm
  | true =>
    simp only [bind, Except.bind, if_true] at h
    cases h1 : g.read ("npout" ++ ab) with
    | error e => simp [h1] at h
    | ok v1 =>
      cases h1' : g.read ("npout" ++ ab ++ "_merge") with
      | error e => simp [h1, h1'] at h
      | ok v2 =>
        cases h2 : removeCol g ("npstart" ++ ab) with
        | error e => simp [h1, h1', h2] at h
        | ok ga =>
          cases h3 : removeCol ga ("npout" ++ ab) with
          | error e => simp [h1, h1', h2, h3] at h
          | ok gb =>
            cases h4 : removeCol gb ("npstart" ++ ab ++ "_merge") with
            | error e => simp [h1, h1', h2, h3, h4] at h
            | ok gc =>
              cases h5 : removeCol gc ("npout" ++ ab ++ "_merge") with
              | error e => simp [h1, h1', h2, h3, h4, h5] at h
              | ok gd =>
                simp only [h1, h1', h2, h3, h4, h5, Except.ok.injEq] at h
                obtain ⟨va, ma⟩ := removeCol_eq h2
                obtain ⟨vb, mb⟩ := removeCol_eq h3
                obtain ⟨vc, mc⟩ := removeCol_eq h4
                obtain ⟨vd, md⟩ := removeCol_eq h5
                exact fin gd (vd.trans (vc.trans (vb.trans va)))
                  (fun x hx => ma x (mb x (mc x (md x hx)))) h.symm

/-- the same for the whole re-indexing -/
theorem reindexFold_val {O : ValOps V} {cleaned : Bool} : ∀ {abs : List String} {g g' : Halos V},
    abs.foldlM (reindexOne O cleaned) g = .ok g' →
    (∀ x, (∀ ab ∈ abs, x ≠ "npstart" ++ ab ∧ x ≠ "npout" ++ ab) → g'.val x = g.val x) ∧
    (∀ x ∈ cnames g', x ∈ cnames g ∨ ∃ ab ∈ abs, x = "npstart" ++ ab ∨ x = "npout" ++ ab)
  | [], g, g', h => by
    simp only [List.foldlM, pure, Except.pure, Except.ok.injEq] at h
    subst h
    exact ⟨fun _ _ => rfl, fun x hx => Or.inl hx⟩
  | a :: abs, g, g', h => by
    simp only [List.foldlM_cons, bind, Except.bind] at h
    cases h1 : reindexOne O cleaned g a with
    | error e => simp [h1] at h
    | ok g1 =>
      simp only [h1] at h
      obtain ⟨v1, m1⟩ := reindexOne_val h1
      obtain ⟨v2, m2⟩ := reindexFold_val h
      refine ⟨?_, ?_⟩
      · intro x hx
        rw [v2 x (fun ab hab => hx ab (List.mem_cons_of_mem _ hab)),
          v1 x (hx a List.mem_cons_self).1 (hx a List.mem_cons_self).2]
      · intro x hx
        rcases m2 x hx with hx | ⟨ab, hab, hx⟩
        · rcases m1 x hx with hx | hx
          · exact Or.inl hx
          · exact Or.inr ⟨a, List.mem_cons_self, hx⟩
        · exact Or.inr ⟨ab, List.mem_cons_of_mem _ hab, hx⟩

theorem reindexAll_val {O : ValOps V} {cleaned : Bool} {loadAB : List String} {haloLc : Bool} {g g' : Halos V}
    (h : reindexAll O cleaned loadAB haloLc g = .ok g') :
    (∀ x, (∀ ab ∈ loadAB, x ≠ "npstart" ++ ab ∧ x ≠ "npout" ++ ab) → g'.val x = g.val x) ∧
    (∀ x ∈ cnames g', x ∈ cnames g ∨ ∃ ab ∈ loadAB, x = "npstart" ++ ab ∨ x = "npout" ++ ab) := by
  unfold reindexAll at h
  split at h
  · cases h; exact ⟨fun _ _ => rfl, fun x hx => Or.inl hx⟩
  · split at h
    · cases h
    · exact reindexFold_val h

/-! ### the passthrough table -/

/-- dtype of column `c` in a passthrough table: the cleaned file's if it is opened and has the column, else
the halo_info file's -/
def ptDt (rawFile cleanFile : List (String × Dt)) (cleaned : Bool) (c : String) : Option Dt :=
  if cleaned then
    match dtLookup cleanFile c with
    | some d => some d
    | none => dtLookup rawFile c
  else dtLookup rawFile c

/-- the direct evaluation of a passthrough column: the raw column, in its file dtype.  No request in it. -/
def ptDenote (O : ValOps V) (rawFile cleanFile : List (String × Dt)) (cleaned : Bool) (c : String) : Option V :=
  (ptDt rawFile cleanFile cleaned c).map (fun d => O.cast d.kind d.bits (O.app ("raw:" ++ c) []))

theorem insertCol_mem_strong {cols : List (String × Dt)} {n : String} {d : Dt} {p : String × Dt}
    (h : p ∈ insertCol cols n d) : (p ∈ cols ∧ p.1 ≠ n) ∨ p = (n, d) := by
  unfold insertCol at h
  split at h
  · obtain ⟨q, hq, hqp⟩ := List.mem_map.mp h
    split at hqp
    · exact Or.inr hqp.symm
    · rename_i hne
      subst hqp
      exact Or.inl ⟨hq, by simpa using hne⟩
  · rename_i hany
    rcases List.mem_append.mp h with h | h
    · refine Or.inl ⟨h, ?_⟩
      intro he
      apply hany
      exact List.any_eq_true.mpr ⟨p, h, by simp [he]⟩
    · exact Or.inr (by simpa using h)

/-- the passthrough request as a predicate on file columns -/
theorem setupFieldsPT_spec (rawFile cleanFile : List (String × Dt)) (req : Req) (cleaned : Bool) (loadAB : List String) :
    ∃ q : String → Bool,
      setupFieldsPT rawFile cleanFile req cleaned loadAB =
        ((names rawFile).filter q, (if cleaned then names cleanFile else []).filter q) ∧
      (∀ x ∈ ptIndexNames loadAB, q x = true) := by
  cases req with
  | all =>
    refine ⟨fun _ => true, ?_, fun _ _ => rfl⟩
    simp only [setupFieldsPT]
    rw [List.filter_eq_self.mpr (fun _ _ => rfl), List.filter_eq_self.mpr (fun _ _ => rfl)]
  | default =>
    refine ⟨fun r => decide (r ∈ ["DEFAULT_FIELDS"] ++ ptIndexNames loadAB), rfl, ?_⟩
    intro x hx; simp [hx]
  | list l =>
    refine ⟨fun r => decide (r ∈ l ++ ptIndexNames loadAB), rfl, ?_⟩
    intro x hx; simp [hx]

/-- what a run of the allocation loop leaves: new entries with the looked-up dtype, old entries whose name was
not inserted again -/
theorem allocLoop_mem (file : List (String × Dt)) : ∀ (l : List String) (init r : List (String × Dt)),
    l.foldlM (fun cols c => allocStep (dtLookup file c) cols c) init = .ok r →
    ∀ p ∈ r, (p.1 ∈ l ∧ dtLookup file p.1 = some p.2) ∨ (p ∈ init ∧ ¬ p.1 ∈ l)
  | [], init, r, h, p, hp => by
    simp only [List.foldlM, pure, Except.pure, Except.ok.injEq] at h
    subst h; exact Or.inr ⟨hp, by simp⟩
  | c :: l, init, r, h, p, hp => by
    simp only [List.foldlM_cons, bind, Except.bind] at h
    cases hd : dtLookup file c with
    | none => simp [allocStep, hd] at h
    | some d =>
      simp only [allocStep, hd] at h
      rcases allocLoop_mem file l _ r h p hp with ⟨h1, h2⟩ | ⟨h1, h2⟩
      · exact Or.inl ⟨List.mem_cons_of_mem _ h1, h2⟩
      · rcases insertCol_mem_strong h1 with ⟨h3, h4⟩ | rfl
        · exact Or.inr ⟨h3, by simp [h4, h2]⟩
        · exact Or.inl ⟨List.mem_cons_self, hd⟩

/-- the allocation: succeeds on file columns; every entry has the dtype `ptDt` says, and the table has exactly the
selected columns -/
theorem allocatePT_spec (rawFile cleanFile : List (String × Dt)) (cleaned : Bool) (q : String → Bool) :
    ∃ cols, allocatePT rawFile cleanFile ((names rawFile).filter q)
        ((if cleaned then names cleanFile else []).filter q) = .ok cols ∧
      (∀ x, x ∈ names cols ↔ x ∈ (names rawFile).filter q ∨ x ∈ (if cleaned then names cleanFile else []).filter q) ∧
      (∀ p ∈ cols, ptDt rawFile cleanFile cleaned p.1 = some p.2) := by
  obtain ⟨r1, h1, n1⟩ := insertLoop_ok (fun c => dtLookup rawFile c) ((names rawFile).filter q) []
    (fun c hc => dtLookup_isSome (List.mem_filter.mp hc).1)
  obtain ⟨r2, h2, n2⟩ := insertLoop_ok (fun c => dtLookup cleanFile c) ((if cleaned then names cleanFile else []).filter q) r1
    (fun c hc => by
      have := (List.mem_filter.mp hc).1
      cases cleaned
      · simp at this
      · exact dtLookup_isSome (by simpa using this))
  refine ⟨r2, ?_, ?_, ?_⟩
  · unfold allocatePT; rw [h1]; exact h2
  · intro x; rw [n2 x, n1 x]; simp [names]
  · intro p hp
    rcases allocLoop_mem cleanFile _ r1 r2 h2 p hp with ⟨hm, hdt⟩ | ⟨hm, hnot⟩
    · -- a column of the cleaned file
      have hc : cleaned = true := by
        cases cleaned
        · simp at hm
        · rfl
      simp [ptDt, hc, hdt]
    · -- a column of the halo_info file that the cleaned file does not (or is not asked to) provide
      rcases allocLoop_mem rawFile _ [] r1 h1 p hm with ⟨hm1, hdt⟩ | ⟨hm1, _⟩
      · have hq : q p.1 = true := (List.mem_filter.mp hm1).2
        unfold ptDt
        cases hc : cleaned with
        | false => simpa using hdt
        | true =>
          simp only [if_true]
          cases hcl : dtLookup cleanFile p.1 with
          | none => simpa using hdt
          | some d' =>
            exfalso
            apply hnot
            rw [hc]
            exact List.mem_filter.mpr ⟨by simpa using dtLookup_names hcl, hq⟩
      · simp at hm1

/-- the loading loop writes the raw column, in the dtype of the table, into every listed column -/
theorem loadAllPT_spec (O : ValOps V) : ∀ (l : List String) (h h' : Halos V), loadAllPT O l h = .ok h' →
    h'.cols = h.cols ∧
    (∀ x ∈ l, ∃ d, dtLookup h.cols x = some d ∧ h'.val x = O.cast d.kind d.bits (O.app ("raw:" ++ x) [])) ∧
    (∀ x, ¬ x ∈ l → h'.val x = h.val x)
  | [], h, h', hl => by
    simp only [loadAllPT, Except.ok.injEq] at hl
    subst hl; exact ⟨rfl, by simp, fun _ _ => rfl⟩
  | f :: fs, h, h', hl => by
    unfold loadAllPT at hl
    cases hw : h.write O f (O.app ("raw:" ++ f) []) with
    | error e => simp [hw] at hl
    | ok h1 =>
      simp only [hw] at hl
      obtain ⟨c2, w2, k2⟩ := loadAllPT_spec O fs h1 h' hl
      unfold Halos.write at hw
      cases hd : dtLookup h.cols f with
      | none => simp [hd] at hw
      | some d =>
        simp only [hd, Except.ok.injEq] at hw
        subst hw
        refine ⟨c2, ?_, ?_⟩
        · intro x hx
          by_cases hxf : x ∈ fs
          · exact w2 x hxf
          · have hxe : x = f := by
              rcases List.mem_cons.mp hx with h0 | h0
              · exact h0
              · exact absurd h0 hxf
            subst hxe
            refine ⟨d, hd, ?_⟩
            rw [k2 x hxf]
            simp
        · intro x hx
          have h1 : ¬ x ∈ fs := fun h0 => hx (List.mem_cons_of_mem _ h0)
          have h2 : x ≠ f := fun h0 => hx (h0 ▸ List.mem_cons_self)
          rw [k2 x h1]
          simp [h2]

theorem loadAllPT_some (O : ValOps V) : ∀ (l : List String) (h : Halos V), (∀ x ∈ l, x ∈ cnames h) →
    ∃ h', loadAllPT O l h = .ok h'
  | [], h, _ => ⟨h, rfl⟩
  | f :: fs, h, hl => by
    obtain ⟨d, hd⟩ := dtLookup_some_of_mem (t := h.cols) (n := f) (by simpa [cnames, names] using hl f List.mem_cons_self)
    obtain ⟨h', hh⟩ := loadAllPT_some O fs
      { h with val := fun m => if m == f then O.cast d.kind d.bits (O.app ("raw:" ++ f) []) else h.val m }
      (fun x hx => hl x (List.mem_cons_of_mem _ hx))
    refine ⟨h', ?_⟩
    unfold loadAllPT Halos.write
    simp only [hd]
    exact hh

/-- the re-indexing succeeds when the index (and merge) columns of the loaded subsamples and, for cleaned
catalogs, `N_total` are in the table -/
theorem reindexAll_some (O : ValOps V) (cleaned : Bool) (loadAB : List String) (h : Halos V)
    (hAB : loadAB ∈ loadABs)
    (hidx : ∀ ab ∈ loadAB, ("npstart" ++ ab) ∈ cnames h ∧ ("npout" ++ ab) ∈ cnames h ∧
      (cleaned = true → ("npstart" ++ ab ++ "_merge") ∈ cnames h ∧ ("npout" ++ ab ++ "_merge") ∈ cnames h))
    (hNt : cleaned = true → "N_total" ∈ cnames h) :
    ∃ h1, reindexAll O cleaned loadAB false h = .ok h1 := by
  unfold reindexAll
  by_cases hc : loadAB.isEmpty = true
  · exact ⟨h, by simp [hc]⟩
  · simp only [Bool.false_or, hc, if_false]
    have fold : ∃ h1, loadAB.foldlM (reindexOne O cleaned) h = .ok h1 := by
      simp only [loadABs, List.mem_cons, List.not_mem_nil, or_false] at hAB
      rcases hAB with rfl | rfl | rfl | rfl
      · simp at hc
      · obtain ⟨i1, i2, i3⟩ := hidx "A" (by simp)
        obtain ⟨g1, hg1, _, _⟩ := reindexOne_ok O cleaned h "A" (Or.inl rfl) i1 i2 i3
        exact ⟨g1, by simp [List.foldlM, hg1, bind, Except.bind, pure, Except.pure]⟩
      · obtain ⟨i1, i2, i3⟩ := hidx "B" (by simp)
        obtain ⟨g1, hg1, _, _⟩ := reindexOne_ok O cleaned h "B" (Or.inr rfl) i1 i2 i3
        exact ⟨g1, by simp [List.foldlM, hg1, bind, Except.bind, pure, Except.pure]⟩
      · obtain ⟨i1, i2, i3⟩ := hidx "A" (by simp)
        obtain ⟨j1, j2, j3⟩ := hidx "B" (by simp)
        obtain ⟨g1, hg1, _, hn1⟩ := reindexOne_ok O cleaned h "A" (Or.inl rfl) i1 i2 i3
        have keep : ∀ x, x ∈ cnames h → x ≠ "npstart" ++ "A" ++ "_merge" → x ≠ "npout" ++ "A" ++ "_merge" →
            x ∈ cnames g1 := by
          intro x hx n1 n2
          exact (hn1 x).mpr (Or.inl ⟨hx, fun hh => by rcases hh.2 with e | e; exact n1 e; exact n2 e⟩)
        obtain ⟨g2, hg2, _, _⟩ := reindexOne_ok O cleaned g1 "B" (Or.inr rfl)
          (keep _ j1 (by decide) (by decide)) (keep _ j2 (by decide) (by decide))
          (fun hcl => ⟨keep _ (j3 hcl).1 (by decide) (by decide), keep _ (j3 hcl).2 (by decide) (by decide)⟩)
        exact ⟨g2, by simp [List.foldlM, hg1, hg2, bind, Except.bind, pure, Except.pure]⟩
    obtain ⟨h1, hf⟩ := fold
    refine ⟨h1, ?_⟩
    cases cleaned with
    | false => simp only [Bool.false_eq_true, if_false]; exact hf
    | true =>
      obtain ⟨v, hv⟩ := read_ok (hNt rfl)
      simp only [if_true, hv]; exact hf

end AbacusVerif.Fields
