/-
  Helper lemmas for C04: the bit-vector expressions of Model/C04.lean as arithmetic on `toNat`
  (division and remainder by powers of two), and the generic kernel loop as a closed form.
-/
import AbacusVerif.Model.C04
import AbacusVerif.Lemmas.Num

namespace AbacusVerif.Bitpacked
open AbacusVerif AbacusVerif.BitConsts

/-! ### RVint -/

theorem toInt32_cond (w : BitVec 32) :
    w.toInt = if w.toNat < 2147483648 then (w.toNat : Int) else (w.toNat : Int) - 4294967296 := by
  rw [BitVec.toInt_eq_toNat_cond]
  split <;> split <;> omega

theorem toNat_signExtend64 (w : BitVec 32) :
    (w.signExtend 64).toNat = w.toNat + (if w.toNat < 2147483648 then 0 else 18446744069414584320) := by
  rw [BitVec.toNat_signExtend, BitVec.toNat_setWidth_of_le (by omega), BitVec.msb_eq_decide]
  have := w.isLt
  by_cases h : w.toNat < 2147483648
  · simp [h]
  · simp [h]

theorem rvPos_eq_div (w : BitVec 32) : rvPos w = w.toInt / 4096 := by
  unfold rvPos
  rw [BitVec.toInt_sshiftRight, BitVec.toInt_signExtend_of_le (by omega), Int.shiftRight_eq_div_pow]
  simp [rvShift]

theorem rvVel_eq_mod (w : BitVec 32) : rvVel w = ((w.toNat % 4096 : Nat) : Int) - 2048 := by
  unfold rvVel
  have hand : ((w.signExtend 64) &&& BitVec.ofNat 64 rvVelMask).toNat = w.toNat % 4096 := by
    rw [BitVec.toNat_and, toNat_signExtend64, BitVec.toNat_ofNat]
    have h1 : rvVelMask % 2 ^ 64 = 2 ^ 12 - 1 := by decide
    rw [h1, Nat.and_two_pow_sub_one_eq_mod]
    split <;> omega
  have hlt : 2 * ((w.signExtend 64) &&& BitVec.ofNat 64 rvVelMask).toNat < 2 ^ 64 := by
    rw [hand]; omega
  rw [BitVec.toInt_eq_toNat_of_lt hlt, hand]
  simp [rvVelOffset]

/-! ### aux words -/

/-- `(a &&& (2^n - 1) * 2^s) >>> s = a / 2^s % 2^n` -/
theorem and_shift_field (a mask s n : Nat) (hm : mask >>> s = 2 ^ n - 1) :
    (a &&& mask) >>> s = a / 2 ^ s % 2 ^ n := by
  rw [Nat.shiftRight_and_distrib, hm, Nat.and_two_pow_sub_one_eq_mod, Nat.shiftRight_eq_div_pow]

theorem field_toNat (w : BitVec 64) (mask s n : Nat) (hlt : mask < 2 ^ 64) (hm : mask >>> s = 2 ^ n - 1) :
    (field w mask s).toNat = w.toNat / 2 ^ s % 2 ^ n := by
  unfold field
  rw [BitVec.toNat_ushiftRight, BitVec.toNat_and, BitVec.toNat_ofNat, Nat.mod_eq_of_lt hlt,
    and_shift_field _ _ _ _ hm]


theorem lagrCoord_eq (k : Fin 3) (w : BitVec 64) :
    lagrCoord k w = w.toNat / 2 ^ (16 * k.val) % 2 ^ 15 := by
  unfold lagrCoord
  match k with
  | 0 => exact field_toNat w _ _ 15 (by decide) (by decide)
  | 1 => exact field_toNat w _ _ 15 (by decide) (by decide)
  | 2 => exact field_toNat w _ _ 15 (by decide) (by decide)

theorem lagrIdx_eq (k : Fin 3) (w : BitVec 64) : lagrIdx k w = (lagrCoord k w : Int) := by
  have h := lagrCoord_eq k w
  have hlt : lagrCoord k w < 2 ^ 15 := by rw [h]; exact Nat.mod_lt _ (by decide)
  unfold lagrIdx
  unfold lagrCoord at hlt ⊢
  rw [BitVec.toInt_setWidth, Int.bmod_def]
  generalize (field w (lagrMask k) (lagrShift k)).toNat = a at hlt
  omega

theorem densField_eq (w : BitVec 64) : densField w = w.toNat / 2 ^ 49 % 2 ^ 10 :=
  field_toNat w _ _ 10 (by decide) (by decide)

theorem tagged_eq (w : BitVec 64) : tagged w = w.toNat / 2 ^ 48 % 2 := by
  unfold tagged
  rw [BitVec.toNat_setWidth, BitVec.toNat_and, BitVec.toNat_ushiftRight, BitVec.toNat_ofNat]
  have h1 : tagMask % 2 ^ 64 = 2 ^ 1 - 1 := by decide
  rw [h1, Nat.and_two_pow_sub_one_eq_mod, Nat.shiftRight_eq_div_pow]
  simp only [AUXTAGGED]
  omega

theorem pid_toNat (w : BitVec 64) : (w &&& BitVec.ofNat 64 AUXPID).toNat = w.toNat &&& AUXPID := by
  rw [BitVec.toNat_and, BitVec.toNat_ofNat, Nat.mod_eq_of_lt (by decide)]

theorem pid_eq (w : BitVec 64) : pid w = ((w.toNat &&& AUXPID : Nat) : Int) := by
  unfold pid
  have hle : (w &&& BitVec.ofNat 64 AUXPID).toNat ≤ AUXPID := by
    rw [pid_toNat]; exact Nat.and_le_right
  have : AUXPID < 2 ^ 62 := by decide
  rw [BitVec.toInt_eq_toNat_of_lt (by omega), pid_toNat]

/-- the id mask has exactly the bits `i < 47` with `i % 16 < 15` -/
theorem auxpid_testBit (i : Nat) : AUXPID.testBit i = decide (i < 47 ∧ i % 16 < 15) := by
  by_cases h : i < 48
  · have : ∀ j : Fin 48, AUXPID.testBit j.val = decide (j.val < 47 ∧ j.val % 16 < 15) := by decide
    exact this ⟨i, h⟩
  · have h48 : AUXPID < 2 ^ 48 := by decide
    have : AUXPID < 2 ^ i := Nat.lt_of_lt_of_le h48 (Nat.pow_le_pow_right (by decide) (by omega))
    rw [Nat.testBit_lt_two_pow this]
    simp; omega

/-! ### the kernel loop in closed form -/

/-- what one output holds after the loop ran over `xs` starting at row `i` -/
def slotWrites {ι : Type} (s : Slot ι) (i : Nat) (xs : List ι) : Writes :=
  match s.rows with
  | none => []
  | some _ => (List.range' i xs.length).zip (xs.map s.f)

/-- all rows `0 … N-1`, row `i` holding `f (xs[i])` -/
def fullWrites {ι : Type} (f : ι → Val) (xs : List ι) : Writes := (List.range xs.length).zip (xs.map f)

theorem slotWrites_some {ι : Type} (r : Nat) (f : ι → Val) (xs : List ι) :
    slotWrites ⟨some r, f⟩ 0 xs = fullWrites f xs := by
  simp [slotWrites, fullWrites, List.range_eq_range']

theorem slotWrites_none {ι : Type} (f : ι → Val) (xs : List ι) : slotWrites ⟨none, f⟩ 0 xs = [] := rfl

theorem idx_ok {n i : Nat} (h : i < n) : idx n (i : Int) = .ok i := by
  unfold idx; rw [pyIndex_nonneg h]

theorem idx_oob {n i : Nat} (h : n ≤ i) : idx n (i : Int) = .error .oob := by
  unfold idx pyIndex
  have h0 : (0 : Int) ≤ (i : Int) := Int.natCast_nonneg i
  simp only [h0, if_true, Int.toNat_natCast]
  have : ¬ i < n := by omega
  simp [this]

/-- every requested output has more than `i` rows -/
def Fits {ι : Type} (st : List (Slot ι × Writes)) (m : Nat) : Prop :=
  ∀ p ∈ st, ∀ r, p.1.rows = some r → m ≤ r

theorem stepSlots_ok {ι : Type} (i : Nat) (x : ι) (st : List (Slot ι × Writes)) (h : Fits st (i + 1)) :
    stepSlots i x st = .ok (st.map (fun p => (p.1, p.2 ++ slotWrites p.1 i [x]))) := by
  induction st with
  | nil => rfl
  | cons p rest ih =>
    obtain ⟨s, acc⟩ := p
    have hrest : Fits rest (i + 1) := fun q hq r hr => h q (List.mem_cons_of_mem _ hq) r hr
    have ih' := ih hrest
    unfold stepSlots
    cases hr : s.rows with
    | none =>
      simp only [ih', List.map_cons, slotWrites, hr, List.append_nil]
    | some n =>
      have hn : i + 1 ≤ n := h (s, acc) (List.mem_cons_self) n hr
      simp only [idx_ok (show i < n by omega), ih', List.map_cons, slotWrites, hr]
      simp

theorem stepSlots_err {ι : Type} (i : Nat) (x : ι) (st : List (Slot ι × Writes))
    (h : ∃ p ∈ st, ∃ r, p.1.rows = some r ∧ r ≤ i) : stepSlots i x st = .error .oob := by
  induction st with
  | nil => obtain ⟨p, hp, _⟩ := h; cases hp
  | cons p rest ih =>
    obtain ⟨s, acc⟩ := p
    unfold stepSlots
    cases hr : s.rows with
    | none =>
      have : ∃ p ∈ rest, ∃ r, p.1.rows = some r ∧ r ≤ i := by
        obtain ⟨q, hq, r, hqr, hle⟩ := h
        rcases List.mem_cons.mp hq with rfl | hq'
        · simp [hr] at hqr
        · exact ⟨q, hq', r, hqr, hle⟩
      simp only [ih this]
    | some n =>
      by_cases hn : n ≤ i
      · simp only [idx_oob hn]
      · have : ∃ p ∈ rest, ∃ r, p.1.rows = some r ∧ r ≤ i := by
          obtain ⟨q, hq, r, hqr, hle⟩ := h
          rcases List.mem_cons.mp hq with rfl | hq'
          · simp [hr] at hqr; omega
          · exact ⟨q, hq', r, hqr, hle⟩
        simp only [idx_ok (show i < n by omega), ih this]

theorem runSlots_ok {ι : Type} (xs : List ι) : ∀ (i : Nat) (st : List (Slot ι × Writes)),
    Fits st (i + xs.length) →
    runSlots i xs st = .ok (st.map (fun p => (p.1, p.2 ++ slotWrites p.1 i xs))) := by
  induction xs with
  | nil =>
    intro i st _
    unfold runSlots
    congr 1
    conv => lhs; rw [← List.map_id st]
    apply List.map_congr_left
    intro p _
    unfold slotWrites
    cases p.1.rows <;> simp
  | cons x xs ih =>
    intro i st h
    have h1 : Fits st (i + 1) := fun p hp r hr => by
      have := h p hp r hr; simp at this; omega
    unfold runSlots
    simp only [stepSlots_ok i x st h1]
    have h2 : Fits (st.map (fun p => (p.1, p.2 ++ slotWrites p.1 i [x]))) (i + 1 + xs.length) := by
      intro q hq r hr
      obtain ⟨p, hp, rfl⟩ := List.mem_map.mp hq
      have := h p hp r hr; simp at this; omega
    rw [ih (i + 1) _ h2, List.map_map]
    congr 1
    apply List.map_congr_left
    intro p _
    simp only [Function.comp, slotWrites]
    cases p.1.rows with
    | none => simp
    | some n => simp [List.range'_succ]

theorem runSlots_err {ι : Type} (xs : List ι) : ∀ (i : Nat) (st : List (Slot ι × Writes)),
    (∃ p ∈ st, ∃ r, p.1.rows = some r ∧ r < i + xs.length) → (∀ p ∈ st, ∀ r, p.1.rows = some r → i ≤ r) →
    runSlots i xs st = .error .oob := by
  induction xs with
  | nil =>
    intro i st h hge
    obtain ⟨p, hp, r, hr, hlt⟩ := h
    have := hge p hp r hr
    simp at hlt; omega
  | cons x xs ih =>
    intro i st h hge
    unfold runSlots
    by_cases hfit : Fits st (i + 1)
    · simp only [stepSlots_ok i x st hfit]
      apply ih
      · obtain ⟨p, hp, r, hr, hlt⟩ := h
        refine ⟨(p.1, p.2 ++ slotWrites p.1 i [x]), List.mem_map.mpr ⟨p, hp, rfl⟩, r, hr, ?_⟩
        simp at hlt; omega
      · intro q hq r hr
        obtain ⟨p, hp, rfl⟩ := List.mem_map.mp hq
        exact hfit p hp r hr
    · have : ∃ p ∈ st, ∃ r, p.1.rows = some r ∧ r ≤ i := by
        unfold Fits at hfit
        simp only [not_forall] at hfit
        obtain ⟨p, hp, r, hr, hlt⟩ := hfit
        exact ⟨p, hp, r, hr, by omega⟩
      simp only [stepSlots_err i x st this]

end AbacusVerif.Bitpacked
