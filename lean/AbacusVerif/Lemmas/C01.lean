/-
  Helper lemmas for the catalog model (Props/C01.lean and Props/C03.lean hold the property theorems).
-/
import AbacusVerif.Model.C01
import AbacusVerif.Props.C19

namespace AbacusVerif.Catalog
open AbacusVerif

/-! ### totals, offsets, the C19 cumsum -/

@[simp] theorem total_nil : total [] = 0 := rfl
@[simp] theorem total_cons (a : Nat) (l : List Nat) : total (a :: l) = a + total l := rfl

theorem total_append (a b : List Nat) : total (a ++ b) = total a + total b := by
  induction a with
  | nil => simp
  | cons x a ih => simp [ih]; omega

@[simp] theorem offsets_nil (off : Nat) : offsets off [] = [off] := rfl
@[simp] theorem offsets_cons (off n : Nat) (l : List Nat) :
    offsets off (n :: l) = off :: offsets (off + n) l := rfl

@[simp] theorem offsets_length (off : Nat) (l : List Nat) : (offsets off l).length = l.length + 1 := by
  induction l generalizing off with
  | nil => rfl
  | cons n l ih => simp [ih]

/-- tail of `offsets` -/
def offsetsTail (off : Nat) : List Nat → List Nat
  | [] => []
  | n :: ns => offsets (off + n) ns

theorem offsets_eq (off : Nat) (l : List Nat) : offsets off l = off :: offsetsTail off l := by
  cases l <;> rfl

theorem psum_cons_succ (off a : Nat) (as : List Nat) (k : Nat) :
    Cumsum.psum off (a :: as) (k + 1) = Cumsum.psum (off + a) as k := by
  simp [Cumsum.psum]

theorem map_psum_eq_offsets (off : Nat) (arr : List Nat) :
    (List.range (arr.length + 1)).map (Cumsum.psum off arr) = offsets off arr := by
  induction arr generalizing off with
  | nil => simp [Cumsum.psum]
  | cons a as ih =>
    rw [List.length_cons, List.range_succ_eq_map, List.map_cons, List.map_map, offsets_cons]
    congr 1
    rw [← ih (off + a)]
    apply List.map_congr_left
    intro k _
    simp [psum_cons_succ]

theorem psum_all (off : Nat) (arr : List Nat) : Cumsum.psum off arr arr.length = off + total arr := by
  induction arr generalizing off with
  | nil => simp [Cumsum.psum]
  | cons a as ih => rw [List.length_cons, psum_cons_succ, ih]; simp; omega

/-- the C19 routine with `initial = final = True` on an output of length `N+1` returns the running starts and
the grand total -/
theorem cumsumArr_eq (arr : List Nat) (off : Nat) :
    cumsumArr arr off = .ok (offsets off arr, off + total arr) := by
  have hlen : ((List.replicate (arr.length + 1) 0 : List Nat).length : Int) =
      Cumsum.expectedLen arr.length true true := by
    simp [Cumsum.expectedLen, Cumsum.b2n]
  obtain ⟨s, hs, htot, _, _, _⟩ := Cumsum.cumsum_spec arr (arr.length + 1) true true off (by
    simpa using hlen)
  obtain ⟨s', hs', hout⟩ := Cumsum.cumsum_output arr (List.replicate (arr.length + 1) 0) true true off hlen
  simp only [List.length_replicate] at hs'
  rw [hs] at hs'
  cases hs'
  unfold cumsumArr
  rw [hs]
  simp only [hout, htot, psum_all]
  congr 2
  simp [Cumsum.selected, map_psum_eq_offsets]

theorem diff_offsets (off : Nat) (l : List Nat) : diff (offsets off l) = l := by
  induction l generalizing off with
  | nil => rfl
  | cons n l ih =>
    rw [offsets_cons, offsets_eq (off + n) l, diff, ← offsets_eq, ih]
    congr 1
    omega

theorem lastOf_offsets (off : Nat) (l : List Nat) : lastOf (offsets off l) = .ok (off + total l) := by
  unfold lastOf
  rw [pyIndex_neg_one (by simp)]
  simp only [offsets_length, Nat.add_sub_cancel]
  have : (offsets off l)[l.length]? = some (off + total l) := by
    induction l generalizing off with
    | nil => simp
    | cons n l ih =>
      rw [offsets_cons, List.length_cons, List.getElem?_cons_succ, ih, total_cons]
      congr 1
      omega
  rw [this]

/-! ### slices -/

theorem pySlice_length {β} (a : List β) (lo n : Nat) (h : n = 0 ∨ lo + n ≤ a.length) :
    (pySlice a lo (lo + n)).length = n := by
  unfold pySlice
  simp only [Nat.add_sub_cancel_left, List.length_take, List.length_drop]
  omega

theorem pySlice_mid {β} (pre k post : List β) :
    pySlice (pre ++ k ++ post) pre.length (pre.length + k.length) = k := by
  unfold pySlice
  simp [List.append_assoc]

theorem take_offsets (off : Nat) (b c : List Nat) :
    (offsets off (b ++ c)).take (b.length + 1) = offsets off b := by
  induction b generalizing off with
  | nil => simp [offsets_eq off c]
  | cons x b ih => simp [ih]

theorem offsets_slice (off : Nat) (a b c : List Nat) :
    pySlice (offsets off (a ++ b ++ c)) a.length (a.length + b.length + 1) = offsets (off + total a) b := by
  unfold pySlice
  induction a generalizing off with
  | nil => simpa using take_offsets off b c
  | cons x a ih =>
    have := ih (off + x)
    simp only [List.cons_append, offsets_cons, List.length_cons, List.drop_succ_cons, total_cons]
    rw [show a.length + 1 + b.length + 1 - (a.length + 1) = a.length + b.length + 1 - a.length by omega]
    rw [this]
    congr 1
    omega

/-! ### the zipper -/

/-- the reads of a row have exactly the lengths the index columns say -/
def inRange {α} (X : Sub) (part cl : List α) (r : Row) : Prop :=
  (r.1.np X = 0 ∨ r.1.start X + r.1.np X ≤ part.length) ∧
  (∀ c, r.2 = some c → c.mNp X = 0 ∨ c.mStart X + c.mNp X ≤ cl.length)

theorem rowParts_length {α} (X : Sub) (part cl : List α) (r : Row) (h : inRange X part cl r) :
    (rowParts X part cl r).length = cnt X r := by
  unfold rowParts cnt
  rw [List.length_append, pySlice_length _ _ _ h.1]
  cases hc : r.2 with
  | none => simp
  | some c => simp only []; rw [pySlice_length _ _ _ (h.2 c hc)]

theorem zip_range'_append {β} (s : Nat) (l1 l2 : List β) :
    (List.range' s l1.length).zip l1 ++ (List.range' (s + l1.length) l2.length).zip l2 =
      (List.range' s (l1 ++ l2).length).zip (l1 ++ l2) := by
  rw [List.length_append, ← List.range'_append_1, List.zip_append (by simp)]

theorem zipRows_ok {α} (rawCol : Bool) (nSub : Nat) (X : Sub) (part cl : List α) :
    ∀ (rows : List Row) (base : Nat), (∀ r ∈ rows, inRange X part cl r) →
      base + total (rows.map (cnt X)) ≤ nSub →
      zipRows rawCol nSub X part cl rows (offsets base (rows.map (cnt X))) =
        .ok ((List.range' base (rows.flatMap (rowParts X part cl)).length).zip
              (rows.flatMap (rowParts X part cl))) := by
  intro rows
  induction rows with
  | nil => intro base _ _; simp [zipRows]
  | cons r rs ih =>
    intro base hin hle
    have hr := hin r (by simp)
    have hlen := rowParts_length X part cl r hr
    simp only [List.map_cons, total_cons] at hle
    rw [List.map_cons, offsets_cons, offsets_eq (base + cnt X r)]
    unfold zipRows
    rw [← offsets_eq]
    have h1 : min base nSub = base := by omega
    have h2 : min (base + cnt X r) nSub - base = cnt X r := by omega
    simp only [h1, h2]
    have hp : (pySlice part (r.1.start X) (r.1.start X + r.1.np X)).length = r.1.np X :=
      pySlice_length _ _ _ hr.1
    have hcnt : cnt X r = r.1.np X + (match r.2 with | some c => c.mNp X | none => 0) := rfl
    have ha1 : assign rawCol base (cnt X r) (pySlice part (r.1.start X) (r.1.start X + r.1.np X)) =
        .ok ((List.range' base (r.1.np X)).zip (pySlice part (r.1.start X) (r.1.start X + r.1.np X))) := by
      unfold assign
      rw [hp, if_pos (by omega)]
    rw [ha1]
    simp only []
    rw [ih (base + cnt X r) (fun r' h' => hin r' (by simp [h'])) (by omega)]
    simp only [List.flatMap_cons]
    generalize hP : pySlice part (r.1.start X) (r.1.start X + r.1.np X) = P at *
    generalize hR : rs.flatMap (rowParts X part cl) = R at *
    cases hc : r.2 with
    | none =>
      simp only []
      have hrp : rowParts X part cl r = P := by simp [rowParts, hc, hP]
      have hcnt' : cnt X r = r.1.np X := by rw [hcnt, hc]; exact Nat.add_zero _
      rw [hrp, hcnt', List.append_nil]
      have e := zip_range'_append base P R
      rw [hp] at e
      rw [e]
    | some c =>
      simp only []
      generalize hM : pySlice cl (c.mStart X) (c.mStart X + c.mNp X) = M at *
      have hm : M.length = c.mNp X := by
        rw [← hM]; exact pySlice_length _ _ _ (hr.2 c hc)
      have hcnt' : cnt X r = r.1.np X + c.mNp X := by rw [hcnt, hc]
      have ha2 : assign rawCol (base + min (r.1.np X) (cnt X r)) (cnt X r - r.1.np X) M =
          .ok ((List.range' (base + r.1.np X) (c.mNp X)).zip M) := by
        unfold assign
        rw [hm, if_pos (by omega), show min (r.1.np X) (cnt X r) = r.1.np X by omega]
      rw [ha2]
      simp only []
      have hrp : rowParts X part cl r = P ++ M := by simp [rowParts, hc, hP, hM]
      rw [hrp]
      have e1 := zip_range'_append base P M
      rw [hp, hm] at e1
      rw [e1]
      have e2 := zip_range'_append base (P ++ M) R
      rw [← e2]
      congr 3
      rw [List.length_append, hp, hm, hcnt']

theorem flatMap_rowParts_length {α} (X : Sub) (part cl : List α) (rows : List Row)
    (h : ∀ r ∈ rows, inRange X part cl r) :
    (rows.flatMap (rowParts X part cl)).length = total (rows.map (cnt X)) := by
  induction rows with
  | nil => rfl
  | cons r rs ih =>
    simp only [List.flatMap_cons, List.length_append, List.map_cons, total_cons]
    rw [rowParts_length X part cl r (h r (by simp)), ih (fun r' h' => h r' (by simp [h']))]

/-- everything the zipper reads for subsample X, superslab by superslab, row by row -/
def slabParts {α} (X : Sub) (slabs : List (Slab α)) (kz : List (List Row)) : List α :=
  (slabs.zip kz).flatMap (fun p => p.2.flatMap (rowParts X (p.1.part X) (p.1.cleanPart X)))

theorem zipSlabs_ok {α} (rawCol : Bool) (nSub : Nat) (X : Sub) (tblZ : List Row) (off : Nat) :
    ∀ (slabs : List (Slab α)) (kz : List (List Row)) (pre : List Row),
      slabs.length = kz.length →
      tblZ = pre ++ kz.flatten →
      (∀ p ∈ slabs.zip kz, ∀ r ∈ p.2, inRange X (p.1.part X) (p.1.cleanPart X) r) →
      off + total (tblZ.map (cnt X)) ≤ nSub →
      zipSlabs rawCol nSub X tblZ (offsets off (tblZ.map (cnt X))) slabs
          (offsets pre.length (kz.map List.length)) =
        .ok ((List.range' (off + total (pre.map (cnt X))) (slabParts X slabs kz).length).zip
              (slabParts X slabs kz)) := by
  intro slabs
  induction slabs with
  | nil =>
    intro kz pre hl _ _ _
    cases kz with
    | nil => simp [zipSlabs, slabParts]
    | cons _ _ => simp at hl
  | cons s ss ih =>
    intro kz pre hl htbl hin hle
    cases kz with
    | nil => simp at hl
    | cons k kz' =>
      simp only [List.length_cons, Nat.add_right_cancel_iff] at hl
      simp only [List.flatten_cons] at htbl
      rw [List.map_cons, offsets_cons, offsets_eq (pre.length + k.length)]
      unfold zipSlabs
      rw [← offsets_eq]
      have htbl' : tblZ = pre ++ k ++ kz'.flatten := by rw [htbl, List.append_assoc]
      have hrows : pySlice tblZ pre.length (pre.length + k.length) = k := by
        rw [htbl']; exact pySlice_mid pre k _
      have hswo : pySlice (offsets off (tblZ.map (cnt X))) pre.length (pre.length + k.length + 1) =
          offsets (off + total (pre.map (cnt X))) (k.map (cnt X)) := by
        rw [htbl', List.map_append, List.map_append]
        have := offsets_slice off (pre.map (cnt X)) (k.map (cnt X)) (kz'.flatten.map (cnt X))
        simpa using this
      have hk : ∀ r ∈ k, inRange X (s.part X) (s.cleanPart X) r :=
        fun r hr => hin (s, k) (by simp) r hr
      have htot : total (tblZ.map (cnt X)) =
          total (pre.map (cnt X)) + total (k.map (cnt X)) + total (kz'.flatten.map (cnt X)) := by
        rw [htbl', List.map_append, List.map_append, total_append, total_append]
      simp only [hrows, hswo]
      rw [zipRows_ok rawCol nSub X (s.part X) (s.cleanPart X) k _ hk (by omega)]
      simp only []
      have hpre : (pre ++ k).length = pre.length + k.length := by simp
      rw [← hpre]
      rw [ih kz' (pre ++ k) hl htbl' (fun p hp r hr => hin p (by simp [hp]) r hr) hle]
      simp only []
      have hslab : slabParts X (s :: ss) (k :: kz') =
          k.flatMap (rowParts X (s.part X) (s.cleanPart X)) ++ slabParts X ss kz' := by
        simp [slabParts]
      rw [hslab]
      have e := zip_range'_append (off + total (pre.map (cnt X)))
        (k.flatMap (rowParts X (s.part X) (s.cleanPart X))) (slabParts X ss kz')
      rw [← e]
      congr 3
      rw [flatMap_rowParts_length X _ _ k hk, List.map_append, total_append, Nat.add_assoc]

/-! ### the specification side: what a load must return -/

def cntsOf (X : Sub) (kept : List (List Row)) : List Nat := kept.flatten.map (ownCnt X)

/-- the particles of subsample X in table order: superslab by superslab, kept row by kept row, each
halo's own particles -/
def partsOf {α} (X : Sub) (slabs : List (Slab α)) (kept : List (List Row)) : List α :=
  (slabs.zip kept).flatMap (fun p => p.2.flatMap (ownParts X (p.1.part X) (p.1.cleanPart X)))

def allParts {α} (o : Opts) (slabs : List (Slab α)) (kept : List (List Row)) : List α :=
  (loadList o).flatMap (fun X => partsOf X slabs kept)

/-- where the block of subsample X starts in the table: A at 0, B after all of A -/
def offOf (o : Opts) (kept : List (List Row)) : Sub → Nat
  | .A => 0
  | .B => if o.loadA then total (cntsOf .A kept) else 0

def specRes {α} (o : Opts) (slabs : List (Slab α)) (kept : List (List Row)) : Result α :=
  { rows := kept.flatten, nPer := kept.map List.length,
    idx := (loadList o).map (fun X => (X, (offsets (offOf o kept X) (cntsOf X kept)).dropLast, cntsOf X kept)),
    sub := (allParts o slabs kept).map some }

def specW {α} (o : Opts) (slabs : List (Slab α)) (kept : List (List Row)) : List (Nat × α) :=
  (List.range' 0 (allParts o slabs kept).length).zip (allParts o slabs kept)

/-- the final table row: zeroed for every loaded subsample, in load order -/
def zOf (subs : List Sub) (r : Row) : Row := subs.foldl (fun r X => zeroCleaned X r) r

theorem zeroCleaned_none (X : Sub) (h : Halo) : zeroCleaned X (h, none) = (h, none) := rfl

theorem zeroCleaned_zero (X : Sub) (h : Halo) (c : Clean) (hc : c.nTotal = 0) :
    zeroCleaned X (h, some c) = (h.zeroNp X, some c) := by simp [zeroCleaned, hc]

theorem zeroCleaned_pos (X : Sub) (h : Halo) (c : Clean) (hc : ¬ c.nTotal = 0) :
    zeroCleaned X (h, some c) = (h, some c) := by simp [zeroCleaned, hc]

theorem cnt_zOf (o : Opts) (X : Sub) (hX : X ∈ loadList o) (r : Row) :
    cnt X (zOf (loadList o) r) = ownCnt X r := by
  rcases r with ⟨h, _ | c⟩
  · cases X <;> cases ha : o.loadA <;> cases hb : o.loadB <;>
      simp [loadList, ha, hb, zOf, zeroCleaned_none, cnt, ownCnt]
  · by_cases hc : c.nTotal = 0 <;> cases X <;> cases ha : o.loadA <;> cases hb : o.loadB <;>
      simp [loadList, ha, hb] at hX <;>
      simp [loadList, ha, hb, zOf, zeroCleaned_zero, zeroCleaned_pos, hc, cnt, ownCnt,
        Halo.np, Halo.zeroNp]

theorem rowParts_zOf {α} (o : Opts) (X : Sub) (hX : X ∈ loadList o) (part cl : List α) (r : Row) :
    rowParts X part cl (zOf (loadList o) r) = ownParts X part cl r := by
  rcases r with ⟨h, _ | c⟩
  · cases X <;> cases ha : o.loadA <;> cases hb : o.loadB <;>
      simp [loadList, ha, hb, zOf, zeroCleaned_none, rowParts, ownParts]
  · by_cases hc : c.nTotal = 0 <;> cases X <;> cases ha : o.loadA <;> cases hb : o.loadB <;>
      simp [loadList, ha, hb] at hX <;>
      simp [loadList, ha, hb, zOf, zeroCleaned_zero, zeroCleaned_pos, hc, rowParts, ownParts,
        Halo.np, Halo.zeroNp, Halo.start, pySlice]

theorem inRange_zOf {α} (o : Opts) (X : Sub) (hX : X ∈ loadList o) (part cl : List α) (r : Row)
    (hwf : rowWF X part cl r = true) : inRange X part cl (zOf (loadList o) r) := by
  rcases r with ⟨h, _ | c⟩
  · simp [rowWF] at hwf
    cases X <;> cases ha : o.loadA <;> cases hb : o.loadB <;>
      simp [loadList, ha, hb, zOf, zeroCleaned_none, inRange] <;> omega
  · by_cases hc : c.nTotal = 0 <;> simp [rowWF, hc] at hwf <;>
      cases X <;> cases ha : o.loadA <;> cases hb : o.loadB <;>
      simp [loadList, ha, hb] at hX <;>
      simp [loadList, ha, hb, zOf, zeroCleaned_zero, zeroCleaned_pos, hc, inRange,
        Halo.np, Halo.zeroNp, Halo.start] <;>
      simp [Halo.np, Halo.start, Clean.mNp, Clean.mStart] at hwf ⊢ <;> omega

/-- the news list the real code computes, in closed form -/
def newsOf (o : Opts) (kept : List (List Row)) : List (Sub × List Nat) :=
  (loadList o).map (fun X => (X, offsets (offOf o kept X) (cntsOf X kept)))

theorem zOf_nil : zOf [] = fun r => r := rfl
theorem zOf_cons (X : Sub) (l : List Sub) : zOf (X :: l) = fun r => zOf l (zeroCleaned X r) := rfl

theorem cnt_z1 (X : Sub) (r : Row) : cnt X (zeroCleaned X r) = ownCnt X r := by
  rcases r with ⟨h, _ | c⟩
  · cases X <;> simp [zeroCleaned_none, cnt, ownCnt]
  · by_cases hc : c.nTotal = 0 <;> cases X <;>
      simp [zeroCleaned_zero, zeroCleaned_pos, hc, cnt, ownCnt, Halo.np, Halo.zeroNp]

theorem cnt_zBA (r : Row) : cnt .B (zeroCleaned .B (zeroCleaned .A r)) = ownCnt .B r := by
  rcases r with ⟨h, _ | c⟩
  · simp [zeroCleaned_none, cnt, ownCnt]
  · by_cases hc : c.nTotal = 0 <;>
      simp [zeroCleaned_zero, zeroCleaned_pos, hc, cnt, ownCnt, Halo.np, Halo.zeroNp]

theorem newIdx_eq (o : Opts) (kept : List (List Row)) :
    newIdx (loadList o) kept.flatten 0 =
      .ok (kept.flatten.map (zOf (loadList o)), newsOf o kept) := by
  unfold newsOf offOf cntsOf
  generalize kept.flatten = tbl
  have e1 : ∀ X, (tbl.map (zeroCleaned X)).map (cnt X) = tbl.map (ownCnt X) := by
    intro X; rw [List.map_map]; exact List.map_congr_left (fun r _ => cnt_z1 X r)
  have e2 : ((tbl.map (zeroCleaned .A)).map (zeroCleaned .B)).map (cnt .B) = tbl.map (ownCnt .B) := by
    rw [List.map_map, List.map_map]; exact List.map_congr_left (fun r _ => cnt_zBA r)
  cases ha : o.loadA <;> cases hb : o.loadB <;> simp only [loadList, ha, hb, if_true, if_false,
    Bool.false_eq_true, List.append_nil, List.nil_append, List.cons_append, List.map_cons, List.map_nil]
  · simp [newIdx, zOf_nil]
  · unfold newIdx
    simp only [cumsumArr_eq, e1]
    unfold newIdx
    simp [zOf_nil, zOf_cons]
  · unfold newIdx
    simp only [cumsumArr_eq, e1]
    unfold newIdx
    simp [zOf_nil, zOf_cons]
  · unfold newIdx
    simp only [cumsumArr_eq, e1]
    unfold newIdx
    simp only [cumsumArr_eq, e2]
    unfold newIdx
    simp [zOf_nil, zOf_cons, Function.comp_def]

theorem nSubsamp_eq (o : Opts) (kept : List (List Row)) (hne : loadList o ≠ []) :
    nSubsamp (newsOf o kept) =
      .ok (total ((loadList o).map (fun X => total (cntsOf X kept)))) := by
  cases ha : o.loadA <;> cases hb : o.loadB <;>
    simp [loadList, ha, hb] at hne <;>
    simp [loadList, ha, hb, newsOf, nSubsamp, lookupSub, lastOf_offsets, offOf]

theorem flatMap_congr' {β γ} (l : List β) (f g : β → List γ) (h : ∀ a ∈ l, f a = g a) :
    l.flatMap f = l.flatMap g := by
  rw [List.flatMap_def, List.flatMap_def, List.map_congr_left h]

theorem ownParts_length {α} (o : Opts) (X : Sub) (hX : X ∈ loadList o) (part cl : List α) (k : List Row)
    (hkk : ∀ r ∈ k, rowWF X part cl r = true) :
    (k.flatMap (ownParts X part cl)).length = total (k.map (ownCnt X)) := by
  induction k with
  | nil => rfl
  | cons r rs ih2 =>
    simp only [List.flatMap_cons, List.length_append, List.map_cons, total_cons]
    rw [ih2 (fun r' h' => hkk r' (by simp [h']))]
    congr 1
    rw [← rowParts_zOf o X hX, rowParts_length _ _ _ _ (inRange_zOf o X hX _ _ r (hkk r (by simp))),
      cnt_zOf o X hX]

theorem slabParts_zOf {α} (o : Opts) (X : Sub) (hX : X ∈ loadList o) (slabs : List (Slab α))
    (kept : List (List Row)) :
    slabParts X slabs (kept.map (List.map (zOf (loadList o)))) = partsOf X slabs kept := by
  unfold slabParts partsOf
  rw [List.zip_map_right, List.flatMap_map]
  apply flatMap_congr'
  intro p _
  simp only [Prod.map_fst, Prod.map_snd, id_eq, List.flatMap_map]
  apply flatMap_congr'
  intro r _
  exact rowParts_zOf o X hX _ _ r

/-- the kept rows of a well-formed input, as the hypothesis the zipper lemmas need -/
def keptWF {α} (o : Opts) (slabs : List (Slab α)) (kept : List (List Row)) : Prop :=
  slabs.length = kept.length ∧
  ∀ p ∈ slabs.zip kept, ∀ r ∈ p.2, ∀ X ∈ loadList o, rowWF X (p.1.part X) (p.1.cleanPart X) r = true

theorem partsOf_length {α} (o : Opts) (X : Sub) (hX : X ∈ loadList o) (slabs : List (Slab α))
    (kept : List (List Row)) (hk : keptWF o slabs kept) :
    (partsOf X slabs kept).length = total (cntsOf X kept) := by
  obtain ⟨hl, hin⟩ := hk
  unfold partsOf cntsOf
  induction slabs generalizing kept with
  | nil => cases kept with
    | nil => rfl
    | cons _ _ => simp at hl
  | cons s ss ih =>
    cases kept with
    | nil => simp at hl
    | cons k ks =>
      simp only [List.zip_cons_cons, List.flatMap_cons, List.length_append, List.flatten_cons,
        List.map_append, total_append]
      rw [ih ks (by simpa using hl) (fun p hp => hin p (by simp [hp]))]
      congr 1
      exact ownParts_length o X hX _ _ k (fun r hr => hin (s, k) (by simp) r hr X hX)

theorem zipX {α} (o : Opts) (X : Sub) (hX : X ∈ loadList o) (nSub : Nat) (slabs : List (Slab α))
    (kept : List (List Row)) (hk : keptWF o slabs kept) (off : Nat)
    (hle : off + total (cntsOf X kept) ≤ nSub) :
    zipSlabs o.rawCol nSub X (kept.flatten.map (zOf (loadList o))) (offsets off (cntsOf X kept)) slabs
        (offsets 0 (kept.map List.length)) =
      .ok ((List.range' off (partsOf X slabs kept).length).zip (partsOf X slabs kept)) := by
  have hmap : (kept.flatten.map (zOf (loadList o))).map (cnt X) = cntsOf X kept := by
    unfold cntsOf
    rw [List.map_map]
    exact List.map_congr_left (fun r _ => cnt_zOf o X hX r)
  have := zipSlabs_ok o.rawCol nSub X (kept.flatten.map (zOf (loadList o))) off slabs
    (kept.map (List.map (zOf (loadList o)))) [] (by simpa using hk.1) (by simp [List.map_flatten])
    (by
      intro p hp r hr
      rw [List.zip_map_right] at hp
      obtain ⟨q, hq, rfl⟩ := List.mem_map.mp hp
      simp only [Prod.map_snd, Prod.map_fst, id_eq] at hr ⊢
      obtain ⟨r0, hr0, rfl⟩ := List.mem_map.mp hr
      exact inRange_zOf o X hX _ _ r0 (hk.2 q hq r0 hr0 X hX))
    (by rw [hmap]; exact hle)
  rw [hmap] at this
  simp only [List.length_nil, List.map_nil, total_nil, Nat.add_zero, List.map_map] at this
  rw [slabParts_zOf o X hX] at this
  have hl : (kept.map ((fun l => l.length) ∘ List.map (zOf (loadList o)))) = kept.map List.length := by
    apply List.map_congr_left; intro l _; simp
  first
  | rw [hl] at this; exact this
  | (simp only [Function.comp_def, List.length_map] at this; exact this)

/-! ### the table after the writes -/

theorem applyWrites_zip {β} (l : List β) :
    applyWrites (List.replicate l.length none)
      (((List.range' 0 l.length).zip l).map (fun w => (w.1, some w.2))) = l.map some := by
  have hA : ((List.range' 0 l.length).zip l).map (fun w => (w.1, some w.2)) =
      (List.range l.length).map (fun k => (k, l[k]?)) := by
    apply List.ext_getElem
    · simp
    · intro i h1 h2
      simp only [List.length_map, List.length_zip, List.length_range', Nat.min_self] at h1
      simp [List.getElem_zip, List.getElem_range', List.getElem?_eq_getElem h1]
  have hB : (List.range l.length).map (fun k => l[k]?) = l.map some := by
    apply List.ext_getElem
    · simp
    · intro i h1 h2
      simp only [List.length_map, List.length_range] at h1
      simp [List.getElem?_eq_getElem h1]
  rw [hA, Cumsum.applyWrites_range (fun k => l[k]?) l.length _ (by simp), hB]

/-! ### the whole load -/

theorem readAll_length {α} (cleaned : Bool) :
    ∀ (slabs : List (Slab α)) (mks : List (Option (List Bool))) (kept : List (List Row)),
      readAll cleaned slabs mks = .ok kept → slabs.length = kept.length := by
  intro slabs
  induction slabs with
  | nil => intro mks kept h; simp [readAll] at h; subst h; rfl
  | cons s ss ih =>
    intro mks kept h
    cases mks with
    | nil => simp [readAll] at h
    | cons m ms =>
      unfold readAll at h
      cases h1 : readFile cleaned s m with
      | error e => simp [h1] at h
      | ok k =>
        cases h2 : readAll cleaned ss ms with
        | error e => simp [h1, h2] at h
        | ok ks =>
          simp [h1, h2] at h
          subst h
          simp [ih ms ks h2]

theorem wf_kept {α} (o : Opts) (slabs : List (Slab α)) (h : wf o slabs = true) :
    ∃ mks kept, masksFor o.masks slabs.length = .ok mks ∧ readAll o.cleaned slabs mks = .ok kept ∧
      keptWF o slabs kept := by
  unfold wf at h
  cases h1 : masksFor o.masks slabs.length with
  | error e => simp [h1] at h
  | ok mks =>
    cases h2 : readAll o.cleaned slabs mks with
    | error e => simp [h1, h2] at h
    | ok kept =>
      simp only [h1, h2, List.all_eq_true] at h
      exact ⟨mks, kept, rfl, h2, readAll_length _ _ _ _ h2, fun p hp r hr X hX => h p hp r hr X hX⟩

theorem zipAll_eq {α} (o : Opts) (slabs : List (Slab α)) (kept : List (List Row))
    (hk : keptWF o slabs kept) :
    zipAll o.rawCol (total ((loadList o).map (fun X => total (cntsOf X kept))))
        (kept.flatten.map (zOf (loadList o))) slabs (offsets 0 (kept.map List.length)) (newsOf o kept) =
      .ok (specW o slabs kept) := by
  have hlen := fun X hX => partsOf_length o X hX slabs kept hk
  cases ha : o.loadA <;> cases hb : o.loadB
  · simp [loadList, ha, hb, newsOf, zipAll, specW, allParts]
  · have hX : Sub.B ∈ loadList o := by simp [loadList, ha, hb]
    have z := zipX o .B hX (total (cntsOf .B kept)) slabs kept hk 0 (by omega)
    simp [-List.map_flatten, loadList, ha, hb] at z
    simp [-List.map_flatten, loadList, ha, hb, newsOf, zipAll, specW, allParts, offOf, z]
  · have hX : Sub.A ∈ loadList o := by simp [loadList, ha, hb]
    have z := zipX o .A hX (total (cntsOf .A kept)) slabs kept hk 0 (by omega)
    simp [-List.map_flatten, loadList, ha, hb] at z
    simp [-List.map_flatten, loadList, ha, hb, newsOf, zipAll, specW, allParts, offOf, z]
  · have hA : Sub.A ∈ loadList o := by simp [loadList, ha, hb]
    have hB : Sub.B ∈ loadList o := by simp [loadList, ha, hb]
    have zA := zipX o .A hA (total (cntsOf .A kept) + total (cntsOf .B kept)) slabs kept hk 0 (by omega)
    have zB := zipX o .B hB (total (cntsOf .A kept) + total (cntsOf .B kept)) slabs kept hk
      (total (cntsOf .A kept)) (by omega)
    simp [-List.map_flatten, loadList, ha, hb] at zA zB
    have e := zip_range'_append 0 (partsOf .A slabs kept) (partsOf .B slabs kept)
    rw [hlen .A hA, Nat.zero_add] at e
    simp [-List.map_flatten, loadList, ha, hb, newsOf, zipAll, specW, allParts, offOf, zA, zB]
    simpa [hlen .A hA] using e

theorem loadW_spec {α} (o : Opts) (slabs : List (Slab α)) (h : wf o slabs = true) :
    ∃ mks kept, masksFor o.masks slabs.length = .ok mks ∧ readAll o.cleaned slabs mks = .ok kept ∧
      keptWF o slabs kept ∧ loadW o slabs = .ok (specRes o slabs kept, specW o slabs kept) := by
  obtain ⟨mks, kept, h1, h2, hk⟩ := wf_kept o slabs h
  refine ⟨mks, kept, h1, h2, hk, ?_⟩
  unfold loadW
  simp only [h1, h2]
  by_cases hne : loadList o = []
  · simp [hne, specRes, specW, allParts]
  · simp only [hne, if_false, newIdx_eq, nSubsamp_eq o kept hne, cumsumArr_eq, zipAll_eq o slabs kept hk]
    have hN : (allParts o slabs kept).length = total ((loadList o).map (fun X => total (cntsOf X kept))) := by
      have hlen := fun X hX => partsOf_length o X hX slabs kept hk
      cases ha : o.loadA <;> cases hb : o.loadB <;>
        simp [allParts, loadList, ha, hb] <;> simp [loadList, ha, hb] at hlen <;> simp [hlen]
    congr 2
    unfold specRes
    congr 1
    · simp [newsOf, diff_offsets]
    · rw [← hN]
      exact applyWrites_zip (allParts o slabs kept)

end AbacusVerif.Catalog
