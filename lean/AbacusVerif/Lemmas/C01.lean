/-
  Helper lemmas for the catalog model (Props/C01.lean and Props/C03.lean hold the property theorems).
-/
import AbacusVerif.Model.C01
import AbacusVerif.Props.C19

namespace AbacusVerif.Catalog
open AbacusVerif

/-! ### totals, offsets, the C19 cumsum -/

@[simp] theorem total_nil : total [] = 0 := rfl
@[simp] theorem total_cons (a : Nat) (l : List Nat) : total (a :: l) = a + total l := rfl

theorem total_append (a b : List Nat) : total (a ++ b) = total a + total b := by
  induction a with
  | nil => simp
  | cons x a ih => simp [ih]; omega

@[simp] theorem offsets_nil (off : Nat) : offsets off [] = [off] := rfl
@[simp] theorem offsets_cons (off n : Nat) (l : List Nat) :
    offsets off (n :: l) = off :: offsets (off + n) l := rfl

@[simp] theorem offsets_length (off : Nat) (l : List Nat) : (offsets off l).length = l.length + 1 := by
  induction l generalizing off with
  | nil => rfl
  | cons n l ih => simp [ih]

/-- tail of `offsets` -/
def offsetsTail (off : Nat) : List Nat → List Nat
  | [] => []
  | n :: ns => offsets (off + n) ns

theorem offsets_eq (off : Nat) (l : List Nat) : offsets off l = off :: offsetsTail off l := by
  cases l <;> rfl

theorem psum_cons_succ (off a : Nat) (as : List Nat) (k : Nat) :
    Cumsum.psum off (a :: as) (k + 1) = Cumsum.psum (off + a) as k := by
  simp [Cumsum.psum]

theorem map_psum_eq_offsets (off : Nat) (arr : List Nat) :
    (List.range (arr.length + 1)).map (Cumsum.psum off arr) = offsets off arr := by
  induction arr generalizing off with
  | nil => simp [Cumsum.psum]
  | cons a as ih =>
    rw [List.length_cons, List.range_succ_eq_map, List.map_cons, List.map_map, offsets_cons]
    congr 1
    rw [← ih (off + a)]
    apply List.map_congr_left
    intro k _
    simp [psum_cons_succ]

theorem psum_all (off : Nat) (arr : List Nat) : Cumsum.psum off arr arr.length = off + total arr := by
  induction arr generalizing off with
  | nil => simp [Cumsum.psum]
  | cons a as ih => rw [List.length_cons, psum_cons_succ, ih]; simp; omega

/-- the C19 routine with `initial = final = True` on an output of length `N+1` returns the running starts and
the grand total -/
theorem cumsumArr_eq (arr : List Nat) (off : Nat) :
    cumsumArr arr off = .ok (offsets off arr, off + total arr) := by
  have hlen : ((List.replicate (arr.length + 1) 0 : List Nat).length : Int) =
      Cumsum.expectedLen arr.length true true := by
    simp [Cumsum.expectedLen, Cumsum.b2n]
  obtain ⟨s, hs, htot, _, _, _⟩ := Cumsum.cumsum_spec arr (arr.length + 1) true true off (by
    simpa using hlen)
  obtain ⟨s', hs', hout⟩ := Cumsum.cumsum_output arr (List.replicate (arr.length + 1) 0) true true off hlen
  simp only [List.length_replicate] at hs'
  rw [hs] at hs'
  cases hs'
  unfold cumsumArr
  rw [hs]
  simp only [hout, htot, psum_all]
  congr 2
  simp [Cumsum.selected, map_psum_eq_offsets]

theorem diff_offsets (off : Nat) (l : List Nat) : diff (offsets off l) = l := by
  induction l generalizing off with
  | nil => rfl
  | cons n l ih =>
    rw [offsets_cons, offsets_eq (off + n) l, diff, ← offsets_eq, ih]
    congr 1
    omega

theorem lastOf_offsets (off : Nat) (l : List Nat) : lastOf (offsets off l) = .ok (off + total l) := by
  unfold lastOf
  rw [pyIndex_neg_one (by simp)]
  simp only [offsets_length, Nat.add_sub_cancel]
  have : (offsets off l)[l.length]? = some (off + total l) := by
    induction l generalizing off with
    | nil => simp
    | cons n l ih =>
      rw [offsets_cons, List.length_cons, List.getElem?_cons_succ, ih, total_cons]
      congr 1
      omega
  rw [this]

/-! ### slices -/

theorem pySlice_length {β} (a : List β) (lo n : Nat) (h : n = 0 ∨ lo + n ≤ a.length) :
    (pySlice a lo (lo + n)).length = n := by
  unfold pySlice
  simp only [Nat.add_sub_cancel_left, List.length_take, List.length_drop]
  omega

theorem pySlice_mid {β} (pre k post : List β) :
    pySlice (pre ++ k ++ post) pre.length (pre.length + k.length) = k := by
  unfold pySlice
  simp [List.append_assoc]

theorem take_offsets (off : Nat) (b c : List Nat) :
    (offsets off (b ++ c)).take (b.length + 1) = offsets off b := by
  induction b generalizing off with
  | nil => simp [offsets_eq off c]
  | cons x b ih => simp [ih]

theorem offsets_slice (off : Nat) (a b c : List Nat) :
    pySlice (offsets off (a ++ b ++ c)) a.length (a.length + b.length + 1) = offsets (off + total a) b := by
  unfold pySlice
  induction a generalizing off with
  | nil => simpa using take_offsets off b c
  | cons x a ih =>
    have := ih (off + x)
    simp only [List.cons_append, offsets_cons, List.length_cons, List.drop_succ_cons, total_cons]
    rw [show a.length + 1 + b.length + 1 - (a.length + 1) = a.length + b.length + 1 - a.length by omega]
    rw [this]
    congr 1
    omega

/-! ### the zipper -/

/-- the reads of a row have exactly the lengths the index columns say -/
def inRange {α} (X : Sub) (part cl : List α) (r : Row) : Prop :=
  (r.1.np X = 0 ∨ r.1.start X + r.1.np X ≤ part.length) ∧
  (∀ c, r.2 = some c → c.mNp X = 0 ∨ c.mStart X + c.mNp X ≤ cl.length)

theorem rowParts_length {α} (X : Sub) (part cl : List α) (r : Row) (h : inRange X part cl r) :
    (rowParts X part cl r).length = cnt X r := by
  unfold rowParts cnt
  rw [List.length_append, pySlice_length _ _ _ h.1]
  cases hc : r.2 with
  | none => simp
  | some c => simp only []; rw [pySlice_length _ _ _ (h.2 c hc)]

theorem zip_range'_append {β} (s : Nat) (l1 l2 : List β) :
    (List.range' s l1.length).zip l1 ++ (List.range' (s + l1.length) l2.length).zip l2 =
      (List.range' s (l1 ++ l2).length).zip (l1 ++ l2) := by
  rw [List.length_append, ← List.range'_append_1, List.zip_append (by simp)]

theorem zipRows_ok {α} (rawCol : Bool) (nSub : Nat) (X : Sub) (part cl : List α) :
    ∀ (rows : List Row) (base : Nat), (∀ r ∈ rows, inRange X part cl r) →
      base + total (rows.map (cnt X)) ≤ nSub →
      zipRows rawCol nSub X part cl rows (offsets base (rows.map (cnt X))) =
        .ok ((List.range' base (rows.flatMap (rowParts X part cl)).length).zip
              (rows.flatMap (rowParts X part cl))) := by
  intro rows
  induction rows with
  | nil => intro base _ _; simp [zipRows]
  | cons r rs ih =>
    intro base hin hle
    have hr := hin r (by simp)
    have hlen := rowParts_length X part cl r hr
    simp only [List.map_cons, total_cons] at hle
    rw [List.map_cons, offsets_cons, offsets_eq (base + cnt X r)]
    unfold zipRows
    rw [← offsets_eq]
    have h1 : min base nSub = base := by omega
    have h2 : min (base + cnt X r) nSub - base = cnt X r := by omega
    simp only [h1, h2]
    have hp : (pySlice part (r.1.start X) (r.1.start X + r.1.np X)).length = r.1.np X :=
      pySlice_length _ _ _ hr.1
    have hcnt : cnt X r = r.1.np X + (match r.2 with | some c => c.mNp X | none => 0) := rfl
    have ha1 : assign rawCol base (cnt X r) (pySlice part (r.1.start X) (r.1.start X + r.1.np X)) =
        .ok ((List.range' base (r.1.np X)).zip (pySlice part (r.1.start X) (r.1.start X + r.1.np X))) := by
      unfold assign
      rw [hp, if_pos (by omega)]
    rw [ha1]
    simp only []
    rw [ih (base + cnt X r) (fun r' h' => hin r' (by simp [h'])) (by omega)]
    simp only [List.flatMap_cons]
    generalize hP : pySlice part (r.1.start X) (r.1.start X + r.1.np X) = P at *
    generalize hR : rs.flatMap (rowParts X part cl) = R at *
    cases hc : r.2 with
    | none =>
      simp only []
      have hrp : rowParts X part cl r = P := by simp [rowParts, hc, hP]
      have hcnt' : cnt X r = r.1.np X := by rw [hcnt, hc]; exact Nat.add_zero _
      rw [hrp, hcnt', List.append_nil]
      have e := zip_range'_append base P R
      rw [hp] at e
      rw [e]
    | some c =>
      simp only []
      generalize hM : pySlice cl (c.mStart X) (c.mStart X + c.mNp X) = M at *
      have hm : M.length = c.mNp X := by
        rw [← hM]; exact pySlice_length _ _ _ (hr.2 c hc)
      have hcnt' : cnt X r = r.1.np X + c.mNp X := by rw [hcnt, hc]
      have ha2 : assign rawCol (base + min (r.1.np X) (cnt X r)) (cnt X r - r.1.np X) M =
          .ok ((List.range' (base + r.1.np X) (c.mNp X)).zip M) := by
        unfold assign
        rw [hm, if_pos (by omega), show min (r.1.np X) (cnt X r) = r.1.np X by omega]
      rw [ha2]
      simp only []
      have hrp : rowParts X part cl r = P ++ M := by simp [rowParts, hc, hP, hM]
      rw [hrp]
      have e1 := zip_range'_append base P M
      rw [hp, hm] at e1
      rw [e1]
      have e2 := zip_range'_append base (P ++ M) R
      rw [← e2]
      congr 3
      rw [List.length_append, hp, hm, hcnt']

theorem flatMap_rowParts_length {α} (X : Sub) (part cl : List α) (rows : List Row)
    (h : ∀ r ∈ rows, inRange X part cl r) :
    (rows.flatMap (rowParts X part cl)).length = total (rows.map (cnt X)) := by
  induction rows with
  | nil => rfl
  | cons r rs ih =>
    simp only [List.flatMap_cons, List.length_append, List.map_cons, total_cons]
    rw [rowParts_length X part cl r (h r (by simp)), ih (fun r' h' => h r' (by simp [h']))]

/-- everything the zipper reads for subsample X, superslab by superslab, row by row -/
def slabParts {α} (X : Sub) (slabs : List (Slab α)) (kz : List (List Row)) : List α :=
  (slabs.zip kz).flatMap (fun p => p.2.flatMap (rowParts X (p.1.part X) (p.1.cleanPart X)))

theorem zipSlabs_ok {α} (rawCol : Bool) (nSub : Nat) (X : Sub) (tblZ : List Row) (off : Nat) :
    ∀ (slabs : List (Slab α)) (kz : List (List Row)) (pre : List Row),
      slabs.length = kz.length →
      tblZ = pre ++ kz.flatten →
      (∀ p ∈ slabs.zip kz, ∀ r ∈ p.2, inRange X (p.1.part X) (p.1.cleanPart X) r) →
      off + total (tblZ.map (cnt X)) ≤ nSub →
      zipSlabs rawCol nSub X tblZ (offsets off (tblZ.map (cnt X))) slabs
          (offsets pre.length (kz.map List.length)) =
        .ok ((List.range' (off + total (pre.map (cnt X))) (slabParts X slabs kz).length).zip
              (slabParts X slabs kz)) := by
  intro slabs
  induction slabs with
  | nil =>
    intro kz pre hl _ _ _
    cases kz with
    | nil => simp [zipSlabs, slabParts]
    | cons _ _ => simp at hl
  | cons s ss ih =>
    intro kz pre hl htbl hin hle
    cases kz with
    | nil => simp at hl
    | cons k kz' =>
      simp only [List.length_cons, Nat.add_right_cancel_iff] at hl
      simp only [List.flatten_cons] at htbl
      rw [List.map_cons, offsets_cons, offsets_eq (pre.length + k.length)]
      unfold zipSlabs
      rw [← offsets_eq]
      have htbl' : tblZ = pre ++ k ++ kz'.flatten := by rw [htbl, List.append_assoc]
      have hrows : pySlice tblZ pre.length (pre.length + k.length) = k := by
        rw [htbl']; exact pySlice_mid pre k _
      have hswo : pySlice (offsets off (tblZ.map (cnt X))) pre.length (pre.length + k.length + 1) =
          offsets (off + total (pre.map (cnt X))) (k.map (cnt X)) := by
        rw [htbl', List.map_append, List.map_append]
        have := offsets_slice off (pre.map (cnt X)) (k.map (cnt X)) (kz'.flatten.map (cnt X))
        simpa using this
      have hk : ∀ r ∈ k, inRange X (s.part X) (s.cleanPart X) r :=
        fun r hr => hin (s, k) (by simp) r hr
      have htot : total (tblZ.map (cnt X)) =
          total (pre.map (cnt X)) + total (k.map (cnt X)) + total (kz'.flatten.map (cnt X)) := by
        rw [htbl', List.map_append, List.map_append, total_append, total_append]
      simp only [hrows, hswo]
      rw [zipRows_ok rawCol nSub X (s.part X) (s.cleanPart X) k _ hk (by omega)]
      simp only []
      have hpre : (pre ++ k).length = pre.length + k.length := by simp
      rw [← hpre]
      rw [ih kz' (pre ++ k) hl htbl' (fun p hp r hr => hin p (by simp [hp]) r hr) hle]
      simp only []
      have hslab : slabParts X (s :: ss) (k :: kz') =
          k.flatMap (rowParts X (s.part X) (s.cleanPart X)) ++ slabParts X ss kz' := by
        simp [slabParts]
      rw [hslab]
      have e := zip_range'_append (off + total (pre.map (cnt X)))
        (k.flatMap (rowParts X (s.part X) (s.cleanPart X))) (slabParts X ss kz')
      rw [← e]
      congr 3
      rw [flatMap_rowParts_length X _ _ k hk, List.map_append, total_append, Nat.add_assoc]

/-! ### the specification side: what a load must return -/

def cntsOf (X : Sub) (kept : List (List Row)) : List Nat := kept.flatten.map (ownCnt X)

/-- the particles of subsample X in table order: superslab by superslab, kept row by kept row, each
halo's own particles -/
def partsOf {α} (X : Sub) (slabs : List (Slab α)) (kept : List (List Row)) : List α :=
  (slabs.zip kept).flatMap (fun p => p.2.flatMap (ownParts X (p.1.part X) (p.1.cleanPart X)))

def allParts {α} (o : Opts) (slabs : List (Slab α)) (kept : List (List Row)) : List α :=
  (loadList o).flatMap (fun X => partsOf X slabs kept)

/-- where the block of subsample X starts in the table: A at 0, B after all of A -/
def offOf (o : Opts) (kept : List (List Row)) : Sub → Nat
  | .A => 0
  | .B => if o.loadA then total (cntsOf .A kept) else 0

def specRes {α} (o : Opts) (slabs : List (Slab α)) (kept : List (List Row)) : Result α :=
  { rows := kept.flatten, nPer := kept.map List.length,
    idx := (loadList o).map (fun X => (X, (offsets (offOf o kept X) (cntsOf X kept)).dropLast, cntsOf X kept)),
    sub := (allParts o slabs kept).map some }

def specW {α} (o : Opts) (slabs : List (Slab α)) (kept : List (List Row)) : List (Nat × α) :=
  (List.range' 0 (allParts o slabs kept).length).zip (allParts o slabs kept)

/-- the final table row: zeroed for every loaded subsample, in load order -/
def zOf (subs : List Sub) (r : Row) : Row := subs.foldl (fun r X => zeroCleaned X r) r

theorem zeroCleaned_none (X : Sub) (h : Halo) : zeroCleaned X (h, none) = (h, none) := rfl

theorem zeroCleaned_zero (X : Sub) (h : Halo) (c : Clean) (hc : c.nTotal = 0) :
    zeroCleaned X (h, some c) = (h.zeroNp X, some c) := by simp [zeroCleaned, hc]

theorem zeroCleaned_pos (X : Sub) (h : Halo) (c : Clean) (hc : ¬ c.nTotal = 0) :
    zeroCleaned X (h, some c) = (h, some c) := by simp [zeroCleaned, hc]

theorem cnt_zOf (o : Opts) (X : Sub) (hX : X ∈ loadList o) (r : Row) :
    cnt X (zOf (loadList o) r) = ownCnt X r := by
  rcases r with ⟨h, _ | c⟩
  · cases X <;> cases ha : o.loadA <;> cases hb : o.loadB <;>
      simp [loadList, ha, hb, zOf, zeroCleaned_none, cnt, ownCnt]
  · by_cases hc : c.nTotal = 0 <;> cases X <;> cases ha : o.loadA <;> cases hb : o.loadB <;>
      simp [loadList, ha, hb] at hX <;>
      simp [loadList, ha, hb, zOf, zeroCleaned_zero, zeroCleaned_pos, hc, cnt, ownCnt,
        Halo.np, Halo.zeroNp]

theorem rowParts_zOf {α} (o : Opts) (X : Sub) (hX : X ∈ loadList o) (part cl : List α) (r : Row) :
    rowParts X part cl (zOf (loadList o) r) = ownParts X part cl r := by
  rcases r with ⟨h, _ | c⟩
  · cases X <;> cases ha : o.loadA <;> cases hb : o.loadB <;>
      simp [loadList, ha, hb, zOf, zeroCleaned_none, rowParts, ownParts]
  · by_cases hc : c.nTotal = 0 <;> cases X <;> cases ha : o.loadA <;> cases hb : o.loadB <;>
      simp [loadList, ha, hb] at hX <;>
      simp [loadList, ha, hb, zOf, zeroCleaned_zero, zeroCleaned_pos, hc, rowParts, ownParts,
        Halo.np, Halo.zeroNp, Halo.start, pySlice]

theorem inRange_zOf {α} (o : Opts) (X : Sub) (hX : X ∈ loadList o) (part cl : List α) (r : Row)
    (hwf : rowWF X part cl r = true) : inRange X part cl (zOf (loadList o) r) := by
  rcases r with ⟨h, _ | c⟩
  · simp [rowWF] at hwf
    cases X <;> cases ha : o.loadA <;> cases hb : o.loadB <;>
      simp [loadList, ha, hb, zOf, zeroCleaned_none, inRange] <;> omega
  · by_cases hc : c.nTotal = 0 <;> simp [rowWF, hc] at hwf <;>
      cases X <;> cases ha : o.loadA <;> cases hb : o.loadB <;>
      simp [loadList, ha, hb] at hX <;>
      simp [loadList, ha, hb, zOf, zeroCleaned_zero, zeroCleaned_pos, hc, inRange,
        Halo.np, Halo.zeroNp, Halo.start] <;>
      simp [Halo.np, Halo.start, Clean.mNp, Clean.mStart] at hwf ⊢ <;> omega

/-- the news list the real code computes, in closed form -/
def newsOf (o : Opts) (kept : List (List Row)) : List (Sub × List Nat) :=
  (loadList o).map (fun X => (X, offsets (offOf o kept X) (cntsOf X kept)))

theorem zOf_nil : zOf [] = fun r => r := rfl
theorem zOf_cons (X : Sub) (l : List Sub) : zOf (X :: l) = fun r => zOf l (zeroCleaned X r) := rfl

theorem cnt_z1 (X : Sub) (r : Row) : cnt X (zeroCleaned X r) = ownCnt X r := by
  rcases r with ⟨h, _ | c⟩
  · cases X <;> simp [zeroCleaned_none, cnt, ownCnt]
  · by_cases hc : c.nTotal = 0 <;> cases X <;>
      simp [zeroCleaned_zero, zeroCleaned_pos, hc, cnt, ownCnt, Halo.np, Halo.zeroNp]

theorem cnt_zBA (r : Row) : cnt .B (zeroCleaned .B (zeroCleaned .A r)) = ownCnt .B r := by
  rcases r with ⟨h, _ | c⟩
  · simp [zeroCleaned_none, cnt, ownCnt]
  · by_cases hc : c.nTotal = 0 <;>
      simp [zeroCleaned_zero, zeroCleaned_pos, hc, cnt, ownCnt, Halo.np, Halo.zeroNp]

/-- no kept halo has 2^32 or more particles in a loaded subsample -/
def small32 (o : Opts) (tbl : List Row) : Prop := ∀ r ∈ tbl, ∀ X ∈ loadList o, ownCnt X r < 2 ^ 32

theorem newIdx_eq (o : Opts) (kept : List (List Row)) (hs : small32 o kept.flatten) :
    newIdx (loadList o) kept.flatten 0 =
      .ok (kept.flatten.map (zOf (loadList o)), newsOf o kept) := by
  unfold newsOf offOf cntsOf
  unfold small32 at hs
  generalize kept.flatten = tbl at hs ⊢
  have e1 : ∀ X ∈ loadList o, (tbl.map (zeroCleaned X)).map (cnt32 X) = tbl.map (ownCnt X) := by
    intro X hX; rw [List.map_map]
    apply List.map_congr_left
    intro r hr
    simp only [Function.comp, cnt32, cnt_z1]
    exact Nat.mod_eq_of_lt (hs r hr X hX)
  have e2 : Sub.B ∈ loadList o →
      ((tbl.map (zeroCleaned .A)).map (zeroCleaned .B)).map (cnt32 .B) = tbl.map (ownCnt .B) := by
    intro hB
    rw [List.map_map, List.map_map]
    apply List.map_congr_left
    intro r hr
    simp only [Function.comp, cnt32, cnt_zBA]
    exact Nat.mod_eq_of_lt (hs r hr .B hB)
  cases ha : o.loadA <;> cases hb : o.loadB <;> simp only [loadList, ha, hb, if_true, if_false,
    Bool.false_eq_true, List.append_nil, List.nil_append, List.cons_append, List.map_cons, List.map_nil]
  · simp [newIdx, zOf_nil]
  · have h1 := e1 .B (by simp [loadList, ha, hb])
    unfold newIdx
    simp only [cumsumArr_eq, h1]
    unfold newIdx
    simp [zOf_nil, zOf_cons]
  · have h1 := e1 .A (by simp [loadList, ha, hb])
    unfold newIdx
    simp only [cumsumArr_eq, h1]
    unfold newIdx
    simp [zOf_nil, zOf_cons]
  · have h1 := e1 .A (by simp [loadList, ha, hb])
    have h2 := e2 (by simp [loadList, ha, hb])
    unfold newIdx
    simp only [cumsumArr_eq, h1]
    unfold newIdx
    simp only [cumsumArr_eq, h2]
    unfold newIdx
    simp [zOf_nil, zOf_cons, Function.comp_def]

theorem nSubsamp_eq (o : Opts) (kept : List (List Row)) (hne : loadList o ≠ []) :
    nSubsamp (newsOf o kept) =
      .ok (total ((loadList o).map (fun X => total (cntsOf X kept)))) := by
  cases ha : o.loadA <;> cases hb : o.loadB <;>
    simp [loadList, ha, hb] at hne <;>
    simp [loadList, ha, hb, newsOf, nSubsamp, lookupSub, lastOf_offsets, offOf]

theorem flatMap_congr' {β γ} (l : List β) (f g : β → List γ) (h : ∀ a ∈ l, f a = g a) :
    l.flatMap f = l.flatMap g := by
  rw [List.flatMap_def, List.flatMap_def, List.map_congr_left h]

theorem ownParts_length {α} (o : Opts) (X : Sub) (hX : X ∈ loadList o) (part cl : List α) (k : List Row)
    (hkk : ∀ r ∈ k, rowWF X part cl r = true) :
    (k.flatMap (ownParts X part cl)).length = total (k.map (ownCnt X)) := by
  induction k with
  | nil => rfl
  | cons r rs ih2 =>
    simp only [List.flatMap_cons, List.length_append, List.map_cons, total_cons]
    rw [ih2 (fun r' h' => hkk r' (by simp [h']))]
    congr 1
    rw [← rowParts_zOf o X hX, rowParts_length _ _ _ _ (inRange_zOf o X hX _ _ r (hkk r (by simp))),
      cnt_zOf o X hX]

theorem slabParts_zOf {α} (o : Opts) (X : Sub) (hX : X ∈ loadList o) (slabs : List (Slab α))
    (kept : List (List Row)) :
    slabParts X slabs (kept.map (List.map (zOf (loadList o)))) = partsOf X slabs kept := by
  unfold slabParts partsOf
  rw [List.zip_map_right, List.flatMap_map]
  apply flatMap_congr'
  intro p _
  simp only [Prod.map_fst, Prod.map_snd, id_eq, List.flatMap_map]
  apply flatMap_congr'
  intro r _
  exact rowParts_zOf o X hX _ _ r

/-- the kept rows of a well-formed input, as the hypothesis the zipper lemmas need -/
def keptWF {α} (o : Opts) (slabs : List (Slab α)) (kept : List (List Row)) : Prop :=
  slabs.length = kept.length ∧
  ∀ p ∈ slabs.zip kept, ∀ r ∈ p.2, ∀ X ∈ loadList o, rowWF X (p.1.part X) (p.1.cleanPart X) r = true

theorem partsOf_length {α} (o : Opts) (X : Sub) (hX : X ∈ loadList o) (slabs : List (Slab α))
    (kept : List (List Row)) (hk : keptWF o slabs kept) :
    (partsOf X slabs kept).length = total (cntsOf X kept) := by
  obtain ⟨hl, hin⟩ := hk
  unfold partsOf cntsOf
  induction slabs generalizing kept with
  | nil => cases kept with
    | nil => rfl
    | cons _ _ => simp at hl
  | cons s ss ih =>
    cases kept with
    | nil => simp at hl
    | cons k ks =>
      simp only [List.zip_cons_cons, List.flatMap_cons, List.length_append, List.flatten_cons,
        List.map_append, total_append]
      rw [ih ks (by simpa using hl) (fun p hp => hin p (by simp [hp]))]
      congr 1
      exact ownParts_length o X hX _ _ k (fun r hr => hin (s, k) (by simp) r hr X hX)

theorem zipX {α} (o : Opts) (X : Sub) (hX : X ∈ loadList o) (nSub : Nat) (slabs : List (Slab α))
    (kept : List (List Row)) (hk : keptWF o slabs kept) (off : Nat)
    (hle : off + total (cntsOf X kept) ≤ nSub) :
    zipSlabs o.rawCol nSub X (kept.flatten.map (zOf (loadList o))) (offsets off (cntsOf X kept)) slabs
        (offsets 0 (kept.map List.length)) =
      .ok ((List.range' off (partsOf X slabs kept).length).zip (partsOf X slabs kept)) := by
  have hmap : (kept.flatten.map (zOf (loadList o))).map (cnt X) = cntsOf X kept := by
    unfold cntsOf
    rw [List.map_map]
    exact List.map_congr_left (fun r _ => cnt_zOf o X hX r)
  have := zipSlabs_ok o.rawCol nSub X (kept.flatten.map (zOf (loadList o))) off slabs
    (kept.map (List.map (zOf (loadList o)))) [] (by simpa using hk.1) (by simp [List.map_flatten])
    (by
      intro p hp r hr
      rw [List.zip_map_right] at hp
      obtain ⟨q, hq, rfl⟩ := List.mem_map.mp hp
      simp only [Prod.map_snd, Prod.map_fst, id_eq] at hr ⊢
      obtain ⟨r0, hr0, rfl⟩ := List.mem_map.mp hr
      exact inRange_zOf o X hX _ _ r0 (hk.2 q hq r0 hr0 X hX))
    (by rw [hmap]; exact hle)
  rw [hmap] at this
  simp only [List.length_nil, List.map_nil, total_nil, Nat.add_zero, List.map_map] at this
  rw [slabParts_zOf o X hX] at this
  have hl : (kept.map ((fun l => l.length) ∘ List.map (zOf (loadList o)))) = kept.map List.length := by
    apply List.map_congr_left; intro l _; simp
  first
  | rw [hl] at this; exact this
  | (simp only [Function.comp_def, List.length_map] at this; exact this)

/-! ### the table after the writes -/

theorem applyWrites_zip {β} (l : List β) :
    applyWrites (List.replicate l.length none)
      (((List.range' 0 l.length).zip l).map (fun w => (w.1, some w.2))) = l.map some := by
  have hA : ((List.range' 0 l.length).zip l).map (fun w => (w.1, some w.2)) =
      (List.range l.length).map (fun k => (k, l[k]?)) := by
    apply List.ext_getElem
    · simp
    · intro i h1 h2
      simp only [List.length_map, List.length_zip, List.length_range', Nat.min_self] at h1
      simp [List.getElem_zip, List.getElem_range', List.getElem?_eq_getElem h1]
  have hB : (List.range l.length).map (fun k => l[k]?) = l.map some := by
    apply List.ext_getElem
    · simp
    · intro i h1 h2
      simp only [List.length_map, List.length_range] at h1
      simp [List.getElem?_eq_getElem h1]
  rw [hA, Cumsum.applyWrites_range (fun k => l[k]?) l.length _ (by simp), hB]

/-! ### the whole load -/

theorem readAll_length {α} (cleaned : Bool) :
    ∀ (slabs : List (Slab α)) (mks : List (Option (List Bool))) (kept : List (List Row)),
      readAll cleaned slabs mks = .ok kept → slabs.length = kept.length := by
  intro slabs
  induction slabs with
  | nil => intro mks kept h; simp [readAll] at h; subst h; rfl
  | cons s ss ih =>
    intro mks kept h
    cases mks with
    | nil => simp [readAll] at h
    | cons m ms =>
      unfold readAll at h
      cases h1 : readFile cleaned s m with
      | error e => simp [h1] at h
      | ok k =>
        cases h2 : readAll cleaned ss ms with
        | error e => simp [h1, h2] at h
        | ok ks =>
          simp [h1, h2] at h
          subst h
          simp [ih ms ks h2]

theorem wf_kept {α} (o : Opts) (slabs : List (Slab α)) (h : wf o slabs = true) :
    ∃ mks kept, masksFor o.masks slabs.length = .ok mks ∧ readAll o.cleaned slabs mks = .ok kept ∧
      keptWF o slabs kept := by
  unfold wf at h
  cases h1 : masksFor o.masks slabs.length with
  | error e => simp [h1] at h
  | ok mks =>
    cases h2 : readAll o.cleaned slabs mks with
    | error e => simp [h1, h2] at h
    | ok kept =>
      simp only [h1, h2, List.all_eq_true] at h
      exact ⟨mks, kept, rfl, h2, readAll_length _ _ _ _ h2, fun p hp r hr X hX => h p hp r hr X hX⟩

theorem zipAll_eq {α} (o : Opts) (slabs : List (Slab α)) (kept : List (List Row))
    (hk : keptWF o slabs kept) :
    zipAll o.rawCol (total ((loadList o).map (fun X => total (cntsOf X kept))))
        (kept.flatten.map (zOf (loadList o))) slabs (offsets 0 (kept.map List.length)) (newsOf o kept) =
      .ok (specW o slabs kept) := by
  have hlen := fun X hX => partsOf_length o X hX slabs kept hk
  cases ha : o.loadA <;> cases hb : o.loadB
  · simp [loadList, ha, hb, newsOf, zipAll, specW, allParts]
  · have hX : Sub.B ∈ loadList o := by simp [loadList, ha, hb]
    have z := zipX o .B hX (total (cntsOf .B kept)) slabs kept hk 0 (by omega)
    simp [-List.map_flatten, loadList, ha, hb] at z
    simp [-List.map_flatten, loadList, ha, hb, newsOf, zipAll, specW, allParts, offOf, z]
  · have hX : Sub.A ∈ loadList o := by simp [loadList, ha, hb]
    have z := zipX o .A hX (total (cntsOf .A kept)) slabs kept hk 0 (by omega)
    simp [-List.map_flatten, loadList, ha, hb] at z
    simp [-List.map_flatten, loadList, ha, hb, newsOf, zipAll, specW, allParts, offOf, z]
  · have hA : Sub.A ∈ loadList o := by simp [loadList, ha, hb]
    have hB : Sub.B ∈ loadList o := by simp [loadList, ha, hb]
    have zA := zipX o .A hA (total (cntsOf .A kept) + total (cntsOf .B kept)) slabs kept hk 0 (by omega)
    have zB := zipX o .B hB (total (cntsOf .A kept) + total (cntsOf .B kept)) slabs kept hk
      (total (cntsOf .A kept)) (by omega)
    simp [-List.map_flatten, loadList, ha, hb] at zA zB
    have e := zip_range'_append 0 (partsOf .A slabs kept) (partsOf .B slabs kept)
    rw [hlen .A hA, Nat.zero_add] at e
    simp [-List.map_flatten, loadList, ha, hb, newsOf, zipAll, specW, allParts, offOf, zA, zB]
    simpa [hlen .A hA] using e

theorem mem_zip_of_mem_right {β γ} : ∀ (l1 : List β) (l2 : List γ) (k : γ),
    l1.length = l2.length → k ∈ l2 → ∃ s, (s, k) ∈ l1.zip l2 := by
  intro l1
  induction l1 with
  | nil => intro l2 k hl hk; cases l2 with
    | nil => cases hk
    | cons _ _ => simp at hl
  | cons a l1 ih =>
    intro l2 k hl hk
    cases l2 with
    | nil => cases hk
    | cons b l2 =>
      rcases List.mem_cons.mp hk with rfl | hk'
      · exact ⟨a, by simp⟩
      · obtain ⟨s, hs⟩ := ih l2 k (by simpa using hl) hk'
        exact ⟨s, by simp [hs]⟩

theorem small32_of_keptWF {α} (o : Opts) (slabs : List (Slab α)) (kept : List (List Row))
    (hk : keptWF o slabs kept) : small32 o kept.flatten := by
  intro r hr X hX
  obtain ⟨k, hk1, hk2⟩ := List.mem_flatten.mp hr
  obtain ⟨s, hs⟩ := mem_zip_of_mem_right slabs kept k hk.1 hk1
  have := hk.2 (s, k) hs r hk2 X hX
  simp only [rowWF, Bool.and_eq_true, decide_eq_true_eq] at this
  exact this.2

theorem cntsOf_mod (o : Opts) (kept : List (List Row)) (hs : small32 o kept.flatten) (X : Sub)
    (hX : X ∈ loadList o) : (cntsOf X kept).map (· % 2 ^ 32) = cntsOf X kept := by
  unfold cntsOf
  rw [List.map_map]
  apply List.map_congr_left
  intro r hr
  exact Nat.mod_eq_of_lt (hs r hr X hX)

/-! ### the loops as coded (index rule) equal their structural forms, faults included -/

theorem getAt_append {β} (pre : List β) (x : β) (rest : List β) :
    getAt (pre ++ x :: rest) pre.length = .ok x := by
  unfold getAt idx
  rw [pyIndex_nonneg (by simp)]
  simp

theorem getAt_oob {β} (l : List β) (i : Nat) (h : l.length ≤ i) : getAt l i = .error .oob := by
  unfold getAt idx pyIndex
  have h0 : (0 : Int) ≤ (i : Int) := Int.natCast_nonneg i
  simp only [h0, if_true, Int.toNat_natCast]
  rw [if_neg (by omega)]

theorem zipRowsI_go_eq {α} (rawCol : Bool) (nSub : Nat) (X : Sub) (part cl : List α) :
    ∀ (rest : List Row) (pre : List Row) (spre srest : List Nat), spre.length = pre.length →
      zipRowsI.go rawCol nSub X part cl (pre ++ rest) (spre ++ srest) pre.length rest.length =
        zipRows rawCol nSub X part cl rest srest := by
  intro rest
  induction rest with
  | nil => intro pre spre srest _; simp [zipRowsI.go, zipRows]
  | cons r rs ih =>
    intro pre spre srest hl
    simp only [List.length_cons]
    unfold zipRowsI.go
    rw [getAt_append]
    simp only []
    cases srest with
    | nil =>
      rw [getAt_oob _ _ (by simp [hl])]
      simp [zipRows]
    | cons w0 srest' =>
      rw [← hl, getAt_append]
      simp only []
      cases srest' with
      | nil =>
        rw [getAt_oob _ _ (by simp)]
        simp [zipRows]
      | cons w1 more =>
        have e : spre ++ w0 :: w1 :: more = (spre ++ [w0]) ++ w1 :: more := by simp
        have hl1 : (spre ++ [w0]).length = spre.length + 1 := by simp
        rw [e, ← hl1, getAt_append]
        simp only []
        have ihh := ih (pre ++ [r]) (spre ++ [w0]) (w1 :: more) (by simp [hl])
        simp only [List.length_append, List.length_singleton, List.append_assoc, List.singleton_append] at ihh
        rw [hl1, hl]
        rw [← e]
        rw [ihh]
        simp [zipRows]

theorem zipRowsI_eq {α} (rawCol : Bool) (nSub : Nat) (X : Sub) (part cl : List α) (rows : List Row)
    (swo : List Nat) : zipRowsI rawCol nSub X part cl rows swo = zipRows rawCol nSub X part cl rows swo := by
  have := zipRowsI_go_eq rawCol nSub X part cl rows [] [] swo rfl
  simpa [zipRowsI] using this

theorem zipSlabsI_go_eq {α} (rawCol : Bool) (nSub : Nat) (X : Sub) (tbl : List Row) (new : List Nat) :
    ∀ (rest : List (Slab α)) (pre : List (Slab α)) (hpre hrest : List Nat), hpre.length = pre.length →
      zipSlabsI.go rawCol nSub X tbl new (pre ++ rest) (hpre ++ hrest) pre.length rest.length =
        zipSlabs rawCol nSub X tbl new rest hrest := by
  intro rest
  induction rest with
  | nil => intro pre hpre hrest _; simp [zipSlabsI.go, zipSlabs]
  | cons s ss ih =>
    intro pre hpre hrest hl
    simp only [List.length_cons]
    unfold zipSlabsI.go
    rw [getAt_append]
    simp only []
    cases hrest with
    | nil =>
      rw [getAt_oob _ _ (by simp [hl])]
      simp [zipSlabs]
    | cons h0 hrest' =>
      rw [← hl, getAt_append]
      simp only []
      cases hrest' with
      | nil =>
        rw [getAt_oob _ _ (by simp)]
        simp [zipSlabs]
      | cons h1 more =>
        have e : hpre ++ h0 :: h1 :: more = (hpre ++ [h0]) ++ h1 :: more := by simp
        have hl1 : (hpre ++ [h0]).length = hpre.length + 1 := by simp
        rw [e, ← hl1, getAt_append]
        simp only []
        have ihh := ih (pre ++ [s]) (hpre ++ [h0]) (h1 :: more) (by simp [hl])
        simp only [List.length_append, List.length_singleton, List.append_assoc, List.singleton_append] at ihh
        rw [hl1, hl, ← e, ihh, zipRowsI_eq]
        simp [zipSlabs]

theorem zipSlabsI_eq {α} (rawCol : Bool) (nSub : Nat) (X : Sub) (tbl : List Row) (new : List Nat)
    (slabs : List (Slab α)) (hfo : List Nat) :
    zipSlabsI rawCol nSub X tbl new slabs hfo = zipSlabs rawCol nSub X tbl new slabs hfo := by
  have := zipSlabsI_go_eq rawCol nSub X tbl new slabs [] [] hfo rfl
  simpa [zipSlabsI] using this

theorem zipAllI_eq {α} (rawCol : Bool) (nSub : Nat) (tbl : List Row) (slabs : List (Slab α)) (hfo : List Nat)
    (news : List (Sub × List Nat)) :
    zipAllI rawCol nSub tbl slabs hfo news = zipAll rawCol nSub tbl slabs hfo news := by
  induction news with
  | nil => rfl
  | cons p rest ih =>
    obtain ⟨X, new⟩ := p
    simp only [zipAllI, zipAll, zipSlabsI_eq, ih]

/-! ### the preallocated halo table -/

/-- the rows file `i` keeps -/
def keptOf (rows : List Row) : Option (List Bool) → List Row
  | none => rows
  | some m => maskRows rows m

/-- `kept` is what the per-file loop keeps of the unpacked tables `rowss` under the masks `mks` -/
def ReadRel : List (List Row) → List (Option (List Bool)) → List (List Row) → Prop
  | [], _, [] => True
  | rows :: rs, m :: ms, k :: ks =>
    (∀ m', m = some m' → m'.length = rows.length) ∧ k = keptOf rows m ∧ ReadRel rs ms ks
  | _, _, _ => False

theorem readAll_rel {α} (cleaned : Bool) :
    ∀ (slabs : List (Slab α)) (mks : List (Option (List Bool))) (kept : List (List Row)),
      readAll cleaned slabs mks = .ok kept →
      ∃ rowss, allRowsOf cleaned slabs = .ok rowss ∧ ReadRel rowss mks kept := by
  intro slabs
  induction slabs with
  | nil => intro mks kept h; simp [readAll] at h; subst h; exact ⟨[], rfl, trivial⟩
  | cons s ss ih =>
    intro mks kept h
    cases mks with
    | nil => simp [readAll] at h
    | cons m ms =>
      unfold readAll at h
      cases hf : readFile cleaned s m with
      | error e => simp [hf] at h
      | ok k =>
        cases hr : readAll cleaned ss ms with
        | error e => simp [hf, hr] at h
        | ok ks =>
          simp only [hf, hr, Except.ok.injEq] at h
          subst h
          obtain ⟨rs, hrs, hrel⟩ := ih ms ks hr
          unfold readFile at hf
          cases hrow : rowsOf cleaned s with
          | error e => simp [hrow] at hf
          | ok rows =>
            simp only [hrow] at hf
            refine ⟨rows :: rs, by simp [allRowsOf, hrow, hrs], ?_⟩
            cases m with
            | none =>
              simp only [Except.ok.injEq] at hf
              subst hf
              exact ⟨fun m' hm => (by cases hm), rfl, hrel⟩
            | some m0 =>
              simp only at hf
              split at hf
              · cases hf
              · rename_i hne
                simp only [Except.ok.injEq] at hf
                subst hf
                refine ⟨fun m' hm => ?_, rfl, hrel⟩
                cases hm
                exact Classical.byContradiction (fun hc => hne hc)

theorem applyWrites_cons {β} (a : List β) (w : Nat × β) (ws : List (Nat × β)) :
    applyWrites a (w :: ws) = applyWrites (a.set w.1 w.2) ws := rfl

/-- writing `l` into the window that starts right after `pre` replaces exactly that window -/
theorem applyWrites_window {β} (post : List (Option β)) :
    ∀ (l : List β) (pre old : List (Option β)), old.length = l.length →
      applyWrites (pre ++ old ++ post) (((List.range' pre.length l.length).zip l).map (fun w => (w.1, some w.2))) =
        pre ++ l.map some ++ post := by
  intro l
  induction l with
  | nil =>
    intro pre old h
    have : old = [] := List.eq_nil_of_length_eq_zero (by simpa using h)
    subst this
    simp [applyWrites]
  | cons x l ih =>
    intro pre old h
    cases old with
    | nil => simp at h
    | cons o old' =>
      simp only [List.length_cons, List.range'_succ, List.zip_cons_cons, List.map_cons, applyWrites_cons]
      have hset : (pre ++ o :: old' ++ post).set pre.length (some x) = (pre ++ [some x]) ++ old' ++ post := by
        simp [List.set_append]
      rw [hset]
      have := ih (pre ++ [some x]) old' (by simpa using h)
      simp only [List.length_append, List.length_singleton] at this
      rw [this]
      simp

theorem maskRows_length_le {β} (rows : List β) (m : List Bool) : (maskRows rows m).length ≤ rows.length := by
  simp only [maskRows, List.length_map]
  exact Nat.le_trans (List.length_filter_le _ _) (by simp [List.length_zip]; omega)

theorem keptOf_length_le (rows : List Row) (m : Option (List Bool)) : (keptOf rows m).length ≤ rows.length := by
  cases m with
  | none => exact Nat.le_refl _
  | some m => exact maskRows_length_le rows m

/-- **the compaction, as writes into the allocation.**  Started at `N_written = done.length` on an allocation
`done ++ free` with room for all remaining raw rows, the per-file loop succeeds, every write lands inside the
allocation, the final `N_written` is advanced by the number of kept rows, and afterwards the allocation is
`done ++ kept rows (in file order) ++ leftover`, nothing else having changed -/
theorem compact_spec :
    ∀ (rowss : List (List Row)) (mks : List (Option (List Bool))) (kept : List (List Row)),
      ReadRel rowss mks kept →
      ∀ (done free : List (Option Row)), total (rowss.map List.length) ≤ free.length →
        ∃ ws free', compact rowss mks done.length =
            .ok (ws, done.length + kept.flatten.length, kept.map List.length) ∧
          (∀ w ∈ ws, w.1 < done.length + total (rowss.map List.length)) ∧
          applyWrites (done ++ free) (ws.map (fun w => (w.1, some w.2))) =
            done ++ kept.flatten.map some ++ free' := by
  intro rowss
  induction rowss with
  | nil =>
    intro mks kept hrel done free _
    cases kept with
    | nil => exact ⟨[], free, by simp [compact], by simp, by simp [applyWrites]⟩
    | cons _ _ => cases mks <;> exact absurd hrel (by simp [ReadRel])
  | cons rows rs ih =>
    intro mks kept hrel done free hfree
    cases mks with
    | nil => exact absurd hrel (by simp [ReadRel])
    | cons m ms =>
      cases kept with
      | nil => exact absurd hrel (by simp [ReadRel])
      | cons k ks =>
        obtain ⟨hm, hk, hrest⟩ := hrel
        simp only [List.map_cons, total_cons] at hfree
        -- split the free space: the window of this file, and the rest
        have hsplit : free = free.take rows.length ++ free.drop rows.length := (List.take_append_drop _ _).symm
        have hwin : (free.take rows.length).length = rows.length := by
          rw [List.length_take]; omega
        have hkl : k.length ≤ rows.length := by rw [hk]; exact keptOf_length_le rows m
        -- after unpacking the file into its window
        have hload := applyWrites_window (free.drop rows.length) rows done (free.take rows.length) hwin
        -- after `halos[:nmask] = halos[mask]`
        have hmaskw := applyWrites_window ((rows.map some).drop k.length ++ free.drop rows.length)
          k done ((rows.map some).take k.length) (by
            rw [List.length_take, List.length_map]; omega)
        have hre : done ++ (rows.map some).take k.length ++
            ((rows.map some).drop k.length ++ free.drop rows.length) =
            done ++ rows.map some ++ free.drop rows.length := by
          rw [List.append_assoc, List.append_assoc, ← List.append_assoc ((rows.map some).take _),
            List.take_append_drop]
        rw [hre] at hmaskw
        -- the remaining files
        obtain ⟨ws, free', hc, hidx, happ⟩ := ih ms ks hrest (done ++ k.map some)
          ((rows.map some).drop k.length ++ free.drop rows.length) (by
            simp only [List.length_append, List.length_drop, List.length_map]; omega)
        simp only [List.length_append, List.length_map] at hc hidx
        simp only [List.map_cons, total_cons, List.flatten_cons, List.length_append, List.map_append]
        cases m with
        | none =>
          simp only [keptOf] at hk
          subst hk
          refine ⟨(List.range' done.length k.length).zip k ++ [] ++ ws, free', ?_, ?_, ?_⟩
          · unfold compact
            simp only []
            rw [hc]
            simp [Nat.add_assoc]
          · intro w hw
            simp only [List.append_nil, List.mem_append] at hw
            rcases hw with hw | hw
            · have := (List.of_mem_zip hw).1
              simp only [List.mem_range'_1] at this
              omega
            · have := hidx w hw
              omega
          · rw [List.append_nil, List.map_append, Cumsum.applyWrites_append]
            conv => lhs; rw [hsplit, ← List.append_assoc]
            rw [hload]
            have hd : (k.map some).drop k.length = [] := by simp
            simp only [hd, List.nil_append] at happ
            rw [happ]
            simp [List.append_assoc]
        | some m0 =>
          have hml : m0.length = rows.length := hm m0 rfl
          simp only [keptOf] at hk
          refine ⟨(List.range' done.length rows.length).zip rows ++
            (List.range' done.length k.length).zip k ++ ws, free', ?_, ?_, ?_⟩
          · unfold compact
            simp only [hml, ne_eq, not_true_eq_false, if_false, ← hk]
            rw [hc]
            simp [Nat.add_assoc]
          · intro w hw
            simp only [List.mem_append] at hw
            rcases hw with (hw | hw) | hw
            · have := (List.of_mem_zip hw).1
              simp only [List.mem_range'_1] at this
              omega
            · have := (List.of_mem_zip hw).1
              simp only [List.mem_range'_1] at this
              omega
            · have := hidx w hw
              omega
          · rw [List.map_append, List.map_append, Cumsum.applyWrites_append, Cumsum.applyWrites_append]
            conv => lhs; rw [hsplit, ← List.append_assoc]
            rw [hload, hmaskw, happ]
            simp [List.append_assoc]

theorem allSome_map {β} (l : List β) : allSome (l.map some) = some l := by
  induction l with
  | nil => rfl
  | cons x l ih => simp [allSome, ih]

theorem take_map_some_append {β} (l : List β) (f : List (Option β)) :
    (l.map some ++ f).take l.length = l.map some :=
  List.take_left' (by simp)

/-- **readTable_eq.**  Whenever the structural compaction goes through, the table built through the
preallocated array is the kept rows in file order, and `N_halo_per_file` their per-file numbers. -/
theorem readTable_eq {α} (cleaned : Bool) (slabs : List (Slab α)) (mks : List (Option (List Bool)))
    (kept : List (List Row)) (h : readAll cleaned slabs mks = .ok kept) :
    readTable cleaned slabs mks = .ok (kept.flatten, kept.map List.length) := by
  obtain ⟨rowss, hrows, hrel⟩ := readAll_rel cleaned slabs mks kept h
  obtain ⟨ws, free', hc, hidx, happ⟩ := compact_spec rowss mks kept hrel []
    (List.replicate (total (rowss.map List.length)) none) (by simp)
  simp only [List.length_nil, Nat.zero_add, List.nil_append] at hc hidx happ
  unfold readTable
  have htot : (rowss.map List.length).foldr (· + ·) 0 = total (rowss.map List.length) := rfl
  simp only [hrows, hc, htot]
  rw [if_pos (by simpa using hidx), happ]
  rw [take_map_some_append, allSome_map]

theorem loadW_eq {α} (o : Opts) (slabs : List (Slab α)) (mks : List (Option (List Bool)))
    (kept : List (List Row)) (h1 : masksFor o.masks slabs.length = .ok mks)
    (h2 : readAll o.cleaned slabs mks = .ok kept) : loadW o slabs = loadWS o slabs := by
  unfold loadW loadWS
  simp only [h1, h2, readTable_eq o.cleaned slabs mks kept h2, zipAllI_eq]

theorem loadW_spec {α} (o : Opts) (slabs : List (Slab α)) (h : wf o slabs = true) :
    ∃ mks kept, masksFor o.masks slabs.length = .ok mks ∧ readAll o.cleaned slabs mks = .ok kept ∧
      keptWF o slabs kept ∧ loadW o slabs = .ok (specRes o slabs kept, specW o slabs kept) := by
  obtain ⟨mks, kept, h1, h2, hk⟩ := wf_kept o slabs h
  refine ⟨mks, kept, h1, h2, hk, ?_⟩
  rw [loadW_eq o slabs mks kept h1 h2]
  have hs := small32_of_keptWF o slabs kept hk
  unfold loadWS
  simp only [h1, h2]
  by_cases hne : loadList o = []
  · simp [hne, specRes, specW, allParts]
  · simp only [hne, if_false, newIdx_eq o kept hs, nSubsamp_eq o kept hne, cumsumArr_eq,
      zipAll_eq o slabs kept hk]
    have hN : (allParts o slabs kept).length = total ((loadList o).map (fun X => total (cntsOf X kept))) := by
      have hlen := fun X hX => partsOf_length o X hX slabs kept hk
      cases ha : o.loadA <;> cases hb : o.loadB <;>
        simp [allParts, loadList, ha, hb] <;> simp [loadList, ha, hb] at hlen <;> simp [hlen]
    congr 2
    unfold specRes
    congr 1
    · simp only [newsOf, List.map_map]
      apply List.map_congr_left
      intro X hX
      simp only [Function.comp, diff32, diff_offsets, cntsOf_mod o kept hs X hX]
    · rw [← hN]
      exact applyWrites_zip (allParts o slabs kept)

/-! ### well-formedness as a direct predicate on the input -/

/-- all rows of a superslab file: each halo with its cleaning record (cleaned load), or alone -/
def allRows {α} (cleaned : Bool) (s : Slab α) : List Row :=
  if cleaned then s.halos.zip (s.clean.map some) else s.halos.map (fun h => (h, none))

/-- a halo row is well-formed for subsample X: unless the halo was cleaned away its raw range lies inside the
particle file, its merge range lies inside the cleaning file, and it has fewer than 2^32 particles in all
(`npout + npout_merge` is a sum of `uint32` columns) -/
def rowOK {α} (X : Sub) (part cl : List α) (r : Row) : Prop :=
  (match r.2 with
   | some c => (c.nTotal ≠ 0 → r.1.start X + r.1.np X ≤ part.length) ∧ c.mStart X + c.mNp X ≤ cl.length
   | none => r.1.start X + r.1.np X ≤ part.length) ∧
  ownCnt X r < 2 ^ 32

/-- a superslab with the mask its filter call returns (`none`: no filter): the cleaning table is as long as the
halo table, the mask is as long as the halo table, and every KEPT row is well-formed for every LOADED
subsample -/
def slabOK {α} (o : Opts) (s : Slab α) (m : Option (List Bool)) : Prop :=
  (o.cleaned = true → s.clean.length = s.halos.length) ∧
  match m with
  | none => ∀ r ∈ allRows o.cleaned s, ∀ X ∈ loadList o, rowOK X (s.part X) (s.cleanPart X) r
  | some m => m.length = s.halos.length ∧
      ∀ q ∈ (allRows o.cleaned s).zip m, q.2 = true →
        ∀ X ∈ loadList o, rowOK X (s.part X) (s.cleanPart X) q.1

/-- **explicit well-formedness** of a load request: one mask per superslab and every superslab `slabOK` -/
def wfE {α} (o : Opts) (slabs : List (Slab α)) : Prop :=
  match o.masks with
  | none => ∀ s ∈ slabs, slabOK o s none
  | some ms => ms.length = slabs.length ∧ ∀ p ∈ slabs.zip ms, slabOK o p.1 (some p.2)

theorem rowWF_iff {α} (X : Sub) (part cl : List α) (r : Row) :
    rowWF X part cl r = true ↔ rowOK X part cl r := by
  rcases r with ⟨h, _ | c⟩
  · simp [rowWF, rowOK]
  · simp only [rowWF, rowOK, Bool.and_eq_true, Bool.or_eq_true, decide_eq_true_eq]
    constructor
    · rintro ⟨⟨h1, h2⟩, h3⟩
      exact ⟨⟨fun hne => h1.resolve_left hne, h2⟩, h3⟩
    · rintro ⟨⟨h1, h2⟩, h3⟩
      refine ⟨⟨?_, h2⟩, h3⟩
      by_cases hc : c.nTotal = 0
      · exact Or.inl hc
      · exact Or.inr (h1 hc)

theorem mem_maskRows_iff {β} (r : β) (rows : List β) (m : List Bool) :
    r ∈ maskRows rows m ↔ (r, true) ∈ rows.zip m := by
  simp only [maskRows, List.mem_map, List.mem_filter]
  constructor
  · rintro ⟨⟨a, b⟩, ⟨hp, hb⟩, rfl⟩
    simp only at hb
    subst hb
    exact hp
  · intro h
    exact ⟨(r, true), ⟨h, rfl⟩, rfl⟩

theorem allRows_length {α} (cleaned : Bool) (s : Slab α) (h : cleaned = true → s.clean.length = s.halos.length) :
    (allRows cleaned s).length = s.halos.length := by
  unfold allRows
  cases cleaned with
  | false => simp
  | true => simp [h rfl]

theorem rowsOf_eq {α} (cleaned : Bool) (s : Slab α) (h : cleaned = true → s.clean.length = s.halos.length) :
    rowsOf cleaned s = .ok (allRows cleaned s) := by
  unfold rowsOf allRows
  cases cleaned with
  | false => rfl
  | true => simp [h rfl]

theorem rowsOf_err {α} (s : Slab α) (h : ¬ s.clean.length = s.halos.length) :
    rowsOf true s = .error .badLength := by
  unfold rowsOf
  simp [h]

/-- the compaction core of `wf` against the explicit conditions, for any list of per-file masks -/
theorem wf_core {α} (o : Opts) :
    ∀ (slabs : List (Slab α)) (mks : List (Option (List Bool))),
      ((match readAll o.cleaned slabs mks with
        | .error _ => false
        | .ok kept => (slabs.zip kept).all (fun p => p.2.all (fun r => (loadList o).all (fun X =>
            rowWF X (p.1.part X) (p.1.cleanPart X) r)))) = true) ↔
      (slabs.length ≤ mks.length ∧ ∀ p ∈ slabs.zip mks, slabOK o p.1 p.2) := by
  intro slabs
  induction slabs with
  | nil => intro mks; simp [readAll]
  | cons s ss ih =>
    intro mks
    cases mks with
    | nil => simp [readAll]
    | cons m ms =>
      have ihh := ih ms
      simp only [List.length_cons, Nat.add_le_add_iff_right, List.zip_cons_cons, List.mem_cons, forall_eq_or_imp]
      unfold readAll
      by_cases hcl : o.cleaned = true → s.clean.length = s.halos.length
      · have hrows := rowsOf_eq o.cleaned s hcl
        have hlen := allRows_length o.cleaned s hcl
        cases m with
        | none =>
          have hf : readFile o.cleaned s none = .ok (allRows o.cleaned s) := by simp [readFile, hrows]
          rw [hf]
          simp only []
          cases hr : readAll o.cleaned ss ms with
          | error e =>
            rw [hr] at ihh
            simp only [Bool.false_eq_true, false_iff] at ihh ⊢
            intro hh
            exact ihh ⟨hh.1, hh.2.2⟩
          | ok ks =>
            rw [hr] at ihh
            simp only [List.zip_cons_cons, List.all_cons, Bool.and_eq_true] at ihh ⊢
            rw [ihh]
            simp only [slabOK, List.all_eq_true, rowWF_iff]
            constructor
            · rintro ⟨h1, h2, h3⟩
              exact ⟨h2, ⟨hcl, h1⟩, h3⟩
            · rintro ⟨h2, ⟨_, h1⟩, h3⟩
              exact ⟨h1, h2, h3⟩
        | some m0 =>
          by_cases hm : m0.length = s.halos.length
          · have hf : readFile o.cleaned s (some m0) = .ok (maskRows (allRows o.cleaned s) m0) := by
              simp [readFile, hrows, hlen, hm]
            rw [hf]
            simp only []
            cases hr : readAll o.cleaned ss ms with
            | error e =>
              rw [hr] at ihh
              simp only [Bool.false_eq_true, false_iff] at ihh ⊢
              intro hh
              exact ihh ⟨hh.1, hh.2.2⟩
            | ok ks =>
              rw [hr] at ihh
              simp only [List.zip_cons_cons, List.all_cons, Bool.and_eq_true] at ihh ⊢
              rw [ihh]
              simp only [slabOK, List.all_eq_true, rowWF_iff, mem_maskRows_iff]
              constructor
              · rintro ⟨h1, h2, h3⟩
                refine ⟨h2, ⟨hcl, hm, ?_⟩, h3⟩
                rintro ⟨r, b⟩ hq hb X hX
                simp only at hb
                subst hb
                exact h1 r hq X hX
              · rintro ⟨h2, ⟨_, _, h1⟩, h3⟩
                exact ⟨fun r hr X hX => h1 (r, true) hr rfl X hX, h2, h3⟩
          · have hf : readFile o.cleaned s (some m0) = .error .badLength := by
              simp [readFile, hrows, hlen, hm]
            rw [hf]
            simp only [Bool.false_eq_true, false_iff]
            intro hh
            exact hm hh.2.1.2.1
      · have hct : o.cleaned = true := Classical.byContradiction (fun hc => hcl (fun h => absurd h hc))
        have hne : ¬ s.clean.length = s.halos.length := fun h => hcl (fun _ => h)
        have hf : readFile o.cleaned s m = .error .badLength := by
          unfold readFile
          rw [hct, rowsOf_err s hne]
        rw [hf]
        simp only [Bool.false_eq_true, false_iff]
        intro hh
        exact hcl hh.2.1.1

theorem mem_zip_replicate {β γ} (x : γ) : ∀ (l : List β) (p : β × γ),
    p ∈ l.zip (List.replicate l.length x) ↔ p.1 ∈ l ∧ p.2 = x := by
  intro l
  induction l with
  | nil => intro p; simp
  | cons a l ih =>
    intro p
    simp only [List.length_cons, List.replicate_succ, List.zip_cons_cons, List.mem_cons, ih]
    constructor
    · rintro (rfl | ⟨h1, h2⟩)
      · exact ⟨Or.inl rfl, rfl⟩
      · exact ⟨Or.inr h1, h2⟩
    · rintro ⟨h1 | h1, h2⟩
      · left; cases p; simp_all
      · exact Or.inr ⟨h1, h2⟩

/-- **wf_iff.**  The decidable `wf` (phrased through the model's compaction) is exactly the explicit
predicate `wfE` on the input. -/
theorem wf_iff {α} (o : Opts) (slabs : List (Slab α)) : wf o slabs = true ↔ wfE o slabs := by
  unfold wf wfE
  cases hm : o.masks with
  | none =>
    simp only [masksFor]
    refine Iff.trans (wf_core o slabs (List.replicate slabs.length none)) ?_
    simp only [List.length_replicate, Nat.le_refl, true_and]
    constructor
    · intro h s hs
      exact h (s, none) ((mem_zip_replicate none slabs (s, none)).mpr ⟨hs, rfl⟩)
    · intro h p hp
      obtain ⟨h1, h2⟩ := (mem_zip_replicate none slabs p).mp hp
      rw [h2]
      exact h p.1 h1
  | some ms =>
    simp only [masksFor]
    by_cases hl : ms.length = slabs.length
    · rw [if_neg (by simpa using hl)]
      simp only []
      refine Iff.trans (wf_core o slabs (ms.map some)) ?_
      simp only [List.length_map, hl, Nat.le_refl, true_and]
      rw [List.zip_map_right]
      constructor
      · intro h p hp
        exact h (p.1, some p.2) (List.mem_map.mpr ⟨p, hp, rfl⟩)
      · intro h p hp
        obtain ⟨q, hq, rfl⟩ := List.mem_map.mp hp
        exact h q hq
    · rw [if_pos (by simpa using hl)]
      simp only [Bool.false_eq_true, false_iff]
      intro hh
      exact hl hh.1

end AbacusVerif.Catalog
