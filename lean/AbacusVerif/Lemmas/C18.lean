/-
  Helper lemmas for C18 (Euler16 eigenvector codes).

  * integer layer: `splitWith A T` and `joinWith A T` are mutually inverse on the valid ranges;
  * the instance of the real layer with `ℝ`;
  * linear algebra of the triad construction over `ℝ` (unit major, solved minor, cross product);
  * the analytic facts behind injectivity: `u ↦ u·√(2−u²)/(1−u²)` is strictly increasing on `[0,1)`,
    ranges of `t`, `r`, `az` for valid indices.
-/
import AbacusVerif.Model.C18
import Mathlib.Data.Nat.Sqrt
import Mathlib.Data.Set.Function
import Mathlib.Analysis.SpecialFunctions.Trigonometric.Basic
import Mathlib.Analysis.Real.Sqrt
import Mathlib.Tactic.Ring
import Mathlib.Tactic.Linarith
import Mathlib.Tactic.FieldSimp
import Mathlib.Tactic.Positivity
import Mathlib.Tactic.IntervalCases
import Mathlib.Tactic.NormNum

namespace AbacusVerif.Euler16
open AbacusVerif AbacusVerif.EulerConsts

/-! ### integer layer -/

/-- the inverse of `splitWith`: how the encoder composes a code -/
def joinWith (A T : Nat) (s : Split) : Nat :=
  (s.cap * (T * T) + s.it * s.it + s.ir) * A + s.iaz

def join (s : Split) : Nat := joinWith EULER_ABIN EULER_TBIN s

theorem splitWith_joinWith (A T : Nat) (s : Split)
    (hit : s.it < T) (hir : s.ir ≤ 2 * s.it) (hiaz : s.iaz < A) :
    splitWith A T (joinWith A T s) = s := by
  obtain ⟨cap, it, ir, iaz⟩ := s
  simp only at hit hir hiaz
  have hA : 0 < A := by omega
  have hTT : it * it + ir < T * T := by
    have h1 : (it + 1) * (it + 1) ≤ T * T := Nat.mul_le_mul hit hit
    nlinarith
  have h0 : ((cap * (T * T) + it * it + ir) * A + iaz) / A = cap * (T * T) + it * it + ir := by
    rw [Nat.mul_comm _ A, Nat.mul_add_div hA, Nat.div_eq_of_lt hiaz, Nat.add_zero]
  have h1 : (cap * (T * T) + it * it + ir) / (T * T) = cap := by
    have hpos : 0 < T * T := by omega
    rw [Nat.add_assoc, Nat.mul_comm cap, Nat.mul_add_div hpos, Nat.div_eq_of_lt hTT, Nat.add_zero]
  have h2 : cap * (T * T) + it * it + ir - cap * (T * T) = it * it + ir := by omega
  have h3 : Nat.sqrt (it * it + ir) = it := Nat.sqrt_add_eq it (by omega)
  simp only [splitWith, joinWith, h0, h1, h2, h3]
  congr 1 <;> omega

theorem joinWith_splitWith (A T : Nat) (c : Nat) :
    joinWith A T (splitWith A T c) = c := by
  simp only [splitWith, joinWith]
  have e1 : ∀ (x k : Nat), x / k * k + (x - x / k * k) = x := by
    intro x k
    have := Nat.div_mul_le_self x k
    omega
  have e2 : Nat.sqrt (c / A - c / A / (T * T) * (T * T)) * Nat.sqrt (c / A - c / A / (T * T) * (T * T))
      ≤ c / A - c / A / (T * T) * (T * T) := Nat.sqrt_le _
  have e3 := e1 (c / A) (T * T)
  have e4 := e1 c A
  generalize Nat.sqrt (c / A - c / A / (T * T) * (T * T)) = q at *
  generalize c / A / (T * T) * (T * T) = m at *
  generalize c / A = d at *
  generalize q * q = q2 at *
  have : m + q2 + (d - m - q2) = d := by omega
  rw [this]
  exact e4

theorem splitWith_valid (A T n : Nat) (c : Nat) (hA : 0 < A) (hT : 0 < T) (hc : c < n * (T * T) * A) :
    (splitWith A T c).cap < n ∧ (splitWith A T c).it < T ∧
      (splitWith A T c).ir ≤ 2 * (splitWith A T c).it ∧ (splitWith A T c).iaz < A := by
  simp only [splitWith]
  have hTT : 0 < T * T := Nat.mul_pos hT hT
  have h0 : c / A < n * (T * T) := (Nat.div_lt_iff_lt_mul hA).2 hc
  have h1 : c / A / (T * T) < n := (Nat.div_lt_iff_lt_mul hTT).2 h0
  have hmod : c / A - c / A / (T * T) * (T * T) = c / A % (T * T) := Nat.mod_eq_sub_div_mul.symm
  have hmodA : c - c / A * A = c % A := Nat.mod_eq_sub_div_mul.symm
  rw [hmod, hmodA]
  have hb : c / A % (T * T) < T * T := Nat.mod_lt _ hTT
  refine ⟨h1, Nat.sqrt_lt.2 hb, ?_, Nat.mod_lt _ hA⟩
  have h2 := Nat.lt_succ_sqrt (c / A % (T * T))
  have h3 := Nat.sqrt_le (c / A % (T * T))
  generalize Nat.sqrt (c / A % (T * T)) = q at *
  generalize c / A % (T * T) = b at *
  have : (q + 1) * (q + 1) = q * q + 2 * q + 1 := by ring
  simp only [Nat.succ_eq_add_one] at h2
  omega

/-! ### the real layer over `ℝ` -/

noncomputable instance instROpsReal : ROps ℝ where
  sqrt := Real.sqrt
  cos := Real.cos
  sin := Real.sin
  ofRat q := (q : ℝ)
  pi := Real.pi

@[simp] theorem ofRat_real (q : ℚ) : (ROps.ofRat q : ℝ) = (q : ℝ) := rfl
@[simp] theorem sqrt_real (x : ℝ) : (ROps.sqrt x : ℝ) = Real.sqrt x := rfl
@[simp] theorem cos_real (x : ℝ) : (ROps.cos x : ℝ) = Real.cos x := rfl
@[simp] theorem sin_real (x : ℝ) : (ROps.sin x : ℝ) = Real.sin x := rfl
@[simp] theorem pi_real : (ROps.pi : ℝ) = Real.pi := rfl

/-- Euclidean inner product -/
def dot (a b : V3 ℝ) : ℝ := a.x * b.x + a.y * b.y + a.z * b.z

theorem norm3_eq (v : V3 ℝ) : norm3 v = Real.sqrt (dot v v) := rfl

@[ext] theorem V3.ext' {α} {a b : V3 α} (hx : a.x = b.x) (hy : a.y = b.y) (hz : a.z = b.z) : a = b := by
  cases a; cases b; simp_all

/-- Lagrange's identity -/
theorem dot_cross_self (a b : V3 ℝ) :
    dot (cross a b) (cross a b) = dot a a * dot b b - dot a b ^ 2 := by
  simp only [dot, cross]; ring

theorem dot_cross_left (a b : V3 ℝ) : dot a (cross a b) = 0 := by
  simp only [dot, cross]; ring

theorem dot_cross_right (a b : V3 ℝ) : dot (cross a b) b = 0 := by
  simp only [dot, cross]; ring

theorem dot_scale_scale (a : V3 ℝ) (k : ℝ) : dot (scale3 a k) (scale3 a k) = k ^ 2 * dot a a := by
  simp only [dot, scale3]; ring

theorem dot_scale_left (a b : V3 ℝ) (k : ℝ) : dot (scale3 a k) b = k * dot a b := by
  simp only [dot, scale3]; ring

theorem scale3_one (a : V3 ℝ) : scale3 a 1 = a := by
  cases a; simp [scale3]

/-- The tail of `_unpack_euler16`: from a unit major axis `M` and an un-normalised minor axis `m`
perpendicular to it (and not zero), normalising `m`, taking the cross product and normalising again
gives an orthonormal right-handed triad, and the second normalisation changes nothing. -/
theorem triad_finish (M m : V3 ℝ) (hM : dot M M = 1) (hmM : dot m M = 0) (hm : 0 < dot m m) :
    let minor := scale3 m ((1 : ℝ) / norm3 m)
    let mid := cross minor M
    let middle := scale3 mid ((1 : ℝ) / norm3 mid)
    dot M M = 1 ∧ dot minor minor = 1 ∧ dot middle middle = 1 ∧
      dot minor M = 0 ∧ dot minor middle = 0 ∧ dot middle M = 0 ∧ middle = cross minor M := by
  intro minor mid middle
  have hn : 0 < norm3 m := by rw [norm3_eq]; exact Real.sqrt_pos.2 hm
  have hn2 : norm3 m ^ 2 = dot m m := by rw [norm3_eq]; exact Real.sq_sqrt hm.le
  have h1 : dot minor minor = 1 := by
    simp only [minor, dot_scale_scale]
    rw [← hn2]; field_simp
  have h2 : dot minor M = 0 := by
    simp only [minor, dot_scale_left, hmM, mul_zero]
  have h3 : dot mid mid = 1 := by
    simp only [mid, dot_cross_self, h1, h2, hM]; norm_num
  have h4 : norm3 mid = 1 := by rw [norm3_eq, h3, Real.sqrt_one]
  have h5 : middle = mid := by
    simp only [middle, h4, div_one, scale3_one]
  refine ⟨hM, h1, ?_, h2, ?_, ?_, h5⟩
  · rw [h5]; exact h3
  · rw [h5]; exact dot_cross_left minor M
  · rw [h5]; exact dot_cross_right minor M

/-- the normalisation `direction` produces a unit vector with positive third component -/
theorem direction_unit (X Y : ℝ) :
    let d := direction X Y
    d.1 * d.1 + d.2.1 * d.2.1 + d.2.2 * d.2.2 = 1 ∧ 0 < d.2.2 ∧
      d.1 = X * d.2.2 ∧ d.2.1 = Y * d.2.2 := by
  have hpos : 0 < (1 : ℝ) + X * X + Y * Y := by nlinarith [mul_self_nonneg X, mul_self_nonneg Y]
  have hs : 0 < Real.sqrt (1 + X * X + Y * Y) := Real.sqrt_pos.2 hpos
  have hs2 : Real.sqrt (1 + X * X + Y * Y) ^ 2 = 1 + X * X + Y * Y := Real.sq_sqrt hpos.le
  simp only [direction, ofRat_real, sqrt_real, Rat.cast_one]
  generalize Real.sqrt (1 + X * X + Y * Y) = S at hs hs2
  refine ⟨?_, by positivity, trivial, trivial⟩
  field_simp
  rw [hs2]; ring

/-! ### the twelve caps -/

theorem major_unit (cap : Nat) (x y z : ℝ) (hcap : cap < 12) (h : x * x + y * y + z * z = 1) :
    dot (majorOf cap x y z) (majorOf cap x y z) = 1 := by
  interval_cases cap <;> simp only [majorOf, dot] <;> linear_combination h

theorem minorRaw_perp (cap : Nat) (x y z c s : ℝ) (hcap : cap < 12) (hz : z ≠ 0) :
    dot (minorRaw cap (majorOf cap x y z) c s) (majorOf cap x y z) = 0 := by
  interval_cases cap <;> simp only [majorOf, minorRaw, dot, Nat.reduceDiv] <;> field_simp <;> ring

theorem minorRaw_pos (cap : Nat) (M : V3 ℝ) (c s : ℝ) (hcap : cap < 12) (hcs : c * c + s * s = 1) :
    0 < dot (minorRaw cap M c s) (minorRaw cap M c s) := by
  have h1 : ∀ q : ℝ, 0 < q * q + c * c + s * s := fun q => by nlinarith [mul_self_nonneg q]
  have h2 : ∀ q : ℝ, 0 < s * s + q * q + c * c := fun q => by nlinarith [mul_self_nonneg q]
  have h3 : ∀ q : ℝ, 0 < c * c + s * s + q * q := fun q => by nlinarith [mul_self_nonneg q]
  interval_cases cap <;> simp only [minorRaw, dot, Nat.reduceDiv] <;>
    first | exact h1 _ | exact h2 _ | exact h3 _
/-! ### analytic facts behind injectivity -/

/-- `yy/zz` as a function of the rescaled bin centre `u = (it + ½)/TBIN/EULER_NORM` -/
noncomputable def gfun (u : ℝ) : ℝ := u * Real.sqrt (2 - u * u) / (1 - u * u)

noncomputable def uOf (it : Nat) : ℝ :=
  ((it : ℝ) + 1 / 2) * (1 / (EULER_TBIN : ℝ)) * (1 / (EULER_NORM : ℝ))

theorem tParam_eq (it : Nat) : (tParam it : ℝ) = gfun (uOf it) := by
  simp only [tParam, gfun, uOf, ofRat_real, sqrt_real]
  push_cast
  ring_nf

theorem rParam_eq (it ir : Nat) :
    (rParam it ir : ℝ) = ((ir : ℝ) + 1 / 2) / ((it : ℝ) + 1 / 2) - 1 := by
  simp only [rParam, ofRat_real]
  push_cast
  ring_nf

theorem azOf_eq (iaz : Nat) :
    (azOf iaz : ℝ) = ((iaz : ℝ) + 1 / 2) * (1 / (EULER_ABIN : ℝ)) * Real.pi := by
  simp only [azOf, ofRat_real, pi_real]
  push_cast
  ring_nf

theorem gfun_strictMono {u v : ℝ} (hu : 0 ≤ u) (huv : u < v) (hv : v < 1) : gfun u < gfun v := by
  have hu1 : u < 1 := huv.trans hv
  have hv0 : 0 < v := lt_of_le_of_lt hu huv
  have hau : 0 < 2 - u * u := by nlinarith
  have hav : 0 < 2 - v * v := by nlinarith
  have hdu : 0 < 1 - u * u := by nlinarith
  have hdv : 0 < 1 - v * v := by nlinarith
  have ha : 0 < Real.sqrt (2 - u * u) := Real.sqrt_pos.2 hau
  have hb : 0 < Real.sqrt (2 - v * v) := Real.sqrt_pos.2 hav
  have ha2 : Real.sqrt (2 - u * u) ^ 2 = 2 - u * u := Real.sq_sqrt hau.le
  have hb2 : Real.sqrt (2 - v * v) ^ 2 = 2 - v * v := Real.sq_sqrt hav.le
  unfold gfun
  generalize Real.sqrt (2 - u * u) = a at ha ha2
  generalize Real.sqrt (2 - v * v) = b at hb hb2
  have hnum : u * a < v * b := by
    apply lt_of_pow_lt_pow_left₀ 2 (by positivity)
    have h1 : (u * a) ^ 2 = u * u * (2 - u * u) := by rw [mul_pow, ha2]; ring
    have h2 : (v * b) ^ 2 = v * v * (2 - v * v) := by rw [mul_pow, hb2]; ring
    rw [h1, h2]
    have h3 : 0 < (v - u) * (v + u) := mul_pos (by linarith) (by linarith)
    have h4 : 0 < 2 - u * u - v * v := by nlinarith
    nlinarith [mul_pos h3 h4]
  have hua : 0 ≤ u * a := mul_nonneg hu ha.le
  rw [div_lt_div_iff₀ hdu hdv]
  have hd : 1 - v * v ≤ 1 - u * u := by nlinarith
  calc u * a * (1 - v * v) ≤ u * a * (1 - u * u) := mul_le_mul_of_nonneg_left hd hua
    _ < v * b * (1 - u * u) := mul_lt_mul_of_pos_right hnum hdu

theorem gfun_range {u : ℝ} (hu : 0 < u) (hu2 : u < 13 / 25) : 0 < gfun u ∧ gfun u < 1 := by
  have hau : 0 < 2 - u * u := by nlinarith
  have hdu : 0 < 1 - u * u := by nlinarith
  have ha : 0 < Real.sqrt (2 - u * u) := Real.sqrt_pos.2 hau
  have ha2 : Real.sqrt (2 - u * u) ^ 2 = 2 - u * u := Real.sq_sqrt hau.le
  unfold gfun
  generalize Real.sqrt (2 - u * u) = a at ha ha2
  refine ⟨div_pos (mul_pos hu ha) hdu, ?_⟩
  rw [div_lt_one hdu]
  apply lt_of_pow_lt_pow_left₀ 2 hdu.le
  have h1 : (u * a) ^ 2 = u * u * (2 - u * u) := by rw [mul_pow, ha2]; ring
  rw [h1]
  have hw : u * u < 169 / 625 := by nlinarith
  have hw0 : 0 ≤ u * u := mul_self_nonneg u
  nlinarith [mul_nonneg (sub_nonneg.2 hw.le) (by linarith : (0 : ℝ) ≤ 4 - 2 * (u * u + 169 / 625))]

theorem uOf_pos (it : Nat) : 0 < uOf it := by
  unfold uOf EULER_TBIN EULER_NORM
  have : (0 : ℝ) ≤ (it : ℝ) := Nat.cast_nonneg it
  push_cast
  positivity

theorem uOf_lt (it : Nat) (h : it < EULER_TBIN) : uOf it < 13 / 25 := by
  have h' : (it : ℝ) ≤ 10 := by
    have : it ≤ 10 := by unfold EULER_TBIN at h; omega
    exact_mod_cast this
  unfold uOf EULER_TBIN EULER_NORM
  push_cast
  norm_num
  linarith

theorem uOf_strictMono {a b : Nat} (h : a < b) : uOf a < uOf b := by
  have h' : (a : ℝ) < (b : ℝ) := by exact_mod_cast h
  unfold uOf EULER_TBIN EULER_NORM
  push_cast
  norm_num
  linarith

theorem tParam_inj {a b : Nat} (ha : a < EULER_TBIN) (hb : b < EULER_TBIN)
    (h : (tParam a : ℝ) = tParam b) : a = b := by
  rw [tParam_eq, tParam_eq] at h
  rcases Nat.lt_trichotomy a b with hab | hab | hab
  · exact absurd h (gfun_strictMono (uOf_pos a).le (uOf_strictMono hab)
      (lt_trans (uOf_lt b hb) (by norm_num))).ne
  · exact hab
  · exact absurd h (gfun_strictMono (uOf_pos b).le (uOf_strictMono hab)
      (lt_trans (uOf_lt a ha) (by norm_num))).ne'

theorem tParam_range (it : Nat) (h : it < EULER_TBIN) : 0 < (tParam it : ℝ) ∧ (tParam it : ℝ) < 1 := by
  rw [tParam_eq]; exact gfun_range (uOf_pos it) (uOf_lt it h)

theorem rParam_range (it ir : Nat) (h : ir ≤ 2 * it) : -1 < (rParam it ir : ℝ) ∧ (rParam it ir : ℝ) < 1 := by
  rw [rParam_eq]
  have h0 : (0 : ℝ) ≤ (ir : ℝ) := Nat.cast_nonneg ir
  have h1 : (ir : ℝ) ≤ 2 * (it : ℝ) := by exact_mod_cast h
  have hd : (0 : ℝ) < (it : ℝ) + 1 / 2 := by have : (0 : ℝ) ≤ (it : ℝ) := Nat.cast_nonneg it; linarith
  constructor
  · have : 0 < ((ir : ℝ) + 1 / 2) / ((it : ℝ) + 1 / 2) := div_pos (by linarith) hd
    linarith
  · have : ((ir : ℝ) + 1 / 2) / ((it : ℝ) + 1 / 2) < 2 := by rw [div_lt_iff₀ hd]; linarith
    linarith

theorem rParam_inj (it : Nat) {a b : Nat} (h : (rParam it a : ℝ) = rParam it b) : a = b := by
  rw [rParam_eq, rParam_eq] at h
  have hd : (0 : ℝ) < (it : ℝ) + 1 / 2 := by have : (0 : ℝ) ≤ (it : ℝ) := Nat.cast_nonneg it; linarith
  have h2 : ((a : ℝ) + 1 / 2) / ((it : ℝ) + 1 / 2) = ((b : ℝ) + 1 / 2) / ((it : ℝ) + 1 / 2) := by linarith
  rw [div_left_inj' hd.ne'] at h2
  have : (a : ℝ) = (b : ℝ) := by linarith
  exact_mod_cast this

theorem azOf_range (iaz : Nat) (h : iaz < EULER_ABIN) : 0 < (azOf iaz : ℝ) ∧ (azOf iaz : ℝ) < Real.pi := by
  rw [azOf_eq]
  have h0 : (0 : ℝ) ≤ (iaz : ℝ) := Nat.cast_nonneg iaz
  have h1 : (iaz : ℝ) ≤ 44 := by
    have : iaz ≤ 44 := by unfold EULER_ABIN at h; omega
    exact_mod_cast this
  have hpi := Real.pi_pos
  unfold EULER_ABIN
  push_cast
  constructor
  · positivity
  · have : ((iaz : ℝ) + 1 / 2) * (1 / 45) < 1 := by linarith
    nlinarith

theorem azOf_inj {a b : Nat} (h : (azOf a : ℝ) = azOf b) : a = b := by
  rw [azOf_eq, azOf_eq] at h
  have hpi := Real.pi_pos
  unfold EULER_ABIN at h
  push_cast at h
  have h2 := mul_right_cancel₀ hpi.ne' h
  have : (a : ℝ) = (b : ℝ) := by linarith
  exact_mod_cast this

/-! ### separating caps, cells and azimuth bins -/

/-- within one cap the arrangement of `(xx, yy, zz)` into the major axis is injective -/
theorem majorOf_inj (cap : Nat) (hcap : cap < 12) {x y z x' y' z' : ℝ}
    (h : majorOf cap x y z = majorOf cap x' y' z') : x = x' ∧ y = y' ∧ z = z' := by
  interval_cases cap <;> simp only [majorOf, V3.mk.injEq, neg_inj] at h <;> tauto

/-- the dominance pattern `|xx| < yy < zz` identifies the cap -/
theorem majorOf_cap_inj (cap cap' : Nat) (hcap : cap < 12) (hcap' : cap' < 12) {x y z x' y' z' : ℝ}
    (h1 : -y < x) (h2 : x < y) (h3 : y < z) (h1' : -y' < x') (h2' : x' < y') (h3' : y' < z')
    (h : majorOf cap x y z = majorOf cap' x' y' z') : cap = cap' := by
  interval_cases cap <;> interval_cases cap' <;> simp only [majorOf, V3.mk.injEq] at h <;>
    first
    | rfl
    | (exfalso; obtain ⟨e1, e2, e3⟩ := h; linarith)

/-- the un-normalised coordinates of cell `(it, ir)`: `(xx, yy) = (r·t, t)` -/
noncomputable def cellDir (it ir : Nat) : ℝ × ℝ × ℝ :=
  direction ((rParam it ir : ℝ) * tParam it) (tParam it)

theorem cellDir_order (it ir : Nat) (hit : it < EULER_TBIN) (hir : ir ≤ 2 * it) :
    -(cellDir it ir).2.1 < (cellDir it ir).1 ∧ (cellDir it ir).1 < (cellDir it ir).2.1 ∧
      0 < (cellDir it ir).2.1 ∧ (cellDir it ir).2.1 < (cellDir it ir).2.2 := by
  obtain ⟨ht0, ht1⟩ := tParam_range it hit
  obtain ⟨hr0, hr1⟩ := rParam_range it ir hir
  obtain ⟨-, hz, hx, hy⟩ := direction_unit ((rParam it ir : ℝ) * tParam it) (tParam it)
  unfold cellDir
  generalize direction ((rParam it ir : ℝ) * tParam it) (tParam it) = d at hz hx hy
  generalize (tParam it : ℝ) = t at *
  generalize (rParam it ir : ℝ) = r at *
  rw [hx, hy]
  have htn : 0 < t * d.2.2 := mul_pos ht0 hz
  refine ⟨?_, ?_, htn, ?_⟩
  · nlinarith [mul_pos (by linarith : (0 : ℝ) < r + 1) htn]
  · nlinarith [mul_pos (by linarith : (0 : ℝ) < 1 - r) htn]
  · nlinarith

theorem cellDir_inj {it ir it' ir' : Nat} (hit : it < EULER_TBIN) (hit' : it' < EULER_TBIN)
    (h1 : (cellDir it ir).1 = (cellDir it' ir').1) (h2 : (cellDir it ir).2.1 = (cellDir it' ir').2.1)
    (h3 : (cellDir it ir).2.2 = (cellDir it' ir').2.2) : it = it' ∧ ir = ir' := by
  obtain ⟨-, hz, hx, hy⟩ := direction_unit ((rParam it ir : ℝ) * tParam it) (tParam it)
  obtain ⟨-, hz', hx', hy'⟩ := direction_unit ((rParam it' ir' : ℝ) * tParam it') (tParam it')
  unfold cellDir at h1 h2 h3
  rw [hx, hx', ← h3] at h1
  rw [hy, hy', ← h3] at h2
  have ht : (tParam it : ℝ) = tParam it' := mul_right_cancel₀ hz.ne' h2
  have hrt := mul_right_cancel₀ hz.ne' h1
  have e : it = it' := tParam_inj hit hit' ht
  subst e
  refine ⟨rfl, ?_⟩
  have hr := mul_right_cancel₀ (tParam_range it hit).1.ne' hrt
  exact rParam_inj it hr

/-- two positive multiples of unit vectors of the plane coincide only if the unit vectors do -/
theorem unit2_of_scaled {c s c' s' k k' : ℝ} (hk : 0 < k) (hk' : 0 < k')
    (hcs : c * c + s * s = 1) (hcs' : c' * c' + s' * s' = 1)
    (h1 : c * k = c' * k') (h2 : s * k = s' * k') : c = c' := by
  have e : k ^ 2 = k' ^ 2 := by
    have a1 : k ^ 2 = (c * k) ^ 2 + (s * k) ^ 2 := by nlinarith
    have a2 : k' ^ 2 = (c' * k') ^ 2 + (s' * k') ^ 2 := by nlinarith
    rw [a1, a2, h1, h2]
  have : k = k' := by
    have := (sq_eq_sq₀ hk.le hk'.le).1 e
    exact this
  subst this
  exact mul_right_cancel₀ hk.ne' h1

/-- the normalised minor axis determines `cos az` (given the cap group, i.e. which components carry
`cos az`, `sin az`) -/
theorem minor_cos_inj (cap cap' : Nat) (hcap : cap < 12) (hcap' : cap' < 12) (hg : cap / 4 = cap' / 4)
    (M M' : V3 ℝ) {c s c' s' : ℝ} (hcs : c * c + s * s = 1) (hcs' : c' * c' + s' * s' = 1)
    (h : scale3 (minorRaw cap M c s) ((1 : ℝ) / norm3 (minorRaw cap M c s)) =
      scale3 (minorRaw cap' M' c' s') ((1 : ℝ) / norm3 (minorRaw cap' M' c' s'))) : c = c' := by
  have hk : 0 < (1 : ℝ) / norm3 (minorRaw cap M c s) := by
    rw [norm3_eq]; exact one_div_pos.2 (Real.sqrt_pos.2 (minorRaw_pos cap M c s hcap hcs))
  have hk' : 0 < (1 : ℝ) / norm3 (minorRaw cap' M' c' s') := by
    rw [norm3_eq]; exact one_div_pos.2 (Real.sqrt_pos.2 (minorRaw_pos cap' M' c' s' hcap' hcs'))
  generalize (1 : ℝ) / norm3 (minorRaw cap M c s) = k at h hk
  generalize (1 : ℝ) / norm3 (minorRaw cap' M' c' s') = k' at h hk'
  interval_cases cap <;> interval_cases cap' <;> simp only [Nat.reduceDiv] at hg <;>
    first
    | (exfalso; omega)
    | (simp only [minorRaw, scale3, V3.mk.injEq, Nat.reduceDiv] at h
       obtain ⟨e1, e2, e3⟩ := h
       first
       | exact unit2_of_scaled hk hk' hcs hcs' e2 e3
       | exact unit2_of_scaled hk hk' hcs hcs' e3 e1
       | exact unit2_of_scaled hk hk' hcs hcs' e1 e2)

/-! ### coverage: the cap regions tile the directions up to sign; cap edge -/

theorem cover_pq (p q z : ℝ) (hp : |p| ≤ z) (hq : |q| ≤ z) :
    (∃ x y : ℝ, |x| ≤ y ∧ y ≤ z ∧ p = y ∧ q = x) ∨ (∃ x y : ℝ, |x| ≤ y ∧ y ≤ z ∧ p = -y ∧ q = x) ∨
      (∃ x y : ℝ, |x| ≤ y ∧ y ≤ z ∧ q = y ∧ p = x) ∨ (∃ x y : ℝ, |x| ≤ y ∧ y ≤ z ∧ q = -y ∧ p = x) := by
  rcases le_total |q| |p| with h | h
  · rcases le_total 0 p with s | s
    · left
      exact ⟨q, p, by rwa [abs_of_nonneg s] at h, le_trans (le_abs_self p) hp, rfl, rfl⟩
    · right; left
      refine ⟨q, -p, by rwa [abs_of_nonpos s] at h, ?_, by ring, rfl⟩
      rw [← abs_of_nonpos s]; exact hp
  · rcases le_total 0 q with s | s
    · right; right; left
      exact ⟨p, q, by rwa [abs_of_nonneg s] at h, le_trans (le_abs_self q) hq, rfl, rfl⟩
    · right; right; right
      refine ⟨p, -q, by rwa [abs_of_nonpos s] at h, ?_, by ring, rfl⟩
      rw [← abs_of_nonpos s]; exact hq

theorem cover_group0 (a b c : ℝ) (hb : |b| ≤ a) (hc : |c| ≤ a) :
    ∃ cap, cap < 12 ∧ ∃ x y z : ℝ, |x| ≤ y ∧ y ≤ z ∧ (⟨a, b, c⟩ : V3 ℝ) = majorOf cap x y z := by
  rcases cover_pq b c a hb hc with ⟨x, y, h1, h2, rfl, rfl⟩ | ⟨x, y, h1, h2, rfl, rfl⟩ |
      ⟨x, y, h1, h2, rfl, rfl⟩ | ⟨x, y, h1, h2, rfl, rfl⟩
  · exact ⟨0, by norm_num, _, _, _, h1, h2, rfl⟩
  · exact ⟨1, by norm_num, _, _, _, h1, h2, rfl⟩
  · exact ⟨2, by norm_num, _, _, _, h1, h2, rfl⟩
  · exact ⟨3, by norm_num, _, _, _, h1, h2, rfl⟩

theorem cover_group1 (a b c : ℝ) (hc : |c| ≤ b) (ha : |a| ≤ b) :
    ∃ cap, cap < 12 ∧ ∃ x y z : ℝ, |x| ≤ y ∧ y ≤ z ∧ (⟨a, b, c⟩ : V3 ℝ) = majorOf cap x y z := by
  rcases cover_pq c a b hc ha with ⟨x, y, h1, h2, rfl, rfl⟩ | ⟨x, y, h1, h2, rfl, rfl⟩ |
      ⟨x, y, h1, h2, rfl, rfl⟩ | ⟨x, y, h1, h2, rfl, rfl⟩
  · exact ⟨4, by norm_num, _, _, _, h1, h2, rfl⟩
  · exact ⟨5, by norm_num, _, _, _, h1, h2, rfl⟩
  · exact ⟨6, by norm_num, _, _, _, h1, h2, rfl⟩
  · exact ⟨7, by norm_num, _, _, _, h1, h2, rfl⟩

theorem cover_group2 (a b c : ℝ) (ha : |a| ≤ c) (hb : |b| ≤ c) :
    ∃ cap, cap < 12 ∧ ∃ x y z : ℝ, |x| ≤ y ∧ y ≤ z ∧ (⟨a, b, c⟩ : V3 ℝ) = majorOf cap x y z := by
  rcases cover_pq a b c ha hb with ⟨x, y, h1, h2, rfl, rfl⟩ | ⟨x, y, h1, h2, rfl, rfl⟩ |
      ⟨x, y, h1, h2, rfl, rfl⟩ | ⟨x, y, h1, h2, rfl, rfl⟩
  · exact ⟨8, by norm_num, _, _, _, h1, h2, rfl⟩
  · exact ⟨9, by norm_num, _, _, _, h1, h2, rfl⟩
  · exact ⟨10, by norm_num, _, _, _, h1, h2, rfl⟩
  · exact ⟨11, by norm_num, _, _, _, h1, h2, rfl⟩

/-- a vector whose largest component (in absolute value) is non-negative lies in a cap region -/
theorem cover_pos (a b c : ℝ)
    (h : (|b| ≤ a ∧ |c| ≤ a) ∨ (|c| ≤ b ∧ |a| ≤ b) ∨ (|a| ≤ c ∧ |b| ≤ c)) :
    ∃ cap, cap < 12 ∧ ∃ x y z : ℝ, |x| ≤ y ∧ y ≤ z ∧ (⟨a, b, c⟩ : V3 ℝ) = majorOf cap x y z := by
  rcases h with ⟨h1, h2⟩ | ⟨h1, h2⟩ | ⟨h1, h2⟩
  · exact cover_group0 a b c h1 h2
  · exact cover_group1 a b c h1 h2
  · exact cover_group2 a b c h1 h2

theorem caps_cover_aux (a b c : ℝ) :
    ∃ cap, cap < 12 ∧ ∃ σ : ℝ, (σ = 1 ∨ σ = -1) ∧ ∃ x y z : ℝ,
      |x| ≤ y ∧ y ≤ z ∧ scale3 (⟨a, b, c⟩ : V3 ℝ) σ = majorOf cap x y z := by
  -- which component is largest in absolute value, and its sign
  have key : ((|b| ≤ a ∧ |c| ≤ a) ∨ (|c| ≤ b ∧ |a| ≤ b) ∨ (|a| ≤ c ∧ |b| ≤ c)) ∨
      ((|-b| ≤ -a ∧ |-c| ≤ -a) ∨ (|-c| ≤ -b ∧ |-a| ≤ -b) ∨ (|-a| ≤ -c ∧ |-b| ≤ -c)) := by
    simp only [abs_neg]
    rcases le_total |a| |b| with h1 | h1 <;> rcases le_total |b| |c| with h2 | h2 <;>
      rcases le_total |a| |c| with h3 | h3 <;>
      rcases le_total 0 a with sa | sa <;> rcases le_total 0 b with sb | sb <;>
      rcases le_total 0 c with sc | sc <;>
      simp only [abs_of_nonneg, abs_of_nonpos, sa, sb, sc] at h1 h2 h3 ⊢ <;>
      first
      | (left; left; constructor <;> linarith)
      | (left; right; left; constructor <;> linarith)
      | (left; right; right; constructor <;> linarith)
      | (right; left; constructor <;> linarith)
      | (right; right; left; constructor <;> linarith)
      | (right; right; right; constructor <;> linarith)
  rcases key with h | h
  · obtain ⟨cap, hcap, x, y, z, h1, h2, h3⟩ := cover_pos a b c h
    exact ⟨cap, hcap, 1, Or.inl rfl, x, y, z, h1, h2, by simpa [scale3] using h3⟩
  · obtain ⟨cap, hcap, x, y, z, h1, h2, h3⟩ := cover_pos (-a) (-b) (-c) h
    exact ⟨cap, hcap, -1, Or.inr rfl, x, y, z, h1, h2, by simpa [scale3] using h3⟩

/-- for `0 < u < 1`: `u·√(2−u²)/(1−u²) = 1` exactly when `2u⁴ − 4u² + 1 = 0` -/
theorem gfun_eq_one_iff {u : ℝ} (hu : 0 < u) (hu1 : u < 1) :
    gfun u = 1 ↔ 2 * u ^ 4 - 4 * u ^ 2 + 1 = 0 := by
  have hau : 0 < 2 - u * u := by nlinarith
  have hdu : 0 < 1 - u * u := by nlinarith
  have ha : 0 < Real.sqrt (2 - u * u) := Real.sqrt_pos.2 hau
  have ha2 : Real.sqrt (2 - u * u) ^ 2 = 2 - u * u := Real.sq_sqrt hau.le
  unfold gfun
  generalize Real.sqrt (2 - u * u) = a at ha ha2
  rw [div_eq_one_iff_eq hdu.ne']
  have hpos : 0 ≤ u * a := (mul_pos hu ha).le
  constructor
  · intro h
    have : (u * a) ^ 2 = (1 - u * u) ^ 2 := by rw [h]
    rw [mul_pow, ha2] at this
    nlinarith
  · intro h
    apply (sq_eq_sq₀ hpos hdu.le).1
    rw [mul_pow, ha2]
    nlinarith

/-! ### the cell centres are a net of the parameter square -/

theorem tnet (t : ℝ) (h0 : 0 ≤ t) (h1 : t ≤ 1) : ∃ it, it < EULER_TBIN ∧
    |t - ((it : ℝ) + 1 / 2) / (EULER_TBIN : ℝ)| ≤ 1 / (2 * (EULER_TBIN : ℝ)) := by
  unfold EULER_TBIN
  push_cast
  rcases lt_or_eq_of_le h1 with h | h
  · have hs : 0 ≤ t * 11 := by positivity
    refine ⟨⌊t * 11⌋₊, (Nat.floor_lt hs).2 (by push_cast; linarith), ?_⟩
    have a1 := Nat.floor_le hs
    have a2 := Nat.lt_floor_add_one (t * 11)
    rw [abs_le]
    constructor <;> linarith
  · refine ⟨10, by norm_num, ?_⟩
    rw [h]; norm_num [abs_le]

theorem rnet (it : Nat) (r : ℝ) (h0 : -1 ≤ r) (h1 : r ≤ 1) : ∃ ir, ir ≤ 2 * it ∧
    |r - (rParam it ir : ℝ)| ≤ 1 / (2 * (it : ℝ) + 1) := by
  have hit : (0 : ℝ) ≤ (it : ℝ) := Nat.cast_nonneg it
  have hD : (0 : ℝ) < (it : ℝ) + 1 / 2 := by linarith
  have key : ∀ ir : Nat, |(r + 1) * ((it : ℝ) + 1 / 2) - ((ir : ℝ) + 1 / 2)| ≤ 1 / 2 →
      |r - (rParam it ir : ℝ)| ≤ 1 / (2 * (it : ℝ) + 1) := by
    intro ir h
    rw [rParam_eq]
    have e1 : r - (((ir : ℝ) + 1 / 2) / ((it : ℝ) + 1 / 2) - 1) =
        ((r + 1) * ((it : ℝ) + 1 / 2) - ((ir : ℝ) + 1 / 2)) / ((it : ℝ) + 1 / 2) := by
      field_simp; ring
    have e2 : 1 / (2 * (it : ℝ) + 1) = (1 / 2) / ((it : ℝ) + 1 / 2) := by
      field_simp
    rw [e1, e2, abs_div, abs_of_pos hD]
    gcongr
  rcases lt_or_eq_of_le h1 with h | h
  · have hs : 0 ≤ (r + 1) * ((it : ℝ) + 1 / 2) := mul_nonneg (by linarith) hD.le
    have hlt : (r + 1) * ((it : ℝ) + 1 / 2) < ((2 * it + 1 : Nat) : ℝ) := by
      push_cast
      nlinarith
    have hfl : ⌊(r + 1) * ((it : ℝ) + 1 / 2)⌋₊ < 2 * it + 1 := (Nat.floor_lt hs).2 hlt
    refine ⟨⌊(r + 1) * ((it : ℝ) + 1 / 2)⌋₊, by omega, key _ ?_⟩
    have a1 := Nat.floor_le hs
    have a2 := Nat.lt_floor_add_one ((r + 1) * ((it : ℝ) + 1 / 2))
    rw [abs_le]
    constructor <;> linarith
  · refine ⟨2 * it, le_refl _, key _ ?_⟩
    rw [h]
    push_cast
    rw [abs_le]
    constructor <;> nlinarith

end AbacusVerif.Euler16
