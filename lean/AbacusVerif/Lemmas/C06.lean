/-
  Helper lemmas for C06 (mass assignment): the wrap loop, the list-backed grid, the 9/27 accumulations.
-/
import AbacusVerif.Model.C06
import AbacusVerif.Lemmas.Num
import Mathlib.Tactic.Ring
import Mathlib.Tactic.Linarith
import Mathlib.Tactic.Positivity
import Mathlib.Data.Rat.Floor
import Mathlib.Algebra.BigOperators.Group.Finset.Basic
import Mathlib.Algebra.BigOperators.Group.List.Basic
import Mathlib.Algebra.Order.BigOperators.Group.List

namespace AbacusVerif.Mass
open AbacusVerif

/-! ### `while x >= L: x -= L` -/

theorem rightwrapLoop_eq {L : ℤ} (hL : 0 < L) :
    ∀ (n : ℕ) (x : ℤ), x.toNat ≤ n → rightwrapLoop n x L = if x ≥ L then x % L else x := by
  intro n
  induction n with
  | zero =>
    intro x hx
    have : x ≤ 0 := by omega
    have h : ¬ x ≥ L := by omega
    simp [rightwrapLoop, h]
  | succ n ih =>
    intro x hx
    unfold rightwrapLoop
    by_cases h : x ≥ L
    · simp only [h, if_true]
      rw [ih (x - L) (by omega)]
      have hmod : (x - L) % L = x % L := by simp
      by_cases h2 : x - L ≥ L
      · simp [h2]
      · simp only [h2, if_false]
        have : (x - L) % L = x - L := Int.emod_eq_of_lt (by omega) (by omega)
        rw [← hmod, this]
    · simp [h]

/-- the wrap loop never runs out of its iteration budget: closed form of `_rightwrap` for `L ≥ 1` -/
theorem rightwrap_eq {L : ℤ} (hL : 0 < L) (x : ℤ) :
    rightwrap x L = if x ≥ L then x % L else x :=
  rightwrapLoop_eq hL _ x (le_refl _)

/-- any subscript `i ≥ -g` resolves, to `i mod g` -/
theorem cellOf_eq {g : ℕ} (hg : 1 ≤ g) {i : ℤ} (hi : -(g : ℤ) ≤ i) :
    cellOf g i = .ok (i % (g : ℤ)).toNat := by
  have hg' : (0 : ℤ) < (g : ℤ) := by exact_mod_cast hg
  unfold cellOf idx
  rw [rightwrap_eq hg']
  have hm0 := Int.emod_nonneg i (ne_of_gt hg')
  have hm1 := Int.emod_lt_of_pos i hg'
  by_cases h : i ≥ (g : ℤ)
  · simp only [h, if_true]
    unfold pyIndex
    simp only [hm0, if_true]
    have : (i % (g : ℤ)).toNat < g := by omega
    simp [this]
  · simp only [h, if_false]
    unfold pyIndex
    by_cases h0 : 0 ≤ i
    · have : i % (g : ℤ) = i := Int.emod_eq_of_lt h0 (by omega)
      simp only [h0, if_true]
      have h2 : i.toNat < g := by omega
      simp [h2, this]
    · simp only [h0, if_false]
      have h1 : 0 ≤ i + (g : ℤ) := by omega
      simp only [h1, if_true]
      have : i % (g : ℤ) = i + g := by
        rw [← Int.add_emod_right i g]
        exact Int.emod_eq_of_lt h1 (by omega)
      rw [this]

theorem cellOf_lt {g : ℕ} {i : ℤ} {k : ℕ} (h : cellOf g i = .ok k) : k < g := by
  unfold cellOf idx at h
  split at h
  · next k' hk => cases h; exact pyIndex_lt hk
  · cases h

theorem cellOf_error {g : ℕ} {i : ℤ} {e : Fault} (h : cellOf g i = .error e) : e = .oob := by
  unfold cellOf idx at h
  split at h
  · cases h
  · cases h; rfl

/-! ### the list-backed grid -/

theorem addAt_length (l : List ℚ) (i : ℕ) (v : ℚ) : (addAt l i v).length = l.length := by
  induction l generalizing i with
  | nil => simp [addAt]
  | cons x xs ih => cases i <;> simp [addAt, ih]

theorem addAt_getElem? (l : List ℚ) (i j : ℕ) (v : ℚ) :
    (addAt l i v)[j]? = if i = j then l[j]?.map (· + v) else l[j]? := by
  induction l generalizing i j with
  | nil => simp [addAt]
  | cons x xs ih =>
    cases i with
    | zero => cases j <;> simp [addAt]
    | succ i =>
      cases j with
      | zero => simp [addAt]
      | succ j => simp [addAt, ih]

theorem sum_addAt (l : List ℚ) (i : ℕ) (v : ℚ) (h : i < l.length) : (addAt l i v).sum = l.sum + v := by
  induction l generalizing i with
  | nil => simp at h
  | cons x xs ih =>
    cases i with
    | zero => simp [addAt]; ring
    | succ i =>
      simp only [addAt, List.sum_cons]
      rw [ih i (by simpa using h)]
      ring

/-- total amount a write list sends to cell `c` -/
def contrib (ws : List (ℕ × ℚ)) (c : ℕ) : ℚ := (ws.map (fun w => if w.1 = c then w.2 else 0)).sum

theorem contrib_nil (c : ℕ) : contrib [] c = 0 := rfl

theorem contrib_cons (w : ℕ × ℚ) (ws : List (ℕ × ℚ)) (c : ℕ) :
    contrib (w :: ws) c = (if w.1 = c then w.2 else 0) + contrib ws c := by
  simp [contrib]

theorem contrib_append (a b : List (ℕ × ℚ)) (c : ℕ) : contrib (a ++ b) c = contrib a c + contrib b c := by
  simp [contrib]

theorem contrib_perm {a b : List (ℕ × ℚ)} (h : a.Perm b) (c : ℕ) : contrib a c = contrib b c :=
  (h.map _).sum_eq

theorem accumulate_length (g : List ℚ) (ws : List (ℕ × ℚ)) : (accumulate g ws).length = g.length := by
  induction ws generalizing g with
  | nil => rfl
  | cons w ws ih => simp only [accumulate, List.foldl_cons] at ih ⊢; rw [ih]; exact addAt_length _ _ _

theorem accumulate_append (g : List ℚ) (a b : List (ℕ × ℚ)) :
    accumulate g (a ++ b) = accumulate (accumulate g a) b := by
  simp [accumulate, List.foldl_append]

theorem accumulate_getElem? (g : List ℚ) (ws : List (ℕ × ℚ)) (c : ℕ) :
    (accumulate g ws)[c]? = g[c]?.map (· + contrib ws c) := by
  induction ws generalizing g with
  | nil => simp [accumulate, contrib]
  | cons w ws ih =>
    have : accumulate g (w :: ws) = accumulate (addAt g w.1 w.2) ws := by simp [accumulate]
    rw [this, ih, addAt_getElem?, contrib_cons]
    by_cases h : w.1 = c
    · simp only [h, if_true, Option.map_map]
      congr 1
      funext x
      simp only [Function.comp]
      ring
    · simp [h]

theorem sum_accumulate (g : List ℚ) (ws : List (ℕ × ℚ)) (h : ∀ w ∈ ws, w.1 < g.length) :
    (accumulate g ws).sum = g.sum + (ws.map (·.2)).sum := by
  induction ws generalizing g with
  | nil => simp [accumulate]
  | cons w ws ih =>
    have e : accumulate g (w :: ws) = accumulate (addAt g w.1 w.2) ws := by simp [accumulate]
    rw [e, ih, sum_addAt g w.1 w.2 (h w (by simp))]
    · simp; ring
    · intro w' hw'
      rw [addAt_length]
      exact h w' (by simp [hw'])

/-- writes that send the same total to every cell produce the same grid -/
theorem accumulate_congr (g : List ℚ) {a b : List (ℕ × ℚ)} (h : ∀ c, contrib a c = contrib b c) :
    accumulate g a = accumulate g b := by
  apply List.ext_getElem?
  intro c
  rw [accumulate_getElem?, accumulate_getElem?, h]

/-! ### per-axis weights -/

theorem rabs_eq_abs (x : ℚ) : rabs x = |x| := by
  unfold rabs
  split_ifs with h
  · rw [abs_of_neg h]
  · rw [abs_of_nonneg (not_lt.mp h)]

theorem tscAxis_ix (p : ℚ) : (tscAxis p).ix = rhe p := rfl
theorem cicAxis_ix (p : ℚ) : (cicAxis p).ix = rhe p := by
  unfold cicAxis; dsimp only; split_ifs <;> rfl

theorem tsc_sum (p : ℚ) : (tscAxis p).wm + (tscAxis p).w0 + (tscAxis p).wp = 1 := by
  simp only [tscAxis]; ring

theorem tsc_nonneg (p : ℚ) : 0 ≤ (tscAxis p).wm ∧ 0 ≤ (tscAxis p).w0 ∧ 0 ≤ (tscAxis p).wp := by
  have h := abs_le.mp (rhe_close p)
  simp only [tscAxis]
  refine ⟨by positivity, by nlinarith [h.1, h.2], by positivity⟩

theorem cic_sum (p : ℚ) : (cicAxis p).wm + (cicAxis p).w0 + (cicAxis p).wp = 1 := by
  unfold cicAxis
  simp only [rabs]
  split_ifs with h1 h2 <;> simp only <;> first | ring1 | linarith

theorem cic_nonneg (p : ℚ) : 0 ≤ (cicAxis p).wm ∧ 0 ≤ (cicAxis p).w0 ∧ 0 ≤ (cicAxis p).wp := by
  have h := abs_le.mp (rhe_close p)
  unfold cicAxis
  simp only [rabs]
  split_ifs with h1 h2 <;> simp only <;> refine ⟨?_, ?_, ?_⟩ <;> linarith

theorem axisOf_ix (k : Kind) (p : ℚ) : (axisOf k p).ix = rhe p := by
  cases k
  · exact tscAxis_ix p
  · exact cicAxis_ix p

theorem axisOf_sum (k : Kind) (p : ℚ) : (axisOf k p).wm + (axisOf k p).w0 + (axisOf k p).wp = 1 := by
  cases k
  · exact tsc_sum p
  · exact cic_sum p

theorem axisOf_nonneg (k : Kind) (p : ℚ) :
    0 ≤ (axisOf k p).wm ∧ 0 ≤ (axisOf k p).w0 ∧ 0 ≤ (axisOf k p).wp := by
  cases k
  · exact tsc_nonneg p
  · exact cic_nonneg p

/-! ### resolving the three subscripts of an axis -/

theorem resolve_eq (g : ℕ) (a : Axis) : resolve g a =
    match cellOf g (a.ix - 1), cellOf g a.ix, cellOf g (a.ix + 1) with
    | .ok cm, .ok c0, .ok cp => .ok { cm := cm, c0 := c0, cp := cp, wm := a.wm, w0 := a.w0, wp := a.wp }
    | .error e, _, _ => .error e
    | .ok _, .error e, _ => .error e
    | .ok _, .ok _, .error e => .error e := by
  unfold resolve
  cases cellOf g (a.ix - 1) <;> cases cellOf g a.ix <;> cases cellOf g (a.ix + 1) <;> rfl

theorem resolve_ok {g : ℕ} {a : Axis} {R : RAxis} (h : resolve g a = .ok R) :
    cellOf g (a.ix - 1) = .ok R.cm ∧ cellOf g a.ix = .ok R.c0 ∧ cellOf g (a.ix + 1) = .ok R.cp ∧
      R.wm = a.wm ∧ R.w0 = a.w0 ∧ R.wp = a.wp := by
  rw [resolve_eq] at h
  split at h
  · next cm c0 cp h1 h2 h3 => cases h; exact ⟨h1, h2, h3, rfl, rfl, rfl⟩
  all_goals cases h

theorem resolve_error {g : ℕ} {a : Axis} {e : Fault} (h : resolve g a = .error e) : e = .oob := by
  rw [resolve_eq] at h
  split at h
  · cases h
  · next h1 => cases h; exact cellOf_error h1
  · next h1 => cases h; exact cellOf_error h1
  · next h1 => cases h; exact cellOf_error h1

theorem resolve_cell_lt {g : ℕ} {a : Axis} {R : RAxis} (h : resolve g a = .ok R) (s : Slot) : R.cell s < g := by
  obtain ⟨h1, h2, h3, _⟩ := resolve_ok h
  cases s
  · exact cellOf_lt h1
  · exact cellOf_lt h2
  · exact cellOf_lt h3

theorem resolve_sum {g : ℕ} {a : Axis} {R : RAxis} (h : resolve g a = .ok R) :
    R.wm + R.w0 + R.wp = a.wm + a.w0 + a.wp := by
  obtain ⟨_, _, _, h4, h5, h6⟩ := resolve_ok h
  rw [h4, h5, h6]

/-- an axis resolves as soon as its nearest cell is not more than `g - 1` cells to the left of the grid -/
theorem resolve_of_ge {g : ℕ} (hg : 1 ≤ g) (a : Axis) (h : -(g : ℤ) + 1 ≤ a.ix) :
    resolve g a = .ok { cm := ((a.ix - 1) % (g : ℤ)).toNat, c0 := (a.ix % (g : ℤ)).toNat,
                        cp := ((a.ix + 1) % (g : ℤ)).toNat, wm := a.wm, w0 := a.w0, wp := a.wp } := by
  rw [resolve_eq, cellOf_eq hg (by omega), cellOf_eq hg (by omega), cellOf_eq hg (by omega)]

/-! ### the 9 / 27 accumulations -/

theorem flat_lt {gx gy gz i j k : ℕ} (hi : i < gx) (hj : j < gy) (hk : k < gz) :
    flat gy gz i j k < gx * gy * gz := by
  unfold flat
  have h1 : i * gy + j + 1 ≤ gx * gy := by
    calc i * gy + j + 1 ≤ i * gy + gy := by omega
      _ = (i + 1) * gy := by ring
      _ ≤ gx * gy := Nat.mul_le_mul_right _ hi
  calc (i * gy + j) * gz + k < (i * gy + j) * gz + gz := by omega
    _ = (i * gy + j + 1) * gz := by ring
    _ ≤ gx * gy * gz := Nat.mul_le_mul_right _ h1

theorem flat_eq_iff {gy gz a b c i j k : ℕ} (hb : b < gy) (hj : j < gy) (hc : c < gz) (hk : k < gz) :
    flat gy gz a b c = flat gy gz i j k ↔ a = i ∧ b = j ∧ c = k := by
  constructor
  · intro h
    unfold flat at h
    have hgz : 0 < gz := by omega
    have hgy : 0 < gy := by omega
    have m1 : ((a * gy + b) * gz + c) % gz = c := by
      rw [Nat.add_comm, Nat.add_mul_mod_self_right]; exact Nat.mod_eq_of_lt hc
    have m2 : ((i * gy + j) * gz + k) % gz = k := by
      rw [Nat.add_comm, Nat.add_mul_mod_self_right]; exact Nat.mod_eq_of_lt hk
    have hck : c = k := by rw [← m1, ← m2, h]
    subst hck
    have h2 : a * gy + b = i * gy + j := by
      have := Nat.add_right_cancel h
      exact Nat.eq_of_mul_eq_mul_right hgz this
    have n1 : (a * gy + b) % gy = b := by
      rw [Nat.add_comm, Nat.add_mul_mod_self_right]; exact Nat.mod_eq_of_lt hb
    have n2 : (i * gy + j) % gy = j := by
      rw [Nat.add_comm, Nat.add_mul_mod_self_right]; exact Nat.mod_eq_of_lt hj
    have hbj : b = j := by rw [← n1, ← n2, h2]
    subst hbj
    have := Nat.add_right_cancel h2
    exact ⟨Nat.eq_of_mul_eq_mul_right hgy this, rfl, rfl⟩
  · rintro ⟨rfl, rfl, rfl⟩; rfl

/-- what slot `s` of an axis sends to cell `i` -/
def sel (X : RAxis) (s : Slot) (i : ℕ) : ℚ := if X.cell s = i then X.w s else 0

theorem weightAt_eq (X : RAxis) (i : ℕ) : X.weightAt i = sel X .m i + sel X .c i + sel X .p i := rfl

theorem term_eq {gy gz : ℕ} {X Y Z : RAxis} {i j k : ℕ} (W : ℚ)
    (hY : ∀ s, Y.cell s < gy) (hZ : ∀ s, Z.cell s < gz) (hj : j < gy) (hk : k < gz) (a b c' : Slot) :
    (if flat gy gz (X.cell a) (Y.cell b) (Z.cell c') = flat gy gz i j k then X.w a * Y.w b * Z.w c' * W else 0) =
      sel X a i * sel Y b j * sel Z c' k * W := by
  simp only [flat_eq_iff (hY b) hj (hZ c') hk, sel]
  by_cases h1 : X.cell a = i <;> by_cases h2 : Y.cell b = j <;> by_cases h3 : Z.cell c' = k <;> simp [h1, h2, h3]

/-- the 27 statements send to cell `(i, j, k)` the product of the per-axis totals -/
theorem contrib_writes27 {gy gz : ℕ} (X Y Z : RAxis) (W : ℚ) {i j k : ℕ}
    (hY : ∀ s, Y.cell s < gy) (hZ : ∀ s, Z.cell s < gz) (hj : j < gy) (hk : k < gz) :
    contrib (writes gy gz X Y Z W (order9 ++ order18)) (flat gy gz i j k) =
      X.weightAt i * Y.weightAt j * Z.weightAt k * W := by
  simp only [contrib, writes, order9, order18, pairs9, List.map_cons, List.map_nil, List.flatMap_cons,
    List.flatMap_nil, List.cons_append, List.nil_append, List.sum_cons, List.sum_nil,
    term_eq W hY hZ hj hk, weightAt_eq]
  ring

/-- the 9 statements of the 2-d mode (`izw = 0`, `wz = 1`) -/
theorem contrib_writes9 {gy : ℕ} (X Y : RAxis) (W : ℚ) {i j : ℕ}
    (hY : ∀ s, Y.cell s < gy) (hj : j < gy) :
    contrib (writes gy 1 X Y flatZ W order9) (flat gy 1 i j 0) = X.weightAt i * Y.weightAt j * W := by
  have hZ : ∀ s, flatZ.cell s < 1 := by intro s; cases s <;> simp [flatZ, RAxis.cell]
  simp only [contrib, writes, order9, pairs9, List.map_cons, List.map_nil, List.sum_cons, List.sum_nil,
    term_eq W hY hZ hj (Nat.lt_succ_self 0), weightAt_eq]
  have : sel flatZ .c 0 = 1 := by simp [sel, flatZ, RAxis.cell, RAxis.w]
  rw [this]
  ring

theorem writes_sum27 (gy gz : ℕ) (X Y Z : RAxis) (W : ℚ) :
    ((writes gy gz X Y Z W (order9 ++ order18)).map (·.2)).sum =
      (X.wm + X.w0 + X.wp) * (Y.wm + Y.w0 + Y.wp) * (Z.wm + Z.w0 + Z.wp) * W := by
  simp only [writes, order9, order18, pairs9, List.map_cons, List.map_nil, List.flatMap_cons,
    List.flatMap_nil, List.cons_append, List.nil_append, List.sum_cons, List.sum_nil,
    RAxis.w]
  ring

theorem writes_sum9 (gy gz : ℕ) (X Y : RAxis) (W : ℚ) :
    ((writes gy gz X Y flatZ W order9).map (·.2)).sum =
      (X.wm + X.w0 + X.wp) * (Y.wm + Y.w0 + Y.wp) * W := by
  simp only [writes, order9, pairs9, List.map_cons, List.map_nil, List.sum_cons, List.sum_nil,
    RAxis.w, flatZ]
  ring

theorem writes_index_lt {gx gy gz : ℕ} {X Y Z : RAxis} (W : ℚ) (slots : List (Slot × Slot × Slot))
    (hX : ∀ s, X.cell s < gx) (hY : ∀ s, Y.cell s < gy) (hZ : ∀ s, Z.cell s < gz) :
    ∀ w ∈ writes gy gz X Y Z W slots, w.1 < gx * gy * gz := by
  intro w hw
  simp only [writes, List.mem_map] at hw
  obtain ⟨s, _, rfl⟩ := hw
  exact flat_lt (hX _) (hY _) (hZ _)

theorem writes_nonneg {gy gz : ℕ} {X Y Z : RAxis} {W : ℚ} (slots : List (Slot × Slot × Slot))
    (hX : ∀ s, 0 ≤ X.w s) (hY : ∀ s, 0 ≤ Y.w s) (hZ : ∀ s, 0 ≤ Z.w s) (hW : 0 ≤ W) :
    ∀ w ∈ writes gy gz X Y Z W slots, 0 ≤ w.2 := by
  intro w hw
  simp only [writes, List.mem_map] at hw
  obtain ⟨s, _, rfl⟩ := hw
  exact mul_nonneg (mul_nonneg (mul_nonneg (hX _) (hY _)) (hZ _)) hW

/-! ### one particle -/

/-- the three axes of a particle as the code evaluates them -/
def axX (c : Cfg) (pt : Particle) : Axis := axisOf c.kind (gridCoord c pt.x c.gx)
def axY (c : Cfg) (pt : Particle) : Axis := axisOf c.kind (gridCoord c pt.y c.gy)
def axZ (c : Cfg) (pt : Particle) : Axis := axisOf c.kind (gridCoord c pt.z c.gz)

theorem particleWrites_3d {c : Cfg} {pt : Particle} {X Y Z : RAxis} (hb : c.box ≠ 0) (hz : c.gz ≠ 1)
    (hX : resolve c.gx (axX c pt) = .ok X) (hY : resolve c.gy (axY c pt) = .ok Y)
    (hZ : resolve c.gz (axZ c pt) = .ok Z) :
    particleWrites c pt = .ok (writes c.gy c.gz X Y Z pt.w (order9 ++ order18)) := by
  unfold axX at hX; unfold axY at hY; unfold axZ at hZ
  unfold particleWrites Cfg.threeD
  simp [hb, hz, hX, hY, hZ, bind, Except.bind, pure, Except.pure]

theorem particleWrites_2d {c : Cfg} {pt : Particle} {X Y : RAxis} (hb : c.box ≠ 0) (hz : c.gz = 1)
    (hX : resolve c.gx (axX c pt) = .ok X) (hY : resolve c.gy (axY c pt) = .ok Y) :
    particleWrites c pt = .ok (writes c.gy c.gz X Y flatZ pt.w order9) := by
  unfold axX at hX; unfold axY at hY
  unfold particleWrites Cfg.threeD
  simp [hb, hz, hX, hY, bind, Except.bind, pure, Except.pure]

theorem particleWrites_elim {c : Cfg} {pt : Particle} {ws : List (ℕ × ℚ)} (h : particleWrites c pt = .ok ws) :
    c.box ≠ 0 ∧ ∃ X Y, resolve c.gx (axX c pt) = .ok X ∧ resolve c.gy (axY c pt) = .ok Y ∧
      ((c.gz = 1 ∧ ws = writes c.gy c.gz X Y flatZ pt.w order9) ∨
       (c.gz ≠ 1 ∧ ∃ Z, resolve c.gz (axZ c pt) = .ok Z ∧
          ws = writes c.gy c.gz X Y Z pt.w (order9 ++ order18))) := by
  by_cases hb : c.box = 0
  · unfold particleWrites at h; simp [hb] at h
  refine ⟨hb, ?_⟩
  cases hX : resolve c.gx (axX c pt) with
  | error e =>
    unfold axX at hX; unfold particleWrites at h
    simp [hb, hX, bind, Except.bind] at h
  | ok X =>
    cases hY : resolve c.gy (axY c pt) with
    | error e =>
      unfold axX at hX; unfold axY at hY; unfold particleWrites at h
      simp [hb, hX, hY, bind, Except.bind] at h
    | ok Y =>
      refine ⟨X, Y, rfl, rfl, ?_⟩
      by_cases hz : c.gz = 1
      · left
        rw [particleWrites_2d hb hz hX hY] at h
        cases h; exact ⟨hz, rfl⟩
      · right
        cases hZ : resolve c.gz (axZ c pt) with
        | error e =>
          unfold axX at hX; unfold axY at hY; unfold axZ at hZ; unfold particleWrites Cfg.threeD at h
          simp [hb, hz, hX, hY, hZ, bind, Except.bind] at h
        | ok Z =>
          rw [particleWrites_3d hb hz hX hY hZ] at h
          cases h; exact ⟨hz, Z, rfl, rfl⟩

/-- the only faults of one loop iteration: `ZeroDivisionError` for a zero box, otherwise an index error -/
def cfgErr (c : Cfg) : Fault := if c.box = 0 then .rejected else .oob

theorem particleWrites_error {c : Cfg} {pt : Particle} {e : Fault} (h : particleWrites c pt = .error e) :
    e = cfgErr c := by
  unfold cfgErr
  by_cases hb : c.box = 0
  · unfold particleWrites at h; simp [hb] at h; simp [hb, h]
  simp only [hb, if_false]
  cases hX : resolve c.gx (axX c pt) with
  | error e' =>
    have := resolve_error hX
    unfold axX at hX; unfold particleWrites at h
    simp [hb, hX, bind, Except.bind] at h
    rw [← h, this]
  | ok X =>
    cases hY : resolve c.gy (axY c pt) with
    | error e' =>
      have := resolve_error hY
      unfold axX at hX; unfold axY at hY; unfold particleWrites at h
      simp [hb, hX, hY, bind, Except.bind] at h
      rw [← h, this]
    | ok Y =>
      by_cases hz : c.gz = 1
      · rw [particleWrites_2d hb hz hX hY] at h; cases h
      · cases hZ : resolve c.gz (axZ c pt) with
        | error e' =>
          have := resolve_error hZ
          unfold axX at hX; unfold axY at hY; unfold axZ at hZ; unfold particleWrites Cfg.threeD at h
          simp [hb, hz, hX, hY, hZ, bind, Except.bind] at h
          rw [← h, this]
        | ok Z => rw [particleWrites_3d hb hz hX hY hZ] at h; cases h

theorem flatZ_cell_lt (s : Slot) : flatZ.cell s < 1 := by cases s <;> simp [flatZ, RAxis.cell]

theorem RAxis.w_nonneg_of {a : Axis} {g : ℕ} {R : RAxis} (h : resolve g a = .ok R)
    (ha : 0 ≤ a.wm ∧ 0 ≤ a.w0 ∧ 0 ≤ a.wp) (s : Slot) : 0 ≤ R.w s := by
  obtain ⟨_, _, _, h4, h5, h6⟩ := resolve_ok h
  cases s <;> simp only [RAxis.w, h4, h5, h6] <;> tauto

/-- what one loop iteration does when it does not fault: every subscript inside the grid, the amounts add up
to the particle's weight, and they are non-negative for a non-negative weight -/
theorem particleWrites_props {c : Cfg} {pt : Particle} {ws : List (ℕ × ℚ)} (h : particleWrites c pt = .ok ws) :
    (∀ w ∈ ws, w.1 < c.gx * c.gy * c.gz) ∧ (ws.map (·.2)).sum = pt.w ∧
      (0 ≤ pt.w → ∀ w ∈ ws, 0 ≤ w.2) := by
  obtain ⟨hb, X, Y, hX, hY, h2 | h3⟩ := particleWrites_elim h
  · obtain ⟨hz, rfl⟩ := h2
    refine ⟨?_, ?_, ?_⟩
    · apply writes_index_lt _ _ (resolve_cell_lt hX) (resolve_cell_lt hY)
      rw [hz]; exact flatZ_cell_lt
    · rw [writes_sum9, resolve_sum hX, resolve_sum hY]
      unfold axX axY
      rw [axisOf_sum, axisOf_sum]; ring
    · intro hw
      apply writes_nonneg _ (RAxis.w_nonneg_of hX (axisOf_nonneg _ _)) (RAxis.w_nonneg_of hY (axisOf_nonneg _ _)) _ hw
      intro s; cases s <;> simp [flatZ, RAxis.w]
  · obtain ⟨hz, Z, hZ, rfl⟩ := h3
    refine ⟨?_, ?_, ?_⟩
    · exact writes_index_lt _ _ (resolve_cell_lt hX) (resolve_cell_lt hY) (resolve_cell_lt hZ)
    · rw [writes_sum27, resolve_sum hX, resolve_sum hY, resolve_sum hZ]
      unfold axX axY axZ
      rw [axisOf_sum, axisOf_sum, axisOf_sum]; ring
    · intro hw
      exact writes_nonneg _ (RAxis.w_nonneg_of hX (axisOf_nonneg _ _)) (RAxis.w_nonneg_of hY (axisOf_nonneg _ _))
        (RAxis.w_nonneg_of hZ (axisOf_nonneg _ _)) hw

/-! ### the loop over particles -/

/-- all `+=` of the loop, in order -/
def allWrites (c : Cfg) : List Particle → Except Fault (List (ℕ × ℚ))
  | [] => .ok []
  | pt :: ps =>
    match particleWrites c pt, allWrites c ps with
    | .ok ws, .ok r => .ok (ws ++ r)
    | .error e, _ => .error e
    | .ok _, .error e => .error e

theorem foldlM_step (c : Cfg) (grid : List ℚ) (parts : List Particle) :
    parts.foldlM (step c) grid = (allWrites c parts).map (accumulate grid) := by
  induction parts generalizing grid with
  | nil => rfl
  | cons pt ps ih =>
    rw [List.foldlM_cons]
    have hs : step c grid pt = (particleWrites c pt).map (accumulate grid) := rfl
    rw [hs]
    cases hp : particleWrites c pt with
    | error e => simp [allWrites, hp, Except.map, bind, Except.bind]
    | ok ws =>
      simp only [Except.map, bind, Except.bind]
      rw [ih]
      cases hr : allWrites c ps with
      | error e => simp [allWrites, hp, hr, Except.map]
      | ok r => simp [allWrites, hp, hr, Except.map, accumulate_append]

theorem scatter_eq (c : Cfg) (grid : List ℚ) (parts : List Particle) :
    scatter c grid parts =
      if c.kind = .tsc ∧ c.box = 0 then .error .rejected else (allWrites c parts).map (accumulate grid) := by
  unfold scatter
  rw [foldlM_step]

theorem allWrites_cons_ok {c : Cfg} {pt : Particle} {ps : List Particle} {W : List (ℕ × ℚ)}
    (h : allWrites c (pt :: ps) = .ok W) :
    ∃ ws r, particleWrites c pt = .ok ws ∧ allWrites c ps = .ok r ∧ W = ws ++ r := by
  unfold allWrites at h
  cases hp : particleWrites c pt with
  | error e => rw [hp] at h; cases h
  | ok ws =>
    cases hr : allWrites c ps with
    | error e => rw [hp, hr] at h; cases h
    | ok r => rw [hp, hr] at h; cases h; exact ⟨ws, r, rfl, rfl, rfl⟩

theorem allWrites_cons_of {c : Cfg} {pt : Particle} {ps : List Particle} {ws r : List (ℕ × ℚ)}
    (h1 : particleWrites c pt = .ok ws) (h2 : allWrites c ps = .ok r) :
    allWrites c (pt :: ps) = .ok (ws ++ r) := by
  rw [allWrites, h1, h2]

theorem allWrites_append {c : Cfg} {ps qs : List Particle} {wa wb : List (ℕ × ℚ)}
    (ha : allWrites c ps = .ok wa) (hb : allWrites c qs = .ok wb) :
    allWrites c (ps ++ qs) = .ok (wa ++ wb) := by
  induction ps generalizing wa with
  | nil => cases ha; simpa using hb
  | cons pt ps ih =>
    obtain ⟨ws, r, h1, h2, rfl⟩ := allWrites_cons_ok ha
    rw [List.cons_append, allWrites_cons_of h1 (ih h2), List.append_assoc]

theorem allWrites_error {c : Cfg} {ps : List Particle} {e : Fault} (h : allWrites c ps = .error e) :
    e = cfgErr c := by
  induction ps with
  | nil => cases h
  | cons pt ps ih =>
    unfold allWrites at h
    cases hp : particleWrites c pt with
    | error e' => rw [hp] at h; cases h; exact particleWrites_error hp
    | ok ws =>
      cases hr : allWrites c ps with
      | error e' => rw [hp, hr] at h; cases h; exact ih hr
      | ok r => rw [hp, hr] at h; cases h

theorem allWrites_props {c : Cfg} {ps : List Particle} {W : List (ℕ × ℚ)} (h : allWrites c ps = .ok W) :
    (∀ w ∈ W, w.1 < c.gx * c.gy * c.gz) ∧ (W.map (·.2)).sum = (ps.map (·.w)).sum ∧
      ((∀ pt ∈ ps, 0 ≤ pt.w) → ∀ w ∈ W, 0 ≤ w.2) := by
  induction ps generalizing W with
  | nil => cases h; simp
  | cons pt ps ih =>
    obtain ⟨ws, r, h1, h2, rfl⟩ := allWrites_cons_ok h
    obtain ⟨a1, a2, a3⟩ := particleWrites_props h1
    obtain ⟨b1, b2, b3⟩ := ih h2
    refine ⟨?_, ?_, ?_⟩
    · intro w hw
      rcases List.mem_append.mp hw with hw | hw
      · exact a1 w hw
      · exact b1 w hw
    · simp [a2, b2]
    · intro hpos w hw
      rcases List.mem_append.mp hw with hw | hw
      · exact a3 (hpos pt (by simp)) w hw
      · exact b3 (fun q hq => hpos q (by simp [hq])) w hw

theorem allWrites_perm {c : Cfg} {ps qs : List Particle} (h : ps.Perm qs) :
    ∀ {wa : List (ℕ × ℚ)}, allWrites c ps = .ok wa → ∃ wb, allWrites c qs = .ok wb ∧ wa.Perm wb := by
  induction h with
  | nil => intro wa ha; exact ⟨wa, ha, List.Perm.refl _⟩
  | cons pt _ ih =>
    intro wa ha
    obtain ⟨ws, r, h1, h2, rfl⟩ := allWrites_cons_ok ha
    obtain ⟨wb, hb, hp⟩ := ih h2
    exact ⟨ws ++ wb, allWrites_cons_of h1 hb, List.Perm.append_left _ hp⟩
  | swap p q l =>
    intro wa ha
    obtain ⟨w1, r1, h1, h2, rfl⟩ := allWrites_cons_ok ha
    obtain ⟨w2, r2, h3, h4, rfl⟩ := allWrites_cons_ok h2
    refine ⟨w2 ++ (w1 ++ r2), allWrites_cons_of h3 (allWrites_cons_of h1 h4), ?_⟩
    rw [← List.append_assoc, ← List.append_assoc]
    exact List.Perm.append_right _ List.perm_append_comm
  | trans _ _ ih1 ih2 =>
    intro wa ha
    obtain ⟨wb, hb, hp⟩ := ih1 ha
    obtain ⟨wc, hc, hq⟩ := ih2 hb
    exact ⟨wc, hc, hp.trans hq⟩

end AbacusVerif.Mass
