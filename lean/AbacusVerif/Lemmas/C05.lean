/-
  Helper lemmas for C05: the scale factor `sc box vel (a, b) = box^a * vel^b` and its algebra, the
  hypotheses on the primitive operations, and monomial normal forms used by `ratio_columns`.
-/
import AbacusVerif.Model.C05
import Mathlib.Tactic.Ring
import Mathlib.Tactic.Linarith
import Mathlib.Tactic.FieldSimp
import Mathlib.Algebra.Order.Field.Basic
import Mathlib.Algebra.Order.Field.Power

namespace AbacusVerif.Units
set_option linter.unusedSectionVars false

variable {α : Type} [Field α] [LinearOrder α] [IsStrictOrderedRing α]

/-- `BoxSize^a * VelZSpace_to_kms^b` -/
def sc (box vel : α) (d : Int × Int) : α := box ^ d.1 * vel ^ d.2

/-- what the theorems need of the primitive operations; satisfied by `Real.sqrt` and `(· ≠ 0)` -/
structure PrimOK (P : Prim α) : Prop where
  sqrt_scale : ∀ c x : α, 0 < c → P.sqrt (c * c * x) = c * P.sqrt x
  nz_scale : ∀ c x : α, 0 < c → P.nz (c * x) = P.nz x

theorem npow_eq (x : α) (n : Nat) : npow x n = x ^ n := by
  induction n with
  | zero => simp [npow]
  | succ n ih => simp [npow, ih, pow_succ]

section
variable {box vel : α} (hb : 0 < box) (hv : 0 < vel)
include hb hv

theorem sc_pos (d : Int × Int) : 0 < sc box vel d := by
  unfold sc
  exact mul_pos (zpow_pos hb _) (zpow_pos hv _)

theorem sc_zero : sc box vel (0, 0) = 1 := by simp [sc]

theorem sc_add (x y : Int × Int) : sc box vel (x.1 + y.1, x.2 + y.2) = sc box vel x * sc box vel y := by
  unfold sc
  simp only
  rw [zpow_add₀ (ne_of_gt hb), zpow_add₀ (ne_of_gt hv)]
  ring

theorem sc_sub (x y : Int × Int) : sc box vel (x.1 - y.1, x.2 - y.2) = sc box vel x / sc box vel y := by
  unfold sc
  simp only
  rw [zpow_sub₀ (ne_of_gt hb), zpow_sub₀ (ne_of_gt hv)]
  have h1 : box ^ y.1 ≠ 0 := ne_of_gt (zpow_pos hb _)
  have h2 : vel ^ y.2 ≠ 0 := ne_of_gt (zpow_pos hv _)
  field_simp

theorem sc_mul_nat (x : Int × Int) (n : Nat) : sc box vel (x.1 * n, x.2 * n) = sc box vel x ^ n := by
  unfold sc
  simp only
  rw [zpow_mul, zpow_mul, zpow_natCast, zpow_natCast, mul_pow]

theorem sc_half (x : Int × Int) (h1 : x.1 % 2 = 0) (h2 : x.2 % 2 = 0) :
    sc box vel x = sc box vel (x.1 / 2, x.2 / 2) * sc box vel (x.1 / 2, x.2 / 2) := by
  have e1 : x.1 = x.1 / 2 + x.1 / 2 := by omega
  have e2 : x.2 = x.2 / 2 + x.2 / 2 := by omega
  have := sc_add hb hv (x.1 / 2, x.2 / 2) (x.1 / 2, x.2 / 2)
  simp only at this
  rw [← this, ← e1, ← e2]

end


/-- **Soundness of the degree checker** (general form: the halo environment only has to scale on the
columns the expression reads). -/
theorem homog_sound_aux (P : Prim α) (hP : PrimOK P) (hd : String → Option (Int × Int))
    {box vel : α} (hb : 0 < box) (hv : 0 < vel) (r h1 hs : String → Nat → α) :
    ∀ (e : Expr),
      (∀ n ∈ haloRefs e, ∀ d', hd n = some d' → ∀ k, hs n k = sc box vel d' * h1 n k) →
      ∀ d, homog hd e = some d → ∀ k,
        eval P box vel r hs k e = sc box vel d * eval P 1 1 r h1 k e := by
  intro e
  induction e with
  | raw n =>
    intro _ d h k
    simp only [homog, Option.some.injEq] at h
    subst h
    simp [eval, sc_zero hb hv]
  | halo n =>
    intro hh d h k
    simp only [homog] at h
    simpa [eval] using hh n (by simp [haloRefs]) d h k
  | const a b =>
    intro _ d h k
    simp only [homog, Option.some.injEq] at h
    subst h
    simp [eval, sc_zero hb hv]
  | box =>
    intro _ d h k
    simp only [homog, Option.some.injEq] at h
    subst h
    simp [eval, sc]
  | vel =>
    intro _ d h k
    simp only [homog, Option.some.injEq] at h
    subst h
    simp [eval, sc]
  | add a b iha ihb =>
    intro hh d h k
    have hha := fun n hn => hh n (by simp [haloRefs]; exact Or.inl hn)
    have hhb := fun n hn => hh n (by simp [haloRefs]; exact Or.inr hn)
    cases ha : homog hd a with
    | none => simp [homog, ha] at h
    | some x =>
      cases hb' : homog hd b with
      | none => simp [homog, ha, hb'] at h
      | some y =>
        simp only [homog, ha, hb'] at h
        split at h
        · rename_i hxy
          simp only [Option.some.injEq] at h
          subst h; subst hxy
          simp only [eval, iha hha _ ha k, ihb hhb _ hb' k]
          ring
        · simp at h
  | sub a b iha ihb =>
    intro hh d h k
    have hha := fun n hn => hh n (by simp [haloRefs]; exact Or.inl hn)
    have hhb := fun n hn => hh n (by simp [haloRefs]; exact Or.inr hn)
    cases ha : homog hd a with
    | none => simp [homog, ha] at h
    | some x =>
      cases hb' : homog hd b with
      | none => simp [homog, ha, hb'] at h
      | some y =>
        simp only [homog, ha, hb'] at h
        split at h
        · rename_i hxy
          simp only [Option.some.injEq] at h
          subst h; subst hxy
          simp only [eval, iha hha _ ha k, ihb hhb _ hb' k]
          ring
        · simp at h
  | mul a b iha ihb =>
    intro hh d h k
    have hha := fun n hn => hh n (by simp [haloRefs]; exact Or.inl hn)
    have hhb := fun n hn => hh n (by simp [haloRefs]; exact Or.inr hn)
    cases ha : homog hd a with
    | none => simp [homog, ha] at h
    | some x =>
      cases hb' : homog hd b with
      | none => simp [homog, ha, hb'] at h
      | some y =>
        simp only [homog, ha, hb', Option.some.injEq] at h
        subst h
        simp only [eval, iha hha _ ha k, ihb hhb _ hb' k, sc_add hb hv]
        ring
  | div a b iha ihb =>
    intro hh d h k
    have hha := fun n hn => hh n (by simp [haloRefs]; exact Or.inl hn)
    have hhb := fun n hn => hh n (by simp [haloRefs]; exact Or.inr hn)
    cases ha : homog hd a with
    | none => simp [homog, ha] at h
    | some x =>
      cases hb' : homog hd b with
      | none => simp [homog, ha, hb'] at h
      | some y =>
        simp only [homog, ha, hb', Option.some.injEq] at h
        subst h
        simp only [eval, iha hha _ ha k, ihb hhb _ hb' k, sc_sub hb hv]
        have hy : sc box vel y ≠ 0 := ne_of_gt (sc_pos hb hv y)
        rw [mul_div_mul_comm]
  | pow a n iha =>
    intro hh d h k
    have hha := fun m hm => hh m (by simpa [haloRefs] using hm)
    cases ha : homog hd a with
    | none => simp [homog, ha] at h
    | some x =>
      simp only [homog, ha, Option.some.injEq] at h
      subst h
      simp only [eval, iha hha _ ha k, npow_eq, sc_mul_nat hb hv, mul_pow]
  | sqrt a iha =>
    intro hh d h k
    have hha := fun m hm => hh m (by simpa [haloRefs] using hm)
    cases ha : homog hd a with
    | none => simp [homog, ha] at h
    | some x =>
      simp only [homog, ha] at h
      split at h
      · rename_i hx
        simp only [Option.some.injEq] at h
        subst h
        simp only [eval, iha hha _ ha k]
        rw [sc_half hb hv x hx.1 hx.2]
        exact hP.sqrt_scale _ _ (sc_pos hb hv _)
      · simp at h
  | mod a b iha ihb =>
    intro hh d h k
    have hha := fun n hn => hh n (by simp [haloRefs]; exact Or.inl hn)
    have hhb := fun n hn => hh n (by simp [haloRefs]; exact Or.inr hn)
    cases ha : homog hd a with
    | none => simp [homog, ha] at h
    | some x =>
      cases hb' : homog hd b with
      | none => simp [homog, ha, hb'] at h
      | some y =>
        simp only [homog, ha, hb'] at h
        split at h
        · rename_i hxy
          simp only [Option.some.injEq] at h
          subst h
          obtain ⟨hx, hy⟩ := hxy
          subst hx; subst hy
          simp only [eval, iha hha _ ha k, ihb hhb _ hb' k, sc_zero hb hv, one_mul]
        · simp at h
  | wher c a b ihc iha ihb =>
    intro hh d h k
    have hhc := fun n hn => hh n (by simp [haloRefs]; exact Or.inl hn)
    have hha := fun n hn => hh n (by simp [haloRefs]; exact Or.inr (Or.inl hn))
    have hhb := fun n hn => hh n (by simp [haloRefs]; exact Or.inr (Or.inr hn))
    cases hc : homog hd c with
    | none => simp [homog, hc] at h
    | some z =>
      cases ha : homog hd a with
      | none => simp [homog, hc, ha] at h
      | some x =>
        cases hb' : homog hd b with
        | none => simp [homog, hc, ha, hb'] at h
        | some y =>
          simp only [homog, hc, ha, hb'] at h
          split at h
          · rename_i hxy
            simp only [Option.some.injEq] at h
            subst h; subst hxy
            simp only [eval, ihc hhc _ hc k, iha hha _ ha k, ihb hhb _ hb' k,
              hP.nz_scale _ _ (sc_pos hb hv z)]
            split <;> rfl
          · simp at h
  | anyrow w a iha =>
    intro hh d h k
    have hha := fun m hm => hh m (by simpa [haloRefs] using hm)
    cases ha : homog hd a with
    | none => simp [homog, ha] at h
    | some x =>
      simp only [homog, ha, Option.some.injEq] at h
      subst h
      have : ∀ j, P.nz (eval P box vel r hs j a) = P.nz (eval P 1 1 r h1 j a) := by
        intro j
        rw [iha hha _ ha j, hP.nz_scale _ _ (sc_pos hb hv x)]
      simp only [eval, this, sc_zero hb hv, one_mul]
  | euler w a iha =>
    intro hh d h k
    have hha := fun m hm => hh m (by simpa [haloRefs] using hm)
    cases ha : homog hd a with
    | none => simp [homog, ha] at h
    | some x =>
      simp only [homog, ha] at h
      split at h
      · rename_i hx
        simp only [Option.some.injEq] at h
        subst h; subst hx
        simp only [eval, iha hha _ ha k, sc_zero hb hv, one_mul]
      · simp at h

theorem lookup_some {tbl : List Loader} {n : String} {l : Loader} (h : lookup tbl n = some l) :
    l ∈ tbl ∧ l.name = n := by
  unfold lookup at h
  have h1 := List.mem_of_find?_eq_some h
  have h2 := List.find?_some h
  exact ⟨h1, by simpa using h2⟩

end AbacusVerif.Units
