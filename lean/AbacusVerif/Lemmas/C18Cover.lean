/-
  C18 coverage clause: helper lemmas (layers 1-3) for `coverage` in Props/C18.lean.
  Every direction of a cap region `|x| ≤ y ≤ z` is within `1 − (w·c)² ≤ 0.00665` (4.68 degrees) of the
  centre `c` of the cell whose `t`-bin and `r`-bin contain it.
-/
import AbacusVerif.Lemmas.C18
import Mathlib.Analysis.SpecialFunctions.Trigonometric.Inverse
import Mathlib.Analysis.SpecialFunctions.Trigonometric.Bounds
import Mathlib.Analysis.Real.Pi.Bounds
namespace AbacusVerif.Euler16
open AbacusVerif AbacusVerif.EulerConsts

/-! ### coverage, layer 1: algebra of the angle between a target and a cell centre -/

/-- `|A × B|²` for `A = (ρq, q, s)`, `B = (r·qc, qc, sc)` with `sc² + qc² = 1` -/
theorem cross_param (ρ q s r qc sc : ℝ) (hc : sc * sc + qc * qc = 1) :
    dot (cross ⟨ρ * q, q, s⟩ ⟨r * qc, qc, sc⟩) (cross ⟨ρ * q, q, s⟩ ⟨r * qc, qc, sc⟩) =
      (1 + r * r) * (q * sc - s * qc) ^ 2 + 2 * r * (q * sc - s * qc) * ((ρ - r) * q) * sc +
        ((ρ - r) * q) ^ 2 := by
  simp only [dot, cross]
  have : ((ρ - r) * q) ^ 2 = ((ρ - r) * q) ^ 2 * (sc * sc + qc * qc) := by rw [hc, mul_one]
  rw [this]; ring

theorem cross_bound {r σ e sc R σ₀ P : ℝ} (hσ : |σ| ≤ σ₀) (he : |e| ≤ P) (hr : |r| ≤ R)
    (hsc0 : 0 ≤ sc) (hsc1 : sc ≤ 1) :
    (1 + r * r) * σ ^ 2 + 2 * r * σ * e * sc + e ^ 2 ≤
      (1 + R * R) * σ₀ ^ 2 + 2 * R * σ₀ * P + P ^ 2 := by
  have hσ0 : 0 ≤ σ₀ := le_trans (abs_nonneg _) hσ
  have hP0 : 0 ≤ P := le_trans (abs_nonneg _) he
  have hR0 : 0 ≤ R := le_trans (abs_nonneg _) hr
  have h1 : σ ^ 2 ≤ σ₀ ^ 2 := by rw [← sq_abs σ]; exact pow_le_pow_left₀ (abs_nonneg _) hσ 2
  have h2 : e ^ 2 ≤ P ^ 2 := by rw [← sq_abs e]; exact pow_le_pow_left₀ (abs_nonneg _) he 2
  have h3 : r * r ≤ R * R := by
    have : r * r = |r| * |r| := (abs_mul_abs_self r).symm
    rw [this]; exact mul_le_mul hr hr (abs_nonneg _) hR0
  have h4 : r * σ * e * sc ≤ R * σ₀ * P := by
    calc r * σ * e * sc ≤ |r * σ * e * sc| := le_abs_self _
      _ = |r| * |σ| * |e| * |sc| := by rw [abs_mul, abs_mul, abs_mul]
      _ ≤ R * σ₀ * P * 1 := by
          have : |sc| ≤ 1 := by rw [abs_of_nonneg hsc0]; exact hsc1
          gcongr
      _ = R * σ₀ * P := mul_one _
  have h5 : (1 + r * r) * σ ^ 2 ≤ (1 + R * R) * σ₀ ^ 2 :=
    mul_le_mul (by linarith) h1 (sq_nonneg _) (by nlinarith)
  nlinarith

/-- `sin(φ − φc)` for the two polar angles, in terms of `u = √2·sin(φ/2)`:
`|q·sc − s·qc| ≤ 2·|u − uc| / ā` whenever `a, ac ≥ ā > 0` -/
theorem sigma_bound {u uc a ac abar : ℝ} (hu : 0 ≤ u) (huc : 0 < uc) (ha2 : a ^ 2 = 2 - u * u)
    (hac2 : ac ^ 2 = 2 - uc * uc) (hab : 0 < abar) (ha : abar ≤ a) (hac : abar ≤ ac) :
    |u * a * (1 - uc * uc) - (1 - u * u) * (uc * ac)| ≤ 2 * |u - uc| / abar := by
  have ha0 : 0 < a := lt_of_lt_of_le hab ha
  have hac0 : 0 < ac := lt_of_lt_of_le hab hac
  have e1 : u * a * (1 - uc * uc) - (1 - u * u) * (uc * ac) =
      (u * ac - uc * a) * ((a * ac + u * uc) / 2) := by
    have : 2 * (u * a * (1 - uc * uc) - (1 - u * u) * (uc * ac)) =
        u * a * ac ^ 2 + u * u * uc * ac - uc * a ^ 2 * ac - u * uc * uc * a := by
      rw [ha2, hac2]; ring
    linarith [this, (by ring : (u * ac - uc * a) * ((a * ac + u * uc) / 2) * 2 =
        u * a * ac ^ 2 + u * u * uc * ac - uc * a ^ 2 * ac - u * uc * uc * a)]
  have e2 : 0 ≤ (a * ac + u * uc) / 2 := by positivity
  have e3 : (a * ac + u * uc) / 2 ≤ 1 := by nlinarith [sq_nonneg (a - ac), sq_nonneg (u - uc)]
  have e4 : (u * ac - uc * a) * (u * ac + uc * a) = 2 * ((u - uc) * (u + uc)) := by
    have : (u * ac - uc * a) * (u * ac + uc * a) = u * u * ac ^ 2 - uc * uc * a ^ 2 := by ring
    rw [this, ha2, hac2]; ring
  have e5 : abar * (u + uc) ≤ u * ac + uc * a := by nlinarith
  have hsum : 0 < u + uc := by linarith
  have e6 : 0 < u * ac + uc * a := lt_of_lt_of_le (mul_pos hab hsum) e5
  have e7 : |u * ac - uc * a| * (u * ac + uc * a) = 2 * (|u - uc| * (u + uc)) := by
    have := congrArg abs e4
    rw [abs_mul, abs_of_pos e6, abs_mul, abs_mul, abs_of_pos hsum] at this
    simpa using this
  have e8 : |u * ac - uc * a| ≤ 2 * |u - uc| / abar := by
    rw [le_div_iff₀ hab]
    have h9 : |u * ac - uc * a| * (abar * (u + uc)) ≤ 2 * |u - uc| * (u + uc) := by
      calc |u * ac - uc * a| * (abar * (u + uc)) ≤ |u * ac - uc * a| * (u * ac + uc * a) :=
            mul_le_mul_of_nonneg_left e5 (abs_nonneg _)
        _ = 2 * |u - uc| * (u + uc) := by rw [e7]; ring
    have h10 : |u * ac - uc * a| * abar * (u + uc) ≤ 2 * |u - uc| * (u + uc) := by
      rw [mul_assoc]; exact h9
    exact le_of_mul_le_mul_right h10 hsum
  rw [e1, abs_mul, abs_of_nonneg e2]
  calc |u * ac - uc * a| * ((a * ac + u * uc) / 2) ≤ |u * ac - uc * a| * 1 :=
        mul_le_mul_of_nonneg_left e3 (abs_nonneg _)
    _ = |u * ac - uc * a| := mul_one _
    _ ≤ 2 * |u - uc| / abar := e8

/-! ### coverage, layer 2: bins of `u`, numeric row bounds -/

/-- `uOf it = (it + ½)·c` with `c = 1/(TBIN·EULER_NORM)`; `c ≤ 0.0492` and `c/2 ≤ 0.0246` -/
theorem uOf_le (it : Nat) : uOf it ≤ ((it : ℝ) + 1 / 2) * (492 / 10000) := by
  have h0 : (0 : ℝ) ≤ (it : ℝ) + 1 / 2 := by have : (0 : ℝ) ≤ (it : ℝ) := Nat.cast_nonneg it; linarith
  unfold uOf EULER_TBIN EULER_NORM
  push_cast
  rw [mul_assoc]
  apply mul_le_mul_of_nonneg_left _ h0
  norm_num

/-- every `u ∈ [0, 0.5411962]` (this covers `u ≤ √(1 − 1/√2) = 0.54119610…`, the cap edge, whatever the
last digits of `EULER_NORM`) is within `0.0246` of a bin centre `uOf it` -/
theorem ubin (u : ℝ) (h0 : 0 ≤ u) (hU : u ≤ 5411962 / 10000000) :
    ∃ it, it < EULER_TBIN ∧ |u - uOf it| ≤ 246 / 10000 := by
  obtain ⟨c, hcdef⟩ : ∃ c : ℝ, c = 2251799813685248 / (11 * 4160783518353059) := ⟨_, rfl⟩
  have hc : ∀ it : Nat, uOf it = ((it : ℝ) + 1 / 2) * c := by
    intro it
    rw [hcdef]
    unfold uOf EULER_TBIN EULER_NORM
    push_cast
    ring
  have hcpos : 0 < c := by rw [hcdef]; norm_num
  have hc1 : c / 2 ≤ 246 / 10000 := by rw [hcdef]; norm_num
  have hc2 : 5411962 / 10000000 - (21 / 2) * c ≤ 246 / 10000 := by rw [hcdef]; norm_num
  unfold EULER_TBIN
  by_cases hlt : u < 11 * c
  · have hs : 0 ≤ u / c := div_nonneg h0 hcpos.le
    have hfl : ⌊u / c⌋₊ < 11 := (Nat.floor_lt hs).2 (by rw [div_lt_iff₀ hcpos]; push_cast; linarith)
    refine ⟨⌊u / c⌋₊, hfl, ?_⟩
    have a1 : (⌊u / c⌋₊ : ℝ) * c ≤ u := by
      have := Nat.floor_le hs
      rwa [le_div_iff₀ hcpos] at this
    have a2 : u < ((⌊u / c⌋₊ : ℝ) + 1) * c := by
      have := Nat.lt_floor_add_one (u / c)
      rwa [div_lt_iff₀ hcpos] at this
    rw [hc, abs_le]
    constructor <;> nlinarith
  · rw [not_lt] at hlt
    refine ⟨10, by norm_num, ?_⟩
    rw [hc, abs_le]
    push_cast
    constructor <;> linarith

/-- the row-by-row bound on `|A × B|²`: with `σ₀ = 2·0.0246/1.3065`, `R = 2it/(2it+1)`,
`P = 1.41422·0.0492·(it+1)/(2it+1)`, every row stays below `0.00665` -/
theorem row_bound (it : Nat) (h : it < EULER_TBIN) :
    (1 + (2 * (it : ℝ) / (2 * it + 1)) * (2 * (it : ℝ) / (2 * it + 1))) *
        (2 * (246 / 10000) / (13065 / 10000) : ℝ) ^ 2 +
      2 * (2 * (it : ℝ) / (2 * it + 1)) * (2 * (246 / 10000) / (13065 / 10000)) *
        (1 / (2 * (it : ℝ) + 1) * ((492 / 10000) * ((it : ℝ) + 1) * (141422 / 100000))) +
      (1 / (2 * (it : ℝ) + 1) * ((492 / 10000) * ((it : ℝ) + 1) * (141422 / 100000))) ^ 2
      ≤ 665 / 100000 := by
  unfold EULER_TBIN at h
  interval_cases it <;> norm_num

/-! ### coverage, layer 3: a target in the cap region against the centre of its own cell -/

theorem dot_self_nonneg (v : V3 ℝ) : 0 ≤ dot v v := by
  simp only [dot]; nlinarith [mul_self_nonneg v.x, mul_self_nonneg v.y, mul_self_nonneg v.z]

theorem cross_scale (A B : V3 ℝ) (n l : ℝ) :
    cross (scale3 A n) (scale3 B l) = scale3 (cross A B) (n * l) := by
  simp only [cross, scale3, V3.mk.injEq]
  refine ⟨by ring, by ring, by ring⟩

theorem sin2_le_cross (A B : V3 ℝ) (n l : ℝ) (hn : n ^ 2 ≤ 1) (hl : l ^ 2 ≤ 1)
    (hw : dot (scale3 A n) (scale3 A n) = 1) (hc : dot (scale3 B l) (scale3 B l) = 1) :
    1 - (dot (scale3 A n) (scale3 B l)) ^ 2 ≤ dot (cross A B) (cross A B) := by
  have h := dot_cross_self (scale3 A n) (scale3 B l)
  rw [hw, hc, cross_scale, dot_scale_scale] at h
  have h1 : (n * l) ^ 2 ≤ 1 := by rw [mul_pow]; nlinarith [sq_nonneg n, sq_nonneg l]
  have h2 := dot_self_nonneg (cross A B)
  nlinarith

/-- polar parametrisation of a unit vector of the cap region `|x| ≤ y ≤ z`:
`(x, y, z) = n·(ρ·q, q, s)` with `s = 1 − u²`, `q = u·a`, `a² = 2 − u²`, `0 ≤ u ≤ 0.5411962`, `|ρ| ≤ 1`,
`0 < n`, `n² ≤ 1` -/
theorem region_param (x y z : ℝ) (hunit : x * x + y * y + z * z = 1) (hxy : |x| ≤ y) (hyz : y ≤ z) :
    ∃ n ρ u a : ℝ, 0 < n ∧ n ^ 2 ≤ 1 ∧ |ρ| ≤ 1 ∧ 0 ≤ u ∧ u ≤ 5411962 / 10000000 ∧ 0 < a ∧
      a ^ 2 = 2 - u * u ∧ x = ρ * (u * a) * n ∧ y = u * a * n ∧ z = (1 - u * u) * n := by
  have hy0 : 0 ≤ y := le_trans (abs_nonneg x) hxy
  have hz0 : 0 < z := by
    by_contra h
    have hz : z ≤ 0 := not_lt.1 h
    have e1 : y = 0 := by linarith
    have e2 : z = 0 := by linarith
    have e3 : x = 0 := by
      have : |x| ≤ 0 := by rw [e1] at hxy; exact hxy
      exact abs_eq_zero.1 (le_antisymm this (abs_nonneg x))
    rw [e1, e2, e3] at hunit
    norm_num at hunit
  have hn2 : 0 < y * y + z * z := by nlinarith
  obtain ⟨n, hndef⟩ : ∃ n : ℝ, n = Real.sqrt (y * y + z * z) := ⟨_, rfl⟩
  have hn : 0 < n := by rw [hndef]; exact Real.sqrt_pos.2 hn2
  have hnsq : n ^ 2 = y * y + z * z := by rw [hndef]; exact Real.sq_sqrt hn2.le
  have hn1 : n ^ 2 ≤ 1 := by nlinarith [mul_self_nonneg x]
  obtain ⟨s, hs⟩ : ∃ s : ℝ, s = z / n := ⟨_, rfl⟩
  obtain ⟨q, hq⟩ : ∃ q : ℝ, q = y / n := ⟨_, rfl⟩
  have hz' : z = s * n := by rw [hs]; field_simp
  have hy' : y = q * n := by rw [hq]; field_simp
  have hs0 : 0 < s := by rw [hs]; exact div_pos hz0 hn
  have hq0 : 0 ≤ q := by rw [hq]; exact div_nonneg hy0 hn.le
  have hqs : q ≤ s := by rw [hq, hs]; exact div_le_div_of_nonneg_right hyz hn.le
  have hsq : s * s + q * q = 1 := by
    have e : n ^ 2 = (q * n) * (q * n) + (s * n) * (s * n) := by rw [← hy', ← hz', hnsq]
    have : (s * s + q * q) * n ^ 2 = 1 * n ^ 2 := by linear_combination (-1 : ℝ) * e
    exact mul_right_cancel₀ (pow_pos hn 2).ne' this
  have hqq : q * q ≤ s * s := mul_self_le_mul_self hq0 hqs
  have hs1 : s ≤ 1 := by nlinarith
  have hsk : 1 - (5411962 / 10000000 : ℝ) ^ 2 ≤ s := by
    by_contra h
    have h' : s < 1 - (5411962 / 10000000 : ℝ) ^ 2 := not_le.1 h
    have : s * s < (1 - (5411962 / 10000000 : ℝ) ^ 2) * (1 - (5411962 / 10000000 : ℝ) ^ 2) :=
      mul_self_lt_mul_self hs0.le h'
    have k : (1 - (5411962 / 10000000 : ℝ) ^ 2) * (1 - (5411962 / 10000000 : ℝ) ^ 2) ≤ 1 / 2 := by norm_num
    linarith
  obtain ⟨u, hudef⟩ : ∃ u : ℝ, u = Real.sqrt (1 - s) := ⟨_, rfl⟩
  have hu0 : 0 ≤ u := by rw [hudef]; exact Real.sqrt_nonneg _
  have husq : u * u = 1 - s := by rw [hudef]; exact Real.mul_self_sqrt (by linarith)
  have huU : u ≤ 5411962 / 10000000 := by
    by_contra h
    have h' : (5411962 / 10000000 : ℝ) < u := not_le.1 h
    have : (5411962 / 10000000 : ℝ) * (5411962 / 10000000) < u * u :=
      mul_self_lt_mul_self (by norm_num) h'
    nlinarith
  obtain ⟨a, hadef⟩ : ∃ a : ℝ, a = Real.sqrt (1 + s) := ⟨_, rfl⟩
  have ha0 : 0 < a := by rw [hadef]; exact Real.sqrt_pos.2 (by linarith)
  have hasq : a ^ 2 = 2 - u * u := by
    rw [hadef, Real.sq_sqrt (by linarith), husq]; ring
  have hq' : q = u * a := by
    apply (sq_eq_sq₀ hq0 (mul_nonneg hu0 ha0.le)).1
    rw [mul_pow, hasq]
    nlinarith
  have hs' : s = 1 - u * u := by linarith
  obtain ⟨ρ, hρ1, hxρ⟩ : ∃ ρ : ℝ, |ρ| ≤ 1 ∧ x = ρ * y := by
    by_cases hy : y = 0
    · refine ⟨0, by norm_num, ?_⟩
      have : |x| ≤ 0 := by rw [hy] at hxy; exact hxy
      rw [abs_eq_zero.1 (le_antisymm this (abs_nonneg x))]; ring
    · have hypos : 0 < y := lt_of_le_of_ne hy0 (Ne.symm hy)
      refine ⟨x / y, ?_, by field_simp⟩
      rw [abs_div, abs_of_pos hypos, div_le_one hypos]; exact hxy
  refine ⟨n, ρ, u, a, hn, hn1, hρ1, hu0, huU, ha0, hasq, ?_, ?_, ?_⟩
  · rw [hxρ, hy', hq']; ring
  · rw [hy', hq']
  · rw [hz', hs']

/-- the decoded unit vector of cell `(it, ir)` is `l·(r·qc, qc, sc)` with `uc = uOf it`,
`ac = √(2 − uc²)`, `qc = uc·ac`, `sc = 1 − uc²`, `r = rParam it ir`, and `l² ≤ 1` -/
theorem cell_param (it ir : Nat) (hit : it < EULER_TBIN) :
    ∃ l ac : ℝ, l ^ 2 ≤ 1 ∧ 0 < ac ∧ ac ^ 2 = 2 - uOf it * uOf it ∧
      (cellDir it ir).1 = (rParam it ir : ℝ) * (uOf it * ac) * l ∧
      (cellDir it ir).2.1 = uOf it * ac * l ∧ (cellDir it ir).2.2 = (1 - uOf it * uOf it) * l ∧
      (cellDir it ir).1 * (cellDir it ir).1 + (cellDir it ir).2.1 * (cellDir it ir).2.1 +
        (cellDir it ir).2.2 * (cellDir it ir).2.2 = 1 := by
  have huc0 := uOf_pos it
  have huc1 : uOf it < 13 / 25 := uOf_lt it hit
  have hpos : 0 < 2 - uOf it * uOf it := by nlinarith
  have hsc : 0 < 1 - uOf it * uOf it := by nlinarith
  obtain ⟨hunit, hz, hx, hy⟩ := direction_unit ((rParam it ir : ℝ) * tParam it) (tParam it)
  have hT : (tParam it : ℝ) = uOf it * Real.sqrt (2 - uOf it * uOf it) / (1 - uOf it * uOf it) := by
    rw [tParam_eq]; rfl
  unfold cellDir
  generalize direction ((rParam it ir : ℝ) * tParam it) (tParam it) = d at hunit hz hx hy
  have hac0 : 0 < Real.sqrt (2 - uOf it * uOf it) := Real.sqrt_pos.2 hpos
  have hac2 : Real.sqrt (2 - uOf it * uOf it) ^ 2 = 2 - uOf it * uOf it := Real.sq_sqrt hpos.le
  rw [hT] at hx hy
  generalize Real.sqrt (2 - uOf it * uOf it) = ac at hac0 hac2 hx hy
  generalize uOf it = uc at *
  generalize (rParam it ir : ℝ) = r at *
  have e1 : d.2.2 = (1 - uc * uc) * (d.2.2 / (1 - uc * uc)) := by
    rw [mul_comm, div_mul_cancel₀ _ hsc.ne']
  have e2 : d.2.1 = uc * ac * (d.2.2 / (1 - uc * uc)) := by rw [hy]; ring
  have e3 : d.1 = r * (uc * ac) * (d.2.2 / (1 - uc * uc)) := by rw [hx]; ring
  refine ⟨d.2.2 / (1 - uc * uc), ac, ?_, hac0, hac2, e3, e2, e1, hunit⟩
  -- l² · (r²qc² + qc² + sc²) = 1 and the bracket is ≥ 1
  generalize d.2.2 / (1 - uc * uc) = l at e1 e2 e3
  rw [e1, e2, e3] at hunit
  have hsq : (1 - uc * uc) * (1 - uc * uc) + (uc * ac) * (uc * ac) = 1 := by
    have : (uc * ac) * (uc * ac) = uc * uc * ac ^ 2 := by ring
    rw [this, hac2]; ring
  have : l ^ 2 * (1 + (r * (uc * ac)) ^ 2) = 1 := by
    have : l ^ 2 * (1 + (r * (uc * ac)) ^ 2) =
        l ^ 2 * (((1 - uc * uc) * (1 - uc * uc) + (uc * ac) * (uc * ac)) + (r * (uc * ac)) ^ 2) := by rw [hsq]
    rw [this]; linarith [hunit, (by ring : r * (uc * ac) * l * (r * (uc * ac) * l) + uc * ac * l * (uc * ac * l) +
        (1 - uc * uc) * l * ((1 - uc * uc) * l) =
        l ^ 2 * (((1 - uc * uc) * (1 - uc * uc) + (uc * ac) * (uc * ac)) + (r * (uc * ac)) ^ 2))]
  nlinarith [sq_nonneg (r * (uc * ac)), sq_nonneg l]

theorem rParam_abs (it ir : Nat) (h : ir ≤ 2 * it) :
    |(rParam it ir : ℝ)| ≤ 2 * (it : ℝ) / (2 * it + 1) := by
  rw [rParam_eq]
  have h0 : (0 : ℝ) ≤ (ir : ℝ) := Nat.cast_nonneg ir
  have h1 : (ir : ℝ) ≤ 2 * (it : ℝ) := by exact_mod_cast h
  have hit : (0 : ℝ) ≤ (it : ℝ) := Nat.cast_nonneg it
  have hd : (0 : ℝ) < (it : ℝ) + 1 / 2 := by linarith
  have hd2 : (0 : ℝ) < 2 * (it : ℝ) + 1 := by linarith
  have e : ((ir : ℝ) + 1 / 2) / ((it : ℝ) + 1 / 2) - 1 = (2 * (ir : ℝ) - 2 * it) / (2 * it + 1) := by
    field_simp; ring
  rw [e, abs_div, abs_of_pos hd2]
  apply div_le_div_of_nonneg_right _ hd2.le
  rw [abs_le]; constructor <;> linarith

/-- **own-cell bound.**  A unit vector of the cap region `|x| ≤ y ≤ z` makes an angle `θ` with
`sin² θ ≤ 0.00665` with the decoded centre of the cell `(it, ir)` whose bins contain it. -/
theorem cell_cover (x y z : ℝ) (hunit : x * x + y * y + z * z = 1) (hxy : |x| ≤ y) (hyz : y ≤ z) :
    ∃ it ir, it < EULER_TBIN ∧ ir ≤ 2 * it ∧
      1 - (x * (cellDir it ir).1 + y * (cellDir it ir).2.1 + z * (cellDir it ir).2.2) ^ 2
        ≤ 665 / 100000 := by
  obtain ⟨n, ρ, u, a, hn, hn1, hρ1, hu0, huU, ha0, hasq, hx, hy, hz⟩ := region_param x y z hunit hxy hyz
  obtain ⟨it, hit, hbin⟩ := ubin u hu0 huU
  obtain ⟨hρa, hρb⟩ := abs_le.1 hρ1
  obtain ⟨ir, hir, hr⟩ := rnet it ρ hρa hρb
  obtain ⟨l, ac, hl1, hac0, hacsq, c1, c2, c3, cunit⟩ := cell_param it ir hit
  refine ⟨it, ir, hit, hir, ?_⟩
  have huc0 := uOf_pos it
  have huc1 : uOf it < 13 / 25 := uOf_lt it hit
  have hucle := uOf_le it
  have hitr : (0 : ℝ) ≤ (it : ℝ) := Nat.cast_nonneg it
  have hrabs := rParam_abs it ir hir
  generalize uOf it = uc at *
  generalize (rParam it ir : ℝ) = r at *
  -- square-root bounds: 1.3065 ≤ a, ac and a ≤ 1.41422
  have huu : u * u ≤ (5411962 / 10000000 : ℝ) * (5411962 / 10000000) := mul_self_le_mul_self hu0 huU
  have hucuc : uc * uc ≤ (13 / 25 : ℝ) * (13 / 25) := mul_self_le_mul_self huc0.le huc1.le
  have haa : a * a = 2 - u * u := by rw [← hasq]; ring
  have hacac : ac * ac = 2 - uc * uc := by rw [← hacsq]; ring
  have hab : (13065 / 10000 : ℝ) ≤ a := by
    by_contra h
    have := mul_self_lt_mul_self ha0.le (not_le.1 h)
    linarith [this, haa, huu]
  have hacb : (13065 / 10000 : ℝ) ≤ ac := by
    by_contra h
    have := mul_self_lt_mul_self hac0.le (not_le.1 h)
    linarith [this, hacac, hucuc]
  have hahat : a ≤ (141422 / 100000 : ℝ) := by
    by_contra h
    have := mul_self_lt_mul_self (by norm_num : (0 : ℝ) ≤ 141422 / 100000) (not_le.1 h)
    linarith [this, haa, mul_self_nonneg u]
  obtain ⟨hb1, hb2⟩ := abs_le.1 hbin
  -- the three ingredients of `cross_bound`
  have hσ : |u * a * (1 - uc * uc) - (1 - u * u) * (uc * ac)| ≤
      2 * (246 / 10000) / (13065 / 10000 : ℝ) := by
    refine le_trans (sigma_bound hu0 huc0 hasq hacsq (by norm_num) hab hacb) ?_
    gcongr
  have hule : u ≤ (492 / 10000 : ℝ) * ((it : ℝ) + 1) := by linarith
  have hq : |u * a| ≤ (492 / 10000 : ℝ) * ((it : ℝ) + 1) * (141422 / 100000) := by
    rw [abs_of_nonneg (mul_nonneg hu0 ha0.le)]
    exact mul_le_mul hule hahat ha0.le (by positivity)
  have he : |(ρ - r) * (u * a)| ≤
      1 / (2 * (it : ℝ) + 1) * ((492 / 10000 : ℝ) * ((it : ℝ) + 1) * (141422 / 100000)) := by
    rw [abs_mul]
    exact mul_le_mul hr hq (abs_nonneg _) (by positivity)
  have hsc0 : 0 ≤ 1 - uc * uc := by linarith [hucuc]
  have hsc1 : 1 - uc * uc ≤ 1 := by linarith [mul_self_nonneg uc]
  have hcs : (1 - uc * uc) * (1 - uc * uc) + (uc * ac) * (uc * ac) = 1 := by
    have : (uc * ac) * (uc * ac) = uc * uc * ac ^ 2 := by ring
    rw [this, hacsq]; ring
  -- assemble
  have hw : dot (scale3 ⟨ρ * (u * a), u * a, 1 - u * u⟩ n) (scale3 ⟨ρ * (u * a), u * a, 1 - u * u⟩ n) = 1 := by
    simp only [dot, scale3]; rw [← hx, ← hy, ← hz]; exact hunit
  have hc : dot (scale3 ⟨r * (uc * ac), uc * ac, 1 - uc * uc⟩ l)
      (scale3 ⟨r * (uc * ac), uc * ac, 1 - uc * uc⟩ l) = 1 := by
    simp only [dot, scale3]; rw [← c1, ← c2, ← c3]; exact cunit
  have key := sin2_le_cross ⟨ρ * (u * a), u * a, 1 - u * u⟩ ⟨r * (uc * ac), uc * ac, 1 - uc * uc⟩ n l hn1 hl1 hw hc
  rw [cross_param ρ (u * a) (1 - u * u) r (uc * ac) (1 - uc * uc) hcs] at key
  have hdot : dot (scale3 ⟨ρ * (u * a), u * a, 1 - u * u⟩ n) (scale3 ⟨r * (uc * ac), uc * ac, 1 - uc * uc⟩ l) =
      x * (cellDir it ir).1 + y * (cellDir it ir).2.1 + z * (cellDir it ir).2.2 := by
    simp only [dot, scale3]; rw [← hx, ← hy, ← hz, ← c1, ← c2, ← c3]
  rw [hdot] at key
  exact le_trans key (le_trans (cross_bound hσ he hrabs hsc0 hsc1) (row_bound it hit))

/-- inner product of two vectors arranged by the same cap -/
theorem majorOf_dot (cap : Nat) (hcap : cap < 12) (x y z x' y' z' : ℝ) :
    dot (majorOf cap x y z) (majorOf cap x' y' z') = x * x' + y * y' + z * z' := by
  interval_cases cap <;> simp only [majorOf, dot] <;> ring

/-! ### from `sin²` to degrees -/

/-- `sin² θ ≤ 0.00665` with `θ = arccos d ∈ [0, π/2]` gives `θ ≤ 4.7°` -/
theorem arccos_le_of_sin2 {d : ℝ} (hd0 : 0 ≤ d) (h : 1 - d ^ 2 ≤ 665 / 100000) :
    Real.arccos d ≤ 47 / 10 * (Real.pi / 180) := by
  have hpi1 := Real.pi_gt_d2
  have hpi2 := Real.pi_lt_d2
  by_contra hcon
  have hlt : 47 / 10 * (Real.pi / 180) < Real.arccos d := not_le.1 hcon
  have hθ0 : 0 < 47 / 10 * (Real.pi / 180) := by positivity
  have hle : Real.arccos d ≤ Real.pi / 2 := Real.arccos_le_pi_div_two.2 hd0
  have hsin := Real.sin_lt_sin_of_lt_of_le_pi_div_two (by linarith) hle hlt
  have hcube := Real.sin_gt_sub_cube hθ0
  rw [Real.sin_arccos] at hsin
  -- θ₀ − θ₀³/6 ≥ 0.0818 and √(1 − d²) ≤ √0.00665 < 0.0816
  have hs : Real.sqrt (1 - d ^ 2) ≤ 816 / 10000 := by
    apply Real.sqrt_le_iff.2
    constructor
    · norm_num
    · have : (816 / 10000 : ℝ) ^ 2 = 665856 / 100000000 := by norm_num
      rw [this]; linarith
  obtain ⟨θ, hθ⟩ : ∃ θ : ℝ, θ = 47 / 10 * (Real.pi / 180) := ⟨_, rfl⟩
  rw [← hθ] at hcube hsin hθ0
  have b1 : (8198 / 100000 : ℝ) < θ := by rw [hθ]; linarith
  have b2 : θ < (8226 / 100000 : ℝ) := by rw [hθ]; linarith
  have b3 : θ ^ 3 < (8226 / 100000 : ℝ) ^ 3 := pow_lt_pow_left₀ b2 hθ0.le (by norm_num)
  have b4 : (8226 / 100000 : ℝ) ^ 3 < 6 / 10000 := by norm_num
  linarith

end AbacusVerif.Euler16
