/-
  Specification vocabulary and helper lemmas for the read_asdf model (Props/C16.lean holds the property theorems).
-/
import AbacusVerif.Model.C16

namespace AbacusVerif.ReadAsdf
open AbacusVerif

instance {α : Type} [DecidableEq α] : DecidableEq (Except Err α) := fun x y =>
  match x, y with
  | .ok a, .ok b => if h : a = b then isTrue (by rw [h]) else isFalse (by intro e; cases e; exact h rfl)
  | .error a, .error b => if h : a = b then isTrue (by rw [h]) else isFalse (by intro e; cases e; exact h rfl)
  | .ok _, .error _ => isFalse (by intro e; cases e)
  | .error _, .ok _ => isFalse (by intro e; cases e)

/-- how many of the four known raw keys the file has -/
def numPresent (present : RawKey → Bool) : Nat := (knownKeys.filter present).length

/-- the columns the property calls loadable for a raw column -/
def loadable (cn : ColName) : List Col :=
  if cn.isRV then [.pos, .vel]
  else if cn.hasPid then [.pid, .lagr_pos, .tagged, .density, .lagr_idx, .aux]
  else []

/-- every name that produces a table column for this raw column (a superset of `loadable`: the function also
attaches the raw column as `aux` to an rvint/pack9 table and an unfilled `pos`/`vel` to a PID table) -/
def supported (cn : ColName) : List Col :=
  if cn.hasPid then [.pos, .vel, .aux, .pid, .lagr_pos, .lagr_idx, .tagged, .density] else [.pos, .vel, .aux]

/-- the order in which columns appear in the table -/
def canonical : List Col := [.pos, .vel, .aux, .pid, .lagr_pos, .lagr_idx, .tagged, .density]

/-- documented defaults: positions and velocities, or the particle ID -/
def defaults (k : RawKey) : List Col :=
  match k with
  | .rvint => [.pos, .vel]
  | .pack9 => [.pos, .vel]
  | .packedpid => [.pid]
  | .pid => [.pid]

/-- number of particles held by the raw column `k` of a file -/
def particles (f : FileDesc) (k : RawKey) : Nat :=
  match k with
  | .pack9 => f.npart
  | k => f.len (.known k)

/-- a presence function from four booleans -/
def presentOf (a b c d : Bool) : RawKey → Bool
  | .rvint => a | .pack9 => b | .packedpid => c | .pid => d

theorem present_eq (p : RawKey → Bool) : p = presentOf (p .rvint) (p .pack9) (p .packedpid) (p .pid) := by
  funext k; cases k <;> rfl

end AbacusVerif.ReadAsdf
