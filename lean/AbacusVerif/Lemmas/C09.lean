/-
  Helper lemmas for C09 (HOD threshold rule, galaxy content).
-/
import AbacusVerif.Model.C09
import Mathlib.Data.Rat.Floor
import Mathlib.Tactic.Linarith
import Mathlib.Tactic.Ring

namespace AbacusVerif.Hod
open AbacusVerif

/-! ### vocabulary of the specification -/

/-- `r` lies in `T`'s slice: `T` is enabled, `r` is at most `T`'s marker and above the marker of every
enabled tracer earlier in the chain (for the first enabled tracer there is no lower bound: its slice
is closed at 0 and contains everything below). -/
def inSlice (en : Enabled) (w : Widths) (T : Tracer) (r : Rat) : Prop :=
  en.get T = true ∧ r ≤ marker en w T ∧
    ∀ S : Tracer, S.rank < T.rank → en.get S = true → marker en w S < r

/-- executable form of `inSlice` -/
def inSliceB (en : Enabled) (w : Widths) (T : Tracer) (r : Rat) : Bool :=
  en.get T && decide (r ≤ marker en w T) &&
    [Tracer.LRG, Tracer.ELG, Tracer.QSO].all
      (fun S => !(decide (S.rank < T.rank) && en.get S) || decide (marker en w S < r))

/-- the nearest enabled tracer before `T` in the chain -/
def prevEnabled (en : Enabled) : Tracer → Option Tracer
  | .LRG => none
  | .ELG => if en.lrg then some .LRG else none
  | .QSO => if en.elg then some .ELG else if en.lrg then some .LRG else none

/-- cumulative width of the enabled tracers up to and including `T`, in the order LRG, ELG, QSO -/
def cumWidth (en : Enabled) (w : Widths) (T : Tracer) : Rat :=
  (([Tracer.LRG, Tracer.ELG, Tracer.QSO].filter
      (fun S => decide (S.rank ≤ T.rank) && en.get S)).map w.get).sum

/-- two configurations agree on every tracer up to and including `T` -/
def agreeUpTo (T : Tracer) (en en' : Enabled) (w w' : Widths) : Prop :=
  ∀ S : Tracer, S.rank ≤ T.rank → en.get S = en'.get S ∧ w.get S = w'.get S

theorem Tracer.code_injective {T₁ T₂ : Tracer} (h : T₁.code = T₂.code) : T₁ = T₂ := by
  cases T₁ <;> cases T₂ <;> simp [Tracer.code] at h ⊢

theorem Tracer.code_pos (T : Tracer) : 0 < T.code := by cases T <;> simp [Tracer.code]

theorem keepCode_cases (en : Enabled) (w : Widths) (r : Rat) :
    keepCode en w r = 0 ∨ keepCode en w r = 1 ∨ keepCode en w r = 2 ∨ keepCode en w r = 3 := by
  unfold keepCode
  split_ifs <;> simp

theorem forall_tracer {P : Tracer → Prop} : (∀ S, P S) ↔ P .LRG ∧ P .ELG ∧ P .QSO :=
  ⟨fun h => ⟨h _, h _, h _⟩, fun ⟨a, b, c⟩ S => by cases S <;> assumption⟩

theorem inSliceB_iff (en : Enabled) (w : Widths) (T : Tracer) (r : Rat) :
    inSliceB en w T r = true ↔ inSlice en w T r := by
  unfold inSliceB inSlice
  rw [forall_tracer]
  cases h1 : en.get .LRG <;> cases h2 : en.get .ELG <;> cases h3 : en.get .QSO <;> cases T <;>
    simp [Tracer.rank, h1, h2, h3]

/-- the keep code is `T`'s code exactly when `r` is in `T`'s slice -/
theorem keepCode_eq_code_iff (en : Enabled) (w : Widths) (T : Tracer) (r : Rat) :
    keepCode en w r = T.code ↔ inSlice en w T r := by
  obtain ⟨a, b, c⟩ := en
  unfold inSlice keepCode
  rw [forall_tracer]
  cases T <;> cases a <;> cases b <;> cases c <;>
    simp [marker, markerL, markerE, markerQ, Tri.get, Tracer.code, Tracer.rank] <;>
    (try split_ifs) <;> (try simp_all)

/-! ### the fill pass is a filter -/

theorem fill_map {ρ} (mk : ρ → Gal) (code : Nat) (rows : List ρ) (f : ρ → Nat) :
    fill mk code rows (rows.map f) = (rows.filter (fun x => f x = code)).map mk := by
  unfold fill
  induction rows with
  | nil => simp
  | cons x xs ih =>
    simp only [List.map_cons, List.zip_cons_cons, List.filterMap_cons, List.filter_cons]
    by_cases h : f x = code
    · simp [h, ih]
    · simp [h, ih]

/-- rows whose code is 1, 2, 3 or 0 partition the table -/
theorem partition_count {ρ} (rows : List ρ) (f : ρ → Nat)
    (hf : ∀ x ∈ rows, f x = 0 ∨ f x = 1 ∨ f x = 2 ∨ f x = 3) :
    (rows.filter (fun x => f x = 1)).length + (rows.filter (fun x => f x = 2)).length +
      (rows.filter (fun x => f x = 3)).length + (rows.map f).count 0 = rows.length := by
  induction rows with
  | nil => simp
  | cons h hs ih =>
    have ih' := ih (fun x hx => hf x (List.mem_cons_of_mem _ hx))
    simp only [List.filter_cons, List.map_cons, List.count_cons, List.length_cons]
    rcases hf h (List.mem_cons_self) with h0 | h0 | h0 | h0 <;> simp [h0] <;> omega

theorem genCent_gals (cfg : Cfg) (aC : Tri Rat) (hosts : List Host) (T : Tracer) :
    (genCent cfg aC hosts).gals T =
      (hosts.filter (fun h => keepCode cfg.en h.w h.r = T.code)).map (mkCent cfg (aC.get T)) := by
  simp [genCent, fill_map]

theorem genSats_gals (cfg : Cfg) (aS : Tri Rat) (pks : List (Part × Int)) (T : Tracer) :
    (genSats cfg aS pks).gals T =
      (pks.filter (fun pk => keepCode cfg.en (satWidths pk.1 pk.2) pk.1.r = T.code)).map
        (fun pk => mkSat cfg (aS.get T) pk.1) := by
  simp [genSats, fill_map]

/-! ### markers are monotone in the widths -/

theorem markerL_mono {en : Enabled} {w w' : Widths}
    (h : ∀ S, en.get S = true → w.get S ≤ w'.get S) : markerL en w ≤ markerL en w' := by
  unfold markerL
  split_ifs with hl
  · have := h .LRG hl; simp only [Tri.get] at this; linarith
  · exact le_refl _

theorem markerE_mono {en : Enabled} {w w' : Widths}
    (h : ∀ S, en.get S = true → w.get S ≤ w'.get S) : markerE en w ≤ markerE en w' := by
  have hL := markerL_mono h
  unfold markerE
  split_ifs with he
  · have := h .ELG he; simp only [Tri.get] at this; linarith
  · exact hL

theorem markerQ_mono {en : Enabled} {w w' : Widths}
    (h : ∀ S, en.get S = true → w.get S ≤ w'.get S) : markerQ en w ≤ markerQ en w' := by
  have hE := markerE_mono h
  unfold markerQ
  split_ifs with hq
  · have := h .QSO hq; simp only [Tri.get] at this; linarith
  · exact hE

/-- with non-negative widths of the enabled tracers the markers are ordered along the chain -/
theorem marker_chain {en : Enabled} {w : Widths} (hw : ∀ S, en.get S = true → 0 ≤ w.get S) :
    0 ≤ markerL en w ∧ markerL en w ≤ markerE en w ∧ markerE en w ≤ markerQ en w := by
  refine ⟨?_, ?_, ?_⟩
  · unfold markerL; split_ifs with h
    · have := hw .LRG h; simp only [Tri.get] at this; linarith
    · exact le_refl _
  · unfold markerE; split_ifs with h
    · have := hw .ELG h; simp only [Tri.get] at this; linarith
    · exact le_refl _
  · unfold markerQ; split_ifs with h
    · have := hw .QSO h; simp only [Tri.get] at this; linarith
    · exact le_refl _

/-! ### `wrap` -/

theorem wrap_cases (x L : Rat) : wrap x L = x ∨ wrap x L = x - L ∨ wrap x L = x + L := by
  unfold wrap
  simp only
  split_ifs <;> simp

theorem wrap_range {x L : Rat} (hlo : -(3 * L / 2) ≤ x) (hhi : x < 3 * L / 2) :
    -(L / 2) ≤ wrap x L ∧ wrap x L < L / 2 := by
  unfold wrap
  simp only
  split_ifs with h1 h2
  · constructor <;> linarith
  · constructor <;> linarith
  · have h1' := lt_of_not_ge h1
    have h2' := le_of_not_gt h2
    constructor <;> linarith

/-! ### `keep_cent[pinds]` -/

theorem gatherKeep_length {keep : List Nat} {pinds : List Int} {kcs : List Int}
    (h : gatherKeep keep pinds = .ok kcs) : kcs.length = pinds.length := by
  unfold gatherKeep at h
  induction pinds generalizing kcs with
  | nil => simp [List.mapM_nil, pure, Except.pure] at h; subst h; rfl
  | cons i is ih =>
    rw [List.mapM_cons] at h
    simp only [bind, Except.bind] at h
    split at h
    · cases h
    · rename_i v hv
      split at h
      · cases h
      · rename_i vs hvs
        simp only [pure, Except.pure, Except.ok.injEq] at h
        subst h
        simp [ih hvs]

end AbacusVerif.Hod
