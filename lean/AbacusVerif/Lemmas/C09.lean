/-
  Helper lemmas for C09 (HOD threshold rule, galaxy content).
-/
import AbacusVerif.Model.C09
import Mathlib.Data.Rat.Floor
import Mathlib.Tactic.Linarith
import Mathlib.Tactic.Ring

namespace AbacusVerif.Hod
open AbacusVerif

/-! ### vocabulary of the specification -/

/-- `r` lies in `T`'s slice: `T` is enabled, `r` is at most `T`'s marker and above the marker of every
enabled tracer earlier in the chain (for the first enabled tracer there is no lower bound: its slice
is closed at 0 and contains everything below). -/
def inSlice (en : Enabled) (w : Widths) (T : Tracer) (r : Rat) : Prop :=
  en.get T = true ∧ r ≤ marker en w T ∧
    ∀ S : Tracer, S.rank < T.rank → en.get S = true → marker en w S < r

/-- executable form of `inSlice` -/
def inSliceB (en : Enabled) (w : Widths) (T : Tracer) (r : Rat) : Bool :=
  en.get T && decide (r ≤ marker en w T) &&
    [Tracer.LRG, Tracer.ELG, Tracer.QSO].all
      (fun S => !(decide (S.rank < T.rank) && en.get S) || decide (marker en w S < r))

/-- the nearest enabled tracer before `T` in the chain -/
def prevEnabled (en : Enabled) : Tracer → Option Tracer
  | .LRG => none
  | .ELG => if en.lrg then some .LRG else none
  | .QSO => if en.elg then some .ELG else if en.lrg then some .LRG else none

/-- cumulative width of the enabled tracers up to and including `T`, in the order LRG, ELG, QSO -/
def cumWidth (en : Enabled) (w : Widths) (T : Tracer) : Rat :=
  (([Tracer.LRG, Tracer.ELG, Tracer.QSO].filter
      (fun S => decide (S.rank ≤ T.rank) && en.get S)).map w.get).sum

/-- two configurations agree on every tracer up to and including `T` -/
def agreeUpTo (T : Tracer) (en en' : Enabled) (w w' : Widths) : Prop :=
  ∀ S : Tracer, S.rank ≤ T.rank → en.get S = en'.get S ∧ w.get S = w'.get S

/-- the enable flags agree on every tracer up to and including `T` -/
def flagsAgree (T : Tracer) (en en' : Enabled) : Prop :=
  ∀ S : Tracer, S.rank ≤ T.rank → en.get S = en'.get S

/-- `q` is the particle row `p` except, possibly, for the widths of tracers after `T` -/
def partAgree (T : Tracer) (p q : Part) : Prop :=
  q.hid = p.hid ∧ q.hmass = p.hmass ∧ q.ppos = p.ppos ∧ q.pvel = p.pvel ∧ q.hvel = p.hvel ∧ q.r = p.r ∧
    q.invn = p.invn ∧ q.kc = p.kc ∧ q.wL = p.wL ∧
    (1 ≤ T.rank → q.wE0 = p.wE0 ∧ q.wE1 = p.wE1 ∧ q.wE2 = p.wE2) ∧ (2 ≤ T.rank → q.wQ = p.wQ)

/-- two central codes are indistinguishable for the conformity switch of tracers up to `T` -/
def confRel (T : Tracer) (k k' : Int) : Prop :=
  1 ≤ T.rank → ((k = 1 ↔ k' = 1) ∧ (k = 2 ↔ k' = 2))

theorem Tracer.code_injective {T₁ T₂ : Tracer} (h : T₁.code = T₂.code) : T₁ = T₂ := by
  cases T₁ <;> cases T₂ <;> simp [Tracer.code] at h ⊢

theorem Tracer.code_pos (T : Tracer) : 0 < T.code := by cases T <;> simp [Tracer.code]

theorem keepCode_cases (en : Enabled) (w : Widths) (r : Rat) :
    keepCode en w r = 0 ∨ keepCode en w r = 1 ∨ keepCode en w r = 2 ∨ keepCode en w r = 3 := by
  unfold keepCode
  split_ifs <;> simp

theorem forall_tracer {P : Tracer → Prop} : (∀ S, P S) ↔ P .LRG ∧ P .ELG ∧ P .QSO :=
  ⟨fun h => ⟨h _, h _, h _⟩, fun ⟨a, b, c⟩ S => by cases S <;> assumption⟩

theorem inSliceB_iff (en : Enabled) (w : Widths) (T : Tracer) (r : Rat) :
    inSliceB en w T r = true ↔ inSlice en w T r := by
  unfold inSliceB inSlice
  rw [forall_tracer]
  cases h1 : en.get .LRG <;> cases h2 : en.get .ELG <;> cases h3 : en.get .QSO <;> cases T <;>
    simp [Tracer.rank, h1, h2, h3]

/-- the keep code is `T`'s code exactly when `r` is in `T`'s slice -/
theorem keepCode_eq_code_iff (en : Enabled) (w : Widths) (T : Tracer) (r : Rat) :
    keepCode en w r = T.code ↔ inSlice en w T r := by
  obtain ⟨a, b, c⟩ := en
  unfold inSlice keepCode
  rw [forall_tracer]
  cases T <;> cases a <;> cases b <;> cases c <;>
    simp [marker, markerL, markerE, markerQ, Tri.get, Tracer.code, Tracer.rank] <;>
    (try split_ifs) <;> (try simp_all)

/-! ### the fill pass is a filter -/

theorem fill_map {ρ} (mk : ρ → Gal) (code : Nat) (rows : List ρ) (f : ρ → Nat) :
    fill mk code rows (rows.map f) = (rows.filter (fun x => f x = code)).map mk := by
  unfold fill
  induction rows with
  | nil => simp
  | cons x xs ih =>
    simp only [List.map_cons, List.zip_cons_cons, List.filterMap_cons, List.filter_cons]
    by_cases h : f x = code
    · simp [h, ih]
    · simp [h, ih]

/-- rows whose code is 1, 2, 3 or 0 partition the table -/
theorem partition_count {ρ} (rows : List ρ) (f : ρ → Nat)
    (hf : ∀ x ∈ rows, f x = 0 ∨ f x = 1 ∨ f x = 2 ∨ f x = 3) :
    (rows.filter (fun x => f x = 1)).length + (rows.filter (fun x => f x = 2)).length +
      (rows.filter (fun x => f x = 3)).length + (rows.map f).count 0 = rows.length := by
  induction rows with
  | nil => simp
  | cons h hs ih =>
    have ih' := ih (fun x hx => hf x (List.mem_cons_of_mem _ hx))
    simp only [List.filter_cons, List.map_cons, List.count_cons, List.length_cons]
    rcases hf h (List.mem_cons_self) with h0 | h0 | h0 | h0 <;> simp [h0] <;> omega

theorem genCent_gals (cfg : Cfg) (aC : Tri Rat) (hosts : List Host) (T : Tracer) :
    (genCent cfg aC hosts).gals T =
      (hosts.filter (fun h => keepCode cfg.en h.w h.r = T.code)).map (mkCent cfg (aC.get T)) := by
  simp [genCent, fill_map]

theorem genSats_gals (cfg : Cfg) (aS : Tri Rat) (pks : List (Part × Int)) (T : Tracer) :
    (genSats cfg aS pks).gals T =
      (pks.filter (fun pk => keepCode cfg.en (satWidths pk.1 pk.2) pk.1.r = T.code)).map
        (fun pk => mkSat cfg (aS.get T) pk.1) := by
  simp [genSats, fill_map]

/-! ### markers are monotone in the widths -/

theorem markerL_mono {en : Enabled} {w w' : Widths}
    (h : ∀ S, en.get S = true → w.get S ≤ w'.get S) : markerL en w ≤ markerL en w' := by
  unfold markerL
  split_ifs with hl
  · have := h .LRG hl; simp only [Tri.get] at this; linarith
  · exact le_refl _

theorem markerE_mono {en : Enabled} {w w' : Widths}
    (h : ∀ S, en.get S = true → w.get S ≤ w'.get S) : markerE en w ≤ markerE en w' := by
  have hL := markerL_mono h
  unfold markerE
  split_ifs with he
  · have := h .ELG he; simp only [Tri.get] at this; linarith
  · exact hL

theorem markerQ_mono {en : Enabled} {w w' : Widths}
    (h : ∀ S, en.get S = true → w.get S ≤ w'.get S) : markerQ en w ≤ markerQ en w' := by
  have hE := markerE_mono h
  unfold markerQ
  split_ifs with hq
  · have := h .QSO hq; simp only [Tri.get] at this; linarith
  · exact hE

/-- with non-negative widths of the enabled tracers the markers are ordered along the chain -/
theorem marker_chain {en : Enabled} {w : Widths} (hw : ∀ S, en.get S = true → 0 ≤ w.get S) :
    0 ≤ markerL en w ∧ markerL en w ≤ markerE en w ∧ markerE en w ≤ markerQ en w := by
  refine ⟨?_, ?_, ?_⟩
  · unfold markerL; split_ifs with h
    · have := hw .LRG h; simp only [Tri.get] at this; linarith
    · exact le_refl _
  · unfold markerE; split_ifs with h
    · have := hw .ELG h; simp only [Tri.get] at this; linarith
    · exact le_refl _
  · unfold markerQ; split_ifs with h
    · have := hw .QSO h; simp only [Tri.get] at this; linarith
    · exact le_refl _

/-! ### `wrap` -/

theorem wrap_cases (x L : Rat) : wrap x L = x ∨ wrap x L = x - L ∨ wrap x L = x + L := by
  unfold wrap
  simp only
  split_ifs <;> simp

theorem wrap_range {x L : Rat} (hlo : -(3 * L / 2) ≤ x) (hhi : x < 3 * L / 2) :
    -(L / 2) ≤ wrap x L ∧ wrap x L < L / 2 := by
  unfold wrap
  simp only
  split_ifs with h1 h2
  · constructor <;> linarith
  · constructor <;> linarith
  · have h1' := lt_of_not_ge h1
    have h2' := le_of_not_gt h2
    constructor <;> linarith

/-! ### `keep_cent[pinds]` -/

theorem gatherKeep_cons (keep : List Nat) (i : Int) (is : List Int) :
    gatherKeep keep (i :: is) =
      (match gatherOne keep i with
       | .error e => .error e
       | .ok v => match gatherKeep keep is with
                  | .error e => .error e
                  | .ok vs => .ok (v :: vs)) := by
  unfold gatherKeep
  rw [List.mapM_cons]
  simp only [bind, Except.bind, pure, Except.pure]
  cases gatherOne keep i with
  | error e => rfl
  | ok v =>
    simp only
    cases List.mapM (gatherOne keep) is <;> rfl

theorem gatherKeep_length {keep : List Nat} {pinds : List Int} {kcs : List Int}
    (h : gatherKeep keep pinds = .ok kcs) : kcs.length = pinds.length := by
  induction pinds generalizing kcs with
  | nil =>
    simp [gatherKeep, List.mapM_nil, pure, Except.pure] at h
    subst h; rfl
  | cons i is ih =>
    rw [gatherKeep_cons] at h
    cases h1 : gatherOne keep i with
    | error e => simp [h1] at h
    | ok v =>
      cases h2 : gatherKeep keep is with
      | error e => simp [h1, h2] at h
      | ok vs =>
        simp only [h1, h2, Except.ok.injEq] at h
        subst h
        simp [ih h2]

/-- gathering from two keep arrays computed row by row from the same table, whose entries are related by
`P` row by row, succeeds on the same index lists and yields `P`-related results -/
theorem gatherOne_map_rel {α} (xs : List α) (a b : α → Nat) (P : Int → Int → Prop)
    (hP : ∀ x ∈ xs, P (a x) (b x)) (i : Int) (v : Int) (h : gatherOne (xs.map a) i = .ok v) :
    ∃ v', gatherOne (xs.map b) i = .ok v' ∧ P v v' := by
  unfold gatherOne at h ⊢
  simp only [List.length_map] at h ⊢
  cases hk : pyIndex xs.length i with
  | none => simp [hk] at h
  | some k =>
    simp only [hk, List.getElem?_map] at h ⊢
    cases hx : xs[k]? with
    | none => simp [hx] at h
    | some x =>
      simp only [hx, Option.map_some, Except.ok.injEq] at h ⊢
      subst h
      exact ⟨_, rfl, hP x (List.mem_of_getElem? hx)⟩

theorem gatherKeep_map_rel {α} (xs : List α) (a b : α → Nat) (P : Int → Int → Prop)
    (hP : ∀ x ∈ xs, P (a x) (b x)) (pinds : List Int) (kcs : List Int)
    (h : gatherKeep (xs.map a) pinds = .ok kcs) :
    ∃ kcs', gatherKeep (xs.map b) pinds = .ok kcs' ∧ List.Forall₂ P kcs kcs' := by
  induction pinds generalizing kcs with
  | nil =>
    simp [gatherKeep, List.mapM_nil, pure, Except.pure] at h
    subst h
    exact ⟨[], by simp [gatherKeep, List.mapM_nil, pure, Except.pure], List.Forall₂.nil⟩
  | cons i is ih =>
    rw [gatherKeep_cons] at h
    cases h1 : gatherOne (xs.map a) i with
    | error e => simp [h1] at h
    | ok v =>
      cases h2 : gatherKeep (xs.map a) is with
      | error e => simp [h1, h2] at h
      | ok vs =>
        simp only [h1, h2, Except.ok.injEq] at h
        subst h
        obtain ⟨v', hv', hp⟩ := gatherOne_map_rel xs a b P hP i v h1
        obtain ⟨vs', hvs', hps⟩ := ih vs h2
        refine ⟨v' :: vs', ?_, List.Forall₂.cons hp hps⟩
        rw [gatherKeep_cons, hv', hvs']

/-! ### satellites of two related runs -/

/-- if the rows of two satellite passes are pairwise related so that selection as `T` agrees and the
galaxies built agree, the `T`-satellites are the same list -/
theorem genSats_gals_congr (cfg cfg' : Cfg) (aS : Tri Rat) (T : Tracer)
    (pks pks' : List (Part × Int))
    (h : List.Forall₂ (fun pk pk' =>
      (keepCode cfg.en (satWidths pk.1 pk.2) pk.1.r = T.code ↔
        keepCode cfg'.en (satWidths pk'.1 pk'.2) pk'.1.r = T.code) ∧
      mkSat cfg (aS.get T) pk.1 = mkSat cfg' (aS.get T) pk'.1) pks pks') :
    (genSats cfg aS pks).gals T = (genSats cfg' aS pks').gals T := by
  rw [genSats_gals, genSats_gals]
  induction h with
  | nil => rfl
  | @cons pk pk' l l' hd _ ih =>
    obtain ⟨hsel, hmk⟩ := hd
    simp only [List.filter_cons]
    by_cases hk : keepCode cfg.en (satWidths pk.1 pk.2) pk.1.r = T.code
    · have hk' := hsel.1 hk
      simp only [hk, hk', decide_true, if_true, List.map_cons, hmk, ih]
    · have hk' : ¬ keepCode cfg'.en (satWidths pk'.1 pk'.2) pk'.1.r = T.code := fun h' => hk (hsel.2 h')
      simp only [hk, hk', decide_false, Bool.false_eq_true, if_false, ih]

theorem forall₂_zip_map {α β γ} (R : α × β → γ × β → Prop) (u : α → γ) (Q : β → β → Prop)
    (xs : List α) (ks ks' : List β) (hlen : ks.length = xs.length)
    (hk : List.Forall₂ Q ks ks')
    (hR : ∀ x ∈ xs, ∀ k k', Q k k' → R (x, k) (u x, k')) :
    List.Forall₂ R (xs.zip ks) ((xs.map u).zip ks') := by
  induction xs generalizing ks ks' with
  | nil => simp
  | cons x xs ih =>
    cases hk with
    | nil => simp at hlen
    | cons hq hrest =>
      simp only [List.zip_cons_cons, List.map_cons]
      refine List.Forall₂.cons (hR x (List.mem_cons_self) _ _ hq) ?_
      apply ih
      · simpa using hlen
      · exact hrest
      · intro y hy; exact hR y (List.mem_cons_of_mem _ hy)

theorem satWidths_agree {T : Tracer} {en en' : Enabled} {p q : Part} {k k' : Int}
    (hen : flagsAgree T en en') (hpq : partAgree T p q) (hk : confRel T k k') :
    agreeUpTo T en en' (satWidths p k) (satWidths q k') := by
  obtain ⟨_, _, _, _, _, _, _, _, hL, hE, hQ⟩ := hpq
  intro S hS
  refine ⟨hen S hS, ?_⟩
  cases S
  · simp [satWidths, Tri.get, hL]
  · have h1 : 1 ≤ T.rank := hS
    obtain ⟨e0, e1, e2⟩ := hE h1
    obtain ⟨k1, k2⟩ := hk h1
    simp only [satWidths, Tri.get, e0, e1, e2]
    by_cases a : k = 1
    · have a' := k1.1 a; simp [a, a']
    · have a' : ¬ k' = 1 := fun h => a (k1.2 h)
      by_cases b : k = 2
      · have b' := k2.1 b; simp [b, b']
      · have b' : ¬ k' = 2 := fun h => b (k2.2 h)
        simp [a, a', b, b']
  · have h2 : 2 ≤ T.rank := hS
    simp [satWidths, Tri.get, hQ h2]

theorem mkSat_agree {T : Tracer} (cfg : Cfg) (en' : Enabled) (a : Rat) {p q : Part} (hpq : partAgree T p q) :
    mkSat cfg a p = mkSat { cfg with en := en' } a q := by
  obtain ⟨h1, h2, h3, h4, h5, _, h7, _⟩ := hpq
  simp only [mkSat, h1, h2, h3, h4, h5, h7]
  rfl

theorem agreeUpTo_mono {T S : Tracer} {en en' : Enabled} {w w' : Widths} (hS : S.rank ≤ T.rank)
    (h : agreeUpTo T en en' w w') : agreeUpTo S en en' w w' :=
  fun U hU => h U (Nat.le_trans hU hS)

/-- filters with a weaker predicate keep more, in the same order -/
theorem filter_sublist_filter_of_imp {α} (l : List α) (p q : α → Bool) (h : ∀ x ∈ l, p x = true → q x = true) :
    (l.filter p).Sublist (l.filter q) := by
  induction l with
  | nil => simp
  | cons x xs ih =>
    have ih' := ih (fun y hy => h y (List.mem_cons_of_mem _ hy))
    simp only [List.filter_cons]
    by_cases hp : p x = true
    · have hq := h x (List.mem_cons_self) hp
      simp only [hp, hq, if_true]
      exact List.Sublist.cons_cons _ ih'
    · by_cases hq : q x = true
      · simp only [hp, hq, if_true]
        exact List.Sublist.cons _ ih'
      · simp only [hp, hq]
        exact ih'

end AbacusVerif.Hod
