import AbacusVerif.Model.C11
def main : IO Unit := AbacusVerif.driverMain AbacusVerif.Inbounds.handle
