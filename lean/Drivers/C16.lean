import AbacusVerif.Model.C16
def main : IO Unit := AbacusVerif.driverMain AbacusVerif.ReadAsdf.handle
