import AbacusVerif.Model.C16Values
def main : IO Unit := AbacusVerif.driverMain AbacusVerif.ReadAsdf.handleV
