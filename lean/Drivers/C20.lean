import AbacusVerif.Model.Common
-- stub: replaced when the C20 model exists
def main : IO Unit := AbacusVerif.driverMain (fun _ => "bad-op")
