import AbacusVerif.Model.C20
def main : IO Unit := AbacusVerif.driverMain AbacusVerif.Pipe.handle
