import AbacusVerif.Model.C03
def main : IO Unit := AbacusVerif.driverMain AbacusVerif.Catalog.handle3
