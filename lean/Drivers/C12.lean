import AbacusVerif.Model.Common
-- stub: replaced when the C12 model exists
def main : IO Unit := AbacusVerif.driverMain (fun _ => "bad-op")
