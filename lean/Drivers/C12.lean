import AbacusVerif.Model.C12
def main : IO Unit := AbacusVerif.driverMain AbacusVerif.Staging.handle
