import AbacusVerif.Model.C08
def main : IO Unit := AbacusVerif.driverMain AbacusVerif.Binning.handle
