import AbacusVerif.Model.C07
def main : IO Unit := AbacusVerif.driverMain AbacusVerif.TscPar.handle
