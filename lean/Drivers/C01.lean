import AbacusVerif.Model.C01
def main : IO Unit := AbacusVerif.driverMain AbacusVerif.Catalog.handle
