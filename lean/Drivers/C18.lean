import AbacusVerif.Model.C18
def main : IO Unit := AbacusVerif.driverMain AbacusVerif.Euler16.handle
