import AbacusVerif.Model.C09
def main : IO Unit := AbacusVerif.driverMain AbacusVerif.Hod.handle
