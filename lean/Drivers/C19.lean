import AbacusVerif.Model.C19
def main : IO Unit := AbacusVerif.driverMain AbacusVerif.Cumsum.handle
