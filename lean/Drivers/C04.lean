import AbacusVerif.Model.C04
def main : IO Unit := AbacusVerif.driverMain AbacusVerif.Bitpacked.handle
