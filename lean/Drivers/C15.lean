import AbacusVerif.Model.C15
def main : IO Unit := AbacusVerif.driverMain AbacusVerif.Pack9.handle
