import AbacusVerif.Model.C05
def main : IO Unit := AbacusVerif.driverMain AbacusVerif.Units.handle
