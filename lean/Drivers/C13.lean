import AbacusVerif.Model.C13
def main : IO Unit := AbacusVerif.driverMain AbacusVerif.Power.handle
