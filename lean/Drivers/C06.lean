import AbacusVerif.Model.C06
def main : IO Unit := AbacusVerif.driverMain AbacusVerif.Mass.handle
