import AbacusVerif.Model.Common
-- stub: replaced when the C06 model exists
def main : IO Unit := AbacusVerif.driverMain (fun _ => "bad-op")
