import AbacusVerif.Model.C17
def main : IO Unit := AbacusVerif.driverMain AbacusVerif.Partition.handle
