import AbacusVerif.Model.C10
def main : IO Unit := AbacusVerif.driverMain AbacusVerif.TwoPass.handle
