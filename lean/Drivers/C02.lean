import AbacusVerif.Model.C02Pass
def main : IO Unit := AbacusVerif.driverMain AbacusVerif.Fields.handlePT
