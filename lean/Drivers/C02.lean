import AbacusVerif.Model.C02Valid
def main : IO Unit := AbacusVerif.driverMain AbacusVerif.Fields.handleValid
