import AbacusVerif.Model.C02
def main : IO Unit := AbacusVerif.driverMain AbacusVerif.Fields.handle
