import AbacusVerif.Model.C14
def main : IO Unit := AbacusVerif.driverMain AbacusVerif.Blsc.handle
