"""
Translator: write footprints of the `numba.prange` loops of the anchored parallel kernels.

The "for every schedule / every thread count" theorems (C07, C08, C10, C13, C17) all rest on one premise about
the source: inside a `prange` loop, every store goes to memory that belongs to the iteration (or thread)
that performs it.  This module extracts, with `ast`, every store statement inside every `prange` loop of the
listed functions from /repo's working tree and classifies its target:

  loopvar        a[X, ...]            X the prange variable                                  (private row)
  tid            a[tid, ...]          tid = numba.get_thread_id() inside the loop            (per-thread accumulator)
  block          a[i, ...]            i ranges over  range(b[X], b[X+1])  of a boundary array (private block)
  block-shifted  a[i, ...]            i ranges over  range(b[X - c], b[X + 1 - c])            (private block, shifted index)
  cursor         a[j, ...]            j a loop-local scalar initialised from a per-thread/per-iteration array and
                                      advanced inside the loop (disjointness of cursors is what C10 `fill_is_filter`
                                      and C17 `scatter_indices_perm` prove from the count pass)
  local          the array (or the view it is a slice of) is created inside the loop body
  call:<f>       the loop passes arrays to kernel <f> that writes them (C07: `_tsc_scatter` on the shared grid —
                                      disjointness is `rows_disjoint`)
  shared         the target cell does not depend on the iteration, or is indexed by an inner loop variable whose
                 range overlaps between iterations: two iterations write the same cell -> the premise is broken
  unknown        a store the translator cannot interpret (e.g. after a refactoring): not a verdict — the table is
                 then not regenerated, the `prange_writes_private` obligation is dropped for that run and the
                 behavioural tie (correspondence, thread-count oracles) decides alone; recorded in the evidence

Output: lean/AbacusVerif/Generated/Prange<Cxx>.lean with the table and the theorem statement's subject; the
property's Props file proves `no entry is "shared"` by `decide`, so an edit that introduces a shared write
breaks a proof deterministically (a real lost update is timing dependent and cannot be relied on to show up).
"""
import ast
import importlib
import inspect
import textwrap
from pathlib import Path

TARGETS = {
    'C07': [('abacusnbody.analysis.tsc', '_tsc_parallel'), ('abacusnbody.analysis.tsc', '_wrap_inplace'),
            ('abacusnbody.analysis.tsc', '_zeros_parallel')],
    'C08': [('abacusnbody.analysis.power_spectrum', 'bin_kmu'), ('abacusnbody.analysis.power_spectrum', 'bin_kppi')],
    'C10': [('abacusnbody.hod.GRAND_HOD', 'gen_cent'), ('abacusnbody.hod.GRAND_HOD', 'gen_sats'),
            ('abacusnbody.hod.GRAND_HOD', 'fast_concatenate'), ('abacusnbody.hod.abacus_hod', '_searchsorted_parallel')],
    'C13': [('abacusnbody.analysis.power_spectrum', 'normalize_field'), ('abacusnbody.analysis.power_spectrum', '_normalize'),
            ('abacusnbody.analysis.power_spectrum', 'shift_field_fft')],
    'C17': [('abacusnbody.analysis.tsc', 'partition_parallel')],
}

WRITING_KERNELS = {'_tsc_scatter'}


class TieBroken(Exception):
    pass


class Unavailable(Exception):
    """the translator cannot interpret a store: no table, no verdict"""


def _src(modname, fname):
    mod = importlib.import_module(modname)
    fn = getattr(mod, fname)
    fn = getattr(fn, 'py_func', fn)
    return textwrap.dedent(inspect.getsource(fn))


def _is_prange(node):
    return (isinstance(node, ast.For) and isinstance(node.iter, ast.Call) and
            ((isinstance(node.iter.func, ast.Attribute) and node.iter.func.attr == 'prange') or
             (isinstance(node.iter.func, ast.Name) and node.iter.func.id == 'prange')))


def _name(n):
    return n.id if isinstance(n, ast.Name) else None


def _base_array(n):
    """a[...][...] -> 'a'"""
    while isinstance(n, ast.Subscript):
        n = n.value
    return _name(n)


def _first_index(sub):
    s = sub.slice
    if isinstance(s, ast.Tuple):
        s = s.elts[0]
    return s


def _mentions(node, var):
    return any(isinstance(x, ast.Name) and x.id == var for x in ast.walk(node))


def _block_range(for_node, X, aliases=None):
    """range(b[X], b[X+1]) -> 'block'; range(b[X-c], b[X+1-c]) -> 'block-shifted'; else None.
    `aliases` maps loop-local names assigned once from an expression to that expression (lo = b[X]; hi = b[X+1])."""
    it = for_node.iter
    if not (isinstance(it, ast.Call) and _name(it.func) == 'range' and len(it.args) == 2):
        return None
    lo, hi = it.args
    aliases = aliases or {}
    for _ in range(3):
        if isinstance(lo, ast.Call) and _name(lo.func) == 'int' and len(lo.args) == 1:
            lo = lo.args[0]
        if isinstance(hi, ast.Call) and _name(hi.func) == 'int' and len(hi.args) == 1:
            hi = hi.args[0]
        if _name(lo) in aliases:
            lo = aliases[_name(lo)]
        if _name(hi) in aliases:
            hi = aliases[_name(hi)]
    if not (isinstance(lo, ast.Subscript) and isinstance(hi, ast.Subscript)):
        return None
    if _base_array(lo) != _base_array(hi) or _base_array(lo) is None:
        return None
    li, hi_i = _first_index(lo), _first_index(hi)

    class _Subst(ast.NodeTransformer):
        def visit_Name(self, node):
            return aliases.get(node.id, node) if node.id != X else node
    for _ in range(2):      # tid2 = tid - Nthread1;  b[tid2], b[tid2 + 1]
        li = _Subst().visit(ast.parse(ast.unparse(li), mode='eval').body)
        hi_i = _Subst().visit(ast.parse(ast.unparse(hi_i), mode='eval').body)
    if _name(li) == X and isinstance(hi_i, ast.BinOp) and isinstance(hi_i.op, ast.Add) and \
            _name(hi_i.left) == X and isinstance(hi_i.right, ast.Constant) and hi_i.right.value == 1:
        return 'block'
    if _mentions(li, X) and _mentions(hi_i, X):
        # accept  b[X - c] .. b[X + 1 - c]  (same linear shift): the difference of the two index expressions is 1
        try:
            env = {X: 1000}
            names = {n.id for n in ast.walk(li) if isinstance(n, ast.Name)} | {n.id for n in ast.walk(hi_i) if isinstance(n, ast.Name)}
            for nm in names - {X}:
                env[nm] = 7
            a = eval(compile(ast.Expression(li), '<lo>', 'eval'), {}, env)
            b = eval(compile(ast.Expression(hi_i), '<hi>', 'eval'), {}, env)
            if b - a == 1:
                return 'block-shifted'
        except Exception:
            return None
    return None


def classify_function(modname, fname):
    tree = ast.parse(_src(modname, fname))
    fdef = tree.body[0]
    rows = []

    def visit_prange(loop):
        X = _name(loop.target)
        tid_vars, local_arrays, cursors, block_vars = set(), set(), set(), {}
        views = {}        # name -> 'loopvar' | 'tid': a row view  r = a[X] / a[tid]  that is subscripted later (r[k] = ...)
        subscripted = {_name(n.value) for n in ast.walk(loop) if isinstance(n, ast.Subscript) and _name(n.value)}
        # pass 1: loop-local definitions
        for node in ast.walk(loop):
            if isinstance(node, ast.Assign):
                for tgt in node.targets:
                    tg = [tgt] if not isinstance(tgt, ast.Tuple) else list(tgt.elts)
                    for t in tg:
                        nm = _name(t)
                        if nm is None:
                            continue
                        v = node.value
                        if isinstance(v, ast.Call) and isinstance(v.func, ast.Attribute) and v.func.attr == 'get_thread_id':
                            tid_vars.add(nm)
                        elif isinstance(v, ast.Subscript):
                            first = _first_index(v)
                            if _base_array(v) in views and not isinstance(first, ast.Slice):
                                cursors.add(nm)                 # dest = cursors_t[k]  (cursors_t a row view of this thread)
                            elif _mentions(v, X) or any(_mentions(v, tv) for tv in tid_vars) or any(_mentions(v, c) for c in cursors):
                                # a scalar/row/slice taken from a per-iteration position of an outer array
                                if isinstance(first, ast.Slice):
                                    local_arrays.add(nm)        # a view of a per-iteration slice (e.g. psort[starts[i]:starts[i+1]])
                                elif nm in subscripted and (_name(first) == X or _name(first) in tid_vars):
                                    # row view of the iteration's / thread's own row: counts_t = counts[t]; counts_t[k] += 1
                                    # (if `a` were 1-D, a[X] would be a scalar and subscripting it would not type-check)
                                    views[nm] = 'loopvar' if _name(first) == X else 'tid'
                                else:
                                    cursors.add(nm)             # e.g. j1, j2, j3 = gstart[tid];  s = pointers[t, k]
                            elif _base_array(v) in local_arrays:
                                local_arrays.add(nm)
                        elif isinstance(v, ast.Call) and isinstance(v.func, ast.Attribute) and v.func.attr in ('empty', 'zeros', 'argsort'):
                            local_arrays.add(nm)
                        elif isinstance(v, ast.Call) and isinstance(v.func, ast.Attribute) and _base_array(v.func.value) in local_arrays:
                            local_arrays.add(nm)                # e.g. iord = part[:, coord].argsort()
        aliases = {}
        assigned_counts = {}
        for node in ast.walk(loop):
            if isinstance(node, ast.Assign) and len(node.targets) == 1 and _name(node.targets[0]):
                nm = _name(node.targets[0])
                assigned_counts[nm] = assigned_counts.get(nm, 0) + 1
                aliases[nm] = node.value
            elif isinstance(node, ast.AugAssign) and _name(node.target):
                assigned_counts[_name(node.target)] = assigned_counts.get(_name(node.target), 0) + 2
        aliases = {k: v for k, v in aliases.items() if assigned_counts.get(k) == 1}
        nonblock_loop_vars = set()
        for node in ast.walk(loop):
            if isinstance(node, ast.For) and node is not loop:
                kind = _block_range(node, X, aliases)
                if kind:
                    block_vars[_name(node.target)] = kind
                elif _name(node.target) and _mentions(node.iter, X):
                    # an inner range that depends on the prange variable but is not a block of a boundary array:
                    # ranges of different iterations overlap in general
                    nonblock_loop_vars.add(_name(node.target))

        inner_loop_vars = {_name(n.target) for n in ast.walk(loop) if isinstance(n, ast.For) and _name(n.target)}

        def kind_of(sub):
            arr = _base_array(sub)
            if arr in local_arrays:
                return 'local'
            if arr in views:
                return views[arr]
            first = _first_index(sub)
            if isinstance(first, ast.Slice):
                return 'local' if arr in local_arrays else 'unknown'
            nm = _name(first)
            if nm == X:
                return 'loopvar'
            if nm in tid_vars:
                return 'tid'
            if nm in block_vars:
                return block_vars[nm]
            if nm in cursors:
                return 'cursor'
            # i + c / i - c with i private (prange variable or block variable) and c invariant in the loop nest:
            # distinct i give distinct cells, so the store is as private as i itself
            if isinstance(first, ast.BinOp) and isinstance(first.op, (ast.Add, ast.Sub)):
                for var_side, other in ((first.left, first.right), (first.right, first.left)):
                    if isinstance(first.op, ast.Sub) and var_side is first.right:
                        continue
                    v = _name(var_side)
                    inner = {X} | set(block_vars) | set(tid_vars) | set(cursors) | inner_loop_vars
                    if v is not None and not any(_mentions(other, w) for w in inner):
                        if v == X:
                            return 'loopvar'
                        if v in block_vars:
                            return 'block-shifted'
            # definitely shared: the cell does not depend on the iteration at all, or is indexed by an inner loop
            # variable whose range overlaps between iterations
            depends = {X} | set(block_vars) | set(tid_vars) | set(cursors) | inner_loop_vars
            if not any(_mentions(first, w) for w in depends):
                return 'shared'
            if nm in nonblock_loop_vars:
                return 'shared'
            return 'unknown'

        for node in ast.walk(loop):
            tgts = []
            if isinstance(node, ast.Assign):
                tgts = node.targets
            elif isinstance(node, ast.AugAssign):
                tgts = [node.target]
            for t in tgts:
                for el in ([t] if not isinstance(t, ast.Tuple) else t.elts):
                    if isinstance(el, ast.Subscript):
                        rows.append((fname, _base_array(el) or '?', kind_of(el), ast.unparse(el)[:60], node.lineno))
            if isinstance(node, ast.Expr) and isinstance(node.value, ast.Call):
                cn = _name(node.value.func)
                if cn in WRITING_KERNELS:
                    rows.append((fname, 'args of ' + cn, 'call:' + cn, ast.unparse(node.value)[:60].replace('\n', ' '), node.lineno))

    found = False
    for node in ast.walk(fdef):
        if _is_prange(node):
            found = True
            visit_prange(node)
    if not found:
        raise TieBroken('%s.%s: no prange loop found (the translator expects one)' % (modname, fname))
    return rows


def lean_str(s):
    return '"' + s.replace('\\', '\\\\').replace('"', '\\"') + '"'


def generate(pid, lean_dir):
    rows = []
    for modname, fname in TARGETS[pid]:
        rows += classify_function(modname, fname)
    unknown = [r for r in rows if r[2] == 'unknown']
    if unknown:
        raise Unavailable('; '.join('%s: %s (line %d)' % (r[0], r[3], r[4]) for r in unknown[:5]))
    # de-duplicate (function, array, kind), keep one source excerpt
    seen, uniq = set(), []
    for f, a, k, ex, ln in rows:
        if (f, a, k) not in seen:
            seen.add((f, a, k))
            uniq.append((f, a, k, ex))
    body = '\n'.join('  (%s, %s, %s)%s  -- %s' % (lean_str(f), lean_str(a), lean_str(k), ',' if n + 1 < len(uniq) else '',
                                                   ex.replace('\n', ' ')) for n, (f, a, k, ex) in enumerate(uniq))
    # the comment after the last entry must not swallow the closing bracket: put each entry on its own line and close after a newline
    text = ('/-\n  GENERATED by harness/extract/prange.py from /repo on every run of check %s — do not edit.\n'
            '  (function, written array, kind of the store target) for every store inside a numba.prange loop.\n-/\n'
            'namespace AbacusVerif.Prange%s\n\n'
            'def prangeWrites : List (String × String × String) := [\n%s\n]\n\n'
            'end AbacusVerif.Prange%s\n') % (pid, pid, body, pid)
    out = Path(lean_dir) / 'AbacusVerif' / 'Generated' / ('Prange%s.lean' % pid)
    if not out.exists() or out.read_text() != text:
        out.write_text(text)
    return uniq
