"""
Translator for C05 and C02:
/repo/abacusnbody/data/compaso_halo_catalog.py  ->  lean/AbacusVerif/Generated/Loaders.lean
                                                    lean/AbacusVerif/Generated/Dtypes.lean

Semantic, not textual.  `CompaSOHaloCatalog` is instantiated without `__init__`, given a header whose
`BoxSize` / `VelZSpace_to_kms` are *symbolic operands* and `convert_units = True`; the real
`_setup_halo_field_loaders()` builds the regex -> closure table; every closure is then executed, for
every column name of `user_dt`, `clean_dt_progen` (a superset of `clean_dt`) and `halo_lc_dt`, on
symbolic `raw` / `halos` tables.  While extracting, `np` in the module namespace is replaced by a proxy
that maps `sqrt`, `where`, `any`, `atleast_2d` to symbolic markers (any other numpy function applied to
a symbolic operand is *uninterpretable*), and `_unpack_euler16` by a marker returning three symbolic
axes.  Result per column: one expression tree, the raw and halo-column accesses exactly as the
dependency capture of `_get_halo_fields_dependencies` sees them (a `halos` table with no columns), and
for dict-returning loaders the column group.

Whatever cannot be interpreted raises `Uninterpretable`; `generate()` reports it through `tie(...)`
and still writes the table of the columns that did extract (the missing column then fails
`units_table` / the coverage check in Lean): nothing is skipped silently.

`validate_python()` re-runs every real closure (unpatched module) on random float64 tables and
compares with a direct evaluation of the extracted tree (sqrt compared squared, relative 1e-9).
The rendering into Lean and the Lean evaluator are validated by harness/props/c05.py through the
compiled driver (exact rationals).
"""
from __future__ import annotations

import importlib
import re
from fractions import Fraction
from pathlib import Path

import numpy as np

LOADERS_REL = Path('AbacusVerif') / 'Generated' / 'Loaders.lean'
DTYPES_REL = Path('AbacusVerif') / 'Generated' / 'Dtypes.lean'
MODNAME = 'abacusnbody.data.compaso_halo_catalog'
DT_TABLES = ('user_dt', 'clean_dt', 'clean_dt_progen', 'halo_lc_dt')


class Uninterpretable(Exception):
    pass


# --------------------------------------------------------------------------- symbolic operands

def _lift(x):
    if isinstance(x, Sym):
        return x.node
    if isinstance(x, (bool, np.bool_)):
        raise Uninterpretable('boolean operand %r' % (x,))
    if isinstance(x, (int, np.integer)):
        return ('const', Fraction(int(x)))
    if isinstance(x, (float, np.floating)):
        f = float(x)
        if f != f or f in (float('inf'), float('-inf')):
            raise Uninterpretable('non-finite constant %r' % (x,))
        return ('const', Fraction(*f.as_integer_ratio()))
    raise Uninterpretable('operand of type %s' % type(x).__name__)


class Sym:
    """symbolic array operand; numpy defers to its reflected operators (__array_ufunc__ = None)"""
    __array_ufunc__ = None
    __slots__ = ('node',)

    def __init__(self, node):
        object.__setattr__(self, 'node', node)

    def _bin(op):
        def f(self, other):
            return Sym((op, self.node, _lift(other)))
        return f

    def _rbin(op):
        def f(self, other):
            return Sym((op, _lift(other), self.node))
        return f

    __add__ = _bin('add')
    __radd__ = _rbin('add')
    __sub__ = _bin('sub')
    __rsub__ = _rbin('sub')
    __mul__ = _bin('mul')
    __rmul__ = _rbin('mul')
    __truediv__ = _bin('div')
    __rtruediv__ = _rbin('div')
    __mod__ = _bin('mod')
    del _bin, _rbin

    def __neg__(self):
        return Sym(('sub', ('const', Fraction(0)), self.node))

    def __pow__(self, n, modulo=None):
        if modulo is not None or isinstance(n, bool) or not isinstance(n, (int, np.integer)) or int(n) < 0:
            raise Uninterpretable('power with exponent %r' % (n,))
        return Sym(('pow', self.node, int(n)))

    def reshape(self, *shape):
        if len(shape) == 1 and isinstance(shape[0], tuple):
            shape = shape[0]
        if tuple(shape) != (-1, 1):
            raise Uninterpretable('reshape%r (only the column-broadcast reshape(-1, 1) is modelled)' % (tuple(shape),))
        return Sym(('bcast', self.node))

    def __getitem__(self, idx):
        if isinstance(idx, tuple) and len(idx) == 2 and idx[0] == slice(None) and idx[1] is None:
            return Sym(('bcast', self.node))
        raise Uninterpretable('indexing a symbolic column with %r' % (idx,))

    def __array_function__(self, func, types, args, kwargs):
        raise Uninterpretable('numpy function %s on a symbolic operand' % getattr(func, '__name__', func))

    def __getattr__(self, name):
        raise Uninterpretable('attribute .%s of a symbolic operand' % name)

    def __bool__(self):
        raise Uninterpretable('truth value of a symbolic operand (loader branches on data)')

    def __len__(self):
        raise Uninterpretable('len() of a symbolic operand')

    def __iter__(self):
        raise Uninterpretable('iteration over a symbolic operand')

    def _cmp(self, other):
        raise Uninterpretable('comparison of a symbolic operand')

    __lt__ = __le__ = __gt__ = __ge__ = _cmp
    __hash__ = None

    def __eq__(self, other):
        raise Uninterpretable('comparison of a symbolic operand')

    def __ne__(self, other):
        raise Uninterpretable('comparison of a symbolic operand')

    # every other arithmetic operator is uninterpretable rather than a TypeError that numpy might swallow
    def _unsupported(name):
        def f(self, *a):
            raise Uninterpretable('operator %s on a symbolic operand' % name)
        return f

    for _n in ('floordiv', 'rfloordiv', 'rmod', 'rpow', 'matmul', 'rmatmul', 'and', 'or', 'xor', 'rand', 'ror',
               'rxor', 'lshift', 'rshift', 'rlshift', 'rrshift', 'invert', 'abs', 'pos', 'divmod', 'rdivmod',
               'iadd', 'isub', 'imul', 'itruediv', 'ipow', 'imod'):
        locals()['__%s__' % _n] = _unsupported(_n)
    del _unsupported, _n


class SymTable:
    """symbolic `raw` / `halos` table: records the keys accessed, exposes `colnames`"""

    def __init__(self, kind, colnames):
        self.kind = kind
        self.keys = []
        self.colnames = list(colnames)

    def __getitem__(self, key):
        if not isinstance(key, str):
            raise Uninterpretable('%s[%r]: non-string key' % (self.kind, key))
        self.keys.append(key)
        return Sym((self.kind, key))

    def __getattr__(self, name):
        raise Uninterpretable('attribute .%s of the %s table' % (name, self.kind))


class SymHeader(dict):
    def __missing__(self, key):
        raise Uninterpretable('loader setup reads header[%r]' % (key,))


def _np_sqrt(x, *a, **k):
    if a or k:
        raise Uninterpretable('np.sqrt with extra arguments')
    if not isinstance(x, Sym):
        return np.sqrt(x)
    return Sym(('sqrt', x.node))


def _np_where(*a, **k):
    if k or len(a) != 3:
        raise Uninterpretable('np.where with %d positional / %d keyword arguments' % (len(a), len(k)))
    return Sym(('where', _lift(a[0]), _lift(a[1]), _lift(a[2])))


def _np_any(x, axis=None, **k):
    if k or axis != 1 or not isinstance(x, Sym):
        raise Uninterpretable('np.any(..., axis=%r, %r)' % (axis, k))
    return Sym(('anyrow', x.node))


def _np_atleast_2d(x, *more):
    if more or not isinstance(x, Sym):
        raise Uninterpretable('np.atleast_2d of %d operands' % (1 + len(more)))
    return Sym(('rows2d', x.node))


def _euler_marker(x):
    if not isinstance(x, Sym):
        raise Uninterpretable('_unpack_euler16 of a non-symbolic operand')
    return tuple(Sym(('euler', w, x.node)) for w in range(3))


class NpProxy:
    """stands in for `np` inside the module while the closures run on symbolic operands"""
    _marks = {'sqrt': _np_sqrt, 'where': _np_where, 'any': _np_any, 'atleast_2d': _np_atleast_2d}

    def __init__(self, real):
        object.__setattr__(self, '_real', real)

    def __getattr__(self, name):
        if name in NpProxy._marks:
            return NpProxy._marks[name]
        attr = getattr(self._real, name)
        if callable(attr) and not isinstance(attr, type):
            def guarded(*a, **k):
                def has_sym(v):
                    if isinstance(v, Sym):
                        return True
                    if isinstance(v, (list, tuple)):
                        return any(has_sym(w) for w in v)
                    return False
                if any(has_sym(v) for v in a) or any(has_sym(v) for v in k.values()):
                    raise Uninterpretable('np.%s on a symbolic operand' % name)
                return attr(*a, **k)
            return guarded
        return attr


# --------------------------------------------------------------------------- extraction

def module():
    return importlib.import_module(MODNAME)


def dtype_tables(mod=None):
    """{table: [(name, kind, bits, shape)]}"""
    mod = mod or module()
    out = {}
    for t in DT_TABLES:
        if not hasattr(mod, t):
            raise Uninterpretable('%s is no longer defined in compaso_halo_catalog' % t)
        dt = getattr(mod, t)
        if not isinstance(dt, np.dtype) or dt.names is None:
            raise Uninterpretable('%s is not a structured numpy dtype' % t)
        rows = []
        for n in dt.names:
            f = dt[n]
            base = f.base if f.subdtype is not None else f
            shape = tuple(int(s) for s in f.shape)
            if base.kind not in 'uif':
                raise Uninterpretable('%s[%r] has base kind %r' % (t, n, base.kind))
            rows.append((n, base.kind, base.itemsize * 8, shape))
        out[t] = rows
    return out


def column_universe(dts):
    names = []
    for t in ('user_dt', 'clean_dt_progen', 'clean_dt', 'halo_lc_dt'):
        for r in dts[t]:
            if r[0] not in names:
                names.append(r[0])
    return names


def make_stub(mod, box, vel, convert_units=True):
    cat = mod.CompaSOHaloCatalog.__new__(mod.CompaSOHaloCatalog)
    cat.header = SymHeader(BoxSize=box, VelZSpace_to_kms=vel) if isinstance(box, Sym) else \
        {'BoxSize': box, 'VelZSpace_to_kms': vel}
    cat.convert_units = convert_units
    cat._setup_halo_field_loaders()
    return cat


def find_loader(cat, field):
    """the `_load_halo_field` dispatch: exactly one regex must fullmatch"""
    hits = []
    for pat, fn in cat.halo_field_loaders.items():
        m = pat.fullmatch(field)
        if m:
            hits.append((m, fn))
    if len(hits) != 1:
        raise Uninterpretable('%d loaders match field %r' % (len(hits), field))
    return hits[0]


class _Patched:
    def __init__(self, mod):
        self.mod = mod

    def __enter__(self):
        self.saved = (self.mod.np, self.mod._unpack_euler16)
        self.mod.np = NpProxy(self.saved[0])
        self.mod._unpack_euler16 = _euler_marker

    def __exit__(self, *a):
        self.mod.np, self.mod._unpack_euler16 = self.saved


def _run(cat, field, colnames):
    m, fn = find_loader(cat, field)
    raw, halos = SymTable('raw', []), SymTable('halo', colnames)
    res = fn(m, raw, halos)
    if isinstance(res, dict):
        out = {}
        for k, v in res.items():
            if not isinstance(k, str):
                raise Uninterpretable('loader of %r returned a non-string key %r' % (field, k))
            out[k] = _lift(v)
        return out, raw.keys, halos.keys
    return _lift(res), raw.keys, halos.keys


def _strip(node, width):
    """drop the broadcasting markers; give `anyrow` the row width of the column it is computed for"""
    op = node[0]
    if op in ('bcast', 'rows2d'):
        return _strip(node[1], width)
    if op in ('raw', 'halo', 'const', 'BOX', 'VEL'):
        return node
    if op == 'pow':
        return ('pow', _strip(node[1], width), node[2])
    if op == 'euler':
        return ('euler', node[1], _strip(node[2], width))
    if op == 'anyrow':
        return ('anyrow', width, _strip(node[1], width))
    return (op,) + tuple(_strip(c, width) for c in node[1:])


def subst_units(node, box, vel):
    op = node[0]
    if op == 'BOX':
        return box
    if op == 'VEL':
        return vel
    if op in ('raw', 'halo', 'const'):
        return node
    if op == 'pow':
        return ('pow', subst_units(node[1], box, vel), node[2])
    if op == 'euler':
        return ('euler', node[1], subst_units(node[2], box, vel))
    if op == 'anyrow':
        return ('anyrow', node[1], subst_units(node[2], box, vel))
    return (op,) + tuple(subst_units(c, box, vel) for c in node[1:])


def fold_consts(node):
    """fold constant powers (Python evaluates `1.0**2` before the closure sees an operand)"""
    op = node[0]
    if op in ('raw', 'halo', 'const', 'BOX', 'VEL'):
        return node
    if op == 'pow':
        a = fold_consts(node[1])
        return ('const', a[1] ** node[2]) if a[0] == 'const' else ('pow', a, node[2])
    if op in ('euler', 'anyrow'):
        return (op, node[1], fold_consts(node[2]))
    return (op,) + tuple(fold_consts(c) for c in node[1:])


def refs(node, kind, acc=None):
    acc = [] if acc is None else acc
    if node[0] == kind:
        if node[1] not in acc:
            acc.append(node[1])
    elif node[0] not in ('const', 'BOX', 'VEL', 'raw', 'halo'):
        for c in node[1:]:
            if isinstance(c, tuple):
                refs(c, kind, acc)
    return acc


def extract_table(tie=None):
    """-> (dtypes, [entry]) ; entry = dict(name, expr, rawDeps, haloDeps, group, selfAlways, width)"""
    mod = module()
    dts = dtype_tables(mod)
    names = column_universe(dts)
    width = {}
    for t in DT_TABLES:
        for n, kind, bits, shape in dts[t]:
            w = 1
            for s in shape:
                w *= s
            if n in width and width[n] != w:
                raise Uninterpretable('column %r has different shapes in two dtype tables' % n)
            width[n] = w

    def problem(what, detail):
        if tie is None:
            raise Uninterpretable('%s: %s' % (what, detail))
        tie(what, detail)

    entries = []
    with _Patched(mod):
        try:
            cat = make_stub(mod, Sym(('BOX',)), Sym(('VEL',)), True)
            cat1 = make_stub(mod, 1.0, 1.0, False)
        except Uninterpretable as e:
            problem('loaders:setup', str(e))
            return dts, []
        for name in names:
            try:
                rA, rawA, haloA = _run(cat, name, [])
                rB, rawB, haloB = _run(cat, name, names)
                u, _, _ = _run(cat1, name, names)
                if isinstance(rB, dict) != isinstance(rA, dict):
                    raise Uninterpretable('returns a dict only for some `halos.colnames`')
                if isinstance(rB, dict):
                    if name not in rB:
                        raise Uninterpretable('dict-returning loader does not return its own field')
                    group = list(rB)
                    self_always = name in rA
                    for g in rA:
                        if g not in rB or rA[g] != rB[g]:
                            raise Uninterpretable('group member %r differs with `halos.colnames`' % g)
                    # one other member present: exactly that member (and self if self_always... or requested)
                    for g in group:
                        rC, _, _ = _run(cat, name, [g])
                        want = [x for x in group if x == g or (x == name and self_always)]
                        if list(rC) != want or any(rC[x] != rB[x] for x in want):
                            raise Uninterpretable('group loader is not "members present (+ self)": colnames=[%r] -> %r' % (g, list(rC)))
                    for g in group:
                        if g not in names:
                            raise Uninterpretable('group member %r is not a declared column' % g)
                    expr = rB[name]
                    uexpr = u[name] if isinstance(u, dict) else None
                    gexprs = {g: _strip(rB[g], width[g]) for g in group}
                else:
                    if rA != rB or rawA != rawB or haloA != haloB:
                        raise Uninterpretable('plain loader depends on `halos.colnames`')
                    group, self_always, expr, uexpr, gexprs = [], False, rB, u, {}
                if uexpr is None:
                    raise Uninterpretable('convert_units=False loader has another return type')
                one = ('const', Fraction(1))
                if fold_consts(subst_units(_strip(expr, width[name]), one, one)) != fold_consts(_strip(uexpr, width[name])):
                    raise Uninterpretable('the convert_units=False closure is not the BoxSize=VelZSpace_to_kms=1.0 instance '
                                          'of the convert_units=True closure')
                e = dict(name=name, expr=_strip(expr, width[name]), rawDeps=list(rawA), haloDeps=list(haloA),
                         group=group, selfAlways=bool(self_always), width=width[name], gexprs=gexprs,
                         rawAll=list(rawB), haloAll=list(haloB))
                for h in e['haloDeps'] + e['haloAll']:
                    if h not in names:
                        raise Uninterpretable('halo dependency %r is not a declared column' % h)
                entries.append(e)
            except Uninterpretable as ex:
                problem('loaders:column:%s' % name, str(ex))
            except Exception as ex:  # the closure itself failed on symbolic operands
                problem('loaders:column:%s' % name, 'closure raised %s: %s' % (type(ex).__name__, ex))
    byname = {e['name']: e for e in entries}
    for e in entries:
        for g in e['group']:
            o = byname.get(g)
            if o is None:
                continue
            if o['group'] != e['group'] or o['expr'] != e['gexprs'][g]:
                problem('loaders:group:%s' % e['name'],
                        'member %r computed by this loader differs from its own loader (group %r vs %r)' % (g, e['group'], o['group']))
    return dts, entries


# --------------------------------------------------------------------------- rendering

def _lstr(s):
    if not re.fullmatch(r'[A-Za-z0-9_]+', s):
        raise Uninterpretable('column name %r cannot be rendered' % s)
    return '"%s"' % s


def _llist(xs):
    return '[' + ', '.join(_lstr(x) for x in xs) + ']'


def render_expr(n):
    op = n[0]
    if op == 'raw':
        return '(.raw %s)' % _lstr(n[1])
    if op == 'halo':
        return '(.halo %s)' % _lstr(n[1])
    if op == 'const':
        q = n[1]
        num = str(q.numerator) if q.numerator >= 0 else '(%d)' % q.numerator
        return '(.const %s %d)' % (num, q.denominator)
    if op == 'BOX':
        return '.box'
    if op == 'VEL':
        return '.vel'
    if op in ('add', 'sub', 'mul', 'div', 'mod'):
        return '(.%s %s %s)' % (op, render_expr(n[1]), render_expr(n[2]))
    if op == 'pow':
        return '(.pow %s %d)' % (render_expr(n[1]), n[2])
    if op == 'sqrt':
        return '(.sqrt %s)' % render_expr(n[1])
    if op == 'where':
        return '(.wher %s %s %s)' % tuple(render_expr(c) for c in n[1:])
    if op == 'anyrow':
        return '(.anyrow %d %s)' % (n[1], render_expr(n[2]))
    if op == 'euler':
        return '(.euler %d %s)' % (n[1], render_expr(n[2]))
    raise Uninterpretable('cannot render node %r' % (op,))


def show_expr(n):
    """human-readable form (doc comments, reports)"""
    op = n[0]
    if op in ('raw', 'halo'):
        return '%s[%s]' % (op, n[1])
    if op == 'const':
        q = n[1]
        return str(q.numerator) if q.denominator == 1 else '%d/%d' % (q.numerator, q.denominator)
    if op in ('BOX', 'VEL'):
        return op
    sym = {'add': '+', 'sub': '-', 'mul': '*', 'div': '/', 'mod': '%'}
    if op in sym:
        return '(%s %s %s)' % (show_expr(n[1]), sym[op], show_expr(n[2]))
    if op == 'pow':
        return '%s^%d' % (show_expr(n[1]), n[2])
    if op == 'anyrow':
        return 'anyrow%d(%s)' % (n[1], show_expr(n[2]))
    if op == 'euler':
        return 'euler%d(%s)' % (n[1], show_expr(n[2]))
    return '%s(%s)' % (op, ', '.join(show_expr(c) for c in n[1:]))


def render_loaders(entries):
    L = ['/-',
         '  GENERATED by harness/extract/loaders.py by running the real loader closures of',
         '  abacusnbody/data/compaso_halo_catalog.py:_setup_halo_field_loaders (current /repo working tree) on',
         '  symbolic operands -- do not edit.  One entry per column of user_dt, clean_dt_progen, halo_lc_dt.',
         '  rawDeps / haloDeps: the accesses seen by the dependency capture (a `halos` table without columns),',
         '  in access order, duplicates kept.  group: the columns a dict-returning loader can fill.',
         '-/',
         'import AbacusVerif.Model.C05Expr',
         '',
         'namespace AbacusVerif.Loaders',
         'open AbacusVerif.Units',
         '']
    for e in entries:
        L.append('/-- `%s` = %s -/' % (e['name'], show_expr(e['expr'])))
        L.append('def ld_%s : Loader :=' % e['name'])
        L.append('  { name := %s' % _lstr(e['name']))
        L.append('    expr := %s' % render_expr(e['expr']))
        L.append('    rawDeps := %s' % _llist(e['rawDeps']))
        L.append('    haloDeps := %s' % _llist(e['haloDeps']))
        L.append('    group := %s' % _llist(e['group']))
        L.append('    selfAlways := %s' % ('true' if e['selfAlways'] else 'false'))
        L.append('    width := %d }' % e['width'])
        L.append('')
    L.append('def table : List Loader :=')
    L.append('  [' + ',\n   '.join('ld_%s' % e['name'] for e in entries) + ']')
    L.append('')
    L.append('end AbacusVerif.Loaders')
    L.append('')
    return '\n'.join(L)


def render_dtypes(dts):
    L = ['/-',
         '  GENERATED by harness/extract/loaders.py from the structured dtypes user_dt, clean_dt, clean_dt_progen,',
         '  halo_lc_dt of abacusnbody/data/compaso_halo_catalog.py (current /repo working tree) -- do not edit.',
         '  (name, base kind u/i/f, width in bits, sub-array shape)',
         '-/',
         'import AbacusVerif.Model.C05Expr',
         '',
         'namespace AbacusVerif.Dtypes',
         'open AbacusVerif.Units',
         '']
    for t in DT_TABLES:
        L.append('def %s : List (String × Dt) :=' % t)
        rows = ['(%s, ⟨.%s, %d, [%s]⟩)' % (_lstr(n), kind, bits, ', '.join(str(s) for s in shape))
                for n, kind, bits, shape in dts[t]]
        L.append('  [' + ',\n   '.join(rows) + ']')
        L.append('')
    L.append('end AbacusVerif.Dtypes')
    L.append('')
    return '\n'.join(L)


def _write_if_changed(path, text):
    path.parent.mkdir(parents=True, exist_ok=True)
    old = path.read_text() if path.exists() else None
    if old == text:
        return False
    tmp = path.with_suffix('.lean.tmp%d' % __import__('os').getpid())
    tmp.write_text(text)
    tmp.replace(path)
    return True


_CACHE = {}


def generate(lean_dir, tie=None):
    """regenerate both files (rewritten only when their content changes); returns (dtypes, entries)"""
    dts, entries = extract_table(tie)
    ch1 = _write_if_changed(Path(lean_dir) / DTYPES_REL, render_dtypes(dts))
    ch2 = _write_if_changed(Path(lean_dir) / LOADERS_REL, render_loaders(entries))
    _CACHE['last'] = (dts, entries)
    return dts, entries, (ch1 or ch2)


def extract(ctx):
    """the `extract(ctx)` of harness/props/c05.py and c02.py"""
    from vcommon import LEAN
    dts, entries, changed = generate(LEAN, tie=ctx.tie)
    universe = column_universe(dts)
    missing = [n for n in universe if n not in {e['name'] for e in entries}]
    ctx.extra['translator'] = {'columns_declared': len(universe), 'columns_extracted': len(entries),
                               'generated_files_changed': bool(changed)}
    if missing and not ctx.tie_broken:
        ctx.tie('loaders:missing', missing)
    validate_python(ctx, dts, entries)
    ctx.loader_table = (dts, entries)
    return dts, entries


# --------------------------------------------------------------------------- numeric validation

def eval_node(n, raw, halo, box, vel, euler):
    """direct float64 evaluation of a tree on whole columns (numpy broadcasting over the component axis)"""
    op = n[0]
    if op == 'raw':
        return raw[n[1]]
    if op == 'halo':
        return halo[n[1]]
    if op == 'const':
        return float(n[1])
    if op == 'BOX':
        return box
    if op == 'VEL':
        return vel
    if op == 'pow':
        return eval_node(n[1], raw, halo, box, vel, euler) ** n[2]
    if op == 'euler':
        return euler(eval_node(n[2], raw, halo, box, vel, euler))[n[1]]
    if op == 'anyrow':
        v = np.asarray(eval_node(n[2], raw, halo, box, vel, euler))
        assert v.ndim == 2 and v.shape[1] == n[1], ('anyrow width', v.shape, n[1])
        return np.any(v != 0, axis=1)[:, None]
    a = [eval_node(c, raw, halo, box, vel, euler) for c in n[1:]]

    if op in ('add', 'sub', 'mul', 'div', 'mod'):
        x, y = a
        x, y = np.asarray(x, dtype=np.float64), np.asarray(y, dtype=np.float64)
        if x.ndim == 1 and y.ndim == 2:
            x = x[:, None]
        if y.ndim == 1 and x.ndim == 2:
            y = y[:, None]
        if op == 'add':
            return x + y
        if op == 'sub':
            return x - y
        if op == 'mul':
            return x * y
        if op == 'div':
            return x / y
        return x - y * np.floor(x / y)
    if op == 'sqrt':
        return np.sqrt(a[0])
    if op == 'where':
        return np.where(np.asarray(a[0]) != 0, a[1], a[2])
    raise Uninterpretable('cannot evaluate %r' % (op,))


def random_raw(rng, names_shapes, n):
    """float64 stand-ins of the raw columns with exactly representable values"""
    raw = {}
    for name, w in names_shapes.items():
        shape = (n,) if w == 1 else (n, w)
        if name.endswith('_i16'):
            v = rng.integers(-12000, 12001, shape).astype(np.float64)
        elif name.endswith('_u16'):
            v = rng.integers(0, 12 * 121 * 45, shape).astype(np.float64)
        elif name == 'origin':
            v = rng.integers(0, 9, shape).astype(np.float64)
        else:
            v = rng.integers(1, 200, shape) / 16.0
        if name in ('pos_avg',):
            v[rng.random(n) < 0.4] = 0.0
            if n > 2:
                v[1] = 0.0
                v[2] = [0.0, 0.0, 1.5][:w] if w == 3 else v[2]
        raw[name] = v
    return raw


def raw_widths(entries):
    """component count of every raw column that appears in a tree: that of the declared column of the same
    name (without the `_i16` suffix) if there is one, else 1 (codes, ratios to another column)"""
    width = {e['name']: e['width'] for e in entries}
    out = {}
    for e in entries:
        for r in list(e['rawDeps']) + list(e['rawAll']) + refs(e['expr'], 'raw'):
            base = r[:-4] if r.endswith('_i16') else r
            out[r] = width.get(base, 1)
    return out


def validate_python(ctx, dts, entries, n=7):
    """real closures (unpatched module, float64 tables) vs direct evaluation of the extracted trees"""
    mod = module()
    rng = np.random.default_rng(12345 + int(getattr(ctx, 'seed', 0)))
    box, vel = 96.0, 40.0
    cat = make_stub(mod, box, vel, True)
    rw = raw_widths(entries)
    raw = random_raw(rng, rw, n)
    byname = {e['name']: e for e in entries}
    names = [e['name'] for e in entries]

    class T(dict):
        colnames = names

    real, tree = T(), {}

    def compute(name, depth=0):
        if name in real:
            return
        if depth > 20:
            raise Uninterpretable('halo dependencies of %r do not terminate' % name)
        e = byname[name]
        for h in e['haloAll']:
            compute(h, depth + 1)
        m, fn = find_loader(cat, name)
        with np.errstate(all='ignore'):
            res = fn(m, raw, real)
            res = res[name] if isinstance(res, dict) else res
            real[name] = np.asarray(res, dtype=np.float64)
            tree[name] = np.asarray(eval_node(e['expr'], raw, real, box, vel, mod._unpack_euler16), dtype=np.float64)

    bad = 0
    for name in names:
        try:
            compute(name)
        except Exception as ex:
            ctx.tie('loaders:validate:%s' % name, '%s: %s' % (type(ex).__name__, ex))
            bad += 1
            continue
        a, b = real[name], np.broadcast_to(tree[name], real[name].shape) if tree[name].shape != real[name].shape else tree[name]
        e = byname[name]
        if e['expr'][0] == 'sqrt':
            a, b = a * a, b * b
        ok = a.shape == b.shape and np.all((np.isnan(a) & np.isnan(b)) | (np.abs(a - b) <= 1e-9 * (1 + np.abs(a) + np.abs(b))))
        if a.ndim == 1 and e['width'] != 1 or a.ndim == 2 and a.shape[1] != e['width']:
            ok = False
        if not ok:
            ctx.tie('loaders:validate:%s' % name, {'closure': a.tolist()[:3], 'tree': b.tolist()[:3], 'expr': show_expr(e['expr'])})
            bad += 1
        ctx.count('translator:python-validated')
    return bad == 0
