"""
Translator  /repo/abacusnbody/data/bitpacked.py  ->  lean/AbacusVerif/Generated/BitConsts.lean

Two kinds of facts are extracted from the module *as imported from the current working tree*:

1. the module constants AUXDENS, ZERODEN, AUXXPID, AUXYPID, AUXZPID, AUXPID, AUXTAGGED, PID_FIELDS
   (read as values, whatever expression produced them);
2. the literals that live *inside* the kernels (rvint shift / velocity mask / velocity offset /
   velocity scale / position divisor; the Lagrangian-index shifts, the tagged mask), obtained
   semantically by running `_unpack_rvint.py_func` / `_unpack_pids.py_func` on basis words
   (one bit set at a time, plus the zero word) and solving for the constants.  The probe only
   *interprets* the response; it never assumes the documented values.  If the response is not of
   the form the Lean model is parametrised by (e.g. a weight that is not a power of two), the
   extractor raises TieBroken, which vcommon reports as a broken tie.

That the kernels really are the functions `(w & mask) >> shift` etc. on *all* words (not only on basis
words) is the business of the correspondence check in harness/props/c04.py, not of this file.
"""
from __future__ import annotations

from fractions import Fraction
from pathlib import Path

import numpy as np

VERIF = Path(__file__).resolve().parent.parent.parent
OUT = VERIF / 'lean' / 'AbacusVerif' / 'Generated' / 'BitConsts.lean'


class TieBroken(Exception):
    pass


def _u64(x, name):
    if isinstance(x, (bool, np.bool_)) or not isinstance(x, (int, np.integer)):
        raise TieBroken('%s is %r (%s), not an integer' % (name, x, type(x).__name__))
    v = int(x)
    if not (0 <= v < 2 ** 64):
        raise TieBroken('%s = %d does not fit uint64' % (name, v))
    return v


def _log2_exact(x, what):
    """x must be a positive power of two (given as int or Fraction); returns the exponent (may be negative)"""
    f = Fraction(x)
    if f <= 0:
        raise TieBroken('%s: weight %s is not positive' % (what, f))
    if f.numerator == 1:
        d, e = f.denominator, 0
        while d > 1 and d % 2 == 0:
            d //= 2
            e -= 1
        if d == 1:
            return e
    if f.denominator == 1:
        n, e = f.numerator, 0
        while n > 1 and n % 2 == 0:
            n //= 2
            e += 1
        if n == 1:
            return e
    raise TieBroken('%s: weight %s is not a power of two' % (what, f))


def read_module_consts(bp):
    c = {}
    for n in ('AUXDENS', 'ZERODEN', 'AUXXPID', 'AUXYPID', 'AUXZPID', 'AUXPID', 'AUXTAGGED'):
        if not hasattr(bp, n):
            raise TieBroken('bitpacked.%s is missing' % n)
        c[n] = _u64(getattr(bp, n), n)
    pf = getattr(bp, 'PID_FIELDS', None)
    if not isinstance(pf, (list, tuple)) or not all(isinstance(s, str) for s in pf):
        raise TieBroken('bitpacked.PID_FIELDS is %r, not a list of strings' % (pf,))
    for s in pf:
        if not s.isidentifier():
            raise TieBroken('PID_FIELDS entry %r is not an identifier' % s)
    c['PID_FIELDS'] = list(pf)
    return c


def probe_rvint(bp):
    """solve for the literals of `_unpack_rvint` from its response to the zero word and the 32 basis words"""
    f = bp._unpack_rvint.py_func
    basis = [0] + [1 << b for b in range(32)]
    words = np.array(basis, dtype=np.uint32).view(np.int32)
    n = len(words)
    data = np.zeros((n, 3), dtype=np.int32)
    data[:, 0] = words
    data[:, 1] = words
    data[:, 2] = words
    # --- position divisor: posscale(box) = box / D.  Find D with box=1, then confirm that box=D gives scale 1 exactly.
    pos1 = np.full((n, 3), np.nan)
    vel = np.full((n, 3), np.nan)
    f(data, 1.0, pos1, vel)
    for a in (pos1, vel):
        if not (np.all(a[:, 0] == a[:, 1]) and np.all(a[:, 0] == a[:, 2])) or not np.all(np.isfinite(a)):
            raise TieBroken('rvint probe: the three components do not decode identically / non-finite output')
    nz = [b for b in range(32) if pos1[1 + b, 0] != pos1[0, 0]]
    if pos1[0, 0] != 0.0 or not nz:
        raise TieBroken('rvint probe: position of the zero word is %r, responding bits %r' % (pos1[0, 0], nz))
    shift = nz[0]
    D = round(1.0 / float(pos1[1 + shift, 0]))
    if D <= 0:
        raise TieBroken('rvint probe: position divisor %r' % D)
    posD = np.full((n, 3), np.nan)
    f(data, float(D), posD, None)
    if posD[1 + shift, 0] != 1.0:
        raise TieBroken('rvint probe: box=%d does not give unit position scale (got %r)' % (D, posD[1 + shift, 0]))
    # with box = D every position is an exact integer: weights of the bits
    wts = [Fraction(float(posD[1 + b, 0])) for b in range(32)]
    if any(w != 0 for w in wts[:shift]):
        raise TieBroken('rvint probe: bits below the shift respond')
    for b in range(shift, 31):
        if wts[b] != 2 ** (b - shift):
            raise TieBroken('rvint probe: position weight of bit %d is %s, expected 2^%d' % (b, wts[b], b - shift))
    top = wts[31]
    if top.denominator != 1 or abs(top) != 2 ** (31 - shift):
        raise TieBroken('rvint probe: position weight of bit 31 is %s' % top)
    # --- velocity: vel(w) = ((w & mask) - off) * scale
    v0 = Fraction(float(vel[0, 0]))
    resp = [b for b in range(32) if vel[1 + b, 0] != vel[0, 0]]
    if not resp:
        raise TieBroken('rvint probe: no bit changes the velocity')
    lo = resp[0]
    scale = (Fraction(float(vel[1 + lo, 0])) - v0) / 2 ** lo
    if scale == 0:
        raise TieBroken('rvint probe: zero velocity scale')
    mask = 0
    for b in resp:
        wgt = (Fraction(float(vel[1 + b, 0])) - v0) / scale
        if wgt != 2 ** b:
            raise TieBroken('rvint probe: velocity weight of bit %d is %s, expected 2^%d' % (b, wgt, b))
        mask |= 1 << b
    off = -v0 / scale
    if off.denominator != 1 or off < 0:
        raise TieBroken('rvint probe: velocity offset %s is not a natural number' % off)
    return dict(rvShift=shift, rvPosDen=D, rvPosTopBit=int(top), rvVelMask=mask, rvVelOffset=int(off),
                rvVelScaleNum=scale.numerator, rvVelScaleDen=scale.denominator)


def probe_pids(bp):
    """solve for the shifts of the Lagrangian index fields and the tagged mask from basis words"""
    f = bp._unpack_pids.py_func
    basis = [0] + [1 << b for b in range(64)]
    packed = np.array(basis, dtype=np.uint64)
    n = len(packed)
    lagr_idx = np.full((n, 3), -1, dtype=np.int64)   # wide on purpose: observe the value before any int16 store
    tagged = np.full(n, -1, dtype=np.int64)
    f(packed, 1.0, 1, lagr_idx=lagr_idx, tagged=tagged, float_dtype=np.float64)
    out = {}
    # density = (field) ** densExp : solve the exponent from the field values 2 and 3
    zd = _u64(bp.ZERODEN, 'ZERODEN')
    if zd + 2 < 64:
        dw = np.array([0, 1 << zd, 2 << zd, 3 << zd], dtype=np.uint64)
        dens = np.full(4, np.nan)
        f(dw, 1.0, 1, density=dens, float_dtype=np.float64)
        if dens[0] != 0 or dens[1] != 1:
            raise TieBroken('pid probe: density of field values 0, 1 is %r, %r' % (dens[0], dens[1]))
        e = _log2_exact(Fraction(float(dens[2])), 'density(2)')
        if e < 1 or Fraction(float(dens[3])) != 3 ** e:
            raise TieBroken('pid probe: density of field values 2, 3 is %r, %r: not a power law' % (dens[2], dens[3]))
        out['densExp'] = e
    else:
        raise TieBroken('pid probe: ZERODEN = %d leaves no room for a density field' % zd)
    for k, nm in enumerate('XYZ'):
        col = lagr_idx[:, k]
        if col[0] != 0:
            raise TieBroken('pid probe: lagr_idx[%s] of the zero word is %d' % (nm, col[0]))
        resp = [b for b in range(64) if col[1 + b] != 0]
        if not resp:
            raise TieBroken('pid probe: no bit changes lagr_idx[%s]' % nm)
        sh = resp[0] - _log2_exact(int(col[1 + resp[0]]), 'lagr_idx[%s]' % nm)
        if sh < 0:
            raise TieBroken('pid probe: lagr_idx[%s] is shifted left' % nm)
        m = 0
        for b in resp:
            if int(col[1 + b]) != 2 ** (b - sh):
                raise TieBroken('pid probe: lagr_idx[%s] weight of bit %d is %d' % (nm, b, col[1 + b]))
            m |= 1 << b
        out['lagrShift' + nm] = sh
        out['lagrMaskProbed' + nm] = m
    if tagged[0] != 0:
        raise TieBroken('pid probe: tagged of the zero word is %d' % tagged[0])
    resp = [b for b in range(64) if tagged[1 + b] != 0]
    if not resp:
        raise TieBroken('pid probe: no bit changes tagged')
    # tagged = (w >> AUXTAGGED) & tagMask : the responding bits, re-based at the lowest one
    base = resp[0] - _log2_exact(int(tagged[1 + resp[0]]), 'tagged')
    tm = 0
    for b in resp:
        if int(tagged[1 + b]) != 2 ** (b - base):
            raise TieBroken('pid probe: tagged weight of bit %d is %d' % (b, tagged[1 + b]))
        tm |= 1 << (b - base)
    out['tagShiftProbed'] = base
    out['tagMask'] = tm
    return out


def extract_all():
    import abacusnbody.data.bitpacked as bp
    c = read_module_consts(bp)
    c.update(probe_rvint(bp))
    p = probe_pids(bp)
    # the probed masks must be the module constants (the kernel must be using them)
    for nm in 'XYZ':
        if p['lagrMaskProbed' + nm] != c['AUX%sPID' % nm]:
            raise TieBroken('lagr_idx[%s] responds to bits %#x but AUX%sPID = %#x' %
                            (nm, p['lagrMaskProbed' + nm], nm, c['AUX%sPID' % nm]))
    if p['tagShiftProbed'] != c['AUXTAGGED']:
        raise TieBroken('tagged responds from bit %d but AUXTAGGED = %d' % (p['tagShiftProbed'], c['AUXTAGGED']))
    for k in ('lagrShiftX', 'lagrShiftY', 'lagrShiftZ', 'tagMask', 'densExp'):
        c[k] = p[k]
    for k in ('ZERODEN', 'AUXTAGGED', 'lagrShiftX', 'lagrShiftY', 'lagrShiftZ', 'rvShift'):
        if c[k] >= 64:
            raise TieBroken('%s = %d: shift amount is not below the word width' % (k, c[k]))
    return c


def render(c):
    L = []
    a = L.append
    a('/-')
    a('  GENERATED by harness/extract/bitconsts.py from the imported module abacusnbody.data.bitpacked')
    a('  (current working tree of /repo) — do not edit.  Module constants are read as values; the literals')
    a('  inside `_unpack_rvint` / `_unpack_pids` are solved from the response of their `py_func` to basis words.')
    a('-/')
    a('namespace AbacusVerif.BitConsts')
    a('')
    a('/-! module constants of bitpacked.py -/')
    for n in ('AUXDENS', 'ZERODEN', 'AUXXPID', 'AUXYPID', 'AUXZPID', 'AUXPID', 'AUXTAGGED'):
        v = c[n]
        a('def %s : Nat := %s' % (n, ('0x%X' % v) if v > 4096 else str(v)))
    a('def PID_FIELDS : List String := [%s]' % ', '.join('"%s"' % s for s in c['PID_FIELDS']))
    a('')
    a('/-! literals inside `_unpack_pids` (probed) -/')
    for n in ('lagrShiftX', 'lagrShiftY', 'lagrShiftZ', 'tagMask', 'densExp'):
        a('def %s : Nat := %d' % (n, c[n]))
    a('')
    a('/-! literals inside `_unpack_rvint` (probed): pos = (w >> rvShift) * box / rvPosDen,')
    a('    vel = ((w & rvVelMask) - rvVelOffset) * rvVelScaleNum / rvVelScaleDen;')
    a('    rvPosTopBit is the (unscaled) position decoded from the word 0x80000000 -/')
    a('def rvShift : Nat := %d' % c['rvShift'])
    a('def rvPosDen : Nat := %d' % c['rvPosDen'])
    a('def rvPosTopBit : Int := %d' % c['rvPosTopBit'])
    a('def rvVelMask : Nat := 0x%X' % c['rvVelMask'])
    a('def rvVelOffset : Nat := %d' % c['rvVelOffset'])
    a('def rvVelScaleNum : Nat := %d' % c['rvVelScaleNum'])
    a('def rvVelScaleDen : Nat := %d' % c['rvVelScaleDen'])
    a('')
    a('end AbacusVerif.BitConsts')
    return '\n'.join(L) + '\n'


def regenerate():
    """returns (constants, changed)"""
    c = extract_all()
    txt = render(c)
    old = OUT.read_text() if OUT.exists() else None
    changed = old != txt
    if changed:
        OUT.parent.mkdir(parents=True, exist_ok=True)
        tmp = OUT.with_suffix('.lean.tmp%d' % __import__('os').getpid())
        tmp.write_text(txt)
        tmp.replace(OUT)
    return c, changed


if __name__ == '__main__':
    import sys
    sys.path[:0] = [str(VERIF / 'harness')]
    import vcommon
    vcommon.setup_import_path()
    consts, ch = regenerate()
    print('changed' if ch else 'unchanged', consts)
