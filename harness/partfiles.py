"""Synthetic Abacus particle files (uncompressed ASDF) for the reader properties (C16).

Deliberately dumb: writes the arrays it is given (and that the caller keeps in memory) under
``tree[data_key][colname]`` next to a header dict under ``tree[header_key]``.  The raw-array generators
produce structurally valid RVint words, pack9 record streams and packed PID/aux words.
"""
import numpy as np

KNOWN_KEYS = ['rvint', 'pack9', 'packedpid', 'pid']


def snapshot_header(box=1000.0, ppd=64.0, velz=1234.5):
    return {'BoxSize': float(box), 'VelZSpace_to_kms': float(velz), 'ppd': float(ppd), 'OutputType': 'TimeSlice',
            'SimSet': 'AbacusSummit', 'SimName': 'verif_synth', 'Redshift': 0.5,
            'ParticleSubsampleA': 0.03, 'ParticleSubsampleB': 0.07, 'NP': int(round(ppd)) ** 3}


def lightcone_header(box=1000.0, ppd=64.0, velz=1234.5, simset='AbacusSummit'):
    h = snapshot_header(box, ppd, velz)
    h['OutputType'] = 'LightCone'
    h['SimSet'] = simset
    h['LightConeOrigins'] = [-990.0, -990.0, -990.0]
    return h


def bare_header(box=1000.0, ppd=64.0, velz=1234.5):
    """no OutputType key at all"""
    return {'BoxSize': float(box), 'VelZSpace_to_kms': float(velz), 'ppd': float(ppd)}


def gen_rvint(rng, n):
    """(n, 3) int32: signed 20-bit position in the upper bits, biased 12-bit velocity in the lower"""
    pos = rng.integers(-2 ** 19, 2 ** 19, (n, 3), dtype=np.int64)
    vel = rng.integers(0, 4096, (n, 3), dtype=np.int64)
    w = (pos << 12) | vel          # in [-2^31, 2^31)
    return w.astype(np.int32)


def _enc9(f):
    out = []
    for a, b in ((f[0], f[1]), (f[2], f[3]), (f[4], f[5])):
        qa, ra = divmod(int(a), 16)
        qb, rb = divmod(int(b), 256)
        out += [qa, qb * 16 + ra, rb]
    return out


def gen_pack9(rng, n, header_prob=0.25, cpd=None):
    """(n, 9) uint8 record stream: starts with a cell header (when n > 0), then particles and more headers
    (consecutive headers allowed).  Returns (data, number of particle records)."""
    cpd = int(cpd or rng.choice([3, 16, 125, 405]))
    recs = []
    npart = 0
    for i in range(n):
        if i == 0 or rng.random() < header_prob:
            cell = rng.integers(0, cpd, 3)
            recs.append(_enc9([0xFF0 + int(rng.integers(0, 16)), cpd + 48, int(rng.integers(49, 4096))] +
                              [int(c) + 48 for c in cell]))
        else:
            recs.append(_enc9([int(v) + 2048 for v in rng.integers(-1000, 1001, 3)] +
                              [int(v) + 2048 for v in rng.integers(-2000, 2001, 3)]))
            npart += 1
    return np.array(recs, dtype=np.uint8).reshape(n, 9), npart


def gen_pid(rng, n, ppd=64):
    """(n,) uint64 aux words: three 15-bit Lagrangian indices below ppd at bits 0/16/32, tagged bit 48,
    10-bit density at 49, random junk in the unused bits 15, 31, 47, 59..63"""
    ijk = rng.integers(0, int(ppd), (n, 3), dtype=np.uint64)
    tag = rng.integers(0, 2, n, dtype=np.uint64)
    den = rng.integers(0, 1024, n, dtype=np.uint64)
    junk = rng.integers(0, 2, (n, 4), dtype=np.uint64)
    w = (ijk[:, 0] | (ijk[:, 1] << np.uint64(16)) | (ijk[:, 2] << np.uint64(32)) | (tag << np.uint64(48)) |
         (den << np.uint64(49)) | (junk[:, 0] << np.uint64(15)) | (junk[:, 1] << np.uint64(31)) |
         (junk[:, 2] << np.uint64(47)) | (junk[:, 3] << np.uint64(63)))
    return w.astype(np.uint64)


def gen_raw(rng, key, n, ppd=64):
    """raw column for a known key -> (array, number of particles it holds)"""
    if key == 'rvint':
        return gen_rvint(rng, n), n
    if key == 'pack9':
        return gen_pack9(rng, n)
    if key in ('packedpid', 'pid'):
        return gen_pid(rng, n, ppd), n
    raise ValueError(key)


def write_particle_file(fn, header, data_cols, data_key='data', header_key='header'):
    """write {header_key: header, data_key: {name: array}} as an uncompressed ASDF file"""
    import asdf
    tree = {header_key: dict(header), data_key: {k: np.ascontiguousarray(v) for k, v in data_cols.items()}}
    af = asdf.AsdfFile(tree)
    af.write_to(str(fn), all_array_compression=None)
    return fn
