"""
Synthetic inputs for the HOD galaxy generators (abacusnbody.hod.GRAND_HOD.gen_gal_cat), used by C10.

Everything `gen_gals` reads is built here as plain in-memory arrays (float64 / int64, C order; the
array *types* never change between cases so numba compiles each kernel once per run):

  halo_data      hpos hvel hmass hid hmultis hrandoms hveldev hdeltac hfenv hshear
  particle_data  ppos pvel phvel phmass phid pweights prandoms pdeltac pfenv pshear
                 pranks pranksv pranksp pranksr pranksc pinds
  tracers        {'LRG': {...}, 'ELG': {...}, 'QSO': {...}} (any non-empty subset)
  params         z velz2kms Lbox origin Mpart chunk

Placement is made observable: every halo and every particle has a unique `x` coordinate (halo i:
-400 + i, particle p: 100.25 + p/4 — disjoint ranges, exactly representable), halo ids are unique, and
all velocities are small integers or quarters so that the velocity-bias expressions are exact in
float64 (no dependence on fastmath contraction).
"""
import numpy as np

TRACERS = ('LRG', 'ELG', 'QSO')
SUBSETS = [s for s in (
    ('LRG',), ('ELG',), ('QSO',), ('LRG', 'ELG'), ('LRG', 'QSO'), ('ELG', 'QSO'), ('LRG', 'ELG', 'QSO'))]

LBOX = 1024.0
VELZ2KMS = 128.0


def halo_x(i):
    return -400.0 + np.asarray(i, dtype=np.float64)


def part_x(p):
    return 100.25 + np.asarray(p, dtype=np.float64) / 4.0


def make_tracers(subset, rng=None, variant=0):
    """HOD parameter dictionaries (floats only: gen_gals copies them into float64 typed dicts).
    The values give every tracer a substantial occupation over the mass range of `make_tables`,
    so that all four keep codes occur."""
    lrg = dict(logM_cut=12.8, logM1=13.4, sigma=0.6, alpha=1.0, kappa=0.3,
               alpha_c=0.0, alpha_s=1.0, s=0.0, s_v=0.0, s_p=0.0, s_r=0.0, ic=0.8)
    elg = dict(p_max=0.6, Q=50.0, logM_cut=12.0, kappa=0.5, sigma=0.9, logM1=13.0, alpha=0.8, gamma=1.5,
               A_s=1.0, alpha_c=0.0, alpha_s=1.0, s=0.0, s_v=0.0, s_p=0.0, s_r=0.0, ic=1.0)
    qso = dict(logM_cut=12.6, kappa=0.4, sigma=0.7, logM1=13.6, alpha=0.9,
               alpha_c=0.0, alpha_s=1.0, s=0.0, s_v=0.0, s_p=0.0, s_r=0.0, ic=0.7)
    if variant == 1:
        # velocity bias with exactly representable factors, assembly bias, ranks decorations, conformity
        lrg.update(alpha_c=0.5, alpha_s=0.75, Acent=0.25, Bcent=-0.125, Asat=0.125, Bsat=0.25, s=0.25, s_v=-0.125)
        elg.update(alpha_c=0.25, alpha_s=1.5, Acent=-0.25, Bsat=0.125, Ccent=0.125, Csat=-0.25, s_p=0.25,
                   logM1_EE=12.5, alpha_EE=0.7, logM1_EL=13.5, alpha_EL=0.9)
        qso.update(alpha_c=2.0, alpha_s=0.5, Bcent=0.25, Asat=-0.125, s_r=0.125)
    allt = {'LRG': lrg, 'ELG': elg, 'QSO': qso}
    return {t: dict(allt[t]) for t in TRACERS if t in subset}


def make_params(origin=None):
    return {'z': 0.5, 'velz2kms': VELZ2KMS, 'Lbox': LBOX, 'origin': origin, 'Mpart': 2.109e9, 'chunk': -1}


def make_tables(rng, H, P, boundary_randoms=True):
    """halo table of H rows and particle table of P rows (P must be 0 when H is 0)"""
    assert H > 0 or P == 0
    f8 = np.float64
    hpos = np.empty((H, 3), dtype=f8)
    hpos[:, 0] = halo_x(np.arange(H))
    hpos[:, 1] = rng.integers(-1600, 1600, H) / 4.0
    hpos[:, 2] = rng.integers(-2048, 2048, H) / 4.0
    hvel = rng.integers(-600, 601, (H, 3)).astype(f8)
    hveldev = rng.integers(-40, 41, (H, 3)).astype(f8)
    hmass = 10.0 ** rng.uniform(11.5, 14.5, H)
    hid = (1000 + 3 * rng.permutation(H)).astype(np.int64)          # unique, unordered
    hmultis = np.ones(H, dtype=f8)
    hrandoms = rng.uniform(0.0, 1.0, H)
    if boundary_randoms and H:
        k = rng.integers(0, H, max(1, H // 6))
        hrandoms[k] = rng.choice([0.0, 1.0, 2.0, 1e-9], len(k))
    halo = dict(hpos=hpos, hvel=hvel, hmass=hmass, hid=hid, hmultis=hmultis, hrandoms=hrandoms,
                hveldev=hveldev,
                hdeltac=rng.integers(-4, 5, H) / 4.0, hfenv=rng.integers(-4, 5, H) / 4.0,
                hshear=rng.integers(-4, 5, H) / 4.0)
    pinds = np.sort(rng.integers(0, max(H, 1), P)).astype(np.int64) if P else np.zeros(0, dtype=np.int64)
    ppos = np.empty((P, 3), dtype=f8)
    ppos[:, 0] = part_x(np.arange(P))
    ppos[:, 1] = rng.integers(-1600, 1600, P) / 4.0
    ppos[:, 2] = rng.integers(-2048, 2048, P) / 4.0
    pvel = rng.integers(-600, 601, (P, 3)).astype(f8)
    prandoms = rng.uniform(0.0, 1.0, P)
    if boundary_randoms and P:
        k = rng.integers(0, P, max(1, P // 8))
        prandoms[k] = rng.choice([0.0, 1.0, 2.0, 1e-9], len(k))
    part = dict(ppos=ppos, pvel=pvel, phvel=hvel[pinds].copy(), phmass=hmass[pinds].copy(),
                phid=hid[pinds].copy(), pweights=rng.integers(1, 17, P) / 16.0, prandoms=prandoms,
                pdeltac=halo['hdeltac'][pinds].copy(), pfenv=halo['hfenv'][pinds].copy(),
                pshear=halo['hshear'][pinds].copy(),
                pranks=rng.integers(-4, 5, P) / 4.0, pranksv=rng.integers(-4, 5, P) / 4.0,
                pranksp=rng.integers(-4, 5, P) / 4.0, pranksr=rng.integers(-4, 5, P) / 4.0,
                pranksc=rng.integers(-4, 5, P) / 4.0, pinds=pinds)
    for d in (halo, part):
        for k, v in d.items():
            d[k] = np.ascontiguousarray(v)
            assert d[k].dtype in (np.float64, np.int64), (k, d[k].dtype)
    return halo, part


def copy_tables(halo, part):
    return ({k: v.copy() for k, v in halo.items()}, {k: v.copy() for k, v in part.items()})


COLUMNS = ('x', 'y', 'z', 'vx', 'vy', 'vz', 'mass', 'id')
