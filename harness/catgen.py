"""
Synthetic CompaSO catalog trees for the reader properties (C01, C02, C03, C05; also C04/C18 through
the reader).  Deliberately dumb: every array that is written to disk is also kept in memory in the
returned `Catalog` object, and that in-memory copy *defines* what "the raw records" are.

The on-disk layout is the AbacusSummit data model as `CompaSOHaloCatalog._setup_file_paths` and
`_load_subsamples` expect it (the raw column schema below is transcribed from the HaloStat struct
documented at the bottom of compaso_halo_catalog.py and from the AbacusSummit data-model docs, NOT
derived from the loaders, so that a loader reading the wrong raw column is visible):

  <root>/<Sim>/halos/z0.500/halo_info/halo_info_%03d.asdf          data: raw halo columns
  <root>/<Sim>/halos/z0.500/halo_rv_{A,B}/halo_rv_{A,B}_%03d.asdf    data: rvint  (n,3) int32
  <root>/<Sim>/halos/z0.500/halo_pid_{A,B}/halo_pid_{A,B}_%03d.asdf  data: packedpid (n,) uint64
  <root>/cleaning/<Sim>/z0.500/cleaned_halo_info/cleaned_halo_info_%03d.asdf   data: clean_dt_progen columns
  <root>/cleaning/<Sim>/z0.500/cleaned_rvpid/cleaned_rvpid_%03d.asdf  data: rvint_A, rvint_B, packedpid_A, packedpid_B

Light-cone layout (one superslab, subsample A only, particles stored unpacked):
  <root>/halo_light_cones/<Sim>/z0.500/lc_halo_info.asdf   data: halo_lc_dt columns + raw L2com columns
  <root>/halo_light_cones/<Sim>/z0.500/lc_pid_rv.asdf      data: pos (n,3) f4, vel (n,3) f4, pid (n,) i8
"""
from __future__ import annotations

import os
from pathlib import Path

import asdf
import numpy as np

NPREV = 3          # NumTimeSliceRedshiftsPrev in the synthetic cleaning header
EULER_NCODES = 12 * 121 * 45

# ---------------------------------------------------------------- raw schema (name, dtype, inner shape)
_COMS = ('com', 'L2com')


def raw_schema():
    s = [
        ('id', 'u8', ()), ('npstartA', 'u8', ()), ('npstartB', 'u8', ()),
        ('npoutA', 'u4', ()), ('npoutB', 'u4', ()), ('ntaggedA', 'u4', ()), ('ntaggedB', 'u4', ()),
        ('N', 'u4', ()), ('L2_N', 'u4', (5,)), ('L0_N', 'u4', ()),
    ]
    for c, so in (('com', 'SO'), ('L2com', 'SO_L2max')):
        s += [('x_' + c, 'f4', (3,)), ('v_' + c, 'f4', (3,)), ('sigmav3d_' + c, 'f4', ()),
              ('meanSpeed_' + c, 'f4', ()), ('sigmav3d_r50_' + c, 'f4', ()), ('meanSpeed_r50_' + c, 'f4', ()),
              ('r100_' + c, 'f4', ()), ('vcirc_max_' + c, 'f4', ()),
              (so + '_central_particle', 'f4', (3,)), (so + '_central_density', 'f4', ()), (so + '_radius', 'f4', ())]
    for c in _COMS:
        s += [('sigmavMin_to_sigmav3d_%s_i16' % c, 'i2', ()), ('sigmavMax_to_sigmav3d_%s_i16' % c, 'i2', ()),
              ('sigmav_eigenvecs_%s_u16' % c, 'u2', ()),
              ('sigmavrad_to_sigmav3d_%s_i16' % c, 'i2', ()), ('sigmavtan_to_sigmav3d_%s_i16' % c, 'i2', ())]
        s += [('r%d_%s_i16' % (p, c), 'i2', ()) for p in (10, 25, 33, 50, 67, 75, 90, 95, 98)]
        s += [('sigmar_%s_i16' % c, 'i2', (3,)), ('sigman_%s_i16' % c, 'i2', (3,)),
              ('sigmar_eigenvecs_%s_u16' % c, 'u2', ()), ('sigman_eigenvecs_%s_u16' % c, 'u2', ()),
              ('rvcirc_max_%s_i16' % c, 'i2', ())]
    return s


def clean_schema():
    return [
        ('npstartA_merge', 'i8', ()), ('npstartB_merge', 'i8', ()),
        ('npoutA_merge', 'u4', ()), ('npoutB_merge', 'u4', ()),
        ('N_total', 'u4', ()), ('N_merge', 'u4', ()), ('haloindex', 'u8', ()), ('is_merged_to', 'i8', ()),
        ('N_mainprog', 'u4', (NPREV,)), ('vcirc_max_L2com_mainprog', 'f4', (NPREV,)),
        ('sigmav3d_L2com_mainprog', 'f4', (NPREV,)), ('haloindex_mainprog', 'i8', ()),
        ('v_L2com_mainprog', 'f4', (3,)),
    ]


def lc_schema():
    s = [('N', 'u4', ()), ('N_interp', 'u4', ()), ('npstartA', 'u8', ()), ('npoutA', 'u4', ()),
         ('index_halo', 'i8', ()), ('origin', 'i1', ()), ('pos_avg', 'f4', (3,)), ('pos_interp', 'f4', (3,)),
         ('vel_avg', 'f4', (3,)), ('vel_interp', 'f4', (3,)), ('redshift_interp', 'f4', ())]
    s += [r for r in raw_schema() if 'L2' in r[0]]
    return s


def _rand_col(rng, name, dt, shape, n, *, dyadic=False):
    """plausible random raw values; int16 ratios over their full range incl. +-32000 and negatives;
    eigenvector codes valid; floats positive for radii / dispersions.  With dyadic=True floats are small
    multiples of 2^-4 so that float32 products with dyadic scale factors are exact."""
    full = (n,) + tuple(shape)
    if dt == 'i2':
        v = rng.integers(-32000, 32001, full)
        edge = rng.random(full) < 0.15
        v = np.where(edge, rng.choice([-32000, -1, 0, 1, 31999, 32000], full), v)
        return v.astype(np.int16)
    if dt == 'u2':
        return rng.integers(0, EULER_NCODES, full).astype(np.uint16)
    if dt == 'f4':
        if dyadic:
            v = rng.integers(1, 64, full) / 16.0
        else:
            v = rng.random(full) * 3 + 0.01
        if name.startswith(('x_', 'v_', 'SO_central_particle', 'SO_L2max_central_particle', 'pos_', 'vel_')):
            v = v - (2.0 if dyadic else 1.5)
        return v.astype(np.float32)
    if dt in ('u4', 'u8', 'i8', 'i1'):
        return rng.integers(0, 100, full).astype(dt)
    raise ValueError(dt)


class Slab:
    """truth for one superslab"""

    def __init__(self):
        self.index = 0
        self.raw = {}        # raw halo_info columns
        self.clean = {}      # cleaned_halo_info columns (cleaned catalogs)
        self.rv = {}         # 'A'/'B' -> (n,3) int32 rvint of the slab particle file
        self.pid = {}        # 'A'/'B' -> (n,) uint64 packedpid
        self.clean_rv = {}   # 'A'/'B' -> cleaned_rvpid rvint_{AB}
        self.clean_pid = {}  # 'A'/'B' -> cleaned_rvpid packedpid_{AB}
        self.files = {}

    @property
    def nhalo(self):
        return len(self.raw['id'])


class Catalog:
    def __init__(self):
        self.root = None
        self.groupdir = None
        self.cleandir = None
        self.header = {}
        self.clean_header = {}
        self.slabs = []
        self.halo_lc = False
        # light cone only
        self.lc_pos = self.lc_vel = self.lc_pid = None

    @property
    def halo_info_files(self):
        return [s.files['halo_info'] for s in self.slabs]


_word_counter = [1]


def _unique_rvint(rng, n):
    """(n,3) int32 rvint words, every row unique within this process (so a particle is identifiable)"""
    out = np.empty((n, 3), dtype=np.int32)
    for i in range(n):
        k = _word_counter[0]
        _word_counter[0] += 1
        # position field (upper 20 bits, signed) carries the counter; velocity field random 12 bits
        for j in range(3):
            pos20 = ((k * 3 + j) % (1 << 20)) - (1 << 19)
            vel12 = int(rng.integers(0, 4096))
            w = ((pos20 & 0xFFFFF) << 12) | vel12
            if w >= 1 << 31:
                w -= 1 << 32
            out[i, j] = w
    return out


def _unique_pid(rng, n):
    out = np.empty(n, dtype=np.uint64)
    for i in range(n):
        k = _word_counter[0]
        _word_counter[0] += 1
        ix, iy, iz = k % 32768, (k // 32768) % 32768, int(rng.integers(0, 32768))
        tagged = int(rng.integers(0, 2))
        dens = int(rng.integers(0, 1024))
        hi = int(rng.integers(0, 32))          # bits 59..63 (unused by the format)
        junk15, junk31, junk47 = (int(rng.integers(0, 2)) for _ in range(3))
        w = ix | (junk15 << 15) | (iy << 16) | (junk31 << 31) | (iz << 32) | (junk47 << 47) | (tagged << 48) | (dens << 49) | (hi << 59)
        out[i] = np.uint64(w)
    return out


def _layout_ranges(rng, nhalo, max_np=4, max_gap=3, zero_frac=0.25):
    """halo particle ranges separated by unindexed L0 gaps: returns npstart, npout, total file length"""
    npstart = np.zeros(nhalo, dtype=np.uint64)
    npout = np.zeros(nhalo, dtype=np.uint32)
    off = int(rng.integers(0, max_gap + 1))
    for h in range(nhalo):
        n = 0 if rng.random() < zero_frac else int(rng.integers(1, max_np + 1))
        npstart[h] = off
        npout[h] = n
        off += n + int(rng.integers(0, max_gap + 1))
    return npstart, npout, off


def write_asdf(path, tree):
    path = Path(path)
    path.parent.mkdir(parents=True, exist_ok=True)
    af = asdf.AsdfFile(tree)
    af.write_to(path)     # uncompressed
    return path


def make_catalog(root, rng, nslabs=2, nhalos=(3, 6), cleaned=True, box=None, velz=None, ppd=None,
                 dyadic=False, cleaned_away_frac=0.25, slab_indices=None, sim='SynthSim', write=True):
    """Build (and write) a synthetic snapshot catalog.  `nhalos` is an int, an (lo, hi) range or a list
    with one entry per slab (0 allowed)."""
    root = Path(root)
    cat = Catalog()
    cat.root = root
    if box is None:
        box = float(rng.choice([64.0, 256.0])) if dyadic else float(rng.choice([500.0, 1234.5, 2000.0]))
    if velz is None:
        velz = float(rng.choice([32.0, 512.0])) if dyadic else float(rng.choice([771.25, 1432.1, 3000.0]))
    if velz == box:
        velz = box * 2
    if ppd is None:
        ppd = float(rng.choice([64, 100, 1728]))
    cat.header = {'BoxSize': box, 'VelZSpace_to_kms': velz, 'ppd': ppd, 'SimName': sim, 'Redshift': 0.5,
                  'OutputType': 'HaloOutput'}
    cat.clean_header = dict(cat.header, TimeSliceRedshiftsPrev=[0.575, 0.65, 0.725][:NPREV])
    cat.groupdir = root / sim / 'halos' / 'z0.500'
    cat.cleandir = root / 'cleaning'
    if slab_indices is None:
        slab_indices = list(range(nslabs))
    if isinstance(nhalos, int):
        nhalos = [nhalos] * nslabs
    elif isinstance(nhalos, tuple):
        nhalos = [int(rng.integers(nhalos[0], nhalos[1] + 1)) for _ in range(nslabs)]
    next_id = 1000
    for si, nh in zip(slab_indices, nhalos):
        sl = Slab()
        sl.index = si
        for name, dt, shape in raw_schema():
            sl.raw[name] = _rand_col(rng, name, dt, shape, nh, dyadic=dyadic)
        sl.raw['id'] = (np.arange(nh) + next_id).astype(np.uint64)
        next_id += nh + 7
        sl.raw['N'] = rng.integers(1, 500, nh).astype(np.uint32)
        for AB in 'AB':
            st, no, tot = _layout_ranges(rng, nh)
            sl.raw['npstart' + AB] = st
            sl.raw['npout' + AB] = no
            sl.raw['ntagged' + AB] = np.minimum(no, rng.integers(0, 5, nh)).astype(np.uint32)
            sl.rv[AB] = _unique_rvint(rng, tot)
            sl.pid[AB] = _unique_pid(rng, tot)
        if cleaned:
            for name, dt, shape in clean_schema():
                sl.clean[name] = _rand_col(rng, name, dt, shape, nh, dyadic=dyadic)
            away = rng.random(nh) < cleaned_away_frac
            nmerge = np.where(away, 0, rng.integers(0, 50, nh)).astype(np.uint32)
            sl.clean['N_merge'] = nmerge
            sl.clean['N_total'] = np.where(away, 0, sl.raw['N'] + nmerge).astype(np.uint32)
            sl.clean['haloindex'] = (np.arange(nh) + 10 ** 6 * (si + 1)).astype(np.uint64)
            sl.clean['is_merged_to'] = np.where(away, rng.integers(0, 99, nh), -1).astype(np.int64)
            for AB in 'AB':
                st, no, tot = _layout_ranges(rng, nh, max_np=3, zero_frac=0.5)
                no = np.where(away, 0, no).astype(np.uint32)      # a cleaned-away halo receives nothing
                sl.clean['npstart%s_merge' % AB] = st.astype(np.int64)
                sl.clean['npout%s_merge' % AB] = no
                sl.clean_rv[AB] = _unique_rvint(rng, tot)
                sl.clean_pid[AB] = _unique_pid(rng, tot)
        cat.slabs.append(sl)
    if write:
        write_catalog(cat)
    return cat


def write_catalog(cat):
    g = cat.groupdir
    for sl in cat.slabs:
        i = sl.index
        sl.files['halo_info'] = write_asdf(g / 'halo_info' / ('halo_info_%03d.asdf' % i),
                                           {'header': dict(cat.header), 'data': dict(sl.raw)})
        for AB in 'AB':
            sl.files['rv' + AB] = write_asdf(g / ('halo_rv_' + AB) / ('halo_rv_%s_%03d.asdf' % (AB, i)),
                                             {'header': dict(cat.header), 'data': {'rvint': sl.rv[AB]}})
            sl.files['pid' + AB] = write_asdf(g / ('halo_pid_' + AB) / ('halo_pid_%s_%03d.asdf' % (AB, i)),
                                              {'header': dict(cat.header), 'data': {'packedpid': sl.pid[AB]}})
        if sl.clean:
            rel = Path(cat.header['SimName']) / g.name
            sl.files['clean_info'] = write_asdf(
                cat.cleandir / rel / 'cleaned_halo_info' / ('cleaned_halo_info_%03d.asdf' % i),
                {'header': dict(cat.clean_header), 'data': dict(sl.clean)})
            sl.files['clean_rvpid'] = write_asdf(
                cat.cleandir / rel / 'cleaned_rvpid' / ('cleaned_rvpid_%03d.asdf' % i),
                {'header': dict(cat.clean_header),
                 'data': {'rvint_A': sl.clean_rv['A'], 'rvint_B': sl.clean_rv['B'],
                          'packedpid_A': sl.clean_pid['A'], 'packedpid_B': sl.clean_pid['B']}})


def make_lc_catalog(root, rng, nhalo=5, box=None, velz=None, dyadic=False, sim='SynthSim', write=True):
    """halo light-cone layout: one file, subsample A only, particles already unpacked"""
    root = Path(root)
    cat = Catalog()
    cat.root = root
    cat.halo_lc = True
    box = box or (64.0 if dyadic else 2000.0)
    velz = velz or (512.0 if dyadic else 1432.1)
    cat.header = {'BoxSize': box, 'VelZSpace_to_kms': velz, 'ppd': 1728.0, 'SimName': sim, 'Redshift': 0.5,
                  'LightConeOrigins': [[0, 0, 0]]}
    cat.groupdir = root / 'halo_light_cones' / sim / 'z0.500'
    sl = Slab()
    for name, dt, shape in lc_schema():
        sl.raw[name] = _rand_col(rng, name, dt, shape, nhalo, dyadic=dyadic)
    sl.raw['origin'] = rng.integers(0, 9, nhalo).astype(np.int8)
    zero_avg = rng.random(nhalo) < 0.4          # pos_avg == 0 -> loader falls back to pos_interp
    sl.raw['pos_avg'][zero_avg] = 0
    st, no, tot = _layout_ranges(rng, nhalo)
    sl.raw['npstartA'] = st
    sl.raw['npoutA'] = no
    cat.lc_pos = rng.random((tot, 3)).astype(np.float32) * box
    cat.lc_vel = (rng.random((tot, 3)).astype(np.float32) - 0.5) * 1000
    cat.lc_pid = _unique_pid(rng, tot).astype(np.int64)
    cat.slabs.append(sl)
    if write:
        sl.files['halo_info'] = write_asdf(cat.groupdir / 'lc_halo_info.asdf',
                                           {'header': dict(cat.header), 'data': dict(sl.raw)})
        sl.files['pid_rv'] = write_asdf(cat.groupdir / 'lc_pid_rv.asdf',
                                        {'header': dict(cat.header),
                                         'data': {'pos': cat.lc_pos, 'vel': cat.lc_vel, 'pid': cat.lc_pid}})
    return cat


def load(cat_or_path, **kw):
    """load with the real class from /repo's working tree (warnings silenced)"""
    import warnings
    from abacusnbody.data.compaso_halo_catalog import CompaSOHaloCatalog
    path = cat_or_path.groupdir if isinstance(cat_or_path, Catalog) else cat_or_path
    with warnings.catch_warnings():
        warnings.simplefilter('ignore')
        return CompaSOHaloCatalog(path, **kw)
