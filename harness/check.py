import argparse
import os
import sys

sys.path.insert(0, os.path.dirname(os.path.abspath(__file__)))
import vcommon  # noqa: E402


def main():
    ap = argparse.ArgumentParser()
    ap.add_argument('pid')
    ap.add_argument('--tier', default=None)
    ap.add_argument('--replay', default=None)
    a = ap.parse_args()
    sys.exit(vcommon.main(a.pid.upper(), a.tier, a.replay))


if __name__ == '__main__':
    main()
