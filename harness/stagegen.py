"""
Synthetic halo+particle subsample file sets for `AbacusHOD.staging` (property C12).

Deliberately dumb: a *case* is a JSON-able dict

    {'nfiles': 3, 'n_chunks': 1, 'chunk': -1, 'ztype': 'primary'|'secondary'|'lightcone',
     'mt': None|'ELG'|'QSO'|'force', 'AB': 0|1, 'shear': 0|1, 'ranks': 0|1, 'expvel': 0|1,
     'veldev1d': 0|1, 'rankfields': ['ranksp', 'ranksr', 'ranksc'] (subset present in the particle files),
     'slabs': [{'ids': [halo ids in file order], 'parts': [[k, host_id], ...]}, ...]}      # one per slab file

and every attribute of halo `id` / particle `k` is an injective, exactly representable (dyadic) function
of `id` / `k`, a different one per attribute, so that any array that ends up on another row than the rest
is visible row by row, and each value can be decoded back to the id it was made from.

What `AbacusHOD.__init__` / `staging` read (abacusnbody/hod/abacus_hod.py):
  * sim_params: sim_name, sim_dir, subsample_dir, z_mock, output_dir, halo_lc, force_mt
  * HOD_params: tracer_flags + '<T>_params', want_ranks, want_AB, want_shear, want_expvel, want_rsd
  * <sim_dir>/<sim_name>/halos/z0.500/halo_info/*.asdf (count = number of slabs; header of the first:
    H0, BoxSize, ParticleMassHMsun, VelZSpace_to_kms), or <sim_dir>/<sim_name>/z0.500/lc_halo_info.asdf
    (+ LightConeOrigins) for light cones
  * <subsample_dir>/<sim_name>/z0.500/halos_xcom_<i>_seed600_abacushod_oldfenv[_MT]_new.h5  dataset 'halos'
  * <subsample_dir>/<sim_name>/z0.500/particles_xcom_<i>_seed600_abacushod_oldfenv[_MT][_withranks]_new.h5
    dataset 'particles' (only for primary redshifts and light cones)
"""
from __future__ import annotations

import os
from fractions import Fraction

import numpy as np

MPART = 2.0 ** 31          # header ParticleMassHMsun (real value ~2.1e9): hmass = N * Mpart is exact
BOX = 2048.0
H0 = 64.0
VELZ = 4096.0
IDMAX = 2 ** 20            # ids / particle serials below this keep every float32 field exact
UNIT = 2 ** 24             # every value times UNIT is an integer (finest quantum used: 2**-23)

HEADER = {'H0': H0, 'BoxSize': BOX, 'ParticleMassHMsun': MPART, 'VelZSpace_to_kms': VELZ}

Z_OF = {'primary': 0.5, 'secondary': 0.575, 'lightcone': 0.5}

HALO_FLOAT_FIELDS = ['sigmav3d_L2com', 'r98_L2com', 'r25_L2com', 'deltac_rank', 'fenv_rank', 'shear_rank',
                     'multi_halos', 'randoms']


# --------------------------------------------------------------------------- encodings (id -> attribute)

def vec3(a, off):
    a = np.asarray(a, dtype=np.float64)
    return np.stack([a + off, a + off + 0.25, a + off + 0.5], axis=1) if len(a) else np.zeros((0, 3))


def halo_fields(ids, veldev1d=False):
    """file fields of the halos with these ids (float64 arrays / int arrays keyed by field name)"""
    i = np.asarray(ids, dtype=np.int64)
    f = i.astype(np.float64)
    d = {
        'id': i.astype(np.uint64),
        'x_L2com': vec3(f, 0.0),
        'v_L2com': -vec3(f, 1.0),
        'randoms_gaus_vrms': (f + 0.125) if veldev1d else vec3(f, 0.125),
        'randoms_exp': -(f + 0.125) if veldev1d else -vec3(f, 0.125),
        'sigmav3d_L2com': 3 * f + 2,
        'r98_L2com': 8 * f + 1,
        'r25_L2com': 2.0 ** -(1 + (i % 3)),
        'N': (i + 7).astype(np.uint32),
        'deltac_rank': f / 2 ** 21 - 0.5,
        'fenv_rank': 0.25 - f / 2 ** 22,
        'shear_rank': f / 2 ** 22 - 0.25 + 2.0 ** -23,
        'multi_halos': 2 * f + 1,
        'randoms': f / 2 ** 21 + 2.0 ** -22,
    }
    return d


def halo_struct(ids, veldev1d=False):
    d = halo_fields(ids, veldev1d)
    vshape = () if veldev1d else (3,)
    dt = np.dtype([('id', '<u8'), ('x_L2com', '<f4', (3,)), ('v_L2com', '<f4', (3,)),
                   ('randoms_gaus_vrms', '<f8', vshape), ('randoms_exp', '<f8', vshape),
                   ('sigmav3d_L2com', '<f4'), ('r98_L2com', '<f4'), ('r25_L2com', '<f4'), ('N', '<u4'),
                   ('deltac_rank', '<f8'), ('fenv_rank', '<f8'), ('shear_rank', '<f8'),
                   ('multi_halos', '<f8'), ('randoms', '<f8'),
                   ('npstartA', '<i8'), ('npoutA', '<i8')])
    out = np.zeros(len(ids), dtype=dt)
    for k, v in d.items():
        out[k] = v
        assert np.array_equal(np.asarray(out[k], dtype=np.float64), np.asarray(v, dtype=np.float64)), k
    return out


def part_fields(parts):
    p = np.asarray(parts, dtype=np.int64).reshape(-1, 2)
    k = p[:, 0].astype(np.float64)
    ki = p[:, 0]
    h = p[:, 1].astype(np.float64)
    return {
        'pos': vec3(k, 0.0),
        'vel': -vec3(k, 1.0),
        'halo_vel': -vec3(h, 1.0),                    # = the host's v_L2com
        'halo_mass': (h + 7) * MPART,                 # = the host's mass
        'halo_id': p[:, 1].astype(np.uint64),
        'Np': 2.0 ** (ki % 4),
        'downsample_halo': 2.0 ** -(ki % 3),
        'randoms': k / 2 ** 21 + 2.0 ** -22,
        'halo_deltac': h / 2 ** 21 - 0.5,
        'halo_fenv': 0.25 - h / 2 ** 22,
        'halo_shear': h / 2 ** 22 - 0.25 + 2.0 ** -23,
        'ranks': k + 0.125,
        'ranksv': k + 0.375,
        'ranksp': k + 0.5,
        'ranksr': k + 0.625,
        'ranksc': k + 0.75,
    }


def part_struct(parts, with_ranks, rankfields):
    d = part_fields(parts)
    spec = [('pos', '<f4', (3,)), ('vel', '<f4', (3,)), ('halo_vel', '<f4', (3,)), ('halo_mass', '<f4'),
            ('halo_id', '<u8'), ('Np', '<f8'), ('downsample_halo', '<f8'), ('randoms', '<f8'),
            ('halo_deltac', '<f8'), ('halo_fenv', '<f8'), ('halo_shear', '<f8')]
    if with_ranks:
        spec += [('ranks', '<f8'), ('ranksv', '<f8')] + [(r, '<f8') for r in ('ranksp', 'ranksr', 'ranksc') if r in rankfields]
    out = np.zeros(len(parts), dtype=np.dtype(spec))
    for name in out.dtype.names:
        out[name] = d[name]
        assert np.array_equal(np.asarray(out[name], dtype=np.float64), np.asarray(d[name], dtype=np.float64)), name
    return out


# --------------------------------------------------------------------------- decoders (attribute -> id), oracle side

def _odd_part(x):
    x = np.asarray(x, dtype=np.float64).copy()
    for _ in range(8):
        ev = (x % 2 == 0) & (x != 0)
        x[ev] /= 2
    return x


def _dec_vec(v, off, sign=1.0):
    """rows (a+off, a+off+.25, a+off+.5) -> a ; nan where the three components disagree"""
    v = sign * np.asarray(v, dtype=np.float64).reshape(-1, 3)
    a = v[:, 0] - off
    ok = (v[:, 1] - off - 0.25 == a) & (v[:, 2] - off - 0.5 == a)
    return np.where(ok, a, np.nan)


def _dec_same3(v, off, sign=1.0):
    """rows (a+off, a+off, a+off) -> a ; nan where the three components disagree"""
    v = sign * np.asarray(v, dtype=np.float64).reshape(-1, 3)
    a = v[:, 0] - off
    ok = (v[:, 1] == v[:, 0]) & (v[:, 2] == v[:, 0])
    return np.where(ok, a, np.nan)


def halo_decoders(expvel, veldev1d=False):
    """returned halo_data key -> function(array) -> float array of the ids the rows were made from
    (1-D velocity deviates in the file: the documented result is the same deviate on the three axes)"""
    if veldev1d:
        sgn = -1.0 if expvel else 1.0
        return dict(halo_decoders(expvel, False), hveldev=lambda a: _dec_same3(a, 0.125, sgn))
    return {
        'hpos': lambda a: _dec_vec(a, 0.0),
        'hvel': lambda a: _dec_vec(a, 1.0, -1.0),
        'hmass': lambda a: np.asarray(a) / MPART - 7,
        'hid': lambda a: np.asarray(a, dtype=np.float64),
        'hmultis': lambda a: (np.asarray(a) - 1) / 2,
        'hrandoms': lambda a: (np.asarray(a) - 2.0 ** -22) * 2 ** 21,
        'hveldev': (lambda a: _dec_vec(a, 0.125, -1.0)) if expvel else (lambda a: _dec_vec(a, 0.125)),
        'hsigma3d': lambda a: (np.asarray(a) - 2) / 3,
        'hc': lambda a: (_odd_part(a) - 1) / 8,
        'hrvir': lambda a: (np.asarray(a) - 1) / 8,
        'hdeltac': lambda a: (np.asarray(a) + 0.5) * 2 ** 21,
        'hfenv': lambda a: (0.25 - np.asarray(a)) * 2 ** 22,
        'hshear': lambda a: (np.asarray(a) + 0.25 - 2.0 ** -23) * 2 ** 22,
    }


def part_decoders():
    """returned particle_data key -> (kind, function): kind 'k' decodes the particle serial, 'h' its host id"""
    return {
        'ppos': ('k', lambda a: _dec_vec(a, 0.0)),
        'pvel': ('k', lambda a: _dec_vec(a, 1.0, -1.0)),
        'phvel': ('h', lambda a: _dec_vec(a, 1.0, -1.0)),
        'phmass': ('h', lambda a: np.asarray(a) / MPART - 7),
        'phid': ('h', lambda a: np.asarray(a, dtype=np.float64)),
        'prandoms': ('k', lambda a: (np.asarray(a) - 2.0 ** -22) * 2 ** 21),
        'pdeltac': ('h', lambda a: (np.asarray(a) + 0.5) * 2 ** 21),
        'pfenv': ('h', lambda a: (0.25 - np.asarray(a)) * 2 ** 22),
        'pshear': ('h', lambda a: (np.asarray(a) + 0.25 - 2.0 ** -23) * 2 ** 22),
        'pranks': ('k', lambda a: np.asarray(a) - 0.125),
        'pranksv': ('k', lambda a: np.asarray(a) - 0.375),
        'pranksp': ('k', lambda a: np.asarray(a) - 0.5),
        'pranksr': ('k', lambda a: np.asarray(a) - 0.625),
        'pranksc': ('k', lambda a: np.asarray(a) - 0.75),
    }


# --------------------------------------------------------------------------- exact integer view

def to_units(a):
    """exact integer multiples of 1/UNIT; rows of a 2-D array become lists"""
    a = np.asarray(a, dtype=np.float64)
    s = a * UNIT
    r = np.rint(s)
    if not np.array_equal(s, r):
        raise ValueError('value is not a multiple of 1/UNIT')
    if a.ndim == 1:
        return [[int(Fraction(float(x)))] for x in r]
    return [[int(Fraction(float(x))) for x in row] for row in r]


# --------------------------------------------------------------------------- writer

def z_of(case):
    return Z_OF[case.get('ztype', 'primary')]


_HEADER_BYTES = {}


def _write_header(asdf, header, path, kind):
    """the halo_info header file (serialised once per process with asdf, then written as bytes)"""
    if kind not in _HEADER_BYTES:
        import io
        b = io.BytesIO()
        asdf.AsdfFile({'header': header}).write_to(b)
        _HEADER_BYTES[kind] = b.getvalue()
    with open(path, 'wb') as f:
        f.write(_HEADER_BYTES[kind])


def write_case(root, case):
    """write the file set of `case` under `root`; returns the constructor arguments"""
    import asdf
    import h5py
    z = z_of(case)
    ztype = case.get('ztype', 'primary')
    simname = 'AbacusSummit_synth_c000_ph000'
    zdir = 'z%4.3f' % z
    sim_dir = os.path.join(root, 'sim')
    sub_dir = os.path.join(root, 'subsample')
    out_dir = os.path.join(root, 'out')
    header = dict(HEADER)
    if ztype == 'lightcone':
        header['LightConeOrigins'] = [[-990.0, -990.0, -990.0], [-990.0, -990.0, -2990.0]]
        d = os.path.join(sim_dir, simname, zdir)
        os.makedirs(d, exist_ok=True)
        _write_header(asdf, header, os.path.join(d, 'lc_halo_info.asdf'), 'lc')
    else:
        d = os.path.join(sim_dir, simname, 'halos', zdir, 'halo_info')
        os.makedirs(d, exist_ok=True)
        for i in range(case['nfiles']):
            _write_header(asdf, header, os.path.join(d, 'halo_info_%03d.asdf' % i), 'box')
    sd = os.path.join(sub_dir, simname, zdir)
    os.makedirs(sd, exist_ok=True)
    mt = '_MT' if case.get('mt') else ''
    wr = '_withranks' if case.get('ranks') else ''
    for i, slab in enumerate(case['slabs']):
        hs = halo_struct(slab['ids'], bool(case.get('veldev1d')))
        with h5py.File(os.path.join(sd, 'halos_xcom_%d_seed600_abacushod_oldfenv%s_new.h5' % (i, mt)), 'w') as f:
            f.create_dataset('halos', data=hs)
        if ztype != 'secondary':
            ps = part_struct(slab.get('parts', []), bool(case.get('ranks')), case.get('rankfields', []))
            with h5py.File(os.path.join(sd, 'particles_xcom_%d_seed600_abacushod_oldfenv%s%s_new.h5' % (i, mt, wr)), 'w') as f:
                f.create_dataset('particles', data=ps)
    sim_params = {'sim_name': simname, 'sim_dir': sim_dir, 'subsample_dir': sub_dir, 'output_dir': out_dir,
                  'z_mock': z, 'halo_lc': ztype == 'lightcone', 'force_mt': case.get('mt') == 'force'}
    tracer_flags = {'LRG': True, 'ELG': case.get('mt') == 'ELG', 'QSO': case.get('mt') == 'QSO'}
    HOD_params = {'tracer_flags': tracer_flags, 'LRG_params': {'logM_cut': 13.0}, 'ELG_params': {'logM_cut': 12.0},
                  'QSO_params': {'logM_cut': 12.5},
                  'want_ranks': bool(case.get('ranks')), 'want_AB': bool(case.get('AB')),
                  'want_shear': bool(case.get('shear')), 'want_expvel': bool(case.get('expvel')),
                  'want_rsd': True, 'write_to_disk': False, 'Ndim': 8, 'density_sigma': 3}
    clustering_params = {'clustering_type': 'xirppi', 'pimax': 30, 'pi_bin_size': 5,
                         'bin_params': {'logmin': -1.0, 'logmax': 1.0, 'nbins': 4}}
    return sim_params, HOD_params, clustering_params, {'chunk': case.get('chunk', -1), 'n_chunks': case.get('n_chunks', 1)}


def slab_range(case):
    """the slabs the code is documented to load: chunk `chunk` of `n_chunks` equal runs of the slab files"""
    n = 1 if case.get('ztype') == 'lightcone' else case['nfiles']
    nch = case.get('n_chunks', 1)
    ch = case.get('chunk', -1)
    ch = 0 if ch == -1 else ch
    jump = -(-n // nch)
    return ch * jump, min((ch + 1) * jump, n)
