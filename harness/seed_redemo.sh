#!/bin/sh
# usage: harness/seed_redemo.sh <seeded id>   — re-run only the demonstration of a stored seeded change
# (seeded/<id>/patch.diff + demo.py) in a fresh scratch worktree of /repo's HEAD (or the newest of the listed older
# commits the patch applies to) and update seeded/<id>/meta.json:confirmed_by_me.demo_exit_*.
ID="$1"; OUT=/verif/seeded/$ID
W=${TMPDIR:-/tmp}/abverif_redemo_$ID
for REV in HEAD 2d0c501 4b69ec1 15494e2 c0fba6c 894500f 17fb2d1; do
  git -C /repo worktree remove --force "$W" 2>/dev/null
  /verif/harness/mkworktree.sh "$W" $REV >/dev/null 2>&1 || continue
  if git -C "$W" apply --check "$OUT/patch.diff" 2>/dev/null; then break; fi
done
cd "$W" || exit 2
git apply --check "$OUT/patch.diff" || { echo "$ID: patch applies to none of the candidate commits"; git -C /repo worktree remove --force "$W"; exit 3; }
export PYTHONPATH="$W:/verif/.pydeps:/verif/harness/shims:/verif/harness" NUMBA_BOUNDSCHECK=1 PYTHONDONTWRITEBYTECODE=1
cp "$OUT/demo.py" demo.py
/venv/bin/python demo.py > "$OUT/demo_without_change.log" 2>&1; RC_WITHOUT=$?
git apply "$OUT/patch.diff"
/venv/bin/python demo.py > "$OUT/demo_with_change.log" 2>&1; RC_WITH=$?
BASE=$(git rev-parse --short HEAD)
/venv/bin/python - "$OUT" "$RC_WITH" "$RC_WITHOUT" "$BASE" <<'PY'
import json, sys
out, rcw, rcwo, base = sys.argv[1:5]
m = json.load(open(out + '/meta.json'))
c = m.setdefault('confirmed_by_me', {})
c['demo_exit_with_change'] = int(rcw)
c['demo_exit_without_change'] = int(rcwo)
c['demo_rerun_on'] = base
json.dump(m, open(out + '/meta.json', 'w'), indent=1)
print(out.split('/')[-1], 'demo with/without =', rcw, rcwo, 'on', base)
PY
git -C /repo worktree remove --force "$W"
