"""Index-recording array wrapper for `Dispatcher.py_func` runs: records every element access
(normalised with the Python negative-index rule) and flags accesses outside the array."""
import numpy as np


class Rec:
    """wraps an ndarray of any rank; supports integer / tuple-of-integer indexing and, for rank-1 rows of
    a rank-2 array, `a[i]` returning a recording row view.  Slices are passed through to numpy (clipped
    like numba) and recorded as ('slice', start, stop)."""

    def __init__(self, arr, name, log, base=()):
        self.a = arr
        self.name = name
        self.log = log
        self.base = base
        self.dtype = arr.dtype
        self.shape = arr.shape
        self.ndim = arr.ndim
        self.size = arr.size

    def __len__(self):
        return len(self.a)

    def _norm(self, i, n, axis):
        i = int(i)
        j = i + n if i < 0 else i
        if not (0 <= j < n):
            self.log.append(('oob', self.name, self.base + (i,), axis))
            raise IndexError('recorded out-of-bounds access %s%s (axis %d, len %d)' % (self.name, self.base + (i,), axis, n))
        return j

    def _resolve(self, key):
        if not isinstance(key, tuple):
            key = (key,)
        out = []
        for ax, k in enumerate(key):
            if isinstance(k, slice):
                return None
            out.append(self._norm(k, self.a.shape[ax], ax))
        return tuple(out)

    def __getitem__(self, key):
        r = self._resolve(key)
        if r is None:
            self.log.append(('rslice', self.name, str(key)))
            sub = self.a[key]
            return Rec(sub, self.name + '[slice]', self.log) if isinstance(sub, np.ndarray) and sub.ndim else sub
        if len(r) < self.a.ndim:
            return Rec(self.a[r], self.name, self.log, self.base + r)
        self.log.append(('r', self.name, self.base + r))
        return self.a[r]

    def __setitem__(self, key, v):
        r = self._resolve(key)
        if r is None:
            self.log.append(('wslice', self.name, str(key)))
            self.a[key] = v.a if isinstance(v, Rec) else v
            return
        self.log.append(('w', self.name, self.base + r))
        self.a[r] = v

    def reshape(self, *s):
        return Rec(self.a.reshape(*s), self.name, self.log)

    def __array__(self, dtype=None, copy=None):
        return np.asarray(self.a, dtype=dtype)
