"""Refresh the control-group table in DESIGN.md §12.5 from control/results-*.log (latest verdict per (diff, check))."""
import json
import re
from pathlib import Path

V = Path(__file__).resolve().parent.parent
res = {}
for f in sorted((V / 'control').glob('results-*.log')):
    for line in f.read_text().splitlines():
        m = re.match(r'(\S+) @(\S+) (C\d\d): (.*)', line)
        if m:
            name, rev, c, verdict = m.groups()
            v = 'OK' if verdict.startswith('OK') else ('ALARM (%s)' % verdict.split(' replay=')[0]) if verdict.startswith('VIOLATION') else verdict
            res.setdefault(name, {})[c] = (v, rev)
rows = ['| control diff | what was rewritten | checks run (verdict) |', '|---|---|---|']
nrun = nok = 0
for name in sorted(res):
    what = ''
    invalid = ''
    mp = V / 'control' / name / 'meta.json'
    if mp.exists():
        try:
            mj = json.loads(mp.read_text())
            what = mj.get('what', '')
            invalid = mj.get('invalid_control', '')
        except Exception:
            pass
    what = what.replace('|', '/').replace('\n', ' ')
    if len(what) > 230:
        what = what[:227] + '...'
    cells = []
    for c in sorted(res[name]):
        v, rev = res[name][c]
        if not invalid:
            nrun += 1
            nok += v == 'OK'
        cells.append('%s %s' % (c, v))
    if invalid:
        what = '**excluded — ' + invalid.replace('|', '/') + '**'
    rows.append('| %s | %s | %s |' % (name, what, '; '.join(cells)))
tab = '\n'.join(rows) + '\n\n%d (diff, check) runs, %d OK.\n' % (nrun, nok)
p = V / 'DESIGN.md'
s = p.read_text()
a = s.index('<!-- CONTROL-TABLE-BEGIN -->') + len('<!-- CONTROL-TABLE-BEGIN -->')
b = s.index('<!-- CONTROL-TABLE-END -->')
p.write_text(s[:a] + '\n' + tab + s[b:])
print('updated: %d runs, %d OK' % (nrun, nok))
