"""
Shared machinery of the /verif checks (see DESIGN.md §2, §5).

A check for property Cxx is `harness/props/cxx.py` exposing

    THEOREMS   : list of fully qualified Lean theorem names that are the proof obligations
    LEAN_MODULES : list of Lean modules to build (default: AbacusVerif.Props.Cxx)
    DRIVER     : name of the compiled model driver (lean_exe), or None
    def extract(ctx)            (optional) regenerate lean/AbacusVerif/Generated/*.lean from /repo
    def run(ctx)                correspondence + oracle; uses ctx.disagree(...), ctx.fail(...), ctx.count(...)
    def intensify(ctx)          (optional) harder search, called when a proof or the correspondence broke
    def replay(ctx, case)       (optional) re-run one stored case

and `vcommon.main(pid, tier)` does the rest: setup, lake build, axiom audit, verdict,
evidence, replay file, exit code (0 held / 1 violation / 2 infrastructure).
"""
from __future__ import annotations

import collections
import hashlib
import importlib
import json
import os
import re
import shutil
import subprocess
import sys
import tempfile
import time
import traceback
from pathlib import Path

VERIF = Path(__file__).resolve().parent.parent
REPO = Path(os.environ.get('ABACUSUTILS_REPO', '/repo'))
LEAN = VERIF / 'lean'
PYDEPS = VERIF / '.pydeps'
SHIMS = VERIF / 'harness' / 'shims'
EVIDENCE = VERIF / 'evidence'
if str(REPO) != '/repo':   # scratch trees (older commits, seeded changes) must not overwrite /repo's evidence
    EVIDENCE = VERIF / 'replays' / 'evidence_other_tree'
REPLAYS = VERIF / 'replays'
CORPUS = VERIF / 'corpus'
KNOWN = VERIF / 'known_findings.json'
PY = '/venv/bin/python'
GUARD = 'ABACUSUTILS_VERIF'

ALLOWED_AXIOMS = {'propext', 'Classical.choice', 'Quot.sound'}
FORBIDDEN_RE = re.compile(
    r'\bsorry\b|\badmit\b|^\s*axiom\s|native_decide|bv_decide|implemented_by|\bunsafe\s|maxHeartbeats\s+0\b')

TRUSTED_BASE_COMMON = [
    "Lean 4.33.0 kernel; axioms of every property theorem printed by `#print axioms` on this run "
    "and required to be a subset of {propext, Classical.choice, Quot.sound}",
    "no sorry/admit/axiom/native_decide/bv_decide/implemented_by/unsafe in lean/AbacusVerif (grep on this run)",
    "the hand-written Lean model is tied to /repo by the correspondence harness harness/props/*.py "
    "(differential run of the compiled model driver and the real code) and, where stated, by "
    "harness/extract translators that regenerate lean/AbacusVerif/Generated from the imported module",
    "numba 0.67 / numpy 2.5 / CPython 3.12 semantics of the operations the model encodes",
]


class Infra(Exception):
    """infrastructure failure: exit 2, never a verdict"""


def pure(disp, always=False):
    """The Python-level body of a numba kernel, callable on index-recording arrays even when the kernel has been split
    into jitted helper functions: while it runs, every numba dispatcher among the globals of the kernel's module is
    replaced by its own `py_func` (nested helpers included), and put back afterwards — but only when an argument is a
    recorder (something numba cannot type); with plain arguments the helpers stay compiled.  Objects that are not
    dispatchers (e.g. a recorder the harness has put in place of a helper) are left alone.  `always=True` pythonizes the
    helpers even for plain arguments: needed where the Python-level run is relied on to turn an out-of-range subscript
    into an IndexError (a compiled helper would write out of bounds instead)."""
    f = getattr(disp, 'py_func', disp)
    g = getattr(f, '__globals__', None)
    if g is None:
        return f

    def plain(x):
        import numpy as np
        if x is None or isinstance(x, (bool, int, float, complex, str, bytes, np.generic, type, np.dtype)):
            return True
        if isinstance(x, (tuple, list)):
            return all(plain(y) for y in x)
        return type(x) is np.ndarray

    def call(*a, **k):
        from numba.core.registry import CPUDispatcher
        if not always and all(plain(x) for x in a) and all(plain(x) for x in k.values()):
            # ordinary arguments: nested helpers stay compiled (numba's integer promotion differs from numpy scalar
            # arithmetic, e.g. uint8 << 4), exactly as when the kernel's py_func is called directly
            return f(*a, **k)
        saved = {n: v for n, v in g.items() if isinstance(v, CPUDispatcher)}
        for n, v in saved.items():
            g[n] = v.py_func
        try:
            return f(*a, **k)
        finally:
            for n, v in saved.items():
                g[n] = v
    call.__wrapped__ = f
    call.__name__ = getattr(f, '__name__', 'pure')
    return call


def log(*a):
    print(*a, file=sys.stderr, flush=True)


def impl_env(extra=None):
    """environment for sub-processes that import the real package from /repo's working tree"""
    env = dict(os.environ)
    pp = [str(SHIMS), str(REPO), str(PYDEPS), str(VERIF / 'harness')]
    env['PYTHONPATH'] = os.pathsep.join(pp)
    env['PYTHONDONTWRITEBYTECODE'] = '1'
    env[GUARD] = '1'
    env.setdefault('NUMBA_CACHE_DIR', os.path.join(tempfile.gettempdir(), 'abacus_verif_numba_cache_%d' % os.getpid()))
    if extra:
        env.update(extra)
    return env


def setup_import_path():
    """make `import abacusnbody` resolve to /repo's current working tree in this process"""
    for p in [str(VERIF / 'harness'), str(PYDEPS), str(REPO), str(SHIMS)]:
        if p in sys.path:
            sys.path.remove(p)
        sys.path.insert(0, p)
    os.environ[GUARD] = '1'
    os.environ['PYTHONDONTWRITEBYTECODE'] = '1'
    sys.dont_write_bytecode = True


# --------------------------------------------------------------------------- setup / lean

def run_cmd(cmd, cwd=None, timeout=3600, env=None):
    p = subprocess.run(cmd, cwd=cwd, env=env, stdout=subprocess.PIPE, stderr=subprocess.STDOUT,
                       text=True, timeout=timeout)
    return p.returncode, p.stdout


def ensure_pydeps():
    if (PYDEPS / 'scipy').is_dir():
        return
    log('[setup] installing scipy from the offline wheelhouse into', PYDEPS)
    rc, out = run_cmd([PY, '-m', 'pip', 'install', '--no-index', '--no-deps', '--quiet',
                       '--find-links', '/opt/veriftools/wheels', '--target', str(PYDEPS), 'scipy'])
    if rc != 0:
        raise Infra('scipy install failed:\n' + out)


_lock_fd = None


def lake_lock():
    """serialise lake invocations of concurrently running checks"""
    global _lock_fd
    import fcntl
    if _lock_fd is None:
        _lock_fd = open(LEAN / '.lake.verif.lock', 'w')
    fcntl.flock(_lock_fd, fcntl.LOCK_EX)


def lake_unlock():
    import fcntl
    if _lock_fd is not None:
        fcntl.flock(_lock_fd, fcntl.LOCK_UN)


# checks of the same property (or of properties that regenerate the same Generated/*.lean file) must not overlap: a run
# against a scratch tree regenerates those files from ITS source
LOCK_GROUPS = {'C02': ['loaders'], 'C05': ['loaders'], 'C18': ['loaders'], 'C04': ['bitconsts'], 'C16': ['bitconsts']}
_prop_locks = []


def property_lock(pid):
    """block until no other check of this property (or of its generated-file group) is running in this /verif"""
    import fcntl
    d = VERIF / '.locks'
    try:
        d.mkdir(exist_ok=True)
        for name in sorted(set([pid] + LOCK_GROUPS.get(pid, []))):
            fd = open(d / (name + '.lock'), 'w')
            fcntl.flock(fd, fcntl.LOCK_EX)
            _prop_locks.append(fd)          # held until the process exits
    except OSError as e:
        log('[lock] no property lock (%s); continuing without' % e)


def lake_build(targets, timeout=3000):
    lake_lock()
    try:
        rc, out = run_cmd(["lake", "build"] + list(targets), cwd=LEAN, timeout=timeout)
    finally:
        lake_unlock()
    return rc, out


def theorem_spans(path):
    """[(name, first_line, last_line)] of the `theorem`s in a Lean file (a span ends where the next
    top-level declaration starts)"""
    lines = Path(path).read_text().splitlines()
    starts = []
    ns = []
    decl = re.compile(r'^(?:@\[[^\]]*\]\s*)?(?:private\s+|protected\s+)?(theorem|lemma|def|example|instance|structure|inductive|abbrev|namespace|end|section|open|variable|set_option|/-[-!]?)\b')
    for i, l in enumerate(lines, 1):
        m = re.match(r'^namespace\s+(\S+)', l)
        if m:
            ns.append(m.group(1))
        m = re.match(r'^end\s+(\S+)', l)
        if m and ns and ns[-1] == m.group(1):
            ns.pop()
        m = re.match(r'^(?:@\[[^\]]*\]\s*)?(?:private\s+|protected\s+)?theorem\s+(\S+)', l)
        if m:
            starts.append(('.'.join(ns + [m.group(1)]), i, 'theorem'))
        elif decl.match(l):
            starts.append((None, i, 'other'))
    spans = []
    for k, (name, i, kind) in enumerate(starts):
        if kind != 'theorem':
            continue
        end = starts[k + 1][1] - 1 if k + 1 < len(starts) else len(lines)
        spans.append((name, i, end))
    return spans


def strip_comments(text):
    text = re.sub(r'/-.*?-/', lambda m: '\n' * m.group(0).count('\n'), text, flags=re.S)
    text = re.sub(r'--.*', '', text)
    return text


def module_closure(modules):
    """the Lean files of `modules` and of everything under AbacusVerif/ they (transitively) import"""
    seen, todo = {}, list(modules)
    while todo:
        m = todo.pop()
        if m in seen:
            continue
        fp = LEAN / (m.replace('.', '/') + '.lean')
        if not fp.exists():
            seen[m] = None
            continue
        seen[m] = fp
        for mm in re.findall(r'^\s*(?:public\s+)?import\s+(AbacusVerif\.\S+|Drivers\.\S+)', fp.read_text(), re.M):
            todo.append(mm)
    return [fp for fp in seen.values() if fp is not None]


def grep_forbidden(modules):
    """forbidden constructs in the Lean sources this property's theorems and driver depend on"""
    hits = []
    for p in sorted(module_closure(modules)):
        txt = strip_comments(p.read_text())
        for i, l in enumerate(txt.splitlines(), 1):
            if FORBIDDEN_RE.search(l):
                hits.append('%s:%d: %s' % (p.relative_to(LEAN), i, l.strip()))
    return hits


def lean_obligations(ctx, modules, theorems):
    """build the property's modules, audit axioms; fills ctx.obligations / ctx.discharged / ctx.proof_broken"""
    t0 = time.time()
    rc, out = lake_build(modules)
    ctx.lean_build_s = round(time.time() - t0, 1)
    broken = []
    build_errors = []
    if rc != 0:
        # map error lines to theorems
        err_re = re.compile(r'^error: (\S+\.lean):(\d+):(\d+): (.*)$', re.M)
        spans_cache = {}
        for m in err_re.finditer(out):
            f, line, msg = m.group(1), int(m.group(2)), m.group(4)
            fp = LEAN / f
            if fp.exists():
                spans = spans_cache.setdefault(f, theorem_spans(fp))
                owner = next((n for (n, a, b) in spans if a <= line <= b), None)
            else:
                owner = None
            build_errors.append({'file': f, 'line': line, 'msg': msg[:300], 'theorem': owner})
        if not build_errors:
            build_errors.append({'file': '?', 'line': 0, 'msg': out[-1500:], 'theorem': None})
        log(out[-4000:])
    # audit: #print axioms for every obligation (only meaningful for what did build)
    audit_src = ''.join('import %s\n' % m for m in modules if '.Props.' in m or '.Lemmas.' in m or '.Generated.' in m)
    audit_src += ''.join('#print axioms %s\n' % t for t in theorems)
    axioms = {}
    if rc == 0:
        with tempfile.NamedTemporaryFile('w', suffix='.lean', delete=False) as tf:
            tf.write(audit_src)
            tfn = tf.name
        try:
            rc2, out2 = run_cmd(['lake', 'env', 'lean', tfn], cwd=LEAN, timeout=1200)
        finally:
            os.unlink(tfn)
        for m in re.finditer(r"'([^']+)' depends on axioms: \[([^\]]*)\]", out2, re.S):
            axioms[m.group(1)] = [a.strip() for a in m.group(2).replace('\n', ' ').split(',') if a.strip()]
        for m in re.finditer(r"'([^']+)' does not depend on any axioms", out2):
            axioms[m.group(1)] = []
        for t in theorems:
            if t not in axioms:
                broken.append({'theorem': t, 'why': 'not found by #print axioms (missing or does not check)'})
            elif not set(axioms[t]) <= ALLOWED_AXIOMS:
                broken.append({'theorem': t, 'why': 'uses axioms %s' % sorted(set(axioms[t]) - ALLOWED_AXIOMS)})
    else:
        owners = {e['theorem'] for e in build_errors if e['theorem']}
        for t in theorems:
            if t in owners:
                broken.append({'theorem': t, 'why': 'proof no longer checks: ' +
                               '; '.join(e['msg'] for e in build_errors if e['theorem'] == t)[:400]})
        if not broken:
            broken.append({'theorem': '<build>', 'why': 'lake build failed outside a property theorem: ' +
                           json.dumps(build_errors[:5])})
    # thorough tier: independent re-check of the compiled .olean files of the property's whole module closure
    ctx.leanchecker = None
    if rc == 0 and ctx.tier == 'thorough':
        mods = sorted(str(p.relative_to(LEAN))[:-5].replace('/', '.') for p in module_closure(modules)
                      if str(p.relative_to(LEAN)).startswith('AbacusVerif/'))
        try:
            rc3, out3 = run_cmd(['lake', 'env', 'leanchecker'] + mods, cwd=LEAN, timeout=1800)
            ctx.leanchecker = {'modules': len(mods), 'ok': rc3 == 0}
            if rc3 != 0:
                broken.append({'theorem': '<leanchecker>', 'why': 'leanchecker rejected the compiled modules: ' + out3[-600:]})
        except subprocess.TimeoutExpired:
            ctx.leanchecker = {'modules': len(mods), 'ok': None, 'note': 'timed out (not a verdict)'}
    forb = grep_forbidden(list(modules) + ['Drivers.%s' % ctx.pid])
    for h in forb:
        broken.append({'theorem': '<source>', 'why': 'forbidden construct: ' + h})
    ctx.obligations = len(theorems)
    ctx.discharged = len([t for t in theorems if t in axioms and set(axioms[t]) <= ALLOWED_AXIOMS]) if rc == 0 else \
        max(0, len(theorems) - len(broken))
    ctx.axioms = axioms
    ctx.proof_broken = broken
    ctx.build_errors = build_errors
    return rc == 0


class Driver:
    """compiled Lean model driver: one request line in, one response line out (batch)"""

    def __init__(self, name):
        self.name = name
        self.exe = LEAN / '.lake' / 'build' / 'bin' / name
        rc, out = lake_build([name])
        if rc != 0 or not self.exe.exists():
            self.error = out[-3000:]
        else:
            self.error = None

    def query(self, lines, timeout=1800):
        if self.error:
            raise Infra('driver %s not built:\n%s' % (self.name, self.error))
        if not lines:
            return []
        data = '\n'.join(lines) + '\n'
        p = subprocess.run([str(self.exe)], input=data, stdout=subprocess.PIPE, stderr=subprocess.PIPE,
                           text=True, timeout=timeout)
        if p.returncode != 0:
            raise Infra('driver %s failed rc=%s: %s' % (self.name, p.returncode, p.stderr[-2000:]))
        out = p.stdout.split('\n')
        if out and out[-1] == '':
            out.pop()
        if len(out) != len(lines):
            raise Infra('driver %s: %d requests, %d responses' % (self.name, len(lines), len(out)))
        return out


# --------------------------------------------------------------------------- context

def _jsonable(x):
    try:
        import numpy as np
        if isinstance(x, np.generic):
            return x.item()
        if isinstance(x, np.ndarray):
            return x.tolist()
    except Exception:
        pass
    if isinstance(x, (bytes, bytearray)):
        return bytes(x).hex()
    if isinstance(x, (set, frozenset)):
        return sorted(_jsonable(v) for v in x)
    if isinstance(x, Path):
        return str(x)
    if isinstance(x, tuple):
        return [_jsonable(v) for v in x]
    return str(x)


class Ctx:
    def __init__(self, pid, tier, seed):
        self.pid = pid
        self.tier = tier
        self.seed = seed
        self.t0 = time.time()
        self.counters = collections.Counter()
        self.samples = []
        self.distinct = set()
        self.evaluations = 0
        self.traces_validated = 0
        self.disagreements = []   # model vs implementation
        self.failures = []        # property broken on the real code (oracle)
        self.tie_broken = []      # translator / extractor problems
        self.known_hits = []
        self.proof_broken = []
        self.build_errors = []
        self.axioms = {}
        self.obligations = 0
        self.discharged = 0
        self.exhaustive = False
        self.extra = {}
        self.rule = ''
        self.assumptions = []
        self.trusted = []
        self.intensified = False
        self._tmp = None
        import numpy as np
        self.rng = np.random.default_rng(seed)

    @property
    def quick(self):
        return self.tier == 'quick'

    def pick(self, q, t):
        return q if self.quick else t

    def tmpdir(self):
        if self._tmp is None:
            self._tmp = tempfile.mkdtemp(prefix='abverif_%s_' % self.pid)
        return self._tmp

    def cleanup(self):
        if self._tmp and os.path.isdir(self._tmp):
            shutil.rmtree(self._tmp, ignore_errors=True)
        cache = os.environ.get('NUMBA_CACHE_DIR')
        if cache and 'abacus_verif_numba_cache' in cache:
            shutil.rmtree(cache, ignore_errors=True)

    def count(self, key, n=1):
        self.counters[key] += n

    def case(self, case, nontrivial=True, key=None):
        """register one explored case; `key` (default: the case itself) decides distinctness"""
        self.evaluations += 1
        if nontrivial:
            k = key if key is not None else case
            h = hashlib.blake2b(json.dumps(k, sort_keys=True, default=_jsonable).encode(), digest_size=8).digest()
            self.distinct.add(h)
        n = self.evaluations
        if nontrivial and (n & (n - 1)) == 0 or n in (3, 7, 50, 300):   # exponentially spaced sample of the run
            s = json.loads(json.dumps(case, default=_jsonable))
            if len(json.dumps(s)) < 4000 and len(self.samples) < 16:
                self.samples.append(s)

    def disagree(self, what, case, model, impl):
        self.disagreements.append({'what': what, 'case': case, 'model': model, 'impl': impl})
        if len(self.disagreements) <= 5:
            log('[disagree]', what, json.dumps(case, default=_jsonable)[:400], 'model=', str(model)[:300], 'impl=', str(impl)[:300])

    def fail(self, what, case, observed, expected, key=None):
        """the real code breaks the property on `case`"""
        f = {'what': what, 'case': case, 'observed': observed, 'expected': expected, 'key': key or what}
        self.failures.append(f)
        if len(self.failures) <= 5:
            log('[FAIL]', what, json.dumps(case, default=_jsonable)[:400], 'observed=', str(observed)[:300], 'expected=', str(expected)[:300])

    def tie(self, what, detail):
        self.tie_broken.append({'what': what, 'detail': detail})
        log('[tie-broken]', what, str(detail)[:500])


def load_known():
    if KNOWN.exists():
        return json.loads(KNOWN.read_text())
    return {'findings': [], 'fixed': []}


def write_evidence(ctx, violations):
    EVIDENCE.mkdir(parents=True, exist_ok=True)
    cov = {
        'obligations': ctx.obligations,
        'discharged': ctx.discharged,
        'checker_cmd': 'cd /verif/lean && lake build %s && lake env lean <audit: #print axioms of each theorem>' % ' '.join(ctx.modules),
        'trusted_base': TRUSTED_BASE_COMMON + list(ctx.trusted),
        'theorems': {t: ctx.axioms.get(t) for t in ctx.theorems},
        'proof_broken': ctx.proof_broken,
        'evaluations': ctx.evaluations,
        'distinct_nontrivial': len(ctx.distinct),
        'rule': ctx.rule,
        'samples': ctx.samples[:10],
        'traces_validated_against_impl': ctx.traces_validated,
        'exhaustive': bool(ctx.exhaustive),
        'histogram': dict(sorted(ctx.counters.items())),
        'model_impl_disagreements': len(ctx.disagreements),
        'oracle_failures': len(ctx.failures),
        'known_findings_reproduced': ctx.known_hits,
        'tie_broken': ctx.tie_broken,
        'lean_build_s': getattr(ctx, 'lean_build_s', None),
        'leanchecker': getattr(ctx, 'leanchecker', None),
        'intensified_search': ctx.intensified,
    }
    cov.update(ctx.extra)
    ev = {
        'property_id': ctx.pid,
        'tier': ctx.tier,
        'seed': int(ctx.seed),
        'level': 'proof',
        'coverage': cov,
        'assumptions': list(ctx.assumptions),
        'wall_s': round(time.time() - ctx.t0, 2),
        'violations': violations,
    }
    (EVIDENCE / ('%s.json' % ctx.pid)).write_text(json.dumps(ev, indent=1, default=_jsonable) + '\n')


def write_replay(ctx, kind, payload):
    REPLAYS.mkdir(exist_ok=True)
    path = REPLAYS / ('%s-%s-%d.json' % (ctx.pid, ctx.tier, ctx.seed))
    doc = {'property': ctx.pid, 'tier': ctx.tier, 'seed': int(ctx.seed), 'kind': kind,
           'how_to_rerun': 'cd /verif && ./check %s --replay %s' % (ctx.pid, path)}
    doc.update(payload)
    path.write_text(json.dumps(doc, indent=1, default=_jsonable) + '\n')
    return path


def main(pid, tier=None, replay=None):
    tier = tier or os.environ.get('VERIF_TIER') or 'quick'
    if tier not in ('quick', 'thorough'):
        tier = 'quick'
    seed = int(os.environ.get('VERIF_SEED', '0') or 0)
    property_lock(pid)
    setup_import_path()
    ctx = Ctx(pid, tier, seed)
    _generated_snapshot = {}
    _generated_written = {}
    if str(REPO) != '/repo':
        for path in (LEAN / 'AbacusVerif' / 'Generated').glob('*.lean'):
            try:
                _generated_snapshot[path] = path.read_text()
            except OSError:
                pass
    try:
        mod = importlib.import_module('props.%s' % pid.lower())
        ctx.theorems = list(getattr(mod, 'THEOREMS'))
        ctx.modules = list(getattr(mod, 'LEAN_MODULES', ['AbacusVerif.Props.%s' % pid]))
        ctx.trusted = list(getattr(mod, 'TRUSTED', []))
        ctx.assumptions = list(getattr(mod, 'ASSUMPTIONS', []))
        ctx.rule = getattr(mod, 'RULE', '')
        ensure_pydeps()
        if replay:
            case = json.loads(Path(replay).read_text())
            if hasattr(mod, 'replay'):
                drv = Driver(mod.DRIVER) if getattr(mod, 'DRIVER', None) else None
                ctx.driver = drv
                mod.replay(ctx, case)
            else:
                print(json.dumps(case, indent=1))
            rc = 1 if ctx.failures else 0
            for f in ctx.failures:
                print('REPLAY-FAILS property=%s %s' % (pid, f['what']))
            if not ctx.failures:
                print('REPLAY: no failure reproduced')
            return rc
        # 1. translators
        try:
            from extract import prange as _prange
            if pid in _prange.TARGETS:
                try:
                    _prange.generate(pid, LEAN)
                    ctx.modules.append('AbacusVerif.Props.Prange%s' % pid)
                    ctx.theorems += ['AbacusVerif.Prange%s.prange_writes_private' % pid,
                                     'AbacusVerif.Prange%s.prange_table_nonempty' % pid]
                    ctx.extra['prange_translator'] = 'table regenerated from the source'
                except _prange.Unavailable as e:
                    # a store the translator cannot interpret is not a verdict: the table is left as committed, the
                    # obligation is dropped for this run and the behavioural tie decides
                    ctx.extra['prange_translator'] = 'unavailable (obligation dropped for this run): %s' % e
                    log('[prange] translator unavailable:', e)
        except Exception as e:
            ctx.tie('extract-prange', ''.join(traceback.format_exception_only(type(e), e)).strip())
        if hasattr(mod, 'extract'):
            try:
                mod.extract(ctx)
            except Exception as e:
                ctx.tie('extract', ''.join(traceback.format_exception_only(type(e), e)).strip() + '\n' + traceback.format_exc()[-1500:])
        if str(REPO) != '/repo':
            for path, before in _generated_snapshot.items():
                try:
                    now = path.read_text()
                    if now != before:
                        _generated_written[path] = now
                except OSError:
                    pass
        # 2. proofs
        lean_obligations(ctx, ctx.modules, ctx.theorems)
        # 3. correspondence + oracle
        ctx.driver = Driver(mod.DRIVER) if getattr(mod, 'DRIVER', None) else None
        if ctx.driver is not None and ctx.driver.error:
            ctx.tie('driver-build', ctx.driver.error)
        try:
            mod.run(ctx)
        except Infra:
            raise
        except Exception as e:
            # the harness itself could not drive the implementation: the tie is broken
            ctx.tie('harness-exception', traceback.format_exc()[-3000:])
        # 4. verdict
        known = load_known()
        kf = [k for k in known.get('findings', []) if k.get('property') == pid]
        new_failures = []
        for f in ctx.failures:
            hit = next((k for k in kf if k.get('key') == f['key']), None)
            if hit:
                if hit['key'] not in [h['key'] for h in ctx.known_hits]:
                    ctx.known_hits.append({'key': hit['key'], 'what': hit.get('what', '')})
            else:
                new_failures.append(f)
        broken = bool(ctx.proof_broken or ctx.disagreements or ctx.tie_broken)
        if not new_failures and broken and hasattr(mod, 'intensify'):
            ctx.intensified = True
            n0 = len(ctx.failures)
            try:
                mod.intensify(ctx)
            except Infra:
                raise
            except Exception:
                ctx.tie('intensify-exception', traceback.format_exc()[-2000:])
            for f in ctx.failures[n0:]:
                if not any(k.get('key') == f['key'] for k in kf):
                    new_failures.append(f)
        for h in ctx.known_hits:
            print('KNOWN-FINDING: property=%s %s' % (pid, h['what'] or h['key']))
        if new_failures:
            path = write_replay(ctx, 'failing-input', {
                'failure': new_failures[0], 'more_failures': new_failures[1:6],
                'n_failures': len(new_failures),
                'failure_keys': dict(collections.Counter(f['key'] for f in new_failures)),
                'first_failure_per_key': list({f['key']: f for f in reversed(new_failures)}.values())[:20],
                'proof_broken': ctx.proof_broken, 'disagreements': ctx.disagreements[:5],
                'tie_broken': ctx.tie_broken[:5]})
            write_evidence(ctx, len(new_failures))
            print('VIOLATION property=%s replay=%s' % (pid, path))
            return 1
        if broken:
            path = write_replay(ctx, 'no-failing-input-found', {
                'no_longer_checks': {
                    'theorems': ctx.proof_broken,
                    'correspondence': ctx.disagreements[:10],
                    'tie': ctx.tie_broken[:10]},
                'note': 'a proof obligation, the translator or the model/implementation correspondence no longer '
                        'checks; the search found no input on which the real code breaks the property'})
            write_evidence(ctx, 1)
            print('VIOLATION property=%s replay=%s no-failing-input-found' % (pid, path))
            return 1
        write_evidence(ctx, 0)
        print('OK property=%s tier=%s seed=%d obligations=%d/%d evaluations=%d distinct=%d wall=%.1fs' % (
            pid, tier, seed, ctx.discharged, ctx.obligations, ctx.evaluations, len(ctx.distinct), time.time() - ctx.t0))
        return 0
    except Infra as e:
        log('INFRASTRUCTURE FAILURE:', e)
        return 2
    except subprocess.TimeoutExpired as e:
        log('TIMEOUT:', e)
        return 2
    except Exception:
        log('INFRASTRUCTURE FAILURE (unexpected exception in the harness):')
        log(traceback.format_exc())
        return 2
    finally:
        ctx.cleanup()
        if str(REPO) != '/repo':
            # a scratch tree regenerated some lean/AbacusVerif/Generated files from ITS source: put back exactly the
            # files THIS run changed, with the content they had before the run (other properties' files, possibly
            # being regenerated by concurrently running checks, are left alone)
            for path, before in _generated_snapshot.items():
                try:
                    now = path.read_text() if path.exists() else None
                    wrote = _generated_written.get(path)
                    # undo only what THIS run wrote (and nobody has rewritten since)
                    if wrote is not None and now == wrote and now != before:
                        path.write_text(before)
                except OSError:
                    pass
