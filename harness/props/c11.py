"""C11 — compiled kernels never access memory outside their arrays (DESIGN.md §7 C11).

Two implementation-side observations on precondition-satisfying, boundary-directed inputs:
 (a) the COMPILED kernels with NUMBA_BOUNDSCHECK=1 (IndexError; for parallel=True kernels numba
     surfaces it as SystemError/“exception set”),
 (b) `py_func` on index-recording arrays for the serial kernels (exact footprints).
The Lean side: Props/C11.lean collects, from the models of the other properties and Model/C11.lean,
the corollaries  precondition -> no Fault.oob.
"""
from vcommon import pure
import os

os.environ['NUMBA_BOUNDSCHECK'] = '1'   # must precede the first numba import in this process

import warnings  # noqa: E402
from fractions import Fraction  # noqa: E402

import numpy as np  # noqa: E402

from recarray import Rec  # noqa: E402

THEOREMS = [
    'AbacusVerif.Inbounds.interp_inbounds',
    'AbacusVerif.Inbounds.interp_reads_spec',
    'AbacusVerif.Inbounds.rowLoop_inbounds',
    'AbacusVerif.Inbounds.cumsum_inbounds',
    'AbacusVerif.Inbounds.unclamped_would_fault',
    # corollaries of the models of the other kernels (Props/C11All.lean)
    'AbacusVerif.Inbounds.tsc_cic_axis_inbounds',
    'AbacusVerif.Inbounds.tsc_cic_scatter_inbounds',
    'AbacusVerif.Inbounds.tscpar_starts_inbounds',
    'AbacusVerif.Inbounds.twopass_inbounds',
    'AbacusVerif.Inbounds.concat_inbounds',
    'AbacusVerif.Inbounds.pack9_inbounds',
    'AbacusVerif.Inbounds.partition_inbounds',
    'AbacusVerif.Inbounds.zipper_inbounds',
    'AbacusVerif.Inbounds.kmu_search_inbounds',
    'AbacusVerif.Inbounds.kppi_search_inbounds',
]
LEAN_MODULES = ['AbacusVerif.Props.C11', 'AbacusVerif.Props.C11All']
DRIVER = 'drv_c11'
RULE = ('per kernel, boundary-directed inputs generated from its documented precondition (empty arrays, single '
        'elements, zero-particle halos, empty superslabs, (g,g,1) and 2-cell grids, positions exactly at 0 and '
        'BoxSize incl. float overshoot with a half-cell offset, odd npartition with one thread, k/pi ranges ending '
        'below the largest mode, one-bin edges, interpolation one ulp inside the end points) plus random ones; each '
        'run on the compiled kernel under NUMBA_BOUNDSCHECK=1 and, for serial kernels, as py_func on '
        'index-recording arrays; non-trivial = the kernel touched at least one element; distinct by (kernel, input)')
TRUSTED = ['NUMBA_BOUNDSCHECK=1 / boundscheck=True turns every out-of-range access of a SERIAL compiled kernel into an exception; for parallel=True kernels the stores inside prange bodies are not instrumented (probed), so each of them is also compiled serially with boundscheck=True from the same py_func and run on the same cases',
           'numba code generation, np.empty sizes and LLVM are trusted: this is index arithmetic, not the machine']
ASSUMPTIONS = ['kernels outside the anchored files (zcv, shear, menv internals) are covered only by observation (a)']


def _oob_exc(e):
    s = '%s %s' % (type(e).__name__, e)
    return isinstance(e, IndexError) or 'out of bounds' in s or 'exception set' in s or 'recorded out-of-bounds' in s


class Runner:
    def __init__(self, ctx):
        self.ctx = ctx
        self.suffix = ''

    def run(self, kernel, case, fn, nontrivial=True):
        """fn() executes the real kernel on the case; an index fault is a failing input"""
        ctx = self.ctx
        kernel = kernel + self.suffix
        ctx.case(dict(kernel=kernel, **case), nontrivial=nontrivial)
        ctx.count('kernel:' + kernel)
        try:
            with warnings.catch_warnings():
                warnings.simplefilter('ignore')
                return fn()
        except Exception as e:   # noqa: BLE001
            if _oob_exc(e):
                ctx.fail('%s accesses an array out of bounds' % kernel, dict(kernel=kernel, **case),
                         '%s: %s' % (type(e).__name__, str(e)[:200]), 'no out-of-bounds access',
                         key='oob:' + kernel)
                return None
            if isinstance(e, (ValueError, ZeroDivisionError, TypeError, SystemError, AssertionError)):
                # every case is generated from the kernel's documented precondition, so the kernel must run to completion:
                # e.g. numpy's 'cannot assign slice of shape (0, 3) from input of shape (2, 3)' is a store past the end
                # of a view that the slice machinery refused
                ctx.fail('%s raises on an input that satisfies its precondition' % kernel, dict(kernel=kernel, **case),
                         '%s: %s' % (type(e).__name__, str(e)[:200]), 'runs to completion inside its arrays',
                         key='raises:' + kernel)
                return None
            raise


# ------------------------------------------------------------------------------------------ serial builds

PAR_MODULES = ['abacusnbody.analysis.tsc', 'abacusnbody.analysis.power_spectrum', 'abacusnbody.hod.GRAND_HOD',
               'abacusnbody.hod.abacus_hod']
SERIAL_SUFFIX = ' [serial build, boundscheck=True]'


class serial_checked:
    """NUMBA_BOUNDSCHECK=1 does not instrument the *stores* inside the outlined body of a `prange` loop of a
    parallel=True kernel (probed: `a[i] = 1` for i past the end returns silently; loads do raise).  So every
    parallel=True kernel of the anchored modules is additionally compiled from the very same source (`py_func`) as a
    serial kernel with boundscheck=True (prange degrades to range, the thread-block arithmetic is unchanged) and swapped
    into its module for the duration of the block, so that Python-level callers (tsc_parallel, calc_power, gen_gal_cat)
    reach the checked build."""

    def __init__(self, ctx):
        self.ctx = ctx
        self.saved = []

    def __enter__(self):
        import importlib
        import numba
        from numba.core.registry import CPUDispatcher
        names = []
        for mn in PAR_MODULES:
            M = importlib.import_module(mn)
            for k, v in list(vars(M).items()):
                if isinstance(v, CPUDispatcher) and v.targetoptions.get('parallel') and getattr(v, '__module__', None) == mn:
                    ser = numba.njit(boundscheck=True, fastmath=bool(v.targetoptions.get('fastmath', False)))(v.py_func)
                    self.saved.append((M, k, v))
                    setattr(M, k, ser)
                    names.append('%s.%s' % (mn.split('.')[-1], k))
        self.ctx.extra['serial_boundscheck_builds'] = names
        return self

    def __exit__(self, *a):
        for M, k, v in self.saved:
            setattr(M, k, v)
        return False


# ------------------------------------------------------------------------------------------ kernels

def k_cumsum(R, rng):
    from abacusnbody.util import cumsum
    for N in (0, 1, 2, 7):
        for ini in (False, True):
            for fin in (False, True):
                n = N - 1 + ini + fin
                if n < 0:
                    continue
                arr = rng.integers(0, 9, N).astype(np.uint32)
                out = np.zeros(n, dtype=np.uint64)
                R.run('util.cumsum', dict(N=N, initial=ini, final=fin), lambda: cumsum(arr, out, initial=ini, final=fin),
                      nontrivial=n > 0)


def k_bitpacked(R, rng):
    from abacusnbody.data import bitpacked
    for N in (0, 1, 5):
        words = rng.integers(-2 ** 31, 2 ** 31, (N, 3)).astype(np.int32)
        for pos in (None, False, 'arr'):
            for vel in (None, False, 'arr'):
                po = np.empty((N, 3), np.float32) if pos == 'arr' else pos
                vo = np.empty((N, 3), np.float32) if vel == 'arr' else vel
                R.run('bitpacked.unpack_rvint', dict(N=N, pos=str(pos), vel=str(vel)),
                      lambda: bitpacked.unpack_rvint(words, 500.0, posout=po, velout=vo), nontrivial=N > 0)
        pids = rng.integers(0, 2 ** 63, N).astype(np.uint64)
        for mask in range(32):
            sel = dict(pid=bool(mask & 1), lagr_pos=bool(mask & 2), tagged=bool(mask & 4), density=bool(mask & 8),
                       lagr_idx=bool(mask & 16))
            R.run('bitpacked.unpack_pids', dict(N=N, sel=mask),
                  lambda: bitpacked.unpack_pids(pids, box=500.0, ppd=1728, **sel), nontrivial=N > 0 and mask > 0)
    # py_func with recording arrays: exact footprint rows 0..N-1 x cols 0..2
    for N in (0, 1, 4):
        log = []
        words = Rec(rng.integers(-2 ** 31, 2 ** 31, (N, 3)).astype(np.int32), 'intdata', log)
        po = Rec(np.empty((N, 3), np.float32), 'posout', log)
        vo = Rec(np.empty((N, 3), np.float32), 'velout', log)
        R.run('bitpacked._unpack_rvint.py_func', dict(N=N), lambda: pure(bitpacked._unpack_rvint)(words, 500.0, po, vo),
              nontrivial=N > 0)
        wr = sorted(set(k for (t, n, k) in [e[:3] for e in log if e[0] == 'w'] if n == 'posout'))
        exp = [(i, c) for i in range(N) for c in range(3)]
        if wr != exp:
            R.ctx.disagree('_unpack_rvint footprint', dict(N=N), exp, wr)
        R.ctx.traces_validated += 1


def k_pack9(R, rng):
    from abacusnbody.data import pack9
    for N in (0, 1, 2, 9):
        data = rng.integers(0, 255, (N, 9)).astype(np.uint8)
        hdr = rng.random(N) < 0.4
        if N:
            hdr[0] = True
        data[hdr, 0] = 0xFF
        data[~hdr, 0] = np.minimum(data[~hdr, 0], 0xFE)
        npart = int((~hdr).sum())
        for pos in (None, False, 'arr'):
            for vel in (None, False, 'arr'):
                po = np.empty((npart, 3), np.float32) if pos == 'arr' else pos   # exactly npart rows: tightest legal
                vo = np.empty((N, 3), np.float32) if vel == 'arr' else vel
                R.run('pack9.unpack_pack9', dict(N=N, npart=npart, pos=str(pos), vel=str(vel)),
                      lambda: pack9.unpack_pack9(data, 500.0, 1000.0, posout=po, velout=vo), nontrivial=N > 0)


def k_zipper(R, rng):
    from abacusnbody.data.compaso_halo_catalog import CompaSOHaloCatalog as C
    for trial in range(12):
        nh = int(rng.choice([0, 1, 2, 5]))
        npart = int(rng.integers(0, 12))
        lens = rng.integers(0, 4, nh).astype(np.uint32)
        # ranges inside the slab file (WF), zero-particle halos allowed, gaps allowed
        starts = np.zeros(nh, dtype=np.uint64)
        off = 0
        for h in range(nh):
            off += int(rng.integers(0, 3))
            starts[h] = off
            off += int(lens[h])
        npart = max(npart, off)
        cleaned = bool(trial % 2)
        clens = rng.integers(0, 3, nh).astype(np.uint32) if cleaned else np.zeros(nh, np.uint32)
        cstarts = np.zeros(nh, dtype=np.int64)
        coff = 0
        for h in range(nh):
            cstarts[h] = coff
            coff += int(clens[h])
        wo = np.zeros(nh + 1, dtype=np.uint64)
        wo[1:] = np.cumsum(lens.astype(np.uint64) + clens.astype(np.uint64))
        total = int(wo[-1])
        rv = rng.integers(-2 ** 31, 2 ** 31, (npart, 3)).astype(np.int32)
        crv = rng.integers(-2 ** 31, 2 ** 31, (coff + int(rng.integers(0, 3)), 3)).astype(np.int32)
        pid = rng.integers(0, 2 ** 63, npart).astype(np.uint64)
        cpid = rng.integers(0, 2 ** 63, len(crv)).astype(np.uint64)
        case = dict(nh=nh, npart=npart, cleaned=cleaned, lens=lens.tolist(), clens=clens.tolist())
        kw = dict(slab_read_offsets=starts, slab_read_lens=lens, slab_write_offsets=wo, boxsize=500.0)
        if cleaned:
            kw.update(clean_slab_read_offsets=cstarts, clean_slab_read_lens=clens)
        pos = np.empty((total, 3), np.float32)
        vel = np.empty((total, 3), np.float32)
        rvo = np.empty((total, 3), np.int32)
        kwrv = dict(kw, slab_rvint=rv, pos=pos, vel=vel, rvint=rvo)
        if cleaned:
            kwrv['clean_slab_rvint'] = crv
        R.run('compaso._unpack_rv_subsamples', case, lambda: C._unpack_rv_subsamples(**kwrv), nontrivial=total > 0)
        kwp = dict(kw, slab_packedpid=pid, ppd=1728, pid=np.empty(total, np.int64),
                   lagr_pos=np.empty((total, 3), np.float32), tagged=np.empty(total, np.uint8),
                   density=np.empty(total, np.float32), lagr_idx=np.empty((total, 3), np.int16),
                   packedpid=np.empty(total, np.uint64))
        if cleaned:
            kwp['clean_slab_packedpid'] = cpid
        R.run('compaso._unpack_pid_subsamples', case, lambda: C._unpack_pid_subsamples(**kwp), nontrivial=total > 0)


def _positions(rng, n, box, dtype):
    """boundary-directed positions in [0, box]"""
    p = rng.random((n, 3)) * box
    special = np.array([0.0, box, box / 2, np.nextafter(box, 0), box / 4, 3 * box / 4])
    for i in range(n):
        for j in range(3):
            if rng.random() < 0.5:
                p[i, j] = rng.choice(special)
    return p.astype(dtype)


def k_mass(R, rng, thorough):
    from abacusnbody.analysis import cic, tsc
    shapes = [(2, 2, 2), (2, 3, 1), (3, 3, 3), (4, 4, 1), (1, 1, 1), (5, 2, 3), (8, 8, 8), (2, 2, 1)]
    boxes = [252.0, 1.0, 123.0, 1000.0, 64.0]
    for shape in shapes:
        for box in boxes:
            for dtype in (np.float32, np.float64):
                for off in (0.0, 0.5 * box / shape[0], 0.25 * box):
                    n = int(rng.choice([0, 1, 6]))
                    pos = _positions(rng, n, box, dtype)
                    case = dict(shape=list(shape), box=box, dtype=np.dtype(dtype).name, offset=off, pos=pos.tolist())
                    dens = np.zeros(shape, dtype=np.float32)
                    R.run('tsc._tsc_scatter', case, lambda: tsc._tsc_scatter(pos, dens, box, offset=off), nontrivial=n > 0)
                    if off == 0.0:
                        dens2 = np.zeros(shape, dtype=np.float32)
                        R.run('cic.cic_serial', case, lambda: cic.cic_serial(pos, dens2, box), nontrivial=n > 0)
                    else:
                        dens2 = np.zeros(shape, dtype=np.float32)
                        R.run('cic.cic_serial(pos+d)', case, lambda: cic.cic_serial(pos + dtype(off), dens2, box),
                              nontrivial=n > 0)
    # the directed float-overshoot input: x == Box (what _wrap_inplace makes of a tiny negative x), half-cell offset
    for box in (252.0, 123.0, 1000.0, 77.7):
        for g in (2, 3):
            for dtype in (np.float32, np.float64):
                pos = np.array([[box, 0, 0], [0, box, 0], [0, 0, box]], dtype=dtype)
                dens = np.zeros((g, g, g), np.float32)
                off = box / g / 2
                case = dict(shape=[g, g, g], box=box, dtype=np.dtype(dtype).name, offset=off, pos='x=Box on each axis')
                R.run('tsc._tsc_scatter', case, lambda: tsc._tsc_scatter(pos, dens, box, offset=off))
                posw = np.array([[-1e-6, 0, 0]], dtype=dtype)
                dens = np.zeros((g, g, g), np.float32)
                R.run('tsc.tsc_parallel(wrap)', case,
                      lambda: tsc.tsc_parallel(posw, dens, box, nthread=1, offset=off))
    # partition / parallel driver
    for N in (0, 1, 3, 40):
        for nthread in (1, 2, 5, 16):
            for npart in (1, 2, 3, 4, 7):
                box = 64.0
                pos = _positions(rng, N, box, np.float32)
                w = rng.random(N).astype(np.float32)
                case = dict(N=N, nthread=nthread, npartition=npart)
                R.run('tsc.partition_parallel', case,
                      lambda: tsc.partition_parallel(pos, npart, box, weights=w, nthread=nthread, sort=bool(N % 2)),
                      nontrivial=N > 0)
    for n1d in (2, 3, 6, 12, 13):
        for nthread in (1, 2, 4):
            for npart in (None, 1, 2, 3, 4, 5):
                box = 64.0
                pos = _positions(rng, 30, box, np.float32)
                case = dict(n1d=n1d, nthread=nthread, npartition=npart)

                def go():
                    try:
                        tsc.tsc_parallel(pos.copy(), n1d, box, nthread=nthread, npartition=npart)
                    except ValueError:
                        R.ctx.count('tsc_parallel:rejected')
                R.run('tsc.tsc_parallel', case, go)
    pos = (_positions(rng, 50, 10.0, np.float32) * 3 - 10).astype(np.float32)   # one box either side
    R.run('tsc._wrap_inplace', dict(N=50), lambda: tsc._wrap_inplace(pos, 10.0))
    R.run('tsc._zeros_parallel', dict(shape=[0, 3, 3]), lambda: tsc._zeros_parallel((0, 3, 3)), nontrivial=False)
    R.run('tsc._zeros_parallel', dict(shape=[3, 1, 2]), lambda: tsc._zeros_parallel((3, 1, 2)))


def k_power(R, rng, thorough):
    from abacusnbody.analysis import power_spectrum as ps
    L = 2 * np.pi
    for n in ([1, 2, 3, 4, 5, 8] if not thorough else list(range(1, 13))):
        w = rng.random((n, n, n // 2 + 1))
        for kmax in (0.3 * n, n / 2, n / 2 + 0.5, 2.0 * n):
            for nk in (1, 3):
                kedges = np.linspace(0, max(kmax, 0.25), nk + 1)
                for nmu in (1, 3):
                    muedges = np.linspace(0, 1, nmu + 1)
                    for dt in (np.float32, np.float64):
                        for nthread in (1, 3):
                            case = dict(n=n, kmax=kmax, nk=nk, nmu=nmu, dtype=np.dtype(dt).name, nthread=nthread)
                            R.run('power_spectrum.bin_kmu', case,
                                  lambda: ps.bin_kmu(n, L, kedges, muedges, w.astype(dt), np.array([0, 2, 4]), dt, True, nthread))
                for pimax in (0.4, n / 4 + 0.3, n / 2, 2.0 * n):
                    for npi in (1, 4):
                        case = dict(n=n, kmax=kmax, pimax=pimax, npi=npi)
                        R.run('power_spectrum.bin_kppi', case,
                              lambda: ps.bin_kppi(n, L, kedges, pimax, npi, w.astype(np.float32), np.float32, True, 2))
        if n >= 2:
            k_ell = np.linspace(0.0, 0.7 * n, 5)
            P_ell = rng.random((3, 5))
            R.run('power_spectrum.expand_poles_to_3d', dict(n=n),
                  lambda: ps.expand_poles_to_3d(k_ell, P_ell, n, L, np.array([0, 2, 4])))
        R.run('power_spectrum.get_smoothing', dict(n=n), lambda: ps.get_smoothing(n, L, 0.5))
        fld = (rng.random((n, n, n // 2 + 1)) + 1j * rng.random((n, n, n // 2 + 1))).astype(np.complex64)
        R.run('power_spectrum.get_delta_mu2', dict(n=n), lambda: ps.get_delta_mu2(fld, n))
        R.run('power_spectrum.get_raw_power', dict(n=n), lambda: ps.get_raw_power(fld, fld.copy()))
        R.run('power_spectrum.shift_field_fft', dict(n=n), lambda: ps.shift_field_fft(fld.copy(), fld.copy(), n, L, L / n))
        real = rng.random((n, n, n)).astype(np.float32) + 1
        R.run('power_spectrum.normalize_field', dict(n=n), lambda: ps.normalize_field(real, inplace=True))
    # linear_interp: one ulp inside / at / outside the end points of floating-point grids
    drv_lines, drv_cases = [], []
    for trial in range(300 if not thorough else 3000):
        npts = int(rng.integers(2, 60))
        a = float(rng.random() * 2)
        b = a + float(rng.random() * 10 + 0.01)
        dt = np.float32 if trial % 2 else np.float64
        x = np.linspace(a, b, npts).astype(dt)
        y = rng.random(npts).astype(dt)
        cands = [np.nextafter(x[-1], dt(0)), np.nextafter(x[0], dt(np.inf)), x[0], x[-1], x[npts // 2],
                 dt(rng.uniform(a - 1, b + 1)), np.nextafter(np.nextafter(x[-1], dt(0)), dt(0))]
        for xd in cands:
            xd = dt(xd)
            case = dict(npts=npts, a=a, b=b, dtype=np.dtype(dt).name, xd=float(xd))
            R.run('power_spectrum.linear_interp', case, lambda: ps.linear_interp(xd, x, y))
            # model: same comparisons and the same floating-point f
            le, ge = bool(xd <= x[0]), bool(xd >= x[-1])
            f = Fraction(0)
            if not le and not ge:
                fv = (xd - x[0]) / (x[1] - x[0])
                f = Fraction(float(fv))
            drv_lines.append('interp %d %d %d %d %s' % (npts, npts, le, ge, '%d/%d' % (f.numerator, f.denominator)))
            log = []
            try:
                pure(ps.linear_interp)(xd, Rec(x, 'x', log), Rec(y, 'y', log))
                impl = 'ok ' + ','.join('%s%d' % (e[1], e[2][0]) for e in log if e[0] == 'r')
            except IndexError:
                impl = 'err oob'
            drv_cases.append((case, impl))
    outs = R.ctx.driver.query(drv_lines)
    def footprint(t):
        # the property is about WHICH elements are touched: compare the set of subscripts, not how often or in which
        # order they are read (caching x[0] or y[fl] in a local changes the sequence, not the footprint)
        if not t.startswith('ok'):
            return t
        return 'ok ' + ','.join(sorted(set(t[3:].split(',')) - {''}))

    for (case, impl), m in zip(drv_cases, outs):
        R.ctx.traces_validated += 1
        if footprint(m) != footprint(impl):
            R.ctx.disagree('linear_interp access footprint', case, m, impl)


def k_hod(R, rng):
    from abacusnbody.hod import GRAND_HOD as G
    for N1 in range(0, 7):
        for N2 in range(0, 7):
            for T in (1, 2, 3, 5, 16):
                a = np.arange(N1, dtype=np.float64)
                b = np.arange(N2, dtype=np.float64) + 100
                R.run('GRAND_HOD.fast_concatenate', dict(N1=N1, N2=N2, T=T), lambda: G.fast_concatenate(a, b, T),
                      nontrivial=N1 + N2 > 0)
    from abacusnbody.hod.abacus_hod import _searchsorted_parallel
    for n in (0, 1, 5):
        a = np.sort(rng.integers(0, 20, n)).astype(np.int64)
        b = rng.integers(-2, 25, 7).astype(np.int64)
        R.run('abacus_hod._searchsorted_parallel', dict(n=n), lambda: _searchsorted_parallel(a, b))
    # NFW helpers: fewer points than threads (a tracer that is not requested has 0 points), more satellites than draws
    for npts, T in ((0, 2), (1, 2), (1, 16), (5, 3), (40, 16), (16, 16)):
        R.run('GRAND_HOD.getPointsOnSphere', dict(nPoints=npts, Nthread=T), lambda: G.getPointsOnSphere(npts, T),
              nontrivial=npts > 0)
    for nh, nsat, ndraw, T in ((0, 0, 5, 2), (1, 1, 5, 2), (3, 4, 5, 4), (2, 9, 5, 3), (4, 2, 3, 16)):
        num_sat = np.full(nh, nsat, dtype=np.int64)
        tot = int(num_sat.sum())
        f = lambda v: np.full(nh, v, dtype=np.float64)          # noqa: E731
        draw = np.linspace(0.05, 1.5, ndraw)
        rd = G.getPointsOnSphere(tot, T) if tot else np.zeros((0, 3))
        R.run('GRAND_HOD.compute_fast_NFW', dict(nhalo=nh, nsat_per_halo=nsat, ndraw=ndraw, Nthread=T),
              lambda: G.compute_fast_NFW(draw, np.arange(nh, dtype=np.int64), f(0.0), f(1.0), f(2.0), f(10.0), f(20.0), f(30.0),
                                         f(100.0), f(4.0), f(1e13), f(0.5), rd, num_sat, 1.0, 'rd_normal', T, 0.0, 1.0, 1.0),
              nontrivial=tot > 0)
    # the two-pass kernels gen_cent / gen_sats through gen_gal_cat: empty tables, single rows, more threads than
    # rows, sizes not divisible by the thread count (an index fault inside a parallel kernel surfaces as SystemError)
    import hodgen10
    subsets = [('LRG', 'ELG', 'QSO'), ('ELG',), ('LRG', 'QSO')]
    k = 0
    for H, P in ((0, 0), (1, 0), (1, 1), (2, 5), (5, 3), (15, 15), (17, 49)):
        for n in (1, 2, 7, 11, 16):
            subset = subsets[k % len(subsets)]
            k += 1
            halo, part = hodgen10.make_tables(rng, H, P)
            tracers = hodgen10.make_tracers(subset, rng)
            params = hodgen10.make_params()
            R.run('GRAND_HOD.gen_gal_cat(gen_cent,gen_sats)', dict(H=H, P=P, Nthread=n, subset=list(subset)),
                  lambda: G.gen_gal_cat(halo, part, tracers, params, Nthread=n, enable_ranks=bool(k % 2), rsd=bool(k % 3)),
                  nontrivial=H + P > 0)


def run(ctx):
    R = Runner(ctx)
    rng = ctx.rng
    thorough = not ctx.quick
    k_cumsum(R, rng)
    k_bitpacked(R, rng)
    k_pack9(R, rng)
    k_zipper(R, rng)
    k_mass(R, rng, thorough)
    k_power(R, rng, thorough)
    k_hod(R, rng)
    # the same boundary-directed cases once more on serial, fully bounds-checked builds of the parallel kernels
    rng2 = np.random.default_rng([ctx.seed, 1111])
    with serial_checked(ctx):
        R.suffix = SERIAL_SUFFIX
        try:
            k_mass(R, rng2, thorough)
            k_power(R, rng2, thorough)
            k_hod(R, rng2)
        finally:
            R.suffix = ''
    ctx.extra['kernels_exercised'] = sorted(k[7:] for k in ctx.counters if k.startswith('kernel:'))


def intensify(ctx):
    ctx.tier = 'thorough'
    run(ctx)


def replay(ctx, doc):
    print('C11 replays are regenerated from the seed: re-run ./check C11 with VERIF_SEED=%s' % doc.get('seed'))
    run(ctx)
